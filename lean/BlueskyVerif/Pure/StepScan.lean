/-
Model of the step-scan plans of src/bluesky/plans.py (scan / inner_product_scan, list_scan,
grid_scan, list_grid_scan, scan_nd, x2x_scan, log_scan) with the default per-step hooks of
src/bluesky/plan_stubs.py (`one_nd_step` = `move_per_step` + `trigger_and_read`, `one_1d_step`) and the
trajectories of plan_patterns (`inner_product`, `inner_list_product`, `outer_product`,
`outer_list_product` -- the latter two through the C26 model of `snake_cyclers`).

Motors and detectors are identified by their position in the argument list.  Positions are exact
rationals.  The initial value of `pos_cache` and the `num_points` / `num_intervals` expressions of `scan_nd` are
read from the current source (harness/props/C25.py -> StepScanGenerated.lean).
Not modelled: custom `per_step` hooks, pseudo-positioners (`merge_cycler` is the identity
on plain motors), `BLUESKY_PREDECLARE`, hints, the textual `plan_args` metadata.  No Mathlib.
-/
import BlueskyVerif.Pure.Snake
import BlueskyVerif.Pure.Patterns
import BlueskyVerif.Pure.Linspace
import BlueskyVerif.Pure.StepScanGenerated

namespace BlueskyVerif.Pure.StepScan
open BlueskyVerif.Pure BlueskyVerif.Pure.Snake BlueskyVerif.Pure.Patterns

inductive Dev where
  | det (i : Nat)
  | mot (i : Nat)
deriving Repr, DecidableEq

/-- which status group a `wait` message waits for -/
inductive Grp where
  | sets       -- the group of the `set` messages of the same point
  | triggers   -- the group of the `trigger` messages of the same point
  | reset      -- the group of the final position reset (relative scans)
deriving Repr, DecidableEq

inductive Msg where
  | stage (d : Dev)
  | unstage (d : Dev)
  | openRun
  | closeRun
  | checkpoint
  | set (motor : Nat) (pos : Rat) (g : Grp)
  | wait (g : Grp)
  | trigger (d : Dev)
  | create
  | read (d : Dev)
  | save
deriving Repr, DecidableEq

/-- one step of a cycler: motor ↦ position, in the key order of the cycler -/
abbrev Step := List (Nat × Rat)

/-- `pos_cache = defaultdict(lambda: None)` -/
abbrev Cache := Nat → Option Rat

/-- the fresh `pos_cache` of `scan_nd` (default value read from the source) -/
def Cache.empty : Cache := fun _ => Gen.cacheInit
def Cache.put (c : Cache) (m : Nat) (pos : Rat) : Cache := fun k => if k = m then some pos else c k

/-- the loop of `move_per_step`:
```
for motor, pos in step.items():
    if pos == pos_cache[motor]: continue
    yield Msg("set", motor, pos, group=grp); pos_cache[motor] = pos
``` -/
def moves : Step → Cache → List Msg × Cache
  | [], c => ([], c)
  | (m, pos) :: rest, c =>
    if c m = some pos then moves rest c
    else
      let r := moves rest (c.put m pos)
      (Msg.set m pos .sets :: r.1, r.2)

/-- `move_per_step(step, pos_cache)`: checkpoint, the needed sets, wait for them -/
def movePerStep (step : Step) (c : Cache) : List Msg × Cache :=
  let r := moves step c
  (Msg.checkpoint :: r.1 ++ [Msg.wait .sets], r.2)

/-- `trigger_and_read(devices)`: trigger every Triggerable device, wait if there was one, create,
    read every device, save -/
def triggerAndRead (devices : List Dev) (triggerable : Dev → Bool) : List Msg :=
  let ts := devices.filter triggerable
  ts.map Msg.trigger ++ (if ts.isEmpty then [] else [Msg.wait .triggers]) ++ [Msg.create]
    ++ devices.map Msg.read ++ [Msg.save]

/-- `one_nd_step(detectors, step, pos_cache)` -/
def oneNdStep (dets : List Dev) (triggerable : Dev → Bool) (step : Step) (c : Cache) : List Msg × Cache :=
  let r := movePerStep step c
  (r.1 ++ triggerAndRead (dets ++ step.map fun x => Dev.mot x.1) triggerable, r.2)

/-- the loop `for step in list(cycler): yield from per_step(detectors, step, pos_cache)` -/
def perSteps (dets : List Dev) (triggerable : Dev → Bool) : List Step → Cache → List (List Msg)
  | [], _ => []
  | s :: rest, c =>
    let r := oneNdStep dets triggerable s c
    r.1 :: perSteps dets triggerable rest r.2

/-- `scan_nd(detectors, cycler)` with the default per_step: stage (detectors + motors), open_run, the
    per-point blocks, close_run, unstage in reverse order.  `motors` = the cycler's keys (the real code
    iterates a set, so the harness sorts stage/unstage lists by name; here: the given order). -/
def scanNd (dets : List Dev) (triggerable : Dev → Bool) (motors : List Nat) (traj : List Step) : List Msg :=
  let staged := dets ++ motors.map Dev.mot
  staged.map Msg.stage ++ [Msg.openRun] ++ (perSteps dets triggerable traj Cache.empty).flatten
    ++ [Msg.closeRun] ++ staged.reverse.map Msg.unstage

/-! ### Trajectories -/

/-- `cycler(motor, values)` as a list of one-key points -/
def keyed (motor : Nat) (values : List Rat) : List Step := values.map fun v => [(motor, v)]

/-- `reduce(operator.add, cyclers)` where `cyclers[j] = cycler(motor_j, cols[j])`; the real `+`
    raises ValueError on unequal lengths -/
def innerZip (cols : List (List Rat)) : Option (List Step) :=
  match cols with
  | [] => none
  | c :: _ =>
    if cols.all (fun c' => c'.length == c.length) then
      reduce1 addC ((cols.zipIdx).map fun x => keyed x.2 x.1)
    else none

/-- `plan_patterns.inner_product(num, args)`, `args = (motor_j, start_j, stop_j)...` -/
def innerProduct (num : Nat) (args : List (Rat × Rat)) : Option (List Step) :=
  innerZip (args.map fun a => linspace a.1 a.2 num)

/-- turn the label points of the C26 model (one label per axis) into steps -/
def toSteps (pts : List (List Rat)) : List Step := pts.map fun pt => pt.zipIdx.map fun x => (x.2, x.1)

inductive Outcome (α : Type) where
  | valueError
  | typeError
  | ok (v : α)
deriving Repr

def ofRes : Res Rat → Outcome (List Step)
  | .valueError => .valueError
  | .typeError => .typeError
  | .ok pts => .ok (toSteps pts)

/-- `plan_patterns.outer_product(args)` after `chunk_outer_product_args`: axes `(start, stop, num)`,
    `flags` = the `snake` entries (first one False) -/
def outerProduct (axes : List (Rat × Rat × Nat)) (flags : List Bool) : Outcome (List Step) :=
  ofRes (snakeCyclers (axes.map fun a => linspace a.1 a.2.1 a.2.2) flags)

/-! ### Metadata recorded in the RunStart document (`open_run` kwargs) -/

structure Meta where
  numPoints : Nat
  numIntervals : Int
  shape : Option (List Nat) := none
  extents : Option (List (Rat × Rat)) := none
  snaking : Option (List Bool) := none
deriving Repr, DecidableEq

structure Plan where
  msgs : List Msg
  md : Meta
deriving Repr

/-- scan_nd's own entries: `num_points = len(cycler)`, `num_intervals = len(cycler) - 1` (the two
    offsets are read from the source) -/
def ndMeta (traj : List Step) : Meta :=
  { numPoints := traj.length - Gen.numPointsMinus,
    numIntervals := (traj.length : Int) - (Gen.numIntervalsMinus : Nat) }

/-- `scan(detectors, motor_0, start_0, stop_0, ..., num=num)` (= `inner_product_scan`):
    `num` must be a positive whole number, then `scan_nd` over `inner_product`. -/
def scan (dets : List Dev) (trig : Dev → Bool) (args : List (Rat × Rat)) (num : Nat) : Outcome Plan :=
  if num = 0 then .valueError
  else match innerProduct num args with
    | none => .typeError
    | some traj => .ok { msgs := scanNd dets trig (List.range args.length) traj, md := ndMeta traj }

/-- `list_scan(detectors, motor_0, list_0, ...)`: all lists of the same length, `num_points` = the
    length of the first list -/
def listScan (dets : List Dev) (trig : Dev → Bool) (lists : List (List Rat)) : Outcome Plan :=
  match lists with
  | [] => .typeError
  | l :: _ =>
    if !(lists.all fun l' => l'.length == l.length) then .valueError
    else match innerZip lists with
      | none => .typeError
      | some traj =>
        .ok { msgs := scanNd dets trig (List.range lists.length) traj,
              md := { numPoints := l.length, numIntervals := (l.length : Int) - 1 } }

/-- how the caller of `grid_scan` asks for snaking -/
inductive SnakeReq where
  | default                      -- new-style args, `snake_axes=None` (treated as False)
  | axes (sa : SnakeAxes)        -- new-style args with `snake_axes=False/True/[motors]`
  | inArgs (snakes : List Bool)  -- deprecated pattern: a `snake` entry after every motor but the first
deriving Repr

/-- the `snake` column of `chunk_args` after `grid_scan` has applied `snake_axes`; `none` = ValueError
    (slowest motor listed, repeated or unknown motors) -/
def gridFlags (n : Nat) : SnakeReq → Option (List Bool)
  | .default => some (List.replicate n false)
  | .inArgs snakes => if snakes.length + 1 = n then some (false :: snakes) else none
  | .axes .off => some (List.replicate n false)
  | .axes .all => some ((List.range n).map fun i => i != 0)
  | .axes (.these ms) =>
    if !ms.eraseDups.length == ms.length || ms.contains 0 || ms.any (fun m => m ≥ n) then none
    else some ((List.range n).map fun i => i != 0 && ms.contains i)

/-- `grid_scan(detectors, motor_0, start_0, stop_0, num_0, ...)` -/
def gridScan (dets : List Dev) (trig : Dev → Bool) (axes : List (Rat × Rat × Nat)) (req : SnakeReq) :
    Outcome Plan :=
  match gridFlags axes.length req with
  | none => .valueError
  | some flags =>
    match outerProduct axes flags with
    | .valueError => .valueError
    | .typeError => .typeError
    | .ok traj =>
      .ok { msgs := scanNd dets trig (List.range axes.length) traj,
            md := { ndMeta traj with
                    shape := some (axes.map fun a => a.2.2)
                    extents := some (axes.map fun a => (a.1, a.2.1))
                    snaking := some flags } }

def listMin : List Rat → Rat
  | [] => 0
  | x :: xs => xs.foldl min x

def listMax : List Rat → Rat
  | [] => 0
  | x :: xs => xs.foldl max x

/-- `list_grid_scan(detectors, motor_0, list_0, ..., snake_axes=...)` -/
def listGridScan (dets : List Dev) (trig : Dev → Bool) (lists : List (List Rat)) (sa : SnakeAxes) :
    Outcome Plan :=
  match ofRes (outerListProduct lists sa) with
  | .valueError => .valueError
  | .typeError => .typeError
  | .ok traj =>
    .ok { msgs := scanNd dets trig (List.range lists.length) traj,
          md := { ndMeta traj with
                  shape := some (lists.map List.length)
                  extents := some (lists.map fun l => (listMin l, listMax l)) } }

/-- `x2x_scan(detectors, motor1, motor2, start, stop, num)`: a relative inner-product scan of motor 0
    over `[start, stop]` and motor 1 over `[start/2, stop/2]`, offsets added to the initial positions
    (`relative_set_wrapper`), followed by the reset of both motors (`reset_positions_wrapper`). -/
def x2xScan (dets : List Dev) (trig : Dev → Bool) (init0 init1 start stop : Rat) (num : Nat) : Outcome Plan :=
  if num = 0 then .valueError
  else match innerZip [(linspace start stop num).map (init0 + ·), (linspace (start / 2) (stop / 2) num).map (init1 + ·)] with
    | none => .typeError
    | some traj =>
      .ok { msgs := scanNd dets trig [0, 1] traj ++
                    [Msg.set 0 init0 .reset, Msg.set 1 init1 .reset, Msg.wait .reset],
            md := ndMeta traj }

/-- `one_1d_step(detectors, motor, step)`: no position cache, the motor is always set -/
def one1dStep (dets : List Dev) (trig : Dev → Bool) (pos : Rat) : List Msg :=
  [Msg.checkpoint, Msg.set 0 pos .sets, Msg.wait .sets] ++ triggerAndRead (dets ++ [Dev.mot 0]) trig

/-- `log_scan(detectors, motor, start, stop, num)` STRUCTURALLY: `steps` stands for whatever
    `np.logspace(start, stop, num)` returned (not modelled); `num_points = num`. -/
def logScan (dets : List Dev) (trig : Dev → Bool) (steps : List Rat) (num : Nat) : Plan :=
  let staged := dets ++ [Dev.mot 0]
  { msgs := staged.map Msg.stage ++ [Msg.openRun] ++ (steps.map (one1dStep dets trig)).flatten
            ++ [Msg.closeRun] ++ staged.reverse.map Msg.unstage,
    md := { numPoints := num, numIntervals := (num : Int) - 1 } }

/-! ### Observation functions used to state C25 -/

/-- motor positions as driven by the `set` messages -/
abbrev Pos := Nat → Option Rat

/-- replay a message list on the motors; snapshot of the positions at every `save` -/
def snapshots : Pos → List Msg → List Pos
  | _, [] => []
  | p, Msg.set m x _ :: rest => snapshots (fun k => if k = m then some x else p k) rest
  | p, Msg.save :: rest => p :: snapshots p rest
  | p, _ :: rest => snapshots p rest

/-- motor positions after all `set` messages of a list -/
def finalPos : Pos → List Msg → Pos
  | p, [] => p
  | p, Msg.set m x _ :: rest => finalPos (fun k => if k = m then some x else p k) rest
  | p, _ :: rest => finalPos p rest

/-- the snapshots agree with the trajectory, point by point: same number, and at the k-th `save`
    every motor of the k-th step is where that step says -/
def Matches : List Pos → List Step → Prop
  | [], [] => True
  | q :: qs, s :: ss => (∀ x ∈ s, q x.1 = some x.2) ∧ Matches qs ss
  | _, _ => False

/-- recogniser of one per-point block:
    `checkpoint, set*, wait(sets), trigger*, [wait(triggers)], create, read*, save` -/
def blockFrom : Nat → List Msg → Bool
  | 0, Msg.checkpoint :: r => blockFrom 1 r
  | 1, Msg.set _ _ .sets :: r => blockFrom 1 r
  | 1, Msg.wait .sets :: r => blockFrom 2 r
  | 2, Msg.trigger _ :: r => blockFrom 2 r
  | 2, Msg.wait .triggers :: r => blockFrom 3 r
  | 2, Msg.create :: r => blockFrom 4 r
  | 3, Msg.create :: r => blockFrom 4 r
  | 4, Msg.read _ :: r => blockFrom 4 r
  | 4, [Msg.save] => true
  | _, _ => false

def isPointBlock (b : List Msg) : Bool := blockFrom 0 b

end BlueskyVerif.Pure.StepScan
