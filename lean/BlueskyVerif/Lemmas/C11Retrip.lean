/-
C11 helper lemmas, part 5: symbolic execution of a re-trip.  From ANY engine state in which `_run` is
blocked in the `wait_for f` of a suspension, a second `request_suspend` on the SAME future `f` (no pre/post
plan) is followed through four turns of `_run`: the cancellation lands, `_start_suspender` runs, the new
helper yields `rewindable False` and then `wait_for f` -- and the engine is blocked on `f` again, with the
plans that were on the stack untouched underneath.
-/
import BlueskyVerif.Lemmas.C11Wait
import BlueskyVerif.Lemmas.C11Start

namespace BlueskyVerif.Engine

def startMsg (idx : Nat) : Msg := { cmd := "_start_suspender", iargs := [(idx : Int)] }

/-! ### small facts about the blocks of `_run` on the view -/

theorem setState_view {s s' : EState} {n : St} (h : setState s n = .ok s') : view s' = { view s with state := n } := by
  unfold setState at h; split at h
  · cases h; rfl
  · cases h

theorem setState_ok_of {s : EState} {n : St} (hal : (Src.transitions s.state).contains n = true) :
    ∃ s', setState s n = .ok s' := by
  unfold setState
  rw [dif_pos hal]
  exact ⟨_, rfl⟩

theorem noteMsg_view (s : EState) (m : Msg) :
    view (noteMsg s m) = { view s with msgs := s.msgs ++ [m], stashed := none } := by
  have stage3 : ∀ s0 : EState, view (match s0.msgCache with
      | some c => if s0.rewindable && !Src.uncacheable.contains m.cmd then { s0 with msgCache := some (c ++ [m]) } else s0
      | none => s0) = view s0 := by
    intro s0
    split
    · rename_i c hc
      split
      · simp only [view, hc]; rfl
      · rfl
    · rfl
  have stage2 : ∀ s0 : EState, view (match m.obj with
      | some o => if s0.objsSeen.contains o then s0 else { s0 with objsSeen := s0.objsSeen ++ [o] }
      | none => s0) = view s0 := by
    intro s0; split
    · split <;> rfl
    · rfl
  let s1 : EState := { s with msgs := s.msgs ++ [m], stashed := none }
  let s2 : EState := match m.obj with
    | some o => if s1.objsSeen.contains o then s1 else { s1 with objsSeen := s1.objsSeen ++ [o] }
    | none => s1
  calc view (noteMsg s m) = view s2 := stage3 s2
    _ = view s1 := stage2 s1
    _ = _ := rfl

theorem fin_view_some (s : EState) (r r0 : Resp) (h : s.resp = some r0) :
    view (fin s r) = { view s with respStack := r :: s.respStack, resp := none } := by
  unfold fin; rw [h]; rfl

/-- the loop top in the ordinary situation (running, permitted, nothing stashed): `_run` goes to sleep(0) -/
theorem loopTop_running (s : EState) (hst : s.state = .running) (hp : s.permit = true) (hs : s.stashed = none) :
    loopTop s = .stop { s with pc := .loopSleep, resp := none } := by
  unfold loopTop
  simp [hst, hp, hs]

theorem runLoop_running (n : Nat) (s : EState) (hst : s.state = .running) (hp : s.permit = true) (hs : s.stashed = none) :
    runLoop (n + 1) s = { s with pc := .loopSleep, resp := none } := by
  unfold runLoop
  rw [loopTop_running s hst hp hs]
  simp

/-- the loop top after a suspension request: back to `running`, then sleep(0) -/
theorem runLoop_suspending (n : Nat) (s : EState) (hst : s.state = .suspending) (hp : s.permit = true)
    (hs : s.stashed = none) (hc : s.msgCache.isSome = true) :
    view (runLoop (n + 1) s) = { view s with state := .running, pc := .loopSleep, resp := none } := by
  have hal : (Src.transitions s.state).contains .running = true := by rw [hst]; decide
  obtain ⟨s', hs'⟩ := setState_ok_of hal
  have hv := setState_view hs'
  have hp' : s'.permit = true := by have := congrArg View.permit hv; simpa [view, hp] using this
  have hst' : s'.stashed = none := by have := congrArg View.stashed hv; simpa [view, hs] using this
  have hnone : s.msgCache.isNone = false := by cases h : s.msgCache <;> simp_all
  unfold runLoop loopTop
  simp only [hst, hnone, Bool.and_false, Bool.false_eq_true, ↓reduceIte, beq_self_eq_true]
  simp only [hs', hp', hst', Bool.not_true, Bool.false_eq_true, ↓reduceIte]
  have : ({ s' with pc := PC.loopSleep, resp := none } : EState).pc ≠ .finished := by simp
  simp only [beq_iff_eq, this, ↓reduceIte]
  simp only [view] at hv ⊢
  simp only [View.mk.injEq] at hv ⊢
  simp [hv, hp, hs]

/-- `r` is an ordinary value (sent, not thrown) -/
def Resp.plain : Resp → Bool
  | .exc _ => false
  | _ => true

/-- one ordinary turn after sleep(0): the response on top of the stack is sent into the top plan, which
    yields `m`; `m` is then processed -/
theorem afterSleep_send (s : EState) (r : Resp) (rs : List Resp) (g g' : Gen) (gs : List Gen) (m : Msg)
    (hR : s.respStack = r :: rs) (hP : s.planStack = g :: gs) (he : s.exceptionSlot = none) (hs : s.stashed = none)
    (hr : r.plain = true) (hmid : g.pendingMid = none) (hg : g.resume (.send r) = (.yld m, g')) :
    afterSleep s = processMsg { s with respStack := rs, resp := some r, planStack := g' :: gs } m := by
  unfold afterSleep
  rw [hR, hP]
  simp only []
  have ht : takeResp s r rs = { s with respStack := rs, resp := some r } := by
    unfold takeResp; simp only []; rw [he]
  rw [ht]
  have hth : thrownOf { s with respStack := rs, resp := some r } r = none := by
    unfold thrownOf
    simp only [hs]
    cases r <;> first | rfl | (simp [Resp.plain] at hr)
  rw [hth]
  simp only []
  have hl : logYield { s with respStack := rs, resp := some r } g (.send r) = { s with respStack := rs, resp := some r } := by
    unfold logYield; rw [hmid]
  rw [hl, hg]
  rfl

theorem processMsg_value (s s' : EState) (m : Msg) (r : Resp) (hreg : Src.registry.contains m.cmd = true)
    (hc : runCommand (noteMsg s m) m = (s', .value r)) : processMsg s m = .loopTop (fin s' r) := by
  unfold processMsg
  simp only [hreg, Bool.not_true, Bool.false_eq_true, ↓reduceIte, hc]
  rfl

theorem processMsg_suspend (s s' : EState) (m : Msg) (pc : PC) (hreg : Src.registry.contains m.cmd = true)
    (hc : runCommand (noteMsg s m) m = (s', .suspend pc)) :
    processMsg s m = .stop { s' with pc := pc, curMsg := some m } := by
  unfold processMsg
  simp only [hreg, Bool.not_true, Bool.false_eq_true, ↓reduceIte, hc]
  rfl

theorem advance_loopSleep (n : Nat) (s : EState) (hpc : s.pc = .loopSleep) (hc : s.cancelPending = false) :
    advance n s = contFlow n (afterSleep s) := by
  unfold advance
  rw [hc, clearCancel_id s hc]
  unfold advanceAt
  rw [hpc]
  simp

theorem advanceAt_wait_cancel (fuel : Nat) (s : EState) (f : Nat) (hpc : s.pc = .inWaitFor f) :
    advanceAt fuel true s = contFlow fuel (hCancel s .none) := by
  unfold advanceAt
  rw [hpc]
  simp

/-! ### the five stages of a re-trip -/

/-- stage 0: `request_suspend(fut f)` while running and resumable: the `_start_suspender` message and a
    `None` response are pushed, the state becomes `suspending`, the task is cancelled -/
theorem request_view (s : EState) (f : Nat) (j : Option String) (hst : s.state = .running)
    (hc : s.msgCache.isSome = true) :
    view (applyAction s (.suspend f none none j)) =
      { view s with suspReqs := s.suspReqs ++ [{ fut := f, pre := none, post := none, just := j }],
                    planStack := Gen.fresh [startMsg s.suspReqs.length] :: s.planStack,
                    respStack := .none :: s.respStack, state := .suspending, cancelPending := true } := by
  have hnone : s.msgCache.isNone = false := by cases h : s.msgCache <;> simp_all
  let X : EState := { s with suspReqs := s.suspReqs ++ [{ fut := f, pre := none, post := none, just := j }],
                             planStack := Gen.fresh [startMsg s.suspReqs.length] :: s.planStack,
                             respStack := .none :: s.respStack }
  have hal : (Src.transitions X.state).contains .suspending = true := by
    show (Src.transitions s.state).contains .suspending = true
    rw [hst]; decide
  obtain ⟨s', hs'⟩ := setState_ok_of hal
  have hv := setState_view hs'
  have hne : (X.state != St.paused) = true := by show (s.state != St.paused) = true; rw [hst]; decide
  have : applyAction s (.suspend f none none j) = { s' with cancelPending := true } := by
    simp only [applyAction]
    unfold requestSuspend
    rw [if_neg (by simp [hnone])]
    unfold pushSuspender
    simp only []
    show (if (X.state != St.paused) = true then
        match setState X St.suspending with
        | .ok s => { s with cancelPending := true }
        | .error _ => refuse X "suspend"
      else X) = _
    rw [if_pos hne, hs']
  rw [this]
  simp only [view] at hv ⊢
  simp only [View.mk.injEq] at hv ⊢
  simp [hv, X]

/-- stage 1: the cancellation lands in the blocked `wait_for`: the wait is over with response `None`
    (this is where a cancelled wait becomes indistinguishable from a completed one), the state goes back
    to `running`, `_run` sleeps at the loop top; no message is executed -/
theorem cancel_lands (n : Nat) (s : EState) (f : Nat) (r0 : Resp) (hpc : s.pc = .inWaitFor f)
    (hcp : s.cancelPending = true) (hst : s.state = .suspending) (hp : s.permit = true) (hs : s.stashed = none)
    (hc : s.msgCache.isSome = true) (hr : s.resp = some r0) :
    view (advance (n + 1) s) =
      { view s with cancelPending := false, respStack := .none :: s.respStack, resp := none, state := .running,
                    pc := .loopSleep } := by
  let s0 : EState := { s with cancelPending := false }
  have h1 : advance (n + 1) s = runLoop (n + 1) (fin s0 .none) := by
    have ha : advance (n + 1) s = advanceAt (n + 1) true s0 := by unfold advance; rw [hcp]
    rw [ha, advanceAt_wait_cancel (n + 1) s0 f hpc]
    have hh : hCancel s0 .none = .loopTop (fin s0 .none) := by
      unfold hCancel
      have e1 : s0.state = .suspending := hst
      simp [e1, Src.cancelMap]
    rw [hh]
    rfl
  rw [h1]
  have hf := fin_view_some s0 .none r0 hr
  have e_st : (fin s0 .none).state = .suspending := by have := congrArg View.state hf; simpa [view, s0, hst] using this
  have e_p : (fin s0 .none).permit = true := by have := congrArg View.permit hf; simpa [view, s0, hp] using this
  have e_s : (fin s0 .none).stashed = none := by have := congrArg View.stashed hf; simpa [view, s0, hs] using this
  have e_c : (fin s0 .none).msgCache.isSome = true := by have := congrArg View.cacheSome hf; simpa [view, s0, hc] using this
  rw [runLoop_suspending n _ e_st e_p e_s e_c, hf]
  rfl

theorem view_preRewind (s : EState) (j : String) : view (preRewind s j) = view s := by
  unfold preRewind; simp

theorem runLoop_running_view (n : Nat) (s : EState) (V : View) (hv : view s = V) (hst : V.state = .running)
    (hp : V.permit = true) (hs : V.stashed = none) :
    view (runLoop (n + 1) s) = { V with pc := .loopSleep, resp := none } := by
  subst hv
  rw [runLoop_running n s hst hp hs]
  rfl

theorem contFlow_loopTop (n : Nat) (s : EState) : contFlow n (.loopTop s) = runLoop n s := rfl

/-- stage 2: `_start_suspender` is taken from the stack and executed: the helper and a `None` response are
    pushed; one (engine-made) message is logged -/
theorem start_runs (n : Nat) (s : EState) (idx : Nat) (rq : SuspReq) (rs : List Resp) (gs : List Gen)
    (hpc : s.pc = .loopSleep) (hcp : s.cancelPending = false) (hst : s.state = .running) (hp : s.permit = true)
    (hs : s.stashed = none) (he : s.exceptionSlot = none) (hR : s.respStack = .none :: rs)
    (hP : s.planStack = Gen.fresh [startMsg idx] :: gs) (hq : s.suspReqs[idx]? = some rq) :
    ∃ was rw, view (advance (n + 1) s) =
      { view s with respStack := .none :: .none :: rs, planStack := suspHelper rq was rw :: Gen.list [] :: gs,
                    resp := none, msgs := s.msgs ++ [startMsg idx], cacheSome := true } := by
  rw [advance_loopSleep _ s hpc hcp,
    afterSleep_send s .none rs (Gen.fresh [startMsg idx]) (Gen.list []) gs (startMsg idx) hR hP he hs rfl rfl rfl]
  let s1 : EState := { s with respStack := rs, resp := some .none, planStack := Gen.list [] :: gs }
  let s2 : EState := noteMsg s1 (startMsg idx)
  have hv2 : view s2 = { view s1 with msgs := s.msgs ++ [startMsg idx], stashed := none } := noteMsg_view s1 _
  have hreg : Src.registry.contains (startMsg idx).cmd = true := by
    show Src.registry.contains "_start_suspender" = true
    decide
  have hq' : s2.suspReqs[((startMsg idx).iargs.headD 0).toNat]? = some rq := by
    have e : s2.suspReqs = s.suspReqs := by have := congrArg View.suspReqs hv2; simpa [view, s1] using this
    rw [e]
    simpa [startMsg] using hq
  have hrun : runCommand s2 (startMsg idx) = cmdStartSuspender s2 (startMsg idx) := rfl
  rw [processMsg_value s1 _ (startMsg idx) .none hreg (hrun.trans (cmdStartSuspender_eq s2 _ rq hq')), contFlow_loopTop]
  let s3 : EState := (rewindPlan (preRewind s2 (rq.just.getD "suspended"))).2
  have hv3 : view s3 = { view s2 with cacheSome := true } := by
    show view (rewindPlan _).2 = _
    rw [view_rewindPlan, view_preRewind]
  refine ⟨s3.rewindable, (rewindPlan (preRewind s2 (rq.just.getD "suspended"))).1, ?_⟩
  let s4 : EState := { s3 with planStack := suspHelper rq s3.rewindable (rewindPlan (preRewind s2 (rq.just.getD "suspended"))).1 :: s3.planStack,
                               respStack := .none :: s3.respStack }
  have hr4 : s4.resp = some .none := by
    have := congrArg View.resp hv3
    simp only [view] at this hv2
    have h2 := congrArg View.resp hv2
    simp only [s1] at h2
    show s3.resp = _
    rw [this]; exact h2
  have hv5 := fin_view_some s4 .none .none hr4
  have hv4 : view s4 = { view s3 with planStack := suspHelper rq s3.rewindable (rewindPlan (preRewind s2 (rq.just.getD "suspended"))).1 :: s3.planStack,
                                      respStack := .none :: s3.respStack } := rfl
  have e_rs : s3.respStack = rs := by
    have := congrArg View.respStack hv3; rw [hv2] at this; simpa [view, s1] using this
  have e_ps : s3.planStack = Gen.list [] :: gs := by
    have := congrArg View.planStack hv3; rw [hv2] at this; simpa [view, s1] using this
  have e4 : s4.respStack = .none :: rs := by show Resp.none :: s3.respStack = _; rw [e_rs]
  show view (runLoop (n + 1) (fin s4 .none)) = _
  rw [runLoop_running_view n (fin s4 .none) _ hv5]
  · rw [hv4, hv3, hv2]
    simp only [view, s1, hpc, hs, e4, e_ps]
  · rw [hv4, hv3, hv2]; exact hst
  · rw [hv4, hv3, hv2]; exact hp
  · rw [hv4, hv3, hv2]

/-- the helper without pre/post plan after its first message -/
def helperTail (_f : Nat) (was : Bool) (rw : List Msg) : List Gen :=
  [Gen.list [mRewindable was], Gen.list rw]

theorem cmdRewindable_view (s : EState) (m : Msg) (a : Int) (as : List Int) (h : m.iargs = a :: as) :
    ∃ b, cmdRewindable s m = ((cmdRewindable s m).1, .value (.bool b)) ∧ view (cmdRewindable s m).1 = view s := by
  unfold cmdRewindable
  rw [h]
  simp only []
  split
  · exact ⟨_, rfl, by rw [view_resetCheckpointMeth]; rfl⟩
  · exact ⟨_, rfl, rfl⟩

/-- stage 3: the helper's first message `rewindable False` -/
theorem rewindable_runs (n : Nat) (s : EState) (f : Nat) (j : Option String) (was : Bool) (rw : List Msg)
    (rs : List Resp) (gs : List Gen)
    (hpc : s.pc = .loopSleep) (hcp : s.cancelPending = false) (hst : s.state = .running) (hp : s.permit = true)
    (hs : s.stashed = none) (he : s.exceptionSlot = none) (hR : s.respStack = .none :: rs)
    (hP : s.planStack = suspHelper { fut := f, pre := none, post := none, just := j } was rw :: gs) :
    ∃ b, view (advance (n + 1) s) =
      { view s with respStack := .bool b :: rs,
                    planStack := .chain (.list []) (Gen.list [mWaitFor f, mResume] :: helperTail f was rw) :: gs,
                    resp := none, msgs := s.msgs ++ [mRewindable false] } := by
  rw [advance_loopSleep _ s hpc hcp,
    afterSleep_send s .none rs _ (.chain (.list []) (Gen.list [mWaitFor f, mResume] :: helperTail f was rw)) gs
      (mRewindable false) hR hP he hs rfl rfl rfl]
  let s1 : EState := { s with respStack := rs, resp := some .none,
                              planStack := .chain (.list []) (Gen.list [mWaitFor f, mResume] :: helperTail f was rw) :: gs }
  let s2 : EState := noteMsg s1 (mRewindable false)
  have hv2 : view s2 = { view s1 with msgs := s.msgs ++ [mRewindable false], stashed := none } := noteMsg_view s1 _
  have hreg : Src.registry.contains (mRewindable false).cmd = true := by
    show Src.registry.contains "rewindable" = true
    decide
  have hrun : runCommand s2 (mRewindable false) = cmdRewindable s2 (mRewindable false) := rfl
  obtain ⟨b, hb, hv3⟩ := cmdRewindable_view s2 (mRewindable false) 0 [] rfl
  refine ⟨b, ?_⟩
  rw [processMsg_value s1 _ (mRewindable false) (.bool b) hreg (hrun.trans hb), contFlow_loopTop]
  have hr3 : (cmdRewindable s2 (mRewindable false)).1.resp = some .none := by
    have := congrArg View.resp hv3; rw [hv2] at this; simpa [view, s1] using this
  have hv4 := fin_view_some _ (.bool b) .none hr3
  have e_rs : (cmdRewindable s2 (mRewindable false)).1.respStack = rs := by
    have := congrArg View.respStack hv3; rw [hv2] at this; simpa [view, s1] using this
  rw [runLoop_running_view n _ _ hv4]
  · rw [hv3, hv2]
    simp only [view, s1, hpc, hs, e_rs]
  · rw [hv3, hv2]; exact hst
  · rw [hv3, hv2]; exact hp
  · rw [hv3, hv2]

/-- stage 4: the helper's `wait_for f`: the future is not released, `_run` blocks again -/
theorem waitfor_runs (n : Nat) (s : EState) (f : Nat) (b : Bool) (rest : List Gen) (rs : List Resp) (gs : List Gen)
    (hpc : s.pc = .loopSleep) (hcp : s.cancelPending = false)
    (hs : s.stashed = none) (he : s.exceptionSlot = none) (hR : s.respStack = .bool b :: rs)
    (hP : s.planStack = .chain (.list []) (Gen.list [mWaitFor f, mResume] :: rest) :: gs)
    (hf : s.futs.contains f = false) :
    view (advance (n + 1) s) =
      { view s with respStack := rs, planStack := .chain (.list [mResume]) rest :: gs, resp := some (.bool b),
                    msgs := s.msgs ++ [mWaitFor f], pc := .inWaitFor f } := by
  rw [advance_loopSleep _ s hpc hcp,
    afterSleep_send s (.bool b) rs _ (.chain (.list [mResume]) rest) gs (mWaitFor f) hR hP he hs rfl rfl rfl]
  let s1 : EState := { s with respStack := rs, resp := some (.bool b), planStack := .chain (.list [mResume]) rest :: gs }
  let s2 : EState := noteMsg s1 (mWaitFor f)
  have hv2 : view s2 = { view s1 with msgs := s.msgs ++ [mWaitFor f], stashed := none } := noteMsg_view s1 _
  have hreg : Src.registry.contains (mWaitFor f).cmd = true := by
    show Src.registry.contains "wait_for" = true
    decide
  have hrun : runCommand s2 (mWaitFor f) = cmdWaitFor s2 (mWaitFor f) := rfl
  have hidx : ((mWaitFor f).iargs.headD 0).toNat = f := by simp [mWaitFor]
  have hf2 : s2.futs.contains ((mWaitFor f).iargs.headD 0).toNat = false := by
    rw [hidx]
    have : s2.futs = s.futs := by have := congrArg View.futs hv2; simpa [view, s1] using this
    rw [this]; exact hf
  have hcmd := cmdWaitFor_suspends s2 (mWaitFor f) hf2
  rw [hidx] at hcmd
  rw [processMsg_suspend s1 _ (mWaitFor f) (.inWaitFor f) hreg (hrun.trans hcmd)]
  show view (contFlow (n + 1) (.stop { noteFut s2 f with pc := .inWaitFor f, curMsg := some (mWaitFor f) })) = _
  have hc : contFlow (n + 1) (.stop { noteFut s2 f with pc := .inWaitFor f, curMsg := some (mWaitFor f) })
      = { noteFut s2 f with pc := .inWaitFor f, curMsg := some (mWaitFor f) } := by
    simp [contFlow]
  rw [hc]
  have hv3 : view { noteFut s2 f with pc := PC.inWaitFor f, curMsg := some (mWaitFor f) }
      = { view (noteFut s2 f) with pc := .inWaitFor f } := rfl
  rw [hv3, (noteFut_same s2 f).2.2.2.2, hv2]
  simp only [view, s1, hs]

/-! ### the stages restated on an explicit view `V` (so that they compose syntactically) -/

theorem request_view_V (s : EState) (f : Nat) (j : Option String) (V : View) (hv : view s = V)
    (hst : V.state = .running) (hc : V.cacheSome = true) :
    view (applyAction s (.suspend f none none j)) =
      { V with suspReqs := V.suspReqs ++ [{ fut := f, pre := none, post := none, just := j }],
               planStack := Gen.fresh [startMsg V.suspReqs.length] :: V.planStack,
               respStack := .none :: V.respStack, state := .suspending, cancelPending := true } := by
  subst hv; exact request_view s f j hst hc

theorem cancel_lands_V (n : Nat) (s : EState) (f : Nat) (r0 : Resp) (V : View) (hv : view s = V)
    (hpc : V.pc = .inWaitFor f) (hcp : V.cancelPending = true) (hst : V.state = .suspending) (hp : V.permit = true)
    (hs : V.stashed = none) (hc : V.cacheSome = true) (hr : V.resp = some r0) :
    view (advance (n + 1) s) =
      { V with cancelPending := false, respStack := .none :: V.respStack, resp := none, state := .running,
               pc := .loopSleep } := by
  subst hv; exact cancel_lands n s f r0 hpc hcp hst hp hs hc hr

theorem start_runs_V (n : Nat) (s : EState) (idx : Nat) (rq : SuspReq) (rs : List Resp) (gs : List Gen) (V : View)
    (hv : view s = V) (hpc : V.pc = .loopSleep) (hcp : V.cancelPending = false) (hst : V.state = .running)
    (hp : V.permit = true) (hs : V.stashed = none) (he : V.exceptionSlot = none) (hR : V.respStack = .none :: rs)
    (hP : V.planStack = Gen.fresh [startMsg idx] :: gs) (hq : V.suspReqs[idx]? = some rq) :
    ∃ was rw, view (advance (n + 1) s) =
      { V with respStack := .none :: .none :: rs, planStack := suspHelper rq was rw :: Gen.list [] :: gs,
               resp := none, msgs := V.msgs ++ [startMsg idx], cacheSome := true } := by
  subst hv; exact start_runs n s idx rq rs gs hpc hcp hst hp hs he hR hP hq

theorem rewindable_runs_V (n : Nat) (s : EState) (f : Nat) (j : Option String) (was : Bool) (rw : List Msg)
    (rs : List Resp) (gs : List Gen) (V : View) (hv : view s = V)
    (hpc : V.pc = .loopSleep) (hcp : V.cancelPending = false) (hst : V.state = .running) (hp : V.permit = true)
    (hs : V.stashed = none) (he : V.exceptionSlot = none) (hR : V.respStack = .none :: rs)
    (hP : V.planStack = suspHelper { fut := f, pre := none, post := none, just := j } was rw :: gs) :
    ∃ b, view (advance (n + 1) s) =
      { V with respStack := .bool b :: rs,
               planStack := .chain (.list []) (Gen.list [mWaitFor f, mResume] :: helperTail f was rw) :: gs,
               resp := none, msgs := V.msgs ++ [mRewindable false] } := by
  subst hv; exact rewindable_runs n s f j was rw rs gs hpc hcp hst hp hs he hR hP

theorem waitfor_runs_V (n : Nat) (s : EState) (f : Nat) (b : Bool) (rest : List Gen) (rs : List Resp) (gs : List Gen)
    (V : View) (hv : view s = V) (hpc : V.pc = .loopSleep) (hcp : V.cancelPending = false)
    (hs : V.stashed = none) (he : V.exceptionSlot = none) (hR : V.respStack = .bool b :: rs)
    (hP : V.planStack = .chain (.list []) (Gen.list [mWaitFor f, mResume] :: rest) :: gs)
    (hf : V.futs.contains f = false) :
    view (advance (n + 1) s) =
      { V with respStack := rs, planStack := .chain (.list [mResume]) rest :: gs, resp := some (.bool b),
               msgs := V.msgs ++ [mWaitFor f], pc := .inWaitFor f } := by
  subst hv; exact waitfor_runs n s f b rest rs gs hpc hcp hs he hR hP hf

/-! ### the re-trip theorem -/

/-- `_run` is blocked in the `wait_for f` of a suspension helper, `f` is unreleased, and nothing else is
    going on (running, permitted, no cancellation / exception pending, resumable, caller still blocked) -/
structure Blocked (f : Nat) (s : EState) : Prop where
  pc : s.pc = .inWaitFor f
  unreleased : s.futs.contains f = false
  running : s.state = .running
  permit : s.permit = true
  noCancel : s.cancelPending = false
  noStash : s.stashed = none
  noExc : s.exceptionSlot = none
  resumable : s.msgCache.isSome = true
  inCommand : s.resp.isSome = true
  callerBlocked : s.blockingEvent = false

/-- the four turns of `_run` that follow the request -/
def fourTurns (n : Nat) (s : EState) : EState :=
  advance (n + 1) (advance (n + 1) (advance (n + 1) (advance (n + 1) s)))

theorem retrip_blocks_again (n : Nat) (s : EState) (f : Nat) (j : Option String) (hb : Blocked f s) :
    Blocked f (fourTurns n (applyAction s (.suspend f none none j))) ∧
    (∃ was rw, (fourTurns n (applyAction s (.suspend f none none j))).planStack =
        .chain (.list [mResume]) (helperTail f was rw) :: Gen.list [] :: s.planStack) ∧
    (fourTurns n (applyAction s (.suspend f none none j))).respStack = .none :: .none :: s.respStack ∧
    (fourTurns n (applyAction s (.suspend f none none j))).msgs =
      s.msgs ++ [startMsg s.suspReqs.length, mRewindable false, mWaitFor f] := by
  obtain ⟨r0, hr0⟩ := Option.isSome_iff_exists.mp hb.inCommand
  have v0 := request_view_V s f j _ rfl hb.running hb.resumable
  have v1 := cancel_lands_V n _ f r0 _ v0 hb.pc rfl rfl hb.permit hb.noStash hb.resumable hr0
  obtain ⟨was, rw, v2⟩ := start_runs_V n _ s.suspReqs.length { fut := f, pre := none, post := none, just := j }
    (.none :: s.respStack) s.planStack _ v1 rfl rfl rfl hb.permit hb.noStash hb.noExc rfl rfl (by simp [view])
  obtain ⟨b, v3⟩ := rewindable_runs_V n _ f j was rw (.none :: .none :: s.respStack) (Gen.list [] :: s.planStack) _ v2
    rfl rfl rfl hb.permit hb.noStash hb.noExc rfl rfl
  have v4 := waitfor_runs_V n _ f b (helperTail f was rw) (.none :: .none :: s.respStack) (Gen.list [] :: s.planStack) _ v3
    rfl rfl hb.noStash hb.noExc rfl rfl hb.unreleased
  have f4 : ∀ {α} (p : View → α), p (view (fourTurns n (applyAction s (.suspend f none none j)))) = _ :=
    fun p => congrArg p v4
  refine ⟨⟨f4 View.pc, (f4 (fun V => V.futs.contains f)).trans hb.unreleased, f4 View.state, (f4 View.permit).trans hb.permit,
    f4 View.cancelPending, (f4 View.stashed).trans hb.noStash, (f4 View.exceptionSlot).trans hb.noExc,
    f4 View.cacheSome, ?_, (f4 View.blockingEvent).trans hb.callerBlocked⟩, ⟨was, rw, f4 View.planStack⟩, f4 View.respStack, ?_⟩
  · have : (fourTurns n (applyAction s (.suspend f none none j))).resp = some (.bool b) := f4 View.resp
    rw [this]; rfl
  · have : (fourTurns n (applyAction s (.suspend f none none j))).msgs
        = ((s.msgs ++ [startMsg s.suspReqs.length]) ++ [mRewindable false]) ++ [mWaitFor f] := f4 View.msgs
    rw [this]; simp

/-- any number of consecutive re-trips on the same future (justifications `js`) -/
def retrips (n : Nat) (f : Nat) : List (Option String) → EState → EState
  | [], s => s
  | j :: js, s => retrips n f js (fourTurns n (applyAction s (.suspend f none none j)))

theorem retrips_blocked (n : Nat) (f : Nat) (js : List (Option String)) (s : EState) (hb : Blocked f s) :
    Blocked f (retrips n f js s) ∧
    (∃ tops, (retrips n f js s).planStack = tops ++ s.planStack) ∧
    (∃ extra, (retrips n f js s).msgs = s.msgs ++ extra ∧ ∀ m ∈ extra, m.mid = none) := by
  induction js generalizing s with
  | nil => exact ⟨hb, ⟨[], rfl⟩, ⟨[], by simp [retrips], by simp⟩⟩
  | cons j js ih =>
    obtain ⟨hb1, ⟨was, rw, hp1⟩, _, hm1⟩ := retrip_blocks_again n s f j hb
    obtain ⟨hb2, ⟨tops, hp2⟩, ⟨extra, hm2, hmid⟩⟩ := ih _ hb1
    refine ⟨hb2, ⟨tops ++ [.chain (.list [mResume]) (helperTail f was rw), Gen.list []], ?_⟩,
      ⟨[startMsg s.suspReqs.length, mRewindable false, mWaitFor f] ++ extra, ?_, ?_⟩⟩
    · show (retrips n f js _).planStack = _
      rw [hp2, hp1]; simp
    · show (retrips n f js _).msgs = _
      rw [hm2, hm1]; simp
    · intro m hm
      rcases List.mem_append.mp hm with h | h
      · simp only [List.mem_cons, List.not_mem_nil, or_false] at h
        rcases h with h | h | h <;> subst h <;> rfl
      · exact hmid m h

end BlueskyVerif.Engine
