/-
Helper lemmas for C25 (part 1, core Lean only): replaying the message list of `scan_nd` on the
motors -- the position cache of `move_per_step` never makes a motor miss its target; shape of the
per-point blocks; closed form of the inner-product trajectories.
-/
import BlueskyVerif.Pure.StepScan
import BlueskyVerif.Lemmas.C26List
namespace BlueskyVerif.Pure.StepScan
open BlueskyVerif.Pure BlueskyVerif.Pure.Snake

/-- a message that neither moves a motor nor saves -/
def Msg.inert : Msg → Bool
  | .set _ _ _ => false
  | .save => false
  | _ => true

theorem snapshots_append (p : Pos) (a b : List Msg) :
    snapshots p (a ++ b) = snapshots p a ++ snapshots (finalPos p a) b := by
  induction a generalizing p with
  | nil => simp [snapshots, finalPos]
  | cons m rest ih => cases m <;> simp [snapshots, finalPos, ih]

theorem finalPos_append (p : Pos) (a b : List Msg) :
    finalPos p (a ++ b) = finalPos (finalPos p a) b := by
  induction a generalizing p with
  | nil => simp [finalPos]
  | cons m rest ih => cases m <;> simp [finalPos, ih]

theorem snapshots_inert (p : Pos) (l : List Msg) (h : ∀ m ∈ l, m.inert = true) : snapshots p l = [] := by
  induction l generalizing p with
  | nil => simp [snapshots]
  | cons m rest ih =>
    have hm := h m (by simp)
    have hr := ih (p := p) (fun x hx => h x (by simp [hx]))
    cases m <;> simp_all [snapshots, Msg.inert]

theorem finalPos_inert (p : Pos) (l : List Msg) (h : ∀ m ∈ l, m.inert = true) : finalPos p l = p := by
  induction l generalizing p with
  | nil => simp [finalPos]
  | cons m rest ih =>
    have hm := h m (by simp)
    have hr := ih (p := p) (fun x hx => h x (by simp [hx]))
    cases m <;> simp_all [finalPos, Msg.inert]

/-- the cache never claims a position the motor does not have -/
def Inv (p : Pos) (c : Cache) : Prop := ∀ m x, c m = some x → p m = some x

theorem finalPos_moves_frame (s : Step) (c : Cache) (p : Pos) (m : Nat) (hm : m ∉ s.map (·.1)) :
    finalPos p (moves s c).1 m = p m := by
  induction s generalizing c p with
  | nil => simp [moves, finalPos]
  | cons x rest ih =>
    obtain ⟨m', pos⟩ := x
    simp only [List.map_cons, List.mem_cons, not_or] at hm
    unfold moves
    split
    · exact ih c p hm.2
    · simp only [finalPos]
      rw [ih _ _ hm.2]
      simp [hm.1]

theorem inv_moves (s : Step) (c : Cache) (p : Pos) (h : Inv p c) :
    Inv (finalPos p (moves s c).1) (moves s c).2 := by
  induction s generalizing c p with
  | nil => simpa [moves, finalPos] using h
  | cons x rest ih =>
    obtain ⟨m', pos⟩ := x
    unfold moves
    split
    · exact ih c p h
    · simp only [finalPos]
      apply ih
      intro m x hx
      simp only [Cache.put] at hx
      by_cases hmm : m = m'
      · simp_all
      · simp only [hmm, if_false] at hx ⊢
        exact h m x hx

theorem moves_reach (s : Step) (c : Cache) (p : Pos) (h : Inv p c) (hnd : (s.map (·.1)).Nodup) :
    ∀ x ∈ s, finalPos p (moves s c).1 x.1 = some x.2 := by
  induction s generalizing c p with
  | nil => simp
  | cons y rest ih =>
    obtain ⟨m', pos⟩ := y
    simp only [List.map_cons, List.nodup_cons] at hnd
    intro x hx
    simp only [List.mem_cons] at hx
    unfold moves
    split
    · rename_i hit
      rcases hx with rfl | hx
      · rw [finalPos_moves_frame rest c p m' hnd.1]; exact h m' pos hit
      · exact ih c p h hnd.2 x hx
    · simp only [finalPos]
      rcases hx with rfl | hx
      · rw [finalPos_moves_frame rest _ _ m' hnd.1]; simp
      · apply ih _ _ _ hnd.2 x hx
        intro m x' hx'
        simp only [Cache.put] at hx'
        by_cases hmm : m = m'
        · simp_all
        · simp only [hmm, if_false] at hx' ⊢
          exact h m x' hx'

theorem inert_triggerAndRead_init (devs : List Dev) (trig : Dev → Bool) :
    ∃ pre, triggerAndRead devs trig = pre ++ [Msg.save] ∧ ∀ m ∈ pre, m.inert = true := by
  refine ⟨_, rfl, ?_⟩
  intro m hm
  simp only [List.mem_append, List.mem_map, List.mem_filter] at hm
  rcases hm with ((⟨d, _, rfl⟩ | hm) | hm) | ⟨d, _, rfl⟩
  · rfl
  · split at hm <;> simp at hm; subst hm; rfl
  · simp at hm; subst hm; rfl
  · rfl

theorem snapshots_moves (s : Step) (c : Cache) (p : Pos) : snapshots p (moves s c).1 = [] := by
  induction s generalizing c p with
  | nil => simp [moves, snapshots]
  | cons x rest ih =>
    obtain ⟨m', pos⟩ := x
    unfold moves
    split
    · exact ih c p
    · simp only [snapshots]; exact ih _ _

/-- one block: exactly one snapshot, taken after the needed moves -/
theorem snapshots_oneNdStep (dets : List Dev) (trig : Dev → Bool) (s : Step) (c : Cache) (p : Pos) :
    snapshots p (oneNdStep dets trig s c).1 = [finalPos p (moves s c).1] ∧
    finalPos p (oneNdStep dets trig s c).1 = finalPos p (moves s c).1 := by
  obtain ⟨pre, hpre, hin⟩ := inert_triggerAndRead_init (dets ++ s.map fun x => Dev.mot x.1) trig
  simp only [oneNdStep, movePerStep, hpre]
  constructor
  · simp [snapshots, snapshots_append, snapshots_inert _ pre hin, finalPos_inert _ pre hin, snapshots_moves]
  · simp [finalPos_append, finalPos, finalPos_inert _ pre hin]

theorem length_perSteps (dets : List Dev) (trig : Dev → Bool) (traj : List Step) (c : Cache) :
    (perSteps dets trig traj c).length = traj.length := by
  induction traj generalizing c with
  | nil => simp [perSteps]
  | cons s rest ih => simp [perSteps, ih]

/-- the positions in force at every `save` are the trajectory points, whatever the cache skipped -/
theorem snapshots_perSteps (dets : List Dev) (trig : Dev → Bool) (traj : List Step) (c : Cache) (p : Pos)
    (h : Inv p c) (hnd : ∀ s ∈ traj, (s.map (·.1)).Nodup) :
    Matches (snapshots p (perSteps dets trig traj c).flatten) traj := by
  induction traj generalizing c p with
  | nil => simp [perSteps, snapshots, Matches]
  | cons s rest ih =>
    simp only [perSteps, List.flatten_cons, snapshots_append]
    obtain ⟨h1, h2⟩ := snapshots_oneNdStep dets trig s c p
    rw [h1, h2]
    simp only [List.singleton_append, Matches]
    refine ⟨?_, ?_⟩
    · exact moves_reach s c p h (hnd s (by simp))
    · have hc : (oneNdStep dets trig s c).2 = (moves s c).2 := rfl
      rw [hc]
      exact ih _ _ (inv_moves s c p h) (fun s' hs' => hnd s' (by simp [hs']))


theorem Matches.length_eq : ∀ {qs : List Pos} {ss : List Step}, Matches qs ss → qs.length = ss.length
  | [], [], _ => rfl
  | _ :: qs, _ :: ss, h => by simp [Matches.length_eq (qs := qs) (ss := ss) h.2]
  | [], _ :: _, h => by simp [Matches] at h
  | _ :: _, [], h => by simp [Matches] at h

theorem Matches.get {qs : List Pos} {ss : List Step} (h : Matches qs ss) (k : Nat) (s : Step)
    (hk : ss[k]? = some s) : ∃ q : Pos, qs[k]? = some q ∧ ∀ x ∈ s, q x.1 = some x.2 := by
  induction ss generalizing qs k with
  | nil => simp at hk
  | cons s' ss ih =>
    cases qs with
    | nil => simp [Matches] at h
    | cons q qs =>
      cases k with
      | zero =>
        simp only [List.getElem?_cons_zero, Option.some.injEq] at hk
        subst hk
        exact ⟨q, by simp, h.1⟩
      | succ k =>
        simp only [List.getElem?_cons_succ] at hk
        obtain ⟨q', hq, hx⟩ := ih h.2 k hk
        exact ⟨q', by simpa using hq, hx⟩

theorem snapshots_scanNd (dets : List Dev) (trig : Dev → Bool) (motors : List Nat) (traj : List Step)
    (p0 : Pos) (hnd : ∀ s ∈ traj, (s.map (·.1)).Nodup) :
    Matches (snapshots p0 (scanNd dets trig motors traj)) traj := by
  unfold scanNd
  have h1 : ∀ m ∈ (dets ++ motors.map Dev.mot).map Msg.stage ++ [Msg.openRun], m.inert = true := by
    intro m hm
    simp only [List.mem_append, List.mem_map, List.mem_singleton] at hm
    rcases hm with ⟨d, _, rfl⟩ | rfl <;> rfl
  have h2 : ∀ m ∈ [Msg.closeRun] ++ (dets ++ motors.map Dev.mot).reverse.map Msg.unstage, m.inert = true := by
    intro m hm
    simp only [List.mem_append, List.mem_map, List.mem_singleton] at hm
    rcases hm with rfl | ⟨d, _, rfl⟩ <;> rfl
  simp only [List.append_assoc] at h1 h2 ⊢
  rw [← List.append_assoc, snapshots_append, snapshots_inert _ _ h1, finalPos_inert _ _ h1,
    List.nil_append, snapshots_append, snapshots_inert _ _ h2, List.append_nil]
  exact snapshots_perSteps dets trig traj Cache.empty p0 (by intro m x hx; simp [Cache.empty, Gen.cacheInit] at hx) hnd

/-! ### shape of the per-point blocks -/

theorem blockFrom_moves (s : Step) (c : Cache) (r : List Msg) :
    blockFrom 1 ((moves s c).1 ++ r) = blockFrom 1 r := by
  induction s generalizing c with
  | nil => simp [moves]
  | cons x rest ih =>
    obtain ⟨m', pos⟩ := x
    unfold moves
    split
    · exact ih c
    · simp only [List.cons_append, blockFrom]; exact ih _

theorem blockFrom_triggers (ds : List Dev) (r : List Msg) :
    blockFrom 2 (ds.map Msg.trigger ++ r) = blockFrom 2 r := by
  induction ds with
  | nil => simp
  | cons d rest ih => simp only [List.map_cons, List.cons_append, blockFrom]; exact ih

theorem blockFrom_reads (ds : List Dev) : blockFrom 4 (ds.map Msg.read ++ [Msg.save]) = true := by
  induction ds with
  | nil => simp [blockFrom]
  | cons d rest ih =>
    simp only [List.map_cons, List.cons_append]
    cases hr : rest.map Msg.read ++ [Msg.save] with
    | nil => simp at hr
    | cons a b => rw [hr] at ih; simp only [blockFrom]; exact ih

theorem isPointBlock_oneNdStep (dets : List Dev) (trig : Dev → Bool) (s : Step) (c : Cache) :
    isPointBlock (oneNdStep dets trig s c).1 = true := by
  simp only [isPointBlock, oneNdStep, movePerStep, triggerAndRead, List.cons_append, List.append_assoc,
    blockFrom, blockFrom_moves, List.nil_append]
  rw [blockFrom_triggers]
  split
  · simp only [List.nil_append, blockFrom]; exact blockFrom_reads _
  · simp only [List.nil_append, List.cons_append, blockFrom]; exact blockFrom_reads _

theorem mem_perSteps_isPointBlock (dets : List Dev) (trig : Dev → Bool) (traj : List Step) (c : Cache) :
    ∀ b ∈ perSteps dets trig traj c, isPointBlock b = true := by
  induction traj generalizing c with
  | nil => simp [perSteps]
  | cons s rest ih =>
    intro b hb
    simp only [perSteps, List.mem_cons] at hb
    rcases hb with rfl | hb
    · exact isPointBlock_oneNdStep dets trig s c
    · exact ih _ b hb

/-! ### inner-product trajectories -/

theorem length_linspace (a b : Rat) (n : Nat) : (linspace a b n).length = n := by simp [linspace]

theorem getElem?_linspace (a b : Rat) (n k : Nat) (h : k < n) :
    (linspace a b n)[k]? = some (a + (k : Rat) * ((b - a) / ((n : Rat) - 1))) := by
  simp [linspace, h]

theorem innerZip_eq (cols : List (List Rat)) (N : Nat) (hne : cols ≠ []) (hlen : ∀ c ∈ cols, c.length = N) :
    innerZip cols = some ((List.range N).map fun k =>
      cols.zipIdx.flatMap fun x => ((x.1[k]?).map fun v => (x.2, v)).toList) := by
  cases cols with
  | nil => exact absurd rfl hne
  | cons c cs =>
    have hall : ((c :: cs).all fun c' => c'.length == c.length) = true := by
      simp only [List.all_eq_true, beq_iff_eq]
      intro c' hc'
      rw [hlen c' hc', hlen c (by simp)]
    simp only [innerZip, hall, if_true]
    have hk : ((c :: cs).zipIdx.map fun x => keyed x.2 x.1) =
        ((c :: cs).zipIdx.map fun x => x.1.map fun v => (x.2, v)).map cyc := by
      simp [keyed, cyc, Function.comp_def]
    rw [hk, reduce1_addC N _ (by simp) (by
      intro c' hc'
      simp only [List.mem_map] at hc'
      obtain ⟨x, hx, rfl⟩ := hc'
      have : x.1 ∈ c :: cs := List.fst_mem_of_mem_zipIdx hx
      simp [hlen x.1 this])]
    simp [List.flatMap_map]


theorem innerProduct_eq (num : Nat) (args : List (Rat × Rat)) (hne : args ≠ []) :
    innerProduct num args = some ((List.range num).map fun (k : Nat) =>
      args.zipIdx.map fun x => (x.2, x.1.1 + (k : Rat) * ((x.1.2 - x.1.1) / ((num : Rat) - 1)))) := by
  unfold innerProduct
  rw [innerZip_eq _ num (by simpa using hne) (by
    intro c hc
    simp only [List.mem_map] at hc
    obtain ⟨a, _, rfl⟩ := hc
    exact length_linspace _ _ _)]
  congr 1
  apply List.map_congr_left
  intro k hk
  have hk' : k < num := by simpa using hk
  rw [List.zipIdx_map, List.flatMap_map]
  simp only [Prod.map, id, getElem?_linspace _ _ _ _ hk', Option.map_some, Option.toList_some]
  induction args.zipIdx with
  | nil => rfl
  | cons x xs ih => simp [List.flatMap_cons, ih]

end BlueskyVerif.Pure.StepScan
