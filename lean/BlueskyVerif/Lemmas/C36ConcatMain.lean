/-
Main lemmas for C36 (concatenate_stream_datums): soundness, completeness (without tied empty
ranges), permutation invariance, hull.
-/
import BlueskyVerif.Lemmas.C36Concat

namespace BlueskyVerif.C36
open BlueskyVerif.StreamDatum

/-- the two ways `concat` can succeed -/
theorem concat_ok_cases (docs : List SD) (r : SD) (h : concat docs = .ok r) :
    docs = [r] ∨
    (docs.length ≠ 1 ∧ ∃ f l t, sortByKey docs = f :: t ∧ (f :: t).getLast? = some l ∧ r = combine f l ∧
      Chain (f :: t) ∧ allSame (fun d => d.desc) docs = true ∧ allSame (fun d => d.res) docs = true) := by
  by_cases hlen : docs.length = 1
  · left
    match docs, hlen with
    | [d], _ => rw [concat_single] at h; injection h with h; rw [h]
  · right
    refine ⟨hlen, ?_⟩
    rw [concat_general docs hlen] at h
    split at h
    · cases h
    · rename_i hsame
      split at h
      · cases h
      · rename_i hcons
        have hch : Chain (sortByKey docs) := (consecutive_iff _).mp (by simpa using hcons)
        cases hs : sortByKey docs with
        | nil => simp [hs] at h
        | cons f t =>
          rw [hs] at h hch
          simp only [List.head?_cons] at h
          cases hl : (f :: t).getLast? with
          | none => simp [hl] at h
          | some l =>
            rw [hl] at h
            injection h with h
            refine ⟨f, l, t, rfl, hl, h.symm, hch, ?_, ?_⟩
            · cases hx : allSame (fun d => d.desc) docs <;> simp_all
            · cases hx : allSame (fun d => d.res) docs <;> simp_all

theorem chain_single (d : SD) : Chain [d] := trivial

theorem concat_sound (docs : List SD) (r : SD) (h : concat docs = .ok r) :
    docs ≠ [] ∧ SameDesc docs ∧ SameRes docs ∧ Contiguous docs := by
  rcases concat_ok_cases docs r h with rfl | ⟨_, f, l, t, hs, _, _, hch, hd, hr⟩
  · refine ⟨by simp, ?_, ?_, ⟨[r], List.Perm.refl _, chain_single r⟩⟩
    · intro a ha b hb; simp at ha hb; subst ha hb; rfl
    · intro a ha b hb; simp at ha hb; subst ha hb; rfl
  · have hp := sortByKey_perm docs
    rw [hs] at hp
    refine ⟨?_, (allSame_iff _ docs).mp hd, (allSame_iff _ docs).mp hr, ⟨f :: t, hp, hch⟩⟩
    intro hn; subst hn; simp at hp

/-- if SOME arrangement `l` of tame documents is a chain, sorting finds exactly `l` -/
theorem sort_eq_chain (docs l : List SD) (hw : WF docs) (ht : NoTiedEmpty docs) (hp : l.Perm docs) (hc : Chain l) :
    sortByKey docs = l := by
  obtain ⟨hwl, htl⟩ := perm_tame hp hw ht
  exact sorted_unique l (sortByKey docs) ((sortByKey_perm docs).trans hp.symm) (chain_strict l hc hwl htl)
    (sortByKey_sorted docs)

theorem concat_complete (docs : List SD) (hw : WF docs) (ht : NoTiedEmpty docs) (hne : docs ≠ [])
    (hd : SameDesc docs) (hr : SameRes docs) (hc : Contiguous docs) : ∃ r, concat docs = .ok r := by
  by_cases hlen : docs.length = 1
  · match docs, hlen with
    | [d], _ => exact ⟨d, concat_single d⟩
  · obtain ⟨l, hp, hch⟩ := hc
    have hs := sort_eq_chain docs l hw ht hp hch
    rw [concat_general docs hlen, hs]
    have h1 : allSame (fun d => d.desc) docs = true := (allSame_iff _ docs).mpr hd
    have h2 : allSame (fun d => d.res) docs = true := (allSame_iff _ docs).mpr hr
    have h3 : consecutive l = true := (consecutive_iff l).mpr hch
    simp only [h1, h2, h3, Bool.true_eq_false, or_self, if_false]
    cases l with
    | nil => exact absurd (hp.symm.eq_nil) hne
    | cons a t =>
      obtain ⟨x, hx, _⟩ := sorted_last_max a t (by rw [← hs]; exact sortByKey_sorted docs)
      exact ⟨combine a x, by simp [hx]⟩

/-- the result does not depend on the order of the arguments (tame documents) -/
theorem concat_perm (docs docs' : List SD) (hw : WF docs) (ht : NoTiedEmpty docs) (hp : docs'.Perm docs) :
    concat docs' = concat docs := by
  by_cases hlen : docs.length = 1
  · match docs, hlen with
    | [d], _ => rw [List.perm_singleton.mp hp]
  · have hlen' : docs'.length ≠ 1 := by rw [hp.length_eq]; exact hlen
    obtain ⟨hw', ht'⟩ := perm_tame hp hw ht
    rw [concat_general docs hlen, concat_general docs' hlen']
    have hsame : ∀ f : SD → Nat, allSame f docs' = allSame f docs := by
      intro f
      have h1 := allSame_iff f docs'
      have h2 := allSame_iff f docs
      have : allSame f docs' = true ↔ allSame f docs = true := by
        rw [h1, h2]
        constructor
        · intro h a ha b hb; exact h a (hp.mem_iff.mpr ha) b (hp.mem_iff.mpr hb)
        · intro h a ha b hb; exact h a (hp.mem_iff.mp ha) b (hp.mem_iff.mp hb)
      cases hx : allSame f docs' <;> cases hy : allSame f docs <;> simp_all
    rw [hsame, hsame]
    by_cases hc : consecutive (sortByKey docs) = true
    · -- docs sorts to a chain; that chain is an arrangement of docs' too, so docs' sorts to the same list
      have hch := (consecutive_iff _).mp hc
      have := sort_eq_chain docs' (sortByKey docs) hw' ht' ((sortByKey_perm docs).trans hp.symm) hch
      rw [this]
    · by_cases hc' : consecutive (sortByKey docs') = true
      · have hch := (consecutive_iff _).mp hc'
        have := sort_eq_chain docs (sortByKey docs') hw ht ((sortByKey_perm docs').trans hp) hch
        rw [this] at hc
        exact absurd hc' hc
      · have e1 : consecutive (sortByKey docs) = false := by simpa using hc
        have e2 : consecutive (sortByKey docs') = false := by simpa using hc'
        simp [e1, e2]

/-- seq_nums are ordered like the indices: a document that starts earlier has the earlier seq_nums -/
def SeqMono (docs : List SD) : Prop :=
  ∀ a ∈ docs, ∀ b ∈ docs, a.iStart ≤ b.iStart → a.sStart ≤ b.sStart ∧ a.sStop ≤ b.sStop

structure Hull (docs : List SD) (r : SD) : Prop where
  start_le : ∀ d ∈ docs, r.iStart ≤ d.iStart
  start_mem : ∃ d ∈ docs, r.iStart = d.iStart
  stop_ge : ∀ d ∈ docs, d.iStop ≤ r.iStop
  stop_mem : ∃ d ∈ docs, r.iStop = d.iStop
  width_sum : r.iStart + (docs.map width).sum = r.iStop
  ids : ∃ d ∈ docs, r.uid = d.uid ∧ r.desc = d.desc ∧ r.res = d.res

theorem concat_hull (docs : List SD) (r : SD) (h : concat docs = .ok r) (hw : WF docs) : Hull docs r := by
  rcases concat_ok_cases docs r h with rfl | ⟨_, f, l, t, hs, hl, hr, hch, _, _⟩
  · have := hw r (by simp)
    exact ⟨by simp, ⟨r, by simp, rfl⟩, by simp, ⟨r, by simp, rfl⟩, by simp [width]; omega, ⟨r, by simp, rfl, rfl, rfl⟩⟩
  · have hp := sortByKey_perm docs
    rw [hs] at hp
    have hwl : WF (f :: t) := fun d hd => hw d (hp.mem_iff.mp hd)
    obtain ⟨l', hl', hsum, hstop, hstart⟩ := chain_telescope f t hch hwl
    rw [hl] at hl'
    injection hl' with hl'
    subst hl'
    have hlm : l ∈ f :: t := List.mem_of_getLast? hl
    have e1 : r.iStart = f.iStart := by rw [hr]; simp [combine]
    have e2 : r.iStop = l.iStop := by rw [hr]; simp [combine]
    refine ⟨?_, ⟨f, hp.mem_iff.mp (by simp), e1⟩, ?_, ⟨l, hp.mem_iff.mp hlm, e2⟩, ?_, ⟨l, hp.mem_iff.mp hlm, ?_⟩⟩
    · intro d hd; rw [e1]; exact hstart d (hp.mem_iff.mpr hd)
    · intro d hd; rw [e2]; exact hstop d (hp.mem_iff.mpr hd)
    · rw [e1, e2, ← hsum, (hp.map width).sum_nat]
    · rw [hr]; simp [combine]

structure SeqHull (docs : List SD) (r : SD) : Prop where
  start_le : ∀ d ∈ docs, r.sStart ≤ d.sStart
  start_mem : ∃ d ∈ docs, r.sStart = d.sStart
  stop_ge : ∀ d ∈ docs, d.sStop ≤ r.sStop
  stop_mem : ∃ d ∈ docs, r.sStop = d.sStop

theorem concat_seq_hull (docs : List SD) (r : SD) (h : concat docs = .ok r) (hm : SeqMono docs) : SeqHull docs r := by
  rcases concat_ok_cases docs r h with rfl | ⟨_, f, l, t, hs, hl, hr, _, _, _⟩
  · exact ⟨by simp, ⟨r, by simp, rfl⟩, by simp, ⟨r, by simp, rfl⟩⟩
  · have hp := sortByKey_perm docs
    have hsorted := sortByKey_sorted docs
    rw [hs] at hp hsorted
    obtain ⟨l', hl', hlm, hmax⟩ := sorted_last_max f t hsorted
    rw [hl] at hl'
    injection hl' with hl'
    subst hl'
    have hfm : f ∈ docs := hp.mem_iff.mp (by simp)
    have hlm' : l ∈ docs := hp.mem_iff.mp hlm
    have hmin : ∀ d ∈ f :: t, sortKey f ≤ sortKey d := by
      intro d hd
      unfold Sorted at hsorted
      rw [List.pairwise_cons] at hsorted
      rcases List.mem_cons.mp hd with rfl | hd
      · exact Nat.le_refl _
      · exact hsorted.1 d hd
    have e1 : r.sStart = f.sStart := by rw [hr]; simp [combine]
    have e2 : r.sStop = l.sStop := by rw [hr]; simp [combine]
    refine ⟨?_, ⟨f, hfm, e1⟩, ?_, ⟨l, hlm', e2⟩⟩
    · intro d hd
      rw [e1]
      exact (hm f hfm d hd (by simpa [sortKey] using hmin d (hp.mem_iff.mpr hd))).1
    · intro d hd
      rw [e2]
      exact (hm d hd l hlm' (by simpa [sortKey] using hmax d (hp.mem_iff.mpr hd))).2

end BlueskyVerif.C36
