/-
Lemmas/C21.lean -- plan_mutator with a processor that inserts head / tail plans: the execution
relation `PmPath`, the generic "top generator runs undisturbed" lemma, the single-iteration lemmas
(insertion, exhaustion of head and tail, exceptions), the fresh-id invariant and adequacy of
`PmPath` for the fuel-indexed machine.
-/
import BlueskyVerif.Gen.Mutators
import BlueskyVerif.Lemmas.Gen

namespace BlueskyVerif.Gen
set_option linter.unusedSectionVars false

section dict
variable {κ α : Type} [DecidableEq κ]

theorem dictGet_set_self (d : List (κ × α)) (k : κ) (v : α) : dictGet (dictSet d k v) k = some v := by
  simp [dictGet, dictSet]

theorem dictGet_none_of_forall (d : List (κ × α)) (k : κ) (h : ∀ x ∈ d, x.1 ≠ k) :
    dictGet d k = none := by
  simp only [dictGet, Option.map_eq_none_iff, List.find?_eq_none]
  intro x hx; simpa using h x hx

theorem mem_dictDel (d : List (κ × α)) (k : κ) (x : κ × α) (h : x ∈ dictDel d k) : x ∈ d := by
  simp [dictDel] at h; exact h.1

theorem dictGet_mem (d : List (κ × α)) (k : κ) (v : α) (h : dictGet d k = some v) : (k, v) ∈ d := by
  simp only [dictGet, Option.map_eq_some_iff] at h
  obtain ⟨x, hx, rfl⟩ := h
  have h1 := List.mem_of_find?_eq_some hx
  have h2 := List.find?_some hx
  simp at h2; subst h2; exact h1

theorem dictGet_del_self (d : List (κ × α)) (k : κ) : dictGet (dictDel d k) k = none := by
  apply dictGet_none_of_forall
  intro x hx; simp [dictDel] at hx; exact hx.2

end dict

section
variable {M ι R V E : Type} [Inhabited R] [DecidableEq R] [Inhabited V] [PyExc E] [DecidableEq ι]

/-! ### the processor leaves a message alone -/

/-- `m` goes out unprocessed: its object has been seen, or the processor answers `(None, None)`
    for it whatever it has seen before -/
def Quiet (key : M → ι) (proc : Proc M R V E) (seen : List ι) (m : M) : Prop :=
  key m ∈ seen ∨ ∀ log, proc log m = (none, none)

theorem pmProcess_quiet (key : M → ι) (proc : Proc M R V E) (s : PM M ι R V E) (m : M)
    (h : Quiet key proc s.msgsSeen m) :
    ∃ s1, pmProcess key proc s m = .yield m s1 ∧ s1.planStack = s.planStack ∧
      s1.resultStack = s.resultStack ∧ s1.exception = s.exception ∧ s1.tailCache = s.tailCache ∧
      s1.tailResultCache = s.tailResultCache ∧ s1.retValue = s.retValue ∧ s1.nextId = s.nextId ∧
      s1.ret = s.ret ∧ (∀ k, k ∈ s.msgsSeen → k ∈ s1.msgsSeen) := by
  unfold pmProcess
  by_cases hs : s.msgsSeen.contains (key m) = true
  · simp only [hs, ↓reduceIte]
    exact ⟨s, rfl, rfl, rfl, rfl, rfl, rfl, rfl, rfl, rfl, fun k hk => hk⟩
  · have hq : ∀ log, proc log m = (none, none) := by
      rcases h with h | h
      · exact absurd (by simpa using h) hs
      · exact h
    simp only [hs, hq]
    exact ⟨_, rfl, rfl, rfl, rfl, rfl, rfl, rfl, rfl, rfl, fun k hk => List.mem_cons_of_mem _ hk⟩

/-! ### executions -/

/-- what `pmResume` does with a response -/
def PM.answered (s : PM M ι R V E) (r : R) : PM M ι R V E :=
  { s with resultStack := r :: s.resultStack }

theorem pmResume_send (s : PM M ι R V E) (r : R) : pmResume s (.send r) = .cont (s.answered r) := rfl

/-- `PmPath n s io s'`: starting at the top of the loop in state `s`, plan_mutator yields the
    messages of `io` in this order, each answered by the paired response, with `n` loop
    iterations that do not yield in between, and is then at the top of the loop in state `s'`. -/
inductive PmPath (key : M → ι) (proc : Proc M R V E) :
    Nat → PM M ι R V E → List (M × R) → PM M ι R V E → Prop where
  | nil (s) : PmPath key proc 0 s [] s
  | silent {n s s' io s''} : pmIter key proc s = .cont s' → PmPath key proc n s' io s'' →
      PmPath key proc (n + 1) s io s''
  | io {n s m s1 r io s''} : pmIter key proc s = .yield m s1 →
      PmPath key proc n (s1.answered r) io s'' → PmPath key proc n s ((m, r) :: io) s''

theorem PmPath.append {key : M → ι} {proc : Proc M R V E} {n1 n2 : Nat} {s1 s2 s3 : PM M ι R V E}
    {io1 io2 : List (M × R)} (h1 : PmPath key proc n1 s1 io1 s2) (h2 : PmPath key proc n2 s2 io2 s3) :
    PmPath key proc (n1 + n2) s1 (io1 ++ io2) s3 := by
  induction h1 with
  | nil s => simpa using h2
  | silent hi _ ih => rw [Nat.add_right_comm]; exact .silent hi (ih h2)
  | io hi _ ih => exact .io hi (ih h2)

/-- The generator `p`, resumed with `r`, yields `m1`, gets `r1`, yields `m2`, ..., gets `rk` and
    then returns `v`  (`io = [(m1, r1), ..., (mk, rk)]`). -/
inductive Runs : Pos M R V E → R → List (M × R) → V → Prop where
  | done {p r v p'} : p.resume (.send r) = (.ret v, p') → Runs p r [] v
  | step {p r m r' p' io v} : p.resume (.send r) = (.yld m, p') → Runs p' r' io v →
      Runs p r ((m, r') :: io) v

/-- the last response of an interaction (the initial one if there was none) -/
def lastResp (r : R) : List (M × R) → R
  | [] => r
  | (_, r') :: io => lastResp r' io

/-- **The top generator runs undisturbed**: if the generator on top of the stack, resumed with the
    value on top of the result stack, yields messages the processor leaves alone and then
    returns, plan_mutator passes exactly these messages out and the responses in, touches nothing
    else, and arrives at the iteration at which that generator returns. -/
theorem top_run (key : M → ι) (proc : Proc M R V E) (p : Pos M R V E) (r : R) (io : List (M × R))
    (v : V) (hr : Runs p r io v) :
    ∀ (s : PM M ι R V E) (g : Nat) (below : List (GenObj M R V E)) (rs0 : List R),
      s.exception = none → s.planStack = (g, p) :: below → s.resultStack = r :: rs0 →
      (∀ mr ∈ io, Quiet key proc s.msgsSeen mr.1) →
      ∃ (s' : PM M ι R V E) (p' p'' : Pos M R V E),
        PmPath key proc 0 s io s' ∧ s'.exception = none ∧ s'.planStack = (g, p') :: below ∧
        s'.resultStack = lastResp r io :: rs0 ∧
        p'.resume (.send (lastResp r io)) = (.ret v, p'') ∧
        s'.tailCache = s.tailCache ∧ s'.tailResultCache = s.tailResultCache ∧
        s'.retValue = s.retValue ∧ s'.nextId = s.nextId ∧
        (∀ k, k ∈ s.msgsSeen → k ∈ s'.msgsSeen) := by
  induction hr with
  | done hres =>
    intro s g below rs0 hex hps hrs _
    exact ⟨s, _, _, .nil s, hex, hps, hrs, hres, rfl, rfl, rfl, rfl, fun k hk => hk⟩
  | @step p r m r' p' io v hres _ ih =>
    intro s g below rs0 hex hps hrs hq
    obtain ⟨s1, h1, h2, h3, h4, h5, h6, h7, h8, _, h10⟩ := pmProcess_quiet key proc
      { s with resultStack := rs0, ret := r, planStack := (g, p') :: below } m
      (hq (m, r') (by simp))
    have hiter : pmIter key proc s = .yield m s1 := by
      unfold pmIter
      simp only [hex, hrs, hps, hres, pmOnSend]
      rw [hex] at h1
      exact h1
    obtain ⟨s', q', q'', hp, e1, e2, e3, e4, e5, e6, e7, e8, e9⟩ := ih (s1.answered r') g below rs0
      (by simpa [PM.answered, hex] using h4) (by simpa [PM.answered] using h2)
      (by simp [PM.answered, h3])
      (by
        intro mr hmr
        rcases hq mr (List.mem_cons_of_mem _ hmr) with hk | hk
        · exact .inl (h10 _ hk)
        · exact .inr hk)
    refine ⟨s', q', q'', .io hiter hp, e1, e2, e3, e4, ?_, ?_, ?_, ?_, ?_⟩
    · rw [e5]; simpa [PM.answered] using h5
    · rw [e6]; simpa [PM.answered] using h6
    · rw [e7]; simpa [PM.answered] using h7
    · rw [e8]; simpa [PM.answered] using h8
    · intro k hk; exact e9 k (h10 k hk)

/-! ### generator ids handed out by plan_mutator are fresh -/

/-- every id stored in the caches is below `nextId` (so the ids `nextId`, `nextId + 1` given to the
    next head / tail are new); `nextId ≥ 1` (0 is the parent plan) -/
def FreshIds (s : PM M ι R V E) : Prop :=
  1 ≤ s.nextId ∧
  (∀ x ∈ s.tailCache, x.1 < s.nextId ∧ ∀ t, x.2 = some t → t.1 < s.nextId) ∧
  (∀ x ∈ s.tailResultCache, x.1 < s.nextId)

theorem freshIds_init (plan : Beh M R V E) : FreshIds (pmInit (ι := ι) plan) := by
  simp [FreshIds, pmInit]

def PMRes.Fresh : PMRes M ι R V E → Prop
  | .cont s => FreshIds s
  | .yield _ s => FreshIds s
  | _ => True

theorem pmExhausted_fresh (s : PM M ι R V E) (gid : Nat) (rest : List (GenObj M R V E)) (v : V)
    (h : FreshIds s) : (pmExhausted s gid rest v).Fresh := by
  obtain ⟨h1, h2, h3⟩ := h
  unfold pmExhausted
  have hdel : ∀ x ∈ dictDel s.tailCache gid, x.1 < s.nextId ∧ ∀ t, x.2 = some t → t.1 < s.nextId :=
    fun x hx => h2 x (mem_dictDel _ _ _ hx)
  have hdel' : ∀ x ∈ dictDel s.tailResultCache gid, x.1 < s.nextId :=
    fun x hx => h3 x (mem_dictDel _ _ _ hx)
  cases htr : dictGet s.tailResultCache gid <;> cases htc : dictGet s.tailCache gid with
  | none => simp only []; split <;> (first | trivial | exact ⟨h1, h2, h3⟩ | exact ⟨h1, hdel, h3⟩ | exact ⟨h1, h2, hdel'⟩ | exact ⟨h1, hdel, hdel'⟩)
  | some o =>
    cases o with
    | none => simp only []; split <;> (first | trivial | exact ⟨h1, h2, h3⟩ | exact ⟨h1, hdel, h3⟩ | exact ⟨h1, h2, hdel'⟩ | exact ⟨h1, hdel, hdel'⟩)
    | some t =>
      obtain ⟨tid, tp⟩ := t
      have ht : tid < s.nextId := (h2 _ (dictGet_mem _ _ _ htc)).2 _ rfl
      simp only []
      split
      · trivial
      · simp only [PMRes.Fresh, FreshIds, dictSet, List.mem_cons]
        refine ⟨h1, hdel, ?_⟩
        rintro x (rfl | hx)
        · exact ht
        · first
            | exact h3 x (mem_dictDel _ _ _ hx)
            | exact h3 x (mem_dictDel _ _ _ (mem_dictDel _ _ _ hx))

theorem pmProcess_fresh (key : M → ι) (proc : Proc M R V E) (s : PM M ι R V E) (m : M)
    (h : FreshIds s) : (pmProcess key proc s m).Fresh := by
  obtain ⟨h1, h2, h3⟩ := h
  unfold pmProcess
  split
  · exact ⟨h1, h2, h3⟩
  · generalize proc s.procLog m = pr
    obtain ⟨hd, tl⟩ := pr
    simp only []
    split
    · rename_i g hg
      simp only [PMRes.Fresh, FreshIds, dictSet, List.mem_cons]
      refine ⟨by omega, ?_, fun x hx => by have := h3 x hx; omega⟩
      rintro x (rfl | hx)
      · refine ⟨by omega, ?_⟩
        intro t ht
        cases tl <;> simp at ht
        subst ht; simp
      · have := h2 x (mem_dictDel _ _ _ hx)
        exact ⟨by omega, fun t ht => by have := this.2 t ht; omega⟩
    · exact ⟨h1, h2, h3⟩

theorem pmIter_fresh (key : M → ι) (proc : Proc M R V E) (s : PM M ι R V E) (h : FreshIds s) :
    (pmIter key proc s).Fresh := by
  have hsub : ∀ (s' : PM M ι R V E), s'.nextId = s.nextId → s'.tailCache = s.tailCache →
      s'.tailResultCache = s.tailResultCache → FreshIds s' := by
    intro s' e1 e2 e3; simpa [FreshIds, e1, e2, e3] using h
  unfold pmIter
  split
  · split
    · trivial
    · rename_i gid top rest _
      generalize top.resume _ = res
      obtain ⟨o, p'⟩ := res
      cases o with
      | yld m => exact pmProcess_fresh key proc _ m (hsub _ rfl rfl rfl)
      | ret v => exact pmExhausted_fresh _ gid rest v h
      | raise x =>
        simp only [pmOnThrow]
        split
        · split
          · trivial
          · exact ⟨h.1, fun y hy => h.2.1 y (mem_dictDel _ _ _ hy),
              fun y hy => h.2.2 y (mem_dictDel _ _ _ hy)⟩
        · trivial
  · split
    · trivial
    · split
      · trivial
      · rename_i r rs _ gid top rest _
        generalize top.resume _ = res
        obtain ⟨o, p'⟩ := res
        cases o with
        | yld m => exact pmProcess_fresh key proc _ m (hsub _ rfl rfl rfl)
        | ret v => exact pmExhausted_fresh _ gid rest v (hsub _ rfl rfl rfl)
        | raise x =>
          simp only [pmOnSend]
          split
          · obtain ⟨h1, h2, h3⟩ := h
            cases htc : dictGet s.tailCache gid with
            | none => simp only []; split <;> (first | trivial | exact ⟨h1, h2, h3⟩)
            | some o =>
              have hdel : ∀ x ∈ dictDel s.tailCache gid,
                  x.1 < s.nextId ∧ ∀ t, x.2 = some t → t.1 < s.nextId :=
                fun x hx => h2 x (mem_dictDel _ _ _ hx)
              cases o <;> (simp only []; split <;> (first | trivial | exact ⟨h1, h2, h3⟩ | exact ⟨h1, hdel, h3⟩))
          · trivial

theorem answered_fresh (s : PM M ι R V E) (r : R) (h : FreshIds s) : FreshIds (s.answered r) := h

theorem PmPath.fresh {key : M → ι} {proc : Proc M R V E} {n : Nat} {s s' : PM M ι R V E}
    {io : List (M × R)} (hp : PmPath key proc n s io s') (h : FreshIds s) : FreshIds s' := by
  induction hp with
  | nil s => exact h
  | silent hi _ ih => exact ih (by have := pmIter_fresh key proc _ h; rw [hi] at this; exact this)
  | io hi _ ih =>
    exact ih (by have := pmIter_fresh key proc _ h; rw [hi] at this; exact this)

/-! ### single loop iterations -/

theorem dictGet_fresh_tc (s : PM M ι R V E) (h : FreshIds s) (k : Nat) (hk : s.nextId ≤ k) :
    dictGet s.tailCache k = none :=
  dictGet_none_of_forall _ _ fun x hx => by have := (h.2.1 x hx).1; omega

theorem dictGet_fresh_trc (s : PM M ι R V E) (h : FreshIds s) (k : Nat) (hk : s.nextId ≤ k) :
    dictGet s.tailResultCache k = none :=
  dictGet_none_of_forall _ _ fun x hx => by have := h.2.2 x hx; omega

/-- the head that is actually pushed: `single_gen(msg)` when only a tail is given -/
def effHead (msg : M) : Option (Beh M R V E) × Option (Beh M R V E) → Option (Beh M R V E)
  | (none, some _) => some (Beh.singleWith (fun _ => default) msg)
  | (g, _) => g

/-- the state after the processor inserted head `h` (and tail `tl`) for `msg` -/
def inserted (key : M → ι) (s : PM M ι R V E) (g : Nat) (q1 : Pos M R V E)
    (rest : List (GenObj M R V E)) (rs0 : List R) (r : R) (msg : M) (h : Beh M R V E)
    (tl : Option (Beh M R V E)) : PM M ι R V E :=
  { msgsSeen := key msg :: s.msgsSeen,
    planStack := (s.nextId, Pos.new h) :: (g, q1) :: rest,
    resultStack := default :: rs0,
    tailCache := dictSet s.tailCache s.nextId (tl.map fun t => (s.nextId + 1, Pos.new t)),
    tailResultCache := s.tailResultCache, exception := none, retValue := s.retValue, ret := r,
    nextId := s.nextId + 2, procLog := s.procLog ++ [msg] }

/-- the iteration in which the top generator yields an unseen `msg` and the processor answers
    with a head (and maybe a tail): the head is pushed and primed with None, the tail cached -/
theorem insert_iter (key : M → ι) (proc : Proc M R V E) (s : PM M ι R V E) (g : Nat)
    (q q1 : Pos M R V E) (rest : List (GenObj M R V E)) (r : R) (rs0 : List R) (msg : M)
    (hd tl : Option (Beh M R V E)) (h : Beh M R V E)
    (hex : s.exception = none) (hps : s.planStack = (g, q) :: rest) (hrs : s.resultStack = r :: rs0)
    (hres : q.resume (.send r) = (.yld msg, q1)) (hns : s.msgsSeen.contains (key msg) = false)
    (hproc : proc s.procLog msg = (hd, tl)) (hh : effHead msg (hd, tl) = some h) :
    pmIter key proc s = .cont (inserted key s g q1 rest rs0 r msg h tl) := by
  unfold pmIter
  simp only [hex, hrs, hps, hres, pmOnSend, pmProcess, hns, hproc]
  cases hd <;> cases tl <;> simp [effHead] at hh <;> subst hh <;> simp [inserted]

/-- the iteration in which the top generator (not the last one) returns, `send` branch -/
theorem exhaust_iter (key : M → ι) (proc : Proc M R V E) (s : PM M ι R V E) (gid : Nat)
    (p p' : Pos M R V E) (below : List (GenObj M R V E)) (r : R) (rs0 : List R) (v : V)
    (hex : s.exception = none) (hps : s.planStack = (gid, p) :: below)
    (hrs : s.resultStack = r :: rs0) (hres : p.resume (.send r) = (.ret v, p')) :
    pmIter key proc s = pmExhausted { s with resultStack := rs0, ret := r } gid below v := by
  unfold pmIter
  simp only [hex, hrs, hps, hres, pmOnSend]

/-- a head without tail returns: the value it was last sent goes (back) on the result stack -/
theorem pmExhausted_head (s : PM M ι R V E) (gid : Nat) (g : GenObj M R V E)
    (below : List (GenObj M R V E)) (v : V) (hg : gid ≠ 0)
    (htr : dictGet s.tailResultCache gid = none) (htc : dictGet s.tailCache gid = some none) :
    pmExhausted s gid (g :: below) v =
      .cont { s with planStack := g :: below, resultStack := s.ret :: s.resultStack,
                     tailCache := dictDel s.tailCache gid } := by
  simp [pmExhausted, htr, htc, hg]

/-- a head with a tail returns: the tail is pushed and primed with None, the value the head was
    last sent is saved under the tail's id -/
theorem pmExhausted_head_tail (s : PM M ι R V E) (gid : Nat) (t : GenObj M R V E)
    (below : List (GenObj M R V E)) (v : V) (hg : gid ≠ 0)
    (htr : dictGet s.tailResultCache gid = none) (htc : dictGet s.tailCache gid = some (some t)) :
    pmExhausted s gid below v =
      .cont { s with planStack := t :: below, resultStack := default :: s.resultStack,
                     tailCache := dictDel s.tailCache gid,
                     tailResultCache := dictSet s.tailResultCache t.1 s.ret } := by
  obtain ⟨tid, tp⟩ := t
  simp [pmExhausted, htr, htc, hg]

/-- a tail returns: its return value and the value it was last sent are discarded, the saved
    value goes on the result stack -/
theorem pmExhausted_tail (s : PM M ι R V E) (gid : Nat) (g : GenObj M R V E)
    (below : List (GenObj M R V E)) (v : V) (rk : R) (hg : gid ≠ 0)
    (htr : dictGet s.tailResultCache gid = some rk) (htc : dictGet s.tailCache gid = none) :
    pmExhausted s gid (g :: below) v =
      .cont { s with planStack := g :: below, resultStack := rk :: s.resultStack,
                     tailResultCache := dictDel s.tailResultCache gid, ret := rk } := by
  simp [pmExhausted, htr, htc, hg]

/-! ### head, then tail, then back to the host -/

/-- `single_gen(msg)` yields `msg`, takes the response and returns -/
theorem runs_single (msg : M) (r1 : R) :
    Runs (Pos.new (Beh.singleWith (fun _ => (default : V)) msg : Beh M R V E)) default
      [(msg, r1)] default := by
  have h1 : (Pos.new (Beh.singleWith (fun _ => (default : V)) msg : Beh M R V E)).resume
      (.send default) = (.yld msg, ⟨Beh.singleWith (fun _ => default) msg, [.send default], .live⟩) := by
    simp [Pos.resume, Pos.new, Pos.advance, Beh.singleWith, Out.isYld]
  have h2 : (⟨Beh.singleWith (fun _ => (default : V)) msg, [.send default], .live⟩ :
      Pos M R V E).resume (.send r1) =
      (.ret default, ⟨Beh.singleWith (fun _ => default) msg, [.send default, .send r1], .dead⟩) := by
    simp [Pos.resume, Pos.advance, Beh.singleWith, Out.isYld]
  exact .step h1 (.done h2)

theorem Quiet.mono {key : M → ι} {proc : Proc M R V E} {seen seen' : List ι} {m : M}
    (h : Quiet key proc seen m) (hs : ∀ k, k ∈ seen → k ∈ seen') : Quiet key proc seen' m :=
  h.elim (fun hk => .inl (hs _ hk)) .inr

/-- how the tail (if any) runs: messages with responses -/
def TailRuns (tl : Option (Beh M R V E)) (tio : List (M × R)) : Prop :=
  match tl with
  | none => tio = []
  | some t => ∃ tv, Runs (Pos.new t) default tio tv

theorem sandwich (key : M → ι) (proc : Proc M R V E) (s : PM M ι R V E) (g : Nat)
    (q q1 : Pos M R V E) (rest : List (GenObj M R V E)) (r : R) (rs0 : List R) (msg : M)
    (hd tl : Option (Beh M R V E)) (h : Beh M R V E) (hfresh : FreshIds s)
    (hex : s.exception = none) (hps : s.planStack = (g, q) :: rest) (hrs : s.resultStack = r :: rs0)
    (hres : q.resume (.send r) = (.yld msg, q1)) (hns : s.msgsSeen.contains (key msg) = false)
    (hproc : proc s.procLog msg = (hd, tl)) (hh : effHead msg (hd, tl) = some h)
    (hio : List (M × R)) (hv : V) (hrun : Runs (Pos.new h) default hio hv)
    (tio : List (M × R)) (htail : TailRuns tl tio)
    (hq : ∀ mr ∈ hio ++ tio, Quiet key proc (key msg :: s.msgsSeen) mr.1) :
    ∃ n s_end, n ≤ 3 ∧ PmPath key proc n s (hio ++ tio) s_end ∧ s_end.exception = none ∧
      s_end.planStack = (g, q1) :: rest ∧ s_end.resultStack = lastResp default hio :: rs0 ∧
      FreshIds s_end := by
  have hi1 := insert_iter key proc s g q q1 rest r rs0 msg hd tl h hex hps hrs hres hns hproc hh
  obtain ⟨s2, hp', hp'', hpath2, e2x, e2p, e2r, e2res, e2tc, e2trc, _, e2n, e2seen⟩ :=
    top_run key proc (Pos.new h) default hio hv hrun (inserted key s g q1 rest rs0 r msg h tl)
      s.nextId ((g, q1) :: rest) rs0 rfl rfl rfl
      (fun mr hmr => hq mr (List.mem_append_left _ hmr))
  have hnid : s.nextId ≠ 0 := by have := hfresh.1; omega
  have hex2 := exhaust_iter key proc s2 s.nextId hp' hp'' ((g, q1) :: rest) (lastResp default hio)
    rs0 hv e2x e2p e2r e2res
  have htr2 : dictGet s2.tailResultCache s.nextId = none := by
    rw [e2trc]; exact dictGet_fresh_trc s hfresh _ (Nat.le_refl _)
  have htc2 : dictGet s2.tailCache s.nextId = some (tl.map fun t => (s.nextId + 1, Pos.new t)) := by
    rw [e2tc]; exact dictGet_set_self _ _ _
  cases tl with
  | none =>
    have htio : tio = [] := htail
    subst htio
    rw [pmExhausted_head _ _ _ _ _ hnid (by simpa using htr2) (by simpa using htc2)] at hex2
    obtain ⟨s3, hs3, e3x, e3p, e3r⟩ : ∃ s3, pmIter key proc s2 = .cont s3 ∧ s3.exception = none ∧
        s3.planStack = (g, q1) :: rest ∧ s3.resultStack = lastResp default hio :: rs0 :=
      ⟨_, hex2, by simpa using e2x, rfl, rfl⟩
    have hfull := PmPath.silent hi1 (hpath2.append (PmPath.silent hs3 (PmPath.nil _)))
    exact ⟨2, s3, by omega, by simpa using hfull, e3x, e3p, e3r, PmPath.fresh hfull hfresh⟩
  | some t =>
    obtain ⟨tv, htrun⟩ := htail
    rw [pmExhausted_head_tail _ _ (s.nextId + 1, Pos.new t) _ _ hnid (by simpa using htr2)
      (by simpa using htc2)] at hex2
    obtain ⟨s3, hs3, e3x, e3p, e3r, e3tc, e3trc, e3seen⟩ : ∃ s3, pmIter key proc s2 = .cont s3 ∧
        s3.exception = none ∧ s3.planStack = (s.nextId + 1, Pos.new t) :: (g, q1) :: rest ∧
        s3.resultStack = default :: rs0 ∧ s3.tailCache = dictDel s2.tailCache s.nextId ∧
        s3.tailResultCache = dictSet s2.tailResultCache (s.nextId + 1) (lastResp default hio) ∧
        s3.msgsSeen = s2.msgsSeen :=
      ⟨_, hex2, by simpa using e2x, rfl, rfl, rfl, rfl, rfl⟩
    obtain ⟨s4, tp', tp'', hpath4, e4x, e4p, e4r, e4res, e4tc, e4trc, _, _, _⟩ :=
      top_run key proc (Pos.new t) default tio tv htrun s3 (s.nextId + 1) ((g, q1) :: rest) rs0
        e3x e3p e3r
        (fun mr hmr => (hq mr (List.mem_append_right _ hmr)).mono
          (by rw [e3seen]; exact e2seen))
    have hex4 := exhaust_iter key proc s4 (s.nextId + 1) tp' tp'' ((g, q1) :: rest)
      (lastResp default tio) rs0 tv e4x e4p e4r e4res
    have htr4 : dictGet s4.tailResultCache (s.nextId + 1) = some (lastResp default hio) := by
      rw [e4trc, e3trc]; exact dictGet_set_self _ _ _
    have htc4 : dictGet s4.tailCache (s.nextId + 1) = none := by
      rw [e4tc, e3tc]
      apply dictGet_none_of_forall
      intro x hx
      have hx1 := mem_dictDel _ _ _ hx
      rw [e2tc] at hx1
      simp only [inserted, dictSet, List.mem_cons] at hx1
      rcases hx1 with rfl | hx1
      · simp
      · have := (hfresh.2.1 x (mem_dictDel _ _ _ hx1)).1; omega
    rw [pmExhausted_tail _ _ _ _ _ _ (by omega) (by simpa using htr4) (by simpa using htc4)] at hex4
    obtain ⟨s5, hs5, e5x, e5p, e5r⟩ : ∃ s5, pmIter key proc s4 = .cont s5 ∧ s5.exception = none ∧
        s5.planStack = (g, q1) :: rest ∧ s5.resultStack = lastResp default hio :: rs0 :=
      ⟨_, hex4, by simpa using e4x, rfl, rfl⟩
    have hfull := PmPath.silent hi1 (hpath2.append (PmPath.silent hs3
      (hpath4.append (PmPath.silent hs5 (PmPath.nil _)))))
    exact ⟨3, s5, by omega, by simpa using hfull, e5x, e5p, e5r, PmPath.fresh hfull hfresh⟩

/-! ### adequacy: `PmPath` is what the fuel-indexed machine does, given enough fuel -/

/-- the machine `pmStep fuel`, being at `res`, yields the messages of `io` and is fed the paired
    responses, ending at `res'` -/
inductive Follows (fuel : Nat) (key : M → ι) (proc : Proc M R V E) (plan : Beh M R V E) :
    Out M V E × PMSt M ι R V E → List (M × R) → Out M V E × PMSt M ι R V E → Prop where
  | nil (res) : Follows fuel key proc plan res [] res
  | cons {m st r io res'} :
      Follows fuel key proc plan (pmStep fuel key proc plan (.atYield st) (.send r)) io res' →
      Follows fuel key proc plan (.yld m, .atYield st) ((m, r) :: io) res'

/-- fuel-monotone semantics: with more than `n` units of fuel the machine follows a path with `n`
    silent iterations, and still has fuel left at its end. -/
theorem PmPath.adequate {key : M → ι} {proc : Proc M R V E} {n : Nat} {s s' : PM M ι R V E}
    {io : List (M × R)} (hp : PmPath key proc n s io s') (plan : Beh M R V E) (fuel : Nat)
    (hfuel : n < fuel) :
    ∀ f0, n < f0 → f0 ≤ fuel → ∃ f1, f0 - n ≤ f1 ∧ f1 ≤ fuel ∧
      Follows fuel key proc plan (pmLoop key proc f0 s) io (pmLoop key proc f1 s') := by
  induction hp with
  | nil s => intro f0 _ h2; exact ⟨f0, by omega, h2, .nil _⟩
  | @silent n s s1 io s'' hi _ ih =>
    intro f0 h1 h2
    obtain ⟨f0', rfl⟩ : ∃ f0', f0 = f0' + 1 := ⟨f0 - 1, by omega⟩
    obtain ⟨f1, h3, h4, h5⟩ := ih (by omega) f0' (by omega) (by omega)
    refine ⟨f1, by omega, h4, ?_⟩
    have : pmLoop key proc (f0' + 1) s = pmLoop key proc f0' s1 := by
      conv => lhs; unfold pmLoop
      simp [hi]
    rw [this]; exact h5
  | @io n s m s1 r io s'' hi _ ih =>
    intro f0 h1 h2
    obtain ⟨f0', rfl⟩ : ∃ f0', f0 = f0' + 1 := ⟨f0 - 1, by omega⟩
    obtain ⟨f1, h3, h4, h5⟩ := ih hfuel fuel hfuel (Nat.le_refl _)
    refine ⟨f1, by omega, h4, ?_⟩
    have : pmLoop key proc (f0' + 1) s = (.yld m, .atYield s1) := by
      conv => lhs; unfold pmLoop
      simp [hi]
    rw [this]
    exact .cons (by simpa [pmStep, pmResume_send] using h5)

/-! ### exceptions -/

/-- an inserted generator (without cached tail) raises `x` when resumed: it is popped and `x` is
    stashed for the generator below -/
theorem raise_on_send_iter (key : M → ι) (proc : Proc M R V E) (s : PM M ι R V E) (gid : Nat)
    (p p' : Pos M R V E) (g : GenObj M R V E) (below : List (GenObj M R V E)) (r : R)
    (rs0 : List R) (x : E) (hex : s.exception = none) (hps : s.planStack = (gid, p) :: g :: below)
    (hrs : s.resultStack = r :: rs0) (hres : p.resume (.send r) = (.raise x, p'))
    (hx : isException x = true)
    (htc : dictGet s.tailCache gid = none ∨ dictGet s.tailCache gid = some none) :
    ∃ s', pmIter key proc s = .cont s' ∧ s'.planStack = g :: below ∧ s'.exception = some x := by
  have hc : caughtBy Generated.pmSendClauses x = true := by
    simp [caughtBy, firstMatch, Generated.pmSendClauses, Clause.matches, hx]
  unfold pmIter
  simp only [hex, hrs, hps, hres, pmOnSend, hc, ↓reduceIte]
  rcases htc with htc | htc <;> simp [htc]

/-- ... with a cached (not yet started) tail: the tail is pushed, gets `x` thrown in before it
    ever ran, and is popped again: two iterations later `x` is stashed for the generator below -/
theorem raise_on_send_tail_iter (key : M → ι) (proc : Proc M R V E) (s : PM M ι R V E) (gid : Nat)
    (p p' : Pos M R V E) (g : GenObj M R V E) (below : List (GenObj M R V E)) (r : R)
    (rs0 : List R) (x : E) (tid : Nat) (t : Beh M R V E) (hex : s.exception = none)
    (hps : s.planStack = (gid, p) :: g :: below) (hrs : s.resultStack = r :: rs0)
    (hres : p.resume (.send r) = (.raise x, p')) (hx : isException x = true)
    (htc : dictGet s.tailCache gid = some (some (tid, Pos.new t))) :
    ∃ s1 s', pmIter key proc s = .cont s1 ∧ pmIter key proc s1 = .cont s' ∧
      s'.planStack = g :: below ∧ s'.exception = some x := by
  have hc : caughtBy Generated.pmSendClauses x = true := by
    simp [caughtBy, firstMatch, Generated.pmSendClauses, Clause.matches, hx]
  have hc' : caughtBy Generated.pmThrowClauses x = true := by
    simp [caughtBy, firstMatch, Generated.pmThrowClauses, Clause.matches, hx]
  have h1 : pmIter key proc s = .cont
      { s with resultStack := rs0, ret := r, planStack := (tid, Pos.new t) :: g :: below,
               tailCache := dictDel s.tailCache gid, exception := some x } := by
    unfold pmIter
    simp only [hex, hrs, hps, hres, pmOnSend, hc, ↓reduceIte, htc]
    simp
  have h2 : pmIter key proc
      { s with resultStack := rs0, ret := r, planStack := (tid, Pos.new t) :: g :: below,
               tailCache := dictDel s.tailCache gid, exception := some x } = .cont
      { s with resultStack := rs0, ret := r, planStack := g :: below,
               tailCache := dictDel (dictDel s.tailCache gid) tid,
               tailResultCache := dictDel s.tailResultCache tid, exception := some x } := by
    unfold pmIter
    simp [pmOnThrow, Pos.resume, Pos.new, hc']
  exact ⟨_, _, h1, h2, rfl, rfl⟩

/-- an exception `e0` is being thrown into the inserted generator on top and `x` comes out: the
    generator is popped and `x` is stashed for the generator below -/
theorem raise_on_throw_iter (key : M → ι) (proc : Proc M R V E) (s : PM M ι R V E) (gid : Nat)
    (p p' : Pos M R V E) (g : GenObj M R V E) (below : List (GenObj M R V E)) (e0 x : E)
    (hex : s.exception = some e0) (hps : s.planStack = (gid, p) :: g :: below)
    (hres : p.resume (.throw e0) = (.raise x, p')) (hx : isException x = true) :
    ∃ s', pmIter key proc s = .cont s' ∧ s'.planStack = g :: below ∧ s'.exception = some x := by
  have hc' : caughtBy Generated.pmThrowClauses x = true := by
    simp [caughtBy, firstMatch, Generated.pmThrowClauses, Clause.matches, hx]
  unfold pmIter
  simp [hex, hps, hres, pmOnThrow, hc']

/-- a stashed exception is thrown into the generator on top at the next iteration -/
theorem stashed_iter (key : M → ι) (proc : Proc M R V E) (s : PM M ι R V E) (g : Nat)
    (q : Pos M R V E) (rest : List (GenObj M R V E)) (x : E) (hex : s.exception = some x)
    (hps : s.planStack = (g, q) :: rest) :
    pmIter key proc s = pmOnThrow key proc s g rest (q.resume (.throw x)) := by
  unfold pmIter; simp [hex, hps]

/-- a value on top of the result stack is sent to the generator on top at the next iteration -/
theorem send_iter (key : M → ι) (proc : Proc M R V E) (s : PM M ι R V E) (g : Nat)
    (q : Pos M R V E) (rest : List (GenObj M R V E)) (r : R) (rs0 : List R)
    (hex : s.exception = none) (hps : s.planStack = (g, q) :: rest)
    (hrs : s.resultStack = r :: rs0) :
    pmIter key proc s
      = pmOnSend key proc { s with resultStack := rs0, ret := r } g rest (q.resume (.send r)) := by
  unfold pmIter; simp [hex, hps, hrs]

/-! ### `msgs_seen` only grows -/

def PMRes.Keeps (seen : List ι) : PMRes M ι R V E → Prop
  | .cont s => ∀ k, k ∈ seen → k ∈ s.msgsSeen
  | .yield _ s => ∀ k, k ∈ seen → k ∈ s.msgsSeen
  | _ => True

theorem pmExhausted_keeps (s : PM M ι R V E) (gid : Nat) (rest : List (GenObj M R V E)) (v : V) :
    (pmExhausted s gid rest v).Keeps s.msgsSeen := by
  unfold pmExhausted
  cases dictGet s.tailResultCache gid <;> cases htc : dictGet s.tailCache gid with
  | none => simp only []; split <;> first | trivial | exact fun k hk => hk
  | some o =>
    cases o with
    | none => simp only []; split <;> first | trivial | exact fun k hk => hk
    | some t => obtain ⟨tid, tp⟩ := t; simp only []; split <;> first | trivial | exact fun k hk => hk

theorem pmProcess_keeps (key : M → ι) (proc : Proc M R V E) (s : PM M ι R V E) (m : M) :
    (pmProcess key proc s m).Keeps s.msgsSeen := by
  unfold pmProcess
  split
  · exact fun k hk => hk
  · generalize proc s.procLog m = pr
    obtain ⟨hd, tl⟩ := pr
    simp only []
    split <;> exact fun k hk => List.mem_cons_of_mem _ hk

theorem pmIter_keeps (key : M → ι) (proc : Proc M R V E) (s : PM M ι R V E) :
    (pmIter key proc s).Keeps s.msgsSeen := by
  unfold pmIter
  split
  · split
    · trivial
    · rename_i gid top rest _
      generalize top.resume _ = res
      obtain ⟨o, p'⟩ := res
      cases o with
      | yld m => exact pmProcess_keeps key proc _ m
      | ret v => exact pmExhausted_keeps _ gid rest v
      | raise x =>
        simp only [pmOnThrow]
        split
        · split <;> first | trivial | exact fun k hk => hk
        · trivial
  · split
    · trivial
    · split
      · trivial
      · rename_i r rs _ gid top rest _
        generalize top.resume _ = res
        obtain ⟨o, p'⟩ := res
        cases o with
        | yld m => exact pmProcess_keeps key proc _ m
        | ret v => exact pmExhausted_keeps _ gid rest v
        | raise x =>
          simp only [pmOnSend]
          split
          · cases dictGet s.tailCache gid with
            | none => simp only []; split <;> first | trivial | exact fun k hk => hk
            | some o => cases o <;> (simp only []; split <;> first | trivial | exact fun k hk => hk)
          · trivial

theorem PmPath.keeps {key : M → ι} {proc : Proc M R V E} {n : Nat} {s s' : PM M ι R V E}
    {io : List (M × R)} (hp : PmPath key proc n s io s') : ∀ k, k ∈ s.msgsSeen → k ∈ s'.msgsSeen := by
  induction hp with
  | nil s => exact fun k hk => hk
  | @silent n s s1 io s'' hi _ ih =>
    intro k hk
    have := pmIter_keeps key proc s; rw [hi] at this
    exact ih k (this k hk)
  | @io n s m s1 r io s'' hi _ ih =>
    intro k hk
    have := pmIter_keeps key proc s; rw [hi] at this
    exact ih k (this k hk)

/-- a message whose object has been seen goes out without the processor being called -/
theorem pmProcess_seen (key : M → ι) (proc : Proc M R V E) (s : PM M ι R V E) (m : M)
    (h : key m ∈ s.msgsSeen) : pmProcess key proc s m = .yield m s := by
  unfold pmProcess
  simp [h]

/-! ### every state the generator `plan_mutator(plan, proc)` is ever suspended in has fresh ids -/

def PMSt.Fresh : PMSt M ι R V E → Prop
  | .atYield s => FreshIds s
  | _ => True

theorem pmLoop_fresh (key : M → ι) (proc : Proc M R V E) (fuel : Nat) (s : PM M ι R V E)
    (h : FreshIds s) : (pmLoop key proc fuel s).2.Fresh := by
  induction fuel generalizing s with
  | zero => simp [pmLoop, PMSt.Fresh]
  | succ f ih =>
    unfold pmLoop
    have := pmIter_fresh key proc s h
    cases hr : pmIter key proc s with
    | cont s' => rw [hr] at this; exact ih s' this
    | yield m s' => rw [hr] at this; exact this
    | ret v => trivial
    | raise e => trivial

theorem pmResume_fresh (s : PM M ι R V E) (i : Inp R E) (h : FreshIds s) :
    (pmResume s i).Fresh := by
  cases i with
  | send r => exact h
  | throw e =>
    simp only [pmResume]
    cases firstMatch Generated.pmYieldClauses e with
    | none => trivial
    | some c =>
      cases c with
      | stopIteration => trivial
      | genExit => simp only []; split <;> trivial
      | exception => simp only []; split <;> first | trivial | exact h
      | baseException => simp only []; split <;> first | trivial | exact h

theorem pmStep_fresh (fuel : Nat) (key : M → ι) (proc : Proc M R V E) (plan : Beh M R V E)
    (st : PMSt M ι R V E) (i : Inp R E) (h : st.Fresh) :
    (pmStep fuel key proc plan st i).2.Fresh := by
  cases st with
  | init => exact pmLoop_fresh key proc fuel _ (freshIds_init plan)
  | fin => trivial
  | atYield s =>
    have := pmResume_fresh s i h
    simp only [pmStep]
    cases hr : pmResume s i with
    | cont s' => rw [hr] at this; exact pmLoop_fresh key proc fuel _ this
    | yield m s' => rw [hr] at this; exact this
    | ret v => trivial
    | raise e => trivial

theorem planMutator_fresh (fuel : Nat) (key : M → ι) (proc : Proc M R V E) (plan : Beh M R V E)
    (hist : List (Inp R E)) :
    (Machine.state (pmStep fuel key proc plan) .init hist).Fresh :=
  Machine.state_inv _ PMSt.Fresh (fun st i h => pmStep_fresh fuel key proc plan st i h) .init
    (by simp [PMSt.Fresh]) hist

end
end BlueskyVerif.Gen
