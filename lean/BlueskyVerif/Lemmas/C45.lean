/-
C45 helper lemmas: what `_pack_external_assets` emits and computes, what a successful `collect` does to
the counter, and the index every contract-obeying detector is collected up to.
-/
import BlueskyVerif.Lemmas.C05

namespace BlueskyVerif.Bundler
open Generated

/-- a stream-datum document of stream `n` (descriptor uid `u`) packed while the counter was `c`:
    `seq_nums = [c, c + width)` with `width` the width of its `indices`, which is 0 or `prev` -/
def DatumOK (n : Name) (u c prev : Nat) (assets : List Asset) (doc : Doc) : Prop :=
  doc.kind = .streamDatum →
    doc.stream = some n ∧ doc.descriptor = some u ∧
    ∃ a b, doc.idxRange = some (a, b) ∧ doc.seqRange = some (c, c + (b - a)) ∧ (b - a = 0 ∨ b - a = prev) ∧
      ∃ uid res, Asset.datum uid res false a b false ∈ assets

/-- invariant of the loop of `_pack_external_assets` over the assets `done` processed so far -/
structure PackInv (s : BState) (n : Name) (u c : Nat) (done : List Asset) (p : PackSt) : Prop where
  seq : p.st.seq = s.seq
  log : p.st.log = s.log
  out : ∃ docs, p.st.out = s.out ++ docs ∧ (∀ doc ∈ docs, DatumOK n u c p.prev done doc) ∧
    ∀ doc ∈ docs, doc.kind = .streamDatum ∨ doc.kind = .streamResource

theorem DatumOK.mono {n : Name} {u c prev : Nat} {l l' : List Asset} {doc : Doc} (h : DatumOK n u c prev l doc)
    (hs : ∀ a ∈ l, a ∈ l') : DatumOK n u c prev l' doc := by
  intro hk
  obtain ⟨h1, h2, a, b, h3, h4, h5, uid, res, h6⟩ := h hk
  exact ⟨h1, h2, a, b, h3, h4, h5, uid, res, hs _ h6⟩

theorem packOne_inv (s : BState) (n : Name) (d : Desc) (c : Nat) (hc : aget s.seq n = some c)
    (done : List Asset) (p : PackSt) (a : Asset) (h : PackInv s n d.uid c done p) :
    PackInv s n d.uid c (done ++ [a]) (packOne n d p a) := by
  have hsub : ∀ x ∈ done, x ∈ done ++ [a] := fun x hx => List.mem_append.2 (Or.inl hx)
  obtain ⟨hseq, hlog, docs, hout, hok, hkind⟩ := h
  have keep : PackInv s n d.uid c (done ++ [a]) p :=
    ⟨hseq, hlog, docs, hout, fun doc hd => (hok doc hd).mono hsub, hkind⟩
  unfold packOne
  split
  · exact keep
  · cases a with
    | resource uid key =>
      simp only
      split
      · exact ⟨hseq, hlog, docs, hout, fun doc hd => (hok doc hd).mono hsub, hkind⟩
      · split
        · exact ⟨hseq, hlog, docs, hout, fun doc hd => (hok doc hd).mono hsub, hkind⟩
        · refine ⟨hseq, hlog, docs ++ [_], by simp only; rw [hout, List.append_assoc], ?_, ?_⟩
          · intro doc hd
            rcases List.mem_append.1 hd with h1 | h1
            · exact (hok doc h1).mono hsub
            · simp at h1; subst h1; intro hk; simp at hk
          · intro doc hd
            rcases List.mem_append.1 hd with h1 | h1
            · exact hkind doc h1
            · simp at h1; subst h1; exact Or.inr rfl
    | datum uid resource descFilled start stop seqFilled =>
      simp only
      split
      · exact ⟨hseq, hlog, docs, hout, fun doc hd => (hok doc hd).mono hsub, hkind⟩
      · rename_i hdf
        split
        · exact ⟨hseq, hlog, docs, hout, fun doc hd => (hok doc hd).mono hsub, hkind⟩
        · split
          · exact ⟨hseq, hlog, docs, hout, fun doc hd => (hok doc hd).mono hsub, hkind⟩
          · rename_i hsf
            split
            · exact ⟨hseq, hlog, docs, hout, fun doc hd => (hok doc hd).mono hsub, hkind⟩
            · rename_i hprev
              split
              · exact ⟨hseq, hlog, docs, hout, fun doc hd => (hok doc hd).mono hsub, hkind⟩
              · rename_i c' hc'
                have hcc : c' = c := by rw [hseq, hc] at hc'; cases hc'; rfl
                subst hcc
                have hdf' : descFilled = false := by simpa using hdf
                have hsf' : seqFilled = false := by simpa using hsf
                subst hdf'; subst hsf'
                have hw : p.prev = 0 ∨ p.prev = stop - start := by
                  simp only [Bool.and_eq_true, bne_iff_ne, ne_eq, not_and, Decidable.not_not] at hprev
                  by_cases h0 : p.prev = 0
                  · exact Or.inl h0
                  · exact Or.inr (hprev h0)
                refine ⟨hseq, hlog, docs ++ [_], by simp only; rw [hout, List.append_assoc], ?_, ?_⟩
                · intro doc hd
                  rcases List.mem_append.1 hd with h1 | h1
                  · intro hk
                    obtain ⟨k1, k2, a0, b0, k3, k4, k5, uid0, res0, k6⟩ := hok doc h1 hk
                    refine ⟨k1, k2, a0, b0, k3, k4, ?_, uid0, res0, hsub _ k6⟩
                    rcases hw with hw | hw
                    · left; rcases k5 with k5 | k5
                      · exact k5
                      · rw [k5, hw]
                    · rcases k5 with k5 | k5
                      · exact Or.inl k5
                      · right; rw [k5, hw]
                  · simp at h1; subst h1
                    intro _
                    exact ⟨rfl, rfl, start, stop, rfl, rfl, Or.inr rfl, uid, resource, by simp⟩
                · intro doc hd
                  rcases List.mem_append.1 hd with h1 | h1
                  · exact hkind doc h1
                  · simp at h1; subst h1; exact Or.inl rfl

theorem packFold_inv (s : BState) (n : Name) (d : Desc) (c : Nat) (hc : aget s.seq n = some c)
    (assets done : List Asset) (p : PackSt) (h : PackInv s n d.uid c done p) :
    PackInv s n d.uid c (done ++ assets) (assets.foldl (packOne n d) p) := by
  induction assets generalizing done p with
  | nil => simpa using h
  | cons a t ih =>
    simp only [List.foldl_cons]
    have := ih (done ++ [a]) (packOne n d p a) (packOne_inv s n d c hc done p a h)
    simpa [List.append_assoc] using this

/-- `_pack_external_assets` for a stream with a counter -/
theorem pack_inv (s : BState) (n : Name) (d : Desc) (c : Nat) (hd : aget s.descriptors n = some d)
    (hc : aget s.seq n = some c) (assets : List Asset) :
    PackInv s n d.uid c assets (packExternalAssets s n assets) := by
  unfold packExternalAssets
  simp only [hd]
  have h0 : PackInv s n d.uid c [] { st := s } := ⟨rfl, rfl, [], by simp, by simp, by simp⟩
  have := packFold_inv s n d c hc assets [] { st := s } h0
  simp only [List.nil_append] at this
  split
  · exact this
  · split
    · exact ⟨this.seq, this.log, this.out⟩
    · exact this

/-! ### the index detectors are collected up to -/

theorem foldl_min_le (l : List Nat) (m : Nat) : l.foldl min m ≤ m ∧ ∀ x ∈ l, l.foldl min m ≤ x := by
  induction l generalizing m with
  | nil => exact ⟨Nat.le_refl _, fun _ h => by cases h⟩
  | cons a t ih =>
    simp only [List.foldl_cons]
    obtain ⟨h1, h2⟩ := ih (min m a)
    refine ⟨Nat.le_trans h1 (Nat.min_le_left _ _), fun x hx => ?_⟩
    rcases List.mem_cons.1 hx with rfl | hx
    · exact Nat.le_trans h1 (Nat.min_le_right _ _)
    · exact h2 x hx

theorem foldl_min_mem (l : List Nat) (m : Nat) : l.foldl min m = m ∨ l.foldl min m ∈ l := by
  induction l generalizing m with
  | nil => exact Or.inl rfl
  | cons a t ih =>
    simp only [List.foldl_cons]
    rcases ih (min m a) with h | h
    · rw [h]
      by_cases hma : m ≤ a
      · left; exact Nat.min_eq_left hma
      · right; rw [Nat.min_eq_right (by omega)]; exact List.mem_cons_self
    · exact Or.inr (List.mem_cons_of_mem _ h)

/-- `min(await asyncio.gather(...))`: a lower bound of the indices that is one of them -/
theorem aggIndex_min (l : List Nat) (h : l ≠ []) : (∀ x ∈ l, aggIndex l ≤ x) ∧ aggIndex l ∈ l := by
  unfold aggIndex
  simp only [collectIndexAgg]
  cases l with
  | nil => exact absurd rfl h
  | cons a t =>
    simp only [List.headD_cons, List.foldl_cons, Nat.min_self]
    obtain ⟨h1, h2⟩ := foldl_min_le t a
    refine ⟨fun x hx => ?_, ?_⟩
    · rcases List.mem_cons.1 hx with rfl | hx
      · exact h1
      · exact h2 x hx
    · rcases foldl_min_mem t a with h | h
      · rw [h]; exact List.mem_cons_self
      · exact List.mem_cons_of_mem _ h

/-- a contract-obeying detector asked for its documents up to `index` yields datums that stop at
    `index`, start at the index it reported last time, with empty `descriptor` / `seq_nums` -/
theorem detCollect_contract (name : Obj) (keys : List Key) (d : DetSt) (index : Nat) :
    ∀ a ∈ (detCollect name keys d (some index) {}).1, ∀ uid res df st sp sf, a = Asset.datum uid res df st sp sf →
      sp = index ∧ st = d.last ∧ df = false ∧ sf = false := by
  intro a ha uid res df st sp sf he
  subst he
  unfold detCollect at ha
  simp only [Option.getD_some, Mis.any, bne_self_eq_false, Bool.false_or, Bool.or_false, List.mem_append] at ha
  rcases ha with ha | ha
  · split at ha
    · simp at ha
    · simp at ha
  · split at ha
    next hgt =>
      simp only [List.mem_map] at ha
      obtain ⟨ik, _, hik⟩ := ha
      simp only [Asset.datum.injEq] at hik
      obtain ⟨_, _, h3, h4, h5, h6⟩ := hik
      have hm : max index d.last = index := Nat.max_eq_left (Nat.le_of_lt (by simpa using hgt))
      exact ⟨by rw [← h5, hm]; split <;> simp, h4.symm, h3.symm, h6.symm⟩
    next => simp at ha

theorem mem_zip_replicate {α β : Type} (l : List α) (b : β) (k : Nat) (p : α × β)
    (h : p ∈ l.zip (List.replicate k b)) : p.2 = b := by
  have := (List.of_mem_zip h).2
  exact (List.mem_replicate.1 this).2

/-- all detectors collected together, none misbehaving: every datum stops at the common index -/
theorem gatherAssets_contract (w : World) (s : BState) (objs : List Obj) (index : Nat) :
    ∀ a ∈ (gatherAssets w s objs (some index) []).1, ∀ uid res df st sp sf, a = Asset.datum uid res df st sp sf →
      sp = index ∧ df = false ∧ sf = false := by
  unfold gatherAssets
  simp only [List.nil_append]
  have key : ∀ (l : List (Obj × Mis)) (acc : List Asset × List (Obj × DetSt)),
      (∀ om ∈ l, om.2 = {}) →
      (∀ a ∈ acc.1, ∀ uid res df st sp sf, a = Asset.datum uid res df st sp sf → sp = index ∧ df = false ∧ sf = false) →
      ∀ a ∈ (l.foldl (fun (acc : List Asset × List (Obj × DetSt)) om =>
          let d := (aget acc.2 om.1).getD {}
          let (docs, d') := detCollect om.1 (w.spec om.1).keys d (some index) om.2
          (acc.1 ++ docs, aset acc.2 om.1 d')) acc).1,
        ∀ uid res df st sp sf, a = Asset.datum uid res df st sp sf → sp = index ∧ df = false ∧ sf = false := by
    intro l
    induction l with
    | nil => intro acc _ h; exact h
    | cons om t ih =>
      intro acc hm hacc
      simp only [List.foldl_cons]
      apply ih _ (fun x hx => hm x (List.mem_cons_of_mem _ hx))
      intro a ha uid res df st sp sf he
      have hom : om.2 = {} := hm om List.mem_cons_self
      simp only at ha
      rcases List.mem_append.1 ha with h1 | h1
      · exact hacc a h1 uid res df st sp sf he
      · rw [hom] at h1
        obtain ⟨k1, _, k3, k4⟩ := detCollect_contract om.1 _ _ index a h1 uid res df st sp sf he
        exact ⟨k1, k3, k4⟩
  exact key _ _ (fun om hom => mem_zip_replicate objs _ _ om hom) (by simp)

/-! ### a successful `collect` -/

theorem andThen_fail_err (r : Res) (e : Err) : ¬ (r.andThen fun s => Res.fail s e).err = none := by
  cases he : r.err with
  | some e' => rw [Res.andThen_of_err _ _ _ he, he]; simp
  | none => rw [Res.andThen_of_ok _ _ he]; simp

/-- a `_collect` that does not raise went to a declared stream -/
theorem collectInner_ok (w : World) (s : BState) (objs : List Obj) (nm : Option Name) (mis : List Mis)
    (h : (collectInner w s objs nm mis).err = none) :
    ∃ n, collectInner w s objs nm mis =
      collectInto w { s with uncollected := s.uncollected.filter fun o => !objs.contains o } objs n mis := by
  unfold collectInner at h ⊢
  generalize ({ s with uncollected := s.uncollected.filter fun o => !objs.contains o } : BState) = s1 at h ⊢
  cases hro : s.runOpen with
  | false => simp [hro] at h
  | true =>
    simp only [hro, Bool.not_true, Bool.false_eq_true, if_false] at h ⊢
    cases hcs : collectStream s1 objs nm with
    | error e => rw [hcs] at h; simp at h
    | ok v =>
      rw [hcs] at h
      cases v with
      | some n => exact ⟨n, rfl⟩
      | none =>
        exfalso
        simp only at h
        split at h
        · exact absurd h (andThen_fail_err _ _)
        · simp at h

/-- what a `collect` that did not raise did: it went to one declared stream `n` whose counter was `c`;
    everything it emitted is stream resources / stream datums; every datum carries `[c, c + w)` with
    `w` its index width, `w = 0 ∨ w = d`; the counter is now `c + d`, logged as one `bump`
    (+ its commit when `d ≠ 0`) -/
theorem collect_ok (w : World) (s : BState) (objs : List Obj) (nm : Option Name) (mis : List Mis)
    (hadmS : (akeys s.seq).Nodup) (h : (collect w s objs nm mis).err = none) :
    ∃ n c d dsc assets, aget s.seq n = some c ∧ aget s.descriptors n = some dsc ∧
      aget (collect w s objs nm mis).st.seq n = some (c + d) ∧
      (collect w s objs nm mis).st.log = s.log ++ (CEv.bump n c d :: if d = 0 then [] else [CEv.commit n]) ∧
      ∃ docs, (collect w s objs nm mis).st.out = s.out ++ docs ∧
        (∀ doc ∈ docs, DatumOK n dsc.uid c d assets doc) ∧
        (∀ doc ∈ docs, doc.kind = .streamDatum ∨ doc.kind = .streamResource) ∧
        assets = (gatherAssets w { s with uncollected := s.uncollected.filter fun o => !objs.contains o } objs
          (collectIndex { s with uncollected := s.uncollected.filter fun o => !objs.contains o } objs) mis).1 := by
  unfold collect at h ⊢
  simp only [collectCommitsChanged, if_true] at h ⊢
  obtain ⟨n, hinner⟩ := collectInner_ok w s objs nm mis h
  rw [hinner] at h ⊢
  generalize hs1 : ({ s with uncollected := s.uncollected.filter fun o => !objs.contains o } : BState) = s1 at *
  have hs1q : s1.seq = s.seq ∧ s1.log = s.log ∧ s1.out = s.out ∧ s1.descriptors = s.descriptors := by
    subst hs1; exact ⟨rfl, rfl, rfl, rfl⟩
  unfold collectInto at h ⊢
  simp only at h ⊢
  generalize hga : gatherAssets w s1 objs (collectIndex s1 objs) mis = ga at *
  generalize hp : packExternalAssets { s1 with dets := ga.2 } n ga.1 = p at *
  unfold collectBump at h ⊢
  cases hpe : p.err with
  | some e => simp [hpe] at h
  | none =>
    simp only [hpe] at h ⊢
    -- the descriptor and the counter exist, otherwise the pack / the bump raise
    cases hd : aget s.descriptors n with
    | none =>
      exfalso
      have : p.err = some .keyError := by
        rw [← hp]; unfold packExternalAssets
        simp only [hs1q.2.2.2, hd]
      rw [hpe] at this; cases this
    | some dsc =>
      cases hc : aget s.seq n with
      | none =>
        exfalso
        -- pack keeps the counters, so the bump finds none
        have hpk : p.st.seq = s.seq := by
          rw [← hp]
          have := KeepsCtr.keeps_packExternalAssets w { s1 with dets := ga.2 } n ga.1
          unfold KeepsCtr.Keeps KeepsCtr.proj at this
          simp only [Prod.mk.injEq] at this
          rw [this.1]; exact hs1q.1
        simp only [hpk, hc] at h
        simp at h
      | some c =>
        have hinv := pack_inv { s1 with dets := ga.2 } n dsc c (by simp only; rw [hs1q.2.2.2]; exact hd)
          (by simp only; rw [hs1q.1]; exact hc) ga.1
        rw [hp] at hinv
        obtain ⟨iseq, ilog, docs, iout, iok, ikind⟩ := hinv
        simp only at iseq ilog iout
        have hpc : aget p.st.seq n = some c := by rw [iseq, hs1q.1]; exact hc
        simp only [hpc, collectAdvancesByDifference, if_true, Res.ok_st]
        -- the `finally`: exactly stream `n` changed (when the width is not 0)
        have hfil := KeepsCtrRef.filter_changed_aset s.seq n c (c + p.prev) hadmS hc
        unfold commitChanged
        rw [iseq, hs1q.1, hfil]
        refine ⟨n, c, p.prev, dsc, ga.1, (by first | exact hc | rfl), (by first | exact hd | rfl), ?_, ?_, docs, ?_, iok, ikind, ?_⟩
        · by_cases h0 : p.prev = 0
          · simp [h0, hc]
          · have hne : ¬ (c + p.prev = c) := by omega
            simp only [hne, if_false, List.map_cons, List.map_nil, List.foldl_cons, List.foldl_nil]
            unfold commit
            simp
        · by_cases h0 : p.prev = 0
          · simp [h0, ilog, hs1q.2.1]
          · have hne : ¬ (c + p.prev = c) := by omega
            simp only [hne, if_false, List.map_cons, List.map_nil, List.foldl_cons, List.foldl_nil, h0]
            unfold commit
            simp [ilog, hs1q.2.1]
        · by_cases h0 : p.prev = 0
          · simp [h0, iout, hs1q.2.2.1]
          · have hne : ¬ (c + p.prev = c) := by omega
            simp only [hne, if_false, List.map_cons, List.map_nil, List.foldl_cons, List.foldl_nil]
            unfold commit
            simp [iout, hs1q.2.2.1]
        · rfl

end BlueskyVerif.Bundler
