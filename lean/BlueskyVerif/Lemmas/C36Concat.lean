/-
Helper lemmas for C36 (concatenate_stream_datums): the stable insertion sort is a sorted
permutation; a strictly increasing permutation is THE sorted one; chains of ranges telescope.
-/
import BlueskyVerif.Pure.StreamDatum

namespace BlueskyVerif.C36
open BlueskyVerif.StreamDatum

/-! ### specification vocabulary -/

/-- neighbours touch: each range stops where the next one starts -/
def Chain : List SD → Prop
  | a :: b :: r => a.iStop = b.iStart ∧ Chain (b :: r)
  | _ => True

/-- "a set of contiguous stream datums, in any order": SOME arrangement of the documents is a chain -/
def Contiguous (docs : List SD) : Prop := ∃ l, l.Perm docs ∧ Chain l

def SameDesc (docs : List SD) : Prop := ∀ a ∈ docs, ∀ b ∈ docs, a.desc = b.desc
def SameRes (docs : List SD) : Prop := ∀ a ∈ docs, ∀ b ∈ docs, a.res = b.res

/-- well-formed half-open ranges -/
def WF (docs : List SD) : Prop := ∀ d ∈ docs, d.iStart ≤ d.iStop

/-- no zero-width range shares its start with another document -/
def NoTiedEmpty (docs : List SD) : Prop :=
  docs.Pairwise (fun a b => a.iStart = b.iStart → a.iStart < a.iStop ∧ b.iStart < b.iStop)

def width (d : SD) : Nat := d.iStop - d.iStart

def Sorted (l : List SD) : Prop := l.Pairwise (fun a b => sortKey a ≤ sortKey b)
def StrictSorted (l : List SD) : Prop := l.Pairwise (fun a b => sortKey a < sortKey b)

/-! ### the sort -/

theorem insertByKey_perm (d : SD) (l : List SD) : (insertByKey d l).Perm (d :: l) := by
  induction l with
  | nil => simp [insertByKey]
  | cons x xs ih =>
    unfold insertByKey
    split
    · exact List.Perm.refl _
    · exact (List.Perm.cons x ih).trans (List.Perm.swap d x xs)

theorem sortByKey_perm (l : List SD) : (sortByKey l).Perm l := by
  induction l with
  | nil => simp [sortByKey]
  | cons a l ih =>
    have : sortByKey (a :: l) = insertByKey a (sortByKey l) := rfl
    rw [this]
    exact (insertByKey_perm a _).trans (List.Perm.cons a ih)

theorem insertByKey_sorted (d : SD) (l : List SD) (h : Sorted l) : Sorted (insertByKey d l) := by
  induction l with
  | nil => simp [insertByKey, Sorted]
  | cons x xs ih =>
    unfold Sorted at h ih ⊢
    rw [List.pairwise_cons] at h
    unfold insertByKey
    split
    · rename_i hle
      rw [List.pairwise_cons, List.pairwise_cons]
      refine ⟨?_, h⟩
      intro y hy
      rcases List.mem_cons.mp hy with rfl | hy
      · exact hle
      · exact Nat.le_trans hle (h.1 y hy)
    · rename_i hnle
      rw [List.pairwise_cons]
      refine ⟨?_, ih h.2⟩
      intro y hy
      have := (insertByKey_perm d xs).mem_iff.mp hy
      rcases List.mem_cons.mp this with rfl | hy
      · omega
      · exact h.1 y hy

theorem sortByKey_sorted (l : List SD) : Sorted (sortByKey l) := by
  induction l with
  | nil => simp [sortByKey, Sorted]
  | cons a l ih => exact insertByKey_sorted a _ ih

/-- a strictly increasing arrangement is the only sorted arrangement -/
theorem sorted_unique (l s : List SD) (hp : s.Perm l) (hl : StrictSorted l) (hs : Sorted s) : s = l := by
  induction l generalizing s with
  | nil => exact hp.eq_nil
  | cons a l ih =>
    cases s with
    | nil => exact absurd hp.length_eq (by simp)
    | cons b s =>
      unfold StrictSorted at hl
      unfold Sorted at hs
      rw [List.pairwise_cons] at hl hs
      have hb : b ∈ a :: l := hp.mem_iff.mp (by simp)
      have ha : a ∈ b :: s := hp.mem_iff.mpr (by simp)
      have hab : b = a := by
        rcases List.mem_cons.mp hb with h | h
        · exact h
        · rcases List.mem_cons.mp ha with h' | h'
          · exact h'.symm
          · have h1 := hl.1 b h
            have h2 := hs.1 a h'
            omega
      subst hab
      rw [ih s hp.cons_inv hl.2 hs.2]

/-! ### Boolean checks vs their meaning -/

theorem allSame_iff (f : SD → Nat) (docs : List SD) : allSame f docs = true ↔ ∀ a ∈ docs, ∀ b ∈ docs, f a = f b := by
  cases docs with
  | nil => simp [allSame]
  | cons d ds =>
    simp only [allSame, List.all_eq_true, beq_iff_eq]
    constructor
    · intro h a ha b hb
      have ea : f a = f d := by
        rcases List.mem_cons.mp ha with rfl | ha
        · rfl
        · exact h a ha
      have eb : f b = f d := by
        rcases List.mem_cons.mp hb with rfl | hb
        · rfl
        · exact h b hb
      omega
    · intro h e he
      exact h e (by simp [he]) d (by simp)

theorem consecutive_iff (l : List SD) : consecutive l = true ↔ Chain l := by
  induction l with
  | nil => simp [consecutive, Chain]
  | cons a t ih =>
    cases t with
    | nil => simp [consecutive, Chain]
    | cons b r =>
      simp only [consecutive, Chain, Bool.and_eq_true, ih]
      simp [notConsecutive]

/-! ### chains -/

theorem Chain.tail {a : SD} {t : List SD} (h : Chain (a :: t)) : Chain t := by
  cases t with
  | nil => trivial
  | cons b r => exact h.2

/-- in a chain of well-formed ranges everything after the head starts at or after the head's stop -/
theorem chain_head_le (a : SD) (t : List SD) (hc : Chain (a :: t)) (hw : WF (a :: t)) :
    ∀ d ∈ t, a.iStop ≤ d.iStart := by
  induction t generalizing a with
  | nil => intro d hd; simp at hd
  | cons b r ih =>
    intro d hd
    have hb : b.iStart ≤ b.iStop := hw b (by simp)
    rcases List.mem_cons.mp hd with rfl | hd
    · exact Nat.le_of_eq hc.1
    · have := ih b hc.2 (fun x hx => hw x (by simp [hx])) d hd
      have := hc.1
      omega

/-- a chain of well-formed ranges without tied empty ranges is strictly increasing in its starts -/
theorem chain_strict (l : List SD) (hc : Chain l) (hw : WF l) (ht : NoTiedEmpty l) : StrictSorted l := by
  induction l with
  | nil => simp [StrictSorted]
  | cons a t ih =>
    unfold StrictSorted NoTiedEmpty at *
    rw [List.pairwise_cons] at ht ⊢
    refine ⟨?_, ih hc.tail (fun x hx => hw x (by simp [hx])) ht.2⟩
    intro d hd
    have h1 := chain_head_le a t hc hw d hd
    have h2 : a.iStart ≤ a.iStop := hw a (by simp)
    have h3 := ht.1 d hd
    simp only [sortKey]
    by_cases he : a.iStart = d.iStart
    · have := (h3 he).1; omega
    · omega

/-- telescoping: along a chain of well-formed ranges the head has the least start, the last element the
    greatest stop, and the widths add up to the distance between them -/
theorem chain_telescope (a : SD) (t : List SD) (hc : Chain (a :: t)) (hw : WF (a :: t)) :
    ∃ l, (a :: t).getLast? = some l ∧ a.iStart + ((a :: t).map width).sum = l.iStop ∧
      (∀ d ∈ a :: t, d.iStop ≤ l.iStop) ∧ (∀ d ∈ a :: t, a.iStart ≤ d.iStart) := by
  induction t generalizing a with
  | nil =>
    have := hw a (by simp)
    refine ⟨a, rfl, ?_, ?_, ?_⟩
    · simp [width]; omega
    · intro d hd; simp at hd; subst hd; exact Nat.le_refl _
    · intro d hd; simp at hd; subst hd; exact Nat.le_refl _
  | cons b r ih =>
    obtain ⟨l, hl, hsum, hstop, hstart⟩ := ih b hc.2 (fun x hx => hw x (by simp [hx]))
    have ha := hw a (by simp)
    have hb := hw b (by simp)
    have hab := hc.1
    refine ⟨l, by rw [List.getLast?_cons_cons]; exact hl, ?_, ?_, ?_⟩
    · simp only [List.map_cons, List.sum_cons, width] at hsum ⊢
      omega
    · intro d hd
      rcases List.mem_cons.mp hd with rfl | hd
      · have := hstop b (by simp); omega
      · exact hstop d hd
    · intro d hd
      rcases List.mem_cons.mp hd with rfl | hd
      · exact Nat.le_refl _
      · have := hstart d hd; omega

/-- the last element of a sorted list has the greatest key -/
theorem sorted_last_max (a : SD) (t : List SD) (hs : Sorted (a :: t)) :
    ∃ l, (a :: t).getLast? = some l ∧ l ∈ a :: t ∧ ∀ d ∈ a :: t, sortKey d ≤ sortKey l := by
  induction t generalizing a with
  | nil => exact ⟨a, rfl, by simp, by intro d hd; simp at hd; subst hd; exact Nat.le_refl _⟩
  | cons b r ih =>
    unfold Sorted at hs ih
    rw [List.pairwise_cons] at hs
    obtain ⟨l, hl, hmem, hmax⟩ := ih b hs.2
    refine ⟨l, by rw [List.getLast?_cons_cons]; exact hl, by simp [hmem], ?_⟩
    intro d hd
    rcases List.mem_cons.mp hd with rfl | hd
    · exact hs.1 l hmem
    · exact hmax d hd

/-! ### unfolding `concat` -/

theorem concat_single (d : SD) : concat [d] = .ok d := by
  simp [concat, singleShortcut]

theorem concat_general (docs : List SD) (h : docs.length ≠ 1) :
    concat docs =
      if allSame (fun d => d.desc) docs = false ∨ allSame (fun d => d.res) docs = false then .error .valueError
      else if consecutive (sortByKey docs) = false then .error .valueError
      else match (sortByKey docs).head?, (sortByKey docs).getLast? with
        | some f, some l => .ok (combine f l)
        | _, _ => .error .indexError := by
  match docs, h with
  | [], _ => simp [concat, uniformChecks, allSame, sortByKey, consecutive]
  | a :: b :: r, _ =>
    simp only [concat, uniformChecks, List.any_cons, List.any_nil, Bool.or_false, Bool.or_eq_true,
      Bool.not_eq_eq_eq_not, Bool.not_true]
    split
    · rename_i heq; cases heq
    · rfl

theorem perm_tame {l docs : List SD} (hp : l.Perm docs) (hw : WF docs) (ht : NoTiedEmpty docs) :
    WF l ∧ NoTiedEmpty l :=
  ⟨fun d hd => hw d (hp.mem_iff.mp hd),
   (List.Perm.pairwise_iff (R := fun (a b : SD) => a.iStart = b.iStart → a.iStart < a.iStop ∧ b.iStart < b.iStop)
      (fun {x y} h e => (h e.symm).symm) hp).mpr (by unfold NoTiedEmpty at ht; exact ht)⟩

end BlueskyVerif.C36
