/-
C41 helper lemmas: the pause block, the resume path, the cleanup, signal updates, and the
suspension handlers (`_start_suspender`, `_resume_from_suspender`).
-/
import BlueskyVerif.Lemmas.C41Blocks

namespace BlueskyVerif.Engine

/-! ## the pause block -/

theorem leaveLoop_pc_ne_pausedWait (s : EState) (e : Exc) : (leaveLoop s e).pc ≠ .pausedWait := by
  unfold leaveLoop; simp only []; split <;> simp

/-- what `pauseBlock` does before the state assignment -/
def pausePrep (s : EState) : EState := pauseHooks (stopMovables (forBundlers s suspendMonitors))

theorem pausePrep_noMonSubs (s : EState) : NoMonSubs (pausePrep s) := by
  unfold pausePrep
  obtain ⟨j, hj⟩ := pauseHooks_bundlers (stopMovables (forBundlers s suspendMonitors))
  rw [bundlers_stopMovables, forBundlers_suspend_bundlers] at hj
  intro kb hkb ms hms
  rw [hj] at hkb
  obtain ⟨kb0, hkb0, rfl⟩ := List.mem_map.mp hkb
  simp only [resetN_monitors, resetN_runId] at hms ⊢
  rw [subsOf_pauseHooks, subsOf_stopMovables, mem_subsOf_forBundlers_suspend]
  rintro ⟨_, hno⟩
  exact hno ⟨kb0, hkb0, ms.2, hms, rfl⟩

theorem pauseBlock_cases (s : EState) :
    (∃ e, pauseBlock s = .stop (leaveLoop (pausePrep s) e)) ∨
    (∃ s1, setState (pausePrep s) .paused = .ok s1 ∧ pauseBlock s = .stop { s1 with blockingEvent := true, pc := .pausedWait }) := by
  unfold pauseBlock
  simp only []
  split
  · rename_i e _; exact Or.inl ⟨e, rfl⟩
  · rename_i s1 hs; exact Or.inr ⟨s1, hs, rfl⟩

/-! ## restore_monitors re-creates exactly one registration per monitor -/

theorem count_restored_of_not_mem (bs : List (String × Bundler)) (n : String) (p : Nat × String)
    (h : p.1 ∉ bs.map (fun kb => kb.2.runId)) : (restored bs n).count p = 0 := by
  rw [List.count_eq_zero]
  intro hm
  simp only [restored, List.mem_flatMap, List.mem_map, List.mem_filter] at hm
  obtain ⟨kb, hkb, ms, _, hp⟩ := hm
  apply h
  rw [← hp]
  exact List.mem_map.mpr ⟨kb, hkb, rfl⟩

theorem count_own_monitor (mons : List (String × String)) (rid : Nat) (ms : String × String)
    (hn : (keys mons).Nodup) (hm : ms ∈ mons) :
    ((mons.filter (fun x => x.1 == ms.1)).map (fun x => (rid, x.2))).count (rid, ms.2) = 1 := by
  induction mons with
  | nil => cases hm
  | cons x xs ih =>
    simp only [keys, List.map_cons, List.nodup_cons] at hn
    rcases List.mem_cons.mp hm with e | e
    · subst e
      have hrest : (xs.filter (fun x => x.1 == ms.1)) = [] := by
        rw [List.filter_eq_nil_iff]
        intro y hy hy1
        have : y.1 = ms.1 := by simpa using hy1
        exact hn.1 (this ▸ List.mem_map.mpr ⟨y, hy, rfl⟩)
      simp [List.filter_cons, hrest]
    · have hx : ¬ x.1 = ms.1 := by
        intro e1; exact hn.1 (e1 ▸ List.mem_map.mpr ⟨ms, e, rfl⟩)
      have hx' : (x.1 == ms.1) = false := by simpa using hx
      simp only [List.filter_cons, hx', Bool.false_eq_true, if_false]
      exact ih hn.2 e

theorem count_restored (bs : List (String × Bundler)) (kb : String × Bundler) (ms : String × String)
    (hr : (bs.map (fun kb => kb.2.runId)).Nodup) (hs : ∀ kb ∈ bs, (keys kb.2.monitors).Nodup)
    (hkb : kb ∈ bs) (hms : ms ∈ kb.2.monitors) :
    (restored bs ms.1).count (kb.2.runId, ms.2) = 1 := by
  induction bs with
  | nil => cases hkb
  | cons b0 bs ih =>
    simp only [List.map_cons, List.nodup_cons] at hr
    have hsplit : restored (b0 :: bs) ms.1 =
        (b0.2.monitors.filter (fun x => x.1 == ms.1)).map (fun x => (b0.2.runId, x.2)) ++ restored bs ms.1 := by
      simp [restored]
    rw [hsplit, List.count_append]
    rcases List.mem_cons.mp hkb with e | e
    · subst e
      rw [count_own_monitor _ _ _ (hs kb List.mem_cons_self) hms,
        count_restored_of_not_mem bs ms.1 (kb.2.runId, ms.2) hr.1]
    · have hne : b0.2.runId ≠ kb.2.runId := by
        intro e1; exact hr.1 (e1 ▸ List.mem_map.mpr ⟨kb, e, rfl⟩)
      have h0 : ((b0.2.monitors.filter (fun x => x.1 == ms.1)).map (fun x => (b0.2.runId, x.2))).count (kb.2.runId, ms.2) = 0 := by
        rw [List.count_eq_zero]
        intro hm
        obtain ⟨y, _, hy⟩ := List.mem_map.mp hm
        exact hne (Prod.mk.inj hy).1
      rw [h0, Nat.zero_add]
      exact ih hr.2 (fun kb' hk => hs kb' (List.mem_cons_of_mem _ hk)) e

/-- the resume path: from a state without monitor registrations, `restore_monitors` over all bundlers
    gives every monitor exactly one registration -/
theorem restore_oneSubEach (s : EState) (hw : MonWF s) (h0 : NoMonSubs s) : OneSubEach (forBundlers s restoreMonitors) := by
  intro kb hkb ms hms
  rw [forBundlers_restore_bundlers] at hkb
  rw [subsOf_forBundlers_restore, List.count_append, count_restored s.bundlers kb ms hw.runs hw.sigs hkb hms]
  have : (subsOf s ms.1).count (kb.2.runId, ms.2) = 0 := List.count_eq_zero.mpr (h0 kb hkb ms hms)
  rw [this]

/-- the rest of the pausedWait branch of `advanceAt` once the monitors are restored -/
def resumeTail (fuel : Nat) (s : EState) : EState :=
  let s1 : Except Exc EState := if s.state == .paused then setState s .running else .ok s
  match s1 with
  | .error e => contFlow fuel (.stop (leaveLoop s e))
  | .ok s =>
    match s.stashed with
    | none => { s with pc := .loopSleep, resp := none }
    | some _ => contFlow fuel (afterSleep { s with resp := none })

theorem advanceAt_pausedWait (fuel : Nat) (s : EState) (hpc : s.pc = .pausedWait) (hp : s.permit = true) :
    advanceAt fuel false s = resumeTail fuel (forBundlers s restoreMonitors) := by
  unfold advanceAt resumeTail
  rw [hpc]
  simp only [hp, Bool.not_true, Bool.false_eq_true, if_false]
  rfl

/-! ## the cleanup, stage by stage -/

theorem finally_clears_monitors : Src.finallyClearsMonitors = true := by decide

def cbStop (s : EState) : EState := if Src.finallyStopsMovables then stopMovables s else s
def cbClear (s : EState) : EState := if Src.finallyClearsMonitors then forBundlers s clearMonitors else s
def unstageStep (s : EState) (n : String) : EState := (nextMode s n "unstage").2.logCall { dev := n, op := "unstage" }
def cbUnstage (s : EState) : EState := if Src.finallyUnstages then s.staged.foldl unstageStep s else s
def cbClose (reason : String) (s : EState) : EState :=
  if Src.finallyClosesRuns then
    forBundlers s (fun s b => if b.runOpen then closeRunDoc s b s.exitStatus.name reason else (s, b))
  else s

/-- state after the four device / run stages of the outer `finally` -/
def cbStages (s : EState) : EState :=
  let reason := if s.exitReason == "" then s.reason else s.exitReason
  { cbClose reason { cbUnstage (cbClear (cbStop { s with pardon := true })) with staged := [] } with bundlers := [] }

theorem cleanupBody_eq (s : EState) : cleanupBody s = (cbStages s).planStack.foldl closeGen (cbStages s) := rfl

theorem subsOf_closeGen (t : EState) (g : Gen) (n : String) : subsOf (closeGen t g) n = subsOf t n := by
  unfold closeGen; split <;> rfl

theorem subsOf_unstageStep (s : EState) (a n : String) : subsOf (unstageStep s a) n = subsOf s n := by
  simp [unstageStep]

theorem subsOf_cbUnstage (s : EState) (n : String) : subsOf (cbUnstage s) n = subsOf s n := by
  unfold cbUnstage; split
  · exact subsOf_foldl _ subsOf_unstageStep _ _ _
  · rfl

theorem subsOf_cbStop (s : EState) (n : String) : subsOf (cbStop s) n = subsOf s n := by
  unfold cbStop; split
  · simp
  · rfl

theorem subsLE_cbClose (r : String) (s : EState) : SubsLE (cbClose r s) s := by
  unfold cbClose; split
  · apply forBundlers_subsLE
    intro s b; split
    · exact subsLE_closeRunDoc _ _ _ _
    · exact SubsLE.refl _
  · exact SubsLE.refl _

theorem bundlers_unstageStep (s : EState) (a : String) : (unstageStep s a).bundlers = s.bundlers := rfl

theorem bundlers_cbStop (s : EState) : (cbStop s).bundlers = s.bundlers := by
  unfold cbStop; split
  · simp
  · rfl

/-- after the cleanup no subscription of any monitor of any bundler that existed is left -/
theorem cleanupBody_no_monitor_subs (s : EState) :
    ∀ kb ∈ s.bundlers, ∀ ms ∈ kb.2.monitors, (kb.2.runId, ms.2) ∉ subsOf (cleanupBody s) ms.1 := by
  intro kb hkb ms hms hmem
  rw [cleanupBody_eq, subsOf_foldl _ subsOf_closeGen] at hmem
  have h1 : (kb.2.runId, ms.2) ∈ subsOf (cbClear (cbStop { s with pardon := true })) ms.1 := by
    have := subsLE_cbClose _ _ ms.1 _ hmem
    have e : subsOf { cbUnstage (cbClear (cbStop { s with pardon := true })) with staged := [] } ms.1 =
        subsOf (cbUnstage (cbClear (cbStop { s with pardon := true }))) ms.1 := rfl
    rw [e, subsOf_cbUnstage] at this
    exact this
  unfold cbClear at h1
  rw [if_pos finally_clears_monitors, mem_subsOf_forBundlers_clear] at h1
  apply h1.2
  refine ⟨kb, ?_, ms.2, hms, rfl⟩
  rw [bundlers_cbStop]; exact hkb

theorem cleanupBody_bundlers (s : EState) : (cleanupBody s).bundlers = [] := by
  rw [cleanupBody_eq]
  apply bundlers_foldl
  intro t g; unfold closeGen; split <;> rfl

end BlueskyVerif.Engine
