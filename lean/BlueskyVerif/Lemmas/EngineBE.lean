/-
"Who may set the blocking event": the inner blocks of `_run` never do; only the pause branch of the
loop top (after the state became `paused`) and the end of the task (after cleanup) do.
-/
import BlueskyVerif.Lemmas.EngineFrame

namespace BlueskyVerif.Engine

theorem be_of_ctl {s s' : EState} (h : ctl s' = ctl s) : s'.blockingEvent = s.blockingEvent :=
  congrArg Ctl.blockingEvent h

theorem setState_be {s s' : EState} {n : St} (h : setState s n = .ok s') : s'.blockingEvent = s.blockingEvent := by
  unfold setState at h; split at h
  · cases h; rfl
  · cases h

theorem setState_state {s s' : EState} {n : St} (h : setState s n = .ok s') : s'.state = n := by
  unfold setState at h; split at h
  · cases h; rfl
  · cases h

theorem setState_pc {s s' : EState} {n : St} (h : setState s n = .ok s') : s'.pc = s.pc := by
  unfold setState at h; split at h
  · cases h; rfl
  · cases h

theorem forBundlers_be (f : EState → Bundler → EState × Bundler) (h : ∀ s b, ctl (f s b).1 = ctl s) (s : EState) :
    (forBundlers s f).blockingEvent = s.blockingEvent := be_of_ctl (ctl_forBundlers f h s)

theorem requestPause_be {s s' : EState} {d : Bool} (h : requestPause s d = .ok s') :
    s'.blockingEvent = s.blockingEvent := by
  unfold requestPause at h
  split at h
  · cases h
  · split at h
    · cases h; rfl
    · split at h
      · cases h
      · rename_i s1 hs
        cases h
        have := setState_be hs
        simp only [forBundlers_be _ (fun s b => ctl_recordInterruption s b "pause")]
        exact this

/-- no command handler touches the blocking event -/
theorem runCommand_be (s : EState) (m : Msg) : (runCommand s m).1.blockingEvent = s.blockingEvent := by
  unfold runCommand
  split
  · unfold cmdOpenRun; split
    · rfl
    · simp only []; split <;> rfl
  · unfold cmdCloseRun; split
    · rfl
    · split
      · rfl
      · simp only []
        split
        · exact be_of_ctl (by simp)
        · exact be_of_ctl (by simp)
  · unfold cmdCreate; split
    · rfl
    · split
      · rfl
      · split <;> rfl
  · unfold cmdRead
    simp only []
    split
    · split <;> rfl
    · split
      · split <;> rfl
      · split
        · split <;> (try split) <;> rfl
        · split
          · split <;> rfl
          · split <;> rfl
  · unfold cmdSave; split
    · rfl
    · split
      · rfl
      · split
        · rfl
        · simp only []; split
          · rfl
          · split <;> rfl
  · unfold cmdDrop; split
    · rfl
    · split <;> rfl
  · unfold cmdCheckpoint; split
    · rfl
    · simp only []; split <;> exact be_of_ctl (by simp)
  · unfold cmdClearCheckpoint
    exact forBundlers_be _ (fun _ _ => rfl) _
  · unfold cmdRewindable; split
    · rfl
    · simp only []; split
      · exact be_of_ctl (by simp)
      · rfl
  · unfold cmdSet; simp only []; split <;> (try split) <;> rfl
  · unfold cmdTrigger; simp only []; split <;> rfl
  · unfold cmdWait; split <;> rfl
  · rfl
  · unfold cmdStage; simp only []; split
    · rfl
    · split <;> (try split) <;> exact be_of_ctl (by simp)
  · unfold cmdStage; simp only []; split
    · rfl
    · split <;> (try split) <;> exact be_of_ctl (by simp)
  · unfold cmdMonitor; split
    · rfl
    · split
      · rfl
      · exact be_of_ctl (by simp)
  · unfold cmdUnmonitor; split
    · rfl
    · split
      · rfl
      · exact be_of_ctl (by simp)
  · rfl
  · split
    · rename_i s' h; exact requestPause_be h
    · rfl
  · unfold cmdStartSuspender; split
    · rfl
    · simp only []
      show (rewindPlan _).2.blockingEvent = _
      rw [be_of_ctl (ctl_rewindPlan _), be_of_ctl (ctl_pauseHooks _), be_of_ctl (ctl_stopMovables _)]
      exact forBundlers_be _ (fun s b => ctl_recordInterruption s b _) _
  · unfold cmdResumeFromSuspender
    simp only []
    rw [be_of_ctl (ctl_resumeHooks _)]
    exact forBundlers_be _ (fun s b => ctl_restoreMonitors s b) _
  · unfold cmdWaitFor; simp only []; split <;> (try split) <;> rfl
  · rfl

end BlueskyVerif.Engine
