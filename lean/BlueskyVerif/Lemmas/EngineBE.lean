/-
"Who may set the blocking event": the inner blocks of `_run` never do; only the pause branch of the
loop top (after the state became `paused`) and the end of the task (after cleanup) do.
-/
import BlueskyVerif.Lemmas.EngineFrame

namespace BlueskyVerif.Engine

theorem be_of_ctl {s s' : EState} (h : ctl s' = ctl s) : s'.blockingEvent = s.blockingEvent :=
  congrArg Ctl.blockingEvent h

theorem setState_be {s s' : EState} {n : St} (h : setState s n = .ok s') : s'.blockingEvent = s.blockingEvent := by
  unfold setState at h; split at h
  · cases h; rfl
  · cases h

theorem setState_state {s s' : EState} {n : St} (h : setState s n = .ok s') : s'.state = n := by
  unfold setState at h; split at h
  · cases h; rfl
  · cases h

theorem setState_pc {s s' : EState} {n : St} (h : setState s n = .ok s') : s'.pc = s.pc := by
  unfold setState at h; split at h
  · cases h; rfl
  · cases h

theorem forBundlers_be (f : EState → Bundler → EState × Bundler) (h : ∀ s b, ctl (f s b).1 = ctl s) (s : EState) :
    (forBundlers s f).blockingEvent = s.blockingEvent := be_of_ctl (ctl_forBundlers f h s)

theorem requestPause_be {s s' : EState} {d : Bool} (h : requestPause s d = .ok s') :
    s'.blockingEvent = s.blockingEvent := by
  unfold requestPause at h
  split at h
  · cases h
  · split at h
    · cases h; rfl
    · split at h
      · cases h
      · rename_i s1 hs
        cases h
        have := setState_be hs
        simp only [forBundlers_be _ (fun s b => ctl_recordInterruption s b "pause")]
        exact this

@[simp] theorem be_logCall (s : EState) (c : Call) : (s.logCall c).blockingEvent = s.blockingEvent := rfl
@[simp] theorem be_emit (s : EState) (d : Doc) : (s.emit d).blockingEvent = s.blockingEvent := rfl
@[simp] theorem be_setDev (s : EState) (n : String) (d : DevState) : (setDev s n d).blockingEvent = s.blockingEvent := rfl
@[simp] theorem be_nextMode (s : EState) (n op : String) : (nextMode s n op).2.blockingEvent = s.blockingEvent := rfl
@[simp] theorem be_putBundler (s : EState) (m : Msg) (b : Bundler) : (putBundler s m b).blockingEvent = s.blockingEvent := rfl
@[simp] theorem be_emitEvent (s : EState) (b : Bundler) (st : String) (d : List (String × Int)) (n : String) :
    (emitEvent s b st d n).1.blockingEvent = s.blockingEvent := rfl
@[simp] theorem be_prepareStream (s : EState) (b : Bundler) (st : String) (o : List String) :
    (prepareStream s b st o).1.blockingEvent = s.blockingEvent := rfl
@[simp] theorem be_closeRunDoc (s : EState) (b : Bundler) (e r : String) :
    (closeRunDoc s b e r).1.blockingEvent = s.blockingEvent := be_of_ctl (ctl_closeRunDoc s b e r)
@[simp] theorem be_resetCheckpointMeth (s : EState) : (resetCheckpointMeth s).blockingEvent = s.blockingEvent :=
  be_of_ctl (ctl_resetCheckpointMeth s)
@[simp] theorem be_stopMovables (s : EState) : (stopMovables s).blockingEvent = s.blockingEvent := be_of_ctl (ctl_stopMovables s)
@[simp] theorem be_pauseHooks (s : EState) : (pauseHooks s).blockingEvent = s.blockingEvent := be_of_ctl (ctl_pauseHooks s)
@[simp] theorem be_resumeHooks (s : EState) : (resumeHooks s).blockingEvent = s.blockingEvent := be_of_ctl (ctl_resumeHooks s)
@[simp] theorem be_rewindPlan (s : EState) : (rewindPlan s).2.blockingEvent = s.blockingEvent := be_of_ctl (ctl_rewindPlan s)
@[simp] theorem be_newStatus (s : EState) (d o m : String) (g : Option String) :
    (newStatus s d o m g).2.blockingEvent = s.blockingEvent := rfl
@[simp] theorem be_forBundlers_ri (s : EState) (c : String) :
    (forBundlers s (fun s b => recordInterruption s b c)).blockingEvent = s.blockingEvent :=
  forBundlers_be _ (fun s b => ctl_recordInterruption s b c) _
@[simp] theorem be_forBundlers_restore (s : EState) : (forBundlers s restoreMonitors).blockingEvent = s.blockingEvent :=
  forBundlers_be _ ctl_restoreMonitors _
@[simp] theorem be_forBundlers_suspend (s : EState) : (forBundlers s suspendMonitors).blockingEvent = s.blockingEvent :=
  forBundlers_be _ ctl_suspendMonitors _
@[simp] theorem be_forBundlers_clear (s : EState) : (forBundlers s clearMonitors).blockingEvent = s.blockingEvent :=
  forBundlers_be _ ctl_clearMonitors _
@[simp] theorem be_forBundlers_pure (s : EState) (g : Bundler → Bundler) :
    (forBundlers s (fun s b => (s, g b))).blockingEvent = s.blockingEvent :=
  forBundlers_be _ (fun _ _ => rfl) _

/-- close a frame goal `(f ... s ...).blockingEvent = s.blockingEvent` after unfolding `f` -/
macro "frame_be" : tactic =>
  `(tactic| repeat' (first | rfl | (simp; done) | split | (simp only []; (first | rfl | split))))

/-- no command handler touches the blocking event -/
theorem runCommand_be (s : EState) (m : Msg) : (runCommand s m).1.blockingEvent = s.blockingEvent := by
  unfold runCommand
  split
  · unfold cmdOpenRun; frame_be
  · unfold cmdCloseRun; frame_be
  · unfold cmdCreate; frame_be
  · unfold cmdRead; frame_be
  · unfold cmdSave; frame_be
  · unfold cmdDrop; frame_be
  · unfold cmdCheckpoint; frame_be
  · unfold cmdClearCheckpoint; frame_be
  · unfold cmdRewindable; frame_be
  · unfold cmdSet; frame_be
  · unfold cmdTrigger; frame_be
  · unfold cmdWait; frame_be
  · rfl
  · unfold cmdStage; frame_be
  · unfold cmdStage; frame_be
  · unfold cmdMonitor; frame_be
  · unfold cmdUnmonitor; frame_be
  · rfl
  · split
    · rename_i s' h; exact requestPause_be h
    · rfl
  · unfold cmdStartSuspender; frame_be
  · unfold cmdResumeFromSuspender; frame_be
  · unfold cmdWaitFor; frame_be
  · rfl


theorem fin_be (s : EState) (r : Resp) : (fin s r).blockingEvent = s.blockingEvent := by
  unfold fin; split <;> rfl

theorem leaveLoop_be (s : EState) (e : Exc) : (leaveLoop s e).blockingEvent = s.blockingEvent := by
  unfold leaveLoop; simp only []; split <;> rfl

theorem noteMsg_be (s : EState) (m : Msg) : (noteMsg s m).blockingEvent = s.blockingEvent := by
  unfold noteMsg; frame_be

theorem takeResp_be (s : EState) (r : Resp) (rs : List Resp) : (takeResp s r rs).blockingEvent = s.blockingEvent := by
  unfold takeResp; frame_be

theorem logYield_be (s : EState) (g : Gen) (i : Inp) : (logYield s g i).blockingEvent = s.blockingEvent := by
  unfold logYield; frame_be

/-- a block result that did not set the blocking event -/
def Flow.NoBE : Flow → Prop
  | .loopTop s => s.blockingEvent = false
  | .stop s => s.blockingEvent = false

theorem popPlan_nobe (s : EState) (how : Option Exc) (h : s.blockingEvent = false) : (popPlan s how).NoBE := by
  unfold popPlan; simp only []
  split
  · simp only [Flow.NoBE, leaveLoop_be]; exact h
  · split <;> exact h

theorem afterCommand_nobe (m : Msg) (p : EState × CmdOut) (h : p.1.blockingEvent = false) : (afterCommand m p).NoBE := by
  obtain ⟨s, o⟩ := p
  cases o <;> simp only [afterCommand, Flow.NoBE, fin_be] <;> exact h

theorem processMsg_nobe (s : EState) (m : Msg) (h : s.blockingEvent = false) : (processMsg s m).NoBE := by
  unfold processMsg
  simp only []
  split
  · simp only [Flow.NoBE, fin_be, noteMsg_be]; exact h
  · apply afterCommand_nobe
    rw [runCommand_be, noteMsg_be]; exact h

theorem afterResume_nobe (s : EState) (gs : List Gen) (t : Option Exc) (r : Out × Gen)
    (h : s.blockingEvent = false) : (afterResume s gs t r).NoBE := by
  obtain ⟨o, g'⟩ := r
  cases o with
  | yld m => exact processMsg_nobe _ m h
  | ret => simp only [afterResume]; split <;> exact popPlan_nobe _ _ h
  | raise e =>
    simp only [afterResume]
    split
    · exact popPlan_nobe _ _ h
    · simp only [Flow.NoBE, leaveLoop_be, fin_be]; exact h

theorem afterSleep_nobe (s : EState) (h : s.blockingEvent = false) : (afterSleep s).NoBE := by
  unfold afterSleep
  split
  · simp only []
    apply afterResume_nobe
    rw [logYield_be, takeResp_be]; exact h
  · simp only [Flow.NoBE, leaveLoop_be]; exact h

theorem hCancel_nobe (s : EState) (r : Resp) (h : s.blockingEvent = false) : (hCancel s r).NoBE := by
  unfold hCancel
  repeat' split
  all_goals simp only [Flow.NoBE, fin_be, leaveLoop_be]
  all_goals exact h

/-- what a call may look like when it returns to the caller -/
def RetOK (s : EState) : Prop :=
  s.blockingEvent = true →
    (s.pc = .pausedWait ∧ s.state = .paused) ∨ (s.pc = .finished ∧ (s.state = .idle ∨ s.cleanupExc.isSome))

def Flow.Ok : Flow → Prop
  | .loopTop s => s.blockingEvent = false
  | .stop s => RetOK s ∧ (s.pc = .finished → s.blockingEvent = false)

theorem Flow.ok_of_nobe {f : Flow} (h : f.NoBE) : f.Ok := by
  cases f with
  | loopTop s => exact h
  | stop s =>
    have h' : s.blockingEvent = false := h
    refine ⟨?_, fun _ => h'⟩
    intro hb; rw [h'] at hb; cases hb

theorem pauseBlock_ok (s : EState) (h : s.blockingEvent = false) : (pauseBlock s).Ok := by
  unfold pauseBlock
  simp only []
  split
  · rename_i e he
    apply Flow.ok_of_nobe
    simp only [Flow.NoBE, leaveLoop_be, be_pauseHooks, be_stopMovables, be_forBundlers_suspend]; exact h
  · rename_i s' hs
    have hst : s'.state = .paused := setState_state hs
    refine ⟨fun _ => Or.inl ⟨rfl, hst⟩, ?_⟩
    intro hpc; cases hpc

theorem loopTop_ok (s : EState) (h : s.blockingEvent = false) : (loopTop s).Ok := by
  unfold loopTop
  split
  · split
    · rename_i s' hs; simp only [Flow.Ok]; rw [setState_be hs]; exact h
    · apply Flow.ok_of_nobe; simp only [Flow.NoBE, leaveLoop_be]; exact h
  · simp only []
    split
    · apply Flow.ok_of_nobe; simp only [Flow.NoBE, leaveLoop_be]; exact h
    · rename_i s' hs
      have hs' : s'.blockingEvent = false := by
        split at hs
        · rw [setState_be hs]; exact h
        · cases hs; exact h
      split
      · exact pauseBlock_ok s' hs'
      · split
        · apply Flow.ok_of_nobe; exact hs'
        · exact Flow.ok_of_nobe (afterSleep_nobe _ hs')

theorem cleanupBody_ctl (s : EState) : ctl (cleanupBody s) = ctl s := by
  unfold cleanupBody
  simp only []
  have hclose : ∀ (s : EState) (g : Gen), ctl (closeGen s g) = ctl s := by
    intro s g; unfold closeGen; split <;> rfl
  rw [ctl_foldl _ hclose]
  have e1 : ∀ (s : EState) (l : List (String × Bundler)), ctl { s with bundlers := l } = ctl s := fun _ _ => rfl
  have e2 : ∀ (s : EState) (l : List String), ctl { s with staged := l } = ctl s := fun _ _ => rfl
  have e3 : ∀ (s : EState), ctl { s with pardon := true } = ctl s := fun _ => rfl
  rw [e1]
  have step4 : ∀ (s : EState) (r : String), ctl (if Src.finallyClosesRuns = true then
      forBundlers s (fun s b => if b.runOpen = true then closeRunDoc s b s.exitStatus.name r else (s, b)) else s) = ctl s := by
    intro s r; split
    · apply ctl_forBundlers; intro s b; split
      · simp
      · rfl
    · rfl
  rw [step4, e2]
  have step3 : ∀ (s : EState), ctl (if Src.finallyUnstages = true then
      s.staged.foldl (fun s n => let (_, s) := nextMode s n "unstage"; s.logCall { dev := n, op := "unstage" }) s else s) = ctl s := by
    intro s; split
    · apply ctl_foldl; intro s n; rfl
    · rfl
  rw [step3]
  have step2 : ∀ (s : EState), ctl (if Src.finallyClearsMonitors = true then forBundlers s clearMonitors else s) = ctl s := by
    intro s; split
    · exact ctl_forBundlers _ ctl_clearMonitors _
    · rfl
  rw [step2]
  have step1 : ∀ (s : EState), ctl (if Src.finallyStopsMovables = true then stopMovables s else s) = ctl s := by
    intro s; split <;> simp
  rw [step1, e3]

theorem cleanup_state (s : EState) : (cleanup s).state = .idle ∨ (cleanup s).cleanupExc.isSome := by
  unfold cleanup
  simp only []
  split
  · rename_i s' hs; exact Or.inl (setState_state hs)
  · exact Or.inr rfl

theorem finishTask_retok (s : EState) : RetOK (finishTask (cleanup s)) := by
  intro _
  refine Or.inr ⟨rfl, ?_⟩
  exact cleanup_state s

theorem runLoop_retok (n : Nat) (s : EState) (h : s.blockingEvent = false) : RetOK (runLoop n s) := by
  induction n generalizing s with
  | zero => intro hb; simp [runLoop, h] at hb
  | succ n ih =>
    unfold runLoop
    have := loopTop_ok s h
    split
    · rename_i s' heq
      rw [heq] at this
      split
      · exact finishTask_retok s'
      · exact this.1
    · rename_i s' heq
      rw [heq] at this
      exact ih s' this

theorem contFlow_retok (n : Nat) (f : Flow) (h : f.Ok) : RetOK (contFlow n f) := by
  cases f with
  | loopTop s => exact runLoop_retok n s h
  | stop s =>
    simp only [contFlow]
    split
    · exact finishTask_retok s
    · exact h.1

/-- Whenever `_run` is given the CPU while the caller is blocked and it sets the blocking event, the
    engine is `paused` at its pause point, or the task has ended with state `idle` (or the final
    assignment of `idle` was refused and that exception is the task's result). -/
theorem advanceAt_retok (n : Nat) (c : Bool) (s0 : EState) (hb : s0.blockingEvent = false) :
    RetOK (advanceAt n c s0) := by
  unfold advanceAt
  split
  · intro hb'; rw [hb] at hb'; cases hb'
  · intro hb'; rw [hb] at hb'; cases hb'
  · split
    · intro hb'; rw [hb] at hb'; cases hb'
    · split
      · rename_i s' hs
        apply runLoop_retok
        rw [setState_be hs]; exact hb
      · apply contFlow_retok
        apply Flow.ok_of_nobe
        simp only [Flow.NoBE, leaveLoop_be]; exact hb
  · split
    · exact contFlow_retok _ _ (Flow.ok_of_nobe (hCancel_nobe _ _ hb))
    · exact contFlow_retok _ _ (Flow.ok_of_nobe (afterSleep_nobe _ hb))
  · split
    · exact contFlow_retok _ _ (Flow.ok_of_nobe (hCancel_nobe _ _ hb))
    · apply runLoop_retok; rw [fin_be]; exact hb
  · split
    · exact contFlow_retok _ _ (Flow.ok_of_nobe (hCancel_nobe _ _ hb))
    · split
      · rename_i s' hs
        apply runLoop_retok
        rw [fin_be, requestPause_be hs]; exact hb
      · apply runLoop_retok; rw [fin_be]; exact hb
  · split
    · exact contFlow_retok _ _ (Flow.ok_of_nobe (hCancel_nobe _ _ hb))
    · simp only []
      split
      · apply runLoop_retok; rw [fin_be]; exact hb
      · split
        · apply runLoop_retok; rw [fin_be]; exact hb
        · intro hb'; rw [hb] at hb'; cases hb'
  · split
    · exact contFlow_retok _ _ (Flow.ok_of_nobe (hCancel_nobe _ _ hb))
    · split
      · apply runLoop_retok; rw [fin_be]; exact hb
      · intro hb'; rw [hb] at hb'; cases hb'
  · split
    · intro hb'; rw [hb] at hb'; cases hb'
    · split
      · apply contFlow_retok
        apply Flow.ok_of_nobe
        simp only [Flow.NoBE, leaveLoop_be]; exact hb
      · simp only []
        have hr : (forBundlers s0 restoreMonitors).blockingEvent = false := by rw [be_forBundlers_restore]; exact hb
        split
        · apply contFlow_retok
          apply Flow.ok_of_nobe
          simp only [Flow.NoBE, leaveLoop_be]; exact hr
        · rename_i s' hs
          have hs' : s'.blockingEvent = false := by
            split at hs
            · rw [setState_be hs]; exact hr
            · cases hs; exact hr
          split
          · intro hb'; simp only [] at hb'; rw [hs'] at hb'; cases hb'
          · exact contFlow_retok _ _ (Flow.ok_of_nobe (afterSleep_nobe _ hs'))
  · exact finishTask_retok _

theorem advance_retok (n : Nat) (s : EState) (h : s.blockingEvent = false) : RetOK (advance n s) :=
  advanceAt_retok n _ _ h

end BlueskyVerif.Engine
