/-
C43: every operation of the PersistentDict model commutes with the abstraction function
(`absSt`) and keeps the representation invariant (`Inv`).  These lemmas unfold the generated
facts (write-through methods, in-place reload, finalizer capture).
-/
import BlueskyVerif.Lemmas.C43

namespace BlueskyVerif.PersistentDict
open Gen

section
variable {K V B : Type} [DecidableEq K]

omit [DecidableEq K] in
theorem Spec.ext' {s t : Spec K V} (h1 : s.vis = t.vis) (h2 : s.dur = t.dur) : s = t := by
  cases s; cases t; simp_all

theorem lookup_writeAll_aux (c : Codec V B) (d : List (K × V)) (ks : List K) (disk : List (K × B)) (k : K) :
    lookup (ks.foldl (writeOne c d) disk) k =
      if k ∈ ks then (match lookup d k with
        | some v => some (c.dump v)
        | none => lookup disk k) else lookup disk k := by
  induction ks generalizing disk with
  | nil => simp
  | cons x xs ih =>
    rw [List.foldl_cons, ih]
    by_cases hx : k = x
    · subst hx
      cases hd : lookup d k with
      | none => simp [writeOne, hd]
      | some v => simp [writeOne, hd, lookup_fileSet]
    · have hx' : ¬ x = k := fun e => hx e.symm
      cases hd : lookup d x with
      | none => simp [writeOne, hd, hx]
      | some v => simp [writeOne, hd, lookup_fileSet, hx]

theorem lookup_writeAll (c : Codec V B) (d : List (K × V)) (disk : List (K × B)) (k : K) :
    lookup (writeAll c d disk) k = match lookup d k with
      | some v => some (c.dump v)
      | none => lookup disk k := by
  unfold writeAll
  rw [lookup_writeAll_aux]
  by_cases h : k ∈ keysOf d
  · simp [h]
  · have := (lookup_eq_none_iff d k).2 h
    simp [h, this]

/-! ### `__setitem__` -/

theorem setitem_spec (c : Codec V B) (st : St K V B) (k : K) (v : V) (h : Inv st) :
    Inv (setitem c st k v) ∧ absSt c (setitem c st k v) = (absSt c st).set c.norm k v := by
  refine ⟨⟨h.1, fun k' => ?_⟩, ?_⟩
  · simp only [setitem, setWritesCache, setWritesThrough, if_true, lookup_dictSet, lookup_fileSet]
    by_cases hk : k' = k
    · simp [hk]
    · simp [hk, h.2 k']
  · apply Spec.ext'
    · funext k'
      simp [absSt, setitem, setWritesCache, Spec.set, upd, lookup_dictSet]
    · funext k'
      simp only [absSt, setitem, setWritesThrough, if_true, Spec.set, upd, lookup_fileSet]
      by_cases hk : k' = k
      · simp [hk, c.roundtrip]
      · simp [hk]

theorem updateP_spec (c : Codec V B) (kvs : List (K × V)) (st : St K V B) (h : Inv st) :
    Inv (updateP c st kvs) ∧
      absSt c (updateP c st kvs) = kvs.foldl (fun s p => s.set c.norm p.1 p.2) (absSt c st) := by
  induction kvs generalizing st with
  | nil => exact ⟨h, rfl⟩
  | cons p r ih =>
    obtain ⟨h1, e1⟩ := setitem_spec c st p.1 p.2 h
    obtain ⟨h2, e2⟩ := ih (setitem c st p.1 p.2) h1
    refine ⟨by simpa [updateP] using h2, ?_⟩
    simp only [updateP, List.foldl_cons] at e2 ⊢
    rw [e2, e1]

/-! ### `__delitem__` -/

theorem delitem_spec (c : Codec V B) (st : St K V B) (k : K) (h : Inv st) :
    Inv (delitem st k).1 ∧
      absSt c (delitem st k).1 = (if ((absSt c st).vis k).isSome then (absSt c st).remove k else absSt c st) ∧
      (delitem st k).2 = (lookup st.cache k).isSome := by
  cases hc : lookup st.cache k with
  | none => simp [delitem, hc, delDeletesCache, h, absSt]
  | some v =>
    have hd : (lookup st.disk k).isSome = true := by rw [← h.2 k, hc]; rfl
    cases hdk : lookup st.disk k with
    | none => simp [hdk] at hd
    | some b =>
      simp only [delitem, hc, delDeletesCache, delWritesThrough, if_true, hdk, Option.isSome_some]
      have hv : ((absSt c st).vis k).isSome = true := by simp [absSt, hc]
      rw [if_pos hv]
      refine ⟨⟨h.1, fun k' => ?_⟩, ?_, trivial⟩
      · simp only [lookup_erase]
        by_cases hk : k' = k
        · simp [hk]
        · simp [hk, h.2 k']
      · apply Spec.ext'
        · funext k'
          simp [absSt, Spec.remove, upd, lookup_erase]
        · funext k'
          simp only [absSt, Spec.remove, upd, lookup_erase]
          by_cases hk : k' = k <;> simp [hk]

/-! ### `popitem` -/

theorem popitemP_spec (c : Codec V B) (st : St K V B) (h : Inv st) :
    Inv (popitemP st).1 ∧
      absSt c (popitemP st).1 = Spec.step c.norm (absSt c st) .popitem (popitemP st).2 ∧
      (((popitemP st).2 = .keyError ∧ st.cache = [] ∧ (popitemP st).1 = st) ∨
       ((popitemP st).2 ≠ .keyError ∧ (popitemP st).1.cache.length < st.cache.length)) := by
  cases hl : st.cache.getLast? with
  | none =>
    have : st.cache = [] := List.getLast?_eq_none_iff.1 hl
    simp [popitemP, h, Spec.step, this]
  | some kv =>
    obtain ⟨k, v⟩ := kv
    have hmem : (k, v) ∈ st.cache := List.mem_of_getLast? hl
    have hc : (lookup st.cache k).isSome = true := lookup_isSome_of_mem _ _ _ hmem
    have hd : (lookup st.disk k).isSome = true := by rw [← h.2 k]; exact hc
    cases hdk : lookup st.disk k with
    | none => simp [hdk] at hd
    | some b =>
      simp only [popitemP, hl, popitemWritesThrough, if_true, hdk]
      refine ⟨⟨h.1, fun k' => ?_⟩, ?_, Or.inr ⟨by simp, erase_length_lt _ _ _ hmem⟩⟩
      · simp only [lookup_erase]
        by_cases hk : k' = k
        · simp [hk]
        · simp [hk, h.2 k']
      · apply Spec.ext'
        · funext k'
          simp [absSt, Spec.step, Spec.remove, upd, lookup_erase]
        · funext k'
          simp only [absSt, Spec.step, Spec.remove, upd, lookup_erase]
          by_cases hk : k' = k <;> simp [hk]

/-! ### `clear` = popitem until KeyError -/

theorem clearLoop_spec (c : Codec V B) (n : Nat) (st : St K V B) (h : Inv st) (hn : st.cache.length < n) :
    Inv (clearLoop n st) ∧ (clearLoop n st).cache = [] := by
  induction n generalizing st with
  | zero => omega
  | succ n ih =>
    obtain ⟨hi, _, hcase⟩ := popitemP_spec c st h
    unfold clearLoop
    rcases hcase with ⟨hr, hc, hs⟩ | ⟨hr, hlen⟩
    · cases hp : popitemP st with
      | mk st' r =>
        rw [hp] at hr hs
        simp only at hr hs
        subst hr; subst hs
        exact ⟨h, hc⟩
    · cases hp : popitemP st with
      | mk st' r =>
        rw [hp] at hr hlen hi
        simp only at hr hlen hi
        cases r with
        | keyError => exact absurd rfl hr
        | none => exact ih st' hi (by omega)
        | val v => exact ih st' hi (by omega)
        | item k v => exact ih st' hi (by omega)

theorem clearP_spec (c : Codec V B) (st : St K V B) (h : Inv st) :
    Inv (clearP st) ∧ absSt c (clearP st) = { vis := fun _ => none, dur := fun _ => none } := by
  obtain ⟨hi, hc⟩ := clearLoop_spec c (st.cache.length + 1) st h (by omega)
  refine ⟨hi, ?_⟩
  apply Spec.ext'
  · funext k
    simp [absSt, clearP, hc, lookup]
  · funext k
    have := hi.2 k
    simp only [clearP] at *
    rw [hc] at this
    simp only [lookup, Option.isSome_none] at this
    cases hd : lookup (clearLoop (st.cache.length + 1) st).disk k with
    | none => simp [absSt, hd]
    | some b => simp [hd] at this

/-! ### `flush`, `reload`, the finalizer, re-opening -/

theorem flushP_spec (c : Codec V B) (st : St K V B) (h : Inv st) :
    Inv (flushP c st) ∧
      absSt c (flushP c st) = { vis := (absSt c st).vis, dur := fun k => ((absSt c st).vis k).map c.norm } := by
  refine ⟨⟨h.1, fun k => ?_⟩, ?_⟩
  · simp only [flushP, flushWritesAll, if_true, lookup_writeAll]
    cases hc : lookup st.cache k with
    | none => rw [← h.2 k, hc]
    | some v => rfl
  · apply Spec.ext'
    · rfl
    · funext k
      simp only [absSt, flushP, flushWritesAll, if_true, lookup_writeAll]
      cases hc : lookup st.cache k with
      | none =>
        have := h.2 k
        rw [hc] at this
        cases hd : lookup st.disk k with
        | none => rfl
        | some b => simp [hd] at this
      | some v => simp [c.roundtrip]

theorem reloadP_spec (c : Codec V B) (st : St K V B) (h : Inv st) :
    Inv (reloadP c st) ∧ absSt c (reloadP c st) = { vis := (absSt c st).dur, dur := (absSt c st).dur } := by
  refine ⟨⟨by simpa [reloadP, reloadInPlace] using h.1, fun k => ?_⟩, ?_⟩
  · simp only [reloadP, reloadInPlace, if_true, loaded, lookup_map]
    cases lookup st.disk k <;> rfl
  · apply Spec.ext'
    · funext k
      simp [absSt, reloadP, reloadInPlace, loaded, lookup_map]
    · rfl

theorem reopenP_spec (c : Codec V B) (st : St K V B) (order : List K) :
    Inv (reopenP c st order) ∧
      absSt c (reopenP c st order) = { vis := (absSt c st).dur, dur := (absSt c st).dur } := by
  refine ⟨⟨rfl, fun k => ?_⟩, ?_⟩
  · simp only [reopenP, loaded, lookup_map, lookup_reorder]
    cases lookup st.disk k <;> rfl
  · apply Spec.ext'
    · funext k
      simp [absSt, reopenP, loaded, lookup_map, lookup_reorder]
    · funext k
      simp [absSt, reopenP, lookup_reorder]

theorem finalizeP_spec (c : Codec V B) (st : St K V B) (h : Inv st) :
    absSt c (finalizeP c st) = { vis := (absSt c st).vis, dur := fun k => ((absSt c st).vis k).map c.norm } := by
  have hf : finalizeP c st = flushP c st := by
    simp [finalizeP, flushP, finalizerCapturesCache, finalizerWritesAll, flushWritesAll, h.1]
  rw [hf]
  exact (flushP_spec c st h).2

/-! ### the remaining mixins and nested mutation -/

theorem popP_spec (c : Codec V B) (st : St K V B) (k : K) (d : Option V) (h : Inv st) :
    Inv (popP st k d).1 ∧
      absSt c (popP st k d).1 = (if ((absSt c st).vis k).isSome then (absSt c st).remove k else absSt c st) := by
  obtain ⟨h1, e1, _⟩ := delitem_spec c st k h
  cases hc : lookup st.cache k with
  | none => simp [popP, hc, h, absSt]
  | some v =>
    simp only [popP, hc]
    refine ⟨h1, ?_⟩
    rw [e1]

theorem setdefaultP_spec (c : Codec V B) (st : St K V B) (k : K) (v : V) (h : Inv st) :
    Inv (setdefaultP c st k v).1 ∧
      absSt c (setdefaultP c st k v).1 =
        (if ((absSt c st).vis k).isSome then absSt c st else (absSt c st).set c.norm k v) := by
  cases hc : lookup st.cache k with
  | none =>
    obtain ⟨h1, e1⟩ := setitem_spec c st k v h
    simp only [setdefaultP, hc]
    exact ⟨h1, by rw [e1]; simp [absSt, hc]⟩
  | some x => simp [setdefaultP, hc, h, absSt]

theorem mutateP_spec (c : Codec V B) (st : St K V B) (k : K) (v : V) (h : Inv st) :
    Inv (mutateP st k v).1 ∧
      absSt c (mutateP st k v).1 =
        (if ((absSt c st).vis k).isSome then { vis := upd (absSt c st).vis k (some v), dur := (absSt c st).dur }
         else absSt c st) := by
  cases hc : lookup st.cache k with
  | none => simp [mutateP, hc, h, absSt]
  | some x =>
    simp only [mutateP, hc]
    refine ⟨⟨h.1, fun k' => ?_⟩, ?_⟩
    · simp only [lookup_dictSet]
      by_cases hk : k' = k
      · subst hk; rw [← h.2 k', hc]; simp
      · simp [hk, h.2 k']
    · apply Spec.ext'
      · funext k'
        simp [absSt, hc, upd, lookup_dictSet]
      · simp [absSt, hc]

/-! ### one step, any operation -/

theorem step_spec (c : Codec V B) (st : St K V B) (op : Op K V) (h : Inv st) :
    Inv (step c st op).1 ∧
      absSt c (step c st op).1 = Spec.step c.norm (absSt c st) op (step c st op).2 := by
  cases op with
  | set k v => exact setitem_spec c st k v h
  | del k =>
    obtain ⟨h1, e1, _⟩ := delitem_spec c st k h
    exact ⟨h1, e1⟩
  | pop k d => exact popP_spec c st k d h
  | popitem =>
    obtain ⟨h1, e1, _⟩ := popitemP_spec c st h
    exact ⟨h1, e1⟩
  | setdefault k v => exact setdefaultP_spec c st k v h
  | update kvs => exact updateP_spec c kvs st h
  | clear => exact clearP_spec c st h
  | flush => exact flushP_spec c st h
  | reload => exact reloadP_spec c st h
  | mutate k v => exact mutateP_spec c st k v h
  | gcReopen order =>
    obtain ⟨h1, e1⟩ := reopenP_spec c (finalizeP c st) order
    refine ⟨h1, ?_⟩
    simp only [step, Spec.step]
    rw [e1, finalizeP_spec c st h]
  | crashReopen order => exact reopenP_spec c st order

end

end BlueskyVerif.PersistentDict
