/-
Helper lemmas for C44 (exact-rational model of PeakStats._calc_stats, Pure/PeakStats.lean).
-/
import BlueskyVerif.Pure.PeakStats
import Mathlib.Tactic.Linarith
import Mathlib.Tactic.FieldSimp
import Mathlib.Tactic.Ring
import Mathlib.Tactic.Positivity
import Mathlib.Algebra.Order.Field.Rat

set_option linter.unusedSimpArgs false

namespace BlueskyVerif.PeakStats

/-! ### argmax / argmin -/

theorem argmaxUpTo_spec (y : Vec) (k : Nat) :
    argmaxUpTo y k ≤ k ∧ (∀ j, j ≤ k → y j ≤ y (argmaxUpTo y k)) ∧ (∀ j, j < argmaxUpTo y k → y j < y (argmaxUpTo y k)) := by
  induction k with
  | zero => simp [argmaxUpTo]
  | succ k ih =>
    obtain ⟨h1, h2, h3⟩ := ih
    simp only [argmaxUpTo]
    by_cases h : y (argmaxUpTo y k) < y (k + 1)
    · simp only [h, if_true]
      refine ⟨le_refl _, ?_, ?_⟩
      · intro j hj
        rcases Nat.lt_or_ge j (k + 1) with hlt | hge
        · exact le_of_lt (lt_of_le_of_lt (h2 j (by omega)) h)
        · have : j = k + 1 := by omega
          subst this; exact le_refl _
      · intro j hj
        exact lt_of_le_of_lt (h2 j (by omega)) h
    · simp only [h, if_false]
      refine ⟨by omega, ?_, h3⟩
      intro j hj
      rcases Nat.lt_or_ge j (k + 1) with hlt | hge
      · exact h2 j (by omega)
      · have : j = k + 1 := by omega
        subst this; exact not_lt.mp h

theorem argminUpTo_spec (y : Vec) (k : Nat) :
    argminUpTo y k ≤ k ∧ (∀ j, j ≤ k → y (argminUpTo y k) ≤ y j) ∧ (∀ j, j < argminUpTo y k → y (argminUpTo y k) < y j) := by
  induction k with
  | zero => simp [argminUpTo]
  | succ k ih =>
    obtain ⟨h1, h2, h3⟩ := ih
    simp only [argminUpTo]
    by_cases h : y (k + 1) < y (argminUpTo y k)
    · simp only [h, if_true]
      refine ⟨le_refl _, ?_, ?_⟩
      · intro j hj
        rcases Nat.lt_or_ge j (k + 1) with hlt | hge
        · exact le_of_lt (lt_of_lt_of_le h (h2 j (by omega)))
        · have : j = k + 1 := by omega
          subst this; exact le_refl _
      · intro j hj
        exact lt_of_lt_of_le h (h2 j (by omega))
    · simp only [h, if_false]
      refine ⟨by omega, ?_, h3⟩
      intro j hj
      rcases Nat.lt_or_ge j (k + 1) with hlt | hge
      · exact h2 j (by omega)
      · have : j = k + 1 := by omega
        subst this; exact not_lt.mp h

theorem argmax_spec (n : Nat) (y : Vec) (hn : 1 ≤ n) :
    argmax n y < n ∧ (∀ j, j < n → y j ≤ y (argmax n y)) ∧ (∀ j, j < argmax n y → y j < y (argmax n y)) := by
  obtain ⟨h1, h2, h3⟩ := argmaxUpTo_spec y (n - 1)
  exact ⟨by unfold argmax; omega, fun j hj => h2 j (by omega), h3⟩

theorem argmin_spec (n : Nat) (y : Vec) (hn : 1 ≤ n) :
    argmin n y < n ∧ (∀ j, j < n → y (argmin n y) ≤ y j) ∧ (∀ j, j < argmin n y → y (argmin n y) < y j) := by
  obtain ⟨h1, h2, h3⟩ := argminUpTo_spec y (n - 1)
  exact ⟨by unfold argmin; omega, fun j hj => h2 j (by omega), h3⟩

/-! ### monotonic x -/

theorem StrictInc.le {n : Nat} {x : Vec} (h : StrictInc n x) {i j : Nat} (hij : i ≤ j) (hj : j < n) : x i ≤ x j := by
  rcases Nat.lt_or_ge i j with hlt | hge
  · exact le_of_lt (h i j hlt hj)
  · have : i = j := by omega
    subst this; exact le_refl _

theorem StrictDec.le {n : Nat} {x : Vec} (h : StrictDec n x) {i j : Nat} (hij : i ≤ j) (hj : j < n) : x j ≤ x i := by
  rcases Nat.lt_or_ge i j with hlt | hge
  · exact le_of_lt (h i j hlt hj)
  · have : i = j := by omega
    subst this; exact le_refl _

theorem xLo_le_of_inc {n : Nat} {x : Vec} (h : StrictInc n x) (hn : 1 ≤ n) {i : Nat} (hi : i < n) :
    xLo n x ≤ x i ∧ x i ≤ xHi n x := by
  have h0 : x 0 ≤ x (n - 1) := h.le (by omega) (by omega)
  simp only [xLo, xHi, h0, if_true]
  exact ⟨h.le (by omega) hi, h.le (by omega) (by omega)⟩

theorem xLo_le_of_dec {n : Nat} {x : Vec} (h : StrictDec n x) (hn : 1 ≤ n) {i : Nat} (hi : i < n) :
    xLo n x ≤ x i ∧ x i ≤ xHi n x := by
  have h0 : x (n - 1) ≤ x 0 := h.le (by omega) (by omega)
  by_cases h1 : x 0 ≤ x (n - 1)
  · have he : x 0 = x (n - 1) := le_antisymm h1 h0
    simp only [xLo, xHi, h1, if_true]
    have a := h.le (Nat.zero_le i) hi
    have b := h.le (show i ≤ n - 1 by omega) (show n - 1 < n by omega)
    constructor <;> linarith
  · simp only [xLo, xHi, h1, if_false]
    exact ⟨h.le (by omega) (by omega), h.le (by omega) hi⟩

/-- every sample lies within the x range -/
theorem sample_in_range {n : Nat} {x : Vec} (h : StrictMonotonic n x) (hn : 1 ≤ n) {i : Nat} (hi : i < n) :
    xLo n x ≤ x i ∧ x i ≤ xHi n x := by
  rcases h with h | h
  · exact xLo_le_of_inc h hn hi
  · exact xLo_le_of_dec h hn hi

theorem adjacent_ne {n : Nat} {x : Vec} (h : StrictMonotonic n x) {i : Nat} (hi : i + 1 < n) : x i ≠ x (i + 1) := by
  rcases h with h | h
  · exact ne_of_lt (h i (i + 1) (by omega) hi)
  · exact ne_of_gt (h i (i + 1) (by omega) hi)

end BlueskyVerif.PeakStats
