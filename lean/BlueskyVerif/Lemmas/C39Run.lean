/-
Run-level lemmas for C39: what a whole body of `descriptor`/`process_event` calls does to the
counters, to `self._descriptors` and to the re-emitted document list.  All are proved for an
arbitrary starting state and an arbitrary list of inputs by induction over that list.
-/
import BlueskyVerif.Lemmas.C39

namespace BlueskyVerif.LiveDispatcher
open Gen

/-! ### per-stream numbering -/

theorem evSeqs_append (s : String) (a b : List Doc) : evSeqs s (a ++ b) = evSeqs s a ++ evSeqs s b := by
  simp [evSeqs, List.filterMap_append]

theorem processEvent_numbering (st : St) (c : Call) (s : String) :
    ∃ k, evSeqs s (processEvent st c).2 = List.range' (getCnt st.seqCounts s 0 + 1) k ∧
         getCnt (processEvent st c).1.seqCounts s 0 = getCnt st.seqCounts s 0 + k := by
  rcases processEvent_cases st c with h | ⟨du, _, h⟩ | ⟨_, h⟩
  · exact ⟨0, by simp [h, evSeqs]⟩
  · rw [h]
    by_cases hs : c.stream = s
    · subst hs
      refine ⟨1, ?_, ?_⟩
      · simp [evSeqs, evDoc, seqNumOf_eq, bump_cnt]
      · simp [bump_cnt]
    · refine ⟨0, ?_, ?_⟩
      · simp [evSeqs, evDoc, hs]
      · have : ¬ s = c.stream := fun e => hs e.symm
        simp [bump_cnt, this]
  · rw [h]
    by_cases hs : c.stream = s
    · subst hs
      refine ⟨1, ?_, ?_⟩
      · simp [evSeqs, evDoc, descDoc, seqNumOf_eq, bump_cnt]
      · simp [bump_cnt]
    · refine ⟨0, ?_, ?_⟩
      · simp [evSeqs, evDoc, descDoc, hs]
      · have : ¬ s = c.stream := fun e => hs e.symm
        simp [bump_cnt, this]

theorem stepBody_numbering (st : St) (i : BodyInp) (s : String) :
    ∃ k, evSeqs s (stepBody st i).2 = List.range' (getCnt st.seqCounts s 0 + 1) k ∧
         getCnt (stepBody st i).1.seqCounts s 0 = getCnt st.seqCounts s 0 + k := by
  cases i with
  | rawDescriptor uid name => exact ⟨0, by simp [stepBody, evSeqs]⟩
  | call c => exact processEvent_numbering st c s

theorem runBody_numbering (body : List BodyInp) (st : St) (s : String) :
    ∃ k, evSeqs s (runBody st body).2 = List.range' (getCnt st.seqCounts s 0 + 1) k ∧
         getCnt (runBody st body).1.seqCounts s 0 = getCnt st.seqCounts s 0 + k := by
  induction body generalizing st with
  | nil => exact ⟨0, by simp [runBody, evSeqs]⟩
  | cons i is ih =>
    obtain ⟨k1, h1, c1⟩ := stepBody_numbering st i s
    obtain ⟨k2, h2, c2⟩ := ih (stepBody st i).1
    refine ⟨k1 + k2, ?_, ?_⟩
    · simp only [runBody, evSeqs_append, h1, h2, c1]
      rw [show getCnt st.seqCounts s 0 + k1 + 1 = getCnt st.seqCounts s 0 + 1 + k1 by omega]
      exact List.range'_append_1
    · simp only [runBody, c2, c1]; omega

/-! ### uids are handed out in emission order -/

theorem processEvent_uids (st : St) (c : Call) :
    (processEvent st c).2.map Doc.uid = List.range' st.nextUid (processEvent st c).2.length ∧
    (processEvent st c).1.nextUid = st.nextUid + (processEvent st c).2.length := by
  rcases processEvent_cases st c with h | ⟨du, _, h⟩ | ⟨_, h⟩
  · simp [h]
  · simp [h, evDoc, Doc.uid]
  · simp [h, evDoc, descDoc, Doc.uid, List.range']

theorem stepBody_uids (st : St) (i : BodyInp) :
    (stepBody st i).2.map Doc.uid = List.range' st.nextUid (stepBody st i).2.length ∧
    (stepBody st i).1.nextUid = st.nextUid + (stepBody st i).2.length := by
  cases i with
  | rawDescriptor uid name => simp [stepBody]
  | call c => exact processEvent_uids st c

theorem runBody_uids (body : List BodyInp) (st : St) :
    (runBody st body).2.map Doc.uid = List.range' st.nextUid (runBody st body).2.length ∧
    (runBody st body).1.nextUid = st.nextUid + (runBody st body).2.length := by
  induction body generalizing st with
  | nil => simp [runBody]
  | cons i is ih =>
    obtain ⟨h1, c1⟩ := stepBody_uids st i
    obtain ⟨h2, c2⟩ := ih (stepBody st i).1
    constructor
    · simp only [runBody, List.map_append, h1, h2, c1, List.length_append]
      exact List.range'_append_1
    · simp only [runBody, c2, c1, List.length_append]; omega

/-! ### descriptors: every event refers to a descriptor emitted earlier for the same stream -/

/-- scanning the documents in order: `known` = the (stream, uid) pairs of descriptors seen so far -/
def wellRef (known : String × Nat → Prop) : List Doc → Prop
  | [] => True
  | .descriptor u _ _ s _ :: r => wellRef (fun p => p = (s, u) ∨ known p) r
  | .event _ du _ s :: r => known (s, du) ∧ wellRef known r
  | .start _ :: r => wellRef known r
  | .stop _ _ _ :: r => wellRef known r

/-- the (stream, uid) pairs of the descriptor documents of a list -/
def descsIn (docs : List Doc) : List (String × Nat) :=
  docs.filterMap fun d => match d with
    | .descriptor u _ _ s _ => some (s, u)
    | _ => none

theorem wellRef_mono (docs : List Doc) (k1 k2 : String × Nat → Prop) (h : ∀ p, k1 p → k2 p)
    (w : wellRef k1 docs) : wellRef k2 docs := by
  induction docs generalizing k1 k2 with
  | nil => trivial
  | cons d r ih =>
    cases d with
    | start u => exact ih k1 k2 h w
    | stop u rs ne => exact ih k1 k2 h w
    | event u du n s => exact ⟨h _ w.1, ih k1 k2 h w.2⟩
    | descriptor u rs n s ks =>
      exact ih _ _ (fun p hp => hp.elim Or.inl (fun x => Or.inr (h p x))) w

theorem wellRef_append (a b : List Doc) (known : String × Nat → Prop)
    (wa : wellRef known a) (wb : wellRef (fun p => p ∈ descsIn a ∨ known p) b) : wellRef known (a ++ b) := by
  induction a generalizing known with
  | nil => exact wellRef_mono b _ _ (fun p hp => hp.elim (fun x => by simp [descsIn] at x) id) wb
  | cons d r ih =>
    cases d with
    | start u => exact ih known wa (by simpa [descsIn] using wb)
    | stop u rs ne => exact ih known wa (by simpa [descsIn] using wb)
    | event u du n s => exact ⟨wa.1, ih known wa.2 (by simpa [descsIn] using wb)⟩
    | descriptor u rs n s ks =>
      refine ih _ wa (wellRef_mono b _ _ ?_ wb)
      intro p hp
      simp only [descsIn, List.filterMap_cons, List.mem_cons] at hp
      rcases hp with (hp | hp) | hp
      · exact Or.inr (Or.inl hp)
      · exact Or.inl hp
      · exact Or.inr (Or.inr hp)

/-- what `wellRef` means for one event: split the list at the event -/
theorem wellRef_split (pre post : List Doc) (u du n : Nat) (s : String) (known : String × Nat → Prop)
    (w : wellRef known (pre ++ Doc.event u du n s :: post)) :
    known (s, du) ∨ (s, du) ∈ descsIn pre := by
  induction pre generalizing known with
  | nil => exact Or.inl w.1
  | cons d r ih =>
    cases d with
    | start u' => simpa [descsIn] using ih known w
    | stop u' rs ne => simpa [descsIn] using ih known w
    | event u' du' n' s' => simpa [descsIn] using ih known w.2
    | descriptor u' rs n' s' ks =>
      have := ih _ w
      simp only [descsIn, List.filterMap_cons, List.mem_cons]
      rcases this with (h | h) | h
      · exact Or.inr (Or.inl h)
      · exact Or.inl h
      · exact Or.inr (Or.inr h)

theorem processEvent_wellRef (st : St) (c : Call) (known : String × Nat → Prop)
    (hk : ∀ p ∈ entries st.descriptors, known p) :
    wellRef known (processEvent st c).2 ∧
    ∀ p ∈ entries (processEvent st c).1.descriptors, p ∈ descsIn (processEvent st c).2 ∨ known p := by
  rcases processEvent_cases st c with h | ⟨du, hl, h⟩ | ⟨hl, h⟩
  · rw [h]; exact ⟨trivial, fun p hp => Or.inr (hk p hp)⟩
  · rw [h]
    refine ⟨⟨hk _ (lookupDesc_mem_entries _ _ _ _ hl), trivial⟩, ?_⟩
    intro p hp
    exact Or.inr (hk p (by simpa using hp))
  · rw [h]
    refine ⟨⟨Or.inl rfl, trivial⟩, ?_⟩
    intro p hp
    simp only [afterEvent_descriptors, bump_descriptors, withDesc_descriptors] at hp
    rcases entries_insertDesc _ _ _ _ _ hp with hp | hp
    · left; simp [descsIn, descDoc, evDoc, hp]
    · exact Or.inr (hk p hp)

theorem stepBody_wellRef (st : St) (i : BodyInp) (known : String × Nat → Prop)
    (hk : ∀ p ∈ entries st.descriptors, known p) :
    wellRef known (stepBody st i).2 ∧
    ∀ p ∈ entries (stepBody st i).1.descriptors, p ∈ descsIn (stepBody st i).2 ∨ known p := by
  cases i with
  | rawDescriptor uid name => exact ⟨trivial, fun p hp => Or.inr (hk p hp)⟩
  | call c => exact processEvent_wellRef st c known hk

theorem runBody_wellRef (body : List BodyInp) (st : St) (known : String × Nat → Prop)
    (hk : ∀ p ∈ entries st.descriptors, known p) :
    wellRef known (runBody st body).2 ∧
    ∀ p ∈ entries (runBody st body).1.descriptors, p ∈ descsIn (runBody st body).2 ∨ known p := by
  induction body generalizing st known with
  | nil => exact ⟨trivial, fun p hp => Or.inr (hk p hp)⟩
  | cons i is ih =>
    obtain ⟨w1, e1⟩ := stepBody_wellRef st i known hk
    obtain ⟨w2, e2⟩ := ih (stepBody st i).1 (fun p => p ∈ descsIn (stepBody st i).2 ∨ known p) e1
    refine ⟨wellRef_append _ _ _ w1 w2, ?_⟩
    intro p hp
    rcases e2 p hp with h | h | h
    · left; simp [runBody, descsIn, List.filterMap_append] at h ⊢; exact Or.inr h
    · left; simp [runBody, descsIn, List.filterMap_append] at h ⊢; exact Or.inl h
    · exact Or.inr h

/-! ### every descriptor of the body carries the run's start uid and the name of its stream -/

def descOk (rs : Option Nat) : Doc → Prop
  | .descriptor _ rs' n s _ => rs' = rs ∧ n = some s
  | _ => True

theorem processEvent_descOk (st : St) (c : Call) :
    (∀ d ∈ (processEvent st c).2, descOk st.startUid d) ∧ (processEvent st c).1.startUid = st.startUid := by
  rcases processEvent_cases st c with h | ⟨du, _, h⟩ | ⟨_, h⟩
  · simp [h]
  · simp [h, evDoc, descOk]
  · simp [h, evDoc, descDoc, descOk, newDescName_eq]

theorem runBody_descOk (body : List BodyInp) (st : St) :
    (∀ d ∈ (runBody st body).2, descOk st.startUid d) ∧ (runBody st body).1.startUid = st.startUid := by
  induction body generalizing st with
  | nil => simp [runBody]
  | cons i is ih =>
    have h1 : (∀ d ∈ (stepBody st i).2, descOk st.startUid d) ∧ (stepBody st i).1.startUid = st.startUid := by
      cases i with
      | rawDescriptor uid name => simp [stepBody]
      | call c => exact processEvent_descOk st c
    obtain ⟨h2, c2⟩ := ih (stepBody st i).1
    rw [h1.2] at h2 c2
    refine ⟨?_, by simpa [runBody] using c2⟩
    intro d hd
    simp only [runBody, List.mem_append] at hd
    exact hd.elim (h1.1 d) (h2 d)

/-! ### the keys of `self._descriptors` are the streams a descriptor was emitted for -/

theorem processEvent_keys (st : St) (c : Call) :
    ((streamKeys st.descriptors).Nodup → (streamKeys (processEvent st c).1.descriptors).Nodup) ∧
    ∀ s, s ∈ streamKeys (processEvent st c).1.descriptors ↔
      s ∈ streamKeys st.descriptors ∨ ∃ u, (s, u) ∈ descsIn (processEvent st c).2 := by
  rcases processEvent_cases st c with h | ⟨du, _, h⟩ | ⟨_, h⟩
  · rw [h]; simp [descsIn]
  · rw [h]; simp [descsIn, evDoc]
  · rw [h]
    refine ⟨fun hn => ?_, fun s => ?_⟩
    · simpa using streamKeys_insertDesc_nodup _ _ _ _ hn
    · simp only [afterEvent_descriptors, bump_descriptors, withDesc_descriptors, streamKeys_insertDesc]
      simp [descsIn, descDoc, evDoc]

theorem runBody_keys (body : List BodyInp) (st : St) :
    ((streamKeys st.descriptors).Nodup → (streamKeys (runBody st body).1.descriptors).Nodup) ∧
    ∀ s, s ∈ streamKeys (runBody st body).1.descriptors ↔
      s ∈ streamKeys st.descriptors ∨ ∃ u, (s, u) ∈ descsIn (runBody st body).2 := by
  induction body generalizing st with
  | nil => simp [runBody, descsIn]
  | cons i is ih =>
    have h1 : ((streamKeys st.descriptors).Nodup → (streamKeys (stepBody st i).1.descriptors).Nodup) ∧
        ∀ s, s ∈ streamKeys (stepBody st i).1.descriptors ↔
          s ∈ streamKeys st.descriptors ∨ ∃ u, (s, u) ∈ descsIn (stepBody st i).2 := by
      cases i with
      | rawDescriptor uid name => simp [stepBody, descsIn]
      | call c => exact processEvent_keys st c
    obtain ⟨n2, k2⟩ := ih (stepBody st i).1
    refine ⟨fun hn => by simpa [runBody] using n2 (h1.1 hn), fun s => ?_⟩
    simp only [runBody, k2, h1.2, descsIn, List.filterMap_append, List.mem_append]
    constructor
    · rintro ((h | ⟨u, h⟩) | ⟨u, h⟩)
      · exact Or.inl h
      · exact Or.inr ⟨u, Or.inl h⟩
      · exact Or.inr ⟨u, Or.inr h⟩
    · rintro (h | ⟨u, h | h⟩)
      · exact Or.inl (Or.inl h)
      · exact Or.inl (Or.inr ⟨u, h⟩)
      · exact Or.inr ⟨u, h⟩

end BlueskyVerif.LiveDispatcher
