/-
C10 helper: "paused implies a message cache" along the scheduler, for every script.
-/
import BlueskyVerif.Lemmas.C10Steps

namespace BlueskyVerif.Engine

/-- whenever the engine is `paused`, a message cache exists and `_run` is at a point where it processes no
    message (its pause point, or the end of the task) -/
def PausedInv (s : EState) : Prop :=
  s.state = .paused →
    (s.msgCache.isSome = true ∧ (s.pc = .pausedWait ∨ s.pc = .exitSleep ∨ s.pc = .finished ∨ s.pc = .noTask))

theorem pausedInv_of_np {s : EState} (h : NP s) : PausedInv s := fun hp => absurd hp h

theorem pausedInv_of_pwc {s : EState} (h : PausedWithCache s) : PausedInv s :=
  fun hp => ⟨(h hp).1, Or.inl (h hp).2.1⟩

/-- an environment move: program counter and cache untouched, and it never makes the state `paused` -/
def EnvMove (s s' : EState) : Prop :=
  s'.pc = s.pc ∧ s'.msgCache = s.msgCache ∧ (s'.state = .paused → s.state = .paused)

theorem EnvMove.refl (s : EState) : EnvMove s s := ⟨rfl, rfl, id⟩
theorem EnvMove.trans {a b c : EState} (h1 : EnvMove a b) (h2 : EnvMove b c) : EnvMove a c :=
  ⟨h2.1.trans h1.1, h2.2.1.trans h1.2.1, fun h => h1.2.2 (h2.2.2 h)⟩
theorem EnvMove.inv {s s' : EState} (h : EnvMove s s') (hi : PausedInv s) : PausedInv s' := by
  intro hp
  obtain ⟨h1, h2⟩ := hi (h.2.2 hp)
  rw [h.1, h.2.1]; exact ⟨h1, h2⟩

theorem envMove_of_ctl_ck {s s' : EState} (h1 : ctl s' = ctl s) (h2 : ck s' = ck s) : EnvMove s s' :=
  ⟨congrArg Ctl.pc h1, ck_cache h2, fun h => (st_of_ctl h1).symm.trans h⟩

theorem envMove_setState {s s' : EState} {n : St} (h : setState s n = .ok s') (hn : n ≠ .paused) : EnvMove s s' :=
  ⟨setState_pc h, ck_cache (ck_setState h), fun hp => absurd ((setState_state h).symm.trans hp) hn⟩

theorem envMove_requestPause {s s' : EState} {d : Bool} (h : requestPause s d = .ok s') : EnvMove s s' := by
  refine ⟨?_, ck_cache (ck_requestPause h), ?_⟩
  · unfold requestPause at h
    split at h
    · cases h
    · split at h
      · cases h; rfl
      · split at h
        · cases h
        · rename_i s1 hs
          cases h
          show (forBundlers s1 _).pc = s.pc
          rw [show (forBundlers s1 (fun s b => recordInterruption s b "pause")).pc = s1.pc from
            congrArg Ctl.pc (ctl_forBundlers _ (fun s b => ctl_recordInterruption s b "pause") s1)]
          exact (setState_pc hs).trans rfl
  · intro hp
    rcases requestPause_st h with h1 | h1
    · rw [← h1]; exact hp
    · rw [h1] at hp; cases hp

theorem envMove_requestTerminate (s : EState) (k r : String) : EnvMove s (requestTerminate s k r) := by
  unfold requestTerminate
  split
  · exact EnvMove.refl s
  · have hp : EnvMove s (termPrep s k r) := by
      unfold termPrep; simp only []; split <;> exact ⟨rfl, rfl, id⟩
    split
    · exact ⟨rfl, rfl, id⟩
    · rename_i s' hs
      have hne : (termTarget k).1 ≠ .paused := by
        unfold termTarget
        split
        · decide
        · split <;> decide
      have ha : EnvMove s' (termAfter s' k (s.state == .paused)) := by
        unfold termAfter
        split
        · simp only []; split <;> exact ⟨rfl, rfl, id⟩
        · exact ⟨rfl, rfl, id⟩
      exact (hp.trans (envMove_setState hs hne)).trans ha

theorem envMove_pushSuspender (f : Nat) (pre post : Option Gen) (j : Option String) (s : EState) :
    EnvMove s (pushSuspender f pre post j s) := by
  unfold pushSuspender
  simp only []
  split
  · split
    · rename_i s' hs
      exact (EnvMove.trans (b := { s with suspReqs := _, planStack := _, respStack := _ }) ⟨rfl, rfl, id⟩
        (envMove_setState hs (by decide))).trans ⟨rfl, rfl, id⟩
    · exact ⟨rfl, rfl, id⟩
  · exact ⟨rfl, rfl, id⟩

theorem envMove_requestSuspend (s : EState) (f : Nat) (pre post : Option Gen) (j : Option String) :
    EnvMove s (requestSuspend s f pre post j) := by
  unfold requestSuspend
  split
  · simp only []
    split
    · exact ⟨rfl, rfl, id⟩
    · rename_i s' hs
      have h1 : EnvMove s s' :=
        EnvMove.trans (b := { s with interrupted := true, exceptionSlot := some .failedPause }) ⟨rfl, rfl, id⟩
          (envMove_setState hs (by decide))
      split
      · exact (h1.trans ⟨rfl, rfl, id⟩).trans (envMove_pushSuspender _ _ _ _ _)
      · exact h1.trans (envMove_pushSuspender _ _ _ _ _)
  · exact envMove_pushSuspender f pre post j s

theorem envMove_foldl {α} (f : EState → α → EState) (h : ∀ s a, EnvMove s (f s a)) (l : List α) (s : EState) :
    EnvMove s (l.foldl f s) := by
  induction l generalizing s with
  | nil => exact EnvMove.refl s
  | cons a l ih => rw [List.foldl_cons]; exact (h s a).trans (ih _)

theorem envMove_monitorUpdate (s : EState) (sig : String) (v : Int) : EnvMove s (monitorUpdate s sig v) := by
  unfold monitorUpdate
  simp only []
  refine EnvMove.trans (b := setDev s sig { (devOf s sig) with value := v }) ⟨rfl, rfl, id⟩ ?_
  apply envMove_foldl
  intro s a
  split <;> exact ⟨rfl, rfl, id⟩

theorem envMove_completeStatus (s : EState) (k : Nat) : EnvMove s (completeStatus s k) := by
  unfold completeStatus
  split
  · exact EnvMove.refl s
  · split
    · exact EnvMove.refl s
    · split <;> exact ⟨rfl, rfl, id⟩

theorem envMove_flushCompletions (s : EState) : EnvMove s (flushCompletions s) := by
  unfold flushCompletions
  exact EnvMove.trans (b := { s with pendingCompl := [] }) ⟨rfl, rfl, id⟩ (envMove_foldl _ envMove_completeStatus _ _)

theorem envMove_applyAction (s : EState) (a : Action) : EnvMove s (applyAction s a) := by
  cases a with
  | pause d =>
    simp only [applyAction]; split
    · rename_i s' h; exact envMove_requestPause h
    · exact ⟨rfl, rfl, id⟩
  | suspend f pre post j => exact envMove_requestSuspend s f pre post j
  | release f => simp only [applyAction]; split <;> exact ⟨rfl, rfl, id⟩
  | abort => exact envMove_requestTerminate s _ _
  | stop => exact envMove_requestTerminate s _ _
  | halt => exact envMove_requestTerminate s _ _
  | status k ok =>
    simp only [applyAction]; split
    · split
      · exact EnvMove.refl s
      · exact EnvMove.trans (b := { s with statuses := _ }) ⟨rfl, rfl, id⟩ (envMove_completeStatus _ _)
    · exact EnvMove.refl s
  | monitor sig v => exact envMove_monitorUpdate s sig v

theorem envMove_releaseAll (s : EState) : EnvMove s (releaseAll s).1 := by
  unfold releaseAll
  simp only []
  exact (envMove_foldl _ (fun s k => envMove_applyAction s _) _ s).trans
    (envMove_foldl _ (fun s f => envMove_applyAction s _) _ _)

/-- the end of the task: the cache is kept, the state becomes idle or stays, pc = finished -/
theorem finish_pausedInv (s : EState) (h : s.state = .paused → s.msgCache.isSome = true) :
    PausedInv (finishTask (cleanup s)) := by
  intro hp
  refine ⟨?_, Or.inr (Or.inr (Or.inl rfl))⟩
  show (cleanup s).msgCache.isSome = true
  rw [(keep_cleanup s).2.2]
  apply h
  rcases cleanup_st s with h1 | h1
  · have : (cleanup s).state = .paused := hp
    rw [h1] at this; cases this
  · rw [← h1]; exact hp

theorem leaveLoop_pc (s : EState) (e : Exc) : (leaveLoop s e).pc = .exitSleep ∨ (leaveLoop s e).pc = .finished := by
  unfold leaveLoop
  simp only []
  split <;> first | exact Or.inl rfl | exact Or.inr rfl

theorem contFlow_leaveLoop_pausedInv (n : Nat) (x : EState) (e : Exc) (hc : x.msgCache.isSome = true) :
    PausedInv (contFlow n (.stop (leaveLoop x e))) := by
  have hk : (leaveLoop x e).msgCache = x.msgCache := (keep_leaveLoop x e).2.2
  simp only [contFlow]
  split
  · apply finish_pausedInv; intro _; rw [hk]; exact hc
  · intro _
    refine ⟨by rw [hk]; exact hc, ?_⟩
    rcases leaveLoop_pc x e with h | h
    · exact Or.inr (Or.inl h)
    · exact Or.inr (Or.inr (Or.inl h))

theorem advanceAt_pausedWait (n : Nat) (c : Bool) (s : EState) (h : s.pc = .pausedWait) :
    advanceAt n c s =
      (if !s.permit then s else
       if c then contFlow n (.stop (leaveLoop s .cancelled)) else
       let s := forBundlers s restoreMonitors
       let s1 : Except Exc EState := if s.state == .paused then setState s .running else .ok s
       match s1 with
       | .error e => contFlow n (.stop (leaveLoop s e))
       | .ok s =>
         match s.stashed with
         | none => { s with pc := .loopSleep, resp := none }
         | some _ => contFlow n (afterSleep { s with resp := none })) := by
  unfold advanceAt
  split <;> first | rfl | (rename_i hh; rw [h] at hh; cases hh)

theorem advanceAt_exitSleep (n : Nat) (c : Bool) (s : EState) (h : s.pc = .exitSleep) :
    advanceAt n c s =
      finishTask (cleanup (if c then { s with stashed := some .cancelled, exitExc := some .cancelled } else s)) := by
  unfold advanceAt
  split <;> first | rfl | (rename_i hh; rw [h] at hh; cases hh)

theorem advanceAt_done (n : Nat) (c : Bool) (s : EState) (h : s.pc = .finished ∨ s.pc = .noTask) :
    advanceAt n c s = s := by
  unfold advanceAt
  rcases h with h | h <;> (split <;> first | rfl | (rename_i hh; rw [h] at hh; cases hh))

theorem advanceAt_pausedInv_paused (n : Nat) (c : Bool) (s0 : EState) (hp : s0.state = .paused)
    (hc : s0.msgCache.isSome = true)
    (hpc : s0.pc = .pausedWait ∨ s0.pc = .exitSleep ∨ s0.pc = .finished ∨ s0.pc = .noTask) :
    PausedInv (advanceAt n c s0) := by
  have hself : PausedInv s0 := fun _ => ⟨hc, hpc⟩
  rcases hpc with h | h | h | h
  · rw [advanceAt_pausedWait n c s0 h]
    split
    · exact hself
    · split
      · exact contFlow_leaveLoop_pausedInv n s0 _ hc
      · simp only []
        have hx : (forBundlers s0 restoreMonitors).msgCache.isSome = true := by
          rw [ck_cache (ck_forBundlers_restore s0)]; exact hc
        split
        · exact contFlow_leaveLoop_pausedInv n _ _ hx
        · rename_i s' hs
          have hs' : NP s' := by
            split at hs
            · exact setState_np hs (by decide)
            · rename_i hne
              exfalso; apply hne
              rw [st_forBundlers_restore, hp]; rfl
          split
          · exact pausedInv_of_np hs'
          · exact pausedInv_of_pwc (contFlow_pwc _ _ (Flow.pausedOk_of_nps (afterSleep_nps _ hs')))
  · rw [advanceAt_exitSleep n c s0 h]
    apply finish_pausedInv
    intro _
    split <;> exact hc
  · rw [advanceAt_done n c s0 (Or.inl h)]; exact hself
  · rw [advanceAt_done n c s0 (Or.inr h)]; exact hself

theorem advance_pausedInv (n : Nat) (s : EState) (h : PausedInv s) : PausedInv (advance n s) := by
  by_cases hnp : NP s
  · exact pausedInv_of_pwc (advance_pwc n s hnp)
  · have hp : s.state = .paused := by
      unfold NP at hnp
      exact Classical.not_not.mp hnp
    obtain ⟨hc, hpc⟩ := h hp
    exact advanceAt_pausedInv_paused n _ { s with cancelPending := false } hp hc hpc

/-- the invariant holds along every run of the scheduler: for every script, arrival bound and fuel -/
theorem schedule_pausedInv (maxArr : Nat) (sc : Script) (fuel : Nat) (s : EState) (h : PausedInv s) :
    PausedInv (schedule maxArr sc fuel s) := by
  induction fuel generalizing s with
  | zero => exact EnvMove.inv ⟨rfl, rfl, id⟩ h
  | succ n ih =>
    unfold schedule
    split
    · exact h
    · split
      · exact h
      · exact h
      · split
        · exact ih _ (advance_pausedInv _ _ h)
        · exact h
      · exact ih _ (advance_pausedInv _ _ h)
      · simp only []
        apply ih; apply advance_pausedInv
        have h0 : PausedInv (flushCompletions { s with arrivals := s.arrivals ++ [arrivalKind s.pc] }) :=
          (envMove_flushCompletions _).inv (EnvMove.inv ⟨rfl, rfl, id⟩ h)
        split
        · exact (envMove_applyAction _ _).inv h0
        · exact (envMove_foldl _ envMove_applyAction _ _).inv h0
      · simp only []
        apply ih; apply advance_pausedInv
        have h0 : PausedInv (flushCompletions { s with arrivals := s.arrivals ++ [arrivalKind s.pc] }) :=
          (envMove_flushCompletions _).inv (EnvMove.inv ⟨rfl, rfl, id⟩ h)
        split
        · exact (envMove_applyAction _ _).inv h0
        · exact (envMove_foldl _ envMove_applyAction _ _).inv h0
      · simp only []
        apply ih; apply advance_pausedInv
        have h0 : PausedInv (flushCompletions { s with arrivals := s.arrivals ++ [arrivalKind s.pc] }) :=
          (envMove_flushCompletions _).inv (EnvMove.inv ⟨rfl, rfl, id⟩ h)
        split
        · exact (envMove_applyAction _ _).inv h0
        · exact (envMove_foldl _ envMove_applyAction _ _).inv h0
      · simp only []
        apply ih; apply advance_pausedInv
        have h0 : PausedInv (flushCompletions { s with arrivals := s.arrivals ++ [arrivalKind s.pc] }) :=
          (envMove_flushCompletions _).inv (EnvMove.inv ⟨rfl, rfl, id⟩ h)
        split
        · exact (envMove_applyAction _ _).inv h0
        · exact (envMove_foldl _ envMove_applyAction _ _).inv h0
      all_goals
        simp only []
        have hf : PausedInv (flushCompletions s) := (envMove_flushCompletions _).inv h
        have hadv := advance_pausedInv 4000 _ hf
        split
        · have h1 : PausedInv { advance 4000 (flushCompletions s) with
              arrivals := (advance 4000 (flushCompletions s)).arrivals ++ ["quiesce"] } :=
            EnvMove.inv ⟨rfl, rfl, id⟩ hadv
          split
          · exact ih _ ((envMove_applyAction _ _).inv h1)
          · split
            · apply ih
              split
              · exact (envMove_releaseAll _).inv h1
              · exact (envMove_applyAction _ _).inv ((envMove_releaseAll _).inv h1)
            · exact ih _ ((envMove_foldl _ envMove_applyAction _ _).inv h1)
        · exact ih _ hadv

/-- `RE(plan)` is only legal when the engine is not paused; it starts with an (empty) cache -/
theorem startCall_pausedInv (s : EState) (plan : Gen) (h : NP s) : PausedInv (startCall s plan) :=
  pausedInv_of_np h

/-- `RE.resume()` keeps the state and the program counter and installs an empty cache -/
theorem startResume_pausedInv (s : EState) (h : PausedInv s) : PausedInv (startResume s) := by
  intro hp
  have hst : (startResume s).state = s.state := by
    unfold startResume
    simp only []
    show (resumeHooks _).state = _
    rw [st_resumeHooks]
    show (rewindPlan _).2.state = _
    rw [st_rewindPlan, st_forBundlers_ri]
  have hpc : (startResume s).pc = s.pc := by
    unfold startResume
    simp only []
    show (resumeHooks _).pc = _
    rw [show ∀ x, (resumeHooks x).pc = x.pc from fun x => congrArg Ctl.pc (ctl_resumeHooks x)]
    show (rewindPlan _).2.pc = _
    rw [show ∀ x, (rewindPlan x).2.pc = x.pc from fun x => congrArg Ctl.pc (ctl_rewindPlan x)]
    exact congrArg Ctl.pc (ctl_forBundlers _ (fun s b => ctl_recordInterruption s b "resume") _)
  rw [hst] at hp
  refine ⟨by rw [startResume_cache]; rfl, ?_⟩
  rw [hpc]; exact (h hp).2

theorem startTerminate_pausedInv (s : EState) (kind : String) (h : PausedInv s) :
    PausedInv (startTerminate s kind) := by
  unfold startTerminate
  exact EnvMove.inv ⟨rfl, rfl, id⟩ ((envMove_requestTerminate s kind "").inv h)

end BlueskyVerif.Engine
