/-
C39: assembling the run-level lemmas into statements about the documents of one whole re-emitted
run (`runOne`: start, body, stop), read by stream_name and by descriptor name.
-/
import BlueskyVerif.Lemmas.C39Run

namespace BlueskyVerif.LiveDispatcher
open Gen

/-- the dispatcher state right after `start` -/
def started (st : St) : St := { st with startUid := some st.nextUid, nextUid := st.nextUid + 1 }

/-- the body's result inside `runOne` -/
def bodyOf (st : St) (body : List BodyInp) : St × List Doc := runBody (started st) body

theorem numEventsOf_eq (st : St) :
    numEventsOf st = st.descriptors.map fun p => (p.1, getCnt st.seqCounts p.1 0) := by
  simp [numEventsOf, numEventsSource, numEventsDefault]

/-- the documents of one run, spelled out -/
theorem runOne_docs (st : St) (body : List BodyInp) :
    (runOne st body).2 =
      Doc.start st.nextUid ::
        ((bodyOf st body).2 ++
          [Doc.stop (bodyOf st body).1.nextUid (bodyOf st body).1.startUid (numEventsOf (bodyOf st body).1)]) := by
  simp [runOne, startRun, stopRun, bodyOf, started]

/-- `stop` clears every per-run cache (uses the extracted facts about `stop`) -/
theorem runOne_clean (st : St) (body : List BodyInp) : Clean (runOne st body).1 := by
  simp [runOne, stopRun, Clean, stopResetsSeqCount, stopClearsSeqCounts, stopClearsRawDescriptors,
    stopResetsStartUid, stopClearsDescriptors]

theorem evSeqs_runOne (st : St) (body : List BodyInp) (s : String) :
    evSeqs s (runOne st body).2 = evSeqs s (bodyOf st body).2 := by
  rw [runOne_docs]
  simp [evSeqs, List.filterMap_append]

theorem started_seqCounts (st : St) : (started st).seqCounts = st.seqCounts := rfl
theorem started_descriptors (st : St) : (started st).descriptors = st.descriptors := rfl
theorem started_startUid (st : St) : (started st).startUid = some st.nextUid := rfl
theorem started_nextUid (st : St) : (started st).nextUid = st.nextUid + 1 := rfl

/-- numbering by stream_name: the seq_nums emitted for stream `s` in one run are 1..N in order -/
theorem runOne_numbering (st : St) (hc : Clean st) (body : List BodyInp) (s : String) :
    ∃ k, evSeqs s (runOne st body).2 = List.range' 1 k ∧
         getCnt (bodyOf st body).1.seqCounts s 0 = k := by
  obtain ⟨k, h1, h2⟩ := runBody_numbering body (started st) s
  have h0 : getCnt (started st).seqCounts s 0 = 0 := by
    rw [started_seqCounts, hc.2.1]; rfl
  rw [h0] at h1 h2
  exact ⟨k, by rw [evSeqs_runOne]; simpa [bodyOf] using h1, by simpa [bodyOf] using h2⟩

theorem mem_descsIn (docs : List Doc) (s : String) (u : Nat) :
    (s, u) ∈ descsIn docs ↔ ∃ rs n ks, Doc.descriptor u rs n s ks ∈ docs := by
  induction docs with
  | nil => simp [descsIn]
  | cons d r ih =>
    simp only [descsIn] at ih
    cases d with
    | start u' => simp [descsIn, ih]
    | stop u' rs ne => simp [descsIn, ih]
    | event u' du n' s' => simp [descsIn, ih]
    | descriptor u' rs n' s' ks =>
      simp only [descsIn, List.filterMap_cons, List.mem_cons, ih, Prod.mk.injEq, Doc.descriptor.injEq]
      constructor
      · rintro (⟨rfl, rfl⟩ | ⟨rs2, n2, ks2, h⟩)
        · exact ⟨rs, n', ks, Or.inl ⟨rfl, rfl, rfl, rfl, rfl⟩⟩
        · exact ⟨rs2, n2, ks2, Or.inr h⟩
      · rintro ⟨rs2, n2, ks2, h | h⟩
        · exact Or.inl ⟨h.2.2.2.1, h.1⟩
        · exact Or.inr ⟨rs2, n2, ks2, h⟩

theorem hasDescriptorFor_runOne (st : St) (body : List BodyInp) (s : String) :
    hasDescriptorFor s (runOne st body).2 ↔ ∃ u, (s, u) ∈ descsIn (bodyOf st body).2 := by
  rw [runOne_docs]
  simp only [hasDescriptorFor, mem_descsIn]
  constructor
  · rintro ⟨u, rs, n, ks, h⟩
    simp at h
    exact ⟨u, rs, n, ks, h⟩
  · rintro ⟨u, rs, n, ks, h⟩
    exact ⟨u, rs, n, ks, by simp [h]⟩

/-- num_events by stream_name -/
theorem runOne_num_events (st : St) (hc : Clean st) (body : List BodyInp) :
    ∃ ne, stopNumEvents (runOne st body).2 = some ne ∧ (ne.map (·.1)).Nodup ∧
      ∀ s, (hasDescriptorFor s (runOne st body).2 → ne.lookup s = some (evSeqs s (runOne st body).2).length) ∧
           (¬ hasDescriptorFor s (runOne st body).2 → ne.lookup s = none) := by
  refine ⟨numEventsOf (bodyOf st body).1, ?_, ?_, ?_⟩
  · unfold stopNumEvents
    rw [runOne_docs, ← List.cons_append, List.getLast?_concat]
  · obtain ⟨hn, _⟩ := runBody_keys body (started st)
    have : (streamKeys (bodyOf st body).1.descriptors).Nodup := by
      apply hn
      rw [started_descriptors, hc.2.2.2.2]
      simp [streamKeys]
    rw [numEventsOf_eq]
    simpa [streamKeys, List.map_map, Function.comp_def] using this
  · intro s
    obtain ⟨_, hk⟩ := runBody_keys body (started st)
    have hkeys : s ∈ streamKeys (bodyOf st body).1.descriptors ↔ hasDescriptorFor s (runOne st body).2 := by
      rw [hasDescriptorFor_runOne, bodyOf, hk s, started_descriptors, hc.2.2.2.2]
      simp [streamKeys]
    obtain ⟨k, hseq, hcnt⟩ := runOne_numbering st hc body s
    rw [numEventsOf_eq]
    have hl := lookup_map_key (bodyOf st body).1.descriptors
      (fun s _ => getCnt (bodyOf st body).1.seqCounts s 0) s
    rw [hl]
    constructor
    · intro hd
      have := (descsOf_isSome _ _).2 (hkeys.2 hd)
      cases hds : descsOf (bodyOf st body).1.descriptors s with
      | none => simp [hds] at this
      | some ds => simp [hcnt, hseq]
    · intro hd
      cases hds : descsOf (bodyOf st body).1.descriptors s with
      | none => rfl
      | some ds =>
        exact absurd (hkeys.1 ((descsOf_isSome _ _).1 (by simp [hds]))) hd

/-- every event of a run refers to a descriptor emitted earlier in the same run, for the same
    stream, carrying this run's start uid and named after the stream -/
theorem runOne_referenced (st : St) (hc : Clean st) (body : List BodyInp)
    (pre post : List Doc) (u du n : Nat) (s : String)
    (h : (runOne st body).2 = pre ++ Doc.event u du n s :: post) :
    ∃ ks, Doc.descriptor du (some st.nextUid) (some s) s ks ∈ pre := by
  have hw : wellRef (fun _ => False) (runOne st body).2 := by
    rw [runOne_docs]
    show wellRef (fun _ => False) ((bodyOf st body).2 ++ _)
    apply wellRef_append
    · refine (runBody_wellRef body (started st) (fun _ => False) ?_).1
      rw [started_descriptors, hc.2.2.2.2]
      simp [entries]
    · exact trivial
  rw [h] at hw
  rcases wellRef_split pre post u du n s _ hw with hf | hm
  · exact hf.elim
  · obtain ⟨rs, nm, ks, hd⟩ := (mem_descsIn pre s du).1 hm
    have hmem : Doc.descriptor du rs nm s ks ∈ (bodyOf st body).2 := by
      have : Doc.descriptor du rs nm s ks ∈ (runOne st body).2 := by rw [h]; simp [hd]
      rw [runOne_docs] at this
      simpa using this
    have hok := (runBody_descOk body (started st)).1 _ hmem
    simp only [descOk, started_startUid] at hok
    obtain ⟨rfl, rfl⟩ := hok
    exact ⟨ks, hd⟩

/-- uids of one run's documents are consecutive fresh numbers (hence pairwise distinct) -/
theorem runOne_uids (st : St) (body : List BodyInp) :
    (runOne st body).2.map Doc.uid = List.range' st.nextUid (runOne st body).2.length := by
  obtain ⟨h1, h2⟩ := runBody_uids body (started st)
  rw [runOne_docs]
  simp only [List.map_cons, List.map_append, List.length_cons, List.length_append, List.length_nil,
    Doc.uid, bodyOf, h1, h2, started_nextUid, List.map_nil]
  rw [show (runBody (started st) body).2.length + (0 + 1) + 1 = 1 + ((runBody (started st) body).2.length + 1) by omega]
  rw [← List.range'_append_1, ← List.range'_append_1]
  simp [List.range']

theorem nodup_map_inj {α β : Type} (f : α → β) (l : List α) (h : (l.map f).Nodup) (a b : α)
    (ha : a ∈ l) (hb : b ∈ l) (e : f a = f b) : a = b := by
  induction l with
  | nil => cases ha
  | cons x r ih =>
    simp only [List.map_cons, List.nodup_cons, List.mem_map, not_exists, not_and] at h
    rcases List.mem_cons.1 ha with rfl | ha' <;> rcases List.mem_cons.1 hb with rfl | hb'
    · rfl
    · exact absurd e.symm (h.1 b hb')
    · exact absurd e (h.1 a ha')
    · exact ih h.2 ha' hb'

theorem filterMap_congr' {α β : Type} (f g : α → Option β) (l : List α) (h : ∀ x ∈ l, f x = g x) :
    l.filterMap f = l.filterMap g := by
  induction l with
  | nil => rfl
  | cons x r ih =>
    simp only [List.filterMap_cons, h x (List.mem_cons_self ..)]
    rw [ih (fun y hy => h y (List.mem_cons_of_mem _ hy))]

/-- looking a descriptor up by uid in the run's documents finds the descriptor the event was
    emitted with, whose name is the stream -/
theorem runOne_descName (st : St) (hc : Clean st) (body : List BodyInp) (u du n : Nat) (s : String)
    (he : Doc.event u du n s ∈ (runOne st body).2) : descName (runOne st body).2 du = some s := by
  obtain ⟨pre, post, hsplit⟩ := List.append_of_mem he
  obtain ⟨ks, hd⟩ := runOne_referenced st hc body pre post u du n s hsplit
  have hD : Doc.descriptor du (some st.nextUid) (some s) s ks ∈ (runOne st body).2 := by
    rw [hsplit]; simp [hd]
  unfold descName
  cases hf : (runOne st body).2.find?
      (fun d => match d with | .descriptor u' _ _ _ _ => u' == du | _ => false) with
  | none =>
    have := List.find?_eq_none.1 hf _ hD
    simp at this
  | some d' =>
    have hp := List.find?_some hf
    have hm := List.mem_of_find?_eq_some hf
    cases d' with
    | start _ => simp at hp
    | stop _ _ _ => simp at hp
    | event _ _ _ _ => simp at hp
    | descriptor u' rs' n' s' ks' =>
      simp only [beq_iff_eq] at hp
      subst hp
      have hnd : ((runOne st body).2.map Doc.uid).Nodup := by
        rw [runOne_uids]; exact List.nodup_range' 1
      have := nodup_map_inj Doc.uid _ hnd _ _ hm hD (by simp [Doc.uid])
      simp only [Doc.descriptor.injEq] at this
      simp [this.2.2.1]

/-- reading a run's documents by descriptor name is the same as reading them by stream_name -/
theorem runOne_byName (st : St) (hc : Clean st) (body : List BodyInp) (n : String) :
    evSeqsByName n (runOne st body).2 = evSeqs n (runOne st body).2 := by
  unfold evSeqsByName evSeqs
  apply filterMap_congr'
  intro d hd
  cases d with
  | start _ => rfl
  | stop _ _ _ => rfl
  | descriptor _ _ _ _ _ => rfl
  | event u du k s =>
    simp only [runOne_descName st hc body u du k s hd, Option.some.injEq]

theorem runOne_hasNamed (st : St) (body : List BodyInp) (n : String) :
    hasDescriptorNamed n (runOne st body).2 ↔ hasDescriptorFor n (runOne st body).2 := by
  have hok : ∀ d ∈ (runOne st body).2, descOk (some st.nextUid) d := by
    intro d hd
    rw [runOne_docs] at hd
    simp only [List.mem_cons, List.mem_append, List.mem_nil_iff, or_false] at hd
    rcases hd with rfl | hd | rfl
    · trivial
    · simpa [started_startUid] using (runBody_descOk body (started st)).1 d hd
    · trivial
  constructor
  · rintro ⟨u, rs, s, ks, h⟩
    have := hok _ h
    simp only [descOk, Option.some.injEq] at this
    obtain ⟨_, rfl⟩ := this
    exact ⟨u, rs, some n, ks, h⟩
  · rintro ⟨u, rs, nm, ks, h⟩
    have := hok _ h
    simp only [descOk] at this
    obtain ⟨_, rfl⟩ := this
    exact ⟨u, rs, n, ks, h⟩

/-- a descriptor is only ever emitted together with an event of the same stream -/
theorem processEvent_nonempty (st : St) (c : Call) (s : String)
    (h : ∃ u, (s, u) ∈ descsIn (processEvent st c).2) : evSeqs s (processEvent st c).2 ≠ [] := by
  rcases processEvent_cases st c with e | ⟨du, _, e⟩ | ⟨_, e⟩
  · rw [e] at h; simp [descsIn] at h
  · rw [e] at h; simp [descsIn, evDoc] at h
  · rw [e] at h ⊢
    simp only [descsIn, descDoc, evDoc, List.filterMap_cons, List.filterMap_nil, List.mem_cons, Prod.mk.injEq,
      List.not_mem_nil, or_false] at h
    obtain ⟨u, hs, _⟩ := h
    simp [evSeqs, descDoc, evDoc, hs]

theorem runBody_nonempty (body : List BodyInp) (st : St) (s : String)
    (h : ∃ u, (s, u) ∈ descsIn (runBody st body).2) : evSeqs s (runBody st body).2 ≠ [] := by
  induction body generalizing st with
  | nil => simp [runBody, descsIn] at h
  | cons i is ih =>
    obtain ⟨u, hu⟩ := h
    simp only [runBody, descsIn, List.filterMap_append, List.mem_append] at hu
    simp only [runBody, evSeqs_append]
    rcases hu with hu | hu
    · cases i with
      | rawDescriptor uid name => simp [stepBody] at hu
      | call c =>
        have := processEvent_nonempty st c s ⟨u, hu⟩
        intro hnil
        exact this (List.append_eq_nil_iff.1 hnil).1
    · have := ih (stepBody st i).1 ⟨u, hu⟩
      intro hnil
      exact this (List.append_eq_nil_iff.1 hnil).2

theorem runOne_nonempty (st : St) (body : List BodyInp) (s : String)
    (h : hasDescriptorFor s (runOne st body).2) : evSeqs s (runOne st body).2 ≠ [] := by
  rw [evSeqs_runOne]
  exact runBody_nonempty body (started st) s ((hasDescriptorFor_runOne st body s).1 h)

end BlueskyVerif.LiveDispatcher
