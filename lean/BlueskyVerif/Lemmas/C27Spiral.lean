/-
C27 part A -- helper lemmas for `spiral` / `spiral_fermat` (model: Pure/Spiral.lean, bounds test
GENERATED in Pure/SpiralGenerated.lean).
-/
import BlueskyVerif.Pure.Spiral
import Mathlib.Tactic.Linarith
import Mathlib.Tactic.FieldSimp
import Mathlib.Algebra.Order.Field.Basic
import Mathlib.Algebra.Order.Field.Rat

namespace BlueskyVerif.C27
open BlueskyVerif.Pure.Spiral BlueskyVerif.Pure.Spiral.Gen

theorem rabs_eq_abs (q : Rat) : rabs q = |q| := by
  unfold rabs
  split
  · rw [abs_of_neg (by assumption)]
  · rw [abs_of_nonneg (by linarith)]

theorem loop_eq (k : Kind) (p : Params) (cands acc : List (Rat × Rat)) :
    loop k p cands acc = acc.reverse ++ (cands.filter (accepts k p)).map (emit k p) := by
  induction cands generalizing acc with
  | nil => simp [loop]
  | cons c cs ih =>
    simp only [loop, List.filter_cons]
    split <;> simp [ih]

/-- |y / a| ≤ r / (2a) with a > 0 is |y| ≤ r / 2 -/
theorem abs_scaled_le (y a r : Rat) (ha : 0 < a) (h : |y / a| ≤ r / (2 * a)) : |y| ≤ r / 2 := by
  rw [abs_div, abs_of_pos ha] at h
  have e : r / (2 * a) = (r / 2) / a := by field_simp
  rw [e] at h
  exact (div_le_div_iff_of_pos_right ha).mp h

theorem drAspect_pos (k : Kind) (p : Params) (hdr : 0 < p.dr) (hdy : ∀ d, p.drY = some d → 0 < d) :
    0 < drAspect k p := by
  unfold drAspect
  cases k <;> cases h : p.drY <;>
    simp only [spiral_drAspectNone, spiral_drAspect, spiral_fermat_drAspectNone, spiral_fermat_drAspect] <;>
    first | exact div_pos (hdy _ h) hdr | norm_num

/-- one accepted candidate lands in the rectangle -/
theorem accepted_inRect (k : Kind) (p : Params) (c : Rat × Rat) (ha : 0 < drAspect k p)
    (h : accepts k p c = true) : InRect k p (emit k p c) := by
  unfold InRect frameX
  rw [rabs_eq_abs, rabs_eq_abs]
  cases k <;>
    simp only [accepts, emit, halfX, halfY, spiral_test, spiral_halfX, spiral_halfY, spiral_emitX, spiral_emitY,
      spiral_fermat_test, spiral_fermat_halfX, spiral_fermat_halfY, spiral_fermat_emitX, spiral_fermat_emitY,
      Bool.and_eq_true, decide_eq_true_eq, rabs_eq_abs] at h ⊢ <;>
    (obtain ⟨h1, h2⟩ := h
     refine ⟨?_, ?_⟩
     · rw [add_sub_cancel_left, add_sub_cancel_left]; exact h1
     · rw [add_sub_cancel_left]; exact abs_scaled_le _ _ _ ha h2)

end BlueskyVerif.C27
