/-
C02 / C08 helper lemmas, part 2: one walk through the blocks of `_run` carrying

* `Q`     : the state is `pausing` only while `interrupted` is set,
* `Exact` : when the loop has been left, `exitStatus` is the GENERATED ladder value of the exception
            that left it,
* who sets the blocking event (pause point: `paused` and `interrupted`; end of the task),
* the argument of `cleanup` (the outer `finally`) whenever the task ends.
-/
import BlueskyVerif.Lemmas.C02Core

namespace BlueskyVerif.Engine

/-- the state is `pausing` only together with `_interrupted` -/
def Q (s : EState) : Prop := s.state = .pausing → s.interrupted = true

/-- the loop was left with exception `e` and the ladder stored its status -/
def Exact (s : EState) : Prop :=
  ∃ e, s.exitExc = some e ∧ s.exitStatus = ladderStatus e ∧ (e = .stopIteration → s.planDone = true) ∧
    (s.pc = .exitSleep → e.sleeper = true)

/-- while `_run` sits in the exit `sleep(0)`: the stored status is the ladder value of the exception
    that left the loop, or a status stored by an abort()/halt() request afterwards -/
def StatusExplained (s : EState) : Prop :=
  ∃ e, s.exitExc = some e ∧ (s.exitStatus = ladderStatus e ∨ ReqStored s.exitStatus) ∧
    (e = .stopIteration → s.planDone = true) ∧ e.sleeper = true

/-- the state on which the outer `finally` runs: as above; when the exit sleep itself was cancelled the
    model overwrites `exitExc` with CancelledError (the task ends cancelled), `e` is then only known to
    be one of the classes whose handler sleeps -/
def ArgOK (x : EState) : Prop :=
  ∃ e, (x.exitStatus = ladderStatus e ∨ ReqStored x.exitStatus) ∧ (e = .stopIteration → x.planDone = true) ∧
    (x.exitExc = some e ∨ (x.exitExc = some .cancelled ∧ x.stashed = some .cancelled ∧ e.sleeper = true))

theorem Exact.argOK {x : EState} (h : Exact x) : ArgOK x := by
  obtain ⟨e, h1, h2, h3, _⟩ := h
  exact ⟨e, Or.inl h2, h3, Or.inl h1⟩

def In (s : EState) : Prop := s.blockingEvent = false ∧ s.pc ≠ .exitSleep ∧ s.pc ≠ .finished ∧ Q s

theorem Q.of_same {a b : EState} (h : Same4 a b) (hb : Q b) : Q a := by
  intro hs; rw [h.2.1]; exact hb (h.1 ▸ hs)

theorem In.of_same {a b : EState} (h : Same4 a b) (hb : In b) : In a := by
  obtain ⟨b1, b2, b3, b4⟩ := hb
  exact ⟨h.2.2.2.trans b1, h.2.2.1 ▸ b2, h.2.2.1 ▸ b3, Q.of_same h b4⟩

def Flow.G : Flow → Prop
  | .loopTop s => In s
  | .stop s => Q s ∧ ((s.pc = .exitSleep ∨ s.pc = .finished) → Exact s ∧ s.blockingEvent = false) ∧
      (s.blockingEvent = true → s.pc = .pausedWait ∧ s.state = .paused ∧ s.interrupted = true)

/-! ### blocks -/

theorem leaveLoop_keep (s : EState) (e : Exc) :
    (leaveLoop s e).state = s.state ∧ (leaveLoop s e).interrupted = s.interrupted ∧
    (leaveLoop s e).blockingEvent = s.blockingEvent := by
  cases e <;> exact ⟨rfl, rfl, rfl⟩

theorem leaveLoop_exact (s : EState) (e : Exc) : Exact (leaveLoop s e) := by
  cases e <;> exact ⟨_, rfl, rfl, by simp [leaveLoop], by simp [leaveLoop, Exc.sleeper]⟩

theorem leaveLoop_G (s : EState) (e : Exc) (hb : s.blockingEvent = false) (hq : Q s) : (Flow.stop (leaveLoop s e)).G := by
  obtain ⟨h1, h2, h3⟩ := leaveLoop_keep s e
  refine ⟨?_, fun _ => ⟨leaveLoop_exact s e, h3.trans hb⟩, ?_⟩
  · intro hs; rw [h2]; exact hq (h1 ▸ hs)
  · intro hbe; rw [h3, hb] at hbe; cases hbe

theorem fin_same (s : EState) (r : Resp) : Same4 (fin s r) s := by
  unfold fin; split <;> exact Same4.refl _

theorem noteMsg_same (s : EState) (m : Msg) : Same4 (noteMsg s m) s :=
  ⟨by unfold noteMsg; frame_be, by unfold noteMsg; frame_be, by unfold noteMsg; frame_be, noteMsg_be s m⟩

theorem takeResp_same (s : EState) (r : Resp) (rs : List Resp) : Same4 (takeResp s r rs) s :=
  ⟨by unfold takeResp; frame_be, by unfold takeResp; frame_be, by unfold takeResp; frame_be, takeResp_be s r rs⟩

theorem logYield_same (s : EState) (g : Gen) (i : Inp) : Same4 (logYield s g i) s :=
  ⟨by unfold logYield; frame_be, by unfold logYield; frame_be, by unfold logYield; frame_be, logYield_be s g i⟩

theorem popPlan_G (s : EState) (how : Option Exc) (h : In s) : (popPlan s how).G := by
  unfold popPlan; simp only []
  split
  · exact leaveLoop_G _ _ h.1 h.2.2.2
  · split <;> exact h

/-- `_request_pause_coro`: the state becomes `pausing` together with `_interrupted = True` -/
theorem requestPause_keep {s s' : EState} {d : Bool} (h : requestPause s d = .ok s') (hq : Q s) :
    Q s' ∧ s'.pc = s.pc ∧ s'.blockingEvent = s.blockingEvent ∧ s'.exitExc = s.exitExc ∧
    s'.exitStatus = s.exitStatus ∧ (s'.interrupted = true ∨ Same4 s' s) := by
  unfold requestPause at h
  split at h
  · cases h
  · split at h
    · cases h; exact ⟨hq, rfl, rfl, rfl, rfl, Or.inr (Same4.refl _)⟩
    · split at h
      · cases h
      · rename_i s1 hs
        cases h
        obtain ⟨_, k2, k3, k4, k5, k6, _⟩ := setState_keep hs
        have hc : ctl (forBundlers s1 (fun s b => recordInterruption s b "pause")) = ctl s1 :=
          ctl_forBundlers _ (fun s b => ctl_recordInterruption s b "pause") _
        have hi : (forBundlers s1 (fun s b => recordInterruption s b "pause")).interrupted = true :=
          (congrArg Ctl.interrupted hc).trans k2
        exact ⟨fun _ => hi, (congrArg Ctl.pc hc).trans k3, (congrArg Ctl.blockingEvent hc).trans k4,
          (congrArg Ctl.exitExc hc).trans k5, (congrArg Ctl.exitStatus hc).trans k6, Or.inl hi⟩

theorem requestPause_In {s s' : EState} {d : Bool} (h : requestPause s d = .ok s') (hi : In s) : In s' := by
  obtain ⟨k1, k2, k3, _, _, _⟩ := requestPause_keep h hi.2.2.2
  exact ⟨k3.trans hi.1, k2 ▸ hi.2.1, k2 ▸ hi.2.2.1, k1⟩

/-- no command handler other than `pause` touches state / interrupted / pc / blocking event -/
theorem runCommand_In (s : EState) (m : Msg) (h : In s) : In (runCommand s m).1 := by
  by_cases hp : m.cmd = "pause"
  · cases hr : requestPause s m.flag with
    | ok s' => rw [runCommand_pause_ok s s' m hp hr]; exact requestPause_In hr h
    | error e => rw [runCommand_pause_err s m e hp hr]; exact h
  · exact In.of_same ⟨(runCommand_st s m).resolve_right hp, (runCommand_ir s m).resolve_right hp,
      (runCommand_pc s m).resolve_right hp, runCommand_be s m⟩ h

/-- the points inside a command where `_run` can be suspended -/
def PC.isWaitPoint : PC → Bool
  | .inSleep | .inCkptSleep | .inWait _ | .inWaitFor _ => true
  | _ => false

def CmdOut.okSusp : CmdOut → Bool
  | .suspend pc => pc.isWaitPoint
  | _ => true

/-- a command suspends `_run` only at one of its own wait points -/
theorem runCommand_okSusp (s : EState) (m : Msg) : (runCommand s m).2.okSusp = true := by
  unfold runCommand
  split
  · unfold cmdOpenRun; frame_be
  · unfold cmdCloseRun; frame_be
  · unfold cmdCreate; frame_be
  · unfold cmdRead; frame_be
  · unfold cmdSave; frame_be
  · unfold cmdDrop; frame_be
  · unfold cmdCheckpoint; frame_be
  · unfold cmdClearCheckpoint; frame_be
  · unfold cmdRewindable; frame_be
  · unfold cmdSet; frame_be
  · unfold cmdTrigger; frame_be
  · unfold cmdWait; frame_be
  · rfl
  · unfold cmdStage; frame_be
  · unfold cmdStage; frame_be
  · unfold cmdMonitor; frame_be
  · unfold cmdUnmonitor; frame_be
  · rfl
  · split <;> rfl
  · unfold cmdStartSuspender; frame_be
  · unfold cmdResumeFromSuspender; frame_be
  · unfold cmdWaitFor; frame_be
  · rfl

theorem runCommand_suspend_pc (s : EState) (m : Msg) (pc : PC) (h : (runCommand s m).2 = .suspend pc) :
    pc.isWaitPoint = true := by
  have := runCommand_okSusp s m
  rw [h] at this; exact this

end BlueskyVerif.Engine
