/-
C41 helper lemmas: the subscription lists of the devices (`DevState.subs`) under the monitor
operations of the bundler and under the bookkeeping operations of the engine.
-/
import BlueskyVerif.Lemmas.C40Engine

namespace BlueskyVerif.Engine

/-- the engine callbacks currently registered on device `n`: (run id, stream), with repeats -/
def subsOf (s : EState) (n : String) : List (Nat × String) := (devOf s n).subs

theorem devOf_setDev_same (s : EState) (n : String) (d : DevState) : devOf (setDev s n d) n = d := by
  simp [devOf, setDev, assocGet_assocSet_same]

theorem devOf_setDev_ne (s : EState) (n n' : String) (d : DevState) (h : n ≠ n') : devOf (setDev s n d) n' = devOf s n' := by
  simp [devOf, setDev, assocGet_assocSet_ne _ _ _ _ h]

@[simp] theorem devOf_logCall (s : EState) (c : Call) (n : String) : devOf (s.logCall c) n = devOf s n := rfl
@[simp] theorem devOf_emit (s : EState) (d : Doc) (n : String) : devOf (s.emit d) n = devOf s n := rfl
@[simp] theorem subsOf_logCall (s : EState) (c : Call) (n : String) : subsOf (s.logCall c) n = subsOf s n := rfl
@[simp] theorem subsOf_emit (s : EState) (d : Doc) (n : String) : subsOf (s.emit d) n = subsOf s n := rfl
@[simp] theorem subsOf_putBundler (s : EState) (m : Msg) (b : Bundler) (n : String) : subsOf (putBundler s m b) n = subsOf s n := rfl

/-- states with the same device table have the same subscriptions -/
theorem subsOf_of_devs {s s' : EState} (h : s'.devs = s.devs) (n : String) : subsOf s' n = subsOf s n := by
  simp [subsOf, devOf, h]

@[simp] theorem subsOf_nextMode (s : EState) (n op n' : String) : subsOf (nextMode s n op).2 n' = subsOf s n' := by
  unfold nextMode subsOf
  simp only []
  by_cases h : n = n'
  · subst h; rw [devOf_setDev_same]
  · rw [devOf_setDev_ne _ _ _ _ h]

theorem subsOf_foldl {α} (f : EState → α → EState) (h : ∀ s a n, subsOf (f s a) n = subsOf s n) (l : List α) (s : EState) (n : String) :
    subsOf (l.foldl f s) n = subsOf s n := by
  induction l generalizing s with
  | nil => rfl
  | cons a l ih => rw [List.foldl_cons, ih, h]

theorem devs_forBundlers_pure (s : EState) (h : Bundler → Bundler) : (forBundlers s (fun s b => (s, h b))).devs = s.devs := by
  have : ∀ (todo done : List (String × Bundler)) (t : EState),
      (forBundlers.go (fun s b => (s, h b)) t todo done).devs = t.devs := by
    intro todo
    induction todo with
    | nil => intro done t; rfl
    | cons kb rest ih => intro done t; unfold forBundlers.go; simp only []; rw [ih]
  exact this _ _ _

@[simp] theorem subsOf_resetCheckpointMeth (s : EState) (n : String) : subsOf (resetCheckpointMeth s) n = subsOf s n := by
  unfold resetCheckpointMeth; split
  · rfl
  · exact subsOf_of_devs (devs_forBundlers_pure _ _) n

@[simp] theorem subsOf_stopMovables (s : EState) (n : String) : subsOf (stopMovables s) n = subsOf s n := by
  unfold stopMovables
  apply subsOf_foldl
  intro s a n
  simp

theorem subsOf_pauseStep (s : EState) (a n : String) : subsOf (pauseStep s a) n = subsOf s n := by
  unfold pauseStep
  split
  · split
    · simp only []; split <;> simp
    · rfl
  · rfl

@[simp] theorem subsOf_pauseHooks (s : EState) (n : String) : subsOf (pauseHooks s) n = subsOf s n := by
  rw [pauseHooks_eq]; exact subsOf_foldl _ subsOf_pauseStep _ _ _

@[simp] theorem subsOf_resumeHooks (s : EState) (n : String) : subsOf (resumeHooks s) n = subsOf s n := by
  unfold resumeHooks
  apply subsOf_foldl
  intro s a n
  split
  · split <;> rfl
  · rfl

@[simp] theorem subsOf_rewindPlan (s : EState) (n : String) : subsOf (rewindPlan s).2 n = subsOf s n := by
  unfold rewindPlan
  simp only []
  split
  · rfl
  · exact subsOf_of_devs (devs_forBundlers_pure _ _) n

theorem setState_subsOf {s s' : EState} {st : St} (h : setState s st = .ok s') (n : String) : subsOf s' n = subsOf s n := by
  unfold setState at h; split at h
  · cases h; rfl
  · cases h

/-! ## suspend_monitors / restore_monitors, one monitor at a time -/

/-- `obj.clear_sub(cb)` for the monitor (sig ↦ stream) of run `rid` -/
def suspStep (rid : Nat) (s : EState) (ms : String × String) : EState :=
  let d := devOf s ms.1
  setDev (s.logCall { dev := ms.1, op := "clear_sub" }) ms.1 { d with subs := d.subs.filter (· != (rid, ms.2)) }

/-- `obj.subscribe(cb)` for the monitor (sig ↦ stream) of run `rid` -/
def restStep (rid : Nat) (s : EState) (ms : String × String) : EState :=
  let d := devOf s ms.1
  setDev (s.logCall { dev := ms.1, op := "subscribe" }) ms.1 { d with subs := d.subs ++ [(rid, ms.2)] }

theorem suspendMonitors_eq (s : EState) (b : Bundler) : suspendMonitors s b = (b.monitors.foldl (suspStep b.runId) s, b) := rfl
theorem restoreMonitors_eq (s : EState) (b : Bundler) : restoreMonitors s b = (b.monitors.foldl (restStep b.runId) s, b) := rfl

theorem subsOf_suspStep (rid : Nat) (s : EState) (ms : String × String) (n : String) :
    subsOf (suspStep rid s ms) n = if ms.1 = n then (subsOf s n).filter (· != (rid, ms.2)) else subsOf s n := by
  unfold suspStep subsOf
  simp only []
  split
  · rename_i h; subst h; rw [devOf_setDev_same]
  · rename_i h; rw [devOf_setDev_ne _ _ _ _ h]; rfl

theorem subsOf_restStep (rid : Nat) (s : EState) (ms : String × String) (n : String) :
    subsOf (restStep rid s ms) n = subsOf s n ++ (if ms.1 = n then [(rid, ms.2)] else []) := by
  unfold restStep subsOf
  simp only []
  split
  · rename_i h; subst h; rw [devOf_setDev_same]
  · rename_i h; rw [devOf_setDev_ne _ _ _ _ h]; simp

/-- after `suspend_monitors`: exactly the registrations of this run's monitors are gone (every copy) -/
theorem mem_subsOf_foldl_suspStep (rid : Nat) (l : List (String × String)) (s : EState) (n : String) (p : Nat × String) :
    p ∈ subsOf (l.foldl (suspStep rid) s) n ↔ p ∈ subsOf s n ∧ ¬ ∃ st, (n, st) ∈ l ∧ p = (rid, st) := by
  induction l generalizing s with
  | nil => simp
  | cons ms l ih =>
    rw [List.foldl_cons, ih, subsOf_suspStep]
    obtain ⟨sig, stream⟩ := ms
    by_cases h : sig = n
    · subst h
      simp only [if_true, List.mem_filter, bne_iff_ne, ne_eq, List.mem_cons, Prod.mk.injEq, true_and]
      constructor
      · rintro ⟨⟨h1, h2⟩, h3⟩
        refine ⟨h1, ?_⟩
        rintro ⟨st, (hst | hst), hp⟩
        · subst hst; exact h2 hp
        · exact h3 ⟨st, hst, hp⟩
      · rintro ⟨h1, h2⟩
        refine ⟨⟨h1, ?_⟩, ?_⟩
        · intro hp; exact h2 ⟨stream, Or.inl rfl, hp⟩
        · rintro ⟨st, hst, hp⟩; exact h2 ⟨st, Or.inr hst, hp⟩
    · have h' : ¬ n = sig := fun e => h e.symm
      simp only [h, if_false, List.mem_cons, Prod.mk.injEq, h', false_and, false_or]

theorem subsOf_foldl_restStep (rid : Nat) (l : List (String × String)) (s : EState) (n : String) :
    subsOf (l.foldl (restStep rid) s) n = subsOf s n ++ (l.filter (fun ms => ms.1 == n)).map (fun ms => (rid, ms.2)) := by
  induction l generalizing s with
  | nil => simp
  | cons ms l ih =>
    rw [List.foldl_cons, ih, subsOf_restStep]
    by_cases h : ms.1 = n
    · simp [h]
    · have : (ms.1 == n) = false := by simpa using h
      simp [h, this]

theorem mem_subsOf_suspendMonitors (s : EState) (b : Bundler) (n : String) (p : Nat × String) :
    p ∈ subsOf (suspendMonitors s b).1 n ↔ p ∈ subsOf s n ∧ ¬ ∃ st, (n, st) ∈ b.monitors ∧ p = (b.runId, st) := by
  rw [suspendMonitors_eq]; exact mem_subsOf_foldl_suspStep _ _ _ _ _

theorem subsOf_restoreMonitors (s : EState) (b : Bundler) (n : String) :
    subsOf (restoreMonitors s b).1 n =
      subsOf s n ++ (b.monitors.filter (fun ms => ms.1 == n)).map (fun ms => (b.runId, ms.2)) := by
  rw [restoreMonitors_eq]; exact subsOf_foldl_restStep _ _ _ _

end BlueskyVerif.Engine
