/-
Helper lemmas for C44: np.interp over the index grid, centre of mass, edge sums, means of crossings,
ordering of the crossings.
-/
import BlueskyVerif.Lemmas.C44Cross

set_option linter.unusedSimpArgs false

namespace BlueskyVerif.PeakStats

/-! ### np.interp(c, arange(n), x) -/

theorem interpIdx_in_range {n : Nat} {x : Vec} (hm : StrictMonotonic n x) (hn : 1 ≤ n) (c : Rat) :
    xLo n x ≤ interpIdx n x c ∧ interpIdx n x c ≤ xHi n x := by
  unfold interpIdx
  by_cases h0 : c ≤ 0
  · simp only [h0, if_true]; exact sample_in_range hm hn (by omega)
  · simp only [h0, if_false]
    by_cases h1 : ((n - 1 : Nat) : Rat) ≤ c
    · simp only [h1, if_true]; exact sample_in_range hm hn (by omega)
    · simp only [h1, if_false]
      have hc0 : 0 < c := lt_of_not_ge h0
      have hc1 : c < ((n - 1 : Nat) : Rat) := lt_of_not_ge h1
      have hfl0 : 0 ≤ c.floor := by
        rw [Rat.le_floor_iff]; exact_mod_cast le_of_lt hc0
      have hj : ((c.floor.toNat : Nat) : Rat) = ((c.floor : Int) : Rat) := by
        have : ((c.floor.toNat : Nat) : Int) = c.floor := Int.toNat_of_nonneg hfl0
        exact_mod_cast congrArg (fun z : Int => (z : Rat)) this
      have hfl1 : c.floor < ((n - 1 : Nat) : Int) := by
        rw [Rat.floor_lt_iff]; exact_mod_cast hc1
      have hjn : c.floor.toNat + 1 < n := by omega
      have hlo : ((c.floor.toNat : Nat) : Rat) ≤ c := by rw [hj]; exact Rat.floor_le c
      have hhi : c < ((c.floor.toNat : Nat) : Rat) + 1 := by
        rw [hj]; have := Rat.lt_floor_add_one c; push_cast at this; exact this
      have hden : (((c.floor.toNat + 1 : Nat) : Rat) - ((c.floor.toNat : Nat) : Rat)) = 1 := by push_cast; ring
      rw [hden, div_one]
      have hb := between_of_param (x c.floor.toNat) (x (c.floor.toNat + 1)) (c - (c.floor.toNat : Rat))
        (by linarith) (by linarith)
      have e : (x (c.floor.toNat + 1) - x c.floor.toNat) * (c - (c.floor.toNat : Rat)) + x c.floor.toNat
          = x c.floor.toNat + (c - (c.floor.toNat : Rat)) * (x (c.floor.toNat + 1) - x c.floor.toNat) := by ring
      rw [e]
      have r1 := sample_in_range hm hn (show c.floor.toNat < n by omega)
      have r2 := sample_in_range hm hn hjn
      rcases hb with ⟨a, b⟩ | ⟨a, b⟩ <;> constructor <;> linarith

/-- the centre of mass is NaN exactly when there are at least two points and both sums vanish -/
theorem com_eq_none_iff (n : Nat) (x y : Vec) :
    com n x y = none ↔ n ≠ 1 ∧ sumFrom y 0 n = 0 ∧ sumFrom (weighted y) 0 n = 0 := by
  unfold com
  by_cases h1 : n = 1
  · simp [h1]
  · by_cases hs : sumFrom y 0 n = 0
    · by_cases hw : sumFrom (weighted y) 0 n = 0
      · simp [h1, hs, hw]
      · by_cases hp : 0 < sumFrom (weighted y) 0 n <;> simp [h1, hs, hw, hp]
    · simp [h1, hs]

theorem com_in_range {n : Nat} {x y : Vec} (hm : StrictMonotonic n x) (hn : 1 ≤ n) {c : Rat}
    (h : com n x y = some c) : xLo n x ≤ c ∧ c ≤ xHi n x := by
  unfold com at h
  by_cases h1 : n = 1
  · simp only [h1, if_true, Option.some.injEq] at h
    rw [← h]; exact sample_in_range hm hn (by omega)
  · simp only [h1, if_false] at h
    by_cases hs : sumFrom y 0 n = 0
    · simp only [hs, if_true] at h
      by_cases hw : sumFrom (weighted y) 0 n = 0
      · simp [hw] at h
      · simp only [hw, if_false] at h
        by_cases hp : 0 < sumFrom (weighted y) 0 n
        · simp only [hp, if_true, Option.some.injEq] at h
          rw [← h]; exact sample_in_range hm hn (by omega)
        · simp only [hp, if_false, Option.some.injEq] at h
          rw [← h]; exact sample_in_range hm hn (by omega)
    · simp only [hs, if_false, Option.some.injEq] at h
      rw [← h]; exact interpIdx_in_range hm hn _

/-! ### edge sums: the background slope is well defined -/

theorem sumFrom_lt (x : Vec) (a b : Nat) (k : Nat) (hk : 1 ≤ k) (h : ∀ i, i < k → x (a + i) < x (b + i)) :
    sumFrom x a k < sumFrom x b k := by
  induction k with
  | zero => omega
  | succ k ih =>
    simp only [sumFrom]
    rcases Nat.eq_zero_or_pos k with h0 | hpos
    · subst h0; simp only [sumFrom]; have := h 0 (by omega); linarith
    · have := ih hpos (fun i hi => h i (by omega))
      have := h k (by omega)
      linarith

theorem bkg_isSome {n e : Nat} {x : Vec} (y : Vec) (hm : StrictMonotonic n x) (h1 : 1 ≤ e) (h2 : e < n) :
    ∃ bk, bkg n e x y = some bk := by
  have hmin : min e n = e := by omega
  have he : ((e : Nat) : Rat) ≠ 0 := by exact_mod_cast (by omega : e ≠ 0)
  have hne : sumFrom x (n - e) e / (e : Rat) - sumFrom x 0 e / (e : Rat) ≠ 0 := by
    rw [← sub_div]
    intro h
    rcases (div_eq_zero_iff.mp h) with h | h
    · rcases hm with hm | hm
      · have := sumFrom_lt x 0 (n - e) e h1 (fun i hi => by
          have := hm (0 + i) (n - e + i) (by omega) (by omega); exact this)
        linarith
      · have := sumFrom_lt x (n - e) 0 e h1 (fun i hi => by
          have := hm (0 + i) (n - e + i) (by omega) (by omega); exact this)
        linarith
    · exact he h
  unfold bkg
  simp only [hmin]
  have hc : ¬ (e = 0 ∨ sumFrom x (n - e) e / (e : Rat) - sumFrom x 0 e / (e : Rat) = 0) := by
    rintro (h | h)
    · omega
    · exact hne h
  simp only [hc, if_false]
  exact ⟨_, rfl⟩

/-! ### mean of the crossings -/

theorem listSum_bounds (l : List Rat) (lo hi : Rat) (h : ∀ c ∈ l, lo ≤ c ∧ c ≤ hi) :
    (l.length : Rat) * lo ≤ listSum l ∧ listSum l ≤ (l.length : Rat) * hi := by
  induction l with
  | nil => simp [listSum]
  | cons a as ih =>
    have ha := h a (by simp)
    have ih' := ih (fun c hc => h c (List.mem_cons_of_mem _ hc))
    simp only [listSum, List.length_cons]
    push_cast
    constructor <;> nlinarith [ha.1, ha.2, ih'.1, ih'.2]

theorem mean_in_range (l : List Rat) (lo hi : Rat) (hne : l ≠ []) (h : ∀ c ∈ l, lo ≤ c ∧ c ≤ hi) :
    lo ≤ listSum l / (l.length : Rat) ∧ listSum l / (l.length : Rat) ≤ hi := by
  have hpos : (0 : Rat) < (l.length : Rat) := by
    have : 0 < l.length := List.length_pos_of_ne_nil hne
    exact_mod_cast this
  obtain ⟨h1, h2⟩ := listSum_bounds l lo hi h
  constructor
  · rw [le_div_iff₀ hpos]; linarith
  · rw [div_le_iff₀ hpos]; linarith

/-! ### the crossings are ordered along x -/

theorem sorted_le_last (l : List Rat) (d : Rat) (h : l.Pairwise (· ≤ ·)) : ∀ c ∈ l, c ≤ l.getLastD d := by
  induction l generalizing d with
  | nil => simp
  | cons a as ih =>
    rw [List.pairwise_cons] at h
    intro c hc
    rw [List.getLastD_cons]
    rcases List.mem_cons.mp hc with rfl | hc
    · cases as with
      | nil => simp
      | cons b bs =>
        rw [List.getLastD_cons]
        exact h.1 _ List.getLastD_mem_cons
    · exact ih a h.2 c hc

theorem sorted_le_bounds (l : List Rat) (h : l.Pairwise (· ≤ ·)) : ∀ c ∈ l, l.headD 0 ≤ c ∧ c ≤ l.getLastD 0 := by
  intro c hc
  refine ⟨?_, sorted_le_last l 0 h c hc⟩
  cases l with
  | nil => simp at hc
  | cons a as =>
    rw [List.pairwise_cons] at h
    simp only [List.headD_cons]
    rcases List.mem_cons.mp hc with rfl | hc
    · exact le_refl _
    · exact h.1 c hc

theorem getLastD_map_neg (l : List Rat) (d : Rat) : (l.map (fun q => -q)).getLastD (-d) = -(l.getLastD d) := by
  induction l generalizing d with
  | nil => simp
  | cons a as ih => simp only [List.map_cons, List.getLastD_cons]; exact ih a

theorem sorted_ge_bounds (l : List Rat) (h : l.Pairwise (· ≥ ·)) : ∀ c ∈ l, l.getLastD 0 ≤ c ∧ c ≤ l.headD 0 := by
  intro c hc
  have hneg : (l.map (fun q => -q)).Pairwise (· ≤ ·) := by
    rw [List.pairwise_map]; exact h.imp (fun hab => neg_le_neg hab)
  have := sorted_le_bounds _ hneg (-c) (List.mem_map.mpr ⟨c, hc, rfl⟩)
  have hl : (l.map (fun q => -q)).getLastD 0 = -(l.getLastD 0) := by
    have := getLastD_map_neg l 0
    simpa using this
  have hh : (l.map (fun q => -q)).headD 0 = -(l.headD 0) := by cases l <;> simp
  rw [hl, hh] at this
  constructor <;> linarith [this.1, this.2]

end BlueskyVerif.PeakStats
