/-
Lemmas/C20.lean -- msg_mutator / plan_mutator with a processor that changes nothing simulate the
wrapped plan (instances of `Simulates` from Lemmas/Gen.lean).
-/
import BlueskyVerif.Gen.Mutators
import BlueskyVerif.Lemmas.Gen

namespace BlueskyVerif.Gen
set_option linter.unusedSectionVars false

section
variable {M ι R V E : Type} [Inhabited R] [DecidableEq R] [Inhabited V] [PyExc E] [DecidableEq ι]

theorem close_some_not_genExit (p : Pos M R V E) (x : E) (h : p.close.1 = some x) :
    isGenExit x = false := by
  unfold Pos.close at h
  split at h
  · simp at h
  · simp at h
  · split at h
    · simp at h; subst h
      exact PyExc.exception_not_genExit _ PyExc.closeIgnored_isException
    · simp at h
    · rename_i e p' _
      by_cases hg : isGenExit e = true
      · simp [hg] at h
      · simp [hg] at h; subst h; simpa using hg

/-! ### the extracted except-clause tables, as the proofs need them -/

theorem mmYield_genExit (e : E) (h : isGenExit e = true) :
    firstMatch Generated.mmYieldClauses e = some .genExit := by
  simp [firstMatch, Generated.mmYieldClauses, Clause.matches, h]

theorem mmYield_other (e : E) (h : isGenExit e = false) :
    firstMatch Generated.mmYieldClauses e = some .baseException := by
  simp [firstMatch, Generated.mmYieldClauses, Clause.matches, h]

theorem pmYield_genExit (e : E) (h : isGenExit e = true) :
    firstMatch Generated.pmYieldClauses e = some .genExit := by
  simp [firstMatch, Generated.pmYieldClauses, Clause.matches, h]

theorem pmYield_exception (e : E) (h : isException e = true) :
    firstMatch Generated.pmYieldClauses e = some .exception := by
  simp [firstMatch, Generated.pmYieldClauses, Clause.matches, h,
    PyExc.exception_not_genExit e h]

theorem pmYield_other (e : E) (h1 : isException e = false) (h2 : isGenExit e = false) :
    firstMatch Generated.pmYieldClauses e = none := by
  simp [firstMatch, Generated.pmYieldClauses, Clause.matches, h1, h2]

theorem pmThrow_caught (x : E) : caughtBy Generated.pmThrowClauses x = isException x := by
  cases h : isException x <;>
    simp [caughtBy, firstMatch, Generated.pmThrowClauses, Clause.matches, h]

theorem pmSend_caught (x : E) : caughtBy Generated.pmSendClauses x = isException x := by
  cases h : isException x <;>
    simp [caughtBy, firstMatch, Generated.pmSendClauses, Clause.matches, h]

/-! ### msg_mutator -/

theorem mmGo_some (f : Nat) (o : Out M V E) (q : Pos M R V E) :
    mmGo (M' := M) some (f + 1) (o, q) = (o, if o.isYld then .atYield q else .fin) := by
  cases o <;> simp [mmGo, Out.isYld]

/-- suspended msg_mutator holds exactly the wrapped generator -/
def mmT (s : MMSt M R V E) (q : Pos M R V E) : Prop := s = .atYield q

theorem mm_simulates (f : Nat) (p : Beh M R V E) :
    Simulates (mmStep (f + 1) (some : M → Option M) p) .init p mmT
      (fun e => isGenExit e = false) where
  start := by
    simp only [mmStep]
    generalize (Pos.new p).resume (.send default) = r
    obtain ⟨o, q⟩ := r
    rw [mmGo_some]
    refine ⟨rfl, fun h => ?_⟩
    simp only at h
    simp [mmT, h]
  next := by
    intro s q i hT hq hi
    cases hT
    cases i with
    | send r =>
      simp only [mmStep]
      generalize q.resume (.send r) = r'
      obtain ⟨o, q'⟩ := r'
      rw [mmGo_some]
      refine ⟨rfl, fun h => ?_⟩
      simp only at h
      simp [mmT, h]
    | throw e =>
      have he := hi e rfl
      simp only [mmStep, mmYield_other e he]
      generalize q.resume (.throw e) = r'
      obtain ⟨o, q'⟩ := r'
      rw [mmGo_some]
      refine ⟨rfl, fun h => ?_⟩
      simp only at h
      simp [mmT, h]
  close := by
    intro s q hT hq
    cases hT
    simp only [mmStep, mmYield_genExit _ PyExc.genExit_isGenExit]
    cases hc : q.close with
    | mk o q' =>
      cases o with
      | none => simp [closeObs, PyExc.genExit_isGenExit]
      | some x =>
        have := close_some_not_genExit q x (by rw [hc])
        simp [closeObs, this]

/-! ### plan_mutator -/

/-- suspended plan_mutator (with the do-nothing processor): the stacks hold exactly the wrapped
    generator, everything else is empty -/
def pmT (s : PMSt M ι R V E) (q : Pos M R V E) : Prop :=
  ∃ pm : PM M ι R V E, s = .atYield pm ∧ pm.planStack = [(0, q)] ∧ pm.resultStack = [] ∧
    pm.tailCache = [] ∧ pm.tailResultCache = [] ∧ pm.exception = none

/-- the state after `msg` went through the do-nothing processor -/
def pmSee (key : M → ι) (s : PM M ι R V E) (msg : M) : PM M ι R V E :=
  if s.msgsSeen.contains (key msg) then s
  else { s with msgsSeen := key msg :: s.msgsSeen, procLog := s.procLog ++ [msg] }

theorem pmProcess_nothing (key : M → ι) (s : PM M ι R V E) (msg : M) :
    pmProcess key Proc.nothing s msg = .yield msg (pmSee key s msg) := by
  unfold pmProcess pmSee
  split <;> rfl

@[simp] theorem pmSee_planStack (key : M → ι) (s : PM M ι R V E) (msg : M) :
    (pmSee key s msg).planStack = s.planStack := by unfold pmSee; split <;> rfl
@[simp] theorem pmSee_resultStack (key : M → ι) (s : PM M ι R V E) (msg : M) :
    (pmSee key s msg).resultStack = s.resultStack := by unfold pmSee; split <;> rfl
@[simp] theorem pmSee_tailCache (key : M → ι) (s : PM M ι R V E) (msg : M) :
    (pmSee key s msg).tailCache = s.tailCache := by unfold pmSee; split <;> rfl
@[simp] theorem pmSee_tailResultCache (key : M → ι) (s : PM M ι R V E) (msg : M) :
    (pmSee key s msg).tailResultCache = s.tailResultCache := by unfold pmSee; split <;> rfl
@[simp] theorem pmSee_exception (key : M → ι) (s : PM M ι R V E) (msg : M) :
    (pmSee key s msg).exception = s.exception := by unfold pmSee; split <;> rfl

theorem pmExhausted_parent_alone (s : PM M ι R V E) (v : V) (htc : s.tailCache = []) :
    pmExhausted s 0 [] v = .ret v := by
  simp [pmExhausted, htc, dictGet]

/-- one loop iteration in the `send` branch, when only the wrapped plan is on the stack -/
theorem pmLoop_id_send (key : M → ι) (f : Nat) (pm : PM M ι R V E) (q : Pos M R V E) (r : R)
    (hps : pm.planStack = [(0, q)]) (hrs : pm.resultStack = [r]) (htc : pm.tailCache = [])
    (htrc : pm.tailResultCache = []) (hex : pm.exception = none) :
    ∃ st, pmLoop key Proc.nothing (f + 1) pm = ((q.resume (.send r)).1, st) ∧
      ((q.resume (.send r)).1.isYld = true → pmT st (q.resume (.send r)).2) := by
  unfold pmLoop pmIter
  simp only [hex, hrs, hps]
  unfold pmOnSend
  cases hres : q.resume (.send r) with
  | mk o q' =>
    cases o with
    | yld m =>
      simp only [pmProcess_nothing]
      exact ⟨_, rfl, fun _ => ⟨_, rfl, by simp, by simp, by simp [htc], by simp [htrc], by simp⟩⟩
    | ret v =>
      simp only []
      rw [pmExhausted_parent_alone _ _ (by exact htc)]
      exact ⟨_, rfl, by simp [Out.isYld]⟩
    | raise x =>
      by_cases hx : isException x = true
      · simp only [pmSend_caught, hx, ↓reduceIte, htc, dictGet, List.find?_nil, Option.map_none,
          List.isEmpty_nil]
        exact ⟨_, rfl, by simp [Out.isYld]⟩
      · simp only [pmSend_caught, hx]
        exact ⟨_, rfl, by simp [Out.isYld]⟩

/-- one loop iteration in the `throw` branch, when only the wrapped plan is on the stack -/
theorem pmLoop_id_throw (key : M → ι) (f : Nat) (pm : PM M ι R V E) (q : Pos M R V E) (e : E)
    (hps : pm.planStack = [(0, q)]) (hrs : pm.resultStack = []) (htc : pm.tailCache = [])
    (htrc : pm.tailResultCache = []) (hex : pm.exception = some e) :
    ∃ st, pmLoop key Proc.nothing (f + 1) pm = ((q.resume (.throw e)).1, st) ∧
      ((q.resume (.throw e)).1.isYld = true → pmT st (q.resume (.throw e)).2) := by
  unfold pmLoop pmIter
  simp only [hex, hps]
  unfold pmOnThrow
  cases hres : q.resume (.throw e) with
  | mk o q' =>
    cases o with
    | yld m =>
      simp only [pmProcess_nothing]
      exact ⟨_, rfl, fun _ => ⟨_, rfl, by simp, by simp [hrs], by simp [htc], by simp [htrc],
        by simp⟩⟩
    | ret v =>
      simp only []
      rw [pmExhausted_parent_alone _ _ (by exact htc)]
      exact ⟨_, rfl, by simp [Out.isYld]⟩
    | raise x =>
      by_cases hx : isException x = true
      · simp only [pmThrow_caught, hx, ↓reduceIte, List.isEmpty_nil]
        exact ⟨_, rfl, by simp [Out.isYld]⟩
      · simp only [pmThrow_caught, hx]
        exact ⟨_, rfl, by simp [Out.isYld]⟩

theorem pm_simulates (f : Nat) (key : M → ι) (p : Beh M R V E) :
    Simulates (pmStep (f + 1) key Proc.nothing p) .init p pmT
      (fun e => isException e = true) where
  start := by
    simp only [pmStep]
    obtain ⟨st, h1, h2⟩ := pmLoop_id_send key f (pmInit (ι := ι) p) (Pos.new p) default
      rfl rfl rfl rfl rfl
    rw [h1]; exact ⟨rfl, h2⟩
  next := by
    intro s q i hT hq hi
    obtain ⟨pm, rfl, hps, hrs, htc, htrc, hex⟩ := hT
    cases i with
    | send r =>
      simp only [pmStep, pmResume]
      obtain ⟨st, h1, h2⟩ := pmLoop_id_send key f { pm with resultStack := r :: pm.resultStack }
        q r hps (by simp [hrs]) htc htrc hex
      rw [h1]; exact ⟨rfl, h2⟩
    | throw e =>
      have he : isException e = true := hi e rfl
      have hg := PyExc.exception_not_genExit e he
      have hne : pm.planStack.isEmpty = false := by simp [hps]
      simp only [pmStep, pmResume, pmYield_exception e he, hne, Bool.false_eq_true, ↓reduceIte]
      obtain ⟨st, h1, h2⟩ := pmLoop_id_throw key f { pm with exception := some e }
        q e hps hrs htc htrc rfl
      rw [h1]; exact ⟨rfl, h2⟩
  close := by
    intro s q hT hq
    obtain ⟨pm, rfl, hps, hrs, htc, htrc, hex⟩ := hT
    simp only [pmStep, pmResume, pmYield_genExit _ PyExc.genExit_isGenExit, hps, List.reverse_cons,
      List.reverse_nil, List.nil_append, closeAll]
    cases hc : q.close with
    | mk o q' =>
      cases o with
      | none => simp [closeObs, PyExc.genExit_isGenExit]
      | some x =>
        have := close_some_not_genExit q x (by rw [hc])
        simp [closeObs, this]

/-! ### GeneratorExit thrown into the wrapper -/

/-- What both wrappers answer when a GeneratorExit `e` is thrown in while they hold the wrapped
    generator `q`: they `close()` it; if that raises, that exception comes out, else `e`. -/
def genExitAnswer (q : Pos M R V E) (e : E) : Out M V E :=
  match q.close.1 with
  | some x => .raise x
  | none => .raise e

theorem mm_genexit (f : Nat) (p : Beh M R V E) (q : Pos M R V E) (e : E)
    (he : isGenExit e = true) :
    (mmStep (f + 1) (some : M → Option M) p (.atYield q) (.throw e)).1 = genExitAnswer q e := by
  simp only [mmStep, mmYield_genExit e he, genExitAnswer]
  cases hc : q.close with
  | mk o q' => cases o <;> rfl

theorem pm_genexit (f : Nat) (key : M → ι) (p : Beh M R V E) (s : PMSt M ι R V E)
    (q : Pos M R V E) (hT : pmT s q) (e : E) (he : isGenExit e = true) :
    (pmStep (f + 1) key Proc.nothing p s (.throw e)).1 = genExitAnswer q e := by
  obtain ⟨pm, rfl, hps, -⟩ := hT
  simp only [pmStep, pmResume, pmYield_genExit e he, hps, List.reverse_cons, List.reverse_nil,
    List.nil_append, closeAll, genExitAnswer]
  cases hc : q.close with
  | mk o q' => cases o <;> rfl

/-- the plan lets every GeneratorExit through unchanged (does not catch it, or re-raises it;
    in particular it does not yield, return or raise something else in a `finally`) -/
def GenExitTransparent (p : Beh M R V E) : Prop :=
  ∀ hist e, isGenExit e = true → p (hist ++ [.throw e]) = .raise e

theorem transparent_answers (p : Beh M R V E) (hp : GenExitTransparent p) (q : Pos M R V E)
    (hq : q.status = .live) (hb : q.beh = p) (e : E) (he : isGenExit e = true) :
    genExitAnswer q e = (q.resume (.throw e)).1 ∧ (q.resume (.throw e)).1.isYld = false := by
  have h1 : (q.resume (.throw e)).1 = .raise e := by
    rw [resume_live q hq]; simp [Pos.advance, hb, hp _ e he]
  have h2 : q.close.1 = none := by
    rw [close_live q hq]
    simp [Pos.advance, hb, hp _ _ PyExc.genExit_isGenExit, closeObs, PyExc.genExit_isGenExit]
  simp [genExitAnswer, h1, h2, Out.isYld]

end
end BlueskyVerif.Gen
