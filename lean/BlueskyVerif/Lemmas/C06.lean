/-
C06 helper lemmas.  `dv s` = (_staged, _movable_objs_touched, the set / stage / unstage entries of the
device ledger): the part of the state the staging / motion bookkeeping is about.  Frame lemmas `dv_X`
(like `ctl_X` in EngineFrame.lean) show which operations leave it alone.
-/
import BlueskyVerif.Lemmas.C41Cmds

namespace BlueskyVerif.Engine

/-- ledger entries of the operations whose undoing C06 is about -/
def keyOp (c : Call) : Bool := c.op == "set" || c.op == "stage" || c.op == "unstage"

structure Dv where
  staged : List String
  moved : List String
  keyCalls : List Call

def dv (s : EState) : Dv := { staged := s.staged, moved := s.moved, keyCalls := s.calls.filter keyOp }

theorem dv_logCall_quiet (s : EState) (c : Call) (h : keyOp c = false) : dv (s.logCall c) = dv s := by
  simp [dv, EState.logCall, List.filter_append, h]

@[simp] theorem dv_emit (s : EState) (d : Doc) : dv (s.emit d) = dv s := rfl
@[simp] theorem dv_setDev (s : EState) (n : String) (d : DevState) : dv (setDev s n d) = dv s := rfl
@[simp] theorem dv_nextMode (s : EState) (n op : String) : dv (nextMode s n op).2 = dv s := rfl
@[simp] theorem dv_putBundler (s : EState) (m : Msg) (b : Bundler) : dv (putBundler s m b) = dv s := rfl
@[simp] theorem dv_emitEvent (s : EState) (b : Bundler) (st : String) (d : List (String × Int)) (n : String) :
    dv (emitEvent s b st d n).1 = dv s := rfl
@[simp] theorem dv_prepareStream (s : EState) (b : Bundler) (st : String) (o : List String) : dv (prepareStream s b st o).1 = dv s := rfl
@[simp] theorem dv_newStatus (s : EState) (d o m : String) (g : Option String) : dv (newStatus s d o m g).2 = dv s := rfl
@[simp] theorem dv_logCall_stop (s : EState) (n : String) : dv (s.logCall { dev := n, op := "stop" }) = dv s := dv_logCall_quiet _ _ rfl
@[simp] theorem dv_logCall_pause (s : EState) (n : String) : dv (s.logCall { dev := n, op := "pause" }) = dv s := dv_logCall_quiet _ _ rfl
@[simp] theorem dv_logCall_resume (s : EState) (n : String) : dv (s.logCall { dev := n, op := "resume" }) = dv s := dv_logCall_quiet _ _ rfl
@[simp] theorem dv_logCall_clear (s : EState) (n : String) : dv (s.logCall { dev := n, op := "clear_sub" }) = dv s := dv_logCall_quiet _ _ rfl
@[simp] theorem dv_logCall_subscribe (s : EState) (n : String) : dv (s.logCall { dev := n, op := "subscribe" }) = dv s := dv_logCall_quiet _ _ rfl
@[simp] theorem dv_logCall_trigger (s : EState) (n : String) (r : Bool) :
    dv (s.logCall { dev := n, op := "trigger", raised := r }) = dv s := dv_logCall_quiet _ _ rfl
@[simp] theorem dv_logCall_read (s : EState) (n : String) (a : Option Int) (r : Bool) :
    dv (s.logCall { dev := n, op := "read", arg := a, raised := r }) = dv s := dv_logCall_quiet _ _ rfl

theorem dv_foldl {α} (f : EState → α → EState) (h : ∀ s a, dv (f s a) = dv s) (l : List α) (s : EState) :
    dv (l.foldl f s) = dv s := by
  induction l generalizing s with
  | nil => rfl
  | cons a l ih => rw [List.foldl_cons, ih, h]

theorem dv_forBundlers_go (f : EState → Bundler → EState × Bundler) (h : ∀ s b, dv (f s b).1 = dv s)
    (todo done : List (String × Bundler)) (s : EState) : dv (forBundlers.go f s todo done) = dv s := by
  induction todo generalizing s done with
  | nil => rfl
  | cons kb rest ih =>
    obtain ⟨k, b⟩ := kb
    unfold forBundlers.go
    simp only []
    rw [ih]; exact h s b

theorem dv_forBundlers (f : EState → Bundler → EState × Bundler) (h : ∀ s b, dv (f s b).1 = dv s) (s : EState) :
    dv (forBundlers s f) = dv s := dv_forBundlers_go f h _ _ s

@[simp] theorem dv_forBundlers_pure (s : EState) (g : Bundler → Bundler) : dv (forBundlers s (fun s b => (s, g b))) = dv s :=
  dv_forBundlers _ (fun _ _ => rfl) s

@[simp] theorem dv_recordInterruption (s : EState) (b : Bundler) (c : String) : dv (recordInterruption s b c).1 = dv s := by
  unfold recordInterruption; split <;> rfl

@[simp] theorem dv_forBundlers_record (s : EState) (c : String) : dv (forBundlers s (fun s b => recordInterruption s b c)) = dv s :=
  dv_forBundlers _ (fun s b => dv_recordInterruption s b c) s

@[simp] theorem dv_suspendMonitors (s : EState) (b : Bundler) : dv (suspendMonitors s b).1 = dv s := by
  unfold suspendMonitors; apply dv_foldl; intro s x; simp

@[simp] theorem dv_restoreMonitors (s : EState) (b : Bundler) : dv (restoreMonitors s b).1 = dv s := by
  unfold restoreMonitors; apply dv_foldl; intro s x; simp

@[simp] theorem dv_clearMonitors (s : EState) (b : Bundler) : dv (clearMonitors s b).1 = dv s := by
  unfold clearMonitors; simp

@[simp] theorem dv_closeRunDoc (s : EState) (b : Bundler) (e r : String) : dv (closeRunDoc s b e r).1 = dv s := by
  unfold closeRunDoc; simp

@[simp] theorem dv_forBundlers_suspend (s : EState) : dv (forBundlers s suspendMonitors) = dv s := dv_forBundlers _ dv_suspendMonitors s
@[simp] theorem dv_forBundlers_restore (s : EState) : dv (forBundlers s restoreMonitors) = dv s := dv_forBundlers _ dv_restoreMonitors s
@[simp] theorem dv_forBundlers_clear (s : EState) : dv (forBundlers s clearMonitors) = dv s := dv_forBundlers _ dv_clearMonitors s

@[simp] theorem dv_resetCheckpointMeth (s : EState) : dv (resetCheckpointMeth s) = dv s := by
  unfold resetCheckpointMeth; split
  · rfl
  · rw [dv_forBundlers_pure]; rfl

@[simp] theorem dv_stopMovables (s : EState) : dv (stopMovables s) = dv s := by
  unfold stopMovables; apply dv_foldl; intro s x; simp

theorem dv_pauseStep (s : EState) (n : String) : dv (pauseStep s n) = dv s := by
  unfold pauseStep
  split
  · split
    · simp only []; split <;> simp
    · rfl
  · rfl

@[simp] theorem dv_pauseHooks (s : EState) : dv (pauseHooks s) = dv s := by
  rw [pauseHooks_eq]; exact dv_foldl _ dv_pauseStep _ _

@[simp] theorem dv_resumeHooks (s : EState) : dv (resumeHooks s) = dv s := by
  unfold resumeHooks
  apply dv_foldl
  intro s n
  split
  · split
    · simp
    · rfl
  · rfl

@[simp] theorem dv_rewindPlan (s : EState) : dv (rewindPlan s).2 = dv s := by
  unfold rewindPlan
  simp only []
  split
  · rfl
  · rw [dv_forBundlers_pure]; rfl

theorem setState_dv {s s' : EState} {n : St} (h : setState s n = .ok s') : dv s' = dv s := by
  unfold setState at h; split at h
  · cases h; rfl
  · cases h

theorem requestPause_dv {s s' : EState} {d : Bool} (h : requestPause s d = .ok s') : dv s' = dv s := by
  unfold requestPause at h
  split at h
  · cases h
  · split at h
    · cases h; rfl
    · split at h
      · cases h
      · rename_i s1 hs
        cases h
        have := setState_dv hs
        show dv { (forBundlers s1 _) with cancelPending := true } = _
        have e : dv { (forBundlers s1 (fun s b => recordInterruption s b "pause")) with cancelPending := true } =
            dv (forBundlers s1 (fun s b => recordInterruption s b "pause")) := rfl
        rw [e, dv_forBundlers_record, this]; rfl

/-! ## the ledger as a list -/

def stopCall (n : String) : Call := { dev := n, op := "stop" }
def unstageCall (n : String) : Call := { dev := n, op := "unstage" }

theorem calls_foldl_append {α} (f : EState → α → EState) (g : α → Call) (h : ∀ s a, (f s a).calls = s.calls ++ [g a])
    (l : List α) (s : EState) : (l.foldl f s).calls = s.calls ++ l.map g := by
  induction l generalizing s with
  | nil => simp
  | cons a l ih => rw [List.foldl_cons, ih, h]; simp

theorem field_foldl {α β} (p : EState → β) (f : EState → α → EState) (h : ∀ s a, p (f s a) = p s) (l : List α) (s : EState) :
    p (l.foldl f s) = p s := by
  induction l generalizing s with
  | nil => rfl
  | cons a l ih => rw [List.foldl_cons, ih, h]

/-- `_stop_movable_objects`: exactly one stop per moved device, in order, appended to the ledger --
    whatever the devices answer -/
theorem stopMovables_calls (s : EState) : (stopMovables s).calls = s.calls ++ s.moved.map stopCall := by
  unfold stopMovables
  exact calls_foldl_append _ stopCall (fun s a => rfl) _ _

/-- only quiet entries (no set / stage / unstage) are appended -/
def QuietExt (s s' : EState) : Prop := ∃ l, s'.calls = s.calls ++ l ∧ ∀ c ∈ l, keyOp c = false

theorem QuietExt.refl (s : EState) : QuietExt s s := ⟨[], by simp, by simp⟩

theorem QuietExt.trans {a b c : EState} (h1 : QuietExt a b) (h2 : QuietExt b c) : QuietExt a c := by
  obtain ⟨l1, e1, q1⟩ := h1
  obtain ⟨l2, e2, q2⟩ := h2
  refine ⟨l1 ++ l2, by rw [e2, e1, List.append_assoc], ?_⟩
  intro c hc
  rcases List.mem_append.mp hc with h | h
  · exact q1 c h
  · exact q2 c h

theorem QuietExt.of_calls_eq {s s' : EState} (h : s'.calls = s.calls) : QuietExt s s' := ⟨[], by simp [h], by simp⟩

theorem quietExt_foldl {α} (f : EState → α → EState) (h : ∀ s a, QuietExt s (f s a)) (l : List α) (s : EState) :
    QuietExt s (l.foldl f s) := by
  induction l generalizing s with
  | nil => exact QuietExt.refl s
  | cons a l ih => rw [List.foldl_cons]; exact (h s a).trans (ih _)

theorem quietExt_suspendMonitors (s : EState) (b : Bundler) : QuietExt s (suspendMonitors s b).1 := by
  rw [suspendMonitors_eq]
  apply quietExt_foldl
  intro s ms
  exact ⟨[{ dev := ms.1, op := "clear_sub" }], rfl, by simp [keyOp]⟩

theorem quietExt_closeRunDoc (s : EState) (b : Bundler) (e r : String) : QuietExt s (closeRunDoc s b e r).1 := by
  have h : (closeRunDoc s b e r).1.calls = (suspendMonitors s b).1.calls := by simp [closeRunDoc, clearMonitors, EState.emit]
  obtain ⟨l, hl, hq⟩ := quietExt_suspendMonitors s b
  exact ⟨l, by rw [h, hl], hq⟩

theorem quietExt_forBundlers_go (f : EState → Bundler → EState × Bundler) (hf : ∀ s b, QuietExt s (f s b).1)
    (todo done : List (String × Bundler)) (s : EState) : QuietExt s (forBundlers.go f s todo done) := by
  induction todo generalizing s done with
  | nil => exact QuietExt.of_calls_eq rfl
  | cons kb rest ih =>
    obtain ⟨k, b⟩ := kb
    unfold forBundlers.go
    simp only []
    exact (hf s b).trans (ih _ _)

theorem quietExt_forBundlers (f : EState → Bundler → EState × Bundler) (hf : ∀ s b, QuietExt s (f s b).1) (s : EState) :
    QuietExt s (forBundlers s f) := quietExt_forBundlers_go f hf _ _ s

end BlueskyVerif.Engine
