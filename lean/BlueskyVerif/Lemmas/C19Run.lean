/-
Helper lemmas for C18/C19: the delivery loop `runCbs` and histories split in two.
-/
import BlueskyVerif.Lemmas.C18Spec

namespace BlueskyVerif.Disp

/-- invoking the callables `fs` in order for document `(k, doc)` -/
def callsOf (fs : List Callable) (k : Sig) (doc : Doc) : Log := fs.map (fun f => (f, k, doc))

/-- With exceptions ignored every callable is invoked, in order; the collected exceptions are the
    callables that raised. -/
theorem runCbs_ignore (beh : Beh) (k : Sig) (doc : Doc) (fs : List Callable) (log : Log) (exc : List Callable) :
    (runCbs beh true k doc fs log exc).1 = log ++ callsOf fs k doc ∧
    ∃ collected, (runCbs beh true k doc fs log exc).2 = .returned (exc ++ collected) ∧
      collected.Sublist fs := by
  induction fs generalizing log exc with
  | nil => exact ⟨by simp [runCbs, callsOf], [], by simp [runCbs], List.Sublist.refl _⟩
  | cons f rest ih =>
    unfold runCbs
    simp only [Generated.processCollectsWhenIgnoring, Bool.and_self, if_true]
    split
    · obtain ⟨h1, c, h2, h3⟩ := ih (log ++ [(f, k, doc)]) (exc ++ [f])
      refine ⟨by rw [h1]; simp [callsOf], f :: c, by rw [h2]; simp, h3.cons_cons f⟩
    · obtain ⟨h1, c, h2, h3⟩ := ih (log ++ [(f, k, doc)]) exc
      exact ⟨by rw [h1]; simp [callsOf], c, h2, h3.cons f⟩

/-- the callables that are invoked before and including the first one that raises
    (all of them when none raises) -/
def reached (beh : Beh) (k : Sig) (doc : Doc) : List Callable → Log → List Callable
  | [], _ => []
  | f :: rest, log => if beh log f k doc then [f] else f :: reached beh k doc rest (log ++ [(f, k, doc)])

/-- Without ignoring, delivery stops at the first callable that raises: exactly the callables up to
    and including it are invoked, the exception leaves `process`; if none raises everybody is
    invoked and `process` returns nothing. -/
theorem runCbs_raise (beh : Beh) (k : Sig) (doc : Doc) (fs : List Callable) (log : Log) (exc : List Callable) :
    (runCbs beh false k doc fs log exc).1 = log ++ callsOf (reached beh k doc fs log) k doc ∧
    ((runCbs beh false k doc fs log exc).2 = .returned exc ∧ reached beh k doc fs log = fs ∨
     ∃ pre f post, fs = pre ++ f :: post ∧ reached beh k doc fs log = pre ++ [f] ∧
       beh (log ++ callsOf pre k doc) f k doc = true ∧
       (runCbs beh false k doc fs log exc).2 = .raised f) := by
  induction fs generalizing log with
  | nil => exact ⟨by simp [runCbs, callsOf, reached], Or.inl ⟨rfl, rfl⟩⟩
  | cons f rest ih =>
    unfold runCbs reached
    cases hb : beh log f k doc with
    | true =>
      simp only [if_true, Bool.and_false, Bool.false_eq_true, if_false]
      exact ⟨by simp [callsOf], Or.inr ⟨[], f, rest, rfl, rfl, by simpa [callsOf] using hb, rfl⟩⟩
    | false =>
      simp only [Bool.false_eq_true, if_false]
      obtain ⟨h1, h2⟩ := ih (log ++ [(f, k, doc)])
      refine ⟨by rw [h1]; simp [callsOf], ?_⟩
      rcases h2 with ⟨a, b⟩ | ⟨pre, g, post, a, b, c, d⟩
      · exact Or.inl ⟨a, by rw [b]⟩
      · refine Or.inr ⟨f :: pre, g, post, by rw [a]; rfl, by rw [b]; rfl, ?_, d⟩
        simpa [callsOf, List.append_assoc] using c

theorem reached_prefix (beh : Beh) (k : Sig) (doc : Doc) (fs : List Callable) (log : Log) :
    reached beh k doc fs log <+: fs := by
  induction fs generalizing log with
  | nil => simp [reached]
  | cons f rest ih =>
    unfold reached
    split
    · exact ⟨rest, rfl⟩
    · obtain ⟨t, ht⟩ := ih (log ++ [(f, k, doc)])
      exact ⟨t, by rw [List.cons_append, ht]⟩

/-- when no callable raises, the policy does not matter: everybody is invoked in order -/
theorem runCbs_quiet (beh : Beh) (ig : Bool) (k : Sig) (doc : Doc) (fs : List Callable) (log : Log) (exc : List Callable)
    (hq : ∀ l f, beh l f k doc = false) :
    runCbs beh ig k doc fs log exc = (log ++ callsOf fs k doc, .returned exc) := by
  induction fs generalizing log with
  | nil => simp [runCbs, callsOf]
  | cons f rest ih =>
    unfold runCbs
    simp only [hq, Bool.false_eq_true, if_false]
    rw [ih]
    simp [callsOf]

/-! ### histories -/

theorem Engine.run_cons (beh : Beh) (e : Engine) (log : Log) (op : Op) (ops : List Op) :
    Engine.run beh e log (op :: ops) =
      ((Engine.run beh (Engine.step beh e log op).1 (Engine.step beh e log op).2.1 ops).1,
       (Engine.run beh (Engine.step beh e log op).1 (Engine.step beh e log op).2.1 ops).2.1,
       (Engine.step beh e log op).2.2 :: (Engine.run beh (Engine.step beh e log op).1 (Engine.step beh e log op).2.1 ops).2.2) := rfl

theorem Engine.run_append (beh : Beh) (e : Engine) (log : Log) (ops1 ops2 : List Op) :
    (Engine.run beh e log (ops1 ++ ops2)).1 =
      (Engine.run beh (Engine.run beh e log ops1).1 (Engine.run beh e log ops1).2.1 ops2).1 ∧
    (Engine.run beh e log (ops1 ++ ops2)).2.1 =
      (Engine.run beh (Engine.run beh e log ops1).1 (Engine.run beh e log ops1).2.1 ops2).2.1 ∧
    (Engine.run beh e log (ops1 ++ ops2)).2.2 =
      (Engine.run beh e log ops1).2.2 ++
      (Engine.run beh (Engine.run beh e log ops1).1 (Engine.run beh e log ops1).2.1 ops2).2.2 := by
  induction ops1 generalizing e log with
  | nil => exact ⟨rfl, rfl, rfl⟩
  | cons op ops ih =>
    obtain ⟨a, b, c⟩ := ih (Engine.step beh e log op).1 (Engine.step beh e log op).2.1
    simp only [List.cons_append, Engine.run_cons]
    exact ⟨a, b, by rw [c]⟩

theorem Spec.run_fst (beh : Beh) (ig : Bool) (s : Spec) (log : Log) (ops : List Op) :
    (Spec.run beh ig s log ops).1 = ops.foldl Spec.step s := by
  induction ops generalizing s log with
  | nil => rfl
  | cons op ops ih => rw [Spec.run_cons, ih]; rfl

end BlueskyVerif.Disp
