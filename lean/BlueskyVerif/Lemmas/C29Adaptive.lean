/-
C29 helper lemmas for the ℚ-model of `adaptive_scan` (Pure/Adaptive.lean): facts about the GENERATED
expressions (these are the lemmas that stop checking when the source formulas change), the generic
induction principle over loop iterations, and the invariants used by Props/C29.lean.
-/
import BlueskyVerif.Pure.Adaptive
import BlueskyVerif.Lemmas.C29Basic

namespace BlueskyVerif.C29.AdaptiveLemmas
open BlueskyVerif.Pure.C29 BlueskyVerif.Pure.AdaptiveGen BlueskyVerif.Pure.Adaptive

/-! ### facts read off the generated expressions -/

theorem rejected_false {P : Params} (h : P.rejected = false) : 0 < P.minStep ∧ P.minStep < P.maxStep := by
  simp only [Params.rejected, rejects, Bool.not_eq_false', Bool.and_eq_true, decide_eq_true_eq] at h
  exact h

theorem dir_cases (P : Params) :
    (P.start ≤ P.stop ∧ P.dir = 1) ∨ (P.stop < P.start ∧ P.dir = -1) := by
  unfold Params.dir dirSign
  by_cases h : P.stop ≥ P.start
  · exact Or.inl ⟨h, by simp [h]⟩
  · exact Or.inr ⟨not_le.mp h, by simp [h]⟩

theorem dir_sq (P : Params) : P.dir * P.dir = 1 := by
  rcases dir_cases P with ⟨_, h⟩ | ⟨_, h⟩ <;> rw [h] <;> norm_num

theorem live_iff (P : Params) (s : St) : live P s = true ↔ s.nextPos * P.dir < P.stop * P.dir := by
  simp [live, loopCond]

theorem initStep_pos {P : Params} (h : P.rejected = false) :
    0 < initStep P.start P.stop P.minStep P.maxStep := by
  have := rejected_false h
  unfold initStep; linarith

theorem initStep_le {P : Params} (h : P.rejected = false) :
    initStep P.start P.stop P.minStep P.maxStep ≤ P.maxStep := by
  have := rejected_false h
  unfold initStep; linarith

/-- the smallest step the plan can ever take: `min(initial step, min_step)` -/
def delta (P : Params) : Rat := rmin (initStep P.start P.stop P.minStep P.maxStep) P.minStep

theorem delta_pos {P : Params} (h : P.rejected = false) : 0 < delta P :=
  lt_rmin (initStep_pos h) (rejected_false h).1

theorem delta_le_min (P : Params) : delta P ≤ P.minStep := rmin_le_right _ _

/-- `new_step` never exceeds `max_step` -/
theorem newStep_le {P : Params} (step past cur : Rat) : newStep P step past cur ≤ P.maxStep := by
  unfold newStep; simp only []
  split_ifs
  · exact rclip_le _ _ _
  · exact rmin_le_right _ _

/-- `new_step` is clamped below by `min_step` (sloped branch) or does not shrink (flat branch) -/
theorem newStep_ge {P : Params} (h : P.rejected = false) {step : Rat} (past cur : Rat)
    (h0 : 0 < step) (hs : step ≤ P.maxStep) :
    P.minStep ≤ newStep P step past cur ∨ step ≤ newStep P step past cur := by
  have hv := rejected_false h
  unfold newStep; simp only []
  split_ifs
  · left; exact le_rclip _ (le_of_lt hv.2)
  · right; unfold newStepFlat; apply le_rmin _ hs; linarith

theorem fwdStep_bounds {step ns lo hi : Rat} (h1 : lo ≤ step) (h2 : lo ≤ ns) (h3 : step ≤ hi) (h4 : ns ≤ hi) :
    lo ≤ fwdStep step ns ∧ fwdStep step ns ≤ hi := by
  unfold fwdStep; constructor <;> linarith

/-- the backstep test can only fire when `new_step < step * threshold` and backsteps are enabled -/
theorem backCond_iff (b : Bool) (ns step thr : Rat) :
    backCond b ns step thr = true ↔ b = true ∧ ns < step * thr := by
  simp [backCond]

/-! ### iteration -/

theorem iterN_succ_some {P : Params} {I : Resp} {n : Nat} {s0 s' : St}
    (h : iterN P I (n + 1) s0 = some s') :
    ∃ s, iterN P I n s0 = some s ∧ live P s = true ∧ s' = body P I s := by
  simp only [iterN] at h
  cases hs : iterN P I n s0 with
  | none => simp [hs] at h
  | some s =>
    simp only [hs, Option.bind_some, iter] at h
    by_cases hl : live P s = true
    · simp [hl] at h; exact ⟨s, rfl, hl, h.symm⟩
    · simp [hl] at h

theorem iterN_none_succ {P : Params} {I : Resp} {n : Nat} {s0 : St}
    (h : iterN P I n s0 = none) : iterN P I (n + 1) s0 = none := by
  simp [iterN, h]

theorem iterN_none_mono {P : Params} {I : Resp} {n m : Nat} {s0 : St}
    (h : iterN P I n s0 = none) (hnm : n ≤ m) : iterN P I m s0 = none := by
  induction hnm with
  | refl => exact h
  | step _ ih => exact iterN_none_succ ih

/-- induction over loop iterations: an invariant that holds initially and is preserved by every
    execution of the loop body holds in every reachable loop state (any number of iterations) -/
theorem iterN_induction {P : Params} {I : Resp} (Inv : Nat → St → Prop)
    (h0 : Inv 0 (init P))
    (hstep : ∀ n s, Inv n s → live P s = true → Inv (n + 1) (body P I s)) :
    ∀ n s, iterN P I n (init P) = some s → Inv n s := by
  intro n
  induction n with
  | zero => intro s h; simp [iterN] at h; subst h; exact h0
  | succ n ih =>
    intro s' h
    obtain ⟨s, hs, hl, rfl⟩ := iterN_succ_some h
    exact hstep n s (ih s hs) hl

/-- if every loop state reachable in exactly `N` iterations fails the loop condition, the plan has
    finished within `N + 1` iterations -/
theorem finished_of_not_live {P : Params} {I : Resp} {N : Nat}
    (h : ∀ s, iterN P I N (init P) = some s → live P s = false) :
    iterN P I (N + 1) (init P) = none := by
  cases hs : iterN P I N (init P) with
  | none => exact iterN_none_succ hs
  | some s => simp [iterN, hs, iter, h s hs]

/-! ### invariant 1: the step stays in [delta, max_step] -/

def Good (P : Params) (s : St) : Prop := delta P ≤ s.step ∧ s.step ≤ P.maxStep

theorem good_init {P : Params} (h : P.rejected = false) : Good P (init P) :=
  ⟨rmin_le_left _ _, initStep_le h⟩

theorem good_body {P : Params} {I : Resp} (h : P.rejected = false) {s : St} (hg : Good P s) :
    Good P (body P I s) := by
  have hd := delta_pos h
  have hdm := delta_le_min P
  obtain ⟨g1, g2⟩ := hg
  have hpos : 0 < s.step := lt_of_lt_of_le hd g1
  unfold body
  cases hp : s.pastI with
  | none => exact ⟨g1, g2⟩
  | some past =>
    simp only []
    have hle := newStep_le (P := P) s.step past (I s.k s.nextPos)
    have hge : delta P ≤ newStep P s.step past (I s.k s.nextPos) := by
      rcases newStep_ge h past (I s.k s.nextPos) hpos g2 with h1 | h1 <;> linarith
    split_ifs
    · exact ⟨hge, hle⟩
    · exact fwdStep_bounds g1 hge g2 hle

theorem good_reach {P : Params} {I : Resp} (h : P.rejected = false) :
    ∀ n s, iterN P I n (init P) = some s → Good P s :=
  iterN_induction (fun _ s => Good P s) (good_init h) (fun _ _ hg _ => good_body h hg)


/-! ### invariant 2: when no genuine backward step can happen, every iteration advances by ≥ delta -/

/-- no iteration can move against the scan direction: backsteps are disabled, or the scan is
    descending (the code's `next_pos -= step` then moves FORWARD), or the threshold is ≤ 0 -/
def NoBack (P : Params) : Prop := P.backstep = false ∨ P.stop < P.start ∨ P.threshold ≤ 0

def Prog (P : Params) (n : Nat) (s : St) : Prop :=
  Good P s ∧ P.start * P.dir + n * delta P ≤ s.nextPos * P.dir

theorem prog_body {P : Params} {I : Resp} (h : P.rejected = false) (hnb : NoBack P) {n : Nat} {s : St}
    (hp : Prog P n s) : Prog P (n + 1) (body P I s) := by
  obtain ⟨hg, hpos⟩ := hp
  have hg' := good_body (I := I) h hg
  refine ⟨hg', ?_⟩
  have hd := delta_pos h
  have hdd := dir_sq P
  obtain ⟨g1, g2⟩ := hg
  have hsp : 0 < s.step := lt_of_lt_of_le hd g1
  push_cast
  revert hg'
  unfold body
  cases hpI : s.pastI with
  | none =>
    intro _
    simp only [firstNext]
    have : (s.nextPos + s.step * P.dir) * P.dir = s.nextPos * P.dir + s.step * (P.dir * P.dir) := by ring
    rw [this, hdd]; linarith
  | some past =>
    simp only []
    have hns := newStep_ge h past (I s.k s.nextPos) hsp g2
    have hnsd : delta P ≤ newStep P s.step past (I s.k s.nextPos) := by
      have := delta_le_min P
      rcases hns with h1 | h1 <;> linarith
    split_ifs with hb
    · intro _
      rw [backCond_iff] at hb
      rcases hnb with h1 | h1 | h1
      · rw [h1] at hb; exact absurd hb.1 (by simp)
      · rcases dir_cases P with ⟨h2, _⟩ | ⟨_, hdir⟩
        · linarith
        · simp only [finalNext, backNext, backStep, hdir]
          rw [hdir] at hpos
          linarith
      · have : s.step * P.threshold ≤ 0 := mul_nonpos_of_nonneg_of_nonpos (le_of_lt hsp) h1
        linarith [hb.2]
    · intro hg'
      simp only [finalNext]
      have : (s.nextPos + fwdStep s.step (newStep P s.step past (I s.k s.nextPos)) * P.dir) * P.dir
          = s.nextPos * P.dir + fwdStep s.step (newStep P s.step past (I s.k s.nextPos)) * (P.dir * P.dir) := by ring
      rw [this, hdd]
      have := (fwdStep_bounds g1 hnsd g2 (newStep_le (P := P) s.step past (I s.k s.nextPos))).1
      linarith

theorem prog_reach {P : Params} {I : Resp} (h : P.rejected = false) (hnb : NoBack P) :
    ∀ n s, iterN P I n (init P) = some s → Prog P n s :=
  iterN_induction (Prog P) ⟨good_init h, by simp [init]⟩ (fun _ _ hp _ => prog_body h hnb hp)

/-! ### invariant 3 (ascending scans): `next_pos - step` is the last accepted position, ≥ start -/

def Base (P : Params) (s : St) : Prop :=
  (s.pastI = none ∧ s.nextPos = P.start) ∨ (s.pastI ≠ none ∧ P.start ≤ s.nextPos - s.step)

theorem base_body {P : Params} {I : Resp} (h : P.rejected = false) (hdir : P.dir = 1) {s : St}
    (hg : Good P s) (hb : Base P s) : Base P (body P I s) := by
  have hd := delta_pos h
  have hsp : 0 < s.step := lt_of_lt_of_le hd hg.1
  unfold body
  cases hpI : s.pastI with
  | none =>
    right
    rcases hb with ⟨_, h2⟩ | ⟨h1, _⟩
    · simp only [firstNext, hdir, h2]; constructor
      · simp
      · linarith
    · exact absurd hpI h1
  | some past =>
    simp only []
    rcases hb with ⟨h1, _⟩ | ⟨_, h2⟩
    · rw [hpI] at h1; exact absurd h1 (by simp)
    · split_ifs
      · right; simp only [finalNext, backNext, backStep, hdir]; constructor
        · simp
        · linarith
      · right; simp only [finalNext, hdir]; constructor
        · simp
        · linarith

theorem base_reach {P : Params} {I : Resp} (h : P.rejected = false) (hdir : P.dir = 1) :
    ∀ n s, iterN P I n (init P) = some s → Good P s ∧ Base P s :=
  iterN_induction (fun _ s => Good P s ∧ Base P s) ⟨good_init h, Or.inl ⟨rfl, rfl⟩⟩
    (fun _ _ hp _ => ⟨good_body h hp.1, base_body h hdir hp.1 hp.2⟩)

/-- lower end of the range: no reachable loop state has `next_pos` before `start` -/
theorem start_le_reach {P : Params} {I : Resp} (h : P.rejected = false) {n : Nat} {s : St}
    (hs : iterN P I n (init P) = some s) : P.start * P.dir ≤ s.nextPos * P.dir := by
  have hd := delta_pos h
  rcases dir_cases P with ⟨_, hdir⟩ | ⟨hlt, hdir⟩
  · obtain ⟨hg, hb⟩ := base_reach h hdir n s hs
    have hsp : 0 < s.step := lt_of_lt_of_le hd hg.1
    rw [hdir]
    rcases hb with ⟨_, h2⟩ | ⟨_, h2⟩
    · rw [h2]
    · linarith
  · have := (prog_reach (I := I) h (Or.inr (Or.inl hlt)) n s hs).2
    have hn : (0 : Rat) ≤ (n : Rat) * delta P := mul_nonneg (Nat.cast_nonneg n) (le_of_lt hd)
    linarith

/-! ### invariant 4 (ascending, backsteps enabled, 0 < threshold < 1): counting iterations

`a` = accepted points so far, `b` = consecutive backsteps since the last accepted point.  Each backstep
multiplies the step by less than `threshold` while the step stays ≥ `min_step`, so `b < K` whenever
`max_step * threshold^K < min_step`. -/

def Cnt (P : Params) (K : Nat) (n : Nat) (s : St) : Prop :=
  Good P s ∧
  ((s.pastI = none ∧ s.nextPos = P.start ∧ n = 0) ∨
   (s.pastI ≠ none ∧ ∃ a b : Nat, n ≤ a * (K + 1) + b + 1 ∧ b ≤ K ∧
      P.start + a * delta P ≤ s.nextPos - s.step ∧ s.step ≤ P.maxStep * P.threshold ^ b))

theorem cnt_body {P : Params} {I : Resp} (h : P.rejected = false) (hdir : P.dir = 1)
    (ht0 : 0 < P.threshold) (ht1 : P.threshold < 1) {K : Nat}
    (hK : P.maxStep * P.threshold ^ K < P.minStep) {n : Nat} {s : St}
    (hc : Cnt P K n s) : Cnt P K (n + 1) (body P I s) := by
  obtain ⟨hg, hc⟩ := hc
  refine ⟨good_body h hg, ?_⟩
  have hd := delta_pos h
  have hv := rejected_false h
  have hsp : 0 < s.step := lt_of_lt_of_le hd hg.1
  have hmaxpos : 0 < P.maxStep := by linarith
  have g1 : delta P ≤ s.step := hg.1
  have g2 : s.step ≤ P.maxStep := hg.2
  unfold body
  cases hpI : s.pastI with
  | none =>
    right
    rcases hc with ⟨_, h2, h3⟩ | ⟨h1, _⟩
    · refine ⟨by simp, 0, 0, by omega, Nat.zero_le _, ?_, ?_⟩
      · simp only [firstNext, hdir, h2]; push_cast; linarith
      · simp only [pow_zero, mul_one]; exact hg.2
    · exact absurd hpI h1
  | some past =>
    simp only []
    rcases hc with ⟨h1, _⟩ | ⟨_, a, b, hn, hbK, hbase, hstep⟩
    · rw [hpI] at h1; exact absurd h1 (by simp)
    · have hnsle := newStep_le (P := P) s.step past (I s.k s.nextPos)
      have hns := newStep_ge h past (I s.k s.nextPos) hsp hg.2
      split_ifs with hb
      · -- backstep: (a, b + 1)
        rw [backCond_iff] at hb
        have hlt : newStep P s.step past (I s.k s.nextPos) < s.step * P.threshold := hb.2
        have hlt' : s.step * P.threshold < s.step := by nlinarith
        have hmin : P.minStep ≤ newStep P s.step past (I s.k s.nextPos) := by
          rcases hns with h1 | h1
          · exact h1
          · linarith
        have hpow : newStep P s.step past (I s.k s.nextPos) < P.maxStep * P.threshold ^ (b + 1) := by
          have : s.step * P.threshold ≤ P.maxStep * P.threshold ^ b * P.threshold :=
            mul_le_mul_of_nonneg_right hstep (le_of_lt ht0)
          rw [pow_succ, ← mul_assoc]; linarith
        have hb1 : b + 1 ≤ K := by
          by_contra hcon
          have hKb : K ≤ b + 1 := by omega
          have : P.threshold ^ (b + 1) ≤ P.threshold ^ K :=
            pow_le_pow_of_le_one (le_of_lt ht0) (le_of_lt ht1) hKb
          have := mul_le_mul_of_nonneg_left this (le_of_lt hmaxpos)
          linarith
        right
        refine ⟨by simp, a, b + 1, by omega, hb1, ?_, ?_⟩
        · simp only [finalNext, backNext, backStep, hdir]; linarith
        · simp only [backStep]; exact le_of_lt hpow
      · -- accepted: (a + 1, 0)
        right
        have hnsd : delta P ≤ newStep P s.step past (I s.k s.nextPos) := by
          have := delta_le_min P
          rcases hns with h1 | h1 <;> linarith
        have hf := fwdStep_bounds hg.1 hnsd hg.2 hnsle
        refine ⟨by simp, a + 1, 0, ?_, Nat.zero_le _, ?_, ?_⟩
        · have : a * (K + 1) + b + 1 ≤ (a + 1) * (K + 1) := by
            have : (a + 1) * (K + 1) = a * (K + 1) + K + 1 := by ring
            omega
          omega
        · simp only [finalNext, hdir]; push_cast; linarith [hg.1]
        · simp only [pow_zero, mul_one]; exact hf.2

theorem cnt_reach {P : Params} {I : Resp} (h : P.rejected = false) (hdir : P.dir = 1)
    (ht0 : 0 < P.threshold) (ht1 : P.threshold < 1) {K : Nat}
    (hK : P.maxStep * P.threshold ^ K < P.minStep) :
    ∀ n s, iterN P I n (init P) = some s → Cnt P K n s :=
  iterN_induction (Cnt P K) ⟨good_init h, Or.inl ⟨rfl, rfl, rfl⟩⟩
    (fun _ _ hc _ => cnt_body h hdir ht0 ht1 hK hc)

end BlueskyVerif.C29.AdaptiveLemmas
