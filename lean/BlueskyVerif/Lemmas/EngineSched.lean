/-
Lifting the blocking-event invariant through the environment actions and the scheduler.
-/
import BlueskyVerif.Lemmas.EngineBE

namespace BlueskyVerif.Engine

theorem refuse_be (s : EState) (w : String) : (refuse s w).blockingEvent = s.blockingEvent := rfl

theorem termPrep_be (s : EState) (k r : String) : (termPrep s k r).blockingEvent = s.blockingEvent := by
  unfold termPrep; frame_be

theorem termAfter_be (s : EState) (k : String) (w : Bool) : (termAfter s k w).blockingEvent = s.blockingEvent := by
  unfold termAfter; frame_be

theorem requestTerminate_be (s : EState) (k r : String) : (requestTerminate s k r).blockingEvent = s.blockingEvent := by
  unfold requestTerminate
  split
  · rfl
  · split
    · rw [refuse_be]
    · rename_i s' hs
      rw [termAfter_be, setState_be hs, termPrep_be]

theorem pushSuspender_be (f : Nat) (pre post : Option Gen) (j : Option String) (s : EState) :
    (pushSuspender f pre post j s).blockingEvent = s.blockingEvent := by
  unfold pushSuspender
  simp only []
  split
  · split
    · rename_i s' hs; simp only []; rw [setState_be hs]
    · rfl
  · rfl

theorem requestSuspend_be (s : EState) (f : Nat) (pre post : Option Gen) (j : Option String) :
    (requestSuspend s f pre post j).blockingEvent = s.blockingEvent := by
  unfold requestSuspend
  split
  · simp only []
    split
    · rfl
    · rename_i s' hs
      rw [pushSuspender_be]
      split
      · simp only []; rw [setState_be hs]
      · rw [setState_be hs]
  · exact pushSuspender_be f pre post j s

theorem completeStatus_be (s : EState) (k : Nat) : (completeStatus s k).blockingEvent = s.blockingEvent := by
  unfold completeStatus; frame_be

theorem foldl_be {α} (f : EState → α → EState) (h : ∀ s a, (f s a).blockingEvent = s.blockingEvent)
    (l : List α) (s : EState) : (l.foldl f s).blockingEvent = s.blockingEvent := by
  induction l generalizing s with
  | nil => rfl
  | cons a l ih => rw [List.foldl_cons, ih, h]

theorem flushCompletions_be (s : EState) : (flushCompletions s).blockingEvent = s.blockingEvent := by
  unfold flushCompletions
  rw [foldl_be _ completeStatus_be]

theorem monitorUpdate_be (s : EState) (sig : String) (v : Int) : (monitorUpdate s sig v).blockingEvent = s.blockingEvent := by
  unfold monitorUpdate
  simp only []
  rw [foldl_be]
  · rfl
  · intro s a
    split <;> rfl

theorem applyAction_be (s : EState) (a : Action) : (applyAction s a).blockingEvent = s.blockingEvent := by
  cases a with
  | pause d =>
    simp only [applyAction]; split
    · rename_i s' h; exact requestPause_be h
    · rfl
  | suspend f pre post j => exact requestSuspend_be s f pre post j
  | release f => simp only [applyAction]; split <;> rfl
  | abort => exact requestTerminate_be s _ _
  | stop => exact requestTerminate_be s _ _
  | halt => exact requestTerminate_be s _ _
  | status k ok =>
    simp only [applyAction]; split
    · split
      · rfl
      · rw [completeStatus_be]
    · rfl
  | monitor sig v => exact monitorUpdate_be s sig v

theorem releaseAll_be (s : EState) : (releaseAll s).1.blockingEvent = s.blockingEvent := by
  unfold releaseAll
  simp only []
  rw [foldl_be _ (fun s f => applyAction_be s _), foldl_be _ (fun s k => applyAction_be s _)]

theorem retok_of_nobe {s : EState} (h : s.blockingEvent = false) : RetOK s := by
  intro hb; rw [h] at hb; cases hb

/-- The scheduler only hands control back with the blocking event set in a state that satisfies
    `RetOK`: for every script, every arrival bound and every amount of fuel. -/
theorem schedule_retok (maxArr : Nat) (sc : Script) (fuel : Nat) (s : EState) (h : RetOK s) :
    RetOK (schedule maxArr sc fuel s) := by
  induction fuel generalizing s with
  | zero => intro hb; exact h hb
  | succ n ih =>
    unfold schedule
    split
    · exact h
    · rename_i hbe
      have hb : s.blockingEvent = false := by simpa using hbe
      split
      · exact h
      · exact h
      · split
        · exact ih _ (advance_retok _ _ hb)
        · exact h
      · exact ih _ (advance_retok _ _ hb)
      · simp only []
        apply ih
        apply advance_retok
        split
        · rw [applyAction_be, flushCompletions_be]; exact hb
        · rw [foldl_be _ applyAction_be, flushCompletions_be]; exact hb
      · simp only []
        apply ih; apply advance_retok
        split
        · rw [applyAction_be, flushCompletions_be]; exact hb
        · rw [foldl_be _ applyAction_be, flushCompletions_be]; exact hb
      · simp only []
        apply ih; apply advance_retok
        split
        · rw [applyAction_be, flushCompletions_be]; exact hb
        · rw [foldl_be _ applyAction_be, flushCompletions_be]; exact hb
      · simp only []
        apply ih; apply advance_retok
        split
        · rw [applyAction_be, flushCompletions_be]; exact hb
        · rw [foldl_be _ applyAction_be, flushCompletions_be]; exact hb
      all_goals
        simp only []
        have hf : (flushCompletions s).blockingEvent = false := by rw [flushCompletions_be]; exact hb
        have hadv := advance_retok 4000 _ hf
        split
        · rename_i hcond
          have hb' : (advance 4000 (flushCompletions s)).blockingEvent = false := by
            simp only [Bool.and_eq_true, Bool.not_eq_true', beq_iff_eq] at hcond
            exact hcond.1.2
          split
          · apply ih; apply retok_of_nobe; rw [applyAction_be]; exact hb'
          · split
            · apply ih
              split
              · apply retok_of_nobe; rw [releaseAll_be]; exact hb'
              · apply retok_of_nobe; rw [applyAction_be, releaseAll_be]; exact hb'
            · apply ih; apply retok_of_nobe; rw [foldl_be _ applyAction_be]; exact hb'
        · exact ih _ hadv

end BlueskyVerif.Engine
