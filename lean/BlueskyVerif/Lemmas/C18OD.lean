/-
Helper lemmas for C18/C19: the insertion-ordered dictionaries of Disp/Registry.lean.
-/
import BlueskyVerif.Disp.Registry

namespace BlueskyVerif.Disp

/-- `omega` after unfolding the `Nat` abbreviations of the model (omega does not look through them) -/
macro "nomega" : tactic => `(tactic| ((try simp only [Token, Cid, Sig, Callable, Doc] at *) <;> omega))

end BlueskyVerif.Disp

namespace BlueskyVerif.Disp.OD

variable {β : Type}

theorem has_iff (m : List (Nat × β)) (k : Nat) : has m k = true ↔ ∃ p ∈ m, p.1 = k := by
  simp [has]

theorem has_false_iff (m : List (Nat × β)) (k : Nat) : has m k = false ↔ ∀ p ∈ m, p.1 ≠ k := by
  simp [has]

@[simp] theorem getD_nil (k : Nat) : getD ([] : List (Nat × List β)) k = [] := rfl

theorem getD_cons (k' : Nat) (v : List β) (r : List (Nat × List β)) (k : Nat) :
    getD ((k', v) :: r) k = if k' = k then v else getD r k := rfl

theorem getD_of_not_has (m : List (Nat × List β)) (k : Nat) (h : ∀ p ∈ m, p.1 ≠ k) : getD m k = [] := by
  induction m with
  | nil => rfl
  | cons p r ih =>
    obtain ⟨k', v⟩ := p
    have h1 : k' ≠ k := h (k', v) (by simp)
    simp only [getD_cons, h1, if_false]
    exact ih (fun q hq => h q (by simp [hq]))

theorem getD_append_of_not_has (m : List (Nat × List β)) (k : Nat) (v : List β) (k' : Nat)
    (h : ∀ p ∈ m, p.1 ≠ k) : getD (m ++ [(k, v)]) k' = if k = k' then v else getD m k' := by
  induction m with
  | nil => simp [getD_cons]
  | cons p r ih =>
    obtain ⟨k1, v1⟩ := p
    have h1 : k1 ≠ k := h (k1, v1) (by simp)
    have ih' := ih (fun q hq => h q (by simp [hq]))
    simp only [List.cons_append, getD_cons, ih']
    by_cases h2 : k1 = k'
    · have : k ≠ k' := by omega
      simp [h2, this]
    · simp [h2]

theorem getD_setdefault (m : List (Nat × List β)) (k k' : Nat) :
    getD (setdefault m k []) k' = getD m k' := by
  unfold setdefault
  by_cases h : has m k = true
  · simp [h]
  · have h' : has m k = false := by simpa using h
    simp only [h', Bool.false_eq_true, if_false]
    rw [getD_append_of_not_has m k [] k' ((has_false_iff m k).1 h')]
    by_cases hk : k = k'
    · subst hk
      simp [getD_of_not_has m k ((has_false_iff m k).1 h')]
    · simp [hk]

theorem getD_set (m : List (Nat × List β)) (k : Nat) (v : List β) (k' : Nat) :
    getD (set m k v) k' = if k = k' then v else getD m k' := by
  induction m with
  | nil => simp [set, getD_cons]
  | cons p r ih =>
    obtain ⟨k1, v1⟩ := p
    by_cases h1 : k1 = k
    · subst h1
      simp only [set, if_true, getD_cons]
      split <;> rfl
    · simp only [set, h1, if_false, getD_cons, ih]
      by_cases h2 : k1 = k'
      · have : k ≠ k' := by omega
        simp [h2, this]
      · simp [h2]

theorem set_fresh (m : List (Nat × β)) (k : Nat) (v : β) (h : ∀ p ∈ m, p.1 ≠ k) :
    set m k v = m ++ [(k, v)] := by
  induction m with
  | nil => rfl
  | cons p r ih =>
    obtain ⟨k1, v1⟩ := p
    have h1 : k1 ≠ k := h (k1, v1) (by simp)
    simp only [set, h1, if_false, List.cons_append]
    rw [ih (fun q hq => h q (by simp [hq]))]

theorem keys_set (m : List (Nat × β)) (k : Nat) (v : β) :
    (set m k v).map (·.1) = if has m k then m.map (·.1) else m.map (·.1) ++ [k] := by
  induction m with
  | nil => simp [set, has]
  | cons p r ih =>
    obtain ⟨k1, v1⟩ := p
    by_cases h1 : k1 = k
    · subst h1
      simp [set, has]
    · have hh : has ((k1, v1) :: r) k = has r k := by simp [has, h1]
      simp only [set, h1, if_false, List.map_cons, ih, hh]
      split <;> simp

theorem keys_setdefault (m : List (Nat × β)) (k : Nat) (v : β) :
    (setdefault m k v).map (·.1) = if has m k then m.map (·.1) else m.map (·.1) ++ [k] := by
  unfold setdefault
  split <;> simp

theorem has_iff_mem_keys (m : List (Nat × β)) (k : Nat) : has m k = true ↔ k ∈ m.map (·.1) := by
  simp [has]

theorem nodup_keys_set (m : List (Nat × β)) (k : Nat) (v : β) (h : (m.map (·.1)).Nodup) :
    ((set m k v).map (·.1)).Nodup := by
  rw [keys_set]
  split
  · exact h
  · rename_i hh
    have : k ∉ m.map (·.1) := fun hm => hh ((has_iff_mem_keys m k).2 hm)
    exact List.nodup_append.2 ⟨h, by simp, by
      intro a ha b hb
      simp at hb
      subst hb
      intro hab
      subst hab
      exact this ha⟩

theorem nodup_keys_setdefault (m : List (Nat × β)) (k : Nat) (v : β) (h : (m.map (·.1)).Nodup) :
    ((setdefault m k v).map (·.1)).Nodup := by
  rw [keys_setdefault]
  split
  · exact h
  · rename_i hh
    have : k ∉ m.map (·.1) := fun hm => hh ((has_iff_mem_keys m k).2 hm)
    exact List.nodup_append.2 ⟨h, by simp, by
      intro a ha b hb
      simp at hb
      subst hb
      intro hab
      subst hab
      exact this ha⟩

theorem getD_map_vals (m : List (Nat × List β)) (g : List β → List β) (hg : g [] = []) (k : Nat) :
    getD (m.map (fun p => (p.1, g p.2))) k = g (getD m k) := by
  induction m with
  | nil => simp [hg]
  | cons p r ih =>
    obtain ⟨k1, v1⟩ := p
    simp only [List.map_cons, getD_cons, ih]
    split <;> rfl

/-- `find?` in a dict stored as the mirror image of another one with distinct values -/
theorem find?_swap_some {l : List (Nat × Nat)} (hn : (l.map (·.2)).Nodup) (f c : Nat) :
    find? (l.map (fun p => (p.2, p.1))) f = some c ↔ (c, f) ∈ l := by
  induction l with
  | nil => simp [find?]
  | cons p r ih =>
    obtain ⟨c1, f1⟩ := p
    simp only [List.map_cons, List.nodup_cons] at hn
    simp only [List.map_cons, find?]
    by_cases h : f1 = f
    · subst h
      simp only [if_true, Option.some.injEq, List.mem_cons, Prod.mk.injEq]
      constructor
      · intro h; left; exact ⟨h.symm, trivial⟩
      · rintro (h | h)
        · exact h.1.symm
        · exact absurd (List.mem_map.2 ⟨(c, f1), h, rfl⟩) hn.1
    · simp only [h, if_false, ih hn.2, List.mem_cons, Prod.mk.injEq]
      constructor
      · intro hm; right; exact hm
      · rintro (⟨_, h'⟩ | hm)
        · exact absurd h'.symm h
        · exact hm

theorem find?_swap_none (l : List (Nat × Nat)) (f : Nat) :
    find? (l.map (fun p => (p.2, p.1))) f = none ↔ f ∉ l.map (·.2) := by
  induction l with
  | nil => simp [find?]
  | cons p r ih =>
    obtain ⟨c1, f1⟩ := p
    simp only [List.map_cons, find?]
    by_cases h : f1 = f
    · simp [h]
    · simp only [h, if_false, ih, List.mem_cons, not_or]
      constructor
      · intro hm; exact ⟨fun e => h e.symm, hm⟩
      · intro hm; exact hm.2

theorem find?_some_mem {m : List (Nat × β)} {k : Nat} {v : β} (h : find? m k = some v) : (k, v) ∈ m := by
  induction m with
  | nil => simp [find?] at h
  | cons p r ih =>
    obtain ⟨k1, v1⟩ := p
    simp only [find?] at h
    by_cases h1 : k1 = k
    · simp [h1] at h; subst h; subst h1; simp
    · simp [h1] at h; exact List.mem_cons_of_mem _ (ih h)

theorem find?_none_iff (m : List (Nat × β)) (k : Nat) : find? m k = none ↔ ∀ p ∈ m, p.1 ≠ k := by
  induction m with
  | nil => simp [find?]
  | cons p r ih =>
    obtain ⟨k1, v1⟩ := p
    simp only [find?]
    by_cases h1 : k1 = k
    · simp [h1]
    · simp [h1, ih]

theorem find?_of_mem_nodup {m : List (Nat × β)} (hn : (m.map (·.1)).Nodup) {k : Nat} {v : β}
    (h : (k, v) ∈ m) : find? m k = some v := by
  induction m with
  | nil => simp at h
  | cons p r ih =>
    obtain ⟨k1, v1⟩ := p
    simp only [List.map_cons, List.nodup_cons] at hn
    simp only [find?]
    rcases List.mem_cons.1 h with h | h
    · simp only [Prod.mk.injEq] at h; simp [h.1, h.2]
    · have : k1 ≠ k := by
        intro e; subst e
        exact hn.1 (List.mem_map.2 ⟨(k1, v), h, rfl⟩)
      simp [this, ih hn.2 h]

end BlueskyVerif.Disp.OD
