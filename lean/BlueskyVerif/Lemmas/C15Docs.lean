/-
C15 helper lemmas, part 2: every descriptor held in `_descriptors` has been emitted (`DInv`, from the
generated relation frame `KeepsDocs`); the exact shape of what `save` emits.
-/
import BlueskyVerif.Lemmas.C15Bundle
import BlueskyVerif.Lemmas.BundlerKeepsDocs
import BlueskyVerif.Lemmas.BundlerKeepsOutDesc

namespace BlueskyVerif.Bundler
open Generated
open KeepsDocs (Documented)

/-- every descriptor held by the bundler has been emitted -/
def DInv (s : BState) : Prop := ∀ nd ∈ s.descriptors, Documented s.out nd.1 nd.2

theorem DInv_of_keeps {w : World} {s s' : BState} (hk : KeepsDocs.Keeps w s s') (h : DInv s) : DInv s' := by
  obtain ⟨new, ho, hd⟩ := hk
  intro nd hm
  rcases hd nd hm with h1 | h1
  · exact (h nd h1).mono (by intro x hx; rw [ho]; simp; exact Or.inl hx)
  · exact h1.mono (by intro x hx; rw [ho]; simp; exact Or.inr hx)

theorem DInv_step (w : World) (s : BState) (op : Op) (h : DInv s) : DInv (step w s op).st :=
  DInv_of_keeps (KeepsDocs.keeps_step w s op (by cases op <;> rfl)) h

theorem DInv_run (w : World) (s : BState) (ops : List Op) (h : DInv s) : DInv (runState w s ops) := by
  induction ops generalizing s with
  | nil => exact h
  | cons op ops ih => exact ih _ (DInv_step w s op h)

/-- the output of a step extends the output before it -/
theorem out_grows (w : World) (s : BState) (op : Op) : ∃ new, (step w s op).st.out = s.out ++ new := by
  obtain ⟨new, h, _⟩ := KeepsDocs.keeps_step w s op (by cases op <;> rfl)
  exact ⟨new, h⟩

theorem out_run (w : World) (s : BState) (ops : List Op) : ∃ new, (runState w s ops).out = s.out ++ new := by
  induction ops generalizing s with
  | nil => exact ⟨[], by simp [runState]⟩
  | cons op ops ih =>
    obtain ⟨n1, h1⟩ := out_grows w s op
    obtain ⟨n2, h2⟩ := ih (step w s op).st
    exact ⟨n1 ++ n2, by simp only [runState]; rw [h2, h1, List.append_assoc]⟩

theorem openRun_descriptors (cfg : BCfg) (u : Nat) (env : List (Obj × Config)) :
    (openRun cfg u env).descriptors = [] := by
  unfold openRun
  simp only [openRunResets, if_true, resetCp]
  split <;> rfl

theorem openRun_bundling (cfg : BCfg) (u : Nat) (env : List (Obj × Config)) :
    (openRun cfg u env).bundling = false ∧ (openRun cfg u env).describeCache = [] := by
  unfold openRun
  simp only [openRunResets, if_true, resetCp]
  split <;> exact ⟨rfl, rfl⟩

/-- what `ComposeEvent` + emit does to the output -/
theorem composeEvent_out (s : BState) (n : Name) (u : Nat) (dk ext : List Key) (data : List (Key × Val))
    (src : Src) (note : Option String) :
    ((composeEvent s n u dk ext data src note).st.out = s.out ∧ (composeEvent s n u dk ext data src note).err ≠ none) ∨
    ∃ e, (composeEvent s n u dk ext data src note).st.out = s.out ++ [e] ∧ e.kind = .event ∧ e.src = src ∧
      e.stream = some n ∧ e.descriptor = some u ∧ e.data = data ∧ e.keys = data.map Prod.fst ∧
      e.seq = aget s.seq n ∧
      sameSet (nonStream ext dk) (nonStream ext (data.map Prod.fst)) = true ∧
      (composeEvent s n u dk ext data src note).err = none := by
  unfold composeEvent
  split
  · exact Or.inl ⟨rfl, by simp⟩
  · rename_i c hc
    split
    · exact Or.inl ⟨rfl, by simp⟩
    · split
      · exact Or.inl ⟨rfl, by simp⟩
      · rename_i h1 h2
        refine Or.inr ⟨_, rfl, rfl, rfl, rfl, rfl, rfl, rfl, by simp [hc], ?_, rfl⟩
        simpa using h2

/-- what `save` emits: possibly the descriptor of a new stream, then at most one event, which is
    built from exactly the cached readings and references a descriptor that is either already in
    `_descriptors` or among the documents just emitted before it -/
theorem save_spec (w : World) (s : BState) :
    ∃ (pre ev : List Doc), (save w s).st.out = s.out ++ (pre ++ ev) ∧ (∀ d ∈ pre, d.kind = .descriptor) ∧
      (ev = [] ∨ ∃ e n d, ev = [e] ∧ s.bundling = true ∧ s.objsRead ≠ [] ∧ s.bundleName = some n ∧
        e.kind = .event ∧ e.src = .bundle ∧ e.stream = some n ∧ e.descriptor = some d.uid ∧
        e.data = mergeReadings s.readCache ∧ e.keys = (mergeReadings s.readCache).map Prod.fst ∧
        sameSet (nonStream d.ext d.keys) (nonStream d.ext e.keys) = true ∧
        ((n, d) ∈ s.descriptors ∨ Documented pre n d) ∧ (save w s).err = none) := by
  unfold save
  split
  · exact ⟨[], [], by simp, by simp, Or.inl rfl⟩
  · rename_i hb
    have hb' : s.bundling = true := by simpa using hb
    split
    · refine ⟨[], [], ?_, by simp, Or.inl rfl⟩
      simp only [Res.ok_st]; split <;> simp
    · rename_i hne
      have hne' : s.objsRead ≠ [] := by
        intro h; apply hne; simp [saveEmptyReturnsEarly, h]
      split
      · exact ⟨[], [], by simp, by simp, Or.inl rfl⟩
      · rename_i n hn
        generalize hr : saveDescriptor w { s with bundling := false, bundleName := none } n s.objsRead = r
        obtain ⟨pre, hpre, hkind⟩ : ∃ pre, r.st.out = s.out ++ pre ∧ ∀ d ∈ pre, d.kind = .descriptor := by
          subst hr
          exact KeepsOutDesc.keeps_saveDescriptor w { s with bundling := false, bundleName := none } n s.objsRead
        have hrel : ∀ nd ∈ r.st.descriptors, nd ∈ s.descriptors ∨ Documented pre nd.1 nd.2 := by
          subst hr
          obtain ⟨new, ho, hd⟩ :=
            KeepsDocs.keeps_saveDescriptor w { s with bundling := false, bundleName := none } n s.objsRead
          have : new = pre := by
            have := ho.symm.trans hpre
            exact List.append_cancel_left this
          subst this
          exact hd
        cases he : r.err with
        | some e =>
          rw [Res.andThen_of_err _ _ _ he]
          exact ⟨pre, [], by simpa using hpre, hkind, Or.inl rfl⟩
        | none =>
          rw [Res.andThen_of_ok _ _ he]
          simp only
          unfold saveEvent
          cases hd : aget r.st.descriptors n with
          | none => exact ⟨pre, [], by simpa using hpre, hkind, Or.inl rfl⟩
          | some d =>
            simp only
            rcases composeEvent_out r.st n d.uid d.keys d.ext (mergeReadings s.readCache) .bundle none with h | h
            · exact ⟨pre, [], by rw [h.1]; simpa using hpre, hkind, Or.inl rfl⟩
            · obtain ⟨e, h1, h2, h3, h4, h5, h6, h7, _, h9, h10⟩ := h
              refine ⟨pre, [e], by rw [h1, hpre, List.append_assoc], hkind,
                Or.inr ⟨e, n, d, rfl, hb', hne', hn, h2, h3, h4, h5, h6, h7, ?_, ?_, h10⟩⟩
              · rw [h7]; exact h9
              · exact hrel (n, d) (aget_mem _ _ _ hd)

end BlueskyVerif.Bundler
