/-
C15 helper lemmas, part 2: which documents the operations emit; every descriptor held in
`_descriptors` has been emitted (`DInv`); the exact shape of what `save` emits.
-/
import BlueskyVerif.Lemmas.C15Bundle
import BlueskyVerif.Lemmas.BundlerKeepsDesc

namespace BlueskyVerif.Bundler
open Generated

/-- a descriptor document for `(n, d)` is among `docs` -/
def Documented (docs : List Doc) (n : Name) (d : Desc) : Prop :=
  ∃ doc ∈ docs, doc.kind = .descriptor ∧ doc.uid = d.uid ∧ doc.stream = some n ∧ doc.keys = d.keys ∧
    doc.extKeys = d.ext

theorem Documented.mono {docs docs' : List Doc} {n : Name} {d : Desc} (h : Documented docs n d)
    (hs : ∀ x ∈ docs, x ∈ docs') : Documented docs' n d := by
  obtain ⟨doc, hm, hr⟩ := h
  exact ⟨doc, hs doc hm, hr⟩

/-- every descriptor in the result state was already there or is documented by this very result -/
def DRel (s : BState) (r : Res) : Prop :=
  ∀ nd ∈ r.st.descriptors, nd ∈ s.descriptors ∨ Documented r.docs nd.1 nd.2

theorem DRel_of_eq (s : BState) (r : Res) (h : r.st.descriptors = s.descriptors) : DRel s r := by
  intro nd hm; rw [h] at hm; exact Or.inl hm

theorem DRel_andThen (s : BState) (r : Res) (f : BState → Res) (h1 : DRel s r) (h2 : ∀ s', DRel s' (f s')) :
    DRel s (r.andThen f) := by
  cases he : r.err with
  | some e => rw [Res.andThen_of_err _ _ _ he]; exact h1
  | none =>
    rw [Res.andThen_of_ok _ _ he]
    intro nd hm
    rcases h2 r.st nd hm with h | h
    · rcases h1 nd h with h | h
      · exact Or.inl h
      · exact Or.inr (h.mono (by intro x hx; simp; exact Or.inl hx))
    · exact Or.inr (h.mono (by intro x hx; simp; exact Or.inr hx))

theorem DRel_foldl {α : Type} (l : List α) (g : BState → α → Res) (s : BState) (r : Res) (h0 : DRel s r)
    (hg : ∀ s' a, DRel s' (g s' a)) : DRel s (l.foldl (fun (r : Res) a => r.andThen fun s' => g s' a) r) := by
  induction l generalizing r with
  | nil => exact h0
  | cons a t ih => exact ih _ (DRel_andThen s r _ h0 (fun s' => hg s' a))

/-! ### documents of the primitives -/

theorem cacheReadConfig_docs (w : World) (s : BState) (o : Obj) : (cacheReadConfig w s o).docs = [] := by
  unfold cacheReadConfig; split <;> rfl

theorem cacheDescribeConfig_docs (w : World) (s : BState) (o : Obj) : (cacheDescribeConfig w s o).docs = [] := by
  unfold cacheDescribeConfig; split <;> rfl

theorem andThen_docs_nil (r : Res) (f : BState → Res) (h1 : r.docs = []) (h2 : ∀ s, (f s).docs = []) :
    (r.andThen f).docs = [] := by
  rw [Res.andThen_docs, h1]; split <;> simp [h2]

theorem ensureCached_docs (w : World) (s : BState) (o : Obj) (c : Bool) : (ensureCached w s o c).docs = [] := by
  unfold ensureCached
  apply andThen_docs_nil
  · unfold cacheDescribe
    repeat' split
    all_goals rfl
  · intro s'
    unfold cacheConfig
    split
    · exact andThen_docs_nil _ _ (cacheDescribeConfig_docs ..) (fun s => cacheReadConfig_docs ..)
    · rfl

theorem ensureAll_docs (w : World) (s : BState) (objs : List Obj) (c : Bool) : (ensureAll w s objs c).docs = [] := by
  unfold ensureAll
  have : ∀ (l : List Obj) (r : Res), r.docs = [] →
      (l.foldl (fun (r : Res) o => r.andThen fun s => ensureCached w s o c) r).docs = [] := by
    intro l
    induction l with
    | nil => intro r h; exact h
    | cons a t ih =>
      intro r h
      apply ih
      rw [Res.andThen_docs, h]
      split <;> simp [ensureCached_docs]
  exact this objs _ rfl

theorem prepareStream_docs_kind (w : World) (s : BState) (n : Name) (od : List (Obj × List Key)) :
    ∀ d ∈ (prepareStream w s n od).docs, d.kind = .descriptor := by
  unfold prepareStream
  simp only
  split
  · simp
  · split
    · split
      · simp
      · unfold prepareStream.finish; simp
    · unfold prepareStream.finish; simp

theorem DRel_prepareStream (w : World) (s : BState) (n : Name) (od : List (Obj × List Key)) :
    DRel s (prepareStream w s n od) := by
  unfold prepareStream
  simp only
  have fin : ∀ (s0 : BState) (uid : Nat) (dk : List Key) (cfg : List (Obj × CfgBlock)) (pre : List CEv),
      s0.descriptors = s.descriptors → DRel s (prepareStream.finish w n od s0 uid dk cfg pre) := by
    intro s0 uid dk cfg pre h0
    unfold prepareStream.finish
    intro nd hm
    simp only at hm
    have hm' : nd ∈ aset s0.descriptors n { uid := uid, keys := dk, objs := od, ext := externalKeys w od, config := cfg } := by
      split at hm <;> exact hm
    rcases mem_aset _ _ _ _ hm' with h | h
    · exact Or.inl (h0 ▸ h)
    · refine Or.inr ⟨_, List.mem_singleton.2 rfl, ?_⟩
      subst h
      exact ⟨rfl, rfl, rfl, rfl, rfl⟩
  split
  · exact DRel_of_eq _ _ rfl
  · split
    · split
      · exact DRel_of_eq _ _ rfl
      · exact fin _ _ _ _ _ rfl
    · exact fin _ _ _ _ _ rfl

theorem composeEvent_docs (s : BState) (n : Name) (u : Nat) (dk ext : List Key) (data : List (Key × Val))
    (src : Src) (note : Option String) :
    (composeEvent s n u dk ext data src note).docs = [] ∨
    ∃ e, (composeEvent s n u dk ext data src note).docs = [e] ∧ e.kind = .event ∧ e.src = src ∧
      e.stream = some n ∧ e.descriptor = some u ∧ e.data = data ∧ e.keys = data.map Prod.fst ∧
      e.seq = aget s.seq n ∧
      sameSet (nonStream ext dk) (nonStream ext (data.map Prod.fst)) = true ∧
      (composeEvent s n u dk ext data src note).err = none := by
  unfold composeEvent
  split
  · exact Or.inl rfl
  · rename_i c hc
    simp only
    split
    · exact Or.inl rfl
    · split
      · exact Or.inl rfl
      · rename_i h1 h2
        refine Or.inr ⟨_, rfl, rfl, rfl, rfl, rfl, rfl, rfl, by simp [hc], ?_, rfl⟩
        simpa using h2

theorem saveDescriptor_docs_kind (w : World) (s : BState) (n : Name) (objs : List Obj) :
    ∀ d ∈ (saveDescriptor w s n objs).docs, d.kind = .descriptor := by
  unfold saveDescriptor
  split
  · intro d hd
    rw [Res.andThen_docs, ensureAll_docs] at hd
    split at hd
    · simp at hd
    · exact prepareStream_docs_kind _ _ _ _ d (by simpa using hd)
  · split <;> simp

theorem DRel_saveDescriptor (w : World) (s : BState) (n : Name) (objs : List Obj) :
    DRel s (saveDescriptor w s n objs) := by
  unfold saveDescriptor
  split
  · apply DRel_andThen
    · exact DRel_of_eq _ _ (KeepsDesc.keeps_ensureAll w s objs false)
    · intro s'; exact DRel_prepareStream w s' n _
  · split <;> exact DRel_of_eq _ _ rfl

/-- what `save` emits: possibly the descriptor(s) of a new stream, then at most one event, which is
    built from exactly the cached readings and references a descriptor that is either already in
    `_descriptors` or among the documents just emitted before it -/
theorem save_spec (w : World) (s : BState) :
    ∃ (pre ev : List Doc), (save w s).docs = pre ++ ev ∧ (∀ d ∈ pre, d.kind = .descriptor) ∧
      (ev = [] ∨ ∃ e n d, ev = [e] ∧ s.bundling = true ∧ s.objsRead ≠ [] ∧ s.bundleName = some n ∧
        e.kind = .event ∧ e.src = .bundle ∧ e.stream = some n ∧ e.descriptor = some d.uid ∧
        e.data = mergeReadings s.readCache ∧ e.keys = (mergeReadings s.readCache).map Prod.fst ∧
        sameSet (nonStream d.ext d.keys) (nonStream d.ext e.keys) = true ∧
        ((n, d) ∈ s.descriptors ∨ Documented pre n d) ∧ (save w s).err = none) := by
  unfold save
  split
  · exact ⟨[], [], rfl, by simp, Or.inl rfl⟩
  · rename_i hb
    have hb' : s.bundling = true := by simpa using hb
    split
    · exact ⟨[], [], rfl, by simp, Or.inl rfl⟩
    · rename_i hne
      have hne' : s.objsRead ≠ [] := by
        intro h; apply hne; simp [saveEmptyReturnsEarly, h]
      split
      · exact ⟨[], [], rfl, by simp, Or.inl rfl⟩
      · rename_i n hn
        generalize hr : saveDescriptor w { s with bundling := false, bundleName := none } n s.objsRead = r
        have hkind : ∀ d ∈ r.docs, d.kind = .descriptor := by
          subst hr; exact saveDescriptor_docs_kind _ _ _ _
        have hrel : DRel s r := by
          subst hr
          have := DRel_saveDescriptor w { s with bundling := false, bundleName := none } n s.objsRead
          exact this
        cases he : r.err with
        | some e =>
          rw [Res.andThen_of_err _ _ _ he]
          exact ⟨r.docs, [], by simp, hkind, Or.inl rfl⟩
        | none =>
          rw [Res.andThen_of_ok _ _ he]
          simp only
          unfold saveEvent
          cases hd : aget r.st.descriptors n with
          | none => exact ⟨r.docs, [], by simp, hkind, Or.inl rfl⟩
          | some d =>
            simp only
            rcases composeEvent_docs r.st n d.uid d.keys d.ext (mergeReadings s.readCache) .bundle none with h | h
            · exact ⟨r.docs, [], by simp [h], hkind, Or.inl rfl⟩
            · obtain ⟨e, h1, h2, h3, h4, h5, h6, h7, _, h9, h10⟩ := h
              refine ⟨r.docs, [e], by simp [h1], hkind, Or.inr ⟨e, n, d, rfl, hb', hne', hn, h2, h3, h4, h5, h6, h7, ?_, ?_, h10⟩⟩
              · rw [h7]; exact h9
              · exact hrel (n, d) (aget_mem _ _ _ hd)

/-! ### `DRel` for every operation, and the history invariant -/

theorem DRel_save (w : World) (s : BState) : DRel s (save w s) := by
  unfold save
  split
  · exact DRel_of_eq _ _ rfl
  · split
    · split <;> exact DRel_of_eq _ _ rfl
    · split
      · exact DRel_of_eq _ _ rfl
      · rename_i n hn
        have h1 := DRel_saveDescriptor w { s with bundling := false, bundleName := none } n s.objsRead
        have : DRel { s with bundling := false, bundleName := none }
            ((saveDescriptor w { s with bundling := false, bundleName := none } n s.objsRead).andThen fun s' =>
              saveEvent s' n (mergeReadings s.readCache)) :=
          DRel_andThen _ _ _ h1 (fun s' => DRel_of_eq _ _ (KeepsDesc.keeps_saveEvent w s' n _))
        exact this

theorem DRel_monitor (w : World) (s : BState) (o : Obj) (n : Name) : DRel s (monitor w s o n) := by
  unfold monitor
  split
  · exact DRel_of_eq _ _ rfl
  · apply DRel_andThen
    · exact DRel_of_eq _ _ (KeepsDesc.keeps_ensureCached w s o false)
    · intro s'
      apply DRel_andThen
      · exact DRel_prepareStream w s' n _
      · intro s''
        split <;> exact DRel_of_eq _ _ rfl

theorem DRel_reprepareAll (w : World) (s : BState) (o : Obj) : DRel s (reprepareAll w s o) := by
  unfold reprepareAll
  apply DRel_foldl (g := fun s'' (nd : Name × Desc) =>
    match aget s''.descriptors nd.1 with
    | none => Res.fail s'' .keyError
    | some d =>
      if ahas d.objs o then
        prepareStream w { s'' with descriptors := aerase s''.descriptors nd.1 } nd.1 d.objs
      else Res.ok s'')
  · exact DRel_of_eq _ _ rfl
  · intro s'' nd
    split
    · exact DRel_of_eq _ _ rfl
    · split
      · intro x hx
        rcases DRel_prepareStream w { s'' with descriptors := aerase s''.descriptors nd.1 } nd.1 _ x hx with h | h
        · exact Or.inl (mem_aerase _ _ _ h)
        · exact Or.inr h
      · exact DRel_of_eq _ _ rfl

theorem DRel_configure (w : World) (s : BState) (o : Obj) : DRel s (configure w s o) := by
  unfold configure
  apply DRel_andThen
  · exact DRel_of_eq _ _ (KeepsDesc.keeps_cacheReadConfig w s o)
  · intro s'; exact DRel_reprepareAll w s' o

theorem DRel_declareStream (w : World) (s : BState) (n : Name) (objs : List Obj) (c : Bool) :
    DRel s (declareStream w s n objs c) := by
  unfold declareStream
  simp only
  apply DRel_andThen
  · exact DRel_of_eq _ _ (KeepsDesc.keeps_ensureAll w s _ c)
  · intro s'
    split
    · exact DRel_of_eq _ _ rfl
    · intro x hx
      exact DRel_prepareStream w { s' with declared := declareAppend s'.declared (dedupKeys objs) n } n _ x hx

theorem DRel_step (w : World) (s : BState) (op : Op) : DRel s (step w s op) := by
  by_cases h : KeepsDesc.touches op = false
  · exact DRel_of_eq _ _ (KeepsDesc.keeps_step w s op h)
  · cases op <;> simp [KeepsDesc.touches] at h <;> simp only [step]
    · exact DRel_save w s
    · exact DRel_monitor w s _ _
    · exact DRel_configure w s _
    · exact DRel_declareStream w s _ _ _

/-- every descriptor held by the bundler has been emitted -/
def DInv (s : BState) (docs : List Doc) : Prop := ∀ nd ∈ s.descriptors, Documented docs nd.1 nd.2

theorem DInv_step (w : World) (s : BState) (docs : List Doc) (op : Op) (h : DInv s docs) :
    DInv (step w s op).st (docs ++ (step w s op).docs) := by
  intro nd hm
  rcases DRel_step w s op nd hm with h1 | h1
  · exact (h nd h1).mono (by intro x hx; simp; exact Or.inl hx)
  · exact h1.mono (by intro x hx; simp; exact Or.inr hx)

theorem runFrom_append_docs (w : World) (s : BState) (pre post : List Op) :
    traceDocs (runFrom w s (pre ++ post)).2 =
      traceDocs (runFrom w s pre).2 ++ traceDocs (runFrom w (runFrom w s pre).1 post).2 := by
  induction pre generalizing s with
  | nil => simp [runFrom, traceDocs]
  | cons op ops ih =>
    simp only [List.cons_append, runFrom, traceDocs, List.flatMap_cons]
    have := ih (step w s op).st
    simp only [traceDocs] at this
    rw [this, List.append_assoc]

theorem runFrom_append_fst (w : World) (s : BState) (pre post : List Op) :
    (runFrom w s (pre ++ post)).1 = (runFrom w (runFrom w s pre).1 post).1 := by
  induction pre generalizing s with
  | nil => simp [runFrom]
  | cons op ops ih => simp only [List.cons_append, runFrom]; exact ih _

theorem DInv_run (w : World) (s : BState) (docs : List Doc) (ops : List Op) (h : DInv s docs) :
    DInv (runFrom w s ops).1 (docs ++ traceDocs (runFrom w s ops).2) := by
  induction ops generalizing s docs with
  | nil => simpa [runFrom, traceDocs] using h
  | cons op ops ih =>
    simp only [runFrom, traceDocs, List.flatMap_cons]
    have := ih _ _ (DInv_step w s docs op h)
    simp only [traceDocs] at this
    rw [← List.append_assoc]; exact this

theorem openRun_descriptors (cfg : BCfg) (u : Nat) (env : List (Obj × Config)) :
    (openRun cfg u env).st.descriptors = [] := by
  cases h2 : cfg.recordInterruptions <;>
    simp [openRun, Res.andThen, resetR, Res.pure, resetCp, Res.ok, openRunResets, h2]

end BlueskyVerif.Bundler
