/-
C04 helper: what every command handler does to the message cache / the rewindable flag, and the global
invariant `CacheInv` (the cache is always a filtered suffix of the log of processed messages).
-/
import BlueskyVerif.Lemmas.C04Frame

namespace BlueskyVerif.Engine

/-- may this message be cached (the GENERATED `_UNCACHEABLE_COMMANDS` table) -/
def cacheable (m : Msg) : Bool := !Src.uncacheable.contains m.cmd

def CmdOut.isRaised : CmdOut → Bool
  | .raised _ => true
  | _ => false

/-! ### noteMsg: the cache rule -/

theorem noteMsg_eq (s : EState) (m : Msg) : ∃ s1 : EState,
    (s1.msgs = s.msgs ++ [m] ∧ s1.rewindable = s.rewindable ∧ s1.msgCache = s.msgCache ∧
      s1.planStack = s.planStack ∧ s1.respStack = s.respStack) ∧
    noteMsg s m = (match s1.msgCache with
      | some c => if s1.rewindable && !Src.uncacheable.contains m.cmd then { s1 with msgCache := some (c ++ [m]) } else s1
      | none => s1) := by
  unfold noteMsg
  refine ⟨_, ?_, rfl⟩
  cases m.obj with
  | none => exact ⟨rfl, rfl, rfl, rfl, rfl⟩
  | some o => simp only []; split <;> exact ⟨rfl, rfl, rfl, rfl, rfl⟩

theorem noteMsg_msgs (s : EState) (m : Msg) : (noteMsg s m).msgs = s.msgs ++ [m] := by
  obtain ⟨s1, ⟨h1, _, _, _, _⟩, he⟩ := noteMsg_eq s m
  rw [he, ← h1]
  split
  · split <;> rfl
  · rfl

theorem noteMsg_rew (s : EState) (m : Msg) : (noteMsg s m).rewindable = s.rewindable := by
  obtain ⟨s1, ⟨_, h2, _, _, _⟩, he⟩ := noteMsg_eq s m
  rw [he, ← h2]
  split
  · split <;> rfl
  · rfl

theorem noteMsg_stacks (s : EState) (m : Msg) :
    (noteMsg s m).planStack = s.planStack ∧ (noteMsg s m).respStack = s.respStack := by
  obtain ⟨s1, ⟨_, _, _, h4, h5⟩, he⟩ := noteMsg_eq s m
  rw [he, ← h4, ← h5]
  split
  · split <;> exact ⟨rfl, rfl⟩
  · exact ⟨rfl, rfl⟩

theorem noteMsg_cache (s : EState) (m : Msg) : (noteMsg s m).msgCache =
    match s.msgCache with
    | some c => if s.rewindable && cacheable m then some (c ++ [m]) else some c
    | none => none := by
  obtain ⟨s1, ⟨_, h2, h3, _, _⟩, he⟩ := noteMsg_eq s m
  rw [he, ← h2, ← h3]
  unfold cacheable
  cases hc : s1.msgCache with
  | none => simp only [hc]
  | some c =>
    simp only []
    split
    · rfl
    · exact hc

/-! ### the global invariant -/

/-- The cache, when there is one, is exactly the cacheable messages among the last processed ones (a
    suffix of the log `msgs`: same messages, same order, none skipped), and it is empty while the plan is
    marked non-rewindable. -/
def CacheInv (s : EState) : Prop :=
  ∀ c, s.msgCache = some c →
    (s.rewindable = false → c = []) ∧ ∃ k, k ≤ s.msgs.length ∧ c = (s.msgs.drop k).filter cacheable

/-- a move of (cache, flag) that processes no message: the cache is kept, emptied or dropped; the flag
    changes only together with a reset -/
def CacheMove (s s' : EState) : Prop :=
  s'.msgs = s.msgs ∧
    ((s'.rewindable = s.rewindable ∧ s'.msgCache = s.msgCache) ∨ s'.msgCache = resetOpt s.msgCache ∨
      s'.msgCache = some [] ∨ s'.msgCache = none)

theorem cacheInv_empty (s : EState) (h : s.msgCache = some []) : CacheInv s := by
  intro c hc
  rw [h] at hc; cases hc
  exact ⟨fun _ => rfl, s.msgs.length, Nat.le_refl _, by simp⟩

theorem cacheInv_none (s : EState) (h : s.msgCache = none) : CacheInv s := by
  intro c hc; rw [h] at hc; cases hc

theorem cacheInv_move {s s' : EState} (hi : CacheInv s) (hm : CacheMove s s') : CacheInv s' := by
  obtain ⟨hmsgs, h⟩ := hm
  rcases h with ⟨hr, hc⟩ | hc | hc | hc
  · intro c hc'
    rw [hc] at hc'
    obtain ⟨h1, k, hk, h2⟩ := hi c hc'
    exact ⟨fun hf => h1 (hr ▸ hf), k, hmsgs ▸ hk, hmsgs ▸ h2⟩
  · cases hs : s.msgCache with
    | none => rw [hs] at hc; exact cacheInv_none _ hc
    | some c0 => rw [hs] at hc; exact cacheInv_empty _ hc
  · exact cacheInv_empty _ hc
  · exact cacheInv_none _ hc

theorem cacheMove_refl (s : EState) : CacheMove s s := ⟨rfl, Or.inl ⟨rfl, rfl⟩⟩

theorem cacheMove_of_ck {s s' : EState} (h : ck s' = ck s) : CacheMove s s' :=
  ⟨ck_msgs h, Or.inl ⟨ck_rew h, ck_cache h⟩⟩

theorem cacheMove_of_reset {s s' : EState} (h : ck s' = (ck s).reset) : CacheMove s s' :=
  ⟨congrArg Ck.msgs h, Or.inr (Or.inl (congrArg Ck.cache h))⟩

theorem cacheMove_of_fresh {s s' : EState} (h : ck s' = (ck s).fresh) : CacheMove s s' :=
  ⟨congrArg Ck.msgs h, Or.inr (Or.inr (Or.inl (congrArg Ck.cache h)))⟩

theorem cacheMove_trans {a b c : EState} (h1 : CacheMove a b) (h2 : CacheMove b c) : CacheMove a c := by
  obtain ⟨m1, h1⟩ := h1
  obtain ⟨m2, h2⟩ := h2
  refine ⟨m2.trans m1, ?_⟩
  rcases h2 with ⟨r2, c2⟩ | c2 | c2 | c2
  · rcases h1 with ⟨r1, c1⟩ | c1 | c1 | c1
    · exact Or.inl ⟨r2.trans r1, c2.trans c1⟩
    · exact Or.inr (Or.inl (c2.trans c1))
    · exact Or.inr (Or.inr (Or.inl (c2.trans c1)))
    · exact Or.inr (Or.inr (Or.inr (c2.trans c1)))
  · rcases h1 with ⟨_, c1⟩ | c1 | c1 | c1
    · exact Or.inr (Or.inl (c1 ▸ c2))
    · rw [c1, resetOpt_idem] at c2; exact Or.inr (Or.inl c2)
    · rw [c1] at c2; exact Or.inr (Or.inr (Or.inl c2))
    · rw [c1] at c2; exact Or.inr (Or.inr (Or.inr c2))
  · exact Or.inr (Or.inr (Or.inl c2))
  · exact Or.inr (Or.inr (Or.inr c2))

theorem cacheInv_noteMsg {s : EState} (hi : CacheInv s) (m : Msg) : CacheInv (noteMsg s m) := by
  intro c hc
  rw [noteMsg_cache] at hc
  rw [noteMsg_rew, noteMsg_msgs]
  cases hs : s.msgCache with
  | none => rw [hs] at hc; cases hc
  | some c0 =>
    rw [hs] at hc
    obtain ⟨h1, k, hk, h2⟩ := hi c0 hs
    simp only [] at hc
    by_cases hcond : (s.rewindable && cacheable m) = true
    · rw [if_pos hcond] at hc; cases hc
      simp only [Bool.and_eq_true] at hcond
      refine ⟨fun hf => by rw [hf] at hcond; exact absurd hcond.1 (by decide), k, by simp; omega, ?_⟩
      rw [List.drop_append_of_le_length hk, List.filter_append, ← h2]
      simp [hcond.2]
    · rw [if_neg hcond] at hc; cases hc
      refine ⟨h1, ?_⟩
      cases hr : s.rewindable with
      | false =>
        refine ⟨s.msgs.length + 1, by simp, ?_⟩
        rw [h1 hr]; simp
      | true =>
        have hcm : cacheable m = false := by
          rw [hr] at hcond; simpa using hcond
        refine ⟨k, by simp; omega, ?_⟩
        rw [List.drop_append_of_le_length hk, List.filter_append, ← h2]
        simp [hcm]

end BlueskyVerif.Engine
