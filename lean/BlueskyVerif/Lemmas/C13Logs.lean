/-
C13 / C12 helper lemmas: the message log (`msgs`, what msg_hook saw) and the plan-side log (`yields`) are only
written by `noteMsg` / `logYield` (and `closeGen` in the final cleanup); `_pardon_failures` only by the cleanup and
`__call__`; `self._exception` only by status completions, the request coroutines and `takeResp`: every data
operation and every command handler leaves all four alone.  (Same proofs as the `stk_*` lemmas of C13Stack.lean, for another projection.)
-/
import BlueskyVerif.Lemmas.C13Stack

namespace BlueskyVerif.Engine

structure Lg where
  msgs : List Msg
  yields : List (Nat × Inp)
  pardon : Bool               -- `_pardon_failures` is set
  slot : Option Exc           -- `self._exception`

def lg (s : EState) : Lg := { msgs := s.msgs, yields := s.yields, pardon := s.pardon, slot := s.exceptionSlot }

theorem lg_foldl {α} (f : EState → α → EState) (h : ∀ s a, lg (f s a) = lg s) (l : List α) (s : EState) :
    lg (l.foldl f s) = lg s := by
  induction l generalizing s with
  | nil => rfl
  | cons a l ih => rw [List.foldl_cons, ih, h]

theorem lg_forBundlers_go (f : EState → Bundler → EState × Bundler) (h : ∀ s b, lg (f s b).1 = lg s)
    (todo done : List (String × Bundler)) (s : EState) : lg (forBundlers.go f s todo done) = lg s := by
  induction todo generalizing s done with
  | nil => rfl
  | cons kb rest ih =>
    obtain ⟨k, b⟩ := kb
    unfold forBundlers.go
    simp only []
    rw [ih]; exact h s b

theorem lg_forBundlers (f : EState → Bundler → EState × Bundler) (h : ∀ s b, lg (f s b).1 = lg s) (s : EState) :
    lg (forBundlers s f) = lg s := lg_forBundlers_go f h _ _ s

@[simp] theorem lg_logCall (s : EState) (c : Call) : lg (s.logCall c) = lg s := rfl
@[simp] theorem lg_emit (s : EState) (d : Doc) : lg (s.emit d) = lg s := rfl
@[simp] theorem lg_setDev (s : EState) (n : String) (d : DevState) : lg (setDev s n d) = lg s := rfl
@[simp] theorem lg_nextMode (s : EState) (n op : String) : lg (nextMode s n op).2 = lg s := rfl
@[simp] theorem lg_putBundler (s : EState) (m : Msg) (b : Bundler) : lg (putBundler s m b) = lg s := rfl
@[simp] theorem lg_emitEvent (s : EState) (b : Bundler) (st : String) (d : List (String × Int)) (n : String) :
    lg (emitEvent s b st d n).1 = lg s := rfl
@[simp] theorem lg_prepareStream (s : EState) (b : Bundler) (st : String) (o : List String) :
    lg (prepareStream s b st o).1 = lg s := rfl
@[simp] theorem lg_newStatus (s : EState) (d o m : String) (g : Option String) : lg (newStatus s d o m g).2 = lg s := rfl

@[simp] theorem lg_recordInterruption (s : EState) (b : Bundler) (c : String) : lg (recordInterruption s b c).1 = lg s := by
  unfold recordInterruption; split <;> rfl

@[simp] theorem lg_suspendMonitors (s : EState) (b : Bundler) : lg (suspendMonitors s b).1 = lg s := by
  unfold suspendMonitors; apply lg_foldl; intro s x; rfl

@[simp] theorem lg_restoreMonitors (s : EState) (b : Bundler) : lg (restoreMonitors s b).1 = lg s := by
  unfold restoreMonitors; apply lg_foldl; intro s x; rfl

@[simp] theorem lg_clearMonitors (s : EState) (b : Bundler) : lg (clearMonitors s b).1 = lg s := by
  unfold clearMonitors; simp

@[simp] theorem lg_closeRunDoc (s : EState) (b : Bundler) (e r : String) : lg (closeRunDoc s b e r).1 = lg s := by
  unfold closeRunDoc; simp

@[simp] theorem lg_forBundlers_pure (s : EState) (g : Bundler → Bundler) :
    lg (forBundlers s (fun s b => (s, g b))) = lg s := lg_forBundlers _ (fun _ _ => rfl) _

@[simp] theorem lg_forBundlers_ri (s : EState) (c : String) :
    lg (forBundlers s (fun s b => recordInterruption s b c)) = lg s :=
  lg_forBundlers _ (fun s b => lg_recordInterruption s b c) _

@[simp] theorem lg_forBundlers_restore (s : EState) : lg (forBundlers s restoreMonitors) = lg s :=
  lg_forBundlers _ lg_restoreMonitors _

@[simp] theorem lg_forBundlers_suspend (s : EState) : lg (forBundlers s suspendMonitors) = lg s :=
  lg_forBundlers _ lg_suspendMonitors _

@[simp] theorem lg_forBundlers_clear (s : EState) : lg (forBundlers s clearMonitors) = lg s :=
  lg_forBundlers _ lg_clearMonitors _

@[simp] theorem lg_resetCheckpointMeth (s : EState) : lg (resetCheckpointMeth s) = lg s := by
  unfold resetCheckpointMeth; split
  · rfl
  · rw [lg_forBundlers_pure]; rfl

@[simp] theorem lg_stopMovables (s : EState) : lg (stopMovables s) = lg s := by
  unfold stopMovables; apply lg_foldl; intro s x; rfl

@[simp] theorem lg_pauseHooks (s : EState) : lg (pauseHooks s) = lg s := by
  unfold pauseHooks
  apply lg_foldl
  intro s n
  split
  · split
    · simp only []; split <;> simp
    · rfl
  · rfl

@[simp] theorem lg_resumeHooks (s : EState) : lg (resumeHooks s) = lg s := by
  unfold resumeHooks
  apply lg_foldl
  intro s n
  split
  · split <;> rfl
  · rfl

@[simp] theorem lg_rewindPlan (s : EState) : lg (rewindPlan s).2 = lg s := by
  unfold rewindPlan
  simp only []
  split
  · rfl
  · rw [lg_forBundlers_pure]; rfl

theorem lg_setState {s s' : EState} {n : St} (h : setState s n = .ok s') : lg s' = lg s := by
  unfold setState at h; split at h
  · cases h; rfl
  · cases h

theorem lg_requestPause {s s' : EState} {d : Bool} (h : requestPause s d = .ok s') : lg s' = lg s := by
  unfold requestPause at h
  split at h
  · cases h
  · split at h
    · cases h; rfl
    · split at h
      · cases h
      · rename_i s1 hs
        cases h
        have h1 := lg_setState hs
        have e : ∀ (x : EState) (b : Bool), lg { x with cancelPending := b } = lg x := fun _ _ => rfl
        rw [e, lg_forBundlers_ri, h1]; rfl

/-- close a goal `lg (f ... s ...) = lg s` after unfolding `f` -/
macro "frame_lg" : tactic =>
  `(tactic| repeat' (first | rfl | (simp; done) | split | (simp only []; (first | rfl | split))))

theorem lg_cmdOpenRun (s : EState) (m : Msg) : lg (cmdOpenRun s m).1 = lg s := by unfold cmdOpenRun; frame_lg
theorem lg_with_bundlers (x : EState) (l : List (String × Bundler)) : lg { x with bundlers := l } = lg x := rfl
theorem lg_with_msgCache (x : EState) (l : Option (List Msg)) : lg { x with msgCache := l } = lg x := rfl
theorem lg_with_rewindable (x : EState) (l : Bool) : lg { x with rewindable := l } = lg x := rfl
theorem lg_with_staged (x : EState) (l : List String) : lg { x with staged := l } = lg x := rfl

theorem lg_cmdCloseRun (s : EState) (m : Msg) : lg (cmdCloseRun s m).1 = lg s := by
  unfold cmdCloseRun
  split
  · rfl
  · rename_i b hb
    split
    · rfl
    · simp only []
      have h1 := lg_closeRunDoc s b (m.name.getD "success") ""
      generalize closeRunDoc s b (m.name.getD "success") "" = p at h1
      obtain ⟨s1, b1⟩ := p
      simp only [] at h1 ⊢
      split
      · rw [lg_resetCheckpointMeth, lg_with_bundlers]; exact h1
      · rw [lg_with_bundlers]; exact h1
theorem lg_cmdCreate (s : EState) (m : Msg) : lg (cmdCreate s m).1 = lg s := by unfold cmdCreate; frame_lg
theorem lg_cmdRead (s : EState) (m : Msg) : lg (cmdRead s m).1 = lg s := by unfold cmdRead; frame_lg
theorem lg_cmdSave (s : EState) (m : Msg) : lg (cmdSave s m).1 = lg s := by unfold cmdSave; frame_lg
theorem lg_cmdDrop (s : EState) (m : Msg) : lg (cmdDrop s m).1 = lg s := by unfold cmdDrop; frame_lg
theorem lg_cmdCheckpoint (s : EState) : lg (cmdCheckpoint s).1 = lg s := by unfold cmdCheckpoint; frame_lg
theorem lg_cmdClearCheckpoint (s : EState) : lg (cmdClearCheckpoint s).1 = lg s := by
  unfold cmdClearCheckpoint
  simp only []
  rw [lg_forBundlers_pure]; rfl
theorem lg_cmdRewindable (s : EState) (m : Msg) : lg (cmdRewindable s m).1 = lg s := by
  unfold cmdRewindable
  split
  · rfl
  · simp only []
    split
    · rw [lg_resetCheckpointMeth]; rfl
    · rfl
theorem lg_cmdSet (s : EState) (m : Msg) : lg (cmdSet s m).1 = lg s := by unfold cmdSet; frame_lg
theorem lg_cmdTrigger (s : EState) (m : Msg) : lg (cmdTrigger s m).1 = lg s := by unfold cmdTrigger; frame_lg
theorem lg_cmdWait (s : EState) (m : Msg) : lg (cmdWait s m).1 = lg s := by unfold cmdWait; frame_lg
theorem lg_cmdStage (s : EState) (m : Msg) (op : String) : lg (cmdStage s m op).1 = lg s := by
  unfold cmdStage
  simp only []
  split
  · rfl
  · rw [lg_resetCheckpointMeth]
    split
    · split <;> rfl
    · rfl
theorem lg_cmdMonitor (s : EState) (m : Msg) : lg (cmdMonitor s m).1 = lg s := by unfold cmdMonitor; frame_lg
theorem lg_cmdUnmonitor (s : EState) (m : Msg) : lg (cmdUnmonitor s m).1 = lg s := by unfold cmdUnmonitor; frame_lg
theorem lg_cmdResumeFromSuspender (s : EState) : lg (cmdResumeFromSuspender s).1 = lg s := by
  unfold cmdResumeFromSuspender; frame_lg
theorem lg_cmdWaitFor (s : EState) (m : Msg) : lg (cmdWaitFor s m).1 = lg s := by unfold cmdWaitFor; frame_lg


theorem lg_cmdStartSuspender (s : EState) (m : Msg) : lg (cmdStartSuspender s m).1 = lg s := by
  unfold cmdStartSuspender
  split
  · rfl
  · rename_i rq hrq
    simp only []
    have h := lg_rewindPlan (pauseHooks (stopMovables (forBundlers s fun s b => recordInterruption s b (rq.just.getD "suspended"))))
    rw [lg_pauseHooks, lg_stopMovables, lg_forBundlers_ri] at h
    generalize rewindPlan (pauseHooks (stopMovables (forBundlers s fun s b => recordInterruption s b (rq.just.getD "suspended")))) = p at h
    obtain ⟨rw, s1⟩ := p
    simp only [] at h ⊢
    exact h

/-- no command handler writes to the message log or to the plan-side log -/
theorem runCommand_lg (s : EState) (m : Msg) : lg (runCommand s m).1 = lg s := by
  unfold runCommand
  split
  · exact lg_cmdOpenRun s m
  · exact lg_cmdCloseRun s m
  · exact lg_cmdCreate s m
  · exact lg_cmdRead s m
  · exact lg_cmdSave s m
  · exact lg_cmdDrop s m
  · exact lg_cmdCheckpoint s
  · exact lg_cmdClearCheckpoint s
  · exact lg_cmdRewindable s m
  · exact lg_cmdSet s m
  · exact lg_cmdTrigger s m
  · exact lg_cmdWait s m
  · rfl
  · exact lg_cmdStage s m _
  · exact lg_cmdStage s m _
  · exact lg_cmdMonitor s m
  · exact lg_cmdUnmonitor s m
  · rfl
  · split
    · rename_i s' h; exact lg_requestPause h
    · rfl
  · exact lg_cmdStartSuspender s m
  · exact lg_cmdResumeFromSuspender s
  · exact lg_cmdWaitFor s m
  · rfl

theorem runCommand_msgs (s : EState) (m : Msg) : (runCommand s m).1.msgs = s.msgs := congrArg Lg.msgs (runCommand_lg s m)
theorem runCommand_slot (s : EState) (m : Msg) : (runCommand s m).1.exceptionSlot = s.exceptionSlot := congrArg Lg.slot (runCommand_lg s m)
theorem runCommand_pardon (s : EState) (m : Msg) : (runCommand s m).1.pardon = s.pardon := congrArg Lg.pardon (runCommand_lg s m)
theorem runCommand_yields (s : EState) (m : Msg) : (runCommand s m).1.yields = s.yields := congrArg Lg.yields (runCommand_lg s m)

end BlueskyVerif.Engine
