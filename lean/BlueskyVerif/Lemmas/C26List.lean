/-
Helper lemmas for C26 (part 1): the list constructions of `snake_cyclers` (repeat / tile / mirror /
take, cycler `+` and `*`) computed in closed form.  Core Lean only.
-/
import BlueskyVerif.Pure.Snake
namespace BlueskyVerif.Pure.Snake
variable {α : Type}

theorem length_repeatEach (n : Nat) (v : List α) : (repeatEach n v).length = n * v.length := by
  induction v with
  | nil => simp [repeatEach]
  | cons x xs ih => simp [repeatEach, ih, Nat.mul_add, Nat.add_comm]

theorem getElem?_repeatEach (n : Nat) (hn : 0 < n) (v : List α) (p : Nat) :
    (repeatEach n v)[p]? = v[p / n]? := by
  induction v generalizing p with
  | nil => simp [repeatEach]
  | cons x xs ih =>
    simp only [repeatEach, List.getElem?_append, List.length_replicate, List.getElem?_replicate]
    by_cases h : p < n
    · simp [h, Nat.div_eq_of_lt h]
    · have hp : n ≤ p := Nat.le_of_not_lt h
      have : p / n = (p - n) / n + 1 := by
        rw [← Nat.sub_add_cancel hp, Nat.add_div_right _ hn]; simp
      simp [h, ih, this]

theorem length_tile (n : Nat) (v : List α) : (tile n v).length = n * v.length := by
  induction n with
  | zero => simp [tile]
  | succ n ih => simp [tile, ih, Nat.add_mul, Nat.add_comm]

theorem getElem?_tile (n : Nat) (v : List α) (p : Nat) (h : p < n * v.length) :
    (tile n v)[p]? = v[p % v.length]? := by
  induction n generalizing p with
  | zero => simp at h
  | succ n ih =>
    simp only [tile, List.getElem?_append]
    by_cases hp : p < v.length
    · simp [hp, Nat.mod_eq_of_lt hp]
    · have hle : v.length ≤ p := Nat.le_of_not_lt hp
      have h' : p - v.length < n * v.length := by
        rw [Nat.add_mul] at h; omega
      simp [hp, ih _ h']
      rw [Nat.mod_eq_sub_mod hle]

theorem prod_append (a b : List Nat) : prod (a ++ b) = prod a * prod b := by
  induction a with
  | nil => simp [prod]
  | cons x xs ih => simp [prod, ih, Nat.mul_assoc]

theorem prod_split (lengths : List Nat) (i L : Nat) (h : lengths[i]? = some L) :
    prod lengths = prod (lengths.take i) * (L * prod (lengths.drop (i + 1))) := by
  have hi : i < lengths.length := by
    rcases Nat.lt_or_ge i lengths.length with h' | h'
    · exact h'
    · simp [List.getElem?_eq_none h'] at h
  have : lengths = lengths.take i ++ L :: lengths.drop (i + 1) := by
    have hL : lengths[i] = L := by simpa [List.getElem?_eq_getElem hi] using h
    rw [← hL, List.getElem_cons_drop, List.take_append_drop]
  conv => lhs; rw [this]
  simp [prod_append, prod]

/-- the mirrored copy: indexing into `v ++ v.reverse` -/
theorem getElem?_mirror (v : List α) (q : Nat) (hL : 0 < v.length) :
    (v ++ v.reverse)[q % (v.length * 2)]? =
      v[if q / v.length % 2 = 1 then v.length - 1 - q % v.length else q % v.length]? := by
  have hlt : q % v.length < v.length := Nat.mod_lt _ hL
  rw [Nat.mod_mul, List.getElem?_append]
  rcases Nat.mod_two_eq_zero_or_one (q / v.length) with h | h
  · simp [h, hlt]
  · have : ¬ (q % v.length + v.length * 1 < v.length) := by omega
    simp only [h, this, if_false, if_true]
    rw [List.getElem?_reverse (by omega)]
    congr 1; omega

theorem getElem?_snakeColumn (lengths : List Nat) (i : Nat) (v : List α) (s : Bool) (p : Nat)
    (hi : lengths[i]? = some v.length) (hp : p < prod lengths) :
    (snakeColumn lengths i v s)[p]? = v[idxAt v.length (prod (lengths.drop (i + 1))) s p]? := by
  have hsplit := prod_split lengths i v.length hi
  generalize hT : prod (lengths.take i) = T at hsplit
  generalize hR : prod (lengths.drop (i + 1)) = R at hsplit
  have hR0 : 0 < R := by
    rcases Nat.eq_zero_or_pos R with h | h
    · subst h; simp [hsplit] at hp
    · exact h
  have hL0 : 0 < v.length := by
    rcases Nat.eq_zero_or_pos v.length with h | h
    · rw [h] at hsplit; simp [hsplit] at hp
    · exact h
  unfold snakeColumn
  simp only [Gen.tilesUpTo, Gen.repeatsFrom, Gen.forwardFirst, Nat.add_zero, if_true, hT, hR]
  rw [List.getElem?_take, if_pos hp]
  cases s with
  | false =>
    have hp' : p < T * (repeatEach R v).length := by
      rw [length_repeatEach]; rw [hsplit] at hp
      rwa [Nat.mul_comm R]
    simp only [Bool.false_eq_true, if_false]
    rw [getElem?_tile _ _ _ hp', length_repeatEach, getElem?_repeatEach _ hR0,
      Nat.mod_mul_right_div_self]
    simp [idxAt]
  | true =>
    have hp' : p < T * (repeatEach R (v ++ v.reverse)).length := by
      rw [length_repeatEach]; rw [hsplit] at hp
      simp only [List.length_append, List.length_reverse]
      calc p < T * (v.length * R) := hp
        _ ≤ T * (R * (v.length + v.length)) := by
            apply Nat.mul_le_mul_left
            rw [Nat.mul_comm R]
            exact Nat.mul_le_mul_right _ (Nat.le_add_right _ _)
    simp only [if_true]
    rw [getElem?_tile _ _ _ hp', length_repeatEach, getElem?_repeatEach _ hR0,
      Nat.mod_mul_right_div_self]
    have : (v ++ v.reverse).length = v.length * 2 := by simp; omega
    rw [this, getElem?_mirror _ _ hL0]
    simp only [idxAt, Bool.true_and, beq_iff_eq]
    rw [Nat.div_div_eq_div_mul, Nat.mul_comm R v.length]

theorem length_snakeColumn (lengths : List Nat) (i : Nat) (v : List α) (s : Bool)
    (hi : lengths[i]? = some v.length) :
    (snakeColumn lengths i v s).length = prod lengths := by
  have hsplit := prod_split lengths i v.length hi
  unfold snakeColumn
  simp only [Gen.tilesUpTo, Gen.repeatsFrom, Gen.forwardFirst, Nat.add_zero, if_true]
  rw [List.length_take, length_tile, length_repeatEach]
  apply Nat.min_eq_left
  rw [hsplit]
  apply Nat.mul_le_mul_left
  rw [Nat.mul_comm]
  apply Nat.mul_le_mul_left
  cases s <;> simp


theorem cyc_eq_range (c : List α) : cyc c = (List.range c.length).map (fun p => (c[p]?).toList) := by
  apply List.ext_getElem?
  intro i
  simp only [cyc, List.getElem?_map]
  by_cases h : i < c.length
  · simp [h]
  · simp [List.getElem?_eq_none (Nat.le_of_not_lt h), List.getElem?_eq_none (l := List.range c.length) (by simpa using Nat.le_of_not_lt h)]

theorem addC_range (N : Nat) (f : Nat → List α) (c : List α) (hc : c.length = N) :
    addC ((List.range N).map f) (cyc c) = (List.range N).map (fun p => f p ++ (c[p]?).toList) := by
  subst hc
  rw [cyc_eq_range, addC, List.zipWith_map_left, List.zipWith_map_right, List.zipWith_self]

theorem foldl_addC (N : Nat) (cols : List (List α)) (hc : ∀ c ∈ cols, c.length = N) (f : Nat → List α) :
    (cols.map cyc).foldl addC ((List.range N).map f) =
      (List.range N).map (fun p => f p ++ cols.flatMap (fun c => (c[p]?).toList)) := by
  induction cols generalizing f with
  | nil => simp
  | cons c cs ih =>
    rw [List.map_cons, List.foldl_cons, addC_range N f c (hc c (by simp)),
      ih (fun c' h => hc c' (by simp [h]))]
    simp [List.append_assoc]

theorem reduce1_addC (N : Nat) (cols : List (List α)) (hne : cols ≠ [])
    (hc : ∀ c ∈ cols, c.length = N) :
    reduce1 addC (cols.map cyc) =
      some ((List.range N).map (fun p => cols.flatMap (fun c => (c[p]?).toList))) := by
  cases cols with
  | nil => exact absurd rfl hne
  | cons c cs =>
    have h0 : c.length = N := hc c (by simp)
    rw [List.map_cons, reduce1, cyc_eq_range, h0, foldl_addC N cs (fun c' h => hc c' (by simp [h]))]
    simp

theorem mem_snakeColumnsFrom_length (pre : List Nat) (cs : List (List α)) (ss : List Bool) :
    ∀ c ∈ snakeColumnsFrom (pre ++ cs.map List.length) pre.length cs ss,
      c.length = prod (pre ++ cs.map List.length) := by
  induction cs generalizing pre ss with
  | nil => intro c h; simp [snakeColumnsFrom] at h
  | cons v vs ih =>
    cases ss with
    | nil => intro c h; simp [snakeColumnsFrom] at h
    | cons s ss =>
      intro c h
      simp only [snakeColumnsFrom, List.mem_cons] at h
      rcases h with h | h
      · subst h
        apply length_snakeColumn
        simp
      · have := ih (pre ++ [v.length]) ss c
        simp only [List.length_append, List.length_cons, List.length_nil, List.append_assoc,
          List.cons_append, List.nil_append, Nat.zero_add] at this
        exact this h

theorem columns_pick (pre : List Nat) (cs : List (List α)) (ss : List Bool)
    (hlen : cs.length = ss.length) (p : Nat) (hp : p < prod (pre ++ cs.map List.length)) :
    (snakeColumnsFrom (pre ++ cs.map List.length) pre.length cs ss).flatMap (fun c => (c[p]?).toList)
      = pick cs (idxs ((cs.map List.length).zip ss) p) := by
  induction cs generalizing pre ss with
  | nil => simp [snakeColumnsFrom, pick]
  | cons v vs ih =>
    cases ss with
    | nil => simp at hlen
    | cons s ss =>
      have hlen' : vs.length = ss.length := by simpa using hlen
      have hfst : ((vs.map List.length).zip ss).map (·.1) = vs.map List.length := by
        apply List.map_fst_zip; simp [hlen']
      simp only [snakeColumnsFrom, List.flatMap_cons, List.map_cons, List.zip_cons_cons, idxs, pick, hfst]
      have hcol := getElem?_snakeColumn (pre ++ v.length :: vs.map List.length) pre.length v s p
        (by simp) (by simpa using hp)
      have hdrop : List.drop (pre.length + 1) (pre ++ v.length :: vs.map List.length) = vs.map List.length := by
        rw [show pre ++ v.length :: vs.map List.length = (pre ++ [v.length]) ++ vs.map List.length by simp]
        rw [List.drop_left' (by simp)]
      rw [hdrop] at hcol
      rw [hcol]
      have := ih (pre ++ [v.length]) ss hlen' (by simpa using hp)
      simp only [List.length_append, List.length_cons, List.length_nil, List.append_assoc,
          List.cons_append, List.nil_append, Nat.zero_add] at this
      rw [this]

theorem flatMap_congr' {β γ : Type} {l : List β} {f g : β → List γ} (h : ∀ x ∈ l, f x = g x) :
    l.flatMap f = l.flatMap g := by
  rw [List.flatMap_def, List.flatMap_def, List.map_congr_left h]

/-- right-nested outer product of label lists (row-major) -/
def prodPts : List (List α) → List (List α)
  | [] => [[]]
  | c :: cs => c.flatMap fun a => (prodPts cs).map fun t => a :: t

theorem foldl_mulC (acc : List (List α)) (cs : List (List α)) :
    (cs.map cyc).foldl mulC acc = acc.flatMap (fun x => (prodPts cs).map (x ++ ·)) := by
  induction cs generalizing acc with
  | nil => simp [prodPts]
  | cons c cs ih =>
    rw [List.map_cons, List.foldl_cons, ih]
    simp [mulC, cyc, prodPts, List.flatMap_assoc, List.flatMap_map, List.map_flatMap, Function.comp_def]

theorem reduce1_mulC (cs : List (List α)) (hne : cs ≠ []) :
    reduce1 mulC (cs.map cyc) = some (prodPts cs) := by
  cases cs with
  | nil => exact absurd rfl hne
  | cons c cs =>
    rw [List.map_cons, reduce1, foldl_mulC]
    simp [cyc, prodPts, List.flatMap_map]

theorem flatMap_eq_range {β : Type} (c : List α) (f : α → List β) :
    c.flatMap f = (List.range c.length).flatMap (fun i => (c[i]?).toList.flatMap f) := by
  induction c with
  | nil => simp
  | cons x xs ih =>
    rw [List.length_cons, List.range_succ_eq_map, List.flatMap_cons, List.flatMap_cons, List.flatMap_map, ih]
    simp

theorem prodPts_eq_grid (cs : List (List α)) :
    prodPts cs = (grid (cs.map List.length)).map (pick cs) := by
  induction cs with
  | nil => simp [prodPts, grid, pick]
  | cons c cs ih =>
    simp only [prodPts, List.map_cons, grid, List.map_flatMap, List.map_map]
    rw [flatMap_eq_range]
    apply flatMap_congr'
    intro i hi
    have hi' : i < c.length := by simpa using hi
    simp [List.getElem?_eq_getElem hi', ih, pick, Function.comp_def]

theorem range_mul (L R : Nat) :
    List.range (L * R) = (List.range L).flatMap (fun a => (List.range R).map (fun b => a * R + b)) := by
  induction L with
  | zero => simp
  | succ L ih =>
    rw [Nat.add_mul, Nat.one_mul, List.range_add, ih, List.range_succ, List.flatMap_append]
    simp

theorem digits_add_mul (Ls : List Nat) (k b : Nat) : digits Ls (k * prod Ls + b) = digits Ls b := by
  induction Ls generalizing k with
  | nil => simp [digits]
  | cons L rest ih =>
    simp only [digits, prod]
    have h2 := ih (k * L)
    rw [Nat.mul_assoc] at h2
    rw [h2]
    congr 1
    rcases Nat.eq_zero_or_pos (prod rest) with h0 | h0
    · simp [h0]
    · rw [← Nat.mul_assoc, Nat.mul_comm _ (prod rest), Nat.mul_add_div h0, Nat.mul_comm k L, Nat.mul_add_mod]

theorem grid_eq_digits (Ls : List Nat) : grid Ls = (List.range (prod Ls)).map (digits Ls) := by
  induction Ls with
  | nil => simp [grid, prod, digits, List.range_succ]
  | cons L rest ih =>
    simp only [grid, prod]
    rw [range_mul, List.map_flatMap]
    apply flatMap_congr'
    intro a ha
    have ha' : a < L := by simpa using ha
    rw [ih, List.map_map, List.map_map]
    apply List.map_congr_left
    intro b hb
    have hb' : b < prod rest := by simpa using hb
    have hR : 0 < prod rest := by omega
    simp only [Function.comp, digits]
    rw [digits_add_mul, Nat.mul_comm a, Nat.mul_add_div hR, Nat.div_eq_of_lt hb', Nat.add_zero,
      Nat.mod_eq_of_lt ha']

theorem idxs_unsnaked (axes : List (Nat × Bool)) (h : ∀ x ∈ axes, x.2 = false) (p : Nat) :
    idxs axes p = digits (axes.map (·.1)) p := by
  induction axes with
  | nil => simp [idxs, digits]
  | cons x rest ih =>
    obtain ⟨L, s⟩ := x
    have hs : s = false := h (L, s) (by simp)
    subst hs
    simp [idxs, digits, idxAt, ih (fun y hy => h y (by simp [hy]))]

theorem idxAt_first (L R : Nat) (s : Bool) (p : Nat) (hp : p < L * R) : idxAt L R s p = p / R % L := by
  simp [idxAt, Nat.div_eq_of_lt hp]


theorem axesOf_fst (cyclers : List (List α)) (flags : List Bool) (hlen : cyclers.length = flags.length) :
    (axesOf cyclers flags).map (·.1) = cyclers.map List.length := by
  unfold axesOf
  apply List.map_fst_zip; simp [hlen]

theorem snakeCyclers_closed_form (cyclers : List (List α)) (flags : List Bool)
    (hlen : cyclers.length = flags.length) (hne : cyclers ≠ []) :
    snakeCyclers cyclers flags = .ok ((traj (axesOf cyclers flags)).map (pick cyclers)) := by
  unfold snakeCyclers
  rw [if_neg (by simp [hlen])]
  simp only [traj, axesOf_fst cyclers flags hlen, List.map_map]
  by_cases hno : noSnaking flags = true
  · -- no snaking beyond the first axis: product path
    rw [if_pos hno]
    simp only [noSnaking, Gen.shortcutFlagsFrom] at hno
    rw [reduce1_mulC cyclers hne, prodPts_eq_grid, grid_eq_digits, List.map_map]
    show Res.ok _ = Res.ok _
    congr 1
    apply List.map_congr_left
    intro p hp
    have hp' : p < prod (cyclers.map List.length) := by simpa using hp
    simp only [Function.comp]
    congr 1
    cases cyclers with
    | nil => exact absurd rfl hne
    | cons c cs =>
      cases flags with
      | nil => simp at hlen
      | cons s ss =>
        have hlen' : cs.length = ss.length := by simpa using hlen
        have hfst : ((cs.map List.length).zip ss).map (·.1) = cs.map List.length := by
          apply List.map_fst_zip; simp [hlen']
        have hall : ∀ x ∈ (cs.map List.length).zip ss, x.2 = false := by
          intro x hx
          have h2 : x.2 ∈ ss := (List.of_mem_zip hx).2
          simp only [List.drop_succ_cons, List.drop_zero, Bool.not_eq_eq_eq_not, Bool.not_true,
            List.any_eq_false] at hno
          simpa using hno x.2 h2
        simp only [axesOf, List.map_cons, List.zip_cons_cons, idxs, digits, hfst]
        rw [idxAt_first _ _ _ _ (by simpa [prod] using hp'), idxs_unsnaked _ hall, hfst]
  · -- snaking: tile/repeat path
    rw [if_neg hno]
    have hcols : snakeColumns cyclers flags ≠ [] := by
      cases cyclers with
      | nil => exact absurd rfl hne
      | cons c cs =>
        cases flags with
        | nil => simp at hlen
        | cons s ss => simp [snakeColumns, snakeColumnsFrom]
    have hl := mem_snakeColumnsFrom_length [] cyclers flags
    simp only [List.nil_append, List.length_nil] at hl
    rw [snakeColumns] at hcols ⊢
    rw [reduce1_addC _ _ hcols hl]
    show Res.ok _ = Res.ok _
    congr 1
    apply List.map_congr_left
    intro p hp
    have hp' : p < prod (cyclers.map List.length) := by simpa using hp
    have := columns_pick [] cyclers flags hlen p (by simpa using hp')
    simp only [List.nil_append, List.length_nil] at this
    simp only [Function.comp, this, axesOf]
end BlueskyVerif.Pure.Snake
