/-
C02 / C08 helper lemmas, part 4: the requests (pause, suspend, abort/stop/halt, status completion,
monitor update) and the scheduler preserve `Res`.
-/
import BlueskyVerif.Lemmas.C02Run

namespace BlueskyVerif.Engine

/-- what an environment action may change of the exit bookkeeping: nothing, except that abort()/halt()
    may store their own status -/
def ActKeep (s s' : EState) : Prop :=
  s'.pc = s.pc ∧ s'.exitExc = s.exitExc ∧ s'.planDone = s.planDone ∧
  (s'.exitStatus = s.exitStatus ∨ ReqStored s'.exitStatus) ∧ (Q s → Q s') ∧ s'.blockingEvent = s.blockingEvent

theorem ActKeep.refl (s : EState) : ActKeep s s := ⟨rfl, rfl, rfl, Or.inl rfl, id, rfl⟩

theorem ActKeep.trans {a b c : EState} (h1 : ActKeep a b) (h2 : ActKeep b c) : ActKeep a c := by
  obtain ⟨a1, a2, a3, a4, a5, a6⟩ := h1
  obtain ⟨b1, b2, b3, b4, b5, b6⟩ := h2
  refine ⟨b1.trans a1, b2.trans a2, b3.trans a3, ?_, fun h => b5 (a5 h), b6.trans a6⟩
  rcases b4 with b4 | b4
  · rcases a4 with a4 | a4
    · exact Or.inl (b4.trans a4)
    · exact Or.inr (b4 ▸ a4)
  · exact Or.inr b4

theorem ActKeep.foldl {α} (f : EState → α → EState) (h : ∀ s a, ActKeep s (f s a)) (l : List α) (s : EState) :
    ActKeep s (l.foldl f s) := by
  induction l generalizing s with
  | nil => exact ActKeep.refl s
  | cons a l ih => rw [List.foldl_cons]; exact (h s a).trans (ih _)

/-- an operation that leaves the whole control projection and `planDone` alone -/
theorem ActKeep.of_ctl {s s' : EState} (h : ctl s' = ctl s) (hp : s'.planDone = s.planDone) : ActKeep s s' :=
  ⟨congrArg Ctl.pc h, congrArg Ctl.exitExc h, hp, Or.inl (congrArg Ctl.exitStatus h),
   fun hq hs => (congrArg Ctl.interrupted h).trans (hq ((congrArg Ctl.state h).symm.trans hs)),
   congrArg Ctl.blockingEvent h⟩

theorem forBundlers_go_planDone (f : EState → Bundler → EState × Bundler) (h : ∀ s b, (f s b).1.planDone = s.planDone)
    (todo done : List (String × Bundler)) (s : EState) : (forBundlers.go f s todo done).planDone = s.planDone := by
  induction todo generalizing s done with
  | nil => rfl
  | cons kb rest ih =>
    obtain ⟨k, b⟩ := kb
    unfold forBundlers.go
    simp only []
    rw [ih]; exact h s b

theorem forBundlers_planDone (f : EState → Bundler → EState × Bundler) (h : ∀ s b, (f s b).1.planDone = s.planDone)
    (s : EState) : (forBundlers s f).planDone = s.planDone := forBundlers_go_planDone f h _ _ s

theorem recordInterruption_planDone (s : EState) (b : Bundler) (c : String) :
    (recordInterruption s b c).1.planDone = s.planDone := by
  unfold recordInterruption; split <;> rfl

theorem requestPause_act {s s' : EState} {d : Bool} (h : requestPause s d = .ok s') : ActKeep s s' := by
  have hpd : s'.planDone = s.planDone := by
    unfold requestPause at h
    split at h
    · cases h
    · split at h
      · cases h; rfl
      · split at h
        · cases h
        · rename_i s1 hs
          cases h
          obtain ⟨_, _, _, _, _, _, k7, _⟩ := setState_keep hs
          show (forBundlers s1 _).planDone = s.planDone
          rw [forBundlers_planDone _ (fun s b => recordInterruption_planDone s b "pause")]
          exact k7
  refine ⟨?_, ?_, hpd, ?_, ?_, ?_⟩
  · by_cases hq : Q s
    · exact (requestPause_keep h hq).2.1
    · -- the frame facts do not depend on Q; re-derive with the trivial invariant
      unfold requestPause at h
      split at h
      · cases h
      · split at h
        · cases h; rfl
        · split at h
          · cases h
          · rename_i s1 hs
            cases h
            obtain ⟨_, _, k3, _⟩ := setState_keep hs
            have hc : ctl (forBundlers s1 (fun s b => recordInterruption s b "pause")) = ctl s1 :=
              ctl_forBundlers _ (fun s b => ctl_recordInterruption s b "pause") _
            exact (congrArg Ctl.pc hc).trans k3
  all_goals
    unfold requestPause at h
    split at h
    · cases h
    · split at h
      · cases h
        first | rfl | exact Or.inl rfl | exact id
      · split at h
        · cases h
        · rename_i s1 hs
          cases h
          obtain ⟨_, k2, k3, k4, k5, k6, _⟩ := setState_keep hs
          have hc : ctl (forBundlers s1 (fun s b => recordInterruption s b "pause")) = ctl s1 :=
            ctl_forBundlers _ (fun s b => ctl_recordInterruption s b "pause") _
          first
            | exact (congrArg Ctl.exitExc hc).trans k5
            | exact Or.inl ((congrArg Ctl.exitStatus hc).trans k6)
            | exact fun _ _ => (congrArg Ctl.interrupted hc).trans k2
            | exact (congrArg Ctl.blockingEvent hc).trans k4

theorem refuse_act (s : EState) (w : String) : ActKeep s (refuse s w) := ⟨rfl, rfl, rfl, Or.inl rfl, id, rfl⟩

theorem getD_stored_abort (x : ExitStatus) : Src.abortSetsExit.getD x = x ∨ ReqStored (Src.abortSetsExit.getD x) := by
  cases h : Src.abortSetsExit with
  | none => exact Or.inl rfl
  | some y => exact Or.inr (Or.inl h)

theorem getD_stored_halt (x : ExitStatus) : Src.haltSetsExit.getD x = x ∨ ReqStored (Src.haltSetsExit.getD x) := by
  cases h : Src.haltSetsExit with
  | none => exact Or.inl rfl
  | some y => exact Or.inr (Or.inr h)

/-- `_abort_coro` / `_stop_coro` / `_halt_coro` always set `_interrupted` first -/
theorem termPrep_act (s : EState) (k r : String) : ActKeep s (termPrep s k r) ∧ (termPrep s k r).interrupted = true := by
  unfold termPrep
  simp only []
  split
  · refine ⟨⟨rfl, rfl, rfl, ?_, fun _ _ => rfl, rfl⟩, rfl⟩
    have : (termTarget k).2.2 = Src.abortSetsExit := by
      rename_i hk
      have hk' : k = "abort" := by simpa using hk
      subst hk'; rfl
    show (termTarget k).2.2.getD s.exitStatus = s.exitStatus ∨ ReqStored ((termTarget k).2.2.getD s.exitStatus)
    rw [this]; exact getD_stored_abort _
  · exact ⟨⟨rfl, rfl, rfl, Or.inl rfl, fun _ _ => rfl, rfl⟩, rfl⟩

theorem termAfter_act (s : EState) (k : String) (w : Bool) (hi : s.interrupted = true) :
    ActKeep s (termAfter s k w) := by
  unfold termAfter
  split
  · simp only []
    split
    · refine ⟨rfl, rfl, rfl, ?_, fun _ _ => hi, rfl⟩
      have : (termTarget k).2.2 = Src.haltSetsExit := by
        rename_i hk
        have hk' : k = "halt" := by simpa using hk
        subst hk'; rfl
      show (termTarget k).2.2.getD s.exitStatus = s.exitStatus ∨ ReqStored ((termTarget k).2.2.getD s.exitStatus)
      rw [this]; exact getD_stored_halt _
    · exact ⟨rfl, rfl, rfl, Or.inl rfl, fun _ _ => hi, rfl⟩
  · exact ⟨rfl, rfl, rfl, Or.inl rfl, fun _ _ => hi, rfl⟩

theorem setState_act {s s' : EState} {n : St} (h : setState s n = .ok s') (hn : n ≠ .pausing ∨ s.interrupted = true) :
    ActKeep s s' := by
  obtain ⟨k1, k2, k3, k4, k5, k6, k7, _⟩ := setState_keep h
  refine ⟨k3, k5, k7, Or.inl k6, ?_, k4⟩
  intro _ hp
  rcases hn with hn | hn
  · rw [k1] at hp; exact absurd hp hn
  · exact k2.trans hn

theorem requestTerminate_act (s : EState) (k r : String) : ActKeep s (requestTerminate s k r) := by
  unfold requestTerminate
  split
  · exact refuse_act s k
  · obtain ⟨hp, hi⟩ := termPrep_act s k r
    split
    · exact refuse_act _ _
    · rename_i s' hs
      have h1 : ActKeep (termPrep s k r) s' := setState_act hs (Or.inr hi)
      have hi' : s'.interrupted = true := (setState_keep hs).2.1.trans hi
      exact hp.trans (h1.trans (termAfter_act s' k _ hi'))

theorem pushSuspender_act (f : Nat) (pre post : Option Gen) (j : Option String) (s : EState) :
    ActKeep s (pushSuspender f pre post j s) := by
  unfold pushSuspender
  simp only []
  split
  · split
    · rename_i s' hs
      refine ActKeep.trans ?_ ((setState_act hs (Or.inl (by decide))).trans ?_)
      · exact ⟨rfl, rfl, rfl, Or.inl rfl, id, rfl⟩
      · exact ⟨rfl, rfl, rfl, Or.inl rfl, id, rfl⟩
    · exact ⟨rfl, rfl, rfl, Or.inl rfl, id, rfl⟩
  · exact ⟨rfl, rfl, rfl, Or.inl rfl, id, rfl⟩

theorem requestSuspend_act (s : EState) (f : Nat) (pre post : Option Gen) (j : Option String) :
    ActKeep s (requestSuspend s f pre post j) := by
  unfold requestSuspend
  split
  · simp only []
    have h0 : ActKeep s { s with interrupted := true, exceptionSlot := some .failedPause } :=
      ⟨rfl, rfl, rfl, Or.inl rfl, fun _ _ => rfl, rfl⟩
    split
    · exact h0.trans (refuse_act _ _)
    · rename_i s' hs
      have h1 := setState_act hs (Or.inl (by decide))
      refine h0.trans (h1.trans ?_)
      split
      · exact ActKeep.trans (b := { s' with cancelPending := true }) ⟨rfl, rfl, rfl, Or.inl rfl, id, rfl⟩
          (pushSuspender_act f pre post j _)
      · exact pushSuspender_act f pre post j _
  · exact pushSuspender_act f pre post j s

theorem completeStatus_act (s : EState) (k : Nat) : ActKeep s (completeStatus s k) := by
  unfold completeStatus
  split
  · exact ActKeep.refl s
  · split
    · exact ActKeep.refl s
    · split <;> exact ⟨rfl, rfl, rfl, Or.inl rfl, id, rfl⟩

theorem flushCompletions_act (s : EState) : ActKeep s (flushCompletions s) := by
  unfold flushCompletions
  exact ActKeep.trans (b := { s with pendingCompl := [] }) ⟨rfl, rfl, rfl, Or.inl rfl, id, rfl⟩
    (ActKeep.foldl _ completeStatus_act _ _)

theorem monitorUpdate_act (s : EState) (sig : String) (v : Int) : ActKeep s (monitorUpdate s sig v) := by
  unfold monitorUpdate
  simp only []
  refine ActKeep.trans (b := setDev s sig { (devOf s sig) with value := v }) ⟨rfl, rfl, rfl, Or.inl rfl, id, rfl⟩ ?_
  apply ActKeep.foldl
  intro s a
  split
  · exact refuse_act _ _
  · exact ⟨rfl, rfl, rfl, Or.inl rfl, id, rfl⟩

theorem applyAction_act (s : EState) (a : Action) : ActKeep s (applyAction s a) := by
  cases a with
  | pause d =>
    simp only [applyAction]; split
    · rename_i s' h; exact requestPause_act h
    · exact refuse_act _ _
  | suspend f pre post j => exact requestSuspend_act s f pre post j
  | release f => simp only [applyAction]; split <;> exact ⟨rfl, rfl, rfl, Or.inl rfl, id, rfl⟩
  | abort => exact requestTerminate_act s _ _
  | stop => exact requestTerminate_act s _ _
  | halt => exact requestTerminate_act s _ _
  | status k ok =>
    simp only [applyAction]; split
    · split
      · exact ActKeep.refl s
      · exact ActKeep.trans (b := { s with statuses := s.statuses.set k _ }) ⟨rfl, rfl, rfl, Or.inl rfl, id, rfl⟩
          (completeStatus_act _ _)
    · exact ActKeep.refl s
  | monitor sig v => exact monitorUpdate_act s sig v

theorem releaseAll_act (s : EState) : ActKeep s (releaseAll s).1 := by
  unfold releaseAll
  simp only []
  exact (ActKeep.foldl _ (fun s k => applyAction_act s _) _ _).trans (ActKeep.foldl _ (fun s f => applyAction_act s _) _ _)

/-! ### `Res` through actions and the scheduler -/

theorem StatusExplained.keep {s s' : EState} (h : StatusExplained s) (k : ActKeep s s') : StatusExplained s' := by
  obtain ⟨e, h1, h2, h3, h4⟩ := h
  obtain ⟨_, k2, k3, k4, _, _⟩ := k
  refine ⟨e, k2.trans h1, ?_, fun he => k3.trans (h3 he), h4⟩
  rcases k4 with k4 | k4
  · rcases h2 with h2 | h2
    · exact Or.inl (k4.trans h2)
    · exact Or.inr (k4 ▸ h2)
  · exact Or.inr k4

/-- while the caller is blocked and the task has not ended, actions keep `Res` -/
theorem Res.act {s s' : EState} (h : Res s) (hb : s.blockingEvent = false) (hnf : s.pc ≠ .finished)
    (k : ActKeep s s') : Res s' ∧ s'.blockingEvent = false ∧ s'.pc ≠ .finished := by
  have hb' : s'.blockingEvent = false := k.2.2.2.2.2.trans hb
  have hpc : s'.pc = s.pc := k.1
  refine ⟨⟨k.2.2.2.2.1 h.1, ?_, ?_, ?_⟩, hb', hpc ▸ hnf⟩
  · intro hp; exact (h.2.1 (hpc ▸ hp)).keep k
  · intro hp; exact absurd (hpc ▸ hp) hnf
  · intro hbe; rw [hb'] at hbe; cases hbe

theorem Res.advance {s : EState} (h : Res s) (hb : s.blockingEvent = false) (hnf : s.pc ≠ .finished) (n : Nat) :
    Res (advance n s) := advance_res n s hb h.1 h.2.1 hnf

theorem Res.refuse {s : EState} (h : Res s) (w : String) : Res (refuse s w) := by
  obtain ⟨q, e, f, b⟩ := h
  refine ⟨q, e, ?_, b⟩
  intro hp
  obtain ⟨x, l, hx, ha⟩ := f hp
  exact ⟨x, l ++ [w], by rw [hx]; rfl, ha⟩

theorem schedule_res (maxArr : Nat) (sc : Script) (fuel : Nat) (s : EState) (h : Res s) :
    Res (schedule maxArr sc fuel s) := by
  induction fuel generalizing s with
  | zero => unfold schedule; exact h.refuse _
  | succ n ih =>
    unfold schedule
    split
    · exact h
    · rename_i hbe
      have hb : s.blockingEvent = false := by simpa using hbe
      have arrive : ∀ (hnf : s.pc ≠ .finished),
          Res (schedule maxArr sc n (advance 4000
            (if s.arrivals.length >= maxArr then
                applyAction (flushCompletions { s with arrivals := s.arrivals ++ [arrivalKind s.pc] }) .halt
             else (orderActions (scriptAt sc s.arrivals.length)).foldl applyAction
                (flushCompletions { s with arrivals := s.arrivals ++ [arrivalKind s.pc] })))) := by
        intro hnf
        apply ih
        have k0 : ActKeep s { s with arrivals := s.arrivals ++ [arrivalKind s.pc] } := ⟨rfl, rfl, rfl, Or.inl rfl, id, rfl⟩
        have k1 := k0.trans (flushCompletions_act _)
        split
        · obtain ⟨r, b, f⟩ := h.act hb hnf (k1.trans (applyAction_act _ _))
          exact r.advance b f _
        · obtain ⟨r, b, f⟩ := h.act hb hnf (k1.trans (ActKeep.foldl _ applyAction_act _ _))
          exact r.advance b f _
      have waiting : ∀ (hnf : s.pc ≠ .finished),
          Res (let s1 := flushCompletions s
            let s' := advance 4000 s1
            if s'.pc == s1.pc && !s'.blockingEvent && s'.msgs.length == s1.msgs.length then
              let n' := s'.arrivals.length
              let s'' := { s' with arrivals := s'.arrivals ++ ["quiesce"] }
              if n' >= maxArr then schedule maxArr sc n (applyAction s'' .halt) else
              match scriptAt sc n' with
              | [] =>
                let (s3, did) := releaseAll s''
                schedule maxArr sc n (if did then s3 else applyAction s3 .halt)
              | as => schedule maxArr sc n ((orderActions as).foldl applyAction s'')
            else schedule maxArr sc n s') := by
        intro hnf
        simp only []
        obtain ⟨r1, b1, f1⟩ := h.act hb hnf (flushCompletions_act s)
        have hadv := r1.advance b1 f1 4000
        split
        · rename_i hcond
          simp only [Bool.and_eq_true, Bool.not_eq_true', beq_iff_eq] at hcond
          have hb' : (advance 4000 (flushCompletions s)).blockingEvent = false := hcond.1.2
          have hf' : (advance 4000 (flushCompletions s)).pc ≠ .finished := by rw [hcond.1.1]; exact f1
          have k0 : ActKeep (advance 4000 (flushCompletions s))
              { advance 4000 (flushCompletions s) with arrivals := (advance 4000 (flushCompletions s)).arrivals ++ ["quiesce"] } :=
            ⟨rfl, rfl, rfl, Or.inl rfl, id, rfl⟩
          split
          · exact ih _ (hadv.act hb' hf' (k0.trans (applyAction_act _ _))).1
          · split
            · apply ih
              split
              · exact (hadv.act hb' hf' (k0.trans (releaseAll_act _))).1
              · exact (hadv.act hb' hf' (k0.trans ((releaseAll_act _).trans (applyAction_act _ _)))).1
            · exact ih _ (hadv.act hb' hf' (k0.trans (ActKeep.foldl _ applyAction_act _ _))).1
        · exact ih _ hadv
      split
      · exact h
      · exact h
      · rename_i hpc
        split
        · exact ih _ (h.advance hb (by rw [hpc]; simp) _)
        · exact h
      · rename_i hpc; exact ih _ (h.advance hb (by rw [hpc]; simp) _)
      · rename_i hpc; exact arrive (by rw [hpc]; simp)
      · rename_i hpc; exact arrive (by rw [hpc]; simp)
      · rename_i hpc; exact arrive (by rw [hpc]; simp)
      · rename_i hpc; exact arrive (by rw [hpc]; simp)
      · rename_i hpc; exact waiting (by rw [hpc]; simp)
      · rename_i hpc; exact waiting (by rw [hpc]; simp)

end BlueskyVerif.Engine
