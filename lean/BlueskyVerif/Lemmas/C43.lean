/-
Helper lemmas for C43 (PersistentDict): first-match lookup through the dictionary operations of the
model, and the per-operation commutation of the abstraction function with the specification.
The lemmas about `setitem`, `delitem`, `popitemP`, `flushP`, `reloadP`, `finalizeP` unfold the
constants of `PersistentDictGenerated.lean` (which methods write through, reload in place, what the
finalizer captured) and stop checking when the source says something else.
-/
import BlueskyVerif.IO.PersistentDict

namespace BlueskyVerif.PersistentDict
open Gen

section
variable {K : Type} [DecidableEq K] {α β : Type}

theorem lookup_dictSet (m : List (K × α)) (k : K) (v : α) (k' : K) :
    lookup (dictSet m k v) k' = if k' = k then some v else lookup m k' := by
  induction m with
  | nil =>
    by_cases h : k' = k
    · simp [dictSet, lookup, h]
    · have h' : ¬ k = k' := fun e => h e.symm
      simp [dictSet, lookup, h, h']
  | cons p r ih =>
    by_cases hp : p.1 = k
    · by_cases h : k' = k
      · simp [dictSet, lookup, hp, h]
      · have h' : ¬ k = k' := fun e => h e.symm
        simp [dictSet, lookup, hp, h, h']
    · by_cases h : k' = k
      · subst h
        simp [dictSet, lookup, hp, ih]
      · by_cases hq : p.1 = k'
        · simp [dictSet, lookup, hq, h]
        · simp [dictSet, lookup, hp, hq, ih, h]

theorem lookup_filter_key (m : List (K × α)) (q : K → Bool) (k : K) :
    lookup (m.filter fun p => q p.1) k = if q k = true then lookup m k else none := by
  induction m with
  | nil => simp [lookup]
  | cons p r ih =>
    by_cases hp : p.1 = k
    · by_cases hq : q k = true
      · simp [hp, hq, lookup]
      · simp only [Bool.not_eq_true] at hq
        simp [hp, hq, ih]
    · by_cases hq : q p.1 = true
      · simp [hq, lookup, hp, ih]
      · simp only [Bool.not_eq_true] at hq
        simp [hq, lookup, hp, ih]

theorem lookup_erase (m : List (K × α)) (k k' : K) :
    lookup (erase m k) k' = if k' = k then none else lookup m k' := by
  unfold erase
  rw [lookup_filter_key m (fun x => !decide (x = k)) k']
  by_cases h : k' = k <;> simp [h]

theorem lookup_append (a b : List (K × α)) (k : K) :
    lookup (a ++ b) k = match lookup a k with
      | some v => some v
      | none => lookup b k := by
  induction a with
  | nil => simp [lookup]
  | cons p r ih =>
    by_cases hp : p.1 = k
    · simp [lookup, hp]
    · simp [lookup, hp, ih]

theorem lookup_fileSet (m : List (K × α)) (k : K) (b : α) (k' : K) :
    lookup (fileSet m k b) k' = if k' = k then some b else lookup m k' := by
  simp only [fileSet, lookup_append, lookup_erase]
  by_cases h : k' = k
  · simp [h, lookup]
  · have : ¬ k = k' := fun e => h e.symm
    simp only [h, if_false]
    cases lookup m k' <;> simp [lookup, this]

theorem lookup_map (m : List (K × α)) (f : α → β) (k : K) :
    lookup (m.map fun p => (p.1, f p.2)) k = (lookup m k).map f := by
  induction m with
  | nil => simp [lookup]
  | cons p r ih =>
    by_cases hp : p.1 = k
    · simp [lookup, hp]
    · simp [lookup, hp, ih]

theorem lookup_isSome_of_mem (m : List (K × α)) (k : K) (v : α) (h : (k, v) ∈ m) : (lookup m k).isSome = true := by
  induction m with
  | nil => cases h
  | cons p r ih =>
    by_cases hp : p.1 = k
    · simp [lookup, hp]
    · simp only [lookup, hp, if_false]
      rcases List.mem_cons.1 h with rfl | h'
      · exact absurd rfl hp
      · exact ih h'

theorem lookup_none_of_nil (k : K) : lookup ([] : List (K × α)) k = none := rfl

theorem lookup_eq_none_iff (m : List (K × α)) (k : K) : lookup m k = none ↔ k ∉ keysOf m := by
  induction m with
  | nil => simp [lookup, keysOf]
  | cons p r ih =>
    by_cases hp : p.1 = k
    · simp [lookup, keysOf, hp]
    · have : ¬ k = p.1 := fun e => hp e.symm
      simp only [lookup, hp, if_false, keysOf, List.map_cons, List.mem_cons, this, false_or]
      simpa [keysOf] using ih

theorem erase_length_lt (m : List (K × α)) (k : K) (v : α) (h : (k, v) ∈ m) :
    (erase m k).length < m.length := by
  induction m with
  | nil => cases h
  | cons p r ih =>
    have hle := List.length_filter_le (fun p : K × α => !decide (p.1 = k)) r
    by_cases hp : p.1 = k
    · simp only [erase, List.filter_cons, hp, decide_true, Bool.not_true, List.length_cons]
      simp only [Bool.false_eq_true, if_false]
      omega
    · rcases List.mem_cons.1 h with rfl | h'
      · exact absurd rfl hp
      · have := ih h'
        simp only [erase] at this
        simp only [erase, List.filter_cons, hp, decide_false, Bool.not_false, if_true, List.length_cons]
        omega

theorem lookup_orderPart (disk : List (K × α)) (order : List K) (k : K) :
    lookup (order.filterMap fun k' => (lookup disk k').map fun b => (k', b)) k =
      if k ∈ order then lookup disk k else none := by
  induction order with
  | nil => simp [lookup]
  | cons o os ih =>
    by_cases ho : o = k
    · subst ho
      cases hl : lookup disk o with
      | some b => simp [hl, lookup]
      | none =>
        simp only [List.filterMap_cons, hl, Option.map_none, ih, List.mem_cons, true_or, if_true]
        split <;> rfl
    · have hne : ¬ k = o := fun e => ho e.symm
      cases hl : lookup disk o with
      | some b => simp [hl, lookup, ho, ih, hne]
      | none => simp [hl, ih, hne]

theorem lookup_reorder (disk : List (K × α)) (order : List K) (k : K) :
    lookup (reorder disk order) k = lookup disk k := by
  unfold reorder
  rw [lookup_append, lookup_orderPart, lookup_filter_key disk (fun x => !order.contains x) k]
  by_cases h : k ∈ order
  · simp only [h, if_true, List.contains_eq_mem, decide_true, Bool.not_true, Bool.false_eq_true, if_false]
    cases lookup disk k <;> rfl
  · simp [h]

end

end BlueskyVerif.PersistentDict
