/-
Helper lemmas for C18: facts about the abstract subscription spec alone (token freshness, what
each operation does to the set of live subscriptions).
-/
import BlueskyVerif.Lemmas.C18Engine

namespace BlueskyVerif.Disp

/-- tokens of live subscriptions are distinct and were all issued already -/
structure Spec.Fresh (s : Spec) : Prop where
  lt : ∀ sub ∈ s.live, sub.tok < s.next
  nodup : (s.live.map Sub.tok).Nodup

theorem Spec.fresh_init : ({} : Spec).Fresh := ⟨by intro sub h; simp at h, by simp⟩

theorem Spec.fresh_add {s : Spec} (h : s.Fresh) (f : Callable) (name : Name) (temp : Bool) : (s.add f name temp).Fresh := by
  constructor
  · intro sub hs
    show sub.tok < s.next + 1
    rcases List.mem_append.1 hs with hs | hs
    · have := h.lt sub hs; nomega
    · simp at hs; subst hs; simp
  · show ((s.live ++ [_]).map Sub.tok).Nodup
    rw [List.map_append]
    refine List.nodup_append.2 ⟨h.nodup, by simp, ?_⟩
    intro a ha b hb
    simp at hb; subst hb
    obtain ⟨sub, hs, rfl⟩ := List.mem_map.1 ha
    have h1 := h.lt sub hs
    show sub.tok ≠ s.next
    nomega

theorem Spec.fresh_restrict {s : Spec} (h : s.Fresh) (p : Sub → Bool) : (s.restrict p).Fresh :=
  ⟨fun sub hs => h.lt sub (List.mem_filter.1 hs).1, h.nodup.sublist (List.Sublist.map _ List.filter_sublist)⟩

theorem Spec.fresh_addPerCall (subs : List (Name × Callable)) {s : Spec} (h : s.Fresh) : (s.addPerCall subs).Fresh := by
  induction subs generalizing s with
  | nil => exact h
  | cons p rest ih =>
    obtain ⟨name, f⟩ := p
    unfold Spec.addPerCall
    split
    · exact ih (Spec.fresh_add h f name true)
    · exact h

theorem Spec.fresh_step {s : Spec} (h : s.Fresh) (op : Op) : (s.step op).Fresh := by
  cases op with
  | subscribe f name => simp only [Spec.step]; split; exact Spec.fresh_add h _ _ _; exact h
  | unsubscribe tok => exact Spec.fresh_restrict h _
  | callStart subs => exact Spec.fresh_addPerCall subs (Spec.fresh_restrict h _)
  | planSubscribe f name => simp only [Spec.step]; split; exact Spec.fresh_add h _ _ _; exact h
  | planUnsubscribe tok => exact Spec.fresh_restrict h _
  | emit k doc => exact h

theorem Spec.run_cons (beh : Beh) (ig : Bool) (s : Spec) (log : Log) (op : Op) (ops : List Op) :
    Spec.run beh ig s log (op :: ops) = Spec.run beh ig (s.step op) (s.stepLog beh ig log op) ops := rfl

theorem Spec.run_append (beh : Beh) (ig : Bool) (s : Spec) (log : Log) (ops1 ops2 : List Op) :
    Spec.run beh ig s log (ops1 ++ ops2) =
      Spec.run beh ig (Spec.run beh ig s log ops1).1 (Spec.run beh ig s log ops1).2 ops2 := by
  induction ops1 generalizing s log with
  | nil => rfl
  | cons op ops ih => simp only [List.cons_append, Spec.run_cons, ih]

theorem Spec.fresh_run (beh : Beh) (ig : Bool) (ops : List Op) {s : Spec} (h : s.Fresh) (log : Log) :
    (Spec.run beh ig s log ops).1.Fresh := by
  induction ops generalizing s log with
  | nil => exact h
  | cons op ops ih => rw [Spec.run_cons]; exact ih (Spec.fresh_step h op) _

/-! a token that is not live (and was already issued) never becomes live again -/

def Spec.Absent (s : Spec) (tok : Token) : Prop := tok < s.next ∧ ∀ sub ∈ s.live, sub.tok ≠ tok

theorem Spec.absent_add {s : Spec} {tok : Token} (h : s.Absent tok) (f : Callable) (name : Name) (temp : Bool) :
    (s.add f name temp).Absent tok := by
  refine ⟨?_, ?_⟩
  · show tok < s.next + 1
    have := h.1; nomega
  · intro sub hs
    rcases List.mem_append.1 hs with hs | hs
    · exact h.2 sub hs
    · simp at hs; subst hs
      show s.next ≠ tok
      have := h.1; nomega

theorem Spec.absent_restrict {s : Spec} {tok : Token} (h : s.Absent tok) (p : Sub → Bool) : (s.restrict p).Absent tok :=
  ⟨h.1, fun sub hs => h.2 sub (List.mem_filter.1 hs).1⟩

theorem Spec.absent_addPerCall (subs : List (Name × Callable)) {s : Spec} {tok : Token} (h : s.Absent tok) :
    (s.addPerCall subs).Absent tok := by
  induction subs generalizing s with
  | nil => exact h
  | cons p rest ih =>
    obtain ⟨name, f⟩ := p
    unfold Spec.addPerCall
    split
    · exact ih (Spec.absent_add h f name true)
    · exact h

theorem Spec.absent_step {s : Spec} {tok : Token} (h : s.Absent tok) (op : Op) : (s.step op).Absent tok := by
  cases op with
  | subscribe f name => simp only [Spec.step]; split; exact Spec.absent_add h _ _ _; exact h
  | unsubscribe t => exact Spec.absent_restrict h _
  | callStart subs => exact Spec.absent_addPerCall subs (Spec.absent_restrict h _)
  | planSubscribe f name => simp only [Spec.step]; split; exact Spec.absent_add h _ _ _; exact h
  | planUnsubscribe t => exact Spec.absent_restrict h _
  | emit k doc => exact h

theorem Spec.absent_run (beh : Beh) (ig : Bool) (ops : List Op) {s : Spec} {tok : Token} (h : s.Absent tok) (log : Log) :
    (Spec.run beh ig s log ops).1.Absent tok := by
  induction ops generalizing s log with
  | nil => exact h
  | cons op ops ih => rw [Spec.run_cons]; exact ih (Spec.absent_step h op) _

/-! what stays -/

theorem Spec.mem_addPerCall (subs : List (Name × Callable)) {s : Spec} {sub : Sub} (h : sub ∈ s.live) :
    sub ∈ (s.addPerCall subs).live := by
  induction subs generalizing s with
  | nil => exact h
  | cons p rest ih =>
    obtain ⟨name, f⟩ := p
    unfold Spec.addPerCall
    split
    · exact ih (List.mem_append_left _ h)
    · exact h

/-- a subscription survives every operation except: the unsubscription of its own token, and -- for
    a temporary one -- the start of a new call -/
theorem Spec.mem_step {s : Spec} {sub : Sub} (h : sub ∈ s.live) (op : Op)
    (h1 : op ≠ .unsubscribe sub.tok) (h2 : op ≠ .planUnsubscribe sub.tok)
    (h3 : sub.temp = true → ∀ subs, op ≠ .callStart subs) : sub ∈ (s.step op).live := by
  cases op with
  | subscribe f name => simp only [Spec.step]; split; exact List.mem_append_left _ h; exact h
  | unsubscribe t =>
    refine List.mem_filter.2 ⟨h, ?_⟩
    have : sub.tok ≠ t := fun e => h1 (by rw [e])
    simpa using this
  | callStart subs =>
    apply Spec.mem_addPerCall
    refine List.mem_filter.2 ⟨h, ?_⟩
    cases ht : sub.temp
    · rfl
    · exact absurd rfl (h3 ht subs)
  | planSubscribe f name => simp only [Spec.step]; split; exact List.mem_append_left _ h; exact h
  | planUnsubscribe t =>
    refine List.mem_filter.2 ⟨h, ?_⟩
    have : sub.tok ≠ t := fun e => h2 (by rw [e])
    simpa using this
  | emit k doc => exact h

/-- the subscriptions added by `RE(plan, subs)` all carry fresh tokens -/
theorem Spec.addPerCall_old (subs : List (Name × Callable)) {s : Spec} (n : Nat) (hn : s.next ≥ n) :
    ∀ sub ∈ (s.addPerCall subs).live, sub.tok < n → sub ∈ s.live := by
  induction subs generalizing s with
  | nil => intro sub h _; exact h
  | cons p rest ih =>
    obtain ⟨name, f⟩ := p
    unfold Spec.addPerCall
    split
    · intro sub hs hlt
      have hn' : (s.add f name true).next ≥ n := by show s.next + 1 ≥ n; nomega
      have := ih hn' sub hs hlt
      rcases List.mem_append.1 this with a | a
      · exact a
      · simp at a; subst a
        have : s.next < n := hlt
        nomega
    · intro sub h _; exact h

end BlueskyVerif.Disp
