/-
Helper lemmas for C35 (heap model): specification of `deepCopyVal`, closed ("deep-owned") regions,
frame lemmas for in-place writes.
-/
import BlueskyVerif.IO.Normalizer

namespace BlueskyVerif.Normalizer

/-! ### elementary facts -/

theorem hget_append_left (h ext : Heap) (r : Nat) (hr : r < h.length) : hget (h ++ ext) r = hget h r := by
  simp [hget, List.getD_eq_getElem?_getD, List.getElem?_append_left hr]

theorem hget_append_self (h : Heap) (o : Obj) (ext : Heap) : hget (h ++ o :: ext) h.length = o := by
  simp [hget, List.getD_eq_getElem?_getD]

theorem refsOf_append (a b : Obj) : refsOf (a ++ b) = refsOf a ++ refsOf b := by
  simp [refsOf]

theorem refsOf_pop_sub (o : Obj) (k : String) : ∀ r ∈ refsOf (o.pop k), r ∈ refsOf o := by
  intro r hr
  simp only [refsOf, Obj.pop, List.mem_flatMap, List.mem_filter] at hr ⊢
  obtain ⟨kv, ⟨hkv, _⟩, hr⟩ := hr
  exact ⟨kv, hkv, hr⟩

theorem refsOf_setAtom_sub (o : Obj) (k : String) (a : Int) : ∀ r ∈ refsOf (o.setAtom k a), r ∈ refsOf o := by
  intro r hr
  simp only [Obj.setAtom, refsOf_append, List.mem_append] at hr
  rcases hr with hr | hr
  · exact refsOf_pop_sub o k r hr
  · simp [refsOf, valRefs] at hr

theorem refsOf_applyOp_sub (op : OpKind) (k : String) (o : Obj) : ∀ r ∈ refsOf (applyOp op k o), r ∈ refsOf o := by
  cases op
  · exact refsOf_pop_sub o k
  · exact refsOf_setAtom_sub o k 0

theorem lookup_ref_mem (o : Obj) (k : String) (r : Nat) (h : o.lookup k = some (.ref r)) : r ∈ refsOf o := by
  induction o with
  | nil => simp [Obj.lookup] at h
  | cons kv rest ih =>
    obtain ⟨k', v⟩ := kv
    simp only [Obj.lookup] at h
    split at h
    · simp only [Option.some.injEq] at h
      subst h
      simp [refsOf, valRefs]
    · have := ih h
      simp only [refsOf, List.flatMap_cons, List.mem_append] at this ⊢
      exact Or.inr this

theorem children_sub (o : Obj) (s : Sel) : ∀ r ∈ children o s, r ∈ refsOf o := by
  intro r hr
  cases s with
  | any => exact hr
  | key k =>
    simp only [children] at hr
    split at hr
    · rename_i r' heq
      simp only [List.mem_singleton] at hr
      subst hr
      exact lookup_ref_mem o k _ heq
    · simp at hr

/-! ### `copy.deepcopy` allocates a self-contained fresh region -/

def InR (a b r : Nat) : Prop := a ≤ r ∧ r < b

/-- result of a (deep) copy started on heap `h`: the old heap is a prefix, every new object and the
    returned value only reference NEW objects -/
def DCSpec (h : Heap) (res : Heap × Val) : Prop :=
  ∃ ext, res.1 = h ++ ext ∧ (∀ r ∈ valRefs res.2, InR h.length (h ++ ext).length r) ∧
    ∀ o ∈ ext, ∀ r ∈ refsOf o, InR h.length (h ++ ext).length r

/-- accumulator invariant of the field loop -/
def FoldInv (h : Heap) (acc : Heap × Obj) : Prop :=
  ∃ ext, acc.1 = h ++ ext ∧ (∀ r ∈ refsOf acc.2, InR h.length (h ++ ext).length r) ∧
    ∀ o ∈ ext, ∀ r ∈ refsOf o, InR h.length (h ++ ext).length r

theorem foldInv_step (cp : Heap → Val → Heap × Val) (ih : ∀ h v, DCSpec h (cp h v)) (h : Heap) :
    ∀ (fields : Obj) (acc : Heap × Obj), FoldInv h acc →
      FoldInv h (fields.foldl
        (fun (acc : Heap × Obj) kv =>
          let c := cp acc.1 kv.2
          (c.1, acc.2 ++ [(kv.1, c.2)])) acc) := by
  intro fields
  induction fields with
  | nil => intro acc h; exact h
  | cons kv rest ihf =>
    intro acc hacc
    simp only [List.foldl_cons]
    apply ihf
    obtain ⟨ext, h1, h2, h3⟩ := hacc
    obtain ⟨extc, c1, c2, c3⟩ := ih acc.1 kv.2
    refine ⟨ext ++ extc, ?_, ?_, ?_⟩
    · show (cp acc.1 kv.2).1 = h ++ (ext ++ extc)
      rw [c1, h1, List.append_assoc]
    · intro r hr
      simp only [refsOf_append, List.mem_append] at hr
      rcases hr with hr | hr
      · have := h2 r hr
        simp only [InR, List.length_append] at this ⊢
        omega
      · have hr' : r ∈ valRefs (cp acc.1 kv.2).2 := by
          simpa [refsOf] using hr
        have := c2 r hr'
        simp only [InR, List.length_append, h1] at this ⊢
        omega
    · intro o ho r hr
      simp only [List.mem_append] at ho
      rcases ho with ho | ho
      · have := h3 o ho r hr
        simp only [InR, List.length_append] at this ⊢
        omega
      · have := c3 o ho r hr
        simp only [InR, List.length_append, h1] at this ⊢
        omega

theorem deepCopyVal_spec : ∀ (f : Nat) (h : Heap) (v : Val), DCSpec h (deepCopyVal f h v) := by
  intro f
  induction f with
  | zero =>
    intro h v
    cases v with
    | atom a => exact ⟨[], by simp [deepCopyVal], by simp [deepCopyVal, valRefs], by simp⟩
    | ref r => exact ⟨[], by simp [deepCopyVal], by simp [deepCopyVal, valRefs], by simp⟩
  | succ f ih =>
    intro h v
    cases v with
    | atom a => exact ⟨[], by simp [deepCopyVal], by simp [deepCopyVal, valRefs], by simp⟩
    | ref r =>
      have hf : FoldInv h (copyFields (deepCopyVal f) h (hget h r)) :=
        foldInv_step (deepCopyVal f) ih h (hget h r) (h, []) ⟨[], by simp, by simp [refsOf], by simp⟩
      simp only [deepCopyVal]
      generalize copyFields (deepCopyVal f) h (hget h r) = res at hf ⊢
      obtain ⟨ext, h1, h2, h3⟩ := hf
      refine ⟨ext ++ [res.2], ?_, ?_, ?_⟩
      · rw [h1]; simp
      · intro r' hr'
        simp only [valRefs, List.mem_singleton] at hr'
        subst hr'
        rw [h1]
        simp only [InR, List.length_append, List.length_cons, List.length_nil]
        omega
      · intro o ho r' hr'
        simp only [List.mem_append, List.mem_singleton] at ho
        rcases ho with ho | ho
        · have := h3 o ho r' hr'
          simp only [InR, List.length_append, List.length_cons, List.length_nil] at this ⊢
          omega
        · subst ho
          have := h2 r' hr'
          simp only [InR, List.length_append, List.length_cons, List.length_nil] at this ⊢
          omega

/-- `copy.deepcopy(doc)`: old heap untouched, the new root and everything it references is new -/
theorem deepCopy_spec (fuel : Nat) (h : Heap) (r : Nat) :
    ∃ ext, (deepCopy fuel h r).1 = h ++ ext ∧ InR h.length (h ++ ext).length (deepCopy fuel h r).2 ∧
      ∀ o ∈ ext, ∀ r' ∈ refsOf o, InR h.length (h ++ ext).length r' := by
  obtain ⟨ext, h1, h2, h3⟩ := deepCopyVal_spec (fuel + 1) h (.ref r)
  unfold deepCopy
  split
  · rename_i h' r' heq
    rw [heq] at h1 h2
    simp only at h1 h2
    exact ⟨ext, h1, h2 r' (by simp [valRefs]), h3⟩
  · rename_i h' a heq
    -- impossible: with positive fuel a reference is returned
    exfalso
    simp [deepCopyVal] at heq

/-! ### closed regions ("deep-owned" objects) -/

/-- `D` is a set of allocated objects that only reference objects of `D` -/
def Closed (h : Heap) (D : Nat → Prop) : Prop :=
  ∀ r, D r → r < h.length ∧ ∀ r' ∈ refsOf (hget h r), D r'

theorem Closed.append {h : Heap} {D : Nat → Prop} (hc : Closed h D) (ext : Heap) : Closed (h ++ ext) D := by
  intro r hr
  obtain ⟨h1, h2⟩ := hc r hr
  refine ⟨?_, ?_⟩
  · rw [List.length_append]; omega
  rw [hget_append_left h ext r h1]
  exact h2

/-- adding a self-contained new region keeps the set closed -/
theorem Closed.extend {h : Heap} {D : Nat → Prop} (hc : Closed h D) (ext : Heap)
    (hext : ∀ o ∈ ext, ∀ r' ∈ refsOf o, InR h.length (h ++ ext).length r') :
    Closed (h ++ ext) (fun r => D r ∨ InR h.length (h ++ ext).length r) := by
  intro r hr
  rcases hr with hr | hr
  · obtain ⟨h1, h2⟩ := hc.append ext r hr
    exact ⟨h1, fun r' hr' => Or.inl (h2 r' hr')⟩
  · refine ⟨hr.2, fun r' hr' => Or.inr ?_⟩
    have hlt : r - h.length < ext.length := by
      have ha : r < h.length + ext.length := by
        have := hr.2; rwa [List.length_append] at this
      have hb : h.length ≤ r := hr.1
      omega
    have hobj : hget (h ++ ext) r = ext[r - h.length] := by
      have hge : h.length ≤ r := hr.1
      simp [hget, List.getD_eq_getElem?_getD, List.getElem?_append_right hge, hlt]
    rw [hobj] at hr'
    exact hext _ (List.getElem_mem hlt) r' hr'

theorem length_writeAt (h : Heap) (t : Nat) (f : Obj → Obj) : (writeAt h t f).length = h.length := by
  simp [writeAt]

theorem getElem?_writeAt_ne (h : Heap) (t i : Nat) (f : Obj → Obj) (hne : i ≠ t) :
    (writeAt h t f)[i]? = h[i]? := by
  simp only [writeAt]
  rw [List.getElem?_set_ne (Ne.symm hne)]

theorem hget_writeAt_ne (h : Heap) (t i : Nat) (f : Obj → Obj) (hne : i ≠ t) :
    hget (writeAt h t f) i = hget h i := by
  simp only [hget, List.getD_eq_getElem?_getD, getElem?_writeAt_ne h t i f hne]

theorem hget_writeAt_self (h : Heap) (t : Nat) (f : Obj → Obj) (ht : t < h.length) :
    hget (writeAt h t f) t = f (hget h t) := by
  simp [hget, writeAt, List.getD_eq_getElem?_getD, ht]

theorem hget_writeAt_oob (h : Heap) (t : Nat) (f : Obj → Obj) (ht : ¬ t < h.length) :
    writeAt h t f = h := by
  simp only [writeAt]
  exact List.set_eq_of_length_le (Nat.le_of_not_lt ht)

/-- a write that introduces no new references keeps every closed set closed -/
theorem Closed.write {h : Heap} {D : Nat → Prop} (hc : Closed h D) (t : Nat) (f : Obj → Obj)
    (hf : ∀ o, ∀ r ∈ refsOf (f o), r ∈ refsOf o) : Closed (writeAt h t f) D := by
  intro r hr
  obtain ⟨h1, h2⟩ := hc r hr
  refine ⟨by rw [length_writeAt]; exact h1, ?_⟩
  by_cases hrt : r = t
  · subst hrt
    rw [hget_writeAt_self h r f h1]
    exact fun r' hr' => h2 r' (hf _ r' hr')
  · rw [hget_writeAt_ne h t r f hrt]
    exact h2

theorem Closed.follow {h : Heap} {D : Nat → Prop} (hc : Closed h D) :
    ∀ (p : List Sel) (rs : List Nat), (∀ r ∈ rs, D r) → ∀ r ∈ followAll h rs p, D r := by
  intro p
  induction p with
  | nil => intro rs hrs r hr; exact hrs r hr
  | cons s p ih =>
    intro rs hrs r hr
    simp only [followAll] at hr
    apply ih _ _ r hr
    intro r' hr'
    simp only [List.mem_flatMap] at hr'
    obtain ⟨a, ha, hr'⟩ := hr'
    exact (hc a (hrs a ha)).2 r' (children_sub _ s r' hr')

end BlueskyVerif.Normalizer
