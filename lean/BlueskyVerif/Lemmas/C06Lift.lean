/-
C06: lifting the invariant "every `set` entry of the ledger belongs to a device in
`_movable_objs_touched`" through the blocks of `_run`, the environment actions and the scheduler
(same structure as Lemmas/EngineBE.lean + EngineSched.lean).
-/
import BlueskyVerif.Lemmas.C06Frame
import BlueskyVerif.Lemmas.EngineSched

namespace BlueskyVerif.Engine

/-- every `set` entry of the ledger belongs to a device that is in `_movable_objs_touched` -/
def MovedInv (s : EState) : Prop := ∀ c ∈ s.calls, c.op = "set" → c.dev ∈ s.moved

theorem movedInv_of_dv {s s' : EState} (h : dv s' = dv s) (hi : MovedInv s) : MovedInv s' := by
  intro c hc hop
  have hk : keyOp c = true := by simp [keyOp, hop]
  have hm : c ∈ (dv s').keyCalls := List.mem_filter.mpr ⟨hc, hk⟩
  rw [h] at hm
  have := hi c (List.mem_filter.mp hm).1 hop
  have hmv : s'.moved = s.moved := congrArg Dv.moved h
  rw [hmv]; exact this

theorem movedInv_runCommand (s : EState) (m : Msg) (hi : MovedInv s) : MovedInv (runCommand s m).1 := by
  by_cases h1 : m.cmd = "set"
  · have e : runCommand s m = cmdSet s m := by unfold runCommand; simp [h1]
    rw [e]
    obtain ⟨hin, hmono, ⟨c, hc, hdev, _⟩, _⟩ := cmdSet_spec s m
    intro c' hc' hop
    rw [hc] at hc'
    rcases List.mem_append.mp hc' with h | h
    · exact hmono _ (hi c' h hop)
    · simp only [List.mem_singleton] at h; subst h; rw [hdev]; exact hin
  · by_cases h2 : m.cmd = "stage"
    · have e : runCommand s m = cmdStage s m "stage" := by unfold runCommand; simp [h2]
      rw [e]
      obtain ⟨_, hc, hm⟩ := cmdStage_spec s m "stage"
      intro c' hc' hop
      rw [hc] at hc'; rw [hm]
      rcases List.mem_append.mp hc' with h | h
      · exact hi c' h hop
      · simp only [List.mem_singleton] at h; subst h; simp at hop
    · by_cases h3 : m.cmd = "unstage"
      · have e : runCommand s m = cmdStage s m "unstage" := by unfold runCommand; simp [h3]
        rw [e]
        obtain ⟨_, hc, hm⟩ := cmdStage_spec s m "unstage"
        intro c' hc' hop
        rw [hc] at hc'; rw [hm]
        rcases List.mem_append.mp hc' with h | h
        · exact hi c' h hop
        · simp only [List.mem_singleton] at h; subst h; simp at hop
      · exact movedInv_of_dv (runCommand_dv s m h1 h2 h3) hi

/-! ## the blocks of `_run` that do not touch `dv` -/

theorem fin_dv (s : EState) (r : Resp) : dv (fin s r) = dv s := by unfold fin; split <;> rfl
theorem leaveLoop_dv (s : EState) (e : Exc) : dv (leaveLoop s e) = dv s := by unfold leaveLoop; simp only []; split <;> rfl
theorem noteMsg_dv (s : EState) (m : Msg) : dv (noteMsg s m) = dv s := by unfold noteMsg; frame_dv
theorem takeResp_dv (s : EState) (r : Resp) (rs : List Resp) : dv (takeResp s r rs) = dv s := by unfold takeResp; frame_dv
theorem logYield_dv (s : EState) (g : Gen) (i : Inp) : dv (logYield s g i) = dv s := by unfold logYield; frame_dv
theorem finishTask_dv (s : EState) : dv (finishTask s) = dv s := rfl

def Flow.MI : Flow → Prop
  | .loopTop s => MovedInv s
  | .stop s => MovedInv s

theorem popPlan_mi (s : EState) (how : Option Exc) (h : MovedInv s) : (popPlan s how).MI := by
  unfold popPlan; simp only []
  split
  · exact movedInv_of_dv (leaveLoop_dv _ _) h
  · split <;> exact h

theorem afterCommand_mi (m : Msg) (p : EState × CmdOut) (h : MovedInv p.1) : (afterCommand m p).MI := by
  obtain ⟨s, o⟩ := p
  cases o
  · exact movedInv_of_dv (fin_dv _ _) h
  · exact movedInv_of_dv (fin_dv _ _) h
  · exact h

theorem processMsg_mi (s : EState) (m : Msg) (h : MovedInv s) : (processMsg s m).MI := by
  unfold processMsg
  simp only []
  have h1 : MovedInv (noteMsg s m) := movedInv_of_dv (noteMsg_dv s m) h
  split
  · exact movedInv_of_dv (fin_dv _ _) h1
  · exact afterCommand_mi m _ (movedInv_runCommand _ m h1)

theorem afterResume_mi (s : EState) (gs : List Gen) (t : Option Exc) (r : Out × Gen) (h : MovedInv s) :
    (afterResume s gs t r).MI := by
  obtain ⟨o, g'⟩ := r
  cases o with
  | yld m => exact processMsg_mi _ m h
  | ret => simp only [afterResume]; split <;> exact popPlan_mi _ _ h
  | raise e =>
    simp only [afterResume]
    split
    · exact popPlan_mi _ _ h
    · exact movedInv_of_dv ((leaveLoop_dv _ _).trans (fin_dv _ _)) h

theorem afterSleep_mi (s : EState) (h : MovedInv s) : (afterSleep s).MI := by
  unfold afterSleep
  split
  · simp only []
    apply afterResume_mi
    exact movedInv_of_dv ((logYield_dv _ _ _).trans (takeResp_dv _ _ _)) h
  · exact movedInv_of_dv (leaveLoop_dv _ _) h

theorem hCancel_mi (s : EState) (r : Resp) (h : MovedInv s) : (hCancel s r).MI := by
  unfold hCancel
  repeat' split
  all_goals first
    | exact movedInv_of_dv (fin_dv _ _) h
    | exact movedInv_of_dv ((leaveLoop_dv _ _).trans (fin_dv _ _)) h
    | (refine movedInv_of_dv (fin_dv _ _) ?_; exact h)

theorem pausePrep_dv (s : EState) : dv (pausePrep s) = dv s := by unfold pausePrep; simp

theorem pauseBlock_mi (s : EState) (h : MovedInv s) : (pauseBlock s).MI := by
  rcases pauseBlock_cases s with ⟨e, he⟩ | ⟨s1, hs, he⟩
  · rw [he]; exact movedInv_of_dv ((leaveLoop_dv _ _).trans (pausePrep_dv s)) h
  · rw [he]
    have : dv { s1 with blockingEvent := true, pc := PC.pausedWait } = dv s1 := rfl
    exact movedInv_of_dv (this.trans ((setState_dv hs).trans (pausePrep_dv s))) h

theorem loopTop_mi (s : EState) (h : MovedInv s) : (loopTop s).MI := by
  unfold loopTop
  split
  · split
    · rename_i s' hs
      exact movedInv_of_dv (setState_dv hs) h
    · exact movedInv_of_dv (leaveLoop_dv _ _) h
  · simp only []
    split
    · exact movedInv_of_dv (leaveLoop_dv _ _) h
    · rename_i s' hs
      have hs' : MovedInv s' := by
        split at hs
        · exact movedInv_of_dv (setState_dv hs) h
        · cases hs; exact h
      split
      · exact pauseBlock_mi s' hs'
      · split
        · exact hs'
        · exact afterSleep_mi _ hs'

/-- the cleanup appends stops / unstages / clear_subs only and keeps `_movable_objs_touched` -/
theorem cleanup_mi (s : EState) (h : MovedInv s) : MovedInv (cleanup s) := by
  obtain ⟨mid, tail, hc, hq1, hq2⟩ := cleanupBody_calls s
  have hmoved : (cleanup s).moved = s.moved := by
    unfold cleanup; simp only []; split
    · rename_i s' hs
      have := congrArg Dv.moved (setState_dv hs)
      simp only [dv] at this
      rw [this]; exact cleanupBody_moved s
    · exact cleanupBody_moved s
  intro c hcm hop
  rw [cleanup_calls, hc] at hcm
  rw [hmoved]
  have hk : keyOp c = true := by simp [keyOp, hop]
  simp only [List.mem_append, List.mem_map] at hcm
  rcases hcm with (((hcm | ⟨n, _, rfl⟩) | hcm) | ⟨n, _, rfl⟩) | hcm
  · exact h c hcm hop
  · simp [stopCall] at hop
  · rw [hq1 c hcm] at hk; cases hk
  · simp [unstageCall] at hop
  · rw [hq2 c hcm] at hk; cases hk

theorem finishTask_cleanup_mi (s : EState) (h : MovedInv s) : MovedInv (finishTask (cleanup s)) :=
  movedInv_of_dv (finishTask_dv _) (cleanup_mi s h)

theorem runLoop_mi (n : Nat) (s : EState) (h : MovedInv s) : MovedInv (runLoop n s) := by
  induction n generalizing s with
  | zero => exact h
  | succ n ih =>
    unfold runLoop
    have := loopTop_mi s h
    split
    · rename_i s' heq
      rw [heq] at this
      split
      · exact finishTask_cleanup_mi s' this
      · exact this
    · rename_i s' heq
      rw [heq] at this
      exact ih s' this

theorem contFlow_mi (n : Nat) (f : Flow) (h : f.MI) : MovedInv (contFlow n f) := by
  cases f with
  | loopTop s => exact runLoop_mi n s h
  | stop s =>
    simp only [contFlow]
    split
    · exact finishTask_cleanup_mi s h
    · exact h

theorem advanceAt_mi (n : Nat) (c : Bool) (s0 : EState) (h : MovedInv s0) : MovedInv (advanceAt n c s0) := by
  unfold advanceAt
  split
  · exact h
  · exact h
  · split
    · exact h
    · split
      · rename_i s' hs
        apply runLoop_mi
        exact movedInv_of_dv (setState_dv hs) h
      · apply contFlow_mi
        exact movedInv_of_dv (leaveLoop_dv _ _) h
  · split
    · exact contFlow_mi _ _ (hCancel_mi _ _ h)
    · exact contFlow_mi _ _ (afterSleep_mi _ h)
  · split
    · exact contFlow_mi _ _ (hCancel_mi _ _ h)
    · apply runLoop_mi; exact movedInv_of_dv (fin_dv _ _) h
  · split
    · exact contFlow_mi _ _ (hCancel_mi _ _ h)
    · split
      · rename_i s' hs
        apply runLoop_mi
        exact movedInv_of_dv ((fin_dv _ _).trans (requestPause_dv hs)) h
      · apply runLoop_mi; exact movedInv_of_dv (fin_dv _ _) h
  · split
    · exact contFlow_mi _ _ (hCancel_mi _ _ h)
    · simp only []
      split
      · apply runLoop_mi; exact movedInv_of_dv (fin_dv _ _) h
      · split
        · apply runLoop_mi; exact movedInv_of_dv (fin_dv _ _) h
        · exact h
  · split
    · exact contFlow_mi _ _ (hCancel_mi _ _ h)
    · split
      · apply runLoop_mi; exact movedInv_of_dv (fin_dv _ _) h
      · exact h
  · split
    · exact h
    · split
      · apply contFlow_mi
        exact movedInv_of_dv (leaveLoop_dv _ _) h
      · simp only []
        have hr : MovedInv (forBundlers s0 restoreMonitors) := movedInv_of_dv (dv_forBundlers_restore s0) h
        split
        · apply contFlow_mi
          exact movedInv_of_dv (leaveLoop_dv _ _) hr
        · rename_i s' hs
          have hs' : MovedInv s' := by
            split at hs
            · exact movedInv_of_dv (setState_dv hs) hr
            · cases hs; exact hr
          split
          · exact hs'
          · exact contFlow_mi _ _ (afterSleep_mi _ hs')
  · apply finishTask_cleanup_mi
    split
    · exact h
    · exact h

theorem advance_mi (n : Nat) (s : EState) (h : MovedInv s) : MovedInv (advance n s) :=
  advanceAt_mi n _ _ h

end BlueskyVerif.Engine
