/-
Helper lemmas for C42: the invariant of the span-stack model under disciplined histories.
-/
import BlueskyVerif.Engine.TracingGenerated

namespace BlueskyVerif.C42
open BlueskyVerif.Engine.Tracing

/-- the facts about the source the proof relies on (each is discharged by `rfl`/`decide` for the
    generated `facts`; if the source changes one of them the build breaks). -/
structure FactsOK (f : Facts) : Prop where
  popsLast : f.closePopsLast = true
  spanStatus : f.spanStatus = .kwElseEngine
  stopStatus : f.stopStatus = .kwElseSuccessOrSuccess
  destroyAll : f.destroyAll = true
  destroyStatus : norm f.destroyStatus = .abort
  cleanup : f.cleanupClosesTrace = false
  reset : f.callResetClearsSpans = false

/-- the invariant -/
structure Inv (s : St) : Prop where
  /-- open runs (newest first) = the runs whose span is on the stack (top first) followed by runs
      whose span was ended, exactly once and as "aborted", by an abort/halt -/
  split : ∃ P, ids s.runs = s.spans ++ P ∧
      ∀ p ∈ P, endCount s p = 1 ∧ ∀ a, (p, a) ∈ s.ended → norm a = .abort
  nodup : (ids s.runs).Nodup
  live : ∀ r ∈ s.spans, endCount s r = 0
  idsLt : ∀ r ∈ ids s.runs, r < s.next
  endedLt : ∀ x ∈ s.ended, x.1 < s.next
  stopsClosed : ∀ x ∈ s.stops, x.1 < s.next ∧ x.1 ∉ ids s.runs
  closed : ∀ r, r < s.next → r ∉ ids s.runs → endCount s r = 1
  own : ∀ r st a, (r, st) ∈ s.stops → (r, a) ∈ s.ended → norm a = norm st
  opened : ∀ n, n ∈ s.opened ↔ n < s.next

theorem inv_init : Inv {} := by
  refine ⟨⟨[], ?_, ?_⟩, ?_, ?_, ?_, ?_, ?_, ?_, ?_, ?_⟩ <;> simp [ids, endCount]

theorem endCount_zero_of_lt {s : St} (h : ∀ x ∈ s.ended, x.1 < s.next) : endCount s s.next = 0 := by
  unfold endCount
  rw [List.countP_eq_zero]
  intro x hx
  have := h x hx
  simp; omega

theorem not_mem_ended_of_count_zero {s : St} {r : Nat} (h : endCount s r = 0) (a : Status) :
    (r, a) ∉ s.ended := by
  unfold endCount at h
  rw [List.countP_eq_zero] at h
  intro hm
  have := h _ hm
  simp at this

theorem lookup_none_not_mem {key : Nat} {runs : List (Nat × Nat)} : lookup key runs = none ↔ ∀ x ∈ runs, x.1 ≠ key := by
  induction runs with
  | nil => simp [lookup]
  | cons x rest ih =>
    obtain ⟨k, r⟩ := x
    by_cases hk : k = key <;> simp [lookup, hk, ih]

theorem mem_ids_eraseKey {key r : Nat} {runs : List (Nat × Nat)} (h : r ∈ ids (eraseKey key runs)) : r ∈ ids runs := by
  induction runs with
  | nil => simpa [eraseKey] using h
  | cons x rest ih =>
    obtain ⟨k, q⟩ := x
    by_cases hk : k = key
    · simp [eraseKey, hk, ids] at h ⊢
      right; exact h
    · simp only [eraseKey, hk, if_false, ids, List.map_cons, List.mem_cons] at h ⊢
      rcases h with h | h
      · left; exact h
      · right; exact ih h


theorem openRun_ok (f : Facts) (s : St) (key : Nat) (hk : lookup key s.runs = none) :
    openRun f s key true = { s with next := s.next + 1, spans := s.next :: s.spans,
                                    runs := (key, s.next) :: s.runs, opened := s.next :: s.opened } := by
  simp [openRun, hk]

theorem endCount_eq (s : St) (r : Nat) : endCount s r = s.ended.countP (fun x => x.1 == r) := rfl

theorem inv_openRun (f : Facts) {s : St} (h : Inv s) {key : Nat} (hk : lookup key s.runs = none) :
    Inv (openRun f s key true) := by
  rw [openRun_ok f s key hk]
  obtain ⟨P, hP, hPa⟩ := h.split
  have hfresh : s.next ∉ ids s.runs := fun hm => Nat.lt_irrefl _ (h.idsLt _ hm)
  refine ⟨⟨P, ?_, ?_⟩, ?_, ?_, ?_, ?_, ?_, ?_, ?_, ?_⟩
  · simp [ids] at hP ⊢; exact hP
  · intro p hp; exact hPa p hp
  · simp [ids] at hfresh ⊢; exact ⟨hfresh, h.nodup⟩
  · intro r hr
    simp at hr
    rcases hr with rfl | hr
    · exact endCount_zero_of_lt h.endedLt
    · exact h.live r hr
  · intro r hr
    simp [ids] at hr
    rcases hr with rfl | hr
    · simp
    · have := h.idsLt r (by simpa [ids] using hr); simp; omega
  · intro x hx; have := h.endedLt x hx; simp; omega
  · intro x hx
    have ⟨h1, h2⟩ := h.stopsClosed x hx
    refine ⟨by simp; omega, ?_⟩
    simp [ids] at h2 ⊢
    exact ⟨by omega, h2⟩
  · intro r hr hn
    simp [ids] at hn
    have : r < s.next := by simp at hr; omega
    exact h.closed r this (by simpa [ids] using hn.2)
  · exact h.own
  · intro n
    simp [h.opened n]; omega

theorem stop_eval (kw : Kw) (e : Status) : StatusExpr.kwElseSuccessOrSuccess.eval kw e = stopOfKw kw := by
  cases kw <;> rfl

theorem span_eval_agrees {kw : Kw} {e : Status} (h : kwAgrees kw e = true) :
    StatusExpr.kwElseEngine.eval kw e = stopOfKw kw := by
  cases kw with
  | absent => simp [kwAgrees] at h; simp [StatusExpr.eval, stopOfKw, h]
  | given s => simp [kwAgrees] at h; simp [StatusExpr.eval, stopOfKw, h]

theorem closeRun_rejected (f : Facts) (s : St) (key : Nat) (kw : Kw) (h : lookup key s.runs = none) :
    closeRun f s key kw = s := by
  simp [closeRun, h]

theorem closeRun_live (f : Facts) (hf : FactsOK f) (s : St) (key r : Nat) (kw : Kw) (rest : List (Nat × Nat))
    (S : List Nat) (hr : s.runs = (key, r) :: rest) (hs : s.spans = r :: S) :
    closeRun f s key kw = { s with stops := (r, stopOfKw kw) :: s.stops, runs := rest, spans := S,
                                   ended := (r, StatusExpr.kwElseEngine.eval kw s.exitStatus) :: s.ended } := by
  simp [closeRun, hr, lookup, eraseKey, closeTrace, popSpan, hf.popsLast, hs, hf.spanStatus, hf.stopStatus, stop_eval]

theorem closeRun_dead (f : Facts) (hf : FactsOK f) (s : St) (key r : Nat) (kw : Kw) (rest : List (Nat × Nat))
    (hr : s.runs = (key, r) :: rest) (hs : s.spans = []) :
    closeRun f s key kw = { s with stops := (r, stopOfKw kw) :: s.stops, runs := rest } := by
  simp [closeRun, hr, lookup, eraseKey, closeTrace, popSpan, hf.popsLast, hs, hf.stopStatus, stop_eval]

theorem cnt_cons_self (l : List (Nat × Status)) (r : Nat) (a : Status) :
    ((r, a) :: l).countP (fun x => x.1 == r) = l.countP (fun x => x.1 == r) + 1 := by
  simp

theorem cnt_cons_ne (l : List (Nat × Status)) {r q : Nat} (a : Status) (h : r ≠ q) :
    ((r, a) :: l).countP (fun x => x.1 == q) = l.countP (fun x => x.1 == q) := by
  simp [h]

/-- closing the most recently opened run while its span is on top of the stack -/
theorem inv_close_live {s : St} (h : Inv s) {key r : Nat} {kw : Kw} {rest : List (Nat × Nat)} {S : List Nat}
    (hr : s.runs = (key, r) :: rest) (hs : s.spans = r :: S) (a : Status) (ha : a = stopOfKw kw) :
    Inv { s with stops := (r, stopOfKw kw) :: s.stops, runs := rest, spans := S, ended := (r, a) :: s.ended } := by
  obtain ⟨P, hP, hPa⟩ := h.split
  have hnd := h.nodup
  rw [hr] at hnd hP
  rw [hs] at hP
  simp only [ids, List.map_cons, List.cons_append, List.cons.injEq, true_and] at hP
  simp only [ids, List.map_cons, List.nodup_cons] at hnd
  have hr0 : endCount s r = 0 := h.live r (by simp [hs])
  have hrlt : r < s.next := h.idsLt r (by simp [hr, ids])
  have hne : ∀ q ∈ ids rest, r ≠ q := by
    intro q hq he; subst he; exact hnd.1 (by simpa [ids] using hq)
  refine ⟨⟨P, ?_, ?_⟩, ?_, ?_, ?_, ?_, ?_, ?_, ?_, ?_⟩
  · simpa [ids] using hP
  · intro p hp
    have hpm : p ∈ ids rest := by simp [ids, hP, hp]
    have hrp := hne p hpm
    have ⟨h1, h2⟩ := hPa p hp
    refine ⟨?_, ?_⟩
    · show ((r, a) :: s.ended).countP (fun x => x.1 == p) = 1
      rw [cnt_cons_ne _ _ hrp]; exact h1
    · intro b hb
      simp only [List.mem_cons, Prod.mk.injEq] at hb
      rcases hb with ⟨he, _⟩ | hb
      · exact absurd he.symm hrp
      · exact h2 b hb
  · simpa [ids] using hnd.2
  · intro q hq
    have hqm : q ∈ ids rest := by simp [ids, hP, hq]
    show ((r, a) :: s.ended).countP (fun x => x.1 == q) = 0
    rw [cnt_cons_ne _ _ (hne q hqm)]
    exact h.live q (by simp [hs, hq])
  · intro q hq; exact h.idsLt q (by simp [hr, ids] at hq ⊢; right; exact hq)
  · intro x hx
    simp only [List.mem_cons] at hx
    rcases hx with rfl | hx
    · exact hrlt
    · exact h.endedLt x hx
  · intro x hx
    simp only [List.mem_cons] at hx
    rcases hx with rfl | hx
    · exact ⟨hrlt, by simpa [ids] using hnd.1⟩
    · have ⟨h1, h2⟩ := h.stopsClosed x hx
      refine ⟨h1, fun hm => h2 ?_⟩
      simp [hr, ids] at hm ⊢; right; exact hm
  · intro q hq hn
    show ((r, a) :: s.ended).countP (fun x => x.1 == q) = 1
    by_cases hqr : r = q
    · subst hqr; rw [cnt_cons_self]; unfold endCount at hr0; omega
    · rw [cnt_cons_ne _ _ hqr]
      apply h.closed q hq
      intro hm
      simp [hr, ids] at hm
      rcases hm with hm | hm
      · exact hqr hm.symm
      · exact hn (by simpa [ids] using hm)
  · intro q st b hst hb
    simp only [List.mem_cons, Prod.mk.injEq] at hst hb
    rcases hst with ⟨rfl, rfl⟩ | hst
    · rcases hb with ⟨_, rfl⟩ | hb
      · rw [ha]
      · exact absurd hb (not_mem_ended_of_count_zero hr0 b)
    · rcases hb with ⟨rfl, rfl⟩ | hb
      · have := (h.stopsClosed _ hst).2
        simp [hr, ids] at this
      · exact h.own q st b hst hb
  · exact h.opened

/-- closing the most recently opened run after its span was ended by an abort/halt -/
theorem inv_close_dead {s : St} (h : Inv s) {key r : Nat} {st : Status} {rest : List (Nat × Nat)}
    (hr : s.runs = (key, r) :: rest) (hs : s.spans = []) (hst : norm st = .abort) :
    Inv { s with stops := (r, st) :: s.stops, runs := rest } := by
  obtain ⟨P, hP, hPa⟩ := h.split
  have hnd := h.nodup
  rw [hr] at hnd hP
  rw [hs] at hP
  simp only [ids, List.map_cons, List.nil_append] at hP
  simp only [ids, List.map_cons, List.nodup_cons] at hnd
  have hrlt : r < s.next := h.idsLt r (by simp [hr, ids])
  have hrP : r ∈ P := by rw [← hP]; simp
  refine ⟨⟨rest.map (·.2), ?_, ?_⟩, ?_, ?_, ?_, ?_, ?_, ?_, ?_, ?_⟩
  · simp [ids, hs]
  · intro p hp
    exact hPa p (by rw [← hP]; simp; right; simpa using hp)
  · simpa [ids] using hnd.2
  · intro q hq; simp [hs] at hq
  · intro q hq; exact h.idsLt q (by simp [hr, ids] at hq ⊢; right; exact hq)
  · exact h.endedLt
  · intro x hx
    simp only [List.mem_cons] at hx
    rcases hx with rfl | hx
    · exact ⟨hrlt, by simpa [ids] using hnd.1⟩
    · have ⟨h1, h2⟩ := h.stopsClosed x hx
      refine ⟨h1, fun hm => h2 ?_⟩
      simp [hr, ids] at hm ⊢; right; exact hm
  · intro q hq hn
    by_cases hqr : r = q
    · subst hqr; exact (hPa r hrP).1
    · apply h.closed q hq
      intro hm
      simp [hr, ids] at hm
      rcases hm with hm | hm
      · exact hqr hm.symm
      · exact hn (by simpa [ids] using hm)
  · intro q st' b hst' hb
    simp only [List.mem_cons, Prod.mk.injEq] at hst'
    rcases hst' with ⟨rfl, rfl⟩ | hst'
    · rw [hst]; exact (hPa q hrP).2 b hb
    · exact h.own q st' b hst' hb
  · exact h.opened

theorem cnt_destroy (l : List Nat) (hl : l.Nodup) (ds : Status) (e : List (Nat × Status)) (q : Nat) :
    ((l.map (fun sp => (sp, ds))).reverse ++ e).countP (fun x => x.1 == q)
      = (if q ∈ l then 1 else 0) + e.countP (fun x => x.1 == q) := by
  rw [List.countP_append, List.countP_reverse]
  congr 1
  induction l with
  | nil => simp
  | cons t rest ih =>
    simp only [List.nodup_cons] at hl
    simp only [List.map_cons, List.countP_cons, ih hl.2, List.mem_cons]
    by_cases hq : t = q
    · subst hq; simp [hl.1]
    · have : ¬ q = t := fun h => hq h.symm
      simp [hq, this]

theorem destroy_eq (f : Facts) (hf : FactsOK f) (s : St) :
    destroy f s = { s with spans := [], ended := (s.spans.map (fun sp => (sp, f.destroyStatus))).reverse ++ s.ended } := by
  simp [destroy, hf.destroyAll]

theorem inv_destroy {s : St} (h : Inv s) (ds : Status) (hds : norm ds = .abort) :
    Inv { s with spans := [], ended := (s.spans.map (fun sp => (sp, ds))).reverse ++ s.ended } := by
  obtain ⟨P, hP, hPa⟩ := h.split
  have hnd := h.nodup
  rw [hP] at hnd
  have hsn : s.spans.Nodup := (List.nodup_append.mp hnd).1
  have hdisj : ∀ q, q ∈ s.spans → q ∉ P := fun q h1 h2 => (List.nodup_append.mp hnd).2.2 q h1 q h2 rfl
  have hcnt : ∀ q, endCount { s with spans := [], ended := (s.spans.map (fun sp => (sp, ds))).reverse ++ s.ended } q
      = (if q ∈ s.spans then 1 else 0) + endCount s q := fun q => cnt_destroy s.spans hsn ds s.ended q
  have hmem : ∀ q b, (q, b) ∈ (s.spans.map (fun sp => (sp, ds))).reverse ++ s.ended → (q ∈ s.spans ∧ b = ds) ∨ (q, b) ∈ s.ended := by
    intro q b hm
    simp only [List.mem_append, List.mem_reverse, List.mem_map, Prod.mk.injEq] at hm
    rcases hm with ⟨a, ha, rfl, rfl⟩ | hm
    · left; exact ⟨ha, rfl⟩
    · right; exact hm
  refine ⟨⟨s.spans ++ P, ?_, ?_⟩, h.nodup, ?_, h.idsLt, ?_, h.stopsClosed, ?_, ?_, h.opened⟩
  · simpa using hP
  · intro p hp
    rw [hcnt]
    simp only [List.mem_append] at hp
    rcases hp with hp | hp
    · refine ⟨by simp [hp, h.live p hp], ?_⟩
      intro b hb
      rcases hmem p b hb with ⟨_, rfl⟩ | hb
      · exact hds
      · exact absurd hb (not_mem_ended_of_count_zero (h.live p hp) b)
    · have hns : p ∉ s.spans := fun hm => hdisj p hm hp
      refine ⟨by simp [hns, (hPa p hp).1], ?_⟩
      intro b hb
      rcases hmem p b hb with ⟨hm, _⟩ | hb
      · exact absurd hm hns
      · exact (hPa p hp).2 b hb
  · intro q hq; simp at hq
  · intro x hx
    obtain ⟨q, b⟩ := x
    rcases hmem q b hx with ⟨hm, _⟩ | hb
    · exact h.idsLt q (by rw [hP]; simp [hm])
    · exact h.endedLt _ hb
  · intro q hq hn
    rw [hcnt]
    have hns : q ∉ s.spans := fun hm => hn (by rw [hP]; simp [hm])
    simp [hns, h.closed q hq hn]
  · intro q st b hst hb
    rcases hmem q b hb with ⟨hm, _⟩ | hb
    · exact absurd (by rw [hP]; simp [hm]) (h.stopsClosed _ hst).2
    · exact h.own q st b hst hb

theorem inv_exitStatus {s : St} (h : Inv s) (e : Status) : Inv { s with exitStatus := e } :=
  ⟨h.split, h.nodup, h.live, h.idsLt, h.endedLt, h.stopsClosed, h.closed, h.own, h.opened⟩

theorem foldl_cleanup (f : Facts) (hf : FactsOK f) (st : Status) (l : List Nat) (s : St) :
    l.foldl (cleanupOne f st) s
      = { s with stops := (l.reverse.map (fun r => (r, f.stopStatus.eval (.given st) st))) ++ s.stops } := by
  induction l generalizing s with
  | nil => simp
  | cons r rest ih =>
    rw [List.foldl_cons, ih]
    simp [cleanupOne, hf.cleanup]

theorem callEnd_eq (f : Facts) (hf : FactsOK f) (s : St) (st : Status) :
    callEnd f s st = { s with exitStatus := st, runs := [],
                              stops := ((ids s.runs).map (fun r => (r, stopOfKw (.given st)))) ++ s.stops } := by
  simp [callEnd, foldl_cleanup f hf, hf.stopStatus, stop_eval_given]
where stop_eval_given : ∀ st, StatusExpr.kwElseSuccessOrSuccess.eval (.given st) st = stopOfKw (.given st) := fun _ => rfl

theorem stopOfKw_given_of_norm_abort {st : Status} (h : norm st = .abort) : stopOfKw (.given st) = st := by
  cases st <;> simp [norm] at h <;> rfl

theorem spans_nil_of_all_dead {s : St} (h : Inv s) (hd : ∀ r ∈ ids s.runs, r ∉ s.spans) : s.spans = [] := by
  obtain ⟨P, hP, _⟩ := h.split
  cases hs : s.spans with
  | nil => rfl
  | cons t S =>
    exfalso
    exact hd t (by rw [hP, hs]; simp) (by rw [hs]; simp)

theorem inv_callEnd {s : St} (h : Inv s) (hs : s.spans = []) (v e : Status) (hv : s.runs = [] ∨ norm v = .abort) :
    Inv { s with exitStatus := e, runs := [], stops := ((ids s.runs).map (fun r => (r, v))) ++ s.stops } := by
  obtain ⟨P, hP, hPa⟩ := h.split
  rw [hs] at hP
  simp only [List.nil_append] at hP
  refine ⟨⟨[], ?_, ?_⟩, ?_, ?_, ?_, h.endedLt, ?_, ?_, ?_, h.opened⟩
  · simp [ids, hs]
  · simp
  · simp [ids]
  · intro q hq; simp [hs] at hq
  · simp [ids]
  · intro x hx
    simp only [List.mem_append, List.mem_map] at hx
    rcases hx with ⟨r, hr, rfl⟩ | hx
    · exact ⟨h.idsLt r hr, by simp [ids]⟩
    · exact ⟨(h.stopsClosed x hx).1, by simp [ids]⟩
  · intro q hq _
    by_cases hm : q ∈ ids s.runs
    · exact (hPa q (by rw [← hP]; exact hm)).1
    · exact h.closed q hq hm
  · intro q st b hst hb
    simp only [List.mem_append, List.mem_map, Prod.mk.injEq] at hst
    rcases hst with ⟨r, hr, hq, hsv⟩ | hst
    · have hne : s.runs ≠ [] := by intro h0; simp [h0, ids] at hr
      have hva : norm v = .abort := by rcases hv with h0 | h0; exact absurd h0 hne; exact h0
      subst hq
      rw [← hsv, hva]
      exact (hPa r (by rw [← hP]; exact hr)).2 b hb
    · exact h.own q st b hst hb

theorem inv_step {f : Facts} (hf : FactsOK f) {s : St} (h : Inv s) {op : Op} (hok : okOp s op = true) :
    Inv (step f s op) := by
  cases op with
  | openRun key ok =>
    simp only [okOp, Bool.and_eq_true, Option.isNone_iff_eq_none] at hok
    obtain ⟨rfl, hk⟩ := hok
    exact inv_openRun f h hk
  | closeRun key kw =>
    simp only [step]
    cases hr : s.runs with
    | nil => rw [closeRun_rejected f s key kw (by simp [hr, lookup])]; exact h
    | cons x rest =>
      obtain ⟨k, r⟩ := x
      simp only [okOp, hr] at hok
      by_cases hk : k = key
      · subst hk
        simp only [if_true] at hok
        obtain ⟨P, hP, _⟩ := h.split
        cases hs : s.spans with
        | nil =>
          simp only [hs, List.contains_nil, Bool.false_eq_true, if_false, beq_iff_eq] at hok
          rw [closeRun_dead f hf s k r kw rest hr hs]
          exact inv_close_dead h hr hs hok
        | cons t S =>
          have htr : t = r := by
            rw [hr, hs] at hP; simp [ids] at hP; exact hP.1.symm
          subst htr
          simp only [hs, List.contains_cons, beq_self_eq_true, Bool.true_or, if_true] at hok
          rw [closeRun_live f hf s k t kw rest S hr hs]
          exact inv_close_live h hr hs _ (span_eval_agrees hok)
      · simp only [hk, if_false, Option.isNone_iff_eq_none] at hok
        rw [closeRun_rejected f s key kw (by rw [hr]; exact hok)]; exact h
  | abort =>
    simp only [step, abortOp]
    split
    · rw [destroy_eq f hf]; exact inv_destroy (inv_exitStatus h _) _ hf.destroyStatus
    · exact inv_exitStatus h _
  | halt p =>
    simp only [step, haltOp]
    have h1 : Inv (if f.haltDestroys = true then destroy f s else s) := by
      split
      · rw [destroy_eq f hf]; exact inv_destroy h _ hf.destroyStatus
      · exact h
    split
    · exact inv_exitStatus h1 _
    · exact h1
  | callEnd st =>
    simp only [okOp, Bool.and_eq_true, List.all_eq_true, Bool.not_eq_true', Bool.or_eq_true, List.isEmpty_iff, beq_iff_eq] at hok
    obtain ⟨hd, hv⟩ := hok
    have hs : s.spans = [] := spans_nil_of_all_dead h (fun r hr hm => by
      have := hd r hr; simp [hm] at this)
    simp only [step]
    rw [callEnd_eq f hf]
    refine inv_callEnd h hs _ _ ?_
    rcases hv with hv | hv
    · left; exact hv
    · right; rw [stopOfKw_given_of_norm_abort hv]; exact hv
  | callBegin =>
    simp only [step, callBegin, hf.reset]
    exact inv_exitStatus h _

theorem inv_runFrom {f : Facts} (hf : FactsOK f) (h : List Op) : ∀ {s : St}, Inv s → disciplinedFrom f s h = true →
    Inv (runFrom f s h) := by
  induction h with
  | nil => intro s hi _; exact hi
  | cons op rest ih =>
    intro s hi hd
    simp only [disciplinedFrom, Bool.and_eq_true] at hd
    exact ih (inv_step hf hi hd.1) hd.2

theorem inv_run {f : Facts} (hf : FactsOK f) (h : List Op) (hd : disciplined f h = true) : Inv (run f h) :=
  inv_runFrom hf h inv_init hd

theorem factsOK_generated : FactsOK facts := by
  constructor <;> rfl
end BlueskyVerif.C42
