/-
C11 helper lemmas, part 2: what a `Gen.chain` of list generators yields (general lemma, by induction),
the helper plan of `_start_suspender`, and `cmdStartSuspender` rewritten as a composition of named steps.
The expected yield order is computed from the shape GENERATED from the source (Suspender/StartGenerated.lean).
-/
import BlueskyVerif.Engine.Sim
import BlueskyVerif.Suspender.StartGenerated

namespace BlueskyVerif.Engine
open BlueskyVerif.Suspender

/-! ### the generator protocol on lists and chains (all by `rfl`: `Gen.resume` is structural) -/

theorem resume_list_cons (m : Msg) (ms : List Msg) (r : Resp) :
    (Gen.list (m :: ms)).resume (.send r) = (.yld m, .list ms) := rfl

theorem resume_list_nil (r : Resp) : (Gen.list []).resume (.send r) = (.ret, .list []) := rfl

theorem resume_chain (cur : Gen) (rest : List Gen) (inp : Inp) :
    (Gen.chain cur rest).resume inp =
      match cur.resume inp with
      | (.yld m, cur') => (.yld m, .chain cur' rest)
      | (.raise e, _) => (.raise e, .chain (.list []) [])
      | (.ret, _) => Gen.resume.next rest := rfl

theorem next_nil : Gen.resume.next [] = (.ret, .chain (.list []) []) := rfl

theorem next_cons (g : Gen) (gs : List Gen) :
    Gen.resume.next (g :: gs) =
      match g.resume (.send .none) with
      | (.yld m, g') => (.yld m, .chain g' gs)
      | (.raise e, _) => (.raise e, .chain (.list []) [])
      | (.ret, _) => Gen.resume.next gs := rfl

/-- `g` yields exactly the messages `ms`, in this order, and then returns -- whatever it is sent -/
def YieldsExactly : Gen → List Msg → Prop
  | g, [] => ∀ r, (g.resume (.send r)).1 = .ret
  | g, m :: ms => ∀ r, ∃ g', g.resume (.send r) = (.yld m, g') ∧ YieldsExactly g' ms

theorem YieldsExactly.congr {g1 g2 : Gen} (h : ∀ r, g1.resume (.send r) = g2.resume (.send r)) (ms : List Msg) :
    YieldsExactly g1 ms → YieldsExactly g2 ms := by
  cases ms with
  | nil => intro h1 r; rw [← h r]; exact h1 r
  | cons m ms => intro h1 r; rw [← h r]; exact h1 r

/-- a chain whose current part is exhausted continues with the next part -/
theorem chain_nil_step (rest : List Gen) (r : Resp) :
    (Gen.chain (.list []) rest).resume (.send r) = Gen.resume.next rest := by
  rw [resume_chain, resume_list_nil]

/-- GENERAL LEMMA: `yield from l0; yield from l1; ...` over lists yields the concatenation, in order -/
theorem chain_lists (ls : List (List Msg)) :
    ∀ l0 : List Msg, YieldsExactly (.chain (.list l0) (ls.map Gen.list)) (l0 ++ ls.flatten) := by
  induction ls with
  | nil =>
    intro l0
    induction l0 with
    | nil => intro r; simp only [List.map_nil]; rw [chain_nil_step, next_nil]
    | cons m ms ih =>
      intro r
      refine ⟨.chain (.list ms) [], ?_, ih⟩
      simp only [List.map_nil]; rw [resume_chain, resume_list_cons]
  | cons l ls ihls =>
    intro l0
    induction l0 with
    | nil =>
      cases l with
      | nil =>
        -- an empty part is skipped
        have := ihls []
        simp only [List.nil_append, List.flatten_cons] at this ⊢
        refine YieldsExactly.congr ?_ _ this
        intro r
        rw [chain_nil_step, chain_nil_step, List.map_cons, next_cons, resume_list_nil]
      | cons m ms =>
        have := ihls ms
        simp only [List.nil_append, List.flatten_cons, List.cons_append] at this ⊢
        intro r
        refine ⟨_, ?_, this⟩
        rw [chain_nil_step, List.map_cons, next_cons, resume_list_cons]
    | cons m ms ih =>
      intro r
      refine ⟨.chain (.list ms) ((l :: ls).map Gen.list), ?_, ih⟩
      rw [resume_chain, resume_list_cons]

/-! ### the helper plan of `_start_suspender` -/

def mRewindable (v : Bool) : Msg := { cmd := "rewindable", iargs := [0], flag := v }
def mWaitFor (fut : Nat) : Msg := { cmd := "wait_for", iargs := [fut] }
def mResume : Msg := { cmd := "_resume_from_suspender" }

/-- the helper exactly as `cmdStartSuspender` builds it -/
def suspHelper (rq : SuspReq) (was : Bool) (rw : List Msg) : Gen :=
  .chain (.list [mRewindable false])
    ((rq.pre.toList) ++ [Gen.list [mWaitFor rq.fut, mResume]] ++ rq.post.toList ++ [Gen.list [mRewindable was], Gen.list rw])

/-- the state in which `_start_suspender` rewinds: interruptions recorded, movables stopped, pause hooks run -/
def preRewind (s : EState) (just : String) : EState :=
  pauseHooks (stopMovables (forBundlers s (fun s b => recordInterruption s b just)))

/-- `cmdStartSuspender` as a composition of its steps -/
theorem cmdStartSuspender_eq (s : EState) (m : Msg) (rq : SuspReq)
    (h : s.suspReqs[(m.iargs.headD 0).toNat]? = some rq) :
    cmdStartSuspender s m =
      (let s1 := preRewind s (rq.just.getD "suspended")
       let s2 := (rewindPlan s1).2
       { s2 with planStack := suspHelper rq s2.rewindable (rewindPlan s1).1 :: s2.planStack,
                 respStack := .none :: s2.respStack }, .value .none) := by
  unfold cmdStartSuspender
  rw [h]
  rfl

/-- the messages denoted by the generated shape of `suspender_helper_inner_plan` -/
def shapeMsgs (fut : Nat) (was : Bool) (pre post : Option (List Msg)) (cache : List Msg) : List String → List Msg
  | [] => []
  | tag :: rest =>
    (if tag = "rewindable:false" then [mRewindable false]
     else if tag = "rewindable:true" then [mRewindable true]
     else if tag = "rewindable:was" then [mRewindable was]
     else if tag = "pre" then pre.getD []
     else if tag = "post" then post.getD []
     else if tag = "wait_for" then [mWaitFor fut]
     else if tag = "_resume_from_suspender" then [mResume]
     else if tag = "rewind" then cache
     else []) ++ shapeMsgs fut was pre post cache rest

/-- the helper yields, for list-like pre/post plans, exactly the messages of the shape read off the source:
    rewindable(False), pre-plan, wait_for, _resume_from_suspender, post-plan, rewindable(was), replay -/
theorem suspHelper_yields (fut : Nat) (just : Option String) (pre post : Option (List Msg)) (was : Bool) (cache : List Msg) :
    YieldsExactly (suspHelper { fut := fut, pre := pre.map Gen.list, post := post.map Gen.list, just := just } was cache)
      (shapeMsgs fut was pre post cache SrcStart.helperShape) := by
  have key := chain_lists (pre.toList ++ [[mWaitFor fut, mResume]] ++ post.toList ++ [[mRewindable was], cache]) [mRewindable false]
  have e1 : (pre.toList ++ [[mWaitFor fut, mResume]] ++ post.toList ++ [[mRewindable was], cache]).map Gen.list
      = (pre.map Gen.list).toList ++ [Gen.list [mWaitFor fut, mResume]] ++ (post.map Gen.list).toList
          ++ [Gen.list [mRewindable was], Gen.list cache] := by
    cases pre <;> cases post <;> simp
  have e2 : [mRewindable false] ++ (pre.toList ++ [[mWaitFor fut, mResume]] ++ post.toList ++ [[mRewindable was], cache]).flatten
      = shapeMsgs fut was pre post cache SrcStart.helperShape := by
    cases pre <;> cases post <;> simp [shapeMsgs, SrcStart.helperShape]
  rw [e1, e2] at key
  exact key

end BlueskyVerif.Engine
