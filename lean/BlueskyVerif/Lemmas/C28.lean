/-
Helper definitions and lemmas for C28: the closed form of what `repeat` produces.
-/
import BlueskyVerif.Pure.Repeat

namespace BlueskyVerif.Repeat

variable {M : Type}

/-- number of `time.time()` calls made before repetition `i` starts: one per repetition (`now`)
    plus one for every earlier repetition that got a non-None delay -/
def tickAt (dl : Delay) : Nat → Nat
  | 0 => 0
  | i + 1 => tickAt dl i + (match dl.nth i with
      | some (some _) => 2
      | _ => 1)

/-- SPEC: the sleep after repetition `i`: only when a (non-None) delay `d` is available for it, and
    only for the positive remainder `d - elapsed`, where `elapsed` is the clock difference between
    the start of the repetition and the moment the delay is looked at -/
def sleepOf (dl : Delay) (env : Env M) (i : Nat) : List (Ev M) :=
  match dl.nth i with
  | some (some d) =>
    let w := d - (env.clock (tickAt dl i + 1) - env.clock (tickAt dl i))
    if w > 0 then [.sleep w] else []
  | _ => []

/-- SPEC: repetition `i` as seen by the consumer: a checkpoint, then the inner plan's messages,
    then possibly one sleep -/
def block (dl : Delay) (env : Env M) (i : Nat) : List (Ev M) :=
  .checkpoint :: .call i :: ((env.inner i).map .msg ++ sleepOf dl env i)

/-- SPEC: repetitions `i, i+1, ..., i+k-1` -/
def blocks (dl : Delay) (env : Env M) (i k : Nat) : List (Ev M) :=
  (List.range' i k).flatMap (block dl env)

theorem blocks_zero (dl : Delay) (env : Env M) (i : Nat) : blocks dl env i 0 = [] := by
  simp [blocks]

theorem blocks_succ_left (dl : Delay) (env : Env M) (i k : Nat) :
    blocks dl env i (k + 1) = block dl env i ++ blocks dl env (i + 1) k := by
  simp [blocks, List.range'_succ]

theorem blocks_succ_right (dl : Delay) (env : Env M) (i k : Nat) :
    blocks dl env i (k + 1) = blocks dl env i k ++ block dl env (i + k) := by
  simp [blocks, List.range'_concat]

theorem loop_exhausted (num : Option Int) (dl : Delay) (env : Env M) (f i t : Nat)
    (h : iterExhausted num i = true) : loop num dl env (f + 1) i t = ([], .returned) := by
  simp [loop, h]

/-- one complete iteration -/
theorem loop_step (num : Option Int) (dl : Delay) (env : Env M) (f i : Nat) (x : Option Rat)
    (he : iterExhausted num i = false) (hx : dl.nth i = some x) :
    loop num dl env (f + 1) i (tickAt dl i) =
      (block dl env i ++ (loop num dl env f (i + 1) (tickAt dl (i + 1))).1,
       (loop num dl env f (i + 1) (tickAt dl (i + 1))).2) := by
  cases x with
  | none =>
    simp [loop, he, hx, block, sleepOf, tickAt]
  | some d =>
    simp only [loop, he, hx, block, sleepOf, tickAt, Gen.sleepCond, Gen.remaining,
      Bool.false_eq_true, ↓reduceIte, decide_eq_true_eq]
    by_cases hw : d - (env.clock (tickAt dl i + 1) - env.clock (tickAt dl i)) > 0 <;> simp [hw]

/-- the iteration in which `next(delay)` raises StopIteration -/
theorem loop_stop (num : Option Int) (dl : Delay) (env : Env M) (f i t : Nat)
    (he : iterExhausted num i = false) (hx : dl.nth i = none) :
    loop num dl env (f + 1) i t =
      (block dl env i, if stopBreaks num i then .returned else .valueError) := by
  simp [loop, he, hx, block, sleepOf]

/-- `k` complete iterations in a row -/
theorem loop_run (num : Option Int) (dl : Delay) (env : Env M) (k f i : Nat)
    (h : ∀ j, i ≤ j → j < i + k → iterExhausted num j = false ∧ dl.nth j ≠ none) :
    loop num dl env (k + f) i (tickAt dl i) =
      (blocks dl env i k ++ (loop num dl env f (i + k) (tickAt dl (i + k))).1,
       (loop num dl env f (i + k) (tickAt dl (i + k))).2) := by
  induction k generalizing i with
  | zero => simp [blocks_zero]
  | succ k ih =>
    obtain ⟨he, hx⟩ := h i (by omega) (by omega)
    obtain ⟨x, hx⟩ := Option.ne_none_iff_exists'.mp hx
    have e : k + 1 + f = (k + f) + 1 := by omega
    rw [e, loop_step num dl env (k + f) i x he hx, ih (i + 1) (fun j h1 h2 => h j (by omega) (by omega))]
    have e2 : i + 1 + k = i + (k + 1) := by omega
    simp only [e2, blocks_succ_left, List.append_assoc]

/-- whatever happens, the trace is a whole number of repetitions -/
theorem loop_blocks (num : Option Int) (dl : Delay) (env : Env M) (f i : Nat) :
    ∃ k, (loop num dl env f i (tickAt dl i)).1 = blocks dl env i k := by
  induction f generalizing i with
  | zero => exact ⟨0, by simp [loop, blocks_zero]⟩
  | succ f ih =>
    cases he : iterExhausted num i with
    | true => exact ⟨0, by simp [loop_exhausted _ _ _ _ _ _ he, blocks_zero]⟩
    | false =>
      cases hx : dl.nth i with
      | none =>
        refine ⟨1, ?_⟩
        rw [loop_stop _ _ _ _ _ _ he hx]
        simp [blocks]
      | some x =>
        obtain ⟨k, hk⟩ := ih (i + 1)
        refine ⟨k + 1, ?_⟩
        rw [loop_step _ _ _ _ _ x he hx, blocks_succ_left]
        simp [hk]

theorem loop_run0 (num : Option Int) (dl : Delay) (env : Env M) (k f : Nat)
    (h : ∀ j, j < k → iterExhausted num j = false ∧ dl.nth j ≠ none) :
    loop num dl env (k + f) 0 0 =
      (blocks dl env 0 k ++ (loop num dl env f k (tickAt dl k)).1,
       (loop num dl env f k (tickAt dl k)).2) := by
  have := loop_run num dl env k f 0 (fun j _ hj => h j (by omega))
  simpa [tickAt] using this

theorem loop_blocks0 (num : Option Int) (dl : Delay) (env : Env M) (f : Nat) :
    ∃ k, (loop num dl env f 0 0).1 = blocks dl env 0 k := by
  simpa [tickAt] using loop_blocks num dl env f 0

theorem run_of_not_tooFew (num : Option Int) (dl : Delay) (env : Env M) (fuel : Nat)
    (h : tooFew num dl = false) : run num dl env fuel = loop num dl env fuel 0 0 := by
  simp [run, h]

theorem run_of_tooFew (num : Option Int) (dl : Delay) (env : Env M) (fuel : Nat)
    (h : tooFew num dl = true) : run num dl env fuel = ([], .valueError) := by
  simp [run, h]

/-- indices of the repetitions that were started -/
def callsOf : List (Ev M) → List Nat
  | [] => []
  | .call i :: r => i :: callsOf r
  | _ :: r => callsOf r

/-- the checkpoint / call skeleton of a trace -/
def skeleton : List (Ev M) → List (Ev M)
  | [] => []
  | .checkpoint :: r => .checkpoint :: skeleton r
  | .call i :: r => .call i :: skeleton r
  | _ :: r => skeleton r

/-- the sleeps of a trace -/
def sleepsOf : List (Ev M) → List Rat
  | [] => []
  | .sleep d :: r => d :: sleepsOf r
  | _ :: r => sleepsOf r

theorem callsOf_append (a b : List (Ev M)) : callsOf (a ++ b) = callsOf a ++ callsOf b := by
  induction a with
  | nil => rfl
  | cons x a ih => cases x <;> simp [callsOf, ih]

theorem skeleton_append (a b : List (Ev M)) : skeleton (a ++ b) = skeleton a ++ skeleton b := by
  induction a with
  | nil => rfl
  | cons x a ih => cases x <;> simp [skeleton, ih]

theorem callsOf_msgs (l : List M) : callsOf (l.map Ev.msg) = [] := by
  induction l with
  | nil => rfl
  | cons x l ih => simp [callsOf, ih]

theorem skeleton_msgs (l : List M) : skeleton (l.map Ev.msg) = [] := by
  induction l with
  | nil => rfl
  | cons x l ih => simp [skeleton, ih]

theorem callsOf_sleepOf (dl : Delay) (env : Env M) (i : Nat) : callsOf (sleepOf dl env i) = [] := by
  unfold sleepOf; split
  · dsimp only; split <;> simp [callsOf]
  · rfl

theorem skeleton_sleepOf (dl : Delay) (env : Env M) (i : Nat) : skeleton (sleepOf dl env i) = [] := by
  unfold sleepOf; split
  · dsimp only; split <;> simp [skeleton]
  · rfl

theorem callsOf_block (dl : Delay) (env : Env M) (i : Nat) : callsOf (block dl env i) = [i] := by
  simp [block, callsOf, callsOf_append, callsOf_msgs, callsOf_sleepOf]

theorem skeleton_block (dl : Delay) (env : Env M) (i : Nat) :
    skeleton (block dl env i) = [.checkpoint, .call i] := by
  simp [block, skeleton, skeleton_append, skeleton_msgs, skeleton_sleepOf]

theorem callsOf_blocks (dl : Delay) (env : Env M) (i k : Nat) :
    callsOf (blocks dl env i k) = List.range' i k := by
  induction k generalizing i with
  | zero => simp [blocks_zero, callsOf]
  | succ k ih => simp [blocks_succ_left, callsOf_append, callsOf_block, ih, List.range'_succ]

theorem skeleton_blocks (dl : Delay) (env : Env M) (i k : Nat) :
    skeleton (blocks dl env i k) = (List.range' i k).flatMap (fun j => [.checkpoint, .call j]) := by
  induction k generalizing i with
  | zero => simp [blocks_zero, skeleton]
  | succ k ih => simp [blocks_succ_left, skeleton_append, skeleton_block, ih, List.range'_succ]

end BlueskyVerif.Repeat
