/-
C03 -- the pure replay lemma ("Lemma B" of DESIGN.md §6) over the small model of Engine/Replay.lean.
Everything is for ALL message lists, states and interruption schedules (inductions on lists).
-/
import BlueskyVerif.Engine.Replay

namespace BlueskyVerif.Replay

/-! ## exec: basic algebra -/

theorem exec_append (D : Devices) (K1 K2 : List RMsg) (s : RState) :
    exec D s (K1 ++ K2) = ((exec D (exec D s K1).1 K2).1, (exec D s K1).2 ++ (exec D (exec D s K1).1 K2).2) := by
  induction K1 generalizing s with
  | nil => simp [exec]
  | cons m K1 ih => simp [exec, ih, List.append_assoc]

theorem setsOf_append (A B : List RMsg) : setsOf (A ++ B) = setsOf A ++ setsOf B := by
  induction A with
  | nil => rfl
  | cons m A ih => cases m <;> simp [setsOf, ih]

theorem setsOf_take_subset (K : List RMsg) (n : Nat) (d : Dev) (h : d ∈ setsOf (K.take n)) : d ∈ setsOf K := by
  have : setsOf K = setsOf (K.take n) ++ setsOf (K.drop n) := by
    rw [← setsOf_append, List.take_append_drop]
  rw [this]; exact List.mem_append_left _ h

/-- the value of the last `set` of device `x` in K -/
def lastSet : List RMsg → Dev → Option Int
  | [], _ => none
  | .set d v :: K, x =>
    match lastSet K x with
    | some w => some w
    | none => if x = d then some v else none
  | .bundle _ _ :: K, x => lastSet K x
  | .other :: K, x => lastSet K x

theorem lastSet_none_of_not_mem (K : List RMsg) (x : Dev) (h : x ∉ setsOf K) : lastSet K x = none := by
  induction K with
  | nil => rfl
  | cons m K ih =>
    cases m with
    | set d v =>
      simp only [setsOf, List.mem_cons, not_or] at h
      simp [lastSet, ih h.2, h.1]
    | bundle st dets => simpa [lastSet, setsOf] using ih (by simpa [setsOf] using h)
    | other => simpa [lastSet, setsOf] using ih (by simpa [setsOf] using h)

theorem lastSet_some_of_mem (K : List RMsg) (x : Dev) (h : x ∈ setsOf K) : ∃ v, lastSet K x = some v := by
  induction K with
  | nil => cases h
  | cons m K ih =>
    cases m with
    | set d v =>
      simp only [lastSet]
      cases hl : lastSet K x with
      | some w => exact ⟨w, rfl⟩
      | none =>
        simp only [setsOf, List.mem_cons] at h
        rcases h with h | h
        · exact ⟨v, by simp [h]⟩
        · obtain ⟨w, hw⟩ := ih h; rw [hl] at hw; cases hw
    | bundle st dets => simpa [lastSet] using ih (by simpa [setsOf] using h)
    | other => simpa [lastSet] using ih (by simpa [setsOf] using h)

/-- positions after a run: the last set value, else the starting position; the counters play no role -/
theorem exec_pos (D : Devices) (K : List RMsg) (s : RState) (x : Dev) :
    (exec D s K).1.pos x = (lastSet K x).getD (s.pos x) := by
  induction K generalizing s with
  | nil => rfl
  | cons m K ih =>
    cases m with
    | set d v =>
      simp only [exec, step, lastSet]
      rw [ih]
      cases lastSet K x with
      | some w => rfl
      | none => by_cases hx : x = d <;> simp [setPos, hx]
    | bundle st dets => simp only [exec, step, lastSet]; rw [ih]
    | other => simp only [exec, step, lastSet]; rw [ih]

/-! ## ReplaySafe: structural facts -/

theorem replaySafe_prefix {D : Devices} {K1 K2 : List RMsg} {p q : Pos} (h : ReplaySafe D (K1 ++ K2) p q) :
    ReplaySafe D K1 p q := by
  intro A st dets B hK det hdet d hd
  exact h A st dets (B ++ K2) (by rw [hK]; simp) det hdet d hd

theorem replaySafe_take {D : Devices} {K : List RMsg} {p q : Pos} (n : Nat) (h : ReplaySafe D K p q) :
    ReplaySafe D (K.take n) p q := by
  apply replaySafe_prefix (K2 := K.drop n)
  rw [List.take_append_drop]; exact h

theorem replaySafe_refl (D : Devices) (K : List RMsg) (p : Pos) : ReplaySafe D K p p :=
  fun _ _ _ _ _ _ _ _ _ => Or.inr rfl

/-- the Boolean version used on traces is sound -/
theorem replaySafeB_sound (D : Devices) (p q : Pos) (K : List RMsg) (done : List Dev)
    (h : replaySafeB D p q done K = true) :
    ∀ (K1 : List RMsg) (st : Stream) (dets : List Dev) (K2 : List RMsg), K = K1 ++ .bundle st dets :: K2 →
      ∀ det ∈ dets, ∀ d ∈ D.deps det, (d ∈ done ∨ d ∈ setsOf K1) ∨ p d = q d := by
  induction K generalizing done with
  | nil => intro K1 st dets K2 hK; simp at hK
  | cons m K ih =>
    intro K1 st dets K2 hK det hdet d hd
    cases K1 with
    | nil =>
      simp only [List.nil_append, List.cons.injEq] at hK
      obtain ⟨hm, _⟩ := hK
      subst hm
      simp only [replaySafeB, Bool.and_eq_true, List.all_eq_true, Bool.or_eq_true, beq_iff_eq] at h
      rcases h.1 det hdet d hd with h1 | h1
      · exact Or.inl (Or.inl (by simpa using h1))
      · exact Or.inr h1
    | cons m' K1 =>
      simp only [List.cons_append, List.cons.injEq] at hK
      obtain ⟨hm, hK⟩ := hK
      subst hm
      cases m with
      | set d' v =>
        simp only [replaySafeB] at h
        rcases ih (d' :: done) h K1 st dets K2 hK det hdet d hd with (h1 | h1) | h1
        · simp only [List.mem_cons] at h1
          rcases h1 with h1 | h1
          · exact Or.inl (Or.inr (by simp [setsOf, h1]))
          · exact Or.inl (Or.inl h1)
        · exact Or.inl (Or.inr (by simp [setsOf, h1]))
        · exact Or.inr h1
      | bundle st' dets' =>
        simp only [replaySafeB, Bool.and_eq_true] at h
        rcases ih done h.2 K1 st dets K2 hK det hdet d hd with (h1 | h1) | h1
        · exact Or.inl (Or.inl h1)
        · exact Or.inl (Or.inr (by simpa [setsOf] using h1))
        · exact Or.inr h1
      | other =>
        simp only [replaySafeB] at h
        rcases ih done h K1 st dets K2 hK det hdet d hd with (h1 | h1) | h1
        · exact Or.inl (Or.inl h1)
        · exact Or.inl (Or.inr (by simpa [setsOf] using h1))
        · exact Or.inr h1

theorem replaySafe_of_B (D : Devices) (p q : Pos) (K : List RMsg) (h : replaySafeB D p q [] K = true) :
    ReplaySafe D K p q := by
  intro K1 st dets K2 hK det hdet d hd
  rcases replaySafeB_sound D p q K [] h K1 st dets K2 hK det hdet d hd with (h1 | h1) | h1
  · cases h1
  · exact Or.inl h1
  · exact Or.inr h1

/-! ## Lemma B: same events, same counters -/

theorem readings_congr (D : Devices) (hD : D.Sound) (p q : Pos) (dets : List Dev)
    (h : ∀ det ∈ dets, ∀ d ∈ D.deps det, p d = q d) : readings D p dets = readings D q dets := by
  unfold readings
  apply List.map_congr_left
  intro det hdet
  rw [hD p q det (h det hdet)]

/-- invariant form: positions agree on every device that matters from here on -/
theorem exec_agree (D : Devices) (hD : D.Sound) (K : List RMsg) :
    ∀ (p q : Pos) (sq : Seq), ReplaySafe D K p q →
      (exec D { pos := p, seq := sq } K).2 = (exec D { pos := q, seq := sq } K).2 ∧
      (exec D { pos := p, seq := sq } K).1.seq = (exec D { pos := q, seq := sq } K).1.seq := by
  induction K with
  | nil => intro p q sq _; exact ⟨rfl, rfl⟩
  | cons m K ih =>
    intro p q sq h
    cases m with
    | set d v =>
      have h' : ReplaySafe D K (setPos p d v) (setPos q d v) := by
        intro K1 st dets K2 hK det hdet d' hd'
        rcases h (.set d v :: K1) st dets K2 (by rw [hK]; rfl) det hdet d' hd' with h1 | h1
        · simp only [setsOf, List.mem_cons] at h1
          rcases h1 with h1 | h1
          · right; simp [setPos, h1]
          · left; exact h1
        · right; simp only [setPos]; split <;> simp [h1]
      have := ih (setPos p d v) (setPos q d v) sq h'
      simpa [exec, step] using this
    | bundle st dets =>
      have hr : readings D p dets = readings D q dets := by
        apply readings_congr D hD
        intro det hdet d hd
        rcases h [] st dets K rfl det hdet d hd with h1 | h1
        · cases h1
        · exact h1
      have h' : ReplaySafe D K p q := by
        intro K1 st' dets' K2 hK det hdet d' hd'
        have := h (.bundle st dets :: K1) st' dets' K2 (by rw [hK]; rfl) det hdet d' hd'
        simpa [setsOf] using this
      have := ih p q (bump sq st) h'
      simp only [exec, step, hr]
      exact ⟨by rw [this.1], this.2⟩
    | other =>
      have h' : ReplaySafe D K p q := by
        intro K1 st' dets' K2 hK det hdet d' hd'
        have := h (.other :: K1) st' dets' K2 (by rw [hK]; rfl) det hdet d' hd'
        simpa [setsOf] using this
      have := ih p q sq h'
      simpa [exec, step] using this

/-- the run from the interruption positions ends where the run from the checkpoint positions ends, on every
    device that was set in K or did not move -/
theorem exec_pos_agree (D : Devices) (K : List RMsg) (p q : Pos) (s1 s2 : Seq) (d : Dev)
    (h : d ∈ setsOf K ∨ p d = q d) :
    (exec D { pos := p, seq := s1 } K).1.pos d = (exec D { pos := q, seq := s2 } K).1.pos d := by
  rw [exec_pos, exec_pos]
  rcases h with h | h
  · obtain ⟨v, hv⟩ := lastSet_some_of_mem K d h
    simp [hv]
  · simp [h]

/-- re-running K from where K ended changes no position (idempotence of the moves) -/
theorem exec_pos_idem (D : Devices) (K : List RMsg) (s : RState) (sq : Seq) :
    (exec D { pos := (exec D s K).1.pos, seq := sq } K).1.pos = (exec D s K).1.pos := by
  funext x
  rw [exec_pos, exec_pos]
  cases h : lastSet K x <;> simp

/-! ## lastFor -/

theorem lastFor_append (a b : List REvent) (st : Stream) (n : Nat) :
    lastFor (a ++ b) st n = match lastFor b st n with
      | some d => some d
      | none => lastFor a st n := by
  induction a with
  | nil => simp [lastFor]; cases lastFor b st n <;> rfl
  | cons e a ih =>
    simp only [List.cons_append, lastFor, ih]
    cases lastFor b st n <;> rfl

theorem lastFor_none_of_no_key (evs : List REvent) (st : Stream) (n : Nat)
    (h : ∀ e ∈ evs, ¬ (e.stream = st ∧ e.seq = n)) : lastFor evs st n = none := by
  induction evs with
  | nil => rfl
  | cons e es ih =>
    simp only [lastFor]
    rw [ih (fun e' he' => h e' (List.mem_cons_of_mem _ he'))]
    simp [h e (List.mem_cons_self ..)]

theorem no_key_of_lastFor_none (evs : List REvent) (st : Stream) (n : Nat) (h : lastFor evs st n = none) :
    ∀ e ∈ evs, ¬ (e.stream = st ∧ e.seq = n) := by
  induction evs with
  | nil => intro e he; cases he
  | cons e es ih =>
    simp only [lastFor] at h
    cases hl : lastFor es st n with
    | some d => rw [hl] at h; cases h
    | none =>
      rw [hl] at h
      intro e' he'
      rcases List.mem_cons.mp he' with he' | he'
      · subst he'
        intro hk
        simp [hk] at h
      · exact ih hl e' he'

/-- events that also occur later do not change what is recorded last -/
theorem lastFor_absorb (a b c : List REvent) (st : Stream) (n : Nat)
    (hsub : ∀ e ∈ a, e ∈ c) (hbc : lastFor b st n = lastFor c st n) :
    lastFor (a ++ b) st n = lastFor c st n := by
  rw [lastFor_append]
  cases hb : lastFor b st n with
  | some d => rw [← hbc, hb]
  | none =>
    rw [hb] at hbc
    have hc := no_key_of_lastFor_none c st n hbc.symm
    simp only
    rw [lastFor_none_of_no_key a st n (fun e he => hc e (hsub e he)), ← hbc]

/-! ## repeated interruptions -/

theorem take_events_prefix (D : Devices) (K : List RMsg) (n : Nat) (s : RState) :
    ∀ e ∈ (exec D s (K.take n)).2, e ∈ (exec D s K).2 := by
  intro e he
  have h : exec D s K = exec D s (K.take n ++ K.drop n) := by rw [List.take_append_drop]
  rw [h, exec_append]
  exact List.mem_append_left _ he

theorem repeat_core (D : Devices) (hD : D.Sound) (K : List RMsg) (posC : Pos) (seqC : Seq) (ns : List Nat) :
    ∀ (p : Pos), (∀ d, d ∉ setsOf K → p d = posC d) → RepeatSafe D K posC seqC p ns →
      (execInterrupted D K seqC p ns).1.pos = (exec D { pos := posC, seq := seqC } K).1.pos ∧
      (execInterrupted D K seqC p ns).1.seq = (exec D { pos := posC, seq := seqC } K).1.seq ∧
      (∀ e ∈ (execInterrupted D K seqC p ns).2, e ∈ (exec D { pos := posC, seq := seqC } K).2) ∧
      ∀ st n, lastFor (execInterrupted D K seqC p ns).2 st n = lastFor (exec D { pos := posC, seq := seqC } K).2 st n := by
  induction ns with
  | nil =>
    intro p hp hs
    have hs' : ReplaySafe D K p posC := hs
    have ha := exec_agree D hD K p posC seqC hs'
    refine ⟨?_, ha.2, ?_, ?_⟩
    · funext x
      simp only [execInterrupted]
      apply exec_pos_agree
      by_cases hx : x ∈ setsOf K
      · exact Or.inl hx
      · exact Or.inr (hp x hx)
    · intro e he; simp only [execInterrupted] at he; rw [ha.1] at he; exact he
    · intro st n; simp only [execInterrupted]; rw [ha.1]
  | cons n ns ih =>
    intro p hp hs
    obtain ⟨hs1, hs2⟩ := hs
    have hp' : ∀ d, d ∉ setsOf K → (exec D { pos := p, seq := seqC } (K.take n)).1.pos d = posC d := by
      intro d hd
      rw [exec_pos, lastSet_none_of_not_mem _ _ (fun hm => hd (setsOf_take_subset K n d hm))]
      exact hp d hd
    obtain ⟨i1, i2, i3, i4⟩ := ih _ hp' hs2
    have ha := exec_agree D hD (K.take n) p posC seqC (replaySafe_take n hs1)
    have hsub : ∀ e ∈ (exec D { pos := p, seq := seqC } (K.take n)).2, e ∈ (exec D { pos := posC, seq := seqC } K).2 := by
      intro e he; rw [ha.1] at he; exact take_events_prefix D K n _ e he
    refine ⟨i1, i2, ?_, ?_⟩
    · intro e he
      simp only [execInterrupted] at he
      rcases List.mem_append.mp he with he | he
      · exact hsub e he
      · exact i3 e he
    · intro st k
      simp only [execInterrupted]
      exact lastFor_absorb _ _ _ st k hsub (i4 st k)

/-! ## step-plan points -/

theorem isPoint_sets_before {K : List RMsg} (hK : IsPoint K) {K1 K2 : List RMsg} {st : Stream} {dets : List Dev}
    (hsplit : K = K1 ++ .bundle st dets :: K2) {d : Dev} (hd : d ∈ setsOf K) : d ∈ setsOf K1 := by
  obtain ⟨S, R, hSR, hS, hR⟩ := hK
  have hnoR : setsOf R = [] := by
    clear hSR
    induction R with
    | nil => rfl
    | cons m R ih =>
      have hm := hR m (List.mem_cons_self ..)
      cases m with
      | set d v => simp [RMsg.isSet] at hm
      | bundle st dets => simpa [setsOf] using ih (fun m' h' => hR m' (List.mem_cons_of_mem _ h'))
      | other => simpa [setsOf] using ih (fun m' h' => hR m' (List.mem_cons_of_mem _ h'))
  have hdS : d ∈ setsOf S := by
    rw [hSR, setsOf_append, hnoR, List.append_nil] at hd; exact hd
  -- S is a prefix of K1: the bundle cannot lie in S
  have hEq : S ++ R = K1 ++ .bundle st dets :: K2 := by rw [← hSR, hsplit]
  rcases List.append_eq_append_iff.mp hEq with ⟨A, hA1, _⟩ | ⟨A, hA1, hA2⟩
  · -- K1 = S ++ A
    rw [hA1, setsOf_append]; exact List.mem_append_left _ hdS
  · -- S = K1 ++ A, R = ... : then A = [] (else the bundle is in S)
    cases A with
    | nil => simp only [List.append_nil] at hA1; rw [← hA1]; exact hdS
    | cons a A =>
      simp only [List.cons_append, List.cons.injEq] at hA2
      have hb : RMsg.bundle st dets ∈ S := by
        rw [hA1, ← hA2.1]; simp
      have := hS _ hb
      simp [RMsg.isBundle] at this

theorem isPoint_replaySafe (D : Devices) {K : List RMsg} (hK : IsPoint K) (p posC : Pos)
    (hp : ∀ d, d ∉ setsOf K → p d = posC d) : ReplaySafe D K p posC := by
  intro K1 st dets K2 hsplit det _ d _
  by_cases hd : d ∈ setsOf K
  · exact Or.inl (isPoint_sets_before hK hsplit hd)
  · exact Or.inr (hp d hd)

theorem isPoint_repeatSafe (D : Devices) {K : List RMsg} (hK : IsPoint K) (posC : Pos) (seqC : Seq) (ns : List Nat) :
    ∀ p : Pos, (∀ d, d ∉ setsOf K → p d = posC d) → RepeatSafe D K posC seqC p ns := by
  induction ns with
  | nil => intro p hp; exact isPoint_replaySafe D hK p posC hp
  | cons n ns ih =>
    intro p hp
    refine ⟨isPoint_replaySafe D hK p posC hp, ih _ ?_⟩
    intro d hd
    rw [exec_pos, lastSet_none_of_not_mem _ _ (fun hm => hd (setsOf_take_subset K n d hm))]
    exact hp d hd

/-! ## one interruption after a prefix -/

theorem RState.ext' {a b : RState} (hp : a.pos = b.pos) (hs : a.seq = b.seq) : a = b := by
  cases a; cases b; simp only [RState.mk.injEq]; exact ⟨hp, hs⟩

/-- the replay of the interrupted prefix K1 from the interruption positions with rolled-back counters ends in
    exactly the state the first pass ended in -/
theorem replay_prefix_state (D : Devices) (hD : D.Sound) (K1 : List RMsg) (posC : Pos) (seqC : Seq)
    (hs : ReplaySafe D K1 (exec D { pos := posC, seq := seqC } K1).1.pos posC) :
    (exec D { pos := (exec D { pos := posC, seq := seqC } K1).1.pos, seq := seqC } K1).1 = (exec D { pos := posC, seq := seqC } K1).1 ∧
    (exec D { pos := (exec D { pos := posC, seq := seqC } K1).1.pos, seq := seqC } K1).2 = (exec D { pos := posC, seq := seqC } K1).2 := by
  have ha := exec_agree D hD K1 _ posC seqC hs
  exact ⟨RState.ext' (exec_pos_idem D K1 _ seqC) ha.2, ha.1⟩

theorem interrupted_prefix (D : Devices) (hD : D.Sound) (K1 K2 : List RMsg) (posC : Pos) (seqC : Seq)
    (hs : ReplaySafe D K1 (exec D { pos := posC, seq := seqC } K1).1.pos posC) :
    (exec D { pos := (exec D { pos := posC, seq := seqC } K1).1.pos, seq := seqC } (K1 ++ K2)).1 =
      (exec D { pos := posC, seq := seqC } (K1 ++ K2)).1 ∧
    ∀ st n, lastFor ((exec D { pos := posC, seq := seqC } K1).2 ++
        (exec D { pos := (exec D { pos := posC, seq := seqC } K1).1.pos, seq := seqC } (K1 ++ K2)).2) st n =
      lastFor (exec D { pos := posC, seq := seqC } (K1 ++ K2)).2 st n := by
  obtain ⟨h1, h2⟩ := replay_prefix_state D hD K1 posC seqC hs
  rw [exec_append D K1 K2, exec_append D K1 K2]
  rw [h1, h2]
  refine ⟨rfl, ?_⟩
  intro st n
  exact lastFor_absorb _ _ _ st n (fun e he => List.mem_append_left _ he) rfl

/-! ## a whole checkpointed plan: points with their own interruption schedules -/

theorem lastFor_congr_append (a a' b b' : List REvent) (ha : ∀ st n, lastFor a st n = lastFor a' st n)
    (hb : ∀ st n, lastFor b st n = lastFor b' st n) (st : Stream) (n : Nat) :
    lastFor (a ++ b) st n = lastFor (a' ++ b') st n := by
  rw [lastFor_append, lastFor_append, ha, hb]

theorem execPoints_same (D : Devices) (hD : D.Sound) (pts : List (List RMsg × List Nat))
    (hsafe : ∀ (s : RState), ∀ p ∈ pts, RepeatSafe D p.1 s.pos s.seq s.pos p.2) :
    ∀ s : RState,
      (execPoints D s pts).1 = (execPoints D s (pts.map (fun p => (p.1, [])))).1 ∧
      ∀ st n, lastFor (execPoints D s pts).2 st n = lastFor (execPoints D s (pts.map (fun p => (p.1, [])))).2 st n := by
  induction pts with
  | nil => intro s; exact ⟨rfl, fun _ _ => rfl⟩
  | cons p pts ih =>
    intro s
    obtain ⟨K, ns⟩ := p
    have hrep := repeat_core D hD K s.pos s.seq ns s.pos (fun _ _ => rfl) (hsafe s (K, ns) (List.mem_cons_self ..))
    have hst : (execInterrupted D K s.seq s.pos ns).1 = (execInterrupted D K s.seq s.pos []).1 :=
      RState.ext' hrep.1 hrep.2.1
    have ih' := ih (fun s p hp => hsafe s p (List.mem_cons_of_mem _ hp))
    simp only [execPoints, List.map]
    rw [hst]
    refine ⟨(ih' _).1, ?_⟩
    intro st n
    exact lastFor_congr_append _ _ _ _ (fun st n => hrep.2.2.2 st n) (ih' _).2 st n

/-- without interruptions the checkpoints are transparent: the points just run one after the other -/
theorem execPoints_uninterrupted (D : Devices) (Ks : List (List RMsg)) :
    ∀ s : RState, execPoints D s (Ks.map (fun K => (K, []))) = exec D s Ks.flatten := by
  induction Ks with
  | nil => intro s; rfl
  | cons K Ks ih =>
    intro s
    simp only [List.map, execPoints, execInterrupted, List.flatten_cons, exec_append, ih]

end BlueskyVerif.Replay
