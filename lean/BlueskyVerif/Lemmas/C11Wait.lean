/-
C11 helper lemmas, part 4: a `wait_for` on an unreleased future blocks, and stays blocked through every
environment round that neither releases the future nor cancels the task.
-/
import BlueskyVerif.Lemmas.C11Frame

namespace BlueskyVerif.Engine

/-- program counter, message log and released futures -/
def wp (s : EState) : PC × List Msg × List Nat := (s.pc, s.msgs, s.futs)

theorem wp_of_view {s s' : EState} (h : view s' = view s) : wp s' = wp s := by
  have h1 := congrArg View.pc h
  have h2 := congrArg View.msgs h
  have h3 := congrArg View.futs h
  simp only [view] at h1 h2 h3
  simp only [wp, h1, h2, h3]

theorem wp_foldl {α} (f : EState → α → EState) (h : ∀ s a, wp (f s a) = wp s) (l : List α) (s : EState) :
    wp (l.foldl f s) = wp s := by
  induction l generalizing s with
  | nil => rfl
  | cons a l ih => rw [List.foldl_cons, ih, h]

theorem setState_wp {s s' : EState} {n : St} (h : setState s n = .ok s') : wp s' = wp s := by
  unfold setState at h; split at h
  · cases h; rfl
  · cases h

theorem requestPause_wp {s s' : EState} {d : Bool} (h : requestPause s d = .ok s') : wp s' = wp s := by
  unfold requestPause at h
  split at h
  · cases h
  · split at h
    · cases h; rfl
    · split at h
      · cases h
      · rename_i s1 hs
        cases h
        have h1 := setState_wp hs
        have h2 : wp (forBundlers s1 (fun s b => recordInterruption s b "pause")) = wp s1 :=
          wp_of_view (view_forBundlers_ri s1 "pause")
        have : wp { forBundlers s1 (fun s b => recordInterruption s b "pause") with cancelPending := true }
            = wp (forBundlers s1 (fun s b => recordInterruption s b "pause")) := rfl
        rw [this, h2, h1]; rfl

theorem pushSuspender_wp (f : Nat) (pre post : Option Gen) (j : Option String) (s : EState) :
    wp (pushSuspender f pre post j s) = wp s := by
  unfold pushSuspender
  simp only []
  split
  · split
    · rename_i s' hs
      have := setState_wp hs
      simp only [wp] at this ⊢
      exact this
    · rfl
  · rfl

theorem requestSuspend_wp (s : EState) (f : Nat) (pre post : Option Gen) (j : Option String) :
    wp (requestSuspend s f pre post j) = wp s := by
  unfold requestSuspend
  split
  · simp only []
    split
    · rfl
    · rename_i s' hs
      rw [pushSuspender_wp]
      have := setState_wp hs
      split
      · simp only [wp] at this ⊢; exact this
      · exact this
  · exact pushSuspender_wp f pre post j s

theorem requestTerminate_wp (s : EState) (k r : String) : wp (requestTerminate s k r) = wp s := by
  unfold requestTerminate
  split
  · rfl
  · have hp : wp (termPrep s k r) = wp s := by unfold termPrep; simp only []; split <;> rfl
    split
    · rfl
    · rename_i s' hs
      have h1 := setState_wp hs
      have h2 : wp (termAfter s' k (s.state == .paused)) = wp s' := by
        unfold termAfter; split
        · simp only []; split <;> rfl
        · rfl
      rw [h2, h1, hp]

theorem completeStatus_wp (s : EState) (k : Nat) : wp (completeStatus s k) = wp s := by
  unfold completeStatus
  split
  · rfl
  · split
    · rfl
    · split <;> rfl

theorem flushCompletions_wp (s : EState) : wp (flushCompletions s) = wp s := by
  unfold flushCompletions
  rw [wp_foldl _ completeStatus_wp]; rfl

theorem monitorUpdate_wp (s : EState) (sig : String) (v : Int) : wp (monitorUpdate s sig v) = wp s := by
  unfold monitorUpdate
  simp only []
  rw [wp_foldl]
  · rfl
  · intro s a; split <;> rfl

/-- the action releases future `f` -/
def Action.releases (f : Nat) : Action → Bool
  | .release g => g == f
  | _ => false

/-- no environment action moves `_run`'s program counter or executes a message; the set of released futures
    only grows, and only by a `release` action -/
theorem applyAction_pc_msgs (s : EState) (a : Action) :
    (applyAction s a).pc = s.pc ∧ (applyAction s a).msgs = s.msgs := by
  have key : ∀ {s' : EState}, wp s' = wp s → s'.pc = s.pc ∧ s'.msgs = s.msgs := by
    intro s' h
    simp only [wp, Prod.mk.injEq] at h
    exact ⟨h.1, h.2.1⟩
  cases a with
  | pause d =>
    simp only [applyAction]; split
    · rename_i s' h; exact key (requestPause_wp h)
    · exact ⟨rfl, rfl⟩
  | suspend f pre post j => exact key (requestSuspend_wp s f pre post j)
  | release f => simp only [applyAction]; split <;> exact ⟨rfl, rfl⟩
  | abort => exact key (requestTerminate_wp s _ _)
  | stop => exact key (requestTerminate_wp s _ _)
  | halt => exact key (requestTerminate_wp s _ _)
  | status k ok =>
    simp only [applyAction]; split
    · split
      · exact ⟨rfl, rfl⟩
      · exact key ((completeStatus_wp _ k).trans rfl)
    · exact ⟨rfl, rfl⟩
  | monitor sig v => exact key (monitorUpdate_wp s sig v)

theorem applyAction_keeps_unreleased (s : EState) (a : Action) (f : Nat) (ha : a.releases f = false)
    (hf : s.futs.contains f = false) : (applyAction s a).futs.contains f = false := by
  have key : ∀ {s' : EState}, wp s' = wp s → s'.futs.contains f = false := by
    intro s' h
    simp only [wp, Prod.mk.injEq] at h
    rw [h.2.2]; exact hf
  cases a with
  | pause d =>
    simp only [applyAction]; split
    · rename_i s' h; exact key (requestPause_wp h)
    · exact hf
  | suspend g pre post j => exact key (requestSuspend_wp s g pre post j)
  | release g =>
    simp only [Action.releases, beq_eq_false_iff_ne, ne_eq] at ha
    simp only [applyAction]; split
    · exact hf
    · simp only [List.contains_eq_mem, List.mem_append, List.mem_singleton, decide_eq_false_iff_not] at hf ⊢
      intro h
      rcases h with h | h
      · exact hf h
      · exact ha h.symm
  | abort => exact key (requestTerminate_wp s _ _)
  | stop => exact key (requestTerminate_wp s _ _)
  | halt => exact key (requestTerminate_wp s _ _)
  | status k ok =>
    simp only [applyAction]; split
    · split
      · exact hf
      · exact key ((completeStatus_wp _ k).trans rfl)
    · exact hf
  | monitor sig v => exact key (monitorUpdate_wp s sig v)

/-! ### blocking -/

/-- the bookkeeping of known futures at the start of `_wait_for` -/
def noteFut (s : EState) (f : Nat) : EState :=
  if s.futsKnown.contains f then s else { s with futsKnown := s.futsKnown ++ [f] }

theorem noteFut_same (s : EState) (f : Nat) :
    (noteFut s f).futs = s.futs ∧ (noteFut s f).msgs = s.msgs ∧ (noteFut s f).planStack = s.planStack ∧
    (noteFut s f).respStack = s.respStack ∧ view (noteFut s f) = view s := by
  unfold noteFut; split <;> exact ⟨rfl, rfl, rfl, rfl, rfl⟩

theorem cmdWaitFor_def (s : EState) (m : Msg) :
    cmdWaitFor s m =
      if (noteFut s (m.iargs.headD 0).toNat).futs.contains (m.iargs.headD 0).toNat
      then (noteFut s (m.iargs.headD 0).toNat, .value .seq)
      else (noteFut s (m.iargs.headD 0).toNat, .suspend (.inWaitFor (m.iargs.headD 0).toNat)) := rfl

/-- `_wait_for` on a future that is not released suspends `_run` (at `.inWaitFor f`) -/
theorem cmdWaitFor_suspends (s : EState) (m : Msg) (h : s.futs.contains (m.iargs.headD 0).toNat = false) :
    cmdWaitFor s m = (noteFut s (m.iargs.headD 0).toNat, .suspend (.inWaitFor (m.iargs.headD 0).toNat)) := by
  rw [cmdWaitFor_def, (noteFut_same s _).1, h]
  rfl

/-- ... and on a released one it completes at once -/
theorem cmdWaitFor_completes (s : EState) (m : Msg) (h : s.futs.contains (m.iargs.headD 0).toNat = true) :
    cmdWaitFor s m = (noteFut s (m.iargs.headD 0).toNat, .value .seq) := by
  rw [cmdWaitFor_def, (noteFut_same s _).1, h]
  rfl

/-- given the CPU without a cancellation, `_run` blocked in `wait_for f` does nothing at all while `f` is
    unreleased: the whole engine state is unchanged -/
theorem advanceAt_wait_stays (fuel : Nat) (s : EState) (f : Nat) (hpc : s.pc = .inWaitFor f)
    (hf : s.futs.contains f = false) : advanceAt fuel false s = s := by
  unfold advanceAt
  rw [hpc]
  simp only [hf, Bool.false_eq_true, ↓reduceIte]

theorem clearCancel_id (s : EState) (h : s.cancelPending = false) : { s with cancelPending := false } = s := by
  cases s
  simp only at h
  subst h
  rfl

theorem advance_wait_stays (fuel : Nat) (s : EState) (f : Nat) (hpc : s.pc = .inWaitFor f)
    (hf : s.futs.contains f = false) (hc : s.cancelPending = false) : advance fuel s = s := by
  unfold advance
  rw [hc, clearCancel_id s hc]
  exact advanceAt_wait_stays fuel s f hpc hf

/-- once the future is released the wait completes with the list of futures as response -/
theorem advanceAt_wait_released (fuel : Nat) (s : EState) (f : Nat) (hpc : s.pc = .inWaitFor f)
    (hf : s.futs.contains f = true) : advanceAt fuel false s = runLoop fuel (fin s .seq) := by
  unfold advanceAt
  rw [hpc]
  simp only [hf, Bool.false_eq_true, ↓reduceIte]

/-! ### environment rounds -/

/-- one turn of the event loop while `_run` is blocked: finished statuses call back, the environment acts,
    `_run` gets the CPU -/
def envRound (fuel : Nat) (s : EState) (as : List Action) : EState :=
  advance fuel (as.foldl applyAction (flushCompletions s))

/-- no round cancels the `_run` task -/
def Quiet (fuel : Nat) : EState → List (List Action) → Prop
  | _, [] => True
  | s, as :: rest => (as.foldl applyAction (flushCompletions s)).cancelPending = false ∧ Quiet fuel (envRound fuel s as) rest

theorem foldl_applyAction_blocked (f : Nat) (as : List Action) (s : EState)
    (hrel : ∀ a ∈ as, a.releases f = false) (hf : s.futs.contains f = false) :
    (as.foldl applyAction s).pc = s.pc ∧ (as.foldl applyAction s).msgs = s.msgs ∧
    (as.foldl applyAction s).futs.contains f = false := by
  induction as generalizing s with
  | nil => exact ⟨rfl, rfl, hf⟩
  | cons a as ih =>
    rw [List.foldl_cons]
    have h1 := applyAction_pc_msgs s a
    have h2 := applyAction_keeps_unreleased s a f (hrel a (List.mem_cons_self ..)) hf
    obtain ⟨i1, i2, i3⟩ := ih (applyAction s a) (fun b hb => hrel b (List.mem_cons_of_mem _ hb)) h2
    exact ⟨i1.trans h1.1, i2.trans h1.2, i3⟩

/-- the blocked state is invariant under ANY sequence of rounds that do not release `f` and do not cancel -/
theorem rounds_blocked (fuel : Nat) (f : Nat) (rs : List (List Action)) (s : EState)
    (hpc : s.pc = .inWaitFor f) (hf : s.futs.contains f = false)
    (hrel : ∀ as ∈ rs, ∀ a ∈ as, a.releases f = false) (hq : Quiet fuel s rs) :
    (rs.foldl (envRound fuel) s).pc = .inWaitFor f ∧ (rs.foldl (envRound fuel) s).msgs = s.msgs ∧
    (rs.foldl (envRound fuel) s).futs.contains f = false := by
  induction rs generalizing s with
  | nil => exact ⟨hpc, rfl, hf⟩
  | cons as rs ih =>
    rw [List.foldl_cons]
    obtain ⟨hq1, hq2⟩ := hq
    have hfl := flushCompletions_wp s
    simp only [wp, Prod.mk.injEq] at hfl
    have hf0 : (flushCompletions s).futs.contains f = false := by rw [hfl.2.2]; exact hf
    obtain ⟨a1, a2, a3⟩ := foldl_applyAction_blocked f as (flushCompletions s) (hrel as (List.mem_cons_self ..)) hf0
    have hst : envRound fuel s as = as.foldl applyAction (flushCompletions s) := by
      unfold envRound
      exact advance_wait_stays fuel _ f (a1.trans (hfl.1.trans hpc)) a3 hq1
    obtain ⟨i1, i2, i3⟩ := ih (envRound fuel s as) (by rw [hst]; exact a1.trans (hfl.1.trans hpc)) (by rw [hst]; exact a3)
      (fun bs hbs => hrel bs (List.mem_cons_of_mem _ hbs)) hq2
    refine ⟨i1, ?_, i3⟩
    rw [i2, hst, a2, hfl.2.1]

/-! ### a syntactic class of rounds that never cancel: status completions, monitor updates, releases,
    deferred pause requests -/

def Action.benign : Action → Bool
  | .pause d => d
  | .release _ => true
  | .status _ _ => true
  | .monitor _ _ => true
  | _ => false

theorem cancel_foldl {α} (f : EState → α → EState) (h : ∀ s a, (f s a).cancelPending = s.cancelPending)
    (l : List α) (s : EState) : (l.foldl f s).cancelPending = s.cancelPending := by
  induction l generalizing s with
  | nil => rfl
  | cons a l ih => rw [List.foldl_cons, ih, h]

theorem completeStatus_cancel (s : EState) (k : Nat) : (completeStatus s k).cancelPending = s.cancelPending := by
  unfold completeStatus
  split
  · rfl
  · split
    · rfl
    · split <;> rfl

theorem flushCompletions_cancel (s : EState) : (flushCompletions s).cancelPending = s.cancelPending := by
  unfold flushCompletions
  rw [cancel_foldl _ completeStatus_cancel]

theorem benign_cancel (s : EState) (a : Action) (h : a.benign = true) :
    (applyAction s a).cancelPending = s.cancelPending := by
  cases a with
  | pause d =>
    simp only [Action.benign] at h
    subst h
    simp only [applyAction, requestPause]
    split
    · rename_i s' h'
      split at h'
      · cases h'
      · simp only [↓reduceIte] at h'; cases h'; rfl
    · rfl
  | suspend f pre post j => cases h
  | release f => simp only [applyAction]; split <;> rfl
  | abort => cases h
  | stop => cases h
  | halt => cases h
  | status k ok =>
    simp only [applyAction]; split
    · split
      · rfl
      · rw [completeStatus_cancel]
    · rfl
  | monitor sig v =>
    simp only [applyAction, monitorUpdate]
    rw [cancel_foldl]
    · rfl
    · intro s a; split <;> rfl

theorem benign_quiet (fuel : Nat) (f : Nat) (rs : List (List Action)) (s : EState)
    (hpc : s.pc = .inWaitFor f) (hf : s.futs.contains f = false) (hc : s.cancelPending = false)
    (hrel : ∀ as ∈ rs, ∀ a ∈ as, a.releases f = false) (hben : ∀ as ∈ rs, ∀ a ∈ as, a.benign = true) :
    Quiet fuel s rs := by
  induction rs generalizing s with
  | nil => trivial
  | cons as rs ih =>
    have hc1 : (as.foldl applyAction (flushCompletions s)).cancelPending = false := by
      have : ∀ (l : List Action) (s : EState), (∀ a ∈ l, a.benign = true) →
          (l.foldl applyAction s).cancelPending = s.cancelPending := by
        intro l
        induction l with
        | nil => intro s _; rfl
        | cons a l ihl =>
          intro s hl
          rw [List.foldl_cons, ihl _ (fun b hb => hl b (List.mem_cons_of_mem _ hb)),
            benign_cancel s a (hl a (List.mem_cons_self ..))]
      rw [this as _ (hben as (List.mem_cons_self ..)), flushCompletions_cancel]; exact hc
    refine ⟨hc1, ?_⟩
    have hfl := flushCompletions_wp s
    simp only [wp, Prod.mk.injEq] at hfl
    have hf0 : (flushCompletions s).futs.contains f = false := by rw [hfl.2.2]; exact hf
    obtain ⟨a1, _, a3⟩ := foldl_applyAction_blocked f as (flushCompletions s) (hrel as (List.mem_cons_self ..)) hf0
    have hst : envRound fuel s as = as.foldl applyAction (flushCompletions s) := by
      unfold envRound
      exact advance_wait_stays fuel _ f (a1.trans (hfl.1.trans hpc)) a3 hc1
    apply ih
    · rw [hst]; exact a1.trans (hfl.1.trans hpc)
    · rw [hst]; exact a3
    · rw [hst]; exact hc1
    · exact fun bs hbs => hrel bs (List.mem_cons_of_mem _ hbs)
    · exact fun bs hbs => hben bs (List.mem_cons_of_mem _ hbs)

end BlueskyVerif.Engine
