/-
Helper lemmas for C35 (flow model of RunNormalizer): sequential composition, interleavings,
which stream datums are emitted for which event references.
-/
import BlueskyVerif.IO.NormalizerFlow

namespace BlueskyVerif.NormFlow
open BlueskyVerif.Normalizer (reservedKeys frameCounterInit frameNextIndex frameCarryCond frameCarryVal
  framelessRange indicesOf seqNumsOf)

/-! ### sequential composition -/

theorem andThen_err_none {r : Res} {g : St → Res} :
    (r.andThen g).err = none ↔ r.err = none ∧ (g r.st).err = none := by
  unfold Res.andThen
  cases h : r.err <;> simp [h]

theorem andThen_outs {r : Res} {g : St → Res} (h : r.err = none) :
    (r.andThen g).outs = r.outs ++ (g r.st).outs := by
  unfold Res.andThen; simp [h]

theorem andThen_st {r : Res} {g : St → Res} (h : r.err = none) : (r.andThen g).st = (g r.st).st := by
  unfold Res.andThen; simp [h]

/-- a relation between start state, labels, emitted documents and end state that composes sequentially -/
structure Comp {L : Type} (P : St → List L → List Out → St → Prop) : Prop where
  nil : ∀ st, P st [] [] st
  app : ∀ {a b c : St} {l1 l2 : List L} {o1 o2 : List Out}, P a l1 o1 b → P b l2 o2 c → P a (l1 ++ l2) (o1 ++ o2) c

/-- labels collected along a loop, each computed in the state the iteration starts in -/
def labs {X L : Type} (f : St → X → Res) (lab : St → X → List L) : St → List X → List L
  | _, [] => []
  | st, x :: xs => lab st x ++ labs f lab (f st x).st xs

theorem seqFold_spec {X L : Type} {P : St → List L → List Out → St → Prop} (hP : Comp P)
    (f : St → X → Res) (lab : St → X → List L) :
    ∀ (xs : List X) (st : St),
      (∀ st' x, x ∈ xs → (f st' x).err = none → P st' (lab st' x) (f st' x).outs (f st' x).st) →
      (seqFold f st xs).err = none →
      P st (labs f lab st xs) (seqFold f st xs).outs (seqFold f st xs).st := by
  intro xs
  induction xs with
  | nil => intro st _ _; exact hP.nil st
  | cons x xs ih =>
    intro st hstep herr
    simp only [seqFold] at herr ⊢
    obtain ⟨h1, h2⟩ := andThen_err_none.mp herr
    rw [andThen_outs h1, andThen_st h1]
    exact hP.app (hstep st x (by simp) h1) (ih _ (fun st' y hy => hstep st' y (by simp [hy])) h2)

theorem andThen_assoc (r : Res) (g k : St → Res) :
    (r.andThen g).andThen k = r.andThen (fun s => (g s).andThen k) := by
  unfold Res.andThen
  cases h : r.err with
  | some e => simp [h]
  | none =>
    simp only
    cases h2 : (g r.st).err <;> simp [h2, List.append_assoc]

theorem seqFold_append {X : Type} (f : St → X → Res) :
    ∀ (xs ys : List X) (st : St),
      seqFold f st (xs ++ ys) = (seqFold f st xs).andThen (fun s => seqFold f s ys) := by
  intro xs
  induction xs with
  | nil => intro ys st; simp [seqFold, Res.andThen]
  | cons x xs ih =>
    intro ys st
    simp only [List.cons_append, seqFold, andThen_assoc]
    congr 1
    funext s
    exact ih ys s

/-! ### interleavings -/

inductive Interleave {α : Type} : List α → List α → List α → Prop where
  | nil : Interleave [] [] []
  | left (x : α) {l a b : List α} : Interleave l a b → Interleave (x :: l) (x :: a) b
  | right (x : α) {l a b : List α} : Interleave l a b → Interleave (x :: l) a (x :: b)

theorem Interleave.append {α : Type} {l1 a1 b1 l2 a2 b2 : List α} (h1 : Interleave l1 a1 b1)
    (h2 : Interleave l2 a2 b2) : Interleave (l1 ++ l2) (a1 ++ a2) (b1 ++ b2) := by
  induction h1 with
  | nil => simpa using h2
  | left x _ ih => exact Interleave.left x ih
  | right x _ ih => exact Interleave.right x ih

theorem Interleave.right_nil {α : Type} {l a b : List α} (h : Interleave l a b) (hb : b = []) : l = a := by
  induction h with
  | nil => rfl
  | left x _ ih => rw [ih hb]
  | right x _ _ => simp at hb

theorem Interleave.left_nil {α : Type} {l a b : List α} (h : Interleave l a b) (ha : a = []) : l = b := by
  induction h with
  | nil => rfl
  | left x _ _ => simp at ha
  | right x _ ih => rw [ih ha]

theorem Interleave.perm {α : Type} {l a b : List α} (h : Interleave l a b) : l.Perm (a ++ b) := by
  induction h with
  | nil => exact List.Perm.refl _
  | left x _ ih => exact List.Perm.cons x ih
  | right x _ ih =>
    rename_i l a b _
    exact (List.Perm.cons x ih).trans (List.perm_middle.symm)

theorem Interleave.all_left {α : Type} (l : List α) : Interleave l l [] := by
  induction l with
  | nil => exact Interleave.nil
  | cons x l ih => exact Interleave.left x ih

/-! ### `srcs` -/

theorem srcs_append (a b : List Out) : srcs (a ++ b) = srcs a ++ srcs b := by simp [srcs]
theorem srcs_nil : srcs [] = [] := rfl

/-! ### the primitive steps -/

theorem popDatum_fields {st : St} {v : DVal} {d : Datum} {st1 : St} (h : popDatum st v = some (d, st1)) :
    st1.extRefs = st.extRefs ∧ st1.nextFrame = st.nextFrame ∧ st1.intKeys = st.intKeys ∧
      st1.descName = st.descName := by
  unfold popDatum at h
  cases v with
  | num n => simp at h
  | str id =>
    simp only at h
    cases hl : st.datumCache.lookup id with
    | none => simp [hl] at h
    | some d' =>
      simp only [hl, Option.some.injEq, Prod.mk.injEq] at h
      obtain ⟨_, h2⟩ := h
      subst h2
      exact ⟨rfl, rfl, rfl, rfl⟩

theorem convert_fields {st : St} {d : Datum} {ref : ExtRef} {st' : St} {i0 i1 : Int} {name : String}
    (h : convert st d ref = .ok (st', i0, i1, name)) :
    st'.extRefs = st.extRefs ∧ st'.intKeys = st.intKeys ∧ st'.sresCache = st.sresCache ∧
      st'.descName = st.descName := by
  unfold convert at h
  cases hf : d.frame with
  | none =>
    simp only [hf, Except.ok.injEq, Prod.mk.injEq] at h
    obtain ⟨h1, _⟩ := h
    subst h1
    exact ⟨rfl, rfl, rfl, rfl⟩
  | some f =>
    simp only [hf] at h
    cases hl : st.descName.lookup ref.desc with
    | none => simp [hl] at h
    | some nm =>
      simp only [hl, Except.ok.injEq, Prod.mk.injEq] at h
      obtain ⟨h1, _⟩ := h
      subst h1
      exact ⟨rfl, rfl, rfl, rfl⟩

/-- shape of a successful `emitRef` -/
theorem emitRef_ok {st : St} {d : Datum} {ref : ExtRef} {uid : String} (h : (emitRef st d ref uid).err = none) :
    ∃ st' i0 i1 name pre sd, convert st d ref = .ok (st', i0, i1, name) ∧
      (emitRef st d ref uid).outs = pre ++ [.streamDatum sd (some ⟨ref, d.frame, name⟩)] ∧
      srcs pre = [] ∧
      sd = ⟨uid, d.resource ++ "-" ++ ref.key, ref.desc, (indicesOf i0 i1).1, (indicesOf i0 i1).2, (seqNumsOf i0 i1).1, (seqNumsOf i0 i1).2⟩ ∧
      (emitRef st d ref uid).st.extRefs = st'.extRefs ∧ (emitRef st d ref uid).st.nextFrame = st'.nextFrame ∧
      (emitRef st d ref uid).st.intKeys = st'.intKeys ∧
      (∀ o ∈ pre, ∃ u k, o = .streamResource u k) := by
  unfold emitRef at h ⊢
  cases hc : convert st d ref with
  | error e => simp [hc] at h
  | ok v =>
    obtain ⟨st', i0, i1, name⟩ := v
    simp only
    refine ⟨st', i0, i1, name, _, _, rfl, rfl, ?_, rfl, rfl, rfl, rfl, ?_⟩
    · split <;> simp [srcs, srcOf]
    · intro o ho
      split at ho
      · simp only [List.mem_singleton] at ho; exact ⟨_, _, ho⟩
      · simp at ho

theorem emitRef_srcs {st : St} {d : Datum} {ref : ExtRef} {uid : String} (h : (emitRef st d ref uid).err = none) :
    srcs (emitRef st d ref uid).outs = [ref] ∧ (emitRef st d ref uid).st.extRefs = st.extRefs := by
  obtain ⟨st', i0, i1, name, pre, sd, hc, ho, hp, _, he, _, _, _⟩ := emitRef_ok h
  refine ⟨?_, ?_⟩
  · rw [ho, srcs_append, hp]; simp [srcs, srcOf]
  · rw [he, (convert_fields hc).1]

/-! ### references versus converted stream datums -/

/-- the converted stream datums (`srcs outs`) and the newly deferred references form an
    order-preserving split of the references met -/
def PI (a : St) (refs : List ExtRef) (outs : List Out) (b : St) : Prop :=
  ∃ defer, b.extRefs = a.extRefs ++ defer ∧ Interleave refs (srcs outs) defer

theorem PI_comp : Comp PI where
  nil := fun st => ⟨[], by simp, by simpa [srcs] using Interleave.nil⟩
  app := by
    intro a b c l1 l2 o1 o2 h1 h2
    obtain ⟨d1, e1, i1⟩ := h1
    obtain ⟨d2, e2, i2⟩ := h2
    refine ⟨d1 ++ d2, by rw [e2, e1, List.append_assoc], ?_⟩
    rw [srcs_append]
    exact i1.append i2

def itemLab (st0 : St) (filled : List (String × Bool)) (e : EventIn) (_ : St) (kv : String × DVal) : List ExtRef :=
  if isExtRef st0 filled kv.1 then [mkRef e kv] else []

theorem eventItem_PI (st0 : St) (filled : List (String × Bool)) (e : EventIn) (st : St) (kv : String × DVal)
    (h : (eventItem st0 filled e st kv).err = none) :
    PI st (itemLab st0 filled e st kv) (eventItem st0 filled e st kv).outs (eventItem st0 filled e st kv).st := by
  unfold eventItem at h ⊢
  unfold itemLab
  cases hx : isExtRef st0 filled kv.1 with
  | false => simp only [Bool.not_false, ↓reduceIte, Bool.false_eq_true]; exact PI_comp.nil st
  | true =>
    simp only [hx, Bool.not_true, Bool.false_eq_true, ↓reduceIte] at h ⊢
    cases hp : popDatum st kv.2 with
    | none =>
      simp only [hp] at h ⊢
      exact ⟨[mkRef e kv], rfl, by simpa [srcs] using Interleave.right (mkRef e kv) Interleave.nil⟩
    | some p =>
      obtain ⟨d, st1⟩ := p
      simp only [hp] at h ⊢
      obtain ⟨hs, he⟩ := emitRef_srcs h
      refine ⟨[], ?_, ?_⟩
      · rw [he, (popDatum_fields hp).1]; simp
      · rw [hs]; exact Interleave.left _ Interleave.nil

theorem labs_itemLab (st0 : St) (filled : List (String × Bool)) (e : EventIn) (f : St → String × DVal → Res) :
    ∀ (data : List (String × DVal)) (st : St),
      labs f (itemLab st0 filled e) st data = (data.filter (fun kv => isExtRef st0 filled kv.1)).map (mkRef e) := by
  intro data
  induction data with
  | nil => intro st; rfl
  | cons kv rest ih =>
    intro st
    simp only [labs, ih, itemLab, List.filter_cons]
    cases isExtRef st0 filled kv.1 <;> simp

theorem handleEvent_PI (st : St) (e : EventIn) (h : (handleEvent st e).err = none) :
    PI st (refsOfEvent st e) (handleEvent st e).outs (handleEvent st e).st := by
  unfold handleEvent at h ⊢
  simp only at h ⊢
  have h0 : ({ st := st, outs := [Out.event e.desc e.seq
      ((renameAll e.data).filter (fun kv => inEventKeys st (renameAll e.filled) kv.1))] } : Res).err = none := rfl
  obtain ⟨_, h2⟩ := andThen_err_none.mp h
  rw [andThen_outs h0, andThen_st h0]
  have := seqFold_spec PI_comp (eventItem st (renameAll e.filled) e) (itemLab st (renameAll e.filled) e)
    (renameAll e.data) st (fun st' x _ hx => eventItem_PI st (renameAll e.filled) e st' x hx) h2
  rw [labs_itemLab] at this
  obtain ⟨defer, e1, i1⟩ := this
  refine ⟨defer, e1, ?_⟩
  rw [srcs_append]
  simpa [srcs, srcOf, refsOfEvent] using i1

theorem foldl_handleDatum_extRefs : ∀ (ds : List Datum) (s : St), (ds.foldl handleDatum s).extRefs = s.extRefs := by
  intro ds
  induction ds with
  | nil => intro s; rfl
  | cons x xs ih => intro s; simp only [List.foldl_cons]; rw [ih]; rfl

/-- references introduced by one input document (none for `stop`, which only flushes) -/
def docRefs (st : St) : Doc → List ExtRef
  | .event e => refsOfEvent st e
  | .eventPage es => labs handleEvent refsOfEvent st es
  | _ => []

/-- all references of a stream, each event looked at in the state it is processed in -/
def refsFrom (st : St) (ds : List Doc) : List ExtRef := labs step docRefs st ds

theorem step_PI (st : St) (d : Doc) (hd : d ≠ .stop) (h : (step st d).err = none) :
    PI st (docRefs st d) (step st d).outs (step st d).st := by
  cases d with
  | stop => exact absurd rfl hd
  | start => exact ⟨[], by simp [step], by simpa [step, docRefs, srcs, srcOf] using Interleave.nil⟩
  | descriptor dd =>
    simp only [step, docRefs] at h ⊢
    cases hc : descClash dd with
    | true => simp [handleDescriptor, hc] at h
    | false => exact ⟨[], by simp [handleDescriptor, hc], by simpa [handleDescriptor, hc, srcs, srcOf] using Interleave.nil⟩
  | resource uid valid =>
    simp only [step, docRefs] at h ⊢
    split at h
    · simp at h
    · split
      · rename_i h1 h2; exact absurd h2 h1
      · exact ⟨[], by simp, by simpa [srcs] using Interleave.nil⟩
  | streamResource uid dk valid =>
    simp only [step, docRefs] at h ⊢
    split at h
    · simp at h
    · split
      · rename_i h1 h2; exact absurd h2 h1
      · exact ⟨[], by simp, by simpa [srcs, srcOf] using Interleave.nil⟩
  | datum dd => exact ⟨[], by simp [step, handleDatum], by simpa [step, docRefs, srcs] using Interleave.nil⟩
  | datumPage ds =>
    exact ⟨[], by simp [step, foldl_handleDatum_extRefs], by simpa [step, docRefs, srcs] using Interleave.nil⟩
  | event e => exact handleEvent_PI st e h
  | eventPage es =>
    simp only [step, docRefs] at h ⊢
    exact seqFold_spec PI_comp handleEvent refsOfEvent es st (fun st' x _ hx => handleEvent_PI st' x hx) h
  | streamDatum sd => exact ⟨[], by simp [step], by simpa [step, docRefs, srcs, srcOf] using Interleave.nil⟩

/-- body of a run (everything before `stop`) -/
theorem body_PI (st : St) (body : List Doc) (hns : ∀ d ∈ body, d ≠ .stop) (h : (runFrom st body).err = none) :
    PI st (refsFrom st body) (runFrom st body).outs (runFrom st body).st :=
  seqFold_spec PI_comp step docRefs body st (fun st' x hx hx' => step_PI st' x (hns x hx) hx') h

/-! ### `stop` flushes every deferred reference, in order -/

def PS (a : St) (refs : List ExtRef) (outs : List Out) (b : St) : Prop := srcs outs = refs ∧ b.extRefs = a.extRefs

theorem PS_comp : Comp PS where
  nil := fun _ => ⟨rfl, rfl⟩
  app := by
    intro a b c l1 l2 o1 o2 h1 h2
    exact ⟨by rw [srcs_append, h1.1, h2.1], by rw [h2.2, h1.2]⟩

theorem stopItem_PS (st : St) (ref : ExtRef) (h : (stopItem st ref).err = none) :
    PS st [ref] (stopItem st ref).outs (stopItem st ref).st := by
  unfold stopItem at h ⊢
  cases hp : popDatum st ref.datumId with
  | none => simp [hp] at h
  | some p =>
    obtain ⟨d, st1⟩ := p
    simp only [hp] at h ⊢
    obtain ⟨hs, he⟩ := emitRef_srcs h
    exact ⟨hs, by rw [he, (popDatum_fields hp).1]⟩

theorem labs_singleton {X : Type} (f : St → X → Res) : ∀ (xs : List X) (st : St), labs f (fun _ x => [x]) st xs = xs := by
  intro xs
  induction xs with
  | nil => intro _; rfl
  | cons x xs ih => intro st; simp [labs, ih]

theorem handleStop_srcs (st : St) (h : (handleStop st).err = none) : srcs (handleStop st).outs = st.extRefs := by
  unfold handleStop at h ⊢
  obtain ⟨h1, _⟩ := andThen_err_none.mp h
  rw [andThen_outs h1, srcs_append]
  have := seqFold_spec PS_comp stopItem (fun _ x => [x]) st.extRefs st (fun st' x _ hx => stopItem_PS st' x hx) h1
  rw [labs_singleton] at this
  rw [this.1]
  simp [srcs, srcOf]

/-- a complete run `body ++ [stop]`: the converted stream datums are the immediately resolved references
    followed by the deferred ones, each in event order -/
theorem run_split (body : List Doc) (hns : ∀ d ∈ body, d ≠ .stop)
    (h : (run (body ++ [.stop])).err = none) :
    ∃ imm defer, srcs (run (body ++ [.stop])).outs = imm ++ defer ∧ Interleave (refsFrom {} body) imm defer ∧
      imm = srcs (runFrom {} body).outs ∧ defer = (runFrom {} body).st.extRefs := by
  unfold run runFrom at *
  rw [seqFold_append] at h ⊢
  obtain ⟨h1, h2⟩ := andThen_err_none.mp h
  rw [andThen_outs h1, srcs_append]
  obtain ⟨defer, e1, i1⟩ := body_PI {} body hns h1
  simp only [runFrom] at e1 i1
  have e1' : (seqFold step {} body).st.extRefs = defer := by simpa using e1
  refine ⟨_, defer, ?_, i1, rfl, e1'.symm⟩
  congr 1
  have hs : (seqFold step (seqFold step {} body).st [Doc.stop]).err = none := h2
  simp only [seqFold, step] at hs ⊢
  obtain ⟨h3, _⟩ := andThen_err_none.mp hs
  rw [andThen_outs h3]
  simp only [List.append_nil]
  rw [handleStop_srcs _ h3, e1']

end BlueskyVerif.NormFlow
