/-
C13 helper lemmas, part 4: WHAT is pushed into the response slot of the top plan and what the top plan
receives at its next resume.
-/
import BlueskyVerif.Lemmas.C13Sched

namespace BlueskyVerif.Engine

def Flow.st : Flow → EState
  | .loopTop s => s
  | .stop s => s

/-- the inner `finally` with a response in flight pushes exactly the new response -/
theorem fin_push (s : EState) (r0 a : Resp) (h : s.resp = some r0) :
    fin s a = { s with respStack := a :: s.respStack, resp := none } := by
  unfold fin; rw [h]

theorem fin_stacks (s : EState) (r0 a : Resp) (h : s.resp = some r0) :
    (fin s a).respStack = a :: s.respStack ∧ (fin s a).planStack = s.planStack ∧ (fin s a).resp = none := by
  rw [fin_push s r0 a h]; exact ⟨rfl, rfl, rfl⟩

/-- a registered, non-suspending command: its value (or the exception it raised) is what `processMsg` puts
    into the slot of the plan that yielded the message -/
theorem processMsg_pushes (s : EState) (m : Msg) (r0 : Resp) (s1 : EState) (o : CmdOut)
    (hresp : s.resp = some r0) (hreg : Src.registry.contains m.cmd = true) (hnot : m.cmd ≠ "_start_suspender")
    (hcmd : runCommand (noteMsg s m) m = (s1, o)) :
    s1.planStack = s.planStack ∧ s1.respStack = s.respStack ∧ s1.resp = some r0 ∧
    (∀ r, o = .value r → processMsg s m = .loopTop { s1 with respStack := r :: s.respStack, resp := none }) ∧
    (∀ e, o = .raised e → processMsg s m = .loopTop { s1 with respStack := .exc e :: s.respStack, resp := none }) := by
  have hstk : stk s1 = stk s := by
    have := runCommand_stk (noteMsg s m) m hnot
    rw [hcmd] at this
    exact this.trans (stk_noteMsg s m)
  have hp : s1.planStack = s.planStack := congrArg Stk.plans hstk
  have hq : s1.respStack = s.respStack := congrArg Stk.resps hstk
  have hr : s1.resp = some r0 := (congrArg Stk.resp hstk).trans hresp
  refine ⟨hp, hq, hr, ?_, ?_⟩
  · intro r ho
    unfold processMsg
    simp only [hreg, Bool.not_true, Bool.false_eq_true, ↓reduceIte, hcmd, ho, afterCommand]
    rw [fin_push s1 r0 r hr, hq]
  · intro e ho
    unfold processMsg
    simp only [hreg, Bool.not_true, Bool.false_eq_true, ↓reduceIte, hcmd, ho, afterCommand]
    rw [fin_push s1 r0 (.exc e) hr, hq]

/-- with nothing stashed and no exception waiting in `self._exception`, the loop top goes to its sleep(0) -/
theorem loopTop_sleeps (s : EState) (hst : s.state = .running) (hperm : s.permit = true) (hs : s.stashed = none) :
    loopTop s = .stop { s with pc := .loopSleep, resp := none } := by
  unfold loopTop
  simp [hst, hperm, hs]

/-- `afterSleep`: the top of the response stack is SENT to the top of the plan stack (nothing stashed, nothing
    in `self._exception`, the response is not an exception instance) -/
theorem afterSleep_sends (s : EState) (r : Resp) (rs : List Resp) (g : Gen) (gs : List Gen)
    (hr : s.respStack = r :: rs) (hp : s.planStack = g :: gs)
    (hslot : s.exceptionSlot = none) (hst : s.stashed = none) (hne : ∀ e, r = .exc e → e.isException = false) :
    afterSleep s =
      afterResume (logYield { s with respStack := rs, resp := some r } g (.send r)) gs none (g.resume (.send r)) := by
  have ht : takeResp s r rs = { s with respStack := rs, resp := some r } := by
    unfold takeResp; simp only [hslot]
  have hth : thrownOf { s with respStack := rs, resp := some r } r = none := by
    unfold thrownOf
    simp only [hst]
    cases r with
    | exc e => simp [hne e rfl]
    | _ => rfl
  unfold afterSleep
  split
  · rename_i r' rs' g' gs' h1 h2
    rw [hr] at h1; rw [hp] at h2
    cases h1; cases h2
    simp only [ht, hth]
  · rename_i hno
    exact absurd hp (hno _ _ _ _ hr)

/-- ... and an exception instance stored as the response is THROWN there (C12: synchronous errors) -/
theorem afterSleep_throws (s : EState) (e : Exc) (rs : List Resp) (g : Gen) (gs : List Gen)
    (hr : s.respStack = .exc e :: rs) (hp : s.planStack = g :: gs)
    (hslot : s.exceptionSlot = none) (hst : s.stashed = none) (he : e.isException = true) :
    afterSleep s =
      afterResume (logYield { s with respStack := rs, resp := some (.exc e) } g (.throw e)) gs (some e) (g.resume (.throw e)) := by
  have ht : takeResp s (.exc e) rs = { s with respStack := rs, resp := some (.exc e) } := by
    unfold takeResp; simp only [hslot]
  have hth : thrownOf { s with respStack := rs, resp := some (.exc e) } (.exc e) = some e := by
    unfold thrownOf
    simp only [hst, he, ↓reduceIte]
  unfold afterSleep
  split
  · rename_i r' rs' g' gs' h1 h2
    rw [hr] at h1; rw [hp] at h2
    cases h1; cases h2
    simp only [ht, hth]
  · rename_i hno
    exact absurd hp (hno _ _ _ _ hr)

theorem logYield_yields (s : EState) (g : Gen) (i : Inp) (mid : Nat) (h : g.pendingMid = some mid) :
    (logYield s g i).yields = s.yields ++ [(mid, i)] := by
  unfold logYield; rw [h]

/-! ### commands that suspend: what is pushed when `_run` is resumed inside them -/

/-- the answer the command in which `_run` is suspended would give NOW (`none`: still blocked) -/
def ownAnswer (s : EState) : Option Resp :=
  match s.pc with
  | .inSleep => some .none
  | .inCkptSleep =>
    match requestPause s false with
    | .ok _ => some .none
    | .error e => some (.exc e)
  | .inWait g =>
    if (groupReady s g).1 then some (.bool true)
    else if (groupReady s g).2 then some (.exc .waitForTimeout) else none
  | .inWaitFor f => if s.futs.contains f then some .seq else none
  | _ => none

/-- the response that the resumption of `_run` at a command suspension point pushes into the slot of the
    suspended message (`none`: nothing, `_run` stays blocked).  A delivered cancellation makes the inner
    `finally` push `new_response`, which is still `None`. -/
def pushedAnswer (cancel : Bool) (s : EState) : Option Resp :=
  if cancel then some .none else ownAnswer s

theorem runLoop_eq_contFlow (n : Nat) (s : EState) : runLoop n s = contFlow n (.loopTop s) := rfl

theorem hCancel_pushes (s : EState) (r0 : Resp) (h : s.resp = some r0) :
    (hCancel s .none).st.respStack = .none :: s.respStack ∧ (hCancel s .none).st.planStack = s.planStack ∧
      (hCancel s .none).st.resp = none := by
  have e1 : ({ s with permit := false } : EState).resp = some r0 := h
  have e2 : ∀ e : Exc, ({ s with stashed := some e } : EState).resp = some r0 := fun _ => h
  have hl : ∀ (x : EState) (e : Exc), (leaveLoop x e).respStack = x.respStack ∧ (leaveLoop x e).planStack = x.planStack ∧
      (leaveLoop x e).resp = x.resp := by
    intro x e
    obtain ⟨a, b, c⟩ := leaveLoop_grow_stk x e
    exact ⟨c, b, a⟩
  unfold hCancel
  split
  · exact fin_stacks _ r0 _ e1
  · split
    · split
      · exact fin_stacks _ r0 _ (e2 _)
      · exact fin_stacks _ r0 _ h
    · split
      · exact fin_stacks _ r0 _ h
      · split
        · simp only [Flow.st]
          obtain ⟨a, b, c⟩ := hl (fin s .none) .cancelled
          obtain ⟨a', b', c'⟩ := fin_stacks s r0 .none h
          exact ⟨a.trans a', b.trans b', c.trans c'⟩
        · split
          · exact fin_stacks _ r0 _ (e2 _)
          · exact fin_stacks _ r0 _ h

/-- Resuming `_run` inside a command pushes exactly `pushedAnswer` into the slot of the top plan and goes
    on with the loop; the plan stack is untouched. -/
theorem advanceAt_pushes (fuel : Nat) (cancel : Bool) (s : EState) (r0 a : Resp)
    (hpc : inCmd s.pc = true) (hresp : s.resp = some r0) (ha : pushedAnswer cancel s = some a) :
    ∃ f : Flow, advanceAt fuel cancel s = contFlow fuel f ∧ f.st.respStack = a :: s.respStack ∧
      f.st.planStack = s.planStack ∧ f.st.resp = none := by
  unfold pushedAnswer at ha
  cases cancel with
  | true =>
    simp only [↓reduceIte, Option.some.injEq] at ha
    subst ha
    refine ⟨hCancel s .none, ?_, hCancel_pushes s r0 hresp⟩
    unfold advanceAt
    split <;> first | rfl | (rename_i hp; rw [hp] at hpc; cases hpc)
  | false =>
    simp only [Bool.false_eq_true, ↓reduceIte] at ha
    unfold ownAnswer at ha
    unfold advanceAt
    split at ha
    · rename_i hp
      cases ha
      refine ⟨.loopTop (fin s .none), ?_, fin_stacks s r0 _ hresp⟩
      simp only [hp, Bool.false_eq_true, ↓reduceIte]; rfl
    · rename_i hp
      split at ha
      · rename_i s' hs
        cases ha
        have hstk := stk_requestPause hs
        have hr' : s'.resp = some r0 := (congrArg Stk.resp hstk).trans hresp
        refine ⟨.loopTop (fin s' .none), ?_, ?_⟩
        · simp only [hp, Bool.false_eq_true, ↓reduceIte, hs]; rfl
        · obtain ⟨x, y, z⟩ := fin_stacks s' r0 .none hr'
          have hq : s'.respStack = s.respStack := congrArg Stk.resps hstk
          exact ⟨x.trans (by rw [hq]), y.trans (congrArg Stk.plans hstk), z⟩
      · rename_i e hs
        cases ha
        refine ⟨.loopTop (fin s (.exc e)), ?_, fin_stacks s r0 _ hresp⟩
        simp only [hp, Bool.false_eq_true, ↓reduceIte, hs]; rfl
    · rename_i g hp
      split at ha
      · rename_i hall
        cases ha
        refine ⟨.loopTop (fin s (.bool true)), ?_, fin_stacks s r0 _ hresp⟩
        simp only [hp, Bool.false_eq_true, ↓reduceIte, hall]; rfl
      · rename_i hall
        split at ha
        · rename_i hexc
          cases ha
          refine ⟨.loopTop (fin { s with groups := assocSet g s.waiting s.groups } (.exc .waitForTimeout)), ?_,
            fin_stacks _ r0 _ hresp⟩
          simp only [hp, Bool.false_eq_true, ↓reduceIte, hall, hexc]; rfl
        · cases ha
    · rename_i f hp
      split at ha
      · rename_i hf
        cases ha
        refine ⟨.loopTop (fin s .seq), ?_, fin_stacks s r0 _ hresp⟩
        simp only [hp, Bool.false_eq_true, ↓reduceIte, hf]; rfl
      · cases ha
    · cases ha

/-! ### the individual command handlers -/

theorem assocGet_assocSet {β} (k : String) (v : β) (l : List (String × β)) : assocGet k (assocSet k v l) = some v := by
  induction l with
  | nil => simp [assocSet, assocGet]
  | cons kv l ih =>
    obtain ⟨k', v'⟩ := kv
    unfold assocSet
    split
    · simp [assocGet]
    · rename_i hne
      simp only [assocGet, hne, ↓reduceIte]
      exact ih

/-- `_open_run`: the value handed back is the id of the run whose RunStart document is emitted by this very call,
    and that id is appended to `_run_start_uids` -/
theorem cmdOpenRun_value (s : EState) (m : Msg) (s' : EState) (r : Resp) (h : cmdOpenRun s m = (s', .value r)) :
    r = .run s.nextRun ∧ s'.runStartUids = s.runStartUids ++ [s.nextRun] ∧
    ∃ rest, s'.docs = s.docs ++ ({ kind := "start", run := s.nextRun, seq := s.scanId + 1 } :: rest) ∧
      ∀ d ∈ rest, d.kind = "descriptor" := by
  unfold cmdOpenRun at h
  split at h
  · cases h
  · simp only [] at h
    split at h
    · simp only [Prod.mk.injEq, CmdOut.value.injEq] at h
      obtain ⟨h1, h2⟩ := h
      subst h1
      refine ⟨h2.symm, rfl, [{ kind := "descriptor", run := s.nextRun, stream := "interruptions", keys := ["interruption"] }], ?_, ?_⟩
      · simp [EState.emit]
      · intro d hd; simp at hd; subst hd; rfl
    · simp only [Prod.mk.injEq, CmdOut.value.injEq] at h
      obtain ⟨h1, h2⟩ := h
      subst h1
      refine ⟨h2.symm, rfl, [], ?_, ?_⟩
      · simp [EState.emit]
      · intro d hd; cases hd

/-- `_set`: the value handed back is the status object created by this very call -/
theorem cmdSet_value (s : EState) (m : Msg) (s' : EState) (r : Resp) (h : cmdSet s m = (s', .value r)) :
    r = .status s.statuses.length ∧
    ∃ rec, s'.statuses = s.statuses ++ [rec] ∧ rec.dev = m.obj.getD "" ∧ rec.op = "set" := by
  unfold cmdSet at h
  simp only [] at h
  repeat' split at h
  all_goals (cases h; try exact ⟨rfl, _, rfl, rfl, rfl⟩)

/-- `_trigger`: likewise -/
theorem cmdTrigger_value (s : EState) (m : Msg) (s' : EState) (r : Resp) (h : cmdTrigger s m = (s', .value r)) :
    r = .status s.statuses.length ∧
    ∃ rec, s'.statuses = s.statuses ++ [rec] ∧ rec.dev = m.obj.getD "" ∧ rec.op = "trigger" := by
  unfold cmdTrigger at h
  simp only [] at h
  repeat' split at h
  all_goals (cases h; try exact ⟨rfl, _, rfl, rfl, rfl⟩)


theorem getBundler_putBundler (s : EState) (m : Msg) (b : Bundler) : getBundler (putBundler s m b) m = some b := by
  unfold getBundler putBundler; exact assocGet_assocSet _ _ _

/-- `_read`: the value handed back is `{obj: reading}`, and while an event bundle is open the SAME reading is
    what is cached for the event that `save` will emit -/
theorem cmdRead_value (s : EState) (m : Msg) (s' : EState) (r : Resp) (h : cmdRead s m = (s', .value r)) :
    ∃ v, r = .reading (m.obj.getD "") v ∧
      ∀ b, getBundler s m = some b → b.bundling = true →
        ∃ b', getBundler s' m = some b' ∧ b'.readCache = b.readCache ++ [(m.obj.getD "", v)] ∧
          b'.objsRead = b.objsRead ++ [m.obj.getD ""] := by
  have key : ∀ x : EState, x.bundlers = s.bundlers → getBundler x m = getBundler s m := by
    intro x hx; unfold getBundler; rw [hx]
  have iteb : ∀ (c : Prop) [Decidable c] (a b : EState), a.bundlers = s.bundlers → b.bundlers = s.bundlers →
      (if c then a else b).bundlers = s.bundlers := by
    intro c _ a b ha hb; split <;> assumption
  unfold cmdRead at h
  simp only [] at h
  repeat' split at h
  all_goals (cases h; try (
    refine ⟨_, rfl, ?_⟩
    intro b hgb hbund
    first
    | (rename_i _ hg _ _ _
       have e : getBundler s m = some _ := (key _ (iteb _ _ _ (by rfl) (by rfl))).symm.trans hg
       rw [hgb] at e; cases e
       exact ⟨_, getBundler_putBundler _ _ _, rfl, rfl⟩)
    | (rename_i _ hg hnb _
       have e : getBundler s m = some _ := (key _ (iteb _ _ _ (by rfl) (by rfl))).symm.trans hg
       rw [hgb] at e; cases e
       exact absurd hbund hnb)
    | (rename_i hg _
       have e : getBundler s m = none := (key _ (iteb _ _ _ (by rfl) (by rfl))).symm.trans hg
       rw [hgb] at e; cases e)
    | (rename_i _ hg _ _
       have e : getBundler s m = some _ := hg
       rw [hgb] at e; cases e
       exact ⟨_, getBundler_putBundler _ _ _, rfl, rfl⟩)
    | (rename_i _ hg hnb
       have e : getBundler s m = some _ := hg
       rw [hgb] at e; cases e
       exact absurd hbund hnb)
    | (rename_i hg
       have e : getBundler s m = none := hg
       rw [hgb] at e; cases e)))


/-- `_save`: the event emitted for a non-empty bundle carries exactly the cached readings, i.e. the values that
    were handed back to the plan by the `read` messages of this bundle (`cmdRead_value`) -/
theorem cmdSave_emits_cache (s : EState) (m : Msg) (s' : EState) (r : Resp) (b : Bundler)
    (h : cmdSave s m = (s', .value r)) (hb : getBundler s m = some b) (hne : b.objsRead.isEmpty = false) :
    ∃ pre seq, s'.docs = s.docs ++ pre ++
      [{ kind := "event", run := b.runId, stream := b.bundleName, seq := seq, data := b.readCache }] := by
  unfold cmdSave at h
  rw [hb] at h
  simp only [hne, Bool.false_eq_true, ↓reduceIte] at h
  repeat' split at h
  all_goals (cases h)
  case h_2.isFalse.refl =>
    refine ⟨[], b.counter b.bundleName, ?_⟩
    simp only [List.append_nil]
    rfl
  case h_1.refl =>
    have h1 : ∀ (x : EState) (bb : Bundler) (st : String) (o : List String),
        (prepareStream x bb st o).2.readCache = bb.readCache ∧ (prepareStream x bb st o).2.runId = bb.runId := by
      intro x bb st o; unfold prepareStream; simp only []; split <;> exact ⟨rfl, rfl⟩
    let b1 : Bundler := { b with bundling := false, bundleName := "" }
    let p := prepareStream s b1 b.bundleName b.objsRead
    have h2 : p.2.readCache = b.readCache ∧ p.2.runId = b.runId := h1 s b1 b.bundleName b.objsRead
    let ev : Doc := { kind := "event", run := p.2.runId, stream := b.bundleName, seq := p.2.counter b.bundleName, data := p.2.readCache }
    refine ⟨[{ kind := "descriptor", run := b.runId, stream := b.bundleName, keys := b.objsRead }], p.2.counter b.bundleName, ?_⟩
    have h3 : ev = { kind := "event", run := b.runId, stream := b.bundleName, seq := p.2.counter b.bundleName, data := b.readCache } := by
      show ({ kind := "event", run := p.2.runId, stream := b.bundleName, seq := p.2.counter b.bundleName, data := p.2.readCache } : Doc) = _
      rw [h2.1, h2.2]
    rw [← h3]
    rfl

end BlueskyVerif.Engine
