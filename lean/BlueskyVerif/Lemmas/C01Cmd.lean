/-
C01: the operations that DO touch documents / bundlers / subscriptions preserve the invariant:
bundler primitives, `forBundlers`, the command handlers, `cleanupBody`, `monitorUpdate`.
-/
import BlueskyVerif.Lemmas.C01View

namespace BlueskyVerif.Engine

/-- the data part of the invariant for an explicit list of bundler views -/
def DI (s : EState) (bs : List BV) : Prop := DocInv s.docs s.nextRun (subsOf s) bs

theorem DI_emit_open {s : EState} {bs : List BV} (h : DI s bs) {v : BV} (hv : v ∈ bs) (ho : v.runOpen = true)
    (d : Doc) (hr : d.run = v.runId)
    (hk : d.kind = "descriptor" ∨ (d.kind = "event" ∧ described s.docs d.run d.stream)) : DI (s.emit d) bs :=
  DocInv.emit_open h hv ho d hr hk

theorem DI_setDev {s : EState} {bs : List BV} (h : DI s bs) (n : String) (d : DevState)
    (hd : ∀ p ∈ d.subs, p ∈ (devOf s n).subs ∨ described s.docs p.1 p.2) : DI (setDev s n d) bs := by
  unfold DI
  rw [subsOf_setDev]
  apply DocInv.setSubs h
  intro n' p hp
  split at hp
  · rename_i e; subst e; exact hd p hp
  · exact Or.inl hp

theorem DI_foldl {α} (g : EState → α → EState) (l : List α) (bs : List BV)
    (hg : ∀ s a, a ∈ l → DI s bs → DI (g s a) bs) (s : EState) (h : DI s bs) : DI (l.foldl g s) bs := by
  induction l generalizing s with
  | nil => exact h
  | cons a l ih =>
    rw [List.foldl_cons]
    exact ih (fun s a' ha' => hg s a' (List.mem_cons_of_mem _ ha')) _ (hg s a List.mem_cons_self h)

theorem DI_of_dv {s s' : EState} {bs : List BV} (e : dv s' = dv s) (h : DI s bs) : DI s' bs := by
  have e1 : s'.docs = s.docs := congrArg DV.docs e
  have e2 : s'.nextRun = s.nextRun := congrArg DV.nextRun e
  have e3 : subsOf s' = subsOf s := congrArg DV.subs e
  unfold DI; rw [e1, e2, e3]; exact h

theorem DI_suspendMonitors {s : EState} {bs : List BV} (b : Bundler) (h : DI s bs) : DI (suspendMonitors s b).1 bs := by
  unfold suspendMonitors
  simp only []
  apply DI_foldl _ _ _ _ _ h
  intro s a _ h
  obtain ⟨sig, stream⟩ := a
  apply DI_setDev (s := s.logCall { dev := sig, op := "clear_sub" }) h
  intro p hp
  exact Or.inl (List.mem_filter.mp hp).1

theorem DI_restoreMonitors {s : EState} {bs : List BV} (b : Bundler) (hb : bview b ∈ bs) (h : DI s bs) :
    DI (restoreMonitors s b).1 bs := by
  unfold restoreMonitors
  simp only []
  apply DI_foldl _ _ _ _ _ h
  intro s a ha h
  obtain ⟨sig, stream⟩ := a
  apply DI_setDev (s := s.logCall { dev := sig, op := "subscribe" }) h
  intro p hp
  rcases List.mem_append.mp hp with hp | hp
  · exact Or.inl hp
  · simp only [List.mem_singleton] at hp
    subst hp
    exact Or.inr (h.desc (bview b) hb stream (Or.inr (Or.inr ⟨sig, ha⟩)))

theorem suspendMonitors_bundlers (s : EState) (b : Bundler) : (suspendMonitors s b).1.bundlers = s.bundlers := by
  unfold suspendMonitors
  simp only []
  generalize b.monitors = l
  induction l generalizing s with
  | nil => rfl
  | cons a l ih => rw [List.foldl_cons, ih]; rfl

theorem closeRunDoc_bundlers (s : EState) (b : Bundler) (e r : String) : (closeRunDoc s b e r).1.bundlers = s.bundlers := by
  show ((suspendMonitors s b).1.emit _).bundlers = s.bundlers
  exact suspendMonitors_bundlers s b

theorem DI_clearMonitors {s : EState} {pre post : List BV} (b : Bundler) (h : DI s (pre ++ bview b :: post)) :
    DI (clearMonitors s b).1 (pre ++ bview (clearMonitors s b).2 :: post) := by
  have h1 := DI_suspendMonitors b h
  refine DocInv.replace h1 _ rfl rfl ?_
  intro st hk
  rcases hk with hk | hk | ⟨sig, hk⟩
  · exact Or.inl (Or.inl hk)
  · exact Or.inl (Or.inr (Or.inl hk))
  · cases hk

theorem DI_closeRunDoc {s : EState} {pre post : List BV} (b : Bundler) (e r : String) (ho : b.runOpen = true)
    (h : DI s (pre ++ bview b :: post)) :
    DI (closeRunDoc s b e r).1 (pre ++ bview (closeRunDoc s b e r).2 :: post) := by
  have h1 := DI_suspendMonitors b h
  refine DocInv.closeRun h1 ho _ rfl rfl _ rfl rfl ?_
  intro st hk
  rcases hk with hk | hk | ⟨sig, hk⟩
  · exact Or.inl hk
  · exact Or.inr (Or.inl hk)
  · cases hk

theorem DI_recordInterruption {s : EState} {pre post : List BV} (b : Bundler) (c : String) (ho : b.runOpen = true)
    (h : DI s (pre ++ bview b :: post)) :
    DI (recordInterruption s b c).1 (pre ++ bview (recordInterruption s b c).2 :: post) := by
  unfold recordInterruption
  split
  · rename_i hri
    have hmem : bview b ∈ pre ++ bview b :: post := by simp
    have hd : described s.docs b.runId "interruptions" := h.desc (bview b) hmem _ (Or.inr (Or.inl ⟨hri, rfl⟩))
    have h1 := DI_emit_open h hmem ho { kind := "event", run := b.runId, stream := "interruptions", seq := b.counter "interruptions", data := [], note := c } rfl (Or.inr ⟨rfl, hd⟩)
    simp only [emitEvent]
    split
    · rw [bview_commit]; exact h1
    · exact h1
  · exact h

/-! ## forBundlers -/

theorem forBundlers_go_inv (f : EState → Bundler → EState × Bundler) (P : Bundler → Prop)
    (hf : ∀ (s : EState) (b : Bundler) (pre post : List BV), P b →
      DI s (pre ++ bview b :: post) → DI (f s b).1 (pre ++ bview (f s b).2 :: post))
    (todo done : List (String × Bundler)) (s : EState) (hP : ∀ kb ∈ todo, P kb.2)
    (h : DI s (done.reverse.map (fun kb => bview kb.2) ++ todo.map (fun kb => bview kb.2))) :
    DI (forBundlers.go f s todo done) (bvs (forBundlers.go f s todo done)) := by
  induction todo generalizing s done with
  | nil =>
    simp only [forBundlers.go]
    have h' : DI s (done.reverse.map (fun kb => bview kb.2)) := by simpa using h
    exact h'
  | cons kb rest ih =>
    obtain ⟨k, b⟩ := kb
    unfold forBundlers.go
    simp only []
    apply ih
    · intro kb hkb; exact hP kb (List.mem_cons_of_mem _ hkb)
    · have := hf s b (done.reverse.map (fun kb => bview kb.2)) (rest.map (fun kb => bview kb.2)) (hP (k, b) List.mem_cons_self)
        (by simpa using h)
      simpa using this

theorem forBundlers_go_all (f : EState → Bundler → EState × Bundler) (Pin Q : Bundler → Prop)
    (hf : ∀ s b, Pin b → Q (f s b).2) (todo done : List (String × Bundler)) (s : EState)
    (h1 : ∀ kb ∈ todo, Pin kb.2) (h2 : ∀ kb ∈ done, Q kb.2) :
    ∀ kb ∈ (forBundlers.go f s todo done).bundlers, Q kb.2 := by
  induction todo generalizing s done with
  | nil =>
    simp only [forBundlers.go]
    intro kb hkb
    exact h2 kb (List.mem_reverse.mp hkb)
  | cons kb rest ih =>
    obtain ⟨k, b⟩ := kb
    unfold forBundlers.go
    simp only []
    apply ih
    · intro kb hkb; exact h1 kb (List.mem_cons_of_mem _ hkb)
    · intro kb hkb
      rcases List.mem_cons.mp hkb with e | e
      · subst e; exact hf s b (h1 (k, b) List.mem_cons_self)
      · exact h2 kb e

theorem forBundlers_go_keys (f : EState → Bundler → EState × Bundler) (todo done : List (String × Bundler)) (s : EState) :
    keysOf (forBundlers.go f s todo done) = done.reverse.map (·.1) ++ todo.map (·.1) := by
  induction todo generalizing s done with
  | nil => simp [forBundlers.go, keysOf]
  | cons kb rest ih =>
    obtain ⟨k, b⟩ := kb
    unfold forBundlers.go
    simp only []
    rw [ih]; simp

theorem forBundlers_keys (f : EState → Bundler → EState × Bundler) (s : EState) : keysOf (forBundlers s f) = keysOf s := by
  unfold forBundlers
  rw [forBundlers_go_keys]; simp [keysOf]

theorem all_open_of_inv {s : EState} (h : Inv s) : ∀ kb ∈ s.bundlers, kb.2.runOpen = true := by
  intro kb hkb
  exact h.2.1 (bview kb.2) (List.mem_map_of_mem (f := fun kb => bview kb.2) hkb)

/-- `forBundlers` with a step that keeps every open bundler open and preserves the data invariant -/
theorem inv_forBundlers (f : EState → Bundler → EState × Bundler)
    (hf : ∀ (s : EState) (b : Bundler) (pre post : List BV), b.runOpen = true →
      DI s (pre ++ bview b :: post) → DI (f s b).1 (pre ++ bview (f s b).2 :: post))
    (ho : ∀ s b, b.runOpen = true → (f s b).2.runOpen = true) (s : EState) (h : Inv s) : Inv (forBundlers s f) := by
  have hall := all_open_of_inv h
  refine ⟨?_, ?_, ?_⟩
  · apply forBundlers_go_inv f (fun b => b.runOpen = true) hf _ _ _ hall
    have h0 : DI s (bvs s) := h.1
    simpa [bvs] using h0
  · intro x hx
    obtain ⟨kb, hkb, rfl⟩ := List.mem_map.mp hx
    exact forBundlers_go_all f (fun b => b.runOpen = true) (fun b => b.runOpen = true) ho _ _ _ hall (by intro kb hkb; cases hkb) kb hkb
  · show (keysOf (forBundlers s f)).Pairwise (· ≠ ·)
    rw [forBundlers_keys]; exact h.2.2

theorem inv_forBundlers_ri (s : EState) (c : String) (h : Inv s) : Inv (forBundlers s (fun s b => recordInterruption s b c)) := by
  apply inv_forBundlers _ _ _ s h
  · intro s b pre post ho h; exact DI_recordInterruption b c ho h
  · intro s b ho
    unfold recordInterruption
    split
    · simp only [emitEvent]
      split
      · have := congrArg BV.runOpen (bview_commit { b with seq := assocSet "interruptions" (b.counter "interruptions" + 1) b.seq } "interruptions")
        exact this.trans ho
      · exact ho
    · exact ho

theorem inv_forBundlers_suspend (s : EState) (h : Inv s) : Inv (forBundlers s suspendMonitors) := by
  apply inv_forBundlers _ _ _ s h
  · intro s b pre post _ h; exact DI_suspendMonitors b h
  · intro s b ho; exact ho

theorem inv_forBundlers_restore (s : EState) (h : Inv s) : Inv (forBundlers s restoreMonitors) := by
  apply inv_forBundlers _ _ _ s h
  · intro s b pre post _ h; exact DI_restoreMonitors b (by simp : bview b ∈ pre ++ bview b :: post) h
  · intro s b ho; exact ho

theorem inv_forBundlers_clear (s : EState) (h : Inv s) : Inv (forBundlers s clearMonitors) := by
  apply inv_forBundlers _ _ _ s h
  · intro s b pre post _ h; exact DI_clearMonitors b h
  · intro s b ho; exact ho

/-! ## program counter of the non-frame operations -/

theorem pc_forBundlers (f : EState → Bundler → EState × Bundler) (h : ∀ s b, ctl (f s b).1 = ctl s) (s : EState) :
    (forBundlers s f).pc = s.pc := congrArg Ctl.pc (ctl_forBundlers f h s)

end BlueskyVerif.Engine
