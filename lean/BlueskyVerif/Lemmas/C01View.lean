/-
C01: the document view `dv` of the engine state (documents, run counter, device subscriptions, bundler
views, program counter), the invariant `Inv` on it, and frame lemmas: operations that leave the view alone.
-/
import BlueskyVerif.Lemmas.C01Docs
import BlueskyVerif.Lemmas.EngineBE

namespace BlueskyVerif.Engine

def bview (b : Bundler) : BV :=
  { runId := b.runId, runOpen := b.runOpen, descs := b.descriptors, recordInt := b.recordInt, monitors := b.monitors }

def bvs (s : EState) : List BV := s.bundlers.map (fun kb => bview kb.2)

def keysOf (s : EState) : List String := s.bundlers.map (fun kb => kb.1)

def subsOf (s : EState) : String → List (Nat × String) := fun n => (devOf s n).subs

structure DV where
  docs : List Doc
  nextRun : Nat
  subs : String → List (Nat × String)
  bs : List BV
  keys : List String
  pc : PC

def dv (s : EState) : DV :=
  { docs := s.docs, nextRun := s.nextRun, subs := subsOf s, bs := bvs s, keys := keysOf s, pc := s.pc }

/-- the invariant of C01 (it does not look at the program counter) -/
def InvV (v : DV) : Prop :=
  DocInv v.docs v.nextRun v.subs v.bs ∧ (∀ x ∈ v.bs, x.runOpen = true) ∧ v.keys.Pairwise (· ≠ ·)

def Inv (s : EState) : Prop := InvV (dv s)

theorem dv_ext {s s' : EState} (h1 : s'.docs = s.docs) (h2 : s'.nextRun = s.nextRun) (h3 : subsOf s' = subsOf s)
    (h4 : bvs s' = bvs s) (h6 : keysOf s' = keysOf s) (h5 : s'.pc = s.pc) : dv s' = dv s := by
  simp only [dv, h1, h2, h3, h4, h5, h6]

theorem Inv.congr {s s' : EState} (h : dv s' = dv s) (hi : Inv s) : Inv s' := by
  unfold Inv; rw [h]; exact hi

/-- same data, whatever the program counter -/
theorem Inv.of_data {s s' : EState} (h1 : s'.docs = s.docs) (h2 : s'.nextRun = s.nextRun) (h3 : subsOf s' = subsOf s)
    (h4 : bvs s' = bvs s) (h6 : keysOf s' = keysOf s) (hi : Inv s) : Inv s' := by
  unfold Inv InvV dv at *
  simp only [h1, h2, h3, h4, h6]; exact hi

theorem pc_of_dv {s s' : EState} (h : dv s' = dv s) : s'.pc = s.pc := congrArg DV.pc h

/-! ## devices -/

theorem devOf_setDev (s : EState) (n : String) (d : DevState) (n' : String) :
    devOf (setDev s n d) n' = if n' = n then d else devOf s n' := by
  unfold devOf setDev
  simp only [assocGet_assocSet]
  split <;> rfl

theorem subsOf_setDev (s : EState) (n : String) (d : DevState) :
    subsOf (setDev s n d) = fun n' => if n' = n then d.subs else subsOf s n' := by
  funext n'
  unfold subsOf
  rw [devOf_setDev]
  split <;> rfl

theorem subsOf_setDev_same (s : EState) (n : String) (d : DevState) (h : d.subs = (devOf s n).subs) :
    subsOf (setDev s n d) = subsOf s := by
  rw [subsOf_setDev]
  funext n'
  split
  · rename_i e; subst e; exact h
  · rfl

/-! ## frame lemmas -/

@[simp] theorem dv_logCall (s : EState) (c : Call) : dv (s.logCall c) = dv s := rfl

@[simp] theorem dv_nextMode (s : EState) (n op : String) : dv (nextMode s n op).2 = dv s := by
  unfold nextMode
  exact dv_ext rfl rfl (subsOf_setDev_same _ _ _ rfl) rfl rfl rfl

@[simp] theorem dv_newStatus (s : EState) (d o m : String) (g : Option String) : dv (newStatus s d o m g).2 = dv s := rfl

theorem dv_foldl {α} (f : EState → α → EState) (h : ∀ s a, dv (f s a) = dv s) (l : List α) (s : EState) :
    dv (l.foldl f s) = dv s := by
  induction l generalizing s with
  | nil => rfl
  | cons a l ih => rw [List.foldl_cons, ih, h]

@[simp] theorem dv_completeStatus (s : EState) (k : Nat) : dv (completeStatus s k) = dv s := by
  unfold completeStatus
  split
  · rfl
  · split
    · rfl
    · split <;> rfl

@[simp] theorem dv_flushCompletions (s : EState) : dv (flushCompletions s) = dv s := by
  unfold flushCompletions
  rw [dv_foldl _ dv_completeStatus]; rfl

theorem forBundlers_go_pure (g : Bundler → Bundler) (s : EState) (todo done : List (String × Bundler)) :
    forBundlers.go (fun s b => (s, g b)) s todo done =
      { s with bundlers := done.reverse ++ todo.map (fun kb => (kb.1, g kb.2)) } := by
  induction todo generalizing done with
  | nil => simp [forBundlers.go]
  | cons kb rest ih =>
    obtain ⟨k, b⟩ := kb
    unfold forBundlers.go
    simp only []
    rw [ih]
    simp

theorem forBundlers_pure (g : Bundler → Bundler) (s : EState) :
    forBundlers s (fun s b => (s, g b)) = { s with bundlers := s.bundlers.map (fun kb => (kb.1, g kb.2)) } := by
  unfold forBundlers
  rw [forBundlers_go_pure]; simp

theorem dv_forBundlers_pure (g : Bundler → Bundler) (hg : ∀ b, bview (g b) = bview b) (s : EState) :
    dv (forBundlers s (fun s b => (s, g b))) = dv s := by
  rw [forBundlers_pure]
  refine dv_ext rfl rfl rfl ?_ ?_ rfl
  · simp only [bvs, List.map_map]
    apply List.map_congr_left
    intro kb _
    exact hg kb.2
  · simp only [keysOf, List.map_map]
    apply List.map_congr_left
    intro kb _
    rfl

@[simp] theorem bview_resetCheckpoint (b : Bundler) : bview b.resetCheckpoint = bview b := rfl
@[simp] theorem bview_rewind (b : Bundler) : bview b.rewind = bview b := rfl
@[simp] theorem bview_commit (b : Bundler) (st : String) : bview (b.commit st) = bview b := by
  unfold Bundler.commit
  split
  · rfl
  · split <;> rfl

@[simp] theorem dv_resetCheckpointMeth (s : EState) : dv (resetCheckpointMeth s) = dv s := by
  unfold resetCheckpointMeth
  split
  · rfl
  · rw [dv_forBundlers_pure _ bview_resetCheckpoint]; rfl

@[simp] theorem dv_stopMovables (s : EState) : dv (stopMovables s) = dv s := by
  unfold stopMovables
  apply dv_foldl
  intro s n
  simp

@[simp] theorem dv_pauseHooks (s : EState) : dv (pauseHooks s) = dv s := by
  unfold pauseHooks
  apply dv_foldl
  intro s n
  split
  · split
    · simp only []; split <;> simp
    · rfl
  · rfl

@[simp] theorem dv_resumeHooks (s : EState) : dv (resumeHooks s) = dv s := by
  unfold resumeHooks
  apply dv_foldl
  intro s n
  split
  · split <;> rfl
  · rfl

@[simp] theorem dv_rewindPlan (s : EState) : dv (rewindPlan s).2 = dv s := by
  unfold rewindPlan
  simp only []
  split
  · rfl
  · rw [dv_forBundlers_pure _ bview_rewind]; rfl

theorem dv_setState {s s' : EState} {n : St} (h : setState s n = .ok s') : dv s' = dv s := by
  unfold setState at h; split at h
  · cases h; rfl
  · cases h

@[simp] theorem dv_fin (s : EState) (r : Resp) : dv (fin s r) = dv s := by
  unfold fin; split <;> rfl

@[simp] theorem dv_closeGen (s : EState) (g : Gen) : dv (closeGen s g) = dv s := by
  unfold closeGen; split <;> rfl

/-- close a frame goal `dv (f ... s ...) = dv s` after unfolding `f` -/
macro "frame_dv" : tactic =>
  `(tactic| repeat' (first | rfl | (simp; done) | split | (simp only []; (first | rfl | split))))

@[simp] theorem dv_noteMsg (s : EState) (m : Msg) : dv (noteMsg s m) = dv s := by
  unfold noteMsg; frame_dv

@[simp] theorem dv_takeResp (s : EState) (r : Resp) (rs : List Resp) : dv (takeResp s r rs) = dv s := by
  unfold takeResp; simp only []; split <;> rfl

@[simp] theorem dv_logYield (s : EState) (g : Gen) (i : Inp) : dv (logYield s g i) = dv s := by
  unfold logYield; split <;> rfl

@[simp] theorem dv_refuse (s : EState) (w : String) : dv (refuse s w) = dv s := rfl

theorem inv_leaveLoop (s : EState) (e : Exc) (h : Inv s) : Inv (leaveLoop s e) := by
  unfold leaveLoop
  simp only []
  split <;> exact Inv.of_data rfl rfl rfl rfl rfl h

/-- the bundler registered under the key of `m` is replaced by one with the same view -/
theorem dv_putBundler {s : EState} {m : Msg} {b : Bundler} (h : getBundler s m = some b) (b' : Bundler)
    (hv : bview b' = bview b) : dv (putBundler s m b') = dv s := by
  obtain ⟨pre, post, e1, e2, _⟩ := assocGet_split h
  refine dv_ext rfl rfl rfl ?_ ?_ rfl
  · unfold bvs putBundler
    simp only [e2 b']
    rw [e1]
    simp [hv]
  · unfold keysOf putBundler
    simp only [e2 b']
    rw [e1]
    simp

end BlueskyVerif.Engine
