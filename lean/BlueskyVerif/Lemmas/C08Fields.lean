/-
Boilerplate for the C08 history invariant (written once by a script, checked in): per-field frame lemmas for
`permit`, `trans` (from the `ctl_*` lemmas) and `refused` (not part of `ctl`: proved directly), and the
fact that no command handler except `pause` touches them.
-/
import BlueskyVerif.Lemmas.C02Docs
import BlueskyVerif.Lemmas.C02Fields

namespace BlueskyVerif.Engine

/-! ### field `permit` -/

@[simp] theorem pm_logCall (s : EState) (c : Call) : (s.logCall c).permit = s.permit := rfl
@[simp] theorem pm_emit (s : EState) (d : Doc) : (s.emit d).permit = s.permit := rfl
@[simp] theorem pm_setDev (s : EState) (n : String) (d : DevState) : (setDev s n d).permit = s.permit := rfl
@[simp] theorem pm_nextMode (s : EState) (n op : String) : (nextMode s n op).2.permit = s.permit := rfl
@[simp] theorem pm_putBundler (s : EState) (m : Msg) (b : Bundler) : (putBundler s m b).permit = s.permit := rfl
@[simp] theorem pm_emitEvent (s : EState) (b : Bundler) (st : String) (d : List (String × Int)) (n : String) : (emitEvent s b st d n).1.permit = s.permit := rfl
@[simp] theorem pm_prepareStream (s : EState) (b : Bundler) (st : String) (o : List String) : (prepareStream s b st o).1.permit = s.permit := rfl
@[simp] theorem pm_newStatus (s : EState) (d o m : String) (g : Option String) : (newStatus s d o m g).2.permit = s.permit := rfl
@[simp] theorem pm_closeRunDoc (s : EState) (b : Bundler) (e r : String) : (closeRunDoc s b e r).1.permit = s.permit := congrArg Ctl.permit (ctl_closeRunDoc s b e r)
@[simp] theorem pm_resetCheckpointMeth (s : EState) : (resetCheckpointMeth s).permit = s.permit := congrArg Ctl.permit (ctl_resetCheckpointMeth s)
@[simp] theorem pm_stopMovables (s : EState) : (stopMovables s).permit = s.permit := congrArg Ctl.permit (ctl_stopMovables s)
@[simp] theorem pm_pauseHooks (s : EState) : (pauseHooks s).permit = s.permit := congrArg Ctl.permit (ctl_pauseHooks s)
@[simp] theorem pm_resumeHooks (s : EState) : (resumeHooks s).permit = s.permit := congrArg Ctl.permit (ctl_resumeHooks s)
@[simp] theorem pm_rewindPlan (s : EState) : (rewindPlan s).2.permit = s.permit := congrArg Ctl.permit (ctl_rewindPlan s)
@[simp] theorem pm_forBundlers_ri (s : EState) (c : String) : (forBundlers s (fun s b => recordInterruption s b c)).permit = s.permit := congrArg Ctl.permit (ctl_forBundlers _ (fun s b => ctl_recordInterruption s b c) _)
@[simp] theorem pm_forBundlers_restore (s : EState) : (forBundlers s restoreMonitors).permit = s.permit := congrArg Ctl.permit (ctl_forBundlers _ ctl_restoreMonitors _)
@[simp] theorem pm_forBundlers_suspend (s : EState) : (forBundlers s suspendMonitors).permit = s.permit := congrArg Ctl.permit (ctl_forBundlers _ ctl_suspendMonitors _)
@[simp] theorem pm_forBundlers_clear (s : EState) : (forBundlers s clearMonitors).permit = s.permit := congrArg Ctl.permit (ctl_forBundlers _ ctl_clearMonitors _)
@[simp] theorem pm_forBundlers_pure (s : EState) (g : Bundler → Bundler) : (forBundlers s (fun s b => (s, g b))).permit = s.permit := congrArg Ctl.permit (ctl_forBundlers _ (fun _ _ => rfl) _)

/-! ### field `trans` -/

@[simp] theorem tr_logCall (s : EState) (c : Call) : (s.logCall c).trans = s.trans := rfl
@[simp] theorem tr_emit (s : EState) (d : Doc) : (s.emit d).trans = s.trans := rfl
@[simp] theorem tr_setDev (s : EState) (n : String) (d : DevState) : (setDev s n d).trans = s.trans := rfl
@[simp] theorem tr_nextMode (s : EState) (n op : String) : (nextMode s n op).2.trans = s.trans := rfl
@[simp] theorem tr_putBundler (s : EState) (m : Msg) (b : Bundler) : (putBundler s m b).trans = s.trans := rfl
@[simp] theorem tr_emitEvent (s : EState) (b : Bundler) (st : String) (d : List (String × Int)) (n : String) : (emitEvent s b st d n).1.trans = s.trans := rfl
@[simp] theorem tr_prepareStream (s : EState) (b : Bundler) (st : String) (o : List String) : (prepareStream s b st o).1.trans = s.trans := rfl
@[simp] theorem tr_newStatus (s : EState) (d o m : String) (g : Option String) : (newStatus s d o m g).2.trans = s.trans := rfl
@[simp] theorem tr_closeRunDoc (s : EState) (b : Bundler) (e r : String) : (closeRunDoc s b e r).1.trans = s.trans := congrArg Ctl.trans (ctl_closeRunDoc s b e r)
@[simp] theorem tr_resetCheckpointMeth (s : EState) : (resetCheckpointMeth s).trans = s.trans := congrArg Ctl.trans (ctl_resetCheckpointMeth s)
@[simp] theorem tr_stopMovables (s : EState) : (stopMovables s).trans = s.trans := congrArg Ctl.trans (ctl_stopMovables s)
@[simp] theorem tr_pauseHooks (s : EState) : (pauseHooks s).trans = s.trans := congrArg Ctl.trans (ctl_pauseHooks s)
@[simp] theorem tr_resumeHooks (s : EState) : (resumeHooks s).trans = s.trans := congrArg Ctl.trans (ctl_resumeHooks s)
@[simp] theorem tr_rewindPlan (s : EState) : (rewindPlan s).2.trans = s.trans := congrArg Ctl.trans (ctl_rewindPlan s)
@[simp] theorem tr_forBundlers_ri (s : EState) (c : String) : (forBundlers s (fun s b => recordInterruption s b c)).trans = s.trans := congrArg Ctl.trans (ctl_forBundlers _ (fun s b => ctl_recordInterruption s b c) _)
@[simp] theorem tr_forBundlers_restore (s : EState) : (forBundlers s restoreMonitors).trans = s.trans := congrArg Ctl.trans (ctl_forBundlers _ ctl_restoreMonitors _)
@[simp] theorem tr_forBundlers_suspend (s : EState) : (forBundlers s suspendMonitors).trans = s.trans := congrArg Ctl.trans (ctl_forBundlers _ ctl_suspendMonitors _)
@[simp] theorem tr_forBundlers_clear (s : EState) : (forBundlers s clearMonitors).trans = s.trans := congrArg Ctl.trans (ctl_forBundlers _ ctl_clearMonitors _)
@[simp] theorem tr_forBundlers_pure (s : EState) (g : Bundler → Bundler) : (forBundlers s (fun s b => (s, g b))).trans = s.trans := congrArg Ctl.trans (ctl_forBundlers _ (fun _ _ => rfl) _)

/-! ### field `refused` -/

@[simp] theorem rf_logCall (s : EState) (c : Call) : (s.logCall c).refused = s.refused := rfl
@[simp] theorem rf_emit (s : EState) (d : Doc) : (s.emit d).refused = s.refused := rfl
@[simp] theorem rf_setDev (s : EState) (n : String) (d : DevState) : (setDev s n d).refused = s.refused := rfl
@[simp] theorem rf_nextMode (s : EState) (n op : String) : (nextMode s n op).2.refused = s.refused := rfl
@[simp] theorem rf_putBundler (s : EState) (m : Msg) (b : Bundler) : (putBundler s m b).refused = s.refused := rfl
@[simp] theorem rf_emitEvent (s : EState) (b : Bundler) (st : String) (d : List (String × Int)) (n : String) : (emitEvent s b st d n).1.refused = s.refused := rfl
@[simp] theorem rf_prepareStream (s : EState) (b : Bundler) (st : String) (o : List String) : (prepareStream s b st o).1.refused = s.refused := rfl
@[simp] theorem rf_newStatus (s : EState) (d o m : String) (g : Option String) : (newStatus s d o m g).2.refused = s.refused := rfl

theorem rf_foldl {α} (f : EState → α → EState) (h : ∀ s a, (f s a).refused = s.refused) (l : List α) (s : EState) :
    (l.foldl f s).refused = s.refused := foldl_proj (fun s => s.refused) f h l s

theorem rf_forBundlers (f : EState → Bundler → EState × Bundler) (h : ∀ s b, (f s b).1.refused = s.refused) (s : EState) :
    (forBundlers s f).refused = s.refused := forBundlers_proj (fun s => s.refused) f h (fun _ _ => rfl) s

@[simp] theorem rf_recordInterruption (s : EState) (b : Bundler) (c : String) : (recordInterruption s b c).1.refused = s.refused := by
  unfold recordInterruption; split <;> rfl
@[simp] theorem rf_suspendMonitors (s : EState) (b : Bundler) : (suspendMonitors s b).1.refused = s.refused := by
  unfold suspendMonitors; apply rf_foldl; intro s a; rfl
@[simp] theorem rf_restoreMonitors (s : EState) (b : Bundler) : (restoreMonitors s b).1.refused = s.refused := by
  unfold restoreMonitors; apply rf_foldl; intro s a; rfl
@[simp] theorem rf_clearMonitors (s : EState) (b : Bundler) : (clearMonitors s b).1.refused = s.refused := by
  unfold clearMonitors; exact rf_suspendMonitors s b
@[simp] theorem rf_closeRunDoc (s : EState) (b : Bundler) (e r : String) : (closeRunDoc s b e r).1.refused = s.refused := by
  unfold closeRunDoc; simp only []; show (clearMonitors s b).1.refused = _; exact rf_clearMonitors s b
@[simp] theorem rf_forBundlers_ri (s : EState) (c : String) :
    (forBundlers s (fun s b => recordInterruption s b c)).refused = s.refused := rf_forBundlers _ (fun s b => rf_recordInterruption s b c) s
@[simp] theorem rf_forBundlers_restore (s : EState) : (forBundlers s restoreMonitors).refused = s.refused := rf_forBundlers _ rf_restoreMonitors s
@[simp] theorem rf_forBundlers_suspend (s : EState) : (forBundlers s suspendMonitors).refused = s.refused := rf_forBundlers _ rf_suspendMonitors s
@[simp] theorem rf_forBundlers_clear (s : EState) : (forBundlers s clearMonitors).refused = s.refused := rf_forBundlers _ rf_clearMonitors s
@[simp] theorem rf_forBundlers_pure (s : EState) (g : Bundler → Bundler) :
    (forBundlers s (fun s b => (s, g b))).refused = s.refused := rf_forBundlers _ (fun _ _ => rfl) s
@[simp] theorem rf_resetCheckpointMeth (s : EState) : (resetCheckpointMeth s).refused = s.refused := by
  unfold resetCheckpointMeth; split
  · rfl
  · exact rf_forBundlers_pure _ _
@[simp] theorem rf_stopMovables (s : EState) : (stopMovables s).refused = s.refused := by
  unfold stopMovables; apply rf_foldl; intro s a; rfl
@[simp] theorem rf_pauseHooks (s : EState) : (pauseHooks s).refused = s.refused := by
  unfold pauseHooks
  apply rf_foldl
  intro s n
  split
  · split
    · simp only []; split <;> simp
    · rfl
  · rfl
@[simp] theorem rf_resumeHooks (s : EState) : (resumeHooks s).refused = s.refused := by
  unfold resumeHooks
  apply rf_foldl
  intro s n
  split
  · split <;> rfl
  · rfl
@[simp] theorem rf_rewindPlan (s : EState) : (rewindPlan s).2.refused = s.refused := by
  unfold rewindPlan
  simp only []
  split
  · rfl
  · exact rf_forBundlers_pure _ _

/-- no command handler other than `pause` touches `permit` -/
theorem runCommand_pm (s : EState) (m : Msg) : (runCommand s m).1.permit = s.permit ∨ m.cmd = "pause" := by
  unfold runCommand
  split
  · exact Or.inl (by unfold cmdOpenRun; frame_be)
  · exact Or.inl (by unfold cmdCloseRun; frame_be)
  · exact Or.inl (by unfold cmdCreate; frame_be)
  · exact Or.inl (by unfold cmdRead; frame_be)
  · exact Or.inl (by unfold cmdSave; frame_be)
  · exact Or.inl (by unfold cmdDrop; frame_be)
  · exact Or.inl (by unfold cmdCheckpoint; frame_be)
  · exact Or.inl (by unfold cmdClearCheckpoint; frame_be)
  · exact Or.inl (by unfold cmdRewindable; frame_be)
  · exact Or.inl (by unfold cmdSet; frame_be)
  · exact Or.inl (by unfold cmdTrigger; frame_be)
  · exact Or.inl (by unfold cmdWait; frame_be)
  · exact Or.inl rfl
  · exact Or.inl (by unfold cmdStage; frame_be)
  · exact Or.inl (by unfold cmdStage; frame_be)
  · exact Or.inl (by unfold cmdMonitor; frame_be)
  · exact Or.inl (by unfold cmdUnmonitor; frame_be)
  · exact Or.inl rfl
  · exact Or.inr (by assumption)
  · exact Or.inl (by unfold cmdStartSuspender; frame_be)
  · exact Or.inl (by unfold cmdResumeFromSuspender; frame_be)
  · exact Or.inl (by unfold cmdWaitFor; frame_be)
  · exact Or.inl rfl

/-- no command handler other than `pause` touches `trans` -/
theorem runCommand_tr (s : EState) (m : Msg) : (runCommand s m).1.trans = s.trans ∨ m.cmd = "pause" := by
  unfold runCommand
  split
  · exact Or.inl (by unfold cmdOpenRun; frame_be)
  · exact Or.inl (by unfold cmdCloseRun; frame_be)
  · exact Or.inl (by unfold cmdCreate; frame_be)
  · exact Or.inl (by unfold cmdRead; frame_be)
  · exact Or.inl (by unfold cmdSave; frame_be)
  · exact Or.inl (by unfold cmdDrop; frame_be)
  · exact Or.inl (by unfold cmdCheckpoint; frame_be)
  · exact Or.inl (by unfold cmdClearCheckpoint; frame_be)
  · exact Or.inl (by unfold cmdRewindable; frame_be)
  · exact Or.inl (by unfold cmdSet; frame_be)
  · exact Or.inl (by unfold cmdTrigger; frame_be)
  · exact Or.inl (by unfold cmdWait; frame_be)
  · exact Or.inl rfl
  · exact Or.inl (by unfold cmdStage; frame_be)
  · exact Or.inl (by unfold cmdStage; frame_be)
  · exact Or.inl (by unfold cmdMonitor; frame_be)
  · exact Or.inl (by unfold cmdUnmonitor; frame_be)
  · exact Or.inl rfl
  · exact Or.inr (by assumption)
  · exact Or.inl (by unfold cmdStartSuspender; frame_be)
  · exact Or.inl (by unfold cmdResumeFromSuspender; frame_be)
  · exact Or.inl (by unfold cmdWaitFor; frame_be)
  · exact Or.inl rfl

/-- no command handler other than `pause` touches `refused` -/
theorem runCommand_rf (s : EState) (m : Msg) : (runCommand s m).1.refused = s.refused ∨ m.cmd = "pause" := by
  unfold runCommand
  split
  · exact Or.inl (by unfold cmdOpenRun; frame_be)
  · exact Or.inl (by unfold cmdCloseRun; frame_be)
  · exact Or.inl (by unfold cmdCreate; frame_be)
  · exact Or.inl (by unfold cmdRead; frame_be)
  · exact Or.inl (by unfold cmdSave; frame_be)
  · exact Or.inl (by unfold cmdDrop; frame_be)
  · exact Or.inl (by unfold cmdCheckpoint; frame_be)
  · exact Or.inl (by unfold cmdClearCheckpoint; frame_be)
  · exact Or.inl (by unfold cmdRewindable; frame_be)
  · exact Or.inl (by unfold cmdSet; frame_be)
  · exact Or.inl (by unfold cmdTrigger; frame_be)
  · exact Or.inl (by unfold cmdWait; frame_be)
  · exact Or.inl rfl
  · exact Or.inl (by unfold cmdStage; frame_be)
  · exact Or.inl (by unfold cmdStage; frame_be)
  · exact Or.inl (by unfold cmdMonitor; frame_be)
  · exact Or.inl (by unfold cmdUnmonitor; frame_be)
  · exact Or.inl rfl
  · exact Or.inr (by assumption)
  · exact Or.inl (by unfold cmdStartSuspender; frame_be)
  · exact Or.inl (by unfold cmdResumeFromSuspender; frame_be)
  · exact Or.inl (by unfold cmdWaitFor; frame_be)
  · exact Or.inl rfl

end BlueskyVerif.Engine
