/-
C41 helper lemmas, engine level: `forBundlers` over the monitor operations, the pause block, the
resume path, the cleanup, `monitor` / `unmonitor`, and signal updates.
-/
import BlueskyVerif.Lemmas.C41

namespace BlueskyVerif.Engine

/-! ## forBundlers as a fold over the state -/

theorem forBundlers_go_eq (f : EState → Bundler → EState × Bundler) (h : Bundler → Bundler) (hb : ∀ s b, (f s b).2 = h b)
    (todo done : List (String × Bundler)) (s : EState) :
    forBundlers.go f s todo done =
      { (todo.foldl (fun s kb => (f s kb.2).1) s) with bundlers := done.reverse ++ todo.map (fun kb => (kb.1, h kb.2)) } := by
  induction todo generalizing s done with
  | nil => simp [forBundlers.go]
  | cons kb rest ih =>
    obtain ⟨k, b⟩ := kb
    unfold forBundlers.go
    simp only []
    rw [ih, hb]
    simp

theorem forBundlers_eq (f : EState → Bundler → EState × Bundler) (h : Bundler → Bundler) (hb : ∀ s b, (f s b).2 = h b) (s : EState) :
    forBundlers s f = { (s.bundlers.foldl (fun s kb => (f s kb.2).1) s) with bundlers := mapB h s.bundlers } := by
  unfold forBundlers; rw [forBundlers_go_eq f h hb]; simp [mapB]

theorem mem_subsOf_foldl_suspend (bs : List (String × Bundler)) (s : EState) (n : String) (p : Nat × String) :
    p ∈ subsOf (bs.foldl (fun s kb => (suspendMonitors s kb.2).1) s) n ↔
      p ∈ subsOf s n ∧ ¬ ∃ kb ∈ bs, ∃ st, (n, st) ∈ kb.2.monitors ∧ p = (kb.2.runId, st) := by
  induction bs generalizing s with
  | nil => simp
  | cons kb bs ih =>
    rw [List.foldl_cons, ih, mem_subsOf_suspendMonitors]
    constructor
    · rintro ⟨⟨h1, h2⟩, h3⟩
      refine ⟨h1, ?_⟩
      rintro ⟨kb', hkb, st, hst, hp⟩
      rcases List.mem_cons.mp hkb with e | e
      · subst e; exact h2 ⟨st, hst, hp⟩
      · exact h3 ⟨kb', e, st, hst, hp⟩
    · rintro ⟨h1, h2⟩
      refine ⟨⟨h1, ?_⟩, ?_⟩
      · rintro ⟨st, hst, hp⟩; exact h2 ⟨kb, List.mem_cons_self, st, hst, hp⟩
      · rintro ⟨kb', hkb, st, hst, hp⟩; exact h2 ⟨kb', List.mem_cons_of_mem _ hkb, st, hst, hp⟩

/-- the subscriptions `restore_monitors` adds for signal `n`, over all bundlers in order -/
def restored (bs : List (String × Bundler)) (n : String) : List (Nat × String) :=
  bs.flatMap (fun kb => (kb.2.monitors.filter (fun ms => ms.1 == n)).map (fun ms => (kb.2.runId, ms.2)))

theorem subsOf_foldl_restore (bs : List (String × Bundler)) (s : EState) (n : String) :
    subsOf (bs.foldl (fun s kb => (restoreMonitors s kb.2).1) s) n = subsOf s n ++ restored bs n := by
  induction bs generalizing s with
  | nil => simp [restored]
  | cons kb bs ih =>
    rw [List.foldl_cons, ih, subsOf_restoreMonitors]
    simp [restored]

theorem forBundlers_suspend_bundlers (s : EState) : (forBundlers s suspendMonitors).bundlers = s.bundlers := by
  rw [forBundlers_eq suspendMonitors id (fun _ _ => rfl)]; exact mapB_id _

theorem forBundlers_restore_bundlers (s : EState) : (forBundlers s restoreMonitors).bundlers = s.bundlers := by
  rw [forBundlers_eq restoreMonitors id (fun _ _ => rfl)]; exact mapB_id _

/-- all bundlers `suspend_monitors`: exactly the registrations of the monitors of all bundlers are gone -/
theorem mem_subsOf_forBundlers_suspend (s : EState) (n : String) (p : Nat × String) :
    p ∈ subsOf (forBundlers s suspendMonitors) n ↔
      p ∈ subsOf s n ∧ ¬ ∃ kb ∈ s.bundlers, ∃ st, (n, st) ∈ kb.2.monitors ∧ p = (kb.2.runId, st) := by
  rw [forBundlers_eq suspendMonitors id (fun _ _ => rfl)]
  exact mem_subsOf_foldl_suspend _ _ _ _

theorem subsOf_forBundlers_restore (s : EState) (n : String) :
    subsOf (forBundlers s restoreMonitors) n = subsOf s n ++ restored s.bundlers n := by
  rw [forBundlers_eq restoreMonitors id (fun _ _ => rfl)]
  exact subsOf_foldl_restore _ _ _

theorem clearMonitors_fst (s : EState) (b : Bundler) : (clearMonitors s b).1 = (suspendMonitors s b).1 := rfl
theorem clearMonitors_snd (s : EState) (b : Bundler) : (clearMonitors s b).2 = { b with monitors := [] } := rfl

theorem mem_subsOf_forBundlers_clear (s : EState) (n : String) (p : Nat × String) :
    p ∈ subsOf (forBundlers s clearMonitors) n ↔
      p ∈ subsOf s n ∧ ¬ ∃ kb ∈ s.bundlers, ∃ st, (n, st) ∈ kb.2.monitors ∧ p = (kb.2.runId, st) := by
  rw [forBundlers_eq clearMonitors (fun b => { b with monitors := [] }) (fun _ _ => rfl)]
  exact mem_subsOf_foldl_suspend _ _ _ _

theorem forBundlers_clear_bundlers (s : EState) :
    (forBundlers s clearMonitors).bundlers = mapB (fun b => { b with monitors := [] }) s.bundlers := by
  rw [forBundlers_eq clearMonitors (fun b => { b with monitors := [] }) (fun _ _ => rfl)]

/-! ## subscriptions only shrink -/

def SubsLE (s' s : EState) : Prop := ∀ n p, p ∈ subsOf s' n → p ∈ subsOf s n

theorem SubsLE.refl (s : EState) : SubsLE s s := fun _ _ h => h
theorem SubsLE.trans {a b c : EState} (h1 : SubsLE a b) (h2 : SubsLE b c) : SubsLE a c := fun n p h => h2 n p (h1 n p h)
theorem SubsLE.of_eq {s' s : EState} (h : ∀ n, subsOf s' n = subsOf s n) : SubsLE s' s := fun n p hp => by rw [← h n]; exact hp

theorem subsLE_suspendMonitors (s : EState) (b : Bundler) : SubsLE (suspendMonitors s b).1 s :=
  fun n p h => ((mem_subsOf_suspendMonitors s b n p).mp h).1

theorem subsLE_closeRunDoc (s : EState) (b : Bundler) (e r : String) : SubsLE (closeRunDoc s b e r).1 s := by
  intro n p h
  have : subsOf (closeRunDoc s b e r).1 n = subsOf (suspendMonitors s b).1 n := by
    simp [closeRunDoc, clearMonitors]
  rw [this] at h
  exact subsLE_suspendMonitors s b n p h

theorem forBundlers_go_subsLE (f : EState → Bundler → EState × Bundler) (hf : ∀ s b, SubsLE (f s b).1 s)
    (todo done : List (String × Bundler)) (s : EState) : SubsLE (forBundlers.go f s todo done) s := by
  induction todo generalizing s done with
  | nil => intro n p h; exact h
  | cons kb rest ih =>
    obtain ⟨k, b⟩ := kb
    unfold forBundlers.go
    simp only []
    exact (ih _ _).trans (hf s b)

theorem forBundlers_subsLE (f : EState → Bundler → EState × Bundler) (hf : ∀ s b, SubsLE (f s b).1 s) (s : EState) :
    SubsLE (forBundlers s f) s := forBundlers_go_subsLE f hf _ _ s

theorem foldl_subsLE {α} (f : EState → α → EState) (h : ∀ s a, SubsLE (f s a) s) (l : List α) (s : EState) : SubsLE (l.foldl f s) s := by
  induction l generalizing s with
  | nil => exact SubsLE.refl s
  | cons a l ih => rw [List.foldl_cons]; exact (ih _).trans (h s a)

/-! ## bundler fields that checkpoint bookkeeping leaves alone -/

theorem resetN_monitors (j : Nat) (b : Bundler) : (resetN j b).monitors = b.monitors := by
  induction j generalizing b with
  | zero => rfl
  | succ j ih => exact ih b.resetCheckpoint

theorem resetN_runId (j : Nat) (b : Bundler) : (resetN j b).runId = b.runId := by
  induction j generalizing b with
  | zero => rfl
  | succ j ih => exact ih b.resetCheckpoint

/-! ## the predicates of the property -/

/-- no monitored signal has a registration belonging to a monitor of a current bundler -/
def NoMonSubs (s : EState) : Prop := ∀ kb ∈ s.bundlers, ∀ ms ∈ kb.2.monitors, (kb.2.runId, ms.2) ∉ subsOf s ms.1

/-- every monitor of every current bundler has exactly one registration on its signal -/
def OneSubEach (s : EState) : Prop := ∀ kb ∈ s.bundlers, ∀ ms ∈ kb.2.monitors, (subsOf s ms.1).count (kb.2.runId, ms.2) = 1

/-- every registration belongs to a monitor of a current bundler -/
def SubsOwned (s : EState) : Prop :=
  ∀ n, ∀ p ∈ subsOf s n, ∃ kb ∈ s.bundlers, kb.2.runId = p.1 ∧ (n, p.2) ∈ kb.2.monitors

/-- run ids identify bundlers, and a bundler monitors a signal at most once (`monitor` refuses a
    second one) -/
structure MonWF (s : EState) : Prop where
  runs : (s.bundlers.map (fun kb => kb.2.runId)).Nodup
  sigs : ∀ kb ∈ s.bundlers, (keys kb.2.monitors).Nodup

theorem no_subscription_at_all {s : EState} (h1 : NoMonSubs s) (h2 : SubsOwned s) (n : String) : subsOf s n = [] := by
  apply List.eq_nil_iff_forall_not_mem.mpr
  intro p hp
  obtain ⟨kb, hkb, hrun, hmon⟩ := h2 n p hp
  have := h1 kb hkb (n, p.2) hmon
  apply this
  simp only []
  rw [hrun]; exact hp

end BlueskyVerif.Engine
