/-
Helper lemmas for C18/C19: the refinement relation `Rel` between the Dispatcher model and the
abstract spec, preserved by subscribe and unsubscribe.
-/
import BlueskyVerif.Lemmas.C18Refine

namespace BlueskyVerif.Disp
open OD

/-- token-map entry `p` implements the live subscription `sub` in registry `r`: same public token,
    and one private token per covered kind, each pointing at the callable in that kind's dict -/
def Impl (r : Registry) (sub : Sub) (p : Token × List Cid) : Prop :=
  p.1 = sub.tok ∧ Forall2 (fun k c => (c, sub.f) ∈ r.cbs k) sub.name.kinds p.2

/-- the refinement relation -/
structure Rel (ig : Bool) (d : Dispatcher) (s : Spec) : Prop where
  ig : d.reg.ignoreExceptions = ig
  counter : d.counter = s.next
  wf : d.reg.WF
  toks : Forall2 (Impl d.reg) s.live d.tokenMap
  fresh : ∀ sub ∈ s.live, (sub.tok : Nat) < s.next
  nodup : (s.live.map (·.tok)).Nodup
  order : ∀ k, (d.reg.cbs k).map (·.2) = s.order k
  sinv : ∀ k f, f ∈ s.order k ↔ liveFor s.live f k = true

theorem rel_init (ig : Bool) : Rel ig { reg := { ignoreExceptions := ig } } {} := by
  constructor
  · rfl
  · rfl
  · exact Registry.wf_empty ig
  · exact .nil
  · intro sub h; simp at h
  · simp
  · intro k; simp [Registry.cbs]
  · intro k f; simp [liveFor]

theorem Name.covers_iff (n : Name) (k : Sig) : n.covers k = true ↔ k ∈ n.kinds := by
  simp [Name.covers]

theorem liveFor_iff (live : List Sub) (f : Callable) (k : Sig) :
    liveFor live f k = true ↔ ∃ sub ∈ live, sub.f = f ∧ k ∈ sub.name.kinds := by
  simp [liveFor, Name.covers]

theorem Impl.covers {r : Registry} {sub : Sub} {p : Token × List Cid} (h : Impl r sub p) {k : Sig}
    (hk : k ∈ sub.name.kinds) : ∃ c ∈ p.2, (c, sub.f) ∈ r.cbs k :=
  forall2_left h.2 k hk

theorem Impl.cid {r : Registry} {sub : Sub} {p : Token × List Cid} (h : Impl r sub p) {c : Cid}
    (hc : c ∈ p.2) : ∃ k ∈ sub.name.kinds, (c, sub.f) ∈ r.cbs k :=
  forall2_right h.2 c hc

theorem forall2_keys {r : Registry} {live : List Sub} {tm : List (Token × List Cid)}
    (h : Forall2 (Impl r) live tm) : tm.map (·.1) = live.map (·.tok) := by
  induction h with
  | nil => rfl
  | cons hab _ ih => simp [ih, hab.1]

/-! ### subscribe -/

theorem Dispatcher.subscribe_eq (d : Dispatcher) (f : Callable) (name : Name) (hv : name.valid = true) :
    d.subscribe f name =
      ({ reg := (Dispatcher.connectMany d.reg f name.kinds).1, counter := d.counter + 1,
         tokenMap := OD.set d.tokenMap d.counter (Dispatcher.connectMany d.reg f name.kinds).2 }, some d.counter) := by
  cases name with
  | all => simp only [Dispatcher.subscribe, Name.kinds]
  | one k =>
    have hk : k ∈ allKinds := by simpa [Name.valid] using hv
    simp only [Dispatcher.subscribe, hk, if_true, Name.kinds, Dispatcher.connectMany]

theorem Dispatcher.subscribe_invalid (d : Dispatcher) (f : Callable) (name : Name) (hv : name.valid = false) :
    d.subscribe f name = (d, none) := by
  cases name with
  | all => simp [Name.valid] at hv
  | one k =>
    have hk : k ∉ allKinds := by simpa [Name.valid] using hv
    simp [Dispatcher.subscribe, hk]

theorem addCond_iff (name : Name) (k : Sig) (l : List Callable) (f : Callable) :
    (name.covers k && !(l.contains f)) = true ↔ k ∈ name.kinds ∧ f ∉ l := by
  simp [Name.covers]

theorem liveFor_single (sub : Sub) (g : Callable) (k : Sig) :
    liveFor [sub] g k = true ↔ sub.f = g ∧ k ∈ sub.name.kinds := by
  simp [liveFor, Name.covers]

theorem liveFor_append (l1 l2 : List Sub) (f : Callable) (k : Sig) :
    liveFor (l1 ++ l2) f k = (liveFor l1 f k || liveFor l2 f k) := by
  simp [liveFor]

theorem subscribe_rel {ig : Bool} {d : Dispatcher} {s : Spec} (h : Rel ig d s) (f : Callable) (name : Name)
    (temp : Bool) (hv : name.valid = true) :
    (d.subscribe f name).2 = some s.next ∧ Rel ig (d.subscribe f name).1 (s.add f name temp) := by
  rw [Dispatcher.subscribe_eq d f name hv]
  obtain ⟨wf', ig', fa, mono, view⟩ := Dispatcher.connectMany_spec d.reg h.wf f name.kinds
  refine ⟨by simp [h.counter], ?_⟩
  have hkeys := forall2_keys h.toks
  have hfreshkey : ∀ p ∈ d.tokenMap, p.1 ≠ d.counter := by
    intro p hp e
    have : p.1 ∈ s.live.map (·.tok) := by rw [← hkeys]; exact List.mem_map.2 ⟨p, hp, rfl⟩
    obtain ⟨sub, hs, hst⟩ := List.mem_map.1 this
    have h1 := h.fresh sub hs
    have h2 := h.counter
    nomega
  constructor
  · exact ig'.trans h.ig
  · show d.counter + 1 = s.next + 1
    rw [h.counter]
  · exact wf'
  · show Forall2 _ (s.live ++ [_]) (OD.set d.tokenMap d.counter _)
    rw [OD.set_fresh _ _ _ hfreshkey]
    apply forall2_append_single
    · apply forall2_imp_mem h.toks
      intro sub p _ _ hi
      exact ⟨hi.1, forall2_imp_mem hi.2 (fun k c _ _ hm => mono k _ hm)⟩
    · exact ⟨h.counter, fa⟩
  · intro sub hs
    show (sub.tok : Nat) < s.next + 1
    rcases List.mem_append.1 hs with hs | hs
    · have := h.fresh sub hs; nomega
    · simp at hs; subst hs; simp
  · show ((s.live ++ [_]).map Sub.tok).Nodup
    rw [List.map_append]
    refine List.nodup_append.2 ⟨h.nodup, by simp, ?_⟩
    intro a ha b hb
    simp at hb; subst hb
    obtain ⟨sub, hs, rfl⟩ := List.mem_map.1 ha
    have h1 := h.fresh sub hs
    show sub.tok ≠ s.next
    nomega
  · intro k
    show ((Dispatcher.connectMany d.reg f name.kinds).1.cbs k).map (·.2) = (s.add f name temp).order k
    rw [view k, h.order k]
    simp only [Spec.add]
    by_cases c : k ∈ name.kinds ∧ f ∉ s.order k
    · rw [if_pos c, if_pos ((addCond_iff _ _ _ _).2 c)]
    · rw [if_neg c, if_neg (fun a => c ((addCond_iff _ _ _ _).1 a))]
  · intro k g
    show g ∈ (s.add f name temp).order k ↔ liveFor (s.live ++ [_]) g k = true
    rw [liveFor_append, Bool.or_eq_true, liveFor_single]
    simp only [Spec.add]
    have hs := h.sinv k
    by_cases c : k ∈ name.kinds ∧ f ∉ s.order k
    · rw [if_pos ((addCond_iff _ _ _ _).2 c)]
      simp only [List.mem_append, List.mem_singleton, hs g]
      constructor
      · rintro (a | a)
        · left; exact a
        · right; exact ⟨a.symm, c.1⟩
      · rintro (a | a)
        · left; exact a
        · right; exact a.1.symm
    · rw [if_neg (fun a => c ((addCond_iff _ _ _ _).1 a))]
      simp only [hs g]
      constructor
      · intro a; left; exact a
      · rintro (a | a)
        · exact a
        · have : f ∈ s.order k := Classical.byContradiction (fun hn => c ⟨a.2, hn⟩)
          rw [← a.1]
          exact (hs f).1 this

/-! ### unsubscribe -/

theorem liveFor_mono {l1 l2 : List Sub} (hsub : ∀ x ∈ l1, x ∈ l2) {f : Callable} {k : Sig}
    (h : liveFor l1 f k = true) : liveFor l2 f k = true := by
  rw [liveFor_iff] at h ⊢
  obtain ⟨sub, hs, a, b⟩ := h
  exact ⟨sub, hsub sub hs, a, b⟩

theorem unsubscribe_rel {ig : Bool} {d : Dispatcher} {s : Spec} (h : Rel ig d s) (tok : Token) :
    Rel ig (d.unsubscribe tok) (s.remove tok) := by
  -- names for the pieces of `unsubscribe`
  let keep : Sub → Bool := fun x => x.tok != tok
  let privs := (OD.find? d.tokenMap tok).getD []
  let tm' := OD.del d.tokenMap tok
  let inuse := tm'.flatMap (fun p => p.2)
  let guard : Cid → Bool := fun c => inuse.contains c
  have hun : d.unsubscribe tok =
      { d with reg := privs.foldl (fun r c => if guard c then r else r.disconnect c) d.reg, tokenMap := tm' } := by
    simp only [Dispatcher.unsubscribe, Generated.unsubScanAfterPop, Generated.unsubGuarded, if_true, Bool.true_and,
      privs, tm', inuse, guard]
  obtain ⟨wf', ig', _, view⟩ := Registry.foldl_disconnect d.reg h.wf guard privs
  have hlive' : (s.remove tok).live = s.live.filter keep := rfl
  have toks0 : Forall2 (Impl d.reg) (s.live.filter keep) tm' := by
    apply forall2_filter keep (fun p => p.1 != tok) h.toks
    intro a b hab
    simp only [keep, hab.1]
  have hkeys := forall2_keys h.toks
  -- (A) a private token is still in use iff a remaining subscription owns it
  have hA1 : ∀ c, c ∈ inuse → ∃ sub ∈ s.live.filter keep, ∃ k ∈ sub.name.kinds, (c, sub.f) ∈ d.reg.cbs k := by
    intro c hc
    obtain ⟨p, hp, hcp⟩ := List.mem_flatMap.1 hc
    obtain ⟨sub, hs, hi⟩ := forall2_right toks0 p hp
    obtain ⟨k, hk, hm⟩ := hi.cid hcp
    exact ⟨sub, hs, k, hk, hm⟩
  have hA2 : ∀ c g k, (c, g) ∈ d.reg.cbs k → liveFor (s.live.filter keep) g k = true → c ∈ inuse := by
    intro c g k hcg hl
    obtain ⟨sub, hs, hf, hk⟩ := (liveFor_iff _ _ _).1 hl
    obtain ⟨p, hp, hi⟩ := forall2_left toks0 sub hs
    obtain ⟨c', hc', hm⟩ := hi.covers hk
    rw [hf] at hm
    have : c' = c := h.wf.fn_unique hm hcg
    rw [← this]
    exact List.mem_flatMap.2 ⟨p, hp, hc'⟩
  -- (B) what survives in the callbacks dict is what the spec keeps
  have hB : ∀ k, ∀ p ∈ d.reg.cbs k,
      (!(decide (p.1 ∈ privs) && !guard p.1)) = liveFor (s.live.filter keep) p.2 k := by
    intro k p hp
    obtain ⟨c, g⟩ := p
    simp only [guard]
    by_cases hin : c ∈ inuse
    · have h1 : liveFor (s.live.filter keep) g k = true := by
        obtain ⟨sub, hs, k', hk', hm⟩ := hA1 c hin
        have e1 : k' = k := h.wf.uniq k' k c sub.f g hm hp
        subst e1
        have e2 : sub.f = g := h.wf.cid_unique hm hp
        exact (liveFor_iff _ _ _).2 ⟨sub, hs, e2, hk'⟩
      simp [hin, h1]
    · have h1 : liveFor (s.live.filter keep) g k = false := by
        cases hl : liveFor (s.live.filter keep) g k with
        | false => rfl
        | true => exact absurd (hA2 c g k hp hl) hin
      have h2 : c ∈ privs := by
        have hg : g ∈ s.order k := by rw [← h.order k]; exact List.mem_map.2 ⟨(c, g), hp, rfl⟩
        obtain ⟨sub, hs, hf, hk⟩ := (liveFor_iff _ _ _).1 ((h.sinv k g).1 hg)
        by_cases ht : sub.tok = tok
        · obtain ⟨q, hq, hi⟩ := forall2_left h.toks sub hs
          have hq' : (tok, q.2) ∈ d.tokenMap := by
            have : q = (tok, q.2) := by rw [← ht, ← hi.1]
            rw [← this]; exact hq
          have hnd : (d.tokenMap.map (·.1)).Nodup := by rw [hkeys]; exact h.nodup
          have hfind : OD.find? d.tokenMap tok = some q.2 := OD.find?_of_mem_nodup hnd hq'
          obtain ⟨c', hc', hm⟩ := hi.covers hk
          rw [hf] at hm
          have : c' = c := h.wf.fn_unique hm hp
          simp only [privs, hfind, Option.getD_some]
          rw [← this]; exact hc'
        · have hs' : sub ∈ s.live.filter keep := List.mem_filter.2 ⟨hs, by simp [keep, ht]⟩
          have : liveFor (s.live.filter keep) g k = true := (liveFor_iff _ _ _).2 ⟨sub, hs', hf, hk⟩
          rw [h1] at this
          exact absurd this (by simp)
      simp [hin, h1, h2]
  rw [hun]
  constructor
  · exact ig'.trans h.ig
  · exact h.counter
  · exact wf'
  · show Forall2 _ (s.live.filter keep) tm'
    apply forall2_imp_mem toks0
    intro sub p _ hp hi
    refine ⟨hi.1, forall2_imp_mem hi.2 ?_⟩
    intro k c _ hc hm
    show (c, sub.f) ∈ (privs.foldl _ d.reg).cbs k
    rw [view k]
    refine List.mem_filter.2 ⟨hm, ?_⟩
    have : c ∈ inuse := List.mem_flatMap.2 ⟨p, hp, hc⟩
    simp [guard, this]
  · intro sub hs
    exact h.fresh sub (List.mem_filter.1 hs).1
  · show ((s.live.filter keep).map Sub.tok).Nodup
    exact h.nodup.sublist (List.Sublist.map _ List.filter_sublist)
  · intro k
    show ((privs.foldl _ d.reg).cbs k).map (·.2) = (s.order k).filter (fun f => liveFor (s.live.filter keep) f k)
    rw [view k, ← h.order k, List.filter_map]
    congr 1
    apply List.filter_congr
    intro p hp
    exact hB k p hp
  · intro k g
    show g ∈ (s.order k).filter (fun f => liveFor (s.live.filter keep) f k) ↔ liveFor (s.live.filter keep) g k = true
    rw [List.mem_filter]
    constructor
    · intro a; exact a.2
    · intro a
      exact ⟨(h.sinv k g).2 (liveFor_mono (fun x hx => (List.mem_filter.1 hx).1) a), a⟩

end BlueskyVerif.Disp
