/-
Helper lemmas for C35 (`_ConditionalBackup`): closed form of one call of the GENERATED body, and the
log after an arbitrary run.
-/
import BlueskyVerif.IO.Backup

namespace BlueskyVerif.Backup

/-- one call of the generated `__call__` body, in closed form -/
def callSpec {α} (maxlen : Nat) (s : BState α) (x : α × Bool) : BState α :=
  let buf := appendBounded maxlen s.buffer x.1
  if s.flag || x.2 then { buffer := [], flag := true, log := s.log ++ buf, raised := false }
  else { buffer := buf, flag := false, log := s.log, raised := false }

theorem callOnce_eq {α} (maxlen : Nat) (s : BState α) (x : α × Bool) :
    callOnce maxlen s x = callSpec maxlen s x := by
  obtain ⟨doc, fails⟩ := x
  cases fails <;> cases hf : s.flag <;>
    simp [callOnce, callSpec, callBody, execList, exec, hf]

theorem lastN_of_le {α} (n : Nat) (l : List α) (h : l.length ≤ n) : lastN n l = l := by
  simp [lastN, Nat.sub_eq_zero_of_le h]

theorem lastN_singleton {α} (n : Nat) (x : α) (h : 1 ≤ n) : lastN n [x] = [x] :=
  lastN_of_le n [x] (by simpa using h)

theorem lastN_lastN_append {α} (n : Nat) (l : List α) (x : α) :
    lastN n (lastN n l ++ [x]) = lastN n (l ++ [x]) := by
  simp only [lastN, List.length_append, List.length_drop, List.length_cons, List.length_nil]
  by_cases h : l.length ≤ n
  · simp [Nat.sub_eq_zero_of_le h]
  · have h' : n < l.length := Nat.lt_of_not_le h
    rw [← List.drop_append_of_le_length (l₂ := [x]) (by omega), List.drop_drop]
    congr 1
    omega

/-- state before the first failure: nothing handed to the backups, the buffer holds the most recent
    `maxlen` documents -/
theorem run_quiet_buffer {α} (maxlen : Nat) :
    ∀ (p : List (α × Bool)) (pre : List α) (s : BState α), s.flag = false → s.buffer = lastN maxlen pre →
      (∀ x ∈ p, x.2 = false) →
      (p.foldl (callOnce maxlen) s).flag = false ∧ (p.foldl (callOnce maxlen) s).log = s.log ∧
        (p.foldl (callOnce maxlen) s).buffer = lastN maxlen (pre ++ p.map (·.1)) := by
  intro p
  induction p with
  | nil => intro pre s hs hb _; simpa using ⟨hs, hb⟩
  | cons x p ih =>
    intro pre s hs hb hp
    rw [List.foldl_cons]
    have hx : x.2 = false := hp x (by simp)
    have h1 : (callOnce maxlen s x).flag = false := by simp [callOnce_eq, callSpec, hs, hx]
    have h2 : (callOnce maxlen s x).log = s.log := by simp [callOnce_eq, callSpec, hs, hx]
    have h3 : (callOnce maxlen s x).buffer = lastN maxlen (pre ++ [x.1]) := by
      simp [callOnce_eq, callSpec, hs, hx, appendBounded, hb, lastN_lastN_append]
    obtain ⟨a, b, c⟩ := ih (pre ++ [x.1]) (callOnce maxlen s x) h1 h3 (fun y hy => hp y (by simp [hy]))
    refine ⟨a, by rw [b, h2], ?_⟩
    simpa using c

/-- after the first failure every further document goes straight to the backups -/
theorem run_pushing {α} (maxlen : Nat) (hm : 1 ≤ maxlen) :
    ∀ (rest : List (α × Bool)) (s : BState α), s.flag = true → s.buffer = [] →
      (rest.foldl (callOnce maxlen) s).log = s.log ++ rest.map (·.1) ∧
      (rest.foldl (callOnce maxlen) s).buffer = [] := by
  intro rest
  induction rest with
  | nil => intro s _ hb; simpa using hb
  | cons x rest ih =>
    intro s hs hb
    rw [List.foldl_cons]
    have h1 : (callOnce maxlen s x).flag = true := by simp [callOnce_eq, callSpec, hs]
    have h2 : (callOnce maxlen s x).buffer = [] := by simp [callOnce_eq, callSpec, hs]
    have h3 : (callOnce maxlen s x).log = s.log ++ [x.1] := by
      simp [callOnce_eq, callSpec, hs, hb, appendBounded, lastN_singleton maxlen x.1 hm]
    obtain ⟨a, b⟩ := ih (callOnce maxlen s x) h1 h2
    exact ⟨by rw [a, h3]; simp, b⟩

/-- the log after a run whose first primary failure is at document `d` (prefix `p` succeeds) -/
theorem log_after_failure {α} (maxlen : Nat) (hm : 1 ≤ maxlen) (p : List (α × Bool)) (d : α)
    (rest : List (α × Bool)) (hp : ∀ x ∈ p, x.2 = false) :
    (runAll maxlen (p ++ (d, true) :: rest)).log = lastN maxlen (p.map (·.1) ++ [d]) ++ rest.map (·.1) := by
  unfold runAll
  rw [List.foldl_append, List.foldl_cons]
  obtain ⟨a, b, c⟩ := run_quiet_buffer maxlen p [] ({} : BState α) rfl (by simp [lastN]) hp
  generalize p.foldl (callOnce maxlen) ({} : BState α) = s at a b c
  have h1 : (callOnce maxlen s (d, true)).flag = true := by simp [callOnce_eq, callSpec]
  have h2 : (callOnce maxlen s (d, true)).buffer = [] := by simp [callOnce_eq, callSpec]
  have h3 : (callOnce maxlen s (d, true)).log = lastN maxlen (p.map (·.1) ++ [d]) := by
    simp only [callOnce_eq, callSpec, Bool.or_true, if_true, b, appendBounded, c]
    simp [lastN_lastN_append]
  obtain ⟨x, _⟩ := run_pushing maxlen hm rest _ h1 h2
  rw [x, h3]

theorem log_without_failure {α} (maxlen : Nat) (p : List (α × Bool)) (hp : ∀ x ∈ p, x.2 = false) :
    (runAll maxlen p).log = [] := by
  obtain ⟨_, b, _⟩ := run_quiet_buffer maxlen p [] ({} : BState α) rfl (by simp [lastN]) hp
  exact b

end BlueskyVerif.Backup
