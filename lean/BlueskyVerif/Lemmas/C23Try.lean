/-
Lemmas/C23Try.lean -- message-level semantics of the cleanup wrappers: the drive of
`tryWrap cfg plan` (Gen/Wrappers.lean, no pause_for_debug) and of `finalizeClosure final plan`
(Gen/Paired.lean) as functions of the drives of their pieces -- exactly Python's
try / except / else / finally on traces.  Built on the phase machine of C22.
-/
import BlueskyVerif.Lemmas.C23Drive
import BlueskyVerif.Lemmas.C22
import BlueskyVerif.Gen.Paired

namespace BlueskyVerif.Gen
set_option linter.unusedSectionVars false

section
variable {M R V E : Type} [Inhabited R] [DecidableEq R] [Inhabited V] [PyExc E]

/-- continue from the result of a delegation step -/
def driveYf {V' : Type} [Inhabited V'] (c : Bool) : YfRes M R V' E → List (Inp R E) → Drv M R V' E
  | .yld m p, ins => driveGo c p m ins
  | .done v, ins => Drv.done (.ret v) ins
  | .raised e, ins => Drv.done (.exc e) ins

theorem driveYf_yfOfOut {V' : Type} [Inhabited V'] (c : Bool) (r : Out M V' E × Pos M R V' E)
    (ins : List (Inp R E)) : driveYf c (yfOfOut r) ins = driveOut c r ins := by
  rcases r with ⟨o, p⟩
  cases o <;> rfl

theorem drive_eq_driveYf {V' : Type} [Inhabited V'] (c : Bool) (b : Beh M R V' E) (ins : List (Inp R E)) :
    drive c b ins = driveYf c (yfStart (Pos.new b)) ins := by
  rw [yfStart, driveYf_yfOfOut]; rfl

/-- what `close()` reports, from the machine's answer to `throw GeneratorExit` -/
theorem closed_closeObs {σ : Type} (step : σ → Inp R E → Out M V E × σ) (r : Out M V E × σ) :
    (Stand.closed (closeObs r.1) : Stand R V E) = closeOf (mOut false step r []) := by
  rcases r with ⟨o, s⟩
  cases o with
  | yld m => simp [closeObs, mOut, mGo, closeOf]
  | ret v => simp [closeObs, mOut, Drv.done, closeOf]
  | raise e => simp [closeObs, mOut, Drv.done, closeOf]

/-- **Generic phase lemma.**  A machine that, in the states `Ph p`, delegates to the
    sub-generator `p` (`yield from`) and, when that ends, goes on as described by `K`. -/
theorem phase_lemma {σ V' : Type} [Inhabited V'] (step : σ → Inp R E → Out M V E × σ)
    (Ph : Pos M R V' E → σ) (onX : YfRes M R V' E → Out M V E × σ)
    (K : Bool → Pending V' E → List (Inp R E) → Drv M R V E)
    (h1 : ∀ p i, step (Ph p) i = onX (yfStep p i))
    (h2 : ∀ m p, onX (.yld m p) = (.yld m, Ph p))
    (h3 : ∀ c v ins, NoGenExit ins → mOut c step (onX (.done v)) ins = K c (.ret v) ins)
    (h4 : ∀ c e ins, NoGenExit ins → mOut c step (onX (.raised e)) ins = K c (.exc e) ins)
    (c : Bool) (ins : List (Inp R E)) (hn : NoGenExit ins) :
    ∀ (p : Pos M R V' E) (m : M), mGo c step (Ph p) m ins = (driveGo c p m ins).bind c K := by
  induction ins with
  | nil =>
    intro p m
    simp only [mGo, driveGo, h1, yfStep_genExit]
    cases c
    · rfl
    · simp only [↓reduceIte, Drv.bind]
      rw [closed_closeObs step, h4 false _ [] (by intro e he; cases he)]
  | cons i rest ih =>
    intro p m
    rw [mGo_cons, driveGo_cons, h1, yfStep_of_noGenExit p i (fun e he => hn e (by simp [he]))]
    rcases p.resume i with ⟨o, p'⟩
    cases o with
    | yld m' => simp [yfOfOut, h2, mOut, driveOut, ih hn.tail]
    | ret v => simp [yfOfOut, driveOut, h3 c v rest hn.tail]
    | raise e => simp [yfOfOut, driveOut, h4 c e rest hn.tail]

/-- ... from a delegation result -/
theorem phase_lemma_yf {σ V' : Type} [Inhabited V'] (step : σ → Inp R E → Out M V E × σ)
    (Ph : Pos M R V' E → σ) (onX : YfRes M R V' E → Out M V E × σ)
    (K : Bool → Pending V' E → List (Inp R E) → Drv M R V E)
    (h1 : ∀ p i, step (Ph p) i = onX (yfStep p i))
    (h2 : ∀ m p, onX (.yld m p) = (.yld m, Ph p))
    (h3 : ∀ c v ins, NoGenExit ins → mOut c step (onX (.done v)) ins = K c (.ret v) ins)
    (h4 : ∀ c e ins, NoGenExit ins → mOut c step (onX (.raised e)) ins = K c (.exc e) ins)
    (c : Bool) (ins : List (Inp R E)) (hn : NoGenExit ins) (r : YfRes M R V' E) :
    mOut c step (onX r) ins = (driveYf c r ins).bind c K := by
  cases r with
  | yld m p => rw [h2]; exact phase_lemma step Ph onX K h1 h2 h3 h4 c ins hn p m
  | done v => simp [driveYf, h3 c v ins hn]
  | raised e => simp [driveYf, h4 c e ins hn]

/-! ### tryWrap without pause_for_debug -/

variable (cfg : TryCfg M R V E)

/-- the `finally` block is reached on `path` -/
def finK (c : Bool) (path : Path V E) (rest : List (Inp R E)) : Drv M R V E :=
  match cfg.finalPlan with
  | none => Drv.done (path.pending cfg.autoRaise) rest
  | some f => (drive c f rest).bind c fun _ o' rest' =>
      Drv.done ((DoneInfo.final path o').result cfg.autoRaise) rest'

/-- the handler block is entered with `e` -/
def excK (c : Bool) (e : E) (rest : List (Inp R E)) : Drv M R V E :=
  match cfg.exceptPlan with
  | none => finK cfg c (.handled e none none) rest
  | some xp => (drive c (xp e) rest).bind c fun c' o' rest' =>
      finK cfg c' (.handled e none (some o')) rest'

/-- the wrapped plan ended with `o` -/
def bodyK (c : Bool) (o : Pending V E) (rest : List (Inp R E)) : Drv M R V E :=
  match o with
  | .ret v =>
    match cfg.elsePlan with
    | none => finK cfg c (.ret v) rest
    | some ep => (drive c ep rest).bind c fun c' o' rest' => finK cfg c' (.retElse v o') rest'
  | .exc e =>
    match dispatch cfg.clauses e with
    | .closed => Drv.done (.exc e) rest
    | .handled => excK cfg c e rest
    | .uncaught => finK cfg c (.uncaught e) rest

variable (plan : Beh M R V E)

theorem mOut_tryFinish (c : Bool) (log : List (Ev V E)) (d : DoneInfo V E) (ins : List (Inp R E)) :
    mOut c (tryStep cfg plan) (tryFinish cfg log d) ins = Drv.done (d.result cfg.autoRaise) ins := by
  unfold tryFinish
  cases d.result cfg.autoRaise <;> simp [Pending.toOut, mOut]

theorem mOut_onFinal (c : Bool) (log : List (Ev V E)) (path : Path V E) (ins : List (Inp R E))
    (hn : NoGenExit ins) (r : YfRes M R V E) :
    mOut c (tryStep cfg plan) (onFinal cfg log path r) ins
      = (driveYf c r ins).bind c fun _ o' rest' =>
          Drv.done ((DoneInfo.final path o').result cfg.autoRaise) rest' := by
  -- the log is not constant along the phase; strip it by generalising the phase lemma over it
  suffices h : ∀ (log : List (Ev V E)), mOut c (tryStep cfg plan) (onFinal cfg log path r) ins
      = (driveYf c r ins).bind c fun _ o' rest' =>
          Drv.done ((DoneInfo.final path o').result cfg.autoRaise) rest' from h log
  intro log
  exact phase_lemma_yf (tryStep cfg plan) (fun p => ⟨.fin path p, log⟩) (onFinal cfg log path) _
    (fun p i => rfl) (fun m p => rfl)
    (fun c v ins _ => by simp [onFinal, mOut_tryFinish])
    (fun c e ins _ => by simp [onFinal, mOut_tryFinish])
    c ins hn r

theorem mOut_enterFinal (c : Bool) (log : List (Ev V E)) (path : Path V E) (ins : List (Inp R E))
    (hn : NoGenExit ins) :
    mOut c (tryStep cfg plan) (enterFinal cfg log path) ins = finK cfg c path ins := by
  unfold enterFinal finK
  cases hf : cfg.finalPlan with
  | none => simp [mOut_tryFinish, DoneInfo.result]
  | some f => simp only []; rw [mOut_onFinal cfg plan c _ path ins hn, drive_eq_driveYf]

theorem mOut_onExcept (c : Bool) (log : List (Ev V E)) (e : E) (ins : List (Inp R E))
    (hn : NoGenExit ins) (r : YfRes M R V E) :
    mOut c (tryStep cfg plan) (onExcept cfg log e none r) ins
      = (driveYf c r ins).bind c fun c' o' rest' => finK cfg c' (.handled e none (some o')) rest' := by
  exact phase_lemma_yf (tryStep cfg plan) (fun p => ⟨.exc e none p, log⟩) (onExcept cfg log e none) _
    (fun p i => rfl) (fun m p => rfl)
    (fun c v ins hn => by simp [onExcept, mOut_enterFinal cfg plan c _ _ ins hn])
    (fun c x ins hn => by simp [onExcept, mOut_enterFinal cfg plan c _ _ ins hn])
    c ins hn r

theorem mOut_enterExcept (c : Bool) (log : List (Ev V E)) (e : E) (ins : List (Inp R E))
    (hn : NoGenExit ins) :
    mOut c (tryStep cfg plan) (enterExcept cfg log e none) ins = excK cfg c e ins := by
  unfold enterExcept excK
  cases hx : cfg.exceptPlan with
  | none => simp [mOut_enterFinal cfg plan c _ _ ins hn]
  | some xp => simp only []; rw [mOut_onExcept cfg plan c _ e ins hn, drive_eq_driveYf]

theorem mOut_onElse (c : Bool) (log : List (Ev V E)) (v : V) (ins : List (Inp R E))
    (hn : NoGenExit ins) (r : YfRes M R V E) :
    mOut c (tryStep cfg plan) (onElse cfg log v r) ins
      = (driveYf c r ins).bind c fun c' o' rest' => finK cfg c' (.retElse v o') rest' := by
  exact phase_lemma_yf (tryStep cfg plan) (fun p => ⟨.els v p, log⟩) (onElse cfg log v) _
    (fun p i => rfl) (fun m p => rfl)
    (fun c u ins hn => by simp [onElse, mOut_enterFinal cfg plan c _ _ ins hn])
    (fun c x ins hn => by simp [onElse, mOut_enterFinal cfg plan c _ _ ins hn])
    c ins hn r

theorem mOut_onBody (hp : cfg.pausePlan = none) (c : Bool) (log : List (Ev V E))
    (ins : List (Inp R E)) (hn : NoGenExit ins) (r : YfRes M R V E) :
    mOut c (tryStep cfg plan) (onBody cfg log r) ins = (driveYf c r ins).bind c (bodyK cfg) := by
  refine phase_lemma_yf (tryStep cfg plan) (fun p => ⟨.body p, log⟩) (onBody cfg log) _
    (fun p i => rfl) (fun m p => rfl) ?_ ?_ c ins hn r
  · intro c v ins hn
    simp only [onBody, bodyK]
    cases he : cfg.elsePlan with
    | none => simp [mOut_enterFinal cfg plan c _ _ ins hn]
    | some ep => simp only []; rw [mOut_onElse cfg plan c _ v ins hn, drive_eq_driveYf]
  · intro c e ins hn
    simp only [onBody, bodyK]
    cases hd : dispatch cfg.clauses e with
    | closed => simp [mOut_tryFinish, DoneInfo.result]
    | handled => simp [enterHandler, hp, mOut_enterExcept cfg plan c _ e ins hn]
    | uncaught => simp [mOut_enterFinal cfg plan c _ _ ins hn]

/-- **Message-level semantics of the try statement wrappers** (no pause_for_debug): the wrapper
    yields the wrapped plan's messages while it runs; when it ends with `o`, what follows is
    `bodyK cfg c o rest` -- else / except / final plans driven with the remaining inputs. -/
theorem drive_tryWrap (hp : cfg.pausePlan = none) (c : Bool) (ins : List (Inp R E))
    (hn : NoGenExit ins) :
    drive c (tryWrap cfg plan) ins = (drive c plan ins).bind c (bodyK cfg) := by
  unfold tryWrap
  rw [drive_machine]
  simp only [tryStep]
  rw [mOut_onBody cfg plan hp c _ ins hn, drive_eq_driveYf]

end

/-! ### finalizeClosure -/

section
variable {M R V E : Type} [Inhabited R] [DecidableEq R] [Inhabited V] [PyExc E]

/-- sequencing where the continuation also sees the inputs the sub-generator has consumed
    (`pre` = those consumed before this drive started) -/
def Drv.bindH {W : Type} (c : Bool) (pre ins : List (Inp R E)) (d : Drv M R V E)
    (k : List (Inp R E) → Bool → Pending V E → List (Inp R E) → Drv M R W E) : Drv M R W E :=
  match d.stand with
  | .alive => ⟨d.msgs, .alive⟩
  | .closed r =>
    ⟨d.msgs, closeOf (k (pre ++ ins ++ [.throw PyExc.genExit]) false (.exc (r.getD PyExc.genExit)) [])⟩
  | .ended o rest => Drv.pre d.msgs (k (pre ++ ins.take d.msgs.length) c o rest)

/-- the `finally` block of finalize_wrapper: the final plan, then the pending outcome -/
def fcFinK (f : Beh M R V E) (pend : Pending V E) (c : Bool) (rest : List (Inp R E)) : Drv M R V E :=
  (drive c f rest).bind c fun _ o' rest' =>
    match o' with
    | .ret _ => Drv.done pend rest'
    | .exc x => Drv.done (.exc x) rest'

/-- the wrapped plan of finalize_wrapper ended with `o`, having consumed `used` -/
def fcK (final : List (Inp R E) → Beh M R V E) (used : List (Inp R E)) (c : Bool) (o : Pending V E)
    (rest : List (Inp R E)) : Drv M R V E :=
  match o with
  | .ret v => fcFinK (final used) (.ret v) c rest
  | .exc e =>
    match dispatch Generated.fwClauses e with
    | .closed => Drv.done (.exc e) rest
    | _ => fcFinK (final used) (.exc e) c rest

variable (final : List (Inp R E) → Beh M R V E) (plan : Beh M R V E)

theorem mOut_fcOnFinal (pend : Pending V E) (c : Bool) (ins : List (Inp R E)) (hn : NoGenExit ins)
    (r : YfRes M R V E) :
    mOut c (fcStep final plan) (fcOnFinal pend r) ins
      = (driveYf c r ins).bind c fun _ o' rest' =>
          match o' with
          | .ret _ => Drv.done pend rest'
          | .exc x => Drv.done (.exc x) rest' := by
  exact phase_lemma_yf (fcStep final plan) (fun p => .fin pend p) (fcOnFinal pend) _
    (fun p i => rfl) (fun m p => rfl)
    (fun c v ins _ => by cases pend <;> simp [fcOnFinal, Pending.toOut, mOut])
    (fun c e ins _ => by simp [fcOnFinal, mOut])
    c ins hn r

theorem mOut_fcOnBody_end (used : List (Inp R E)) (c : Bool) (ins : List (Inp R E))
    (hn : NoGenExit ins) (o : Pending V E) :
    mOut c (fcStep final plan)
        (fcOnBody final used (match o with | .ret v => .done v | .exc e => .raised e)) ins
      = fcK final used c o ins := by
  cases o with
  | ret v =>
    simp only [fcOnBody, fcK, fcFinK]
    rw [mOut_fcOnFinal final plan _ c ins hn, drive_eq_driveYf]
  | exc e =>
    simp only [fcOnBody, fcK, fcFinK]
    cases hd : dispatch Generated.fwClauses e with
    | closed => simp [mOut]
    | handled => simp only []; rw [mOut_fcOnFinal final plan _ c ins hn, drive_eq_driveYf]
    | uncaught => simp only []; rw [mOut_fcOnFinal final plan _ c ins hn, drive_eq_driveYf]

theorem resume_hist_live (p : Pos M R V E) (hl : p.status = .live) (i : Inp R E) :
    (p.resume i).2.hist = p.hist ++ [i] := by
  rw [resume_live p hl]; rfl

theorem mGo_fc_body (c : Bool) (ins : List (Inp R E)) (hn : NoGenExit ins) :
    ∀ (pre : List (Inp R E)) (p : Pos M R V E) (m : M), p.status = .live →
      (∃ i0, p.hist = i0 :: pre) →
      mGo c (fcStep final plan) (.body p) m ins
        = (driveGo c p m ins).bindH c pre ins (fcK final) := by
  induction ins with
  | nil =>
    intro pre p m hl ⟨i0, hp0⟩
    have hpre : p.hist.tail = pre := by rw [hp0]; rfl
    simp only [mGo, driveGo, fcStep, yfStep_genExit]
    cases c
    · rfl
    · simp only [↓reduceIte, Drv.bindH, List.append_nil]
      rw [closed_closeObs (fcStep final plan), hpre]
      have := mOut_fcOnBody_end final plan (pre ++ [.throw PyExc.genExit]) false []
        (by intro e he; cases he) (.exc (p.close.1.getD PyExc.genExit))
      simp only at this
      rw [this]
  | cons i rest ih =>
    intro pre p m hl ⟨i0, hp0⟩
    have hpre : p.hist.tail = pre := by rw [hp0]; rfl
    rw [mGo_cons, driveGo_cons]
    simp only [fcStep]
    rw [yfStep_of_noGenExit p i (fun e he => hn e (by simp [he])), hpre]
    have hh := resume_hist_live p hl i
    have hst := resume_live_status p hl i
    rcases hr : p.resume i with ⟨o, p'⟩
    rw [hr] at hh hst
    cases o with
    | yld m' =>
      have hl' : p'.status = .live := by simpa [Out.isYld] using hst
      have hpre' : ∃ i0, p'.hist = i0 :: (pre ++ [i]) := ⟨i0, by simp only at hh; rw [hh, hp0]; rfl⟩
      have := ih hn.tail (pre ++ [i]) p' m' hl' hpre'
      simp only [yfOfOut, fcOnBody, mOut, driveOut, this]
      simp [Drv.bindH, Drv.cons, Drv.pre, List.take_succ_cons]
      rcases (driveGo c p' m' rest).stand with _ | r | ⟨o, rest'⟩ <;> simp
    | ret v =>
      have := mOut_fcOnBody_end final plan (pre ++ [i]) c rest hn.tail (.ret v)
      simp only at this
      simp [yfOfOut, driveOut, this, Drv.bindH, Drv.done, Drv.cons, Drv.pre]
    | raise e =>
      have := mOut_fcOnBody_end final plan (pre ++ [i]) c rest hn.tail (.exc e)
      simp only at this
      simp [yfOfOut, driveOut, this, Drv.bindH, Drv.done, Drv.cons, Drv.pre]

/-- **Message-level semantics of finalize_wrapper with a closure-reading final plan.** -/
theorem drive_finalizeClosure (c : Bool) (ins : List (Inp R E)) (hn : NoGenExit ins) :
    drive c (finalizeClosure final plan) ins = (drive c plan ins).bindH c [] ins (fcK final) := by
  unfold finalizeClosure
  rw [drive_machine]
  simp only [fcStep]
  unfold drive yfStart
  have h1 : (Pos.new plan).resume (.send default) = (Pos.new plan).advance (.send default) := by
    simp [Pos.resume, Pos.new]
  rw [h1]
  rcases hr : (Pos.new plan).advance (.send default) with ⟨o, p⟩
  have hh : p.hist = [.send default] := by
    have := congrArg (fun x => x.2.hist) hr; simpa [Pos.advance, Pos.new] using this.symm
  have hst : p.status = if o.isYld then .live else .dead := by
    have h2 := congrArg (fun x => x.2.status) hr
    have h3 := congrArg (fun x => x.1) hr
    simp only [Pos.advance] at h2 h3
    rw [← h2, h3]
  cases o with
  | yld m =>
    simp only [yfOfOut, fcOnBody, mOut, driveOut]
    exact mGo_fc_body final plan c ins hn [] p m (by simpa [Out.isYld] using hst) ⟨_, hh⟩
  | ret v =>
    have := mOut_fcOnBody_end final plan [] c ins hn (.ret v)
    simp only at this
    simp [yfOfOut, driveOut, this, Drv.bindH, Drv.done, Drv.pre]
  | raise e =>
    have := mOut_fcOnBody_end final plan [] c ins hn (.exc e)
    simp only at this
    simp [yfOfOut, driveOut, this, Drv.bindH, Drv.done, Drv.pre]

/-- when the final plan does not depend on the closure, `bindH` is `bind` -/
theorem bindH_const {W : Type} (c : Bool) (pre ins : List (Inp R E)) (d : Drv M R V E)
    (k : Bool → Pending V E → List (Inp R E) → Drv M R W E) :
    d.bindH c pre ins (fun _ => k) = d.bind c k := by
  rcases d with ⟨ms, st⟩
  rcases st with _ | r | ⟨o, rest⟩ <;> rfl

/-! ### `close()` never reports a GeneratorExit -/

theorem driveGo_closed_not_genExit (c : Bool) (ins : List (Inp R E)) :
    ∀ (p : Pos M R V E) (m : M) (x : E), (driveGo c p m ins).stand = .closed (some x) →
      isGenExit x = false := by
  induction ins with
  | nil =>
    intro p m x h
    cases c
    · simp [driveGo] at h
    · simp only [driveGo, ↓reduceIte, Stand.closed.injEq] at h
      exact close_some_not_genExit p x h
  | cons i rest ih =>
    intro p m x h
    rw [driveGo_cons] at h
    generalize p.resume i = r at h
    rcases r with ⟨o, p'⟩
    cases o with
    | yld m' => exact ih p' m' x (by simpa [driveOut, Drv.cons] using h)
    | ret v => simp [driveOut, Drv.cons, Drv.done] at h
    | raise e => simp [driveOut, Drv.cons, Drv.done] at h

theorem drive_closed_not_genExit (c : Bool) (b : Beh M R V E) (ins : List (Inp R E)) (x : E)
    (h : (drive c b ins).stand = .closed (some x)) : isGenExit x = false := by
  unfold drive at h
  generalize (Pos.new b).resume (.send default) = r at h
  rcases r with ⟨o, p⟩
  cases o with
  | yld m => exact driveGo_closed_not_genExit c ins p m x (by simpa [driveOut] using h)
  | ret v => simp [driveOut, Drv.done] at h
  | raise e => simp [driveOut, Drv.done] at h

/-- a continuation that only converts the return value (`v = yield from g; return f(v)`) -/
def retK {W : Type} (f : V → W) : Bool → Pending V E → List (Inp R E) → Drv M R W E :=
  fun _ o rest => Drv.done (match o with | .ret v => .ret (f v) | .exc e => .exc e) rest

theorem bindK_pure {W : Type} [Inhabited W] (f : V → W) :
    bindK (fun v => (Beh.pure (f v) : Beh M R W E)) = retK f := by
  funext c o rest
  cases o <;> simp [bindK, retK, drive_pure]

theorem Drv.bind_pre {W : Type} (c : Bool) (ms : List M) (d : Drv M R V E)
    (k : Bool → Pending V E → List (Inp R E) → Drv M R W E) :
    (Drv.pre ms d).bind c k = Drv.pre ms (d.bind c k) := by
  rcases d with ⟨ms', st⟩
  rcases st with _ | r | ⟨o, rest⟩ <;> simp [Drv.bind, Drv.pre]

/-- a generator that delegates to an inner generator (`d` then `k1`) and then only converts the
    result is, on traces, the inner generator with the conversion appended -/
theorem Drv.bind_retK {U W : Type} (c : Bool) (d : Drv M R U E)
    (k1 : Bool → Pending U E → List (Inp R E) → Drv M R V E) (f : V → W) :
    (d.bind c k1).bind c (retK f) = d.bind c (fun c' o rest => (k1 c' o rest).bind c' (retK f)) := by
  rcases d with ⟨ms, st⟩
  rcases st with _ | r | ⟨o, rest⟩
  · rfl
  · simp only [Drv.bind]
    generalize k1 false (Pending.exc (r.getD PyExc.genExit)) [] = d1
    rcases d1 with ⟨ms1, st1⟩
    cases ms1 with
    | cons m1 t =>
      have hci : isGenExit (PyExc.closeIgnored : E) = false :=
        PyExc.exception_not_genExit _ PyExc.closeIgnored_isException
      rcases st1 with _ | r1 | ⟨o1, rest1⟩ <;>
        simp [closeOf, retK, Drv.done, Drv.bind, Drv.pre, hci]
    | nil =>
      rcases st1 with _ | r1 | ⟨o1, rest1⟩
      · simp [closeOf, retK, Drv.done, Drv.bind, PyExc.genExit_isGenExit]
      · simp [closeOf, retK, Drv.done, Drv.bind, PyExc.genExit_isGenExit]
      · cases o1 with
        | ret v => simp [closeOf, retK, Drv.done, Drv.bind, Drv.pre, PyExc.genExit_isGenExit]
        | exc e =>
          by_cases hg : isGenExit e = true <;>
            simp [closeOf, retK, Drv.done, Drv.bind, Drv.pre, PyExc.genExit_isGenExit, hg]
  · show (Drv.pre ms (k1 c o rest)).bind c (retK f) = _
    rw [Drv.bind_pre]; rfl

/-- `return (yield from g)` is `g` -/
theorem drive_retFrom (c : Bool) (g : Beh M R V E) (ins : List (Inp R E)) (hn : NoGenExit ins) :
    drive c (Beh.retFrom g) ins = drive c g ins := by
  unfold Beh.retFrom
  rw [drive_bind c g Beh.pure ins hn]
  have hw := drive_closed_not_genExit c g ins
  generalize drive c g ins = d at hw
  rcases d with ⟨ms, st⟩
  rcases st with _ | r | ⟨o, rest⟩
  · rfl
  · cases r with
    | none => simp [Drv.bind, bindK, closeOf, Drv.done, PyExc.genExit_isGenExit]
    | some x => simp [Drv.bind, bindK, closeOf, Drv.done, hw x rfl]
  · cases o <;> simp [Drv.bind, bindK, drive_pure, Drv.done, Drv.pre]

end

/-! ### `finalizeClosure` with a closure-independent final plan IS `finalizeWrapper` -/

section
variable {M R V E : Type} [Inhabited R] [DecidableEq R] [Inhabited V] [PyExc E]

theorem ofMachine_eq_of_rel {σ τ : Type} (s1 : σ → Inp R E → Out M V E × σ)
    (s2 : τ → Inp R E → Out M V E × τ) (Rel : σ → τ → Prop)
    (hstep : ∀ a b i, Rel a b → (s1 a i).1 = (s2 b i).1 ∧ Rel (s1 a i).2 (s2 b i).2)
    (a0 : σ) (b0 : τ) (h0 : Rel a0 b0) : Beh.ofMachine s1 a0 = Beh.ofMachine s2 b0 := by
  funext hist
  have key : ∀ (hist : List (Inp R E)) (x : Out M V E × σ) (y : Out M V E × τ),
      x.1 = y.1 → Rel x.2 y.2 →
      (hist.foldl (fun acc i => s1 acc.2 i) x).1 = (hist.foldl (fun acc i => s2 acc.2 i) y).1 := by
    intro hist
    induction hist with
    | nil => intro x y h _; exact h
    | cons i hist ih =>
      intro x y _ hr
      exact ih _ _ (hstep _ _ i hr).1 (hstep _ _ i hr).2
  exact key hist _ _ rfl h0

/-- the correspondence of program points -/
def FCRel : FCPh M R V E → TrySt M R V E → Prop
  | .init, t => t.ph = .init
  | .body p, t => t.ph = .body p
  | .fin pend p, t => ∃ path, t.ph = .fin path p ∧ path.pending true = pend
  | .done, t => ∃ d, t.ph = .done d

theorem finalizeClosure_const (pause f plan : Beh M R V E) :
    finalizeClosure (fun _ => f) plan = finalizeWrapper pause false f plan := by
  unfold finalizeClosure finalizeWrapper tryWrap
  refine ofMachine_eq_of_rel _ _ FCRel ?_ .init ⟨.init, []⟩ rfl
  have hfin : ∀ (pend : Pending V E) (path : Path V E) (log : List (Ev V E)) (r : YfRes M R V E)
      (cfg : TryCfg M R V E), cfg.autoRaise = true → path.pending true = pend →
      (fcOnFinal pend r).1 = (onFinal cfg log path r).1 ∧
        FCRel (fcOnFinal pend r).2 (onFinal cfg log path r).2 := by
    intro pend path log r cfg har hp
    cases r with
    | yld m p => exact ⟨rfl, path, rfl, hp⟩
    | done u => simp [fcOnFinal, onFinal, tryFinish, DoneInfo.result, har, hp, FCRel]
    | raised x => simp [fcOnFinal, onFinal, tryFinish, DoneInfo.result, Pending.toOut, FCRel]
  have hbody : ∀ (used : List (Inp R E)) (log : List (Ev V E)) (r : YfRes M R V E),
      (fcOnBody (fun _ => f) used r).1 =
        (onBody { clauses := Generated.fwClauses, pausePlan := none, exceptPlan := none,
                  autoRaise := true, elsePlan := none, finalPlan := some f } log r).1 ∧
      FCRel (fcOnBody (fun _ => f) used r).2
        (onBody { clauses := Generated.fwClauses, pausePlan := none, exceptPlan := none,
                  autoRaise := true, elsePlan := none, finalPlan := some f } log r).2 := by
    intro used log r
    cases r with
    | yld m p => exact ⟨rfl, rfl⟩
    | done v =>
      simp only [fcOnBody, onBody, enterFinal]
      exact hfin _ _ _ _ _ rfl rfl
    | raised e =>
      simp only [fcOnBody, onBody]
      cases hd : dispatch Generated.fwClauses e with
      | closed => simp [tryFinish, DoneInfo.result, Pending.toOut, FCRel]
      | handled =>
        simp only [enterHandler, enterExcept, enterFinal]
        exact hfin _ _ _ _ _ rfl rfl
      | uncaught =>
        simp only [enterFinal]
        exact hfin _ _ _ _ _ rfl rfl
  intro a b i hr
  rcases b with ⟨ph, log⟩
  cases a with
  | init =>
    simp only [FCRel] at hr; subst hr
    simp only [fcStep, tryStep, Bool.false_eq_true, ↓reduceIte]
    exact hbody _ _ _
  | body p =>
    simp only [FCRel] at hr; subst hr
    simp only [fcStep, tryStep, Bool.false_eq_true, ↓reduceIte]
    exact hbody _ _ _
  | fin pend p =>
    obtain ⟨path, h1, h2⟩ := hr
    simp only at h1; subst h1
    simp only [fcStep, tryStep]
    exact hfin _ _ _ _ _ rfl h2
  | done =>
    obtain ⟨d, h1⟩ := hr
    simp only at h1; subst h1
    exact ⟨rfl, d, rfl⟩

end
end BlueskyVerif.Gen
