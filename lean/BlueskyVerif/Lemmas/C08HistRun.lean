/-
C08 helper lemmas: the history invariant `J` (Lemmas/C08Hist.lean) through the blocks of `_run`, through
`advance`, the requests and the scheduler.
-/
import BlueskyVerif.Lemmas.C08Hist

namespace BlueskyVerif.Engine

section
variable {bt : List (St × St)} {nr : Nat}

/-- when the engine is not paused, `J` does not depend on the permit or on the program counter -/
theorem J.of_core {a b : EState} (h1 : a.state = b.state) (h2 : a.interrupted = b.interrupted)
    (h5 : a.trans = b.trans) (h6 : a.refused = b.refused) (hs : b.state ≠ .paused) (hb : J bt nr b) : J bt nr a := by
  obtain ⟨⟨l, hl⟩, b2, _, b4⟩ := hb
  refine ⟨⟨l, h5.trans hl⟩, h6 ▸ b2, ?_, ?_⟩
  · intro hp; rw [h1] at hp; exact absurd hp hs
  · intro hi
    rcases b4 (h2 ▸ hi) with he | hst | ⟨hst, _⟩
    · exact Or.inl (he.mono ⟨⟨[], by rw [h5]; simp⟩, by rw [h6]; exact Nat.le_refl _⟩)
    · exact Or.inr (Or.inl (h1.trans hst))
    · exact absurd hst hs

/-- moving the program counter is harmless unless the engine is paused with the permit cleared -/
theorem J.move {a b : EState} (h1 : a.state = b.state) (h2 : a.interrupted = b.interrupted) (h3 : a.permit = b.permit)
    (h5 : a.trans = b.trans) (h6 : a.refused = b.refused) (hnp : ¬ (b.state = .paused ∧ b.permit = false))
    (hpc : a.pc = .exitSleep ∨ a.pc = .finished) (hb : J bt nr b) : J bt nr a := by
  obtain ⟨⟨l, hl⟩, b2, _, b4⟩ := hb
  refine ⟨⟨l, h5.trans hl⟩, h6 ▸ b2, ?_, ?_⟩
  · intro hp
    refine ⟨?_, fun hq => absurd ⟨h1 ▸ hp, h3 ▸ hq⟩ hnp⟩
    rcases hpc with hpc | hpc
    · exact Or.inr (Or.inl hpc)
    · exact Or.inr (Or.inr hpc)
  · intro hi
    rcases b4 (h2 ▸ hi) with he | hst | hp
    · exact Or.inl (he.mono ⟨⟨[], by rw [h5]; simp⟩, by rw [h6]; exact Nat.le_refl _⟩)
    · exact Or.inr (Or.inl (h1.trans hst))
    · exact absurd hp hnp

def L (bt : List (St × St)) (nr : Nat) (s : EState) : Prop := J bt nr s ∧ s.state ≠ .paused

theorem L.of_same {a b : EState} (h : SameJ a b) (hb : L bt nr b) : L bt nr a :=
  ⟨hb.1.of_same h, by rw [h.1]; exact hb.2⟩

def Flow.H (bt : List (St × St)) (nr : Nat) : Flow → Prop
  | .loopTop s => L bt nr s
  | .stop s => J bt nr s

theorem leaveLoop_keepJ (s : EState) (e : Exc) :
    (leaveLoop s e).state = s.state ∧ (leaveLoop s e).interrupted = s.interrupted ∧
    (leaveLoop s e).permit = s.permit ∧ (leaveLoop s e).trans = s.trans ∧ (leaveLoop s e).refused = s.refused := by
  cases e <;> exact ⟨rfl, rfl, rfl, rfl, rfl⟩

theorem leaveLoop_J (s : EState) (e : Exc) (hj : J bt nr s) (hnp : ¬ (s.state = .paused ∧ s.permit = false)) :
    J bt nr (leaveLoop s e) := by
  obtain ⟨k1, k2, k3, k4, k5⟩ := leaveLoop_keepJ s e
  have hpc : (leaveLoop s e).pc = .exitSleep ∨ (leaveLoop s e).pc = .finished := by
    cases e <;> first | exact Or.inl rfl | exact Or.inr rfl
  exact hj.move k1 k2 k3 k4 k5 hnp hpc

theorem L.notPausedPermit {s : EState} (h : L bt nr s) : ¬ (s.state = .paused ∧ s.permit = false) :=
  fun hp => h.2 hp.1

theorem fin_sameJ (s : EState) (r : Resp) : SameJ (fin s r) s := by
  unfold fin; split <;> exact SameJ.refl _

theorem noteMsg_sameJ (s : EState) (m : Msg) : SameJ (noteMsg s m) s :=
  ⟨by unfold noteMsg; frame_be, by unfold noteMsg; frame_be, by unfold noteMsg; frame_be, by unfold noteMsg; frame_be,
   by unfold noteMsg; frame_be, by unfold noteMsg; frame_be⟩

theorem takeResp_sameJ (s : EState) (r : Resp) (rs : List Resp) : SameJ (takeResp s r rs) s :=
  ⟨by unfold takeResp; frame_be, by unfold takeResp; frame_be, by unfold takeResp; frame_be, by unfold takeResp; frame_be,
   by unfold takeResp; frame_be, by unfold takeResp; frame_be⟩

theorem logYield_sameJ (s : EState) (g : Gen) (i : Inp) : SameJ (logYield s g i) s :=
  ⟨by unfold logYield; frame_be, by unfold logYield; frame_be, by unfold logYield; frame_be, by unfold logYield; frame_be,
   by unfold logYield; frame_be, by unfold logYield; frame_be⟩

theorem runCommand_L (s : EState) (m : Msg) (h : L bt nr s) : L bt nr (runCommand s m).1 := by
  by_cases hp : m.cmd = "pause"
  · cases hr : requestPause s m.flag with
    | ok s' =>
      rw [runCommand_pause_ok s s' m hp hr]
      obtain ⟨j, hs⟩ := requestPause_J hr h.1
      exact ⟨j, hs h.2⟩
    | error e => rw [runCommand_pause_err s m e hp hr]; exact h
  · exact L.of_same ⟨(runCommand_st s m).resolve_right hp, (runCommand_ir s m).resolve_right hp,
      (runCommand_pm s m).resolve_right hp, (runCommand_pc s m).resolve_right hp,
      (runCommand_tr s m).resolve_right hp, (runCommand_rf s m).resolve_right hp⟩ h

theorem popPlan_H (s : EState) (how : Option Exc) (h : L bt nr s) : (popPlan s how).H bt nr := by
  unfold popPlan; simp only []
  split
  · exact leaveLoop_J _ _ h.1 h.notPausedPermit
  · split <;> exact h

theorem afterCommand_H (m : Msg) (p : EState × CmdOut) (h : L bt nr p.1) : (afterCommand m p).H bt nr := by
  obtain ⟨s, o⟩ := p
  cases o with
  | value r => exact L.of_same (fin_sameJ s r) h
  | raised e => exact L.of_same (fin_sameJ s _) h
  | suspend pc => exact J.of_core (b := s) rfl rfl rfl rfl h.2 h.1

theorem processMsg_H (s : EState) (m : Msg) (h : L bt nr s) : (processMsg s m).H bt nr := by
  unfold processMsg
  simp only []
  have hn : L bt nr (noteMsg s m) := L.of_same (noteMsg_sameJ s m) h
  split
  · exact L.of_same (fin_sameJ _ _) hn
  · exact afterCommand_H m _ (runCommand_L _ m hn)

theorem afterResume_H (s : EState) (gs : List Gen) (t : Option Exc) (r : Out × Gen) (h : L bt nr s) :
    (afterResume s gs t r).H bt nr := by
  obtain ⟨o, g'⟩ := r
  cases o with
  | yld m => exact processMsg_H _ m h
  | ret => simp only [afterResume]; split <;> exact popPlan_H _ _ h
  | raise e =>
    simp only [afterResume]
    split
    · exact popPlan_H _ _ h
    · have hf : L bt nr (fin { s with planStack := g' :: gs } .none) := L.of_same (fin_sameJ _ _) h
      exact leaveLoop_J _ _ hf.1 hf.notPausedPermit

theorem afterSleep_H (s : EState) (h : L bt nr s) : (afterSleep s).H bt nr := by
  unfold afterSleep
  split
  · simp only []
    apply afterResume_H
    exact L.of_same ((logYield_sameJ _ _ _).trans (takeResp_sameJ _ _ _)) h
  · exact leaveLoop_J _ _ h.1 h.notPausedPermit

theorem L.core {a b : EState} (h1 : a.state = b.state) (h2 : a.interrupted = b.interrupted)
    (h5 : a.trans = b.trans) (h6 : a.refused = b.refused) (hb : L bt nr b) : L bt nr a :=
  ⟨hb.1.of_core h1 h2 h5 h6 hb.2, by rw [h1]; exact hb.2⟩

theorem hCancel_H (s : EState) (r : Resp) (h : L bt nr s) : (hCancel s r).H bt nr := by
  unfold hCancel
  split
  · exact L.of_same (fin_sameJ _ _) (L.core (b := s) rfl rfl rfl rfl h)
  · split
    · split
      · exact L.of_same (fin_sameJ _ _) (L.core (b := s) rfl rfl rfl rfl h)
      · exact L.of_same (fin_sameJ _ _) h
    · split
      · exact L.of_same (fin_sameJ _ _) h
      · split
        · have hf : L bt nr (fin s r) := L.of_same (fin_sameJ _ _) h
          exact leaveLoop_J _ _ hf.1 hf.notPausedPermit
        · split
          · exact L.of_same (fin_sameJ _ _) (L.core (b := s) rfl rfl rfl rfl h)
          · exact L.of_same (fin_sameJ _ _) h

theorem pauseBlock_H (s : EState) (h : L bt nr s) (hp : s.permit = false) : (pauseBlock s).H bt nr := by
  unfold pauseBlock
  simp only []
  have hsame : SameJ (pauseHooks (stopMovables (forBundlers s suspendMonitors))) s :=
    SameJ.of_ctl ((ctl_pauseHooks _).trans ((ctl_stopMovables _).trans (ctl_forBundlers _ ctl_suspendMonitors _)))
      (by rw [rf_pauseHooks, rf_stopMovables, rf_forBundlers_suspend])
  have h1 : L bt nr (pauseHooks (stopMovables (forBundlers s suspendMonitors))) := L.of_same hsame h
  split
  · exact leaveLoop_J _ _ h1.1 h1.notPausedPermit
  · rename_i s' hs
    obtain ⟨k1, k2, _, _, _, _, _, k8, _, _, _, _, k13⟩ := setState_keep hs
    obtain ⟨_, _, _, j4, _⟩ := setState_keep2 hs
    obtain ⟨⟨l, hl⟩, b2, _, _⟩ := h1.1
    refine ⟨⟨l ++ [((pauseHooks (stopMovables (forBundlers s suspendMonitors))).state, .paused)], ?_⟩, ?_, fun _ => ⟨Or.inl rfl, fun _ => rfl⟩, fun _ => Or.inr (Or.inr ⟨k1, ?_⟩)⟩
    · show s'.trans = _; rw [k13, hl, List.append_assoc]
    · show nr ≤ s'.refused.length; rw [j4]; exact b2
    · show s'.permit = false; rw [k8, hsame.2.2.1]; exact hp

theorem loopTop_H (s : EState) (h : L bt nr s) : (loopTop s).H bt nr := by
  unfold loopTop
  split
  · have h0 : L bt nr { s with permit := true, stashed := some Exc.failedPause } := L.core (b := s) rfl rfl rfl rfl h
    split
    · rename_i s' hs
      refine ⟨h0.1.setState_term hs rfl, ?_⟩
      rw [(setState_keep hs).1]; decide
    · exact leaveLoop_J _ _ h.1 h.notPausedPermit
  · simp only []
    split
    · exact leaveLoop_J _ _ h.1 h.notPausedPermit
    · rename_i s' hs
      have hs' : L bt nr s' := by
        split at hs
        · refine ⟨h.1.assign hs (by decide) (by decide) (by decide) (fun hp => absurd hp h.2), ?_⟩
          rw [(setState_keep hs).1]; decide
        · cases hs; exact h
      split
      · rename_i hperm
        exact pauseBlock_H s' hs' (by simpa using hperm)
      · split
        · exact J.of_core (b := s') rfl rfl rfl rfl hs'.2 hs'.1
        · exact afterSleep_H _ (L.core (b := s') rfl rfl rfl rfl hs')

/-! ### the end of the task -/

theorem cleanupBody_refused (x : EState) : (cleanupBody x).refused = x.refused := by
  rw [cleanupBody_eq]
  have h5 : ∀ s, (stage5 s).refused = s.refused := by
    intro s; unfold stage5
    exact foldl_proj (fun s => s.refused) _ (fun s g => by unfold closeGen; split <;> rfl) _ _
  have h4 : ∀ r s, (stage4 r s).refused = s.refused := by
    intro r s; unfold stage4; split
    · apply rf_forBundlers
      intro s b; split
      · exact rf_closeRunDoc s b _ _
      · rfl
    · rfl
  have h3 : ∀ s, (stage3 s).refused = s.refused := by
    intro s; unfold stage3; split
    · show (List.foldl _ s s.staged).refused = _
      apply rf_foldl
      intro s a; rfl
    · rfl
  have h2 : ∀ s, (stage2 s).refused = s.refused := by
    intro s; unfold stage2; split
    · exact rf_forBundlers_clear s
    · rfl
  have h1 : ∀ s, (stage1 s).refused = s.refused := by
    intro s; unfold stage1; split
    · exact rf_stopMovables s
    · rfl
  rw [h5, h4, h3, h2, h1]

theorem finish_J (x : EState) (hj : J bt nr x) (hpc : x.pc ≠ .pausedWait) : J bt nr (finishTask (cleanup x)) := by
  have hnp : ¬ (x.state = .paused ∧ x.permit = false) := fun hp => hpc ((hj.2.2.1 hp.1).2 hp.2)
  have hsame : SameJ (cleanupBody x) x := SameJ.of_ctl (cleanupBody_ctl x) (cleanupBody_refused x)
  have hjb : J bt nr (cleanupBody x) := hj.of_same hsame
  have hnpb : ¬ ((cleanupBody x).state = .paused ∧ (cleanupBody x).permit = false) := by
    rw [hsame.1, hsame.2.2.1]; exact hnp
  unfold cleanup
  simp only []
  split
  · rename_i s' hs
    have hj' : J bt nr s' := hjb.assign hs (by decide) (by decide) (by decide) (fun h1 h2 => absurd ⟨h1, h2⟩ hnpb)
    have hst : s'.state = .idle := (setState_keep hs).1
    exact J.of_core (b := s') rfl rfl rfl rfl (by rw [hst]; decide) hj'
  · exact J.move (b := cleanupBody x) rfl rfl rfl rfl rfl hnpb (Or.inr rfl) hjb

theorem stop_J (s : EState) (h : J bt nr s) :
    J bt nr (if s.pc == .finished then finishTask (cleanup s) else s) := by
  split
  · rename_i hf
    have hf' : s.pc = .finished := by simpa using hf
    exact finish_J s h (by rw [hf']; decide)
  · exact h

theorem runLoop_J (n : Nat) (s : EState) (h : L bt nr s) : J bt nr (runLoop n s) := by
  induction n generalizing s with
  | zero =>
    unfold runLoop
    have := h.1.afterRefuse "fuel"
    exact this
  | succ n ih =>
    unfold runLoop
    have hg := loopTop_H s h
    split
    · rename_i s' heq
      rw [heq] at hg
      exact stop_J s' hg
    · rename_i s' heq
      rw [heq] at hg
      exact ih s' hg

theorem contFlow_J (n : Nat) (f : Flow) (h : f.H bt nr) : J bt nr (contFlow n f) := by
  cases f with
  | loopTop s => exact runLoop_J n s h
  | stop s => exact stop_J s h

end

end BlueskyVerif.Engine
