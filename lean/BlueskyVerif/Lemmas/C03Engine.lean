/-
C03 -- the engine model's handlers project onto the small replay model (Engine/Replay.lean).

Part 1 (this file): association lists, device positions, `readingOf` = the small model's `reading`,
the bundler's counters under `rewind` / `resetCheckpoint`, `_rewind` / `resume()` / `_start_suspender`
replay exactly the cache, `noteMsg` appends to the cache.
-/
import BlueskyVerif.Lemmas.EngineFrame
import BlueskyVerif.Lemmas.C03Replay

namespace BlueskyVerif.Engine.C03
open BlueskyVerif.Engine BlueskyVerif.Replay

/-! ## association lists -/

theorem assocGet_assocSet {β} (k k' : String) (v : β) (l : List (String × β)) :
    assocGet k (assocSet k' v l) = if k = k' then some v else assocGet k l := by
  induction l with
  | nil =>
    by_cases h : k = k'
    · subst h; simp [assocSet, assocGet]
    · have h' : ¬ k' = k := fun e => h e.symm
      simp [assocSet, assocGet, h, h']
  | cons x l ih =>
    obtain ⟨a, b⟩ := x
    by_cases ha : a = k'
    · subst ha
      by_cases h : k = a
      · subst h; simp [assocSet, assocGet]
      · have h' : ¬ a = k := fun e => h e.symm
        simp [assocSet, assocGet, h, h']
    · by_cases hak : a = k
      · subst hak
        simp [assocSet, assocGet, ha]
      · simp [assocSet, assocGet, ha, hak, ih]

theorem assocGet_map {β} (g : β → β) (k : String) (l : List (String × β)) :
    assocGet k (l.map (fun kb => (kb.1, g kb.2))) = (assocGet k l).map g := by
  induction l with
  | nil => rfl
  | cons x l ih =>
    obtain ⟨a, b⟩ := x
    simp only [List.map, assocGet]
    by_cases h : a = k <;> simp [h, ih]

/-! ## device positions -/

/-- the position part of the engine state, as the small model sees it -/
def posOf (s : EState) : Pos := fun d => (devOf s d).pos

theorem devOf_setDev (s : EState) (n x : String) (d : DevState) :
    devOf (setDev s n d) x = if x = n then d else devOf s x := by
  unfold devOf setDev
  simp only [assocGet_assocSet]
  by_cases h : x = n <;> simp [h]

theorem posOf_nextMode (s : EState) (n op : String) : posOf (nextMode s n op).2 = posOf s := by
  funext x
  unfold posOf nextMode
  simp only [devOf_setDev]
  by_cases h : x = n <;> simp [h]

@[simp] theorem posOf_logCall (s : EState) (c : Call) : posOf (s.logCall c) = posOf s := rfl
@[simp] theorem posOf_emit (s : EState) (d : Doc) : posOf (s.emit d) = posOf s := rfl
@[simp] theorem posOf_putBundler (s : EState) (m : Msg) (b : Bundler) : posOf (putBundler s m b) = posOf s := rfl
@[simp] theorem posOf_newStatus (s : EState) (d o mo : String) (g : Option String) : posOf (newStatus s d o mo g).2 = posOf s := rfl

/-- "statuses complete immediately, nothing is scripted to fail": no device has scripted modes -/
def NoModes (s : EState) : Prop := ∀ sp ∈ s.devSpecs, sp.modes = []

theorem nextMode_done (s : EState) (h : NoModes s) (n op : String) : (nextMode s n op).1 = "done" := by
  unfold nextMode specOf
  simp only []
  cases hf : s.devSpecs.find? (fun x => Decidable.decide (x.name = n)) with
  | none => simp
  | some sp =>
    have hm := h sp (List.mem_of_find?_eq_some hf)
    simp [hm, assocGet]

@[simp] theorem devSpecs_nextMode (s : EState) (n op : String) : (nextMode s n op).2.devSpecs = s.devSpecs := rfl

/-! ## readings: the engine's `readingOf` is the small model's `reading` -/

def toFake (sp : DevSpec) : FakeDev := { name := sp.name, kind := sp.kind, offset := sp.offset }

/-- the device semantics of the engine model as a parameter of the small model -/
def engDevices (specs : List DevSpec) : Devices := fakeDevices (specs.map toFake)

theorem find_toFake (specs : List DevSpec) (n : String) :
    (specs.map toFake).find? (fun x => Decidable.decide (x.name = n)) = (specs.find? (fun x => Decidable.decide (x.name = n))).map toFake := by
  induction specs with
  | nil => rfl
  | cons sp specs ih =>
    simp only [List.map, List.find?]
    by_cases h : sp.name = n
    · simp [toFake, h]
    · simp [toFake, h, ih]

theorem motors_toFake (specs : List DevSpec) :
    ((specs.map toFake).filter (fun x => x.kind == "motor")).map (·.name) =
      (specs.filter (fun x => x.kind == "motor")).map (·.name) := by
  induction specs with
  | nil => rfl
  | cons sp specs ih =>
    simp only [List.map, List.filter]
    by_cases h : (sp.kind == "motor") = true
    · simp [toFake, h, ih]
    · simp [toFake, h, ih]

theorem foldl_motors (s : EState) (l : List DevSpec) (a : Int) :
    l.foldl (fun acc m => acc + (devOf s m.name).pos) a = (l.map (·.name)).foldl (fun acc m => acc + posOf s m) a := by
  induction l generalizing a with
  | nil => rfl
  | cons m l ih => simp only [List.foldl, List.map]; rw [ih]; rfl

/-- for every object that is not a signal, what `read` records is the small model's reading of the positions -/
theorem readingOf_eq (s : EState) (n : String) (hk : ∀ sp, specOf s n = some sp → (sp.kind == "sig") = false) :
    readingOf s n = (engDevices s.devSpecs).reading (posOf s) n := by
  unfold readingOf engDevices fakeDevices
  simp only []
  rw [find_toFake]
  unfold specOf at hk ⊢
  cases hf : s.devSpecs.find? (fun x => Decidable.decide (x.name = n)) with
  | none => simp
  | some sp =>
    have hs := hk sp hf
    simp only [Option.map]
    by_cases hd : (sp.kind == "det") = true
    · simp only [toFake, hd, if_true]
      rw [motors_toFake, foldl_motors]
      rfl
    · simp only [toFake, hd, hs]
      simp [posOf]

theorem sumPos_congr (p q : Pos) (ms : List String) (a : Int) (h : ∀ m ∈ ms, p m = q m) :
    ms.foldl (fun acc m => acc + p m) a = ms.foldl (fun acc m => acc + q m) a := by
  induction ms generalizing a with
  | nil => rfl
  | cons m ms ih =>
    simp only [List.foldl]
    rw [h m (List.mem_cons_self ..)]
    exact ih _ (fun m' hm' => h m' (List.mem_cons_of_mem _ hm'))

/-- the fake devices' readings depend only on the declared devices (all motors for a detector, itself else) -/
theorem fakeDevices_sound (specs : List FakeDev) : (fakeDevices specs).Sound := by
  intro p q det h
  unfold fakeDevices at h ⊢
  simp only [] at h ⊢
  cases hf : specs.find? (fun x => Decidable.decide (x.name = det)) with
  | none => rfl
  | some sp =>
    rw [hf] at h
    simp only [] at h ⊢
    by_cases hd : (sp.kind == "det") = true
    · simp only [hd, if_true] at h ⊢
      unfold sumPos
      rw [sumPos_congr p q _ 0 h]
    · simp only [hd] at h ⊢
      exact h det (by simp)

theorem engDevices_sound (specs : List DevSpec) : (engDevices specs).Sound := fakeDevices_sound _

/-! ## the bundler's counters: snapshot and rewind -/

/-- the checkpoint value of a stream's counter as `rewind` will restore it -/
def copyOf (b : Bundler) (st : String) : Nat := (assocGet st b.seqCopy).getD 1

theorem rewind_fold_get (descs : List (String × List String)) (a c : List (String × Nat)) (st : String)
    (hac : ∀ k, (assocGet k a).getD 1 = (assocGet k c).getD 1) :
    (assocGet st (descs.foldl (fun (acc : List (String × Nat) × List (String × Nat)) (kd : String × List String) =>
        if (assocGet kd.1 acc.1).isNone then (assocSet kd.1 1 acc.1, assocSet kd.1 1 acc.2) else acc) (a, c)).1).getD 1
      = (assocGet st c).getD 1 ∧
    (assocGet st (descs.foldl (fun (acc : List (String × Nat) × List (String × Nat)) (kd : String × List String) =>
        if (assocGet kd.1 acc.1).isNone then (assocSet kd.1 1 acc.1, assocSet kd.1 1 acc.2) else acc) (a, c)).2).getD 1
      = (assocGet st c).getD 1 := by
  induction descs generalizing a c with
  | nil => exact ⟨hac st, rfl⟩
  | cons kd descs ih =>
    simp only [List.foldl]
    by_cases hn : (assocGet kd.1 a).isNone = true
    · simp only [hn, if_true]
      have hk : (assocGet kd.1 c).getD 1 = 1 := by
        rw [← hac kd.1]
        rw [Option.isNone_iff_eq_none] at hn
        simp [hn]
      have hac' : ∀ k, (assocGet k (assocSet kd.1 1 a)).getD 1 = (assocGet k (assocSet kd.1 1 c)).getD 1 := by
        intro k; simp only [assocGet_assocSet]; by_cases h : k = kd.1 <;> simp [h, hac k]
      have := ih (assocSet kd.1 1 a) (assocSet kd.1 1 c) hac'
      refine ⟨this.1.trans ?_, this.2.trans ?_⟩ <;>
      · simp only [assocGet_assocSet]; by_cases h : st = kd.1
        · simp [h, hk]
        · simp [h]
    · simp only [hn]
      exact ih a c hac

/-- `RunBundler.rewind`: every stream's counter is back at its snapshot (1 for a stream that had no
    snapshot), the snapshot itself is unchanged, an open bundle is cancelled -/
theorem rewind_counter (b : Bundler) (st : String) : b.rewind.counter st = copyOf b st := by
  unfold Bundler.rewind Bundler.counter copyOf
  simp only []
  exact (rewind_fold_get b.descriptors b.seqCopy b.seqCopy st (fun _ => rfl)).1

theorem rewind_copyOf (b : Bundler) (st : String) : copyOf b.rewind st = copyOf b st := by
  unfold Bundler.rewind copyOf
  simp only []
  exact (rewind_fold_get b.descriptors b.seqCopy b.seqCopy st (fun _ => rfl)).2

@[simp] theorem rewind_bundling (b : Bundler) : b.rewind.bundling = false := rfl
@[simp] theorem rewind_descriptors (b : Bundler) : b.rewind.descriptors = b.descriptors := rfl
@[simp] theorem rewind_runId (b : Bundler) : b.rewind.runId = b.runId := rfl
@[simp] theorem rewind_runOpen (b : Bundler) : b.rewind.runOpen = b.runOpen := rfl

theorem resetCheckpoint_fold (l : List (String × Nat)) (c : List (String × Nat)) (st : String) :
    assocGet st (l.foldl (fun acc (kv : String × Nat) => assocSet kv.1 kv.2 acc) c) =
      match (l.reverse.find? (fun kv => Decidable.decide (kv.1 = st))) with
      | some kv => some kv.2
      | none => assocGet st c := by
  induction l generalizing c with
  | nil => rfl
  | cons kv l ih =>
    simp only [List.foldl, List.reverse_cons, List.find?_append]
    rw [ih]
    cases hf : l.reverse.find? (fun kv => Decidable.decide (kv.1 = st)) with
    | some x => simp
    | none =>
      simp only [Option.none_or, List.find?]
      rw [assocGet_assocSet]
      by_cases h : kv.1 = st
      · simp [h]
      · have : ¬ st = kv.1 := fun h' => h h'.symm
        simp [h, this]

/-- keys occur once (what `assocSet` maintains) -/
def KeysNodup {β} (l : List (String × β)) : Prop := (l.map (·.1)).Nodup

theorem find_reverse_of_nodup {β} (l : List (String × β)) (h : KeysNodup l) (st : String) :
    (l.reverse.find? (fun kv => Decidable.decide (kv.1 = st))).map (·.2) = assocGet st l := by
  induction l with
  | nil => rfl
  | cons kv l ih =>
    obtain ⟨a, b⟩ := kv
    unfold KeysNodup at h
    simp only [List.map, List.nodup_cons] at h
    simp only [List.reverse_cons, List.find?_append, assocGet]
    by_cases ha : a = st
    · -- the key is not in the tail
      have hnone : l.reverse.find? (fun kv => Decidable.decide (kv.1 = st)) = none := by
        rw [List.find?_eq_none]
        intro x hx
        simp only [decide_eq_true_eq]
        intro hx1
        apply h.1
        rw [ha, ← hx1]
        exact List.mem_map_of_mem (List.mem_reverse.mp hx)
      simp [hnone, ha]
    · have := ih h.2
      cases hf : l.reverse.find? (fun kv => Decidable.decide (kv.1 = st)) with
      | some x => rw [hf] at this; simp [ha, ← this]
      | none => rw [hf] at this; simp [ha, ← this]

/-- `RunBundler.reset_checkpoint_state`: the snapshot of every stream that has a counter is that counter -/
theorem resetCheckpoint_snapshot (b : Bundler) (hn : KeysNodup b.seq) (st : String) (v : Nat)
    (hv : assocGet st b.seq = some v) : copyOf b.resetCheckpoint st = b.counter st := by
  unfold Bundler.resetCheckpoint copyOf Bundler.counter
  simp only []
  have h1 := resetCheckpoint_fold b.seq b.seqCopy st
  have h2 := find_reverse_of_nodup b.seq hn st
  rw [hv] at h2
  cases hf : b.seq.reverse.find? (fun kv => Decidable.decide (kv.1 = st)) with
  | none => rw [hf] at h2; cases h2
  | some kv =>
    rw [hf] at h1 h2
    simp only [Option.map, Option.some.injEq] at h2
    have e : (fun acc (x : String × Nat) => assocSet x.1 x.2 acc) =
        (fun (acc : List (String × Nat)) (x : String × Nat) => match x with | (k, v) => assocSet k v acc) := by
      funext acc x; rfl
    rw [← e, h1, hv]
    simp [h2]

theorem keysNodup_assocSet {β} (k : String) (v : β) (l : List (String × β)) (h : KeysNodup l) :
    KeysNodup (assocSet k v l) := by
  induction l with
  | nil => simp [assocSet, KeysNodup]
  | cons x l ih =>
    obtain ⟨a, b⟩ := x
    unfold KeysNodup at h ⊢
    simp only [List.map, List.nodup_cons] at h
    simp only [assocSet]
    by_cases ha : a = k
    · simp only [ha, if_true, List.map, List.nodup_cons]
      exact ⟨ha ▸ h.1, h.2⟩
    · simp only [ha, if_false, List.map, List.nodup_cons]
      refine ⟨?_, ih h.2⟩
      intro hm
      -- keys of assocSet k v l ⊆ k :: keys l
      have : ∀ (l : List (String × β)) (x : String), x ∈ (assocSet k v l).map (·.1) → x = k ∨ x ∈ l.map (·.1) := by
        intro l
        induction l with
        | nil => intro x hx; simp [assocSet] at hx; exact Or.inl hx
        | cons y l ih2 =>
          obtain ⟨c, d⟩ := y
          intro x hx
          simp only [assocSet] at hx
          by_cases hc : c = k
          · simp only [hc, if_true, List.map, List.mem_cons] at hx
            rcases hx with hx | hx
            · exact Or.inl hx
            · exact Or.inr (by simp [hx])
          · simp only [hc, if_false, List.map, List.mem_cons] at hx
            rcases hx with hx | hx
            · exact Or.inr (by simp [hx])
            · rcases ih2 x hx with h' | h'
              · exact Or.inl h'
              · exact Or.inr (by simp [h'])
      rcases this l a hm with h' | h'
      · exact ha h'
      · exact h.1 h'

/-! ## `_rewind`, `resume()`, `_start_suspender`: exactly the cache is replayed -/

theorem forBundlers_go_pure (g : Bundler → Bundler) (s : EState) (todo done : List (String × Bundler)) :
    forBundlers.go (fun s b => (s, g b)) s todo done =
      { s with bundlers := done.reverse ++ todo.map (fun kb => (kb.1, g kb.2)) } := by
  induction todo generalizing done with
  | nil => simp [forBundlers.go]
  | cons kb todo ih =>
    obtain ⟨k, b⟩ := kb
    unfold forBundlers.go
    simp only []
    rw [ih]
    simp

/-- a pure per-bundler update maps over the bundlers and touches nothing else -/
theorem forBundlers_pure (g : Bundler → Bundler) (s : EState) :
    forBundlers s (fun s b => (s, g b)) = { s with bundlers := s.bundlers.map (fun kb => (kb.1, g kb.2)) } := by
  unfold forBundlers
  rw [forBundlers_go_pure]
  simp

/-- `RunEngine._rewind`: returns the cache, empties it, and (if it was not empty) rewinds every bundler -/
theorem rewindPlan_spec (s : EState) :
    (rewindPlan s).1 = s.msgCache.getD [] ∧
    (rewindPlan s).2.msgCache = some [] ∧
    (rewindPlan s).2.planStack = s.planStack ∧
    (rewindPlan s).2.docs = s.docs ∧
    posOf (rewindPlan s).2 = posOf s ∧
    (rewindPlan s).2.devSpecs = s.devSpecs ∧
    (rewindPlan s).2.rewindable = s.rewindable ∧
    (rewindPlan s).2.bundlers =
      if (s.msgCache.getD []).isEmpty then s.bundlers else s.bundlers.map (fun kb => (kb.1, kb.2.rewind)) := by
  unfold rewindPlan
  simp only []
  by_cases h : (s.msgCache.getD []).isEmpty = true
  · rw [if_pos h, if_pos h]
    refine ⟨?_, ?_, ?_, ?_, ?_, ?_, ?_, ?_⟩ <;> first | rfl | trivial
  · rw [if_neg h, if_neg h, forBundlers_pure]
    refine ⟨?_, ?_, ?_, ?_, ?_, ?_, ?_, ?_⟩ <;> first | rfl | trivial

theorem planStack_forBundlers_go (f : EState → Bundler → EState × Bundler) (h : ∀ s b, (f s b).1.planStack = s.planStack)
    (todo done : List (String × Bundler)) (s : EState) : (forBundlers.go f s todo done).planStack = s.planStack := by
  induction todo generalizing s done with
  | nil => rfl
  | cons kb rest ih =>
    obtain ⟨k, b⟩ := kb
    unfold forBundlers.go
    simp only []
    rw [ih]; exact h s b

theorem cache_forBundlers_go (f : EState → Bundler → EState × Bundler) (h : ∀ s b, (f s b).1.msgCache = s.msgCache)
    (todo done : List (String × Bundler)) (s : EState) : (forBundlers.go f s todo done).msgCache = s.msgCache := by
  induction todo generalizing s done with
  | nil => rfl
  | cons kb rest ih =>
    obtain ⟨k, b⟩ := kb
    unfold forBundlers.go
    simp only []
    rw [ih]; exact h s b

theorem recordInterruption_planStack (s : EState) (b : Bundler) (c : String) :
    (recordInterruption s b c).1.planStack = s.planStack := by
  unfold recordInterruption; split <;> rfl

theorem recordInterruption_cache (s : EState) (b : Bundler) (c : String) :
    (recordInterruption s b c).1.msgCache = s.msgCache := by
  unfold recordInterruption; split <;> rfl

theorem resumeHooks_planStack (s : EState) : (resumeHooks s).planStack = s.planStack := by
  unfold resumeHooks
  generalize s.objsSeen = l
  induction l generalizing s with
  | nil => rfl
  | cons n l ih =>
    simp only [List.foldl]
    rw [ih]
    split
    · split <;> rfl
    · rfl

/-- `RE.resume()`: the plan pushed on the plan stack is exactly the message cache (oldest first), on top
    of the interrupted plan, which keeps its own position -/
theorem startResume_replays_cache (s : EState) :
    (startResume s).planStack = Gen.list (s.msgCache.getD []) :: s.planStack := by
  unfold startResume
  simp only []
  rw [resumeHooks_planStack]
  have h1 : (forBundlers { s with interrupted := false } (fun s b => recordInterruption s b "resume")).planStack = s.planStack :=
    planStack_forBundlers_go _ (fun s b => recordInterruption_planStack s b "resume") _ _ _
  have h2 : (forBundlers { s with interrupted := false } (fun s b => recordInterruption s b "resume")).msgCache = s.msgCache :=
    cache_forBundlers_go _ (fun s b => recordInterruption_cache s b "resume") _ _ _
  have hr := rewindPlan_spec (forBundlers { s with interrupted := false } (fun s b => recordInterruption s b "resume"))
  simp only [hr.1, hr.2.2.1, h1, h2]

/-- the replay plan hands out exactly its messages, in order, whatever it is sent -/
theorem replay_plan_yields (m : Msg) (ms : List Msg) (r : Resp) :
    (Gen.list (m :: ms)).resume (.send r) = (.yld m, Gen.list ms) := rfl

theorem replay_plan_ends (r : Resp) : (Gen.list []).resume (.send r) = (.ret, Gen.list []) := rfl

/-- bookkeeping of `_run` for a cacheable message while a checkpoint exists: appended to the cache -/
theorem noteMsg_appends (s : EState) (m : Msg) (c : List Msg) (hc : s.msgCache = some c) (hr : s.rewindable = true)
    (hu : Src.uncacheable.contains m.cmd = false) : (noteMsg s m).msgCache = some (c ++ [m]) := by
  have hu' : ¬ m.cmd ∈ Src.uncacheable := by simpa using hu
  unfold noteMsg
  simp only []
  cases ho : m.obj with
  | none => simp [hc, hr, hu']
  | some o =>
    simp only []
    by_cases hs : o ∈ s.objsSeen <;> simp [hs, hc, hr, hu']

theorem noteMsg_frame (s : EState) (m : Msg) :
    (noteMsg s m).devSpecs = s.devSpecs ∧ (noteMsg s m).bundlers = s.bundlers ∧ (noteMsg s m).docs = s.docs ∧
    posOf (noteMsg s m) = posOf s ∧ (noteMsg s m).rewindable = s.rewindable := by
  unfold noteMsg
  simp only []
  cases m.obj with
  | none => simp only []; split <;> (try split) <;> exact ⟨rfl, rfl, rfl, rfl, rfl⟩
  | some o => simp only []; split <;> split <;> (try split) <;> exact ⟨rfl, rfl, rfl, rfl, rfl⟩

/-! ## `_start_suspender`: the helper plan ends with exactly the cache -/

theorem foldl_inv {α} (P : EState → Prop) (f : EState → α → EState) (h : ∀ s a, P s → P (f s a)) (l : List α) (s : EState)
    (hs : P s) : P (l.foldl f s) := by
  induction l generalizing s with
  | nil => exact hs
  | cons a l ih => exact ih _ (h s a hs)

theorem stopMovables_frame (s : EState) :
    (stopMovables s).msgCache = s.msgCache ∧ (stopMovables s).planStack = s.planStack ∧
    (stopMovables s).devSpecs = s.devSpecs ∧ (stopMovables s).objsSeen = s.objsSeen := by
  unfold stopMovables
  apply foldl_inv (fun t => t.msgCache = s.msgCache ∧ t.planStack = s.planStack ∧ t.devSpecs = s.devSpecs ∧ t.objsSeen = s.objsSeen)
  · intro t a ht; exact ht
  · exact ⟨rfl, rfl, rfl, rfl⟩

theorem pauseHooks_frame (s : EState) (hp : ∀ sp ∈ s.devSpecs, sp.pausable = false) :
    (pauseHooks s).msgCache = s.msgCache ∧ (pauseHooks s).planStack = s.planStack := by
  unfold pauseHooks
  have := foldl_inv (fun t => t.msgCache = s.msgCache ∧ t.planStack = s.planStack ∧ t.devSpecs = s.devSpecs)
    (fun s n =>
      match specOf s n with
      | some sp => if sp.pausable then
          let (mode, s) := nextMode s n "pause"
          let s := s.logCall { dev := n, op := "pause" }
          if mode == "noreplay" then resetCheckpointMeth s else s
        else s
      | none => s)
    (by
      intro t n ht
      simp only []
      cases hsp : specOf t n with
      | none => exact ht
      | some sp =>
        have hmem : sp ∈ s.devSpecs := by
          rw [← ht.2.2]; unfold specOf at hsp; exact List.mem_of_find?_eq_some hsp
        simp [hp sp hmem, ht])
    s.objsSeen s ⟨rfl, rfl, rfl⟩
  exact ⟨this.1, this.2.1⟩

/-- `_start_suspender`: the helper plan pushed on the plan stack is a chain of generators whose LAST one is
    exactly the message cache (no pausable device vetoes the replay) -/
theorem startSuspender_replays_cache (s : EState) (m : Msg) (rq : SuspReq)
    (hrq : s.suspReqs[(m.iargs.headD 0).toNat]? = some rq) (hp : ∀ sp ∈ s.devSpecs, sp.pausable = false) :
    ∃ first mid, (cmdStartSuspender s m).1.planStack =
      Gen.chain first (mid ++ [Gen.list (s.msgCache.getD [])]) :: s.planStack := by
  unfold cmdStartSuspender
  rw [hrq]
  simp only []
  have h1c : (forBundlers s (fun s b => recordInterruption s b (rq.just.getD "suspended"))).msgCache = s.msgCache :=
    cache_forBundlers_go _ (fun s b => recordInterruption_cache s b _) _ _ _
  have h1p : (forBundlers s (fun s b => recordInterruption s b (rq.just.getD "suspended"))).planStack = s.planStack :=
    planStack_forBundlers_go _ (fun s b => recordInterruption_planStack s b _) _ _ _
  have h1d : (forBundlers s (fun s b => recordInterruption s b (rq.just.getD "suspended"))).devSpecs = s.devSpecs := by
    have : ∀ (f : EState → Bundler → EState × Bundler) (_ : ∀ s b, (f s b).1.devSpecs = s.devSpecs)
        (todo done : List (String × Bundler)) (s : EState), (forBundlers.go f s todo done).devSpecs = s.devSpecs := by
      intro f hf todo
      induction todo with
      | nil => intro done s; rfl
      | cons kb rest ih =>
        intro done s
        obtain ⟨k, b⟩ := kb
        unfold forBundlers.go
        simp only []
        rw [ih]; exact hf s b
    exact this _ (fun s b => by unfold recordInterruption; split <;> rfl) _ _ _
  generalize hs1 : forBundlers s (fun s b => recordInterruption s b (rq.just.getD "suspended")) = s1 at h1c h1p h1d
  have h2 := stopMovables_frame s1
  have h3 := pauseHooks_frame (stopMovables s1) (by rw [h2.2.2.1, h1d]; exact hp)
  have hr := rewindPlan_spec (pauseHooks (stopMovables s1))
  refine ⟨Gen.list [{ cmd := "rewindable", iargs := [0], flag := false }], rq.pre.toList ++ [Gen.list [{ cmd := "wait_for", iargs := [rq.fut] }, { cmd := "_resume_from_suspender" }]]
      ++ rq.post.toList ++ [Gen.list [{ cmd := "rewindable", iargs := [0], flag := (rewindPlan (pauseHooks (stopMovables s1))).2.rewindable }]], ?_⟩
  simp only [hr.1, hr.2.2.1, h3.1, h3.2, h2.1, h2.2.1, h1c, h1p, List.append_assoc, List.cons_append, List.nil_append]

end BlueskyVerif.Engine.C03
