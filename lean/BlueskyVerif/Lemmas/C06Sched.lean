/-
C06: `MovedInv` through the environment actions and the scheduler.
-/
import BlueskyVerif.Lemmas.C06Lift

namespace BlueskyVerif.Engine

theorem refuse_dv (s : EState) (w : String) : dv (refuse s w) = dv s := rfl

theorem termPrep_dv (s : EState) (k r : String) : dv (termPrep s k r) = dv s := by unfold termPrep; frame_dv
theorem termAfter_dv (s : EState) (k : String) (w : Bool) : dv (termAfter s k w) = dv s := by unfold termAfter; frame_dv

theorem requestTerminate_dv (s : EState) (k r : String) : dv (requestTerminate s k r) = dv s := by
  unfold requestTerminate
  split
  · rfl
  · split
    · rw [refuse_dv]
    · rename_i s' hs
      rw [termAfter_dv, setState_dv hs, termPrep_dv]

theorem pushSuspender_dv (f : Nat) (pre post : Option Gen) (j : Option String) (s : EState) :
    dv (pushSuspender f pre post j s) = dv s := by
  unfold pushSuspender
  simp only []
  split
  · split
    · rename_i s' hs
      have : dv { s' with cancelPending := true } = dv s' := rfl
      rw [this, setState_dv hs]; rfl
    · rfl
  · rfl

theorem requestSuspend_dv (s : EState) (f : Nat) (pre post : Option Gen) (j : Option String) :
    dv (requestSuspend s f pre post j) = dv s := by
  unfold requestSuspend
  split
  · simp only []
    split
    · rfl
    · rename_i s' hs
      rw [pushSuspender_dv]
      split
      · have : dv { s' with cancelPending := true } = dv s' := rfl
        rw [this, setState_dv hs]; rfl
      · rw [setState_dv hs]; rfl
  · exact pushSuspender_dv f pre post j s

theorem completeStatus_dv (s : EState) (k : Nat) : dv (completeStatus s k) = dv s := by
  unfold completeStatus; frame_dv

theorem flushCompletions_dv (s : EState) : dv (flushCompletions s) = dv s := by
  unfold flushCompletions
  rw [dv_foldl _ completeStatus_dv]; rfl

theorem monStep_dv (sig : String) (v : Int) (s : EState) (p : Nat × String) : dv (monStep sig v s p) = dv s := by
  unfold monStep; split <;> rfl

theorem monitorUpdate_dv (s : EState) (sig : String) (v : Int) : dv (monitorUpdate s sig v) = dv s := by
  rw [monitorUpdate_eq, dv_foldl _ (monStep_dv sig v)]; rfl

theorem applyAction_dv (s : EState) (a : Action) : dv (applyAction s a) = dv s := by
  cases a with
  | pause d =>
    simp only [applyAction]; split
    · rename_i s' h; exact requestPause_dv h
    · rfl
  | suspend f pre post j => exact requestSuspend_dv s f pre post j
  | release f => simp only [applyAction]; split <;> rfl
  | abort => exact requestTerminate_dv s _ _
  | stop => exact requestTerminate_dv s _ _
  | halt => exact requestTerminate_dv s _ _
  | status k ok =>
    simp only [applyAction]; split
    · split
      · rfl
      · rw [completeStatus_dv]; rfl
    · rfl
  | monitor sig v => exact monitorUpdate_dv s sig v

theorem releaseAll_dv (s : EState) : dv (releaseAll s).1 = dv s := by
  unfold releaseAll
  simp only []
  rw [dv_foldl _ (fun s f => applyAction_dv s _), dv_foldl _ (fun s k => applyAction_dv s _)]

/-- `MovedInv` is an invariant of the whole scheduler: for every script, arrival bound and fuel -/
theorem schedule_mi (maxArr : Nat) (sc : Script) (fuel : Nat) (s : EState) (h : MovedInv s) :
    MovedInv (schedule maxArr sc fuel s) := by
  induction fuel generalizing s with
  | zero => exact movedInv_of_dv (refuse_dv s _) h
  | succ n ih =>
    unfold schedule
    split
    · exact h
    · split
      · exact h
      · exact h
      · split
        · exact ih _ (advance_mi _ _ h)
        · exact h
      · exact ih _ (advance_mi _ _ h)
      · simp only []
        apply ih; apply advance_mi
        split
        · exact movedInv_of_dv ((applyAction_dv _ _).trans (flushCompletions_dv _)) h
        · exact movedInv_of_dv ((dv_foldl _ applyAction_dv _ _).trans (flushCompletions_dv _)) h
      · simp only []
        apply ih; apply advance_mi
        split
        · exact movedInv_of_dv ((applyAction_dv _ _).trans (flushCompletions_dv _)) h
        · exact movedInv_of_dv ((dv_foldl _ applyAction_dv _ _).trans (flushCompletions_dv _)) h
      · simp only []
        apply ih; apply advance_mi
        split
        · exact movedInv_of_dv ((applyAction_dv _ _).trans (flushCompletions_dv _)) h
        · exact movedInv_of_dv ((dv_foldl _ applyAction_dv _ _).trans (flushCompletions_dv _)) h
      · simp only []
        apply ih; apply advance_mi
        split
        · exact movedInv_of_dv ((applyAction_dv _ _).trans (flushCompletions_dv _)) h
        · exact movedInv_of_dv ((dv_foldl _ applyAction_dv _ _).trans (flushCompletions_dv _)) h
      all_goals
        simp only []
        have hf : MovedInv (flushCompletions s) := movedInv_of_dv (flushCompletions_dv s) h
        have hadv := advance_mi 4000 _ hf
        split
        · split
          · apply ih; exact movedInv_of_dv (applyAction_dv _ _) (movedInv_of_dv rfl hadv)
          · split
            · apply ih
              split
              · exact movedInv_of_dv (releaseAll_dv _) (movedInv_of_dv rfl hadv)
              · exact movedInv_of_dv ((applyAction_dv _ _).trans (releaseAll_dv _)) (movedInv_of_dv rfl hadv)
            · apply ih; exact movedInv_of_dv (dv_foldl _ applyAction_dv _ _) (movedInv_of_dv rfl hadv)
        · exact ih _ hadv

theorem startResume_dv (s : EState) : dv (startResume s) = dv s := by
  unfold startResume
  simp only []
  show dv (resumeHooks _) = _
  rw [dv_resumeHooks]
  show dv (rewindPlan _).2 = _
  rw [dv_rewindPlan, dv_forBundlers_record]; rfl

theorem startTerminate_dv (s : EState) (k : String) : dv (startTerminate s k) = dv s := by
  unfold startTerminate
  simp only []
  show dv (requestTerminate s k "") = _
  exact requestTerminate_dv s k ""

end BlueskyVerif.Engine
