/-
C03 -- Part 3 of the tie: a whole message list is simulated (`sim_run`), `_rewind` re-establishes the
simulation relation with the counters rolled back (`sim_rewind`), and the composition with the pure replay
lemma: first pass K1, `_rewind`, replay of the cache followed by the rest of the plan K2, compared with
running K1 ++ K2 once -- on the ENGINE model's command handlers.
-/
import BlueskyVerif.Lemmas.C03Sim

namespace BlueskyVerif.Engine.C03
open BlueskyVerif.Engine BlueskyVerif.Replay

theorem sim_run {specs : List DevSpec} {rk : String} {T : String → List String} (K : List Msg) :
    ∀ {s : EState} {cur : Cur} {a : RState} {seqC : Seq}, Sim specs rk T s cur a seqC → WF specs rk T cur K →
      Sim specs rk T (runCmds s K) (absMsgs cur K).1 (exec (engDevices specs) a (absMsgs cur K).2).1 seqC ∧
      eventsOf (runCmds s K).docs = eventsOf s.docs ++ (exec (engDevices specs) a (absMsgs cur K).2).2 ∧
      (runCmds s K).rewindable = s.rewindable ∧
      (∀ c, s.msgCache = some c → s.rewindable = true → (runCmds s K).msgCache = some (c ++ K)) := by
  induction K with
  | nil =>
    intro s cur a seqC h _
    refine ⟨h, ?_, rfl, ?_⟩
    · simp [runCmds, absMsgs, exec]
    · intro c hc _; simp [runCmds, hc]
  | cons m K ih =>
    intro s cur a seqC h hwf
    obtain ⟨h1, e1, r1, c1⟩ := sim_step h m hwf.1
    obtain ⟨h2, e2, r2, c2⟩ := ih h1 hwf.2
    simp only [runCmds, absMsgs]
    rw [exec_append]
    refine ⟨h2, ?_, r2.trans r1, ?_⟩
    · rw [e2, e1, List.append_assoc]
    · intro c hc hr
      have := c2 (c ++ [m]) (c1 c hc hr) (r1.trans hr)
      simpa [List.append_assoc] using this

theorem rewind_seq_none (b : Bundler) (st : String) (h : assocGet st b.rewind.seq = none) : copyOf b st = 1 := by
  have := rewind_counter b st
  unfold Bundler.counter at this
  rw [h] at this
  exact this.symm

/-- `_rewind` with a non-empty cache: positions stay, the counters are back at their checkpoint values, an
    open bundle is cancelled -- the simulation relation holds again, for the rolled-back small state -/
theorem sim_rewind {specs : List DevSpec} {rk : String} {T : String → List String} {s : EState} {cur : Cur} {a : RState}
    {seqC : Seq} (h : Sim specs rk T s cur a seqC) (hne : (s.msgCache.getD []).isEmpty = false) :
    Sim specs rk T (rewindPlan s).2 none { pos := a.pos, seq := seqC } seqC := by
  have hr := rewindPlan_spec s
  obtain ⟨b, hb, hB⟩ := h.bundler
  refine { specs_eq := hr.2.2.2.2.2.1.trans h.specs_eq, noModes := noModes_of_specs hr.2.2.2.2.2.1 h.noModes,
           pos := hr.2.2.2.2.1.trans h.pos, bundler := ?_ }
  rw [hr.2.2.2.2.2.2.2, hne]
  simp only [Bool.false_eq_true, if_false]
  have hm : assocGet rk (List.map (fun kb => (kb.fst, kb.snd.rewind)) s.bundlers) = some b.rewind := by
    have := assocGet_map (fun b : Bundler => b.rewind) rk s.bundlers
    simpa [hb] using this
  refine ⟨b.rewind, hm, ?_⟩
  exact { counter := fun st => (rewind_counter b st).trans (hB.copy st),
          copy := fun st => (rewind_copyOf b st).trans (hB.copy st),
          fresh := fun st hn => by rw [← hB.copy st]; exact rewind_seq_none b st hn,
          descs := fun st objs ho => hB.descs st objs ho,
          open_ := rfl }

theorem lastFor_congr_prefix (E0 X Y : List REvent) (h : ∀ st n, lastFor X st n = lastFor Y st n) (st : Stream) (n : Nat) :
    lastFor (E0 ++ X) st n = lastFor (E0 ++ Y) st n := by
  rw [lastFor_append, lastFor_append, h]

/-- ENGINE-LEVEL replay theorem (handler semantics).  `sC`: the state right after a checkpoint (cache empty,
    counters snapshotted: `Sim … aC aC.seq`).  The plan's next messages are K1 ++ K2; an interruption lands
    after K1.  Then `_rewind` returns exactly K1, and running the replay followed by K2 from the rewound state
    leaves, for every (stream, seq_num), the same LAST event data, the same positions and the same counters
    as running K1 ++ K2 once. -/
theorem engine_replay (specs : List DevSpec) (rk : String) (T : String → List String) (sC : EState) (aC : RState)
    (K1 K2 : List Msg)
    (hS : Sim specs rk T sC none aC aC.seq) (hcache : sC.msgCache = some []) (hrw : sC.rewindable = true)
    (hWF : WF specs rk T none (K1 ++ K2))
    (hsafe : ReplaySafe (engDevices specs) (absMsgs none K1).2 (posOf (runCmds sC K1)) aC.pos) :
    (rewindPlan (runCmds sC K1)).1 = K1 ∧
    (∀ st n, lastFor (eventsOf (runCmds (rewindPlan (runCmds sC K1)).2 ((rewindPlan (runCmds sC K1)).1 ++ K2)).docs) st n =
             lastFor (eventsOf (runCmds sC (K1 ++ K2)).docs) st n) ∧
    posOf (runCmds (rewindPlan (runCmds sC K1)).2 ((rewindPlan (runCmds sC K1)).1 ++ K2)) = posOf (runCmds sC (K1 ++ K2)) ∧
    (∃ bF bB, assocGet rk (runCmds (rewindPlan (runCmds sC K1)).2 ((rewindPlan (runCmds sC K1)).1 ++ K2)).bundlers = some bF ∧
       assocGet rk (runCmds sC (K1 ++ K2)).bundlers = some bB ∧ ∀ st, bF.counter st = bB.counter st) := by
  have haC : aC = { pos := aC.pos, seq := aC.seq } := by cases aC; rfl
  -- first pass
  obtain ⟨hT, eT, rT, cT⟩ := sim_run K1 hS (WF_prefix none K1 K2 hWF)
  have hcT : (runCmds sC K1).msgCache = some K1 := by simpa using cT [] hcache hrw
  have hrp := rewindPlan_spec (runCmds sC K1)
  have hK : (rewindPlan (runCmds sC K1)).1 = K1 := by rw [hrp.1, hcT]; rfl
  rw [hK]
  -- the rewound state simulates the rolled-back small state
  have hposT : posOf (runCmds sC K1) = (exec (engDevices specs) aC (absMsgs none K1).2).1.pos := hT.pos
  have hR : Sim specs rk T (rewindPlan (runCmds sC K1)).2 none
      { pos := (exec (engDevices specs) aC (absMsgs none K1).2).1.pos, seq := aC.seq } aC.seq := by
    cases K1 with
    | nil =>
      have : Sim specs rk T (runCmds sC []) none { pos := aC.pos, seq := aC.seq } aC.seq := by rw [← haC]; exact hS
      refine Sim.transfer (s := runCmds sC []) ?_ hrp.2.2.2.2.2.1 hrp.2.2.2.2.1 ?_
      · simpa [absMsgs, exec] using this
      · rw [hrp.2.2.2.2.2.2.2, hcT]; rfl
    | cons m K1' => exact sim_rewind hT (by rw [hcT]; rfl)
  -- second pass and the uninterrupted run
  obtain ⟨hF, eF, _, _⟩ := sim_run (K1 ++ K2) hR hWF
  obtain ⟨hB, eB, _, _⟩ := sim_run (K1 ++ K2) hS hWF
  rw [absMsgs_append] at hF eF hB eB
  simp only [] at hF eF hB eB
  -- Lemma B
  have hs' : ReplaySafe (engDevices specs) (absMsgs none K1).2
      (exec (engDevices specs) { pos := aC.pos, seq := aC.seq } (absMsgs none K1).2).1.pos aC.pos := by
    rw [← haC, ← hposT]; exact hsafe
  obtain ⟨lb1, lb2⟩ := interrupted_prefix (engDevices specs) (engDevices_sound specs) (absMsgs none K1).2
    (absMsgs (absMsgs none K1).1 K2).2 aC.pos aC.seq hs'
  rw [← haC] at lb1 lb2
  refine ⟨rfl, ?_, ?_, ?_⟩
  · intro st n
    rw [eF, eB, hrp.2.2.2.1, eT, List.append_assoc]
    exact lastFor_congr_prefix _ _ _ lb2 st n
  · rw [hF.pos, hB.pos, lb1]
  · obtain ⟨bF, hbF, sF⟩ := hF.bundler
    obtain ⟨bB, hbB, sB⟩ := hB.bundler
    refine ⟨bF, bB, hbF, hbB, fun st => ?_⟩
    rw [sF.counter st, sB.counter st, lb1]

/-- what the checkpoint establishes: `resetCheckpoint` makes the snapshot equal to the counters
    (for bundlers whose counter table has unique keys, as `assocSet` maintains) -/
theorem checkpoint_snapshot (b : Bundler) (hn : KeysNodup b.seq) (st : String) (v : Nat) (hv : assocGet st b.seq = some v) :
    copyOf b.resetCheckpoint st = b.resetCheckpoint.counter st := by
  rw [resetCheckpoint_snapshot b hn st v hv]
  rfl

end BlueskyVerif.Engine.C03
