/-
Lemmas/C23Tree.lean -- device forests: `separate_devices` applied to root ancestors keeps the first
occurrence of each root (what stage_wrapper stages for devices with shared ancestors).
-/
import BlueskyVerif.Gen.Paired

namespace BlueskyVerif.Gen

/-- keep the first occurrence of every element -/
def dedupFirst (l : List Dev) : List Dev :=
  l.foldl (fun acc d => if acc.contains d then acc else acc ++ [d]) []

theorem ancestry_root (t : DevTree) (r : Dev) (h : t.parent r = none) : ancestry t r = [r] := by
  unfold ancestry
  cases hd : t.depth with
  | zero => simp [ancestryAux]
  | succ n => simp [ancestryAux, h]

theorem sepInner_roots (t : DevTree) (det : Dev) (hdet : t.parent det = none) (snapshot : List Dev) :
    ∀ (result : List Dev), (∀ x ∈ snapshot, t.parent x = none) →
      sepInner t det snapshot result = (result, snapshot.contains det) := by
  induction snapshot with
  | nil => intro result _; rfl
  | cons ex rest ih =>
    intro result hroots
    have hex : t.parent ex = none := hroots ex (by simp)
    rw [sepInner, ancestry_root t det hdet, ancestry_root t ex hex]
    by_cases h : ex = det
    · subst h; simp
    · have h' : det ≠ ex := fun e => h e.symm
      have hb : (det == ex) = false := by simpa using h'
      simp only [List.contains_cons, List.contains_nil, Bool.or_false, beq_iff_eq, h, h', ↓reduceIte,
        hb, Bool.false_or]
      exact ih result (fun x hx => hroots x (List.mem_cons_of_mem _ hx))

theorem separateDevices_roots (t : DevTree) (l : List Dev) (h : ∀ d ∈ l, t.parent d = none) :
    separateDevices t l = dedupFirst l := by
  unfold separateDevices dedupFirst
  suffices key : ∀ (l : List Dev) (acc : List Dev), (∀ d ∈ l, t.parent d = none) →
      (∀ d ∈ acc, t.parent d = none) →
      l.foldl (fun result det =>
        match sepInner t det result result with
        | (result', true) => result'
        | (result', false) => result' ++ [det]) acc
      = l.foldl (fun acc d => if acc.contains d then acc else acc ++ [d]) acc from
    key l [] h (by simp)
  intro l
  induction l with
  | nil => intro acc _ _; rfl
  | cons d rest ih =>
    intro acc hl hacc
    have hd : t.parent d = none := hl d (by simp)
    simp only [List.foldl_cons, sepInner_roots t d hd acc acc hacc]
    by_cases hc : acc.contains d = true
    · simp only [hc, ↓reduceIte]
      exact ih acc (fun x hx => hl x (List.mem_cons_of_mem _ hx)) hacc
    · have hc' : acc.contains d = false := by simpa using hc
      simp only [hc', Bool.false_eq_true, ↓reduceIte]
      refine ih (acc ++ [d]) (fun x hx => hl x (List.mem_cons_of_mem _ hx)) ?_
      intro x hx
      rcases List.mem_append.mp hx with hx | hx
      · exact hacc x hx
      · simp at hx; subst hx; exact hd

theorem dedupFirst_spec (l : List Dev) :
    (dedupFirst l).Nodup ∧ ∀ d, d ∈ dedupFirst l ↔ d ∈ l := by
  unfold dedupFirst
  suffices key : ∀ (l acc : List Dev), acc.Nodup →
      (l.foldl (fun acc d => if acc.contains d then acc else acc ++ [d]) acc).Nodup ∧
      ∀ d, d ∈ l.foldl (fun acc d => if acc.contains d then acc else acc ++ [d]) acc ↔ d ∈ acc ∨ d ∈ l by
    have := key l [] List.nodup_nil
    simpa using this
  intro l
  induction l with
  | nil => intro acc h; simp [h]
  | cons x rest ih =>
    intro acc h
    simp only [List.foldl_cons]
    by_cases hc : acc.contains x = true
    · simp only [hc, ↓reduceIte]
      obtain ⟨h1, h2⟩ := ih acc h
      refine ⟨h1, fun d => ?_⟩
      rw [h2 d]
      have hx : x ∈ acc := by simpa using hc
      constructor
      · rintro (h | h)
        · exact .inl h
        · exact .inr (List.mem_cons_of_mem _ h)
      · rintro (h | h)
        · exact .inl h
        · rcases List.mem_cons.mp h with rfl | h
          · exact .inl hx
          · exact .inr h
    · simp only [hc, Bool.false_eq_true, ↓reduceIte]
      have hx : x ∉ acc := by simpa using hc
      obtain ⟨h1, h2⟩ := ih (acc ++ [x]) (List.nodup_append.mpr ⟨h, by simp, by
        intro a ha b hb; simp at hb; subst hb; intro e; subst e; exact hx ha⟩)
      refine ⟨h1, fun d => ?_⟩
      rw [h2 d]
      simp only [List.mem_append, List.mem_singleton, List.mem_cons, List.not_mem_nil, or_false]
      constructor
      · rintro ((h | h) | h)
        · exact .inl h
        · exact .inr (.inl h)
        · exact .inr (.inr h)
      · rintro (h | h | h)
        · exact .inl (.inl h)
        · exact .inl (.inr h)
        · exact .inr h

/-- the depth bound of the forest reaches the roots -/
def TreeOK (t : DevTree) : Prop := ∀ d, t.parent (rootAncestor t d) = none

/-- **what stage_wrapper stages**: every root ancestor of the given devices, once, in the order of
    first occurrence -- devices with a shared ancestor are staged through that one ancestor -/
theorem stageRoots_spec (t : DevTree) (ht : TreeOK t) (devices : List Dev) :
    stageRoots t devices = dedupFirst (devices.map (rootAncestor t)) ∧
    (stageRoots t devices).Nodup ∧
    (∀ r, r ∈ stageRoots t devices ↔ ∃ d ∈ devices, rootAncestor t d = r) ∧
    (∀ r ∈ stageRoots t devices, t.parent r = none) := by
  have h1 : stageRoots t devices = dedupFirst (devices.map (rootAncestor t)) := by
    unfold stageRoots
    apply separateDevices_roots
    intro d hd
    obtain ⟨x, _, rfl⟩ := List.mem_map.mp hd
    exact ht x
  obtain ⟨h2, h3⟩ := dedupFirst_spec (devices.map (rootAncestor t))
  refine ⟨h1, h1 ▸ h2, ?_, ?_⟩
  · intro r; rw [h1, h3 r]; simp
  · intro r hr
    rw [h1, h3 r] at hr
    obtain ⟨x, _, rfl⟩ := List.mem_map.mp hr
    exact ht x

end BlueskyVerif.Gen
