/-
C02 / C08 helper lemmas, part 3: the invariant through the loop of `_run` and through `advance`.
-/
import BlueskyVerif.Lemmas.C02Inv

namespace BlueskyVerif.Engine

theorem isWaitPoint_ne {pc : PC} (h : pc.isWaitPoint = true) : pc ≠ .exitSleep ∧ pc ≠ .finished ∧ pc ≠ .pausedWait := by
  cases pc <;> simp [PC.isWaitPoint] at h ⊢

theorem afterCommand_G (m : Msg) (p : EState × CmdOut) (h : In p.1)
    (hs : ∀ pc, p.2 = .suspend pc → pc.isWaitPoint = true) : (afterCommand m p).G := by
  obtain ⟨s, o⟩ := p
  cases o with
  | value r => exact In.of_same (fin_same s r) h
  | raised e => exact In.of_same (fin_same s _) h
  | suspend pc =>
    obtain ⟨n1, n2, _⟩ := isWaitPoint_ne (hs pc rfl)
    refine ⟨h.2.2.2, ?_, ?_⟩
    · intro hc; rcases hc with hc | hc
      · exact absurd hc n1
      · exact absurd hc n2
    · intro hb
      have : s.blockingEvent = false := h.1
      have hb' : s.blockingEvent = true := hb
      rw [this] at hb'; cases hb'

theorem processMsg_G (s : EState) (m : Msg) (h : In s) : (processMsg s m).G := by
  unfold processMsg
  simp only []
  have hn : In (noteMsg s m) := In.of_same (noteMsg_same s m) h
  split
  · exact In.of_same (fin_same _ _) hn
  · exact afterCommand_G m _ (runCommand_In _ m hn) (fun pc hp => runCommand_suspend_pc _ m pc hp)

theorem afterResume_G (s : EState) (gs : List Gen) (t : Option Exc) (r : Out × Gen) (h : In s) :
    (afterResume s gs t r).G := by
  obtain ⟨o, g'⟩ := r
  cases o with
  | yld m => exact processMsg_G _ m h
  | ret => simp only [afterResume]; split <;> exact popPlan_G _ _ h
  | raise e =>
    simp only [afterResume]
    split
    · exact popPlan_G _ _ h
    · have hf : In (fin { s with planStack := g' :: gs } .none) := In.of_same (fin_same _ _) h
      exact leaveLoop_G _ _ hf.1 hf.2.2.2

theorem afterSleep_G (s : EState) (h : In s) : (afterSleep s).G := by
  unfold afterSleep
  split
  · simp only []
    apply afterResume_G
    exact In.of_same ((logYield_same _ _ _).trans (takeResp_same _ _ _)) h
  · exact leaveLoop_G _ _ h.1 h.2.2.2

theorem hCancel_G (s : EState) (r : Resp) (h : In s) : (hCancel s r).G := by
  unfold hCancel
  split
  · exact In.of_same (fin_same _ _) h
  · split
    · split
      · exact In.of_same (fin_same _ _) h
      · exact In.of_same (fin_same _ _) h
    · split
      · exact In.of_same (fin_same _ _) h
      · split
        · have hf : In (fin s r) := In.of_same (fin_same _ _) h
          exact leaveLoop_G _ _ hf.1 hf.2.2.2
        · split
          · exact In.of_same (fin_same _ _) h
          · exact In.of_same (fin_same _ _) h

theorem pauseBlock_G (s : EState) (h : In s) : (pauseBlock s).G := by
  unfold pauseBlock
  simp only []
  have hsame : Same4 (pauseHooks (stopMovables (forBundlers s suspendMonitors))) s :=
    Same4.of_ctl ((ctl_pauseHooks _).trans ((ctl_stopMovables _).trans (ctl_forBundlers _ ctl_suspendMonitors _)))
  have h1 : In (pauseHooks (stopMovables (forBundlers s suspendMonitors))) := In.of_same hsame h
  split
  · exact leaveLoop_G _ _ h1.1 h1.2.2.2
  · rename_i s' hs
    obtain ⟨k1, k2, _⟩ := setState_keep hs
    have hfrom := paused_only_from_pausing _ (setState_from hs)
    have hint : s'.interrupted = true := k2.trans (h1.2.2.2 hfrom)
    refine ⟨?_, ?_, ?_⟩
    · intro hp
      have : s'.state = .pausing := hp
      rw [k1] at this; cases this
    · intro hc; rcases hc with hc | hc <;> cases hc
    · intro _; exact ⟨rfl, k1, hint⟩

theorem loopTop_G (s : EState) (h : In s) : (loopTop s).G := by
  unfold loopTop
  split
  · split
    · rename_i s' hs
      obtain ⟨k1, k2, k3, k4, _⟩ := setState_keep hs
      refine ⟨k4.trans h.1, ?_, ?_, ?_⟩
      · rw [k3]; exact h.2.1
      · rw [k3]; exact h.2.2.1
      · intro hp; rw [k1] at hp; cases hp
    · exact leaveLoop_G _ _ h.1 h.2.2.2
  · simp only []
    split
    · exact leaveLoop_G _ _ h.1 h.2.2.2
    · rename_i s' hs
      have hs' : In s' := by
        split at hs
        · obtain ⟨k1, k2, k3, k4, _⟩ := setState_keep hs
          refine ⟨k4.trans h.1, ?_, ?_, ?_⟩
          · rw [k3]; exact h.2.1
          · rw [k3]; exact h.2.2.1
          · intro hp; rw [k1] at hp; cases hp
        · cases hs; exact h
      split
      · exact pauseBlock_G s' hs'
      · split
        · refine ⟨hs'.2.2.2, ?_, ?_⟩
          · intro hc; rcases hc with hc | hc <;> cases hc
          · intro hb
            have hb' : s'.blockingEvent = true := hb
            rw [hs'.1] at hb'; cases hb'
        · exact afterSleep_G _ hs'

/-! ### results of `runLoop` / `advance` -/

/-- what holds of the engine state each time `_run` is suspended or has ended (`refused` is the
    harness-side log of refused requests: the scheduler may append to it after the task ended) -/
def Res (r : EState) : Prop :=
  Q r ∧ (r.pc = .exitSleep → StatusExplained r) ∧
  (r.pc = .finished → ∃ x l, r = { finishTask (cleanup x) with refused := l } ∧ ArgOK x) ∧
  (r.blockingEvent = true → (r.pc = .pausedWait ∧ r.state = .paused ∧ r.interrupted = true) ∨ r.pc = .finished)

theorem Exact.explained {s : EState} (h : Exact s) (hp : s.pc = .exitSleep) : StatusExplained s := by
  obtain ⟨e, h1, h2, h3, h4⟩ := h
  exact ⟨e, h1, Or.inl h2, h3, h4 hp⟩

theorem cleanup_Q (x : EState) (h : Q x) : Q (finishTask (cleanup x)) := by
  have hc := cleanupBody_ctl x
  unfold cleanup
  simp only []
  split
  · rename_i s' hs
    obtain ⟨k1, _⟩ := setState_keep hs
    intro hp
    have : s'.state = .pausing := hp
    rw [k1] at this; cases this
  · intro hp
    have h1 : (cleanupBody x).state = .pausing := hp
    have h2 : x.state = .pausing := (congrArg Ctl.state hc).symm.trans h1
    exact (congrArg Ctl.interrupted hc).trans (h h2)

theorem finish_res (x : EState) (hq : Q x) (ha : ArgOK x) : Res (finishTask (cleanup x)) := by
  refine ⟨cleanup_Q x hq, ?_, fun _ => ⟨x, _, rfl, ha⟩, fun _ => Or.inr rfl⟩
  intro hp
  have : (finishTask (cleanup x)).pc = .finished := rfl
  rw [this] at hp; cases hp

theorem stop_res (s : EState) (h : (Flow.stop s).G) :
    Res (if s.pc == .finished then finishTask (cleanup s) else s) := by
  obtain ⟨hq, he, hb⟩ := h
  split
  · rename_i hf
    have hf' : s.pc = .finished := by simpa using hf
    exact finish_res s hq (he (Or.inr hf')).1.argOK
  · rename_i hf
    have hf' : s.pc ≠ .finished := by simpa using hf
    refine ⟨hq, fun hp => (he (Or.inl hp)).1.explained hp, fun hp => absurd hp hf', fun hbe => Or.inl (hb hbe)⟩

theorem In.res {s : EState} (h : In s) : Res s :=
  ⟨h.2.2.2, fun hp => absurd hp h.2.1, fun hp => absurd hp h.2.2.1, fun hb => by rw [h.1] at hb; cases hb⟩

theorem runLoop_res (n : Nat) (s : EState) (h : In s) : Res (runLoop n s) := by
  induction n generalizing s with
  | zero =>
    unfold runLoop
    exact In.res (s := { s with refused := s.refused ++ ["fuel"] }) h
  | succ n ih =>
    unfold runLoop
    have hg := loopTop_G s h
    split
    · rename_i s' heq
      rw [heq] at hg
      exact stop_res s' hg
    · rename_i s' heq
      rw [heq] at hg
      exact ih s' hg

theorem contFlow_res (n : Nat) (f : Flow) (h : f.G) : Res (contFlow n f) := by
  cases f with
  | loopTop s => exact runLoop_res n s h
  | stop s => exact stop_res s h

/-- `_run` resumed from any of its suspension points (the caller is blocked, the task has not ended) -/
theorem advanceAt_res (n : Nat) (c : Bool) (s0 : EState) (hb : s0.blockingEvent = false) (hq : Q s0)
    (hx : s0.pc = .exitSleep → StatusExplained s0) (hnf : s0.pc ≠ .finished) : Res (advanceAt n c s0) := by
  have hres0 : s0.pc ≠ .exitSleep → Res s0 := fun hne => In.res ⟨hb, hne, hnf, hq⟩
  unfold advanceAt
  split
  · rename_i hpc; exact hres0 (by rw [hpc]; simp)
  · rename_i hpc; exact absurd hpc hnf
  · rename_i hpc
    split
    · exact hres0 (by rw [hpc]; simp)
    · split
      · rename_i s' hs
        obtain ⟨k1, k2, k3, k4, _⟩ := setState_keep hs
        apply runLoop_res
        refine ⟨k4.trans hb, ?_, ?_, ?_⟩
        · rw [k3]; show s0.pc ≠ _; rw [hpc]; simp
        · rw [k3]; show s0.pc ≠ _; rw [hpc]; simp
        · intro hp; rw [k1] at hp; cases hp
      · exact contFlow_res _ _ (leaveLoop_G _ _ hb hq)
  · rename_i hpc
    have hin : In s0 := ⟨hb, by rw [hpc]; simp, by rw [hpc]; simp, hq⟩
    split
    · exact contFlow_res _ _ (hCancel_G _ _ hin)
    · exact contFlow_res _ _ (afterSleep_G _ hin)
  · rename_i hpc
    have hin : In s0 := ⟨hb, by rw [hpc]; simp, by rw [hpc]; simp, hq⟩
    split
    · exact contFlow_res _ _ (hCancel_G _ _ hin)
    · exact runLoop_res _ _ (In.of_same (fin_same _ _) hin)
  · rename_i hpc
    have hin : In s0 := ⟨hb, by rw [hpc]; simp, by rw [hpc]; simp, hq⟩
    split
    · exact contFlow_res _ _ (hCancel_G _ _ hin)
    · split
      · rename_i s' hs
        exact runLoop_res _ _ (In.of_same (fin_same _ _) (requestPause_In hs hin))
      · exact runLoop_res _ _ (In.of_same (fin_same _ _) hin)
  · rename_i g hpc
    have hin : In s0 := ⟨hb, by rw [hpc]; simp, by rw [hpc]; simp, hq⟩
    split
    · exact contFlow_res _ _ (hCancel_G _ _ hin)
    · simp only []
      split
      · exact runLoop_res _ _ (In.of_same (fin_same _ _) hin)
      · split
        · exact runLoop_res _ _ (In.of_same (fin_same _ _) hin)
        · exact In.res hin
  · rename_i f hpc
    have hin : In s0 := ⟨hb, by rw [hpc]; simp, by rw [hpc]; simp, hq⟩
    split
    · exact contFlow_res _ _ (hCancel_G _ _ hin)
    · split
      · exact runLoop_res _ _ (In.of_same (fin_same _ _) hin)
      · exact In.res hin
  · rename_i hpc
    have hin : In s0 := ⟨hb, by rw [hpc]; simp, by rw [hpc]; simp, hq⟩
    split
    · exact In.res hin
    · split
      · exact contFlow_res _ _ (leaveLoop_G _ _ hb hq)
      · simp only []
        have hr : In (forBundlers s0 restoreMonitors) :=
          In.of_same (Same4.of_ctl (ctl_forBundlers _ ctl_restoreMonitors _)) hin
        split
        · exact contFlow_res _ _ (leaveLoop_G _ _ hr.1 hr.2.2.2)
        · rename_i s' hs
          have hs' : In s' := by
            split at hs
            · obtain ⟨k1, k2, k3, k4, _⟩ := setState_keep hs
              refine ⟨k4.trans hr.1, ?_, ?_, ?_⟩
              · rw [k3]; exact hr.2.1
              · rw [k3]; exact hr.2.2.1
              · intro hp; rw [k1] at hp; cases hp
            · cases hs; exact hr
          split
          · exact In.res (s := { s' with pc := .loopSleep, resp := none })
              ⟨hs'.1, by simp, by simp, hs'.2.2.2⟩
          · exact contFlow_res _ _ (afterSleep_G _ hs')
  · rename_i hpc
    obtain ⟨e, h1, h2, h3, h4⟩ := hx hpc
    split
    · apply finish_res
      · exact hq
      · exact ⟨e, h2, h3, Or.inr ⟨rfl, rfl, h4⟩⟩
    · exact finish_res _ hq ⟨e, h2, h3, Or.inl h1⟩

theorem advance_res (n : Nat) (s : EState) (hb : s.blockingEvent = false) (hq : Q s)
    (hx : s.pc = .exitSleep → StatusExplained s) (hnf : s.pc ≠ .finished) : Res (advance n s) :=
  advanceAt_res n _ _ hb hq hx hnf

end BlueskyVerif.Engine
