/-
Helper lemmas for C37: closed form of the GENERATED `intReplacer`, and the rendering equalities.
-/
import BlueskyVerif.Lemmas.C37Parse

namespace BlueskyVerif.C37
open BlueskyVerif.PyStr BlueskyVerif.Printf

/-- the sign rule of int_replacer: '+' wins over ' ' -/
def signOf (flags : Str) : Option Char :=
  if '+' ∈ flags then some '+' else if ' ' ∈ flags then some ' ' else none

theorem signOf_ok (flags : Str) : SignOk (signOf flags) := by
  unfold signOf SignOk
  split
  · simp
  · split <;> simp

/-- closed form of the format spec that `int_replacer` builds (conversion character `d`) -/
def specOf (flags : Str) (w p : Option Str) : Str :=
  if truthy p then
    specShape false (signOf flags) true
      (natRepr (max (pyInt (p.getD [])) (pyIntOr w 0) + (signOf flags).toList.length))
  else
    specShape (decide ('-' ∈ flags)) (signOf flags) (decide ('0' ∈ flags ∧ '-' ∉ flags))
      (if truthy w then w.getD [] else [])

/-- THE lemma about the generated code: whatever the flags/width/precision groups are, the translated
    `int_replacer` returns `{:` ++ specOf ++ `}`.  (16 flag-membership cases x precision given or not.) -/
theorem intReplacer_closed (flags : Str) (w p : Option Str) :
    intReplacer flags w p ['d'] = ['{', ':'] ++ (specOf flags w p ++ ['}']) := by
  by_cases hplus : '+' ∈ flags <;> by_cases hsp : ' ' ∈ flags <;> by_cases hm : '-' ∈ flags <;>
    by_cases hz : '0' ∈ flags <;> by_cases hp : truthy p = true <;>
    simp [intReplacer, specOf, specShape, signOf, hplus, hsp, hm, hz, hp]

theorem stripField_wrap (spec : Str) (h : ∀ c ∈ spec, c ≠ '{' ∧ c ≠ '}') :
    stripField ('{' :: ':' :: (spec ++ ['}'])) = some spec := by
  simp [stripField]
  exact h

theorem specShape_nobrace (al : Bool) (sg : Option Char) (z : Bool) (w : Str) (hsg : SignOk sg) (hw : AllDig w) :
    ∀ c ∈ specShape al sg z w, c ≠ '{' ∧ c ≠ '}' := by
  intro c hc
  simp only [specShape, List.mem_append, List.mem_singleton] at hc
  rcases hc with hc | hc | hc | hc | hc
  · cases al <;> simp at hc; subst hc; exact ⟨by decide, by decide⟩
  · rcases hsg with rfl | rfl | rfl <;> simp at hc <;> subst hc <;> exact ⟨by decide, by decide⟩
  · cases z <;> simp at hc; subst hc; exact ⟨by decide, by decide⟩
  · have := dig_ne (hw c hc); exact ⟨this.2.2.2.2.1, this.2.2.2.2.2.1⟩
  · subst hc; exact ⟨by decide, by decide⟩

/-- the sign prefix as printed -/
def signStr (flags : Str) : Str := (signOf flags).toList

theorem rep_zero (c : Char) : rep c 0 = [] := rfl
theorem rep_length (c : Char) (n : Nat) : (rep c n).length = n := by simp [rep]


theorem width_getD {flags : Str} {w p : Option Str} (wf : GroupsWF flags w p) :
    (w.map pyInt).getD 0 = pyIntOr w 0 := by
  cases w with
  | none => rfl
  | some ws => have := (wf.width_ok ws rfl).1; cases ws <;> simp_all [pyIntOr, truthy]

theorem widthStr_eq {flags : Str} {w p : Option Str} (wf : GroupsWF flags w p) :
    (if truthy w then w.getD [] else []) = w.getD [] := by
  cases w with
  | none => rfl
  | some ws => have := (wf.width_ok ws rfl).1; cases ws <;> simp_all [truthy]

theorem widthStr_props {flags : Str} {w p : Option Str} (wf : GroupsWF flags w p) :
    AllDig (w.getD []) ∧ (w.getD []).head? ≠ some '0' ∧
    ((if (w.getD []).isEmpty then none else some (pyInt (w.getD []))) : Option Nat).getD 0 = pyIntOr w 0 := by
  cases w with
  | none => exact ⟨by intro c hc; simp at hc, by simp, rfl⟩
  | some ws =>
    obtain ⟨hne, hd, h0⟩ := wf.width_ok ws rfl
    refine ⟨hd, h0, ?_⟩
    cases ws <;> simp_all [pyIntOr, truthy]

theorem specOf_nobrace {flags : Str} {w p : Option Str} (wf : GroupsWF flags w p) :
    ∀ c ∈ specOf flags w p, c ≠ '{' ∧ c ≠ '}' := by
  unfold specOf
  split
  · exact specShape_nobrace _ _ _ _ (signOf_ok flags) (allDig_natRepr _)
  · rw [widthStr_eq wf]; exact specShape_nobrace _ _ _ _ (signOf_ok flags) (widthStr_props wf).1

/-- what the consolidator derives for the conversion text `tmpl flags w p`: Python's `format` applied to the
    closed-form spec -/
theorem derive_tmpl (flags : Str) (w p : Option Str) (i : Nat) (wf : GroupsWF flags w p) :
    derive (tmpl flags w p) i = pyFormatInt (specOf flags w p) i := by
  have hm := reMatch_tmpl flags w p wf []
  rw [List.append_nil] at hm
  simp [derive, rewrite, hm, intReplacer_closed, pyStrFormat, stripField_wrap _ (specOf_nobrace wf)]

/-- the sign prefix printf prints = the sign int_replacer asks Python for -/
theorem cSign_eq (flags : Str) :
    (if decide ('+' ∈ flags) = true then ['+'] else if decide (' ' ∈ flags) = true then [' '] else ([] : Str)) = signStr flags := by
  unfold signStr signOf
  by_cases h1 : '+' ∈ flags <;> by_cases h2 : ' ' ∈ flags <;> simp [h1, h2]

theorem pySign_eq (flags : Str) :
    (if signOf flags = some '+' then ['+'] else if signOf flags = some ' ' then [' '] else ([] : Str)) = signStr flags := by
  unfold signStr signOf
  by_cases h1 : '+' ∈ flags <;> by_cases h2 : ' ' ∈ flags <;> simp [h1, h2]

/-- Python side with a precision: `sign ++ zeros ++ digits`, total digits = precision -/
theorem derive_prec (flags : Str) (w : Option Str) (ps : Str) (i : Nat) (wf : GroupsWF flags w (some ps)) :
    derive (tmpl flags w (some ps)) i =
      some (signStr flags ++ rep '0' (max (pyInt ps) (pyIntOr w 0) - (natRepr i).length) ++ natRepr i) := by
  have hps : truthy (some ps) = true := by
    have := (wf.prec_ok ps rfl).1; cases ps <;> simp_all [truthy]
  rw [derive_tmpl _ _ _ _ wf]
  unfold specOf pyFormatInt
  rw [if_pos hps, pyParseSpec_shape false (signOf flags) true _ (signOf_ok flags) (allDig_natRepr _) (by simp)]
  simp only [Option.map_some, pyInt_natRepr, Option.getD_some]
  simp only [pyRenderInt, pySign_eq]
  have hl : (signOf flags).toList.length = (signStr flags).length := rfl
  simp [hl, natRepr_ne_nil]
  congr 1
  omega

/-- Python side without a precision -/
theorem derive_noprec (flags : Str) (w : Option Str) (i : Nat) (wf : GroupsWF flags w none) :
    derive (tmpl flags w none) i =
      some (let pad := pyIntOr w 0 - ((signStr flags).length + (natRepr i).length)
            if '-' ∈ flags then signStr flags ++ natRepr i ++ rep ' ' pad
            else if '0' ∈ flags then signStr flags ++ rep '0' pad ++ natRepr i
            else rep ' ' pad ++ signStr flags ++ natRepr i) := by
  rw [derive_tmpl _ _ _ _ wf]
  unfold specOf pyFormatInt
  have hp : ¬ (truthy (none : Option Str) = true) := by simp [truthy]
  obtain ⟨hd, h0, hwv⟩ := widthStr_props wf
  rw [if_neg hp, widthStr_eq wf, pyParseSpec_shape _ (signOf flags) _ _ (signOf_ok flags) hd (fun _ => h0)]
  simp only [Option.map_some, pyRenderInt, pySign_eq, hwv]
  by_cases hm : '-' ∈ flags <;> by_cases hz : '0' ∈ flags <;> simp [hm, hz]

/-- C side -/
theorem cPrintf_tmpl (flags : Str) (w p : Option Str) (i : Nat) (wf : GroupsWF flags w p) :
    cPrintf (tmpl flags w p) i =
      some (let pr := (p.map pyInt).getD 1
            let digs : Str := if i = 0 ∧ pr = 0 then [] else rep '0' (pr - (natRepr i).length) ++ natRepr i
            let pad := pyIntOr w 0 - ((signStr flags).length + digs.length)
            if '-' ∈ flags then signStr flags ++ digs ++ rep ' ' pad
            else if '0' ∈ flags ∧ p = none then signStr flags ++ rep '0' pad ++ digs
            else rep ' ' pad ++ signStr flags ++ digs) := by
  unfold cPrintf
  rw [cParse_tmpl _ _ _ wf]
  simp only [Option.map_some, cRender, cSign_eq, width_getD wf]
  cases p <;> simp

end BlueskyVerif.C37
