/-
Helper lemmas for C37: decimal digits (`natRepr`/`pyInt` round trip), character classes,
`takeWhile`/`dropWhile` over a run of characters followed by a stopper.
-/
import BlueskyVerif.Pure.Printf

namespace BlueskyVerif.C37
open BlueskyVerif.PyStr BlueskyVerif.Printf

def AllDig (s : Str) : Prop := ∀ c ∈ s, isDig c = true

theorem isDig_cases {c : Char} (h : isDig c = true) :
    c = '0' ∨ c = '1' ∨ c = '2' ∨ c = '3' ∨ c = '4' ∨ c = '5' ∨ c = '6' ∨ c = '7' ∨ c = '8' ∨ c = '9' := by
  simp only [isDig, Bool.or_eq_true, decide_eq_true_eq] at h
  rcases h with ((((((((h | h) | h) | h) | h) | h) | h) | h) | h) | h <;> simp [h]

theorem isDig_digitChar (d : Nat) : isDig (digitChar d) = true := by
  unfold digitChar; split <;> decide

theorem digitVal_digitChar {d : Nat} (h : d < 10) : digitVal (digitChar d) = d := by
  have : d = 0 ∨ d = 1 ∨ d = 2 ∨ d = 3 ∨ d = 4 ∨ d = 5 ∨ d = 6 ∨ d = 7 ∨ d = 8 ∨ d = 9 := by omega
  rcases this with rfl | rfl | rfl | rfl | rfl | rfl | rfl | rfl | rfl | rfl <;> decide

theorem pyInt_append_single (s : Str) (c : Char) : pyInt (s ++ [c]) = pyInt s * 10 + digitVal c := by
  simp [pyInt, List.foldl_append]

theorem pyInt_natRepr (n : Nat) : pyInt (natRepr n) = n := by
  induction n using Nat.strongRecOn with
  | ind n ih =>
    rw [natRepr]
    split
    · rename_i h; simp [pyInt, digitVal_digitChar h]
    · rename_i h
      rw [pyInt_append_single, ih (n / 10) (by omega), digitVal_digitChar (by omega)]
      omega

theorem allDig_natRepr (n : Nat) : AllDig (natRepr n) := by
  induction n using Nat.strongRecOn with
  | ind n ih =>
    rw [natRepr]
    split
    · intro c hc; simp at hc; subst hc; exact isDig_digitChar _
    · rename_i h
      intro c hc
      rcases List.mem_append.mp hc with hc | hc
      · exact ih (n / 10) (by omega) c hc
      · simp at hc; subst hc; exact isDig_digitChar _

theorem natRepr_ne_nil (n : Nat) : natRepr n ≠ [] := by
  rw [natRepr]; split <;> simp

theorem natRepr_length_pos (n : Nat) : 0 < (natRepr n).length :=
  List.length_pos_iff.mpr (natRepr_ne_nil n)

/-! character classes: a decimal digit is none of the special characters -/
theorem dig_not_align {c : Char} (h : isDig c = true) : isAlign c = false := by
  rcases isDig_cases h with rfl | rfl | rfl | rfl | rfl | rfl | rfl | rfl | rfl | rfl <;> decide
theorem dig_not_sign {c : Char} (h : isDig c = true) : isSign c = false := by
  rcases isDig_cases h with rfl | rfl | rfl | rfl | rfl | rfl | rfl | rfl | rfl | rfl <;> decide
theorem dig_ne {c : Char} (h : isDig c = true) :
    c ≠ '#' ∧ c ≠ '.' ∧ c ≠ 'd' ∧ c ≠ '%' ∧ c ≠ '{' ∧ c ≠ '}' ∧ c ≠ '<' ∧ c ≠ '+' ∧ c ≠ ' ' ∧ c ≠ '-' := by
  rcases isDig_cases h with rfl | rfl | rfl | rfl | rfl | rfl | rfl | rfl | rfl | rfl <;> decide
theorem dig_cflag {c : Char} (h : isDig c = true) (h0 : c ≠ '0') : isCFlag c = false := by
  rcases isDig_cases h with rfl | rfl | rfl | rfl | rfl | rfl | rfl | rfl | rfl | rfl <;> first | decide | exact absurd rfl h0

/-! runs -/
theorem takeWhile_run {p : Char → Bool} {s : Str} (hs : ∀ c ∈ s, p c = true) (c : Char) (r : Str) (hc : p c = false) :
    (s ++ c :: r).takeWhile p = s ∧ (s ++ c :: r).dropWhile p = c :: r := by
  induction s with
  | nil => simp [hc]
  | cons a s ih =>
    have ha : p a = true := hs a (by simp)
    have := ih (fun c hc => hs c (by simp [hc]))
    simp [ha, this]

theorem takeWhile_run_nil {p : Char → Bool} {s : Str} (hs : ∀ c ∈ s, p c = true) :
    s.takeWhile p = s ∧ s.dropWhile p = [] := by
  induction s with
  | nil => simp
  | cons a s ih =>
    have ha : p a = true := hs a (by simp)
    have := ih (fun c hc => hs c (by simp [hc]))
    simp [ha, this]

end BlueskyVerif.C37
