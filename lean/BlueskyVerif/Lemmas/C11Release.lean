/-
C11 helper lemmas, part 6: the release.  When the future of the blocked `wait_for` is released, the wait
completes with its normal response, `_run` goes back to the loop top without handing control to the
caller, and the next message executed is the helper's `_resume_from_suspender`.
-/
import BlueskyVerif.Lemmas.C11Retrip

namespace BlueskyVerif.Engine

/-- the blocked wait after its future was released: response `seq` (the list of futures), loop top, sleep(0);
    no message is executed in this turn and the blocking event is untouched -/
theorem release_completes_wait (n : Nat) (s : EState) (f : Nat) (r0 : Resp) (hpc : s.pc = .inWaitFor f)
    (hf : s.futs.contains f = true) (hcp : s.cancelPending = false) (hst : s.state = .running)
    (hp : s.permit = true) (hs : s.stashed = none) (hr : s.resp = some r0) :
    view (advance (n + 1) s) = { view s with respStack := .seq :: s.respStack, resp := none, pc := .loopSleep } := by
  have h1 : advance (n + 1) s = runLoop (n + 1) (fin s .seq) := by
    unfold advance
    rw [hcp, clearCancel_id s hcp]
    exact advanceAt_wait_released (n + 1) s f hpc hf
  rw [h1]
  have hv := fin_view_some s .seq r0 hr
  rw [runLoop_running_view n (fin s .seq) _ hv hst hp hs]

theorem cmdResumeFromSuspender_view (s : EState) :
    cmdResumeFromSuspender s = ((cmdResumeFromSuspender s).1, .value .none) ∧
    view (cmdResumeFromSuspender s).1 = view s := by
  refine ⟨rfl, ?_⟩
  unfold cmdResumeFromSuspender
  simp only []
  rw [view_resumeHooks, view_forBundlers _ view_restoreMonitors]

/-- ... and the turn after that executes `_resume_from_suspender`, the helper's next message -/
theorem resume_runs (n : Nat) (s : EState) (rest : List Gen) (rs : List Resp) (gs : List Gen)
    (hpc : s.pc = .loopSleep) (hcp : s.cancelPending = false) (hst : s.state = .running) (hp : s.permit = true)
    (hs : s.stashed = none) (he : s.exceptionSlot = none) (hR : s.respStack = .seq :: rs)
    (hP : s.planStack = .chain (.list [mResume]) rest :: gs) :
    view (advance (n + 1) s) =
      { view s with respStack := .none :: rs, planStack := .chain (.list []) rest :: gs, resp := none,
                    msgs := s.msgs ++ [mResume] } := by
  rw [advance_loopSleep _ s hpc hcp,
    afterSleep_send s .seq rs _ (.chain (.list []) rest) gs mResume hR hP he hs rfl rfl rfl]
  let s1 : EState := { s with respStack := rs, resp := some .seq, planStack := .chain (.list []) rest :: gs }
  let s2 : EState := noteMsg s1 mResume
  have hv2 : view s2 = { view s1 with msgs := s.msgs ++ [mResume], stashed := none } := noteMsg_view s1 _
  have hreg : Src.registry.contains mResume.cmd = true := by
    show Src.registry.contains "_resume_from_suspender" = true
    decide
  have hrun : runCommand s2 mResume = cmdResumeFromSuspender s2 := rfl
  obtain ⟨hb, hv3⟩ := cmdResumeFromSuspender_view s2
  rw [processMsg_value s1 _ mResume .none hreg (hrun.trans hb), contFlow_loopTop]
  have hr3 : (cmdResumeFromSuspender s2).1.resp = some .seq := by
    have := congrArg View.resp hv3; rw [hv2] at this; simpa [view, s1] using this
  have hv4 := fin_view_some _ .none .seq hr3
  have e_rs : (cmdResumeFromSuspender s2).1.respStack = rs := by
    have := congrArg View.respStack hv3; rw [hv2] at this; simpa [view, s1] using this
  rw [runLoop_running_view n _ _ hv4]
  · rw [hv3, hv2]
    simp only [view, s1, hpc, hs, e_rs]
  · rw [hv3, hv2]; exact hst
  · rw [hv3, hv2]; exact hp
  · rw [hv3, hv2]

end BlueskyVerif.Engine
