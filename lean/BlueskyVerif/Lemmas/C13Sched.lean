/-
C13 helper lemmas, part 3: the API layer (`request_pause`, `request_suspend`, abort/stop/halt, status
completions, monitor updates, `resume`) keeps the stacks in step -- `request_suspend` and `resume` push one plan
TOGETHER with one response slot -- and the scheduler preserves `PcInv` for every script and every fuel.
-/
import BlueskyVerif.Lemmas.C13Blocks

namespace BlueskyVerif.Engine

theorem grow_refuse (s : EState) (w : String) : Grow s (refuse s w) := ⟨rfl, rfl, 0, rfl, rfl⟩

theorem grow_requestTerminate (s : EState) (k r : String) : Grow s (requestTerminate s k r) := by
  have hp : stk (termPrep s k r) = stk s := by unfold termPrep; frame_stk
  have ha : ∀ (x : EState) (w : Bool), stk (termAfter x k w) = stk x := by
    intro x w; unfold termAfter; frame_stk
  unfold requestTerminate
  split
  · exact grow_refuse s k
  · split
    · exact grow_refuse _ _
    · rename_i s' hs
      exact (grow_of_stk hp).trans ((setState_ctl_stk hs).trans (grow_of_stk (ha _ _)))

theorem grow_push {s x : EState} (g : Gen) (r : Resp) (hpc : x.pc = s.pc) (hr : x.resp = s.resp)
    (hp : x.planStack = g :: s.planStack) (hq : x.respStack = r :: s.respStack) : Grow s x :=
  ⟨hpc, by rw [hr], 1, by rw [hp]; rfl, by rw [hq]; rfl⟩

/-- second half of `_request_suspend`: ONE plan and ONE response slot are pushed -/
theorem grow_pushSuspender (f : Nat) (pre post : Option Gen) (j : Option String) (s : EState) :
    Grow s (pushSuspender f pre post j s) := by
  unfold pushSuspender
  simp only []
  split
  · split
    · rename_i s' hs
      refine Grow.trans ?_ ((setState_ctl_stk hs).trans ⟨rfl, rfl, 0, rfl, rfl⟩)
      exact grow_push _ _ rfl rfl rfl rfl
    · refine Grow.trans ?_ (grow_refuse _ _)
      exact grow_push _ _ rfl rfl rfl rfl
  · exact grow_push _ _ rfl rfl rfl rfl

theorem grow_requestSuspend (s : EState) (f : Nat) (pre post : Option Gen) (j : Option String) :
    Grow s (requestSuspend s f pre post j) := by
  unfold requestSuspend
  split
  · simp only []
    split
    · exact (show Grow s { s with interrupted := true, exceptionSlot := some .failedPause } from ⟨rfl, rfl, 0, rfl, rfl⟩).trans
        (grow_refuse _ _)
    · rename_i s' hs
      have h0 : Grow s s' :=
        (show Grow s { s with interrupted := true, exceptionSlot := some .failedPause } from ⟨rfl, rfl, 0, rfl, rfl⟩).trans
          (setState_ctl_stk hs)
      refine h0.trans (Grow.trans ?_ (grow_pushSuspender f pre post j _))
      split
      · exact ⟨rfl, rfl, 0, rfl, rfl⟩
      · exact Grow.refl _
  · exact grow_pushSuspender f pre post j s

theorem stk_completeStatus (s : EState) (k : Nat) : stk (completeStatus s k) = stk s := by
  unfold completeStatus; frame_stk

theorem stk_flushCompletions (s : EState) : stk (flushCompletions s) = stk s := by
  unfold flushCompletions
  rw [stk_foldl _ stk_completeStatus]; rfl

theorem stk_monitorUpdate (s : EState) (sig : String) (v : Int) : stk (monitorUpdate s sig v) = stk s := by
  unfold monitorUpdate
  simp only []
  rw [stk_foldl]
  · rfl
  · intro s a
    split <;> rfl

/-- every environment action keeps the stacks in step and leaves `resp` and the program counter alone -/
theorem grow_applyAction (s : EState) (a : Action) : Grow s (applyAction s a) := by
  cases a with
  | pause d =>
    simp only [applyAction]; split
    · rename_i s' h; exact grow_of_stk (stk_requestPause h)
    · exact grow_refuse _ _
  | suspend f pre post j => exact grow_requestSuspend s f pre post j
  | release f => simp only [applyAction]; split <;> exact ⟨rfl, rfl, 0, rfl, rfl⟩
  | abort => exact grow_requestTerminate s _ _
  | stop => exact grow_requestTerminate s _ _
  | halt => exact grow_requestTerminate s _ _
  | status k ok =>
    simp only [applyAction]; split
    · split
      · exact Grow.refl s
      · exact grow_of_stk ((stk_completeStatus _ _).trans rfl)
    · exact Grow.refl s
  | monitor sig v => exact grow_of_stk (stk_monitorUpdate s sig v)

theorem grow_releaseAll (s : EState) : Grow s (releaseAll s).1 := by
  unfold releaseAll
  simp only []
  exact (grow_foldl _ (fun s k => grow_applyAction s _) _ _).trans (grow_foldl _ (fun s f => grow_applyAction s _) _ _)

/-- THE GLOBAL INVARIANT: the scheduler preserves `PcInv` -- for every script, arrival bound and fuel. -/
theorem schedule_pcinv (maxArr : Nat) (sc : Script) (fuel : Nat) (s : EState) (h : PcInv s) :
    PcInv (schedule maxArr sc fuel s) := by
  induction fuel generalizing s with
  | zero => exact (grow_refuse s _).pcinv h
  | succ n ih =>
    have harr : ∀ (x : EState) (k : String), Grow x { x with arrivals := x.arrivals ++ [k] } :=
      fun _ _ => ⟨rfl, rfl, 0, rfl, rfl⟩
    have hstep : ∀ (x : EState) (l : List Action), PcInv x →
        PcInv (if x.arrivals.length ≥ maxArr then
            applyAction (flushCompletions { x with arrivals := x.arrivals ++ [arrivalKind x.pc] }) .halt
          else l.foldl applyAction
            (flushCompletions { x with arrivals := x.arrivals ++ [arrivalKind x.pc] })) := by
      intro x l hx
      have h1 : PcInv (flushCompletions { x with arrivals := x.arrivals ++ [arrivalKind x.pc] }) :=
        ((harr x _).trans (grow_of_stk (stk_flushCompletions _))).pcinv hx
      split
      · exact (grow_applyAction _ _).pcinv h1
      · exact (grow_foldl _ grow_applyAction _ _).pcinv h1
    unfold schedule
    split
    · exact h
    · split
      · exact h
      · exact h
      · split
        · exact ih _ (advance_pcinv _ _ h)
        · exact h
      · exact ih _ (advance_pcinv _ _ h)
      · exact ih _ (advance_pcinv _ _ (hstep s _ h))
      · exact ih _ (advance_pcinv _ _ (hstep s _ h))
      · exact ih _ (advance_pcinv _ _ (hstep s _ h))
      · exact ih _ (advance_pcinv _ _ (hstep s _ h))
      all_goals
        simp only []
        have hf : PcInv (flushCompletions s) := (grow_of_stk (stk_flushCompletions s)).pcinv h
        have hadv := advance_pcinv 4000 _ hf
        split
        · have hq := (harr (advance 4000 (flushCompletions s)) "quiesce").pcinv hadv
          split
          · exact ih _ ((grow_applyAction _ _).pcinv hq)
          · split
            · apply ih
              split
              · exact (grow_releaseAll _).pcinv hq
              · exact (grow_applyAction _ _).pcinv ((grow_releaseAll _).pcinv hq)
            · exact ih _ ((grow_foldl _ grow_applyAction _ _).pcinv hq)
        · exact ih _ hadv

/-! ### the blocking API calls -/

theorem startCall_pcinv (s0 : EState) (plan : Gen) (h : s0.resp = none) : PcInv (startCall s0 plan) := by
  apply bal_false_pcinv
  refine ⟨?_, rfl⟩
  show (startCall s0 plan).resp.isSome = false
  have : (startCall s0 plan).resp = s0.resp := rfl
  rw [this, h]; rfl

/-- `RE.resume()`: the rewind plan is pushed together with a response slot -/
theorem grow_startResume (s : EState) : Grow s (startResume s) := by
  unfold startResume
  simp only []
  have h0 := stk_rewindPlan (forBundlers { s with interrupted := false } fun s b => recordInterruption s b "resume")
  rw [stk_forBundlers_ri] at h0
  generalize rewindPlan (forBundlers { s with interrupted := false } fun s b => recordInterruption s b "resume") = p at h0
  obtain ⟨rw, s1⟩ := p
  simp only [] at h0 ⊢
  have g1 : Grow s s1 := grow_of_stk (h0.trans rfl)
  refine g1.trans (Grow.trans ?_ ((grow_of_stk (stk_resumeHooks _)).trans ⟨rfl, rfl, 0, rfl, rfl⟩))
  exact grow_push (Gen.list rw) Resp.none rfl rfl rfl rfl

theorem grow_startTerminate (s : EState) (kind : String) : Grow s (startTerminate s kind) := by
  unfold startTerminate
  exact (grow_requestTerminate s kind "").trans ⟨rfl, rfl, 0, rfl, rfl⟩

end BlueskyVerif.Engine
