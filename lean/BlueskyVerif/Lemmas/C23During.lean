/-
Lemmas/C23During.lean -- monitor_during_wrapper / fly_during_wrapper: what each of the two nested
plan_mutators does at an `open_run` / `close_run` message of the plan below it, when the inserted
messages and the message itself are answered (not thrown at).  Instances of the C21 lemma
`sandwich` (head, then tail, then back to the host) for the processors of Gen/Paired.lean.
-/
import BlueskyVerif.Lemmas.C21
import BlueskyVerif.Gen.PairedDuring

namespace BlueskyVerif.Gen
set_option linter.unusedSectionVars false

section
variable {R E : Type} [Inhabited R] [DecidableEq R] [PyExc E]

/-- a generator running `for m in ms: yield m` (then returning `v`), suspended at a yield -/
theorem runs_msgs_live (p0 : Prog PMsg R R E) (i0 : Inp R E) (v : R) (ms : List PMsg) :
    ∀ (h : List (Inp R E)) (m : PMsg) (k : R → Prog PMsg R R E) (r : R) (rs : List R),
      h.foldl Prog.step p0 = .yield m k → k r = Prog.msgs ms (.ret v) → rs.length = ms.length →
      Runs (⟨p0.beh, i0 :: h, .live⟩ : Pos PMsg R R E) r (ms.zip rs) v := by
  induction ms with
  | nil =>
    intro h m k r rs hk hkr _
    refine .done (p' := ⟨p0.beh, i0 :: (h ++ [.send r]), .dead⟩) ?_
    have hout : p0.beh (i0 :: (h ++ [Inp.send r])) = .ret v := by
      show p0.after (h ++ [_]) = _
      rw [Prog.after_foldl, List.foldl_append, hk]
      simp [Prog.step, hkr, Prog.msgs, Prog.after]
    simp [Pos.resume, Pos.advance, hout, Out.isYld]
  | cons m1 ms ih =>
    intro h m k r rs hk hkr hlen
    cases rs with
    | nil => simp at hlen
    | cons r1 rs =>
      have hkr' : k r = .yield m1 (fun _ => Prog.msgs ms (.ret v)) := by
        rw [hkr]; rfl
      have hout : p0.beh (i0 :: (h ++ [Inp.send r])) = .yld m1 := by
        show p0.after (h ++ [_]) = _
        rw [Prog.after_foldl, List.foldl_append, hk]
        simp [Prog.step, hkr', Prog.after]
      refine .step (p' := ⟨p0.beh, i0 :: (h ++ [.send r]), .live⟩) ?_ ?_
      · simp [Pos.resume, Pos.advance, hout, Out.isYld]
      · exact ih (h ++ [.send r]) m1 (fun _ => Prog.msgs ms (.ret v)) r1 rs
          (by simp [List.foldl_append, hk, Prog.step, hkr']) rfl (by simpa using hlen)

/-- a fresh generator `for m in ms: yield m` (returning `v`) interacts as `ms` zipped with the
    responses -/
theorem runs_msgs (v : R) (ms : List PMsg) (rs : List R) (hlen : rs.length = ms.length) :
    Runs (Pos.new (Prog.msgs ms (.ret v) : Prog PMsg R R E).beh) default (ms.zip rs) v := by
  cases ms with
  | nil =>
    refine .done (p' := ⟨(Prog.msgs [] (.ret v) : Prog PMsg R R E).beh, [.send default], .dead⟩) ?_
    simp [Pos.resume, Pos.new, Pos.advance, Prog.beh, Prog.msgs, Prog.after, Out.isYld]
  | cons m1 ms =>
    cases rs with
    | nil => simp at hlen
    | cons r1 rs =>
      refine .step
        (p' := ⟨(Prog.msgs (m1 :: ms) (.ret v) : Prog PMsg R R E).beh, [.send default], .live⟩) ?_ ?_
      · simp [Pos.resume, Pos.new, Pos.advance, Prog.beh, Prog.msgs, Prog.after, Out.isYld]
      · exact runs_msgs_live _ (.send default) v ms [] m1 (fun _ => Prog.msgs ms (.ret v)) r1 rs
          rfl rfl (by simpa using hlen)

theorem runs_oneMsg (m : PMsg) (r : R) :
    Runs (Pos.new (oneMsg m : PBeh R E)) default [(m, r)] r := by
  refine .step (p' := ⟨(oneMsg m : PBeh R E), [.send default], .live⟩) ?_
    (.done (p' := ⟨(oneMsg m : PBeh R E), [.send default, .send r], .dead⟩) ?_)
  · simp [oneMsg, Pos.resume, Pos.new, Pos.advance, Prog.beh, Prog.single, Prog.after, Out.isYld]
  · simp [oneMsg, Pos.resume, Pos.advance, Prog.beh, Prog.single, Prog.after, Out.isYld]

theorem partMsgs_cmd (devs : List Dev) (parts : List InsertPart) (m : PMsg)
    (h : m ∈ parts.flatMap (partMsgs devs)) : m.cmd ≠ .openRun ∧ m.cmd ≠ .closeRun := by
  obtain ⟨part, _, hm⟩ := List.mem_flatMap.mp h
  cases part <;> simp only [partMsgs, List.mem_map, List.mem_append] at hm
  · obtain ⟨d, _, rfl⟩ := hm; simp [devMsg]
  · obtain ⟨d, _, rfl⟩ := hm; simp [devMsg]
  · rcases hm with ⟨d, _, rfl⟩ | hm
    · simp [devMsg]
    · split at hm <;> simp at hm; subst hm; simp [waitMsg]
  · rcases hm with ⟨d, _, rfl⟩ | hm
    · simp [devMsg]
    · split at hm <;> simp at hm; subst hm; simp [waitMsg]
  · obtain ⟨d, _, rfl⟩ := hm; simp [devMsg]

theorem lastResp_snoc (l : List (PMsg × R)) (m : PMsg) (r1 : R) :
    ∀ r, lastResp r (l ++ [(m, r1)]) = r1 := by
  induction l with
  | nil => intro r; rfl
  | cons x xs ih => intro r; exact ih x.2

/-- **after open_run**: when the generator below yields a new `open_run` message, the mutator with
    `insert_after_open` passes it out, and -- it and the inserted messages being answered -- then
    yields the inserted messages (monitor... / kickoff..., wait) in order, and is then about to
    resume the generator below with the response `r1` of the `open_run`. -/
theorem during_after_open (parts : List InsertPart) (devs : List Dev)
    (s : PM PMsg (List Nat) R R E) (g : Nat) (q q1 : Pos PMsg R R E)
    (rest : List (GenObj PMsg R R E)) (r : R) (rs0 : List R) (msg : PMsg) (hfresh : FreshIds s)
    (hex : s.exception = none) (hps : s.planStack = (g, q) :: rest) (hrs : s.resultStack = r :: rs0)
    (hres : q.resume (.send r) = (.yld msg, q1)) (hns : msg.ident ∉ s.msgsSeen)
    (hcmd : msg.cmd = .openRun) (r1 : R) (rs : List R)
    (hlen : rs.length = (parts.flatMap (partMsgs devs)).length) :
    ∃ n s_end, n ≤ 3 ∧
      PmPath PMsg.ident (afterOpenProc parts devs) n s
        ((msg, r1) :: (parts.flatMap (partMsgs devs)).zip rs) s_end ∧
      s_end.exception = none ∧ s_end.planStack = (g, q1) :: rest ∧ s_end.resultStack = r1 :: rs0 := by
  have hproc : afterOpenProc (R := R) (E := E) parts devs s.procLog msg
      = (some (oneMsg msg), some (Prog.msgs (parts.flatMap (partMsgs devs)) (.ret default)).beh) := by
    simp [afterOpenProc, hcmd]
  obtain ⟨n, s_end, h1, h2, h3, h4, h5, _⟩ :=
    sandwich PMsg.ident (afterOpenProc parts devs) s g q q1 rest r rs0 msg _ _ (oneMsg msg) hfresh hex
      hps hrs hres (by simpa using hns) hproc rfl [(msg, r1)] r1 (runs_oneMsg msg r1)
      ((parts.flatMap (partMsgs devs)).zip rs) ⟨default, runs_msgs default _ rs hlen⟩
      (by
        intro mr hmr
        rcases List.mem_append.mp hmr with hmr | hmr
        · simp at hmr; subst hmr; exact .inl (by simp)
        · refine .inr fun log => ?_
          have := partMsgs_cmd devs parts mr.1 (List.of_mem_zip hmr).1
          simp [afterOpenProc, this.1])
  exact ⟨n, s_end, h1, by simpa using h2, h3, h4, by simpa [lastResp] using h5⟩

/-- **before close_run**: when the generator below yields a new `close_run` message, the mutator
    with `insert_before_close` first yields the inserted messages (unmonitor... / complete..., wait,
    collect...) in order and only then the `close_run` itself; its response `r1` is what the
    generator below is resumed with. -/
theorem during_before_close (parts : List InsertPart) (devs : List Dev)
    (s : PM PMsg (List Nat) R R E) (g : Nat) (q q1 : Pos PMsg R R E)
    (rest : List (GenObj PMsg R R E)) (r : R) (rs0 : List R) (msg : PMsg) (hfresh : FreshIds s)
    (hex : s.exception = none) (hps : s.planStack = (g, q) :: rest) (hrs : s.resultStack = r :: rs0)
    (hres : q.resume (.send r) = (.yld msg, q1)) (hns : msg.ident ∉ s.msgsSeen)
    (hcmd : msg.cmd = .closeRun) (r1 : R) (rs : List R)
    (hlen : rs.length = (parts.flatMap (partMsgs devs)).length) :
    ∃ n s_end, n ≤ 3 ∧
      PmPath PMsg.ident (beforeCloseProc parts devs) n s
        ((parts.flatMap (partMsgs devs)).zip rs ++ [(msg, r1)]) s_end ∧
      s_end.exception = none ∧ s_end.planStack = (g, q1) :: rest ∧ s_end.resultStack = r1 :: rs0 := by
  have hproc : beforeCloseProc (R := R) (E := E) parts devs s.procLog msg
      = (some (Prog.msgs (parts.flatMap (partMsgs devs) ++ [msg]) (.ret default)).beh, none) := by
    simp [beforeCloseProc, hcmd]
  have hzip : (parts.flatMap (partMsgs devs) ++ [msg]).zip (rs ++ [r1])
      = (parts.flatMap (partMsgs devs)).zip rs ++ [(msg, r1)] := by
    rw [List.zip_append hlen.symm]; rfl
  obtain ⟨n, s_end, h1, h2, h3, h4, h5, _⟩ :=
    sandwich PMsg.ident (beforeCloseProc parts devs) s g q q1 rest r rs0 msg _ _ _ hfresh hex
      hps hrs hres (by simpa using hns) hproc rfl ((parts.flatMap (partMsgs devs) ++ [msg]).zip (rs ++ [r1])) default
      (runs_msgs default _ (rs ++ [r1]) (by simp [hlen])) [] rfl
      (by
        intro mr hmr
        rw [List.append_nil, hzip] at hmr
        rcases List.mem_append.mp hmr with hmr | hmr
        · refine .inr fun log => ?_
          have := partMsgs_cmd devs parts mr.1 (List.of_mem_zip hmr).1
          simp [beforeCloseProc, this.2]
        · simp at hmr; subst hmr; exact .inl (by simp))
  refine ⟨n, s_end, h1, by simpa [hzip] using h2, h3, h4, ?_⟩
  rw [h5, hzip, lastResp_snoc]

end
end BlueskyVerif.Gen
