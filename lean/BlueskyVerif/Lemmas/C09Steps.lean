/-
C09 / C10 helper: exact results of the blocks of `_run` on the paths "deferred pause at a checkpoint",
"pause" and "failed pause".
-/
import BlueskyVerif.Lemmas.C04Sched

namespace BlueskyVerif.Engine

theorem pausing_to_paused : (Src.transitions .pausing).contains .paused = true := by decide
theorem running_to_pausing : (Src.transitions .running).contains .pausing = true := by decide
theorem pausing_to_aborting : (Src.transitions .pausing).contains .aborting = true := by decide
theorem suspending_to_aborting : (Src.transitions .suspending).contains .aborting = true := by decide

/-- only `pausing` leads to `paused` (generated table) -/
theorem paused_only_from_pausing (st : St) (h : (Src.transitions st).contains .paused = true) : st = .pausing := by
  cases st <;> first | rfl | (exact absurd h (by decide))

/-- `setState` succeeds along an edge of the table and changes nothing but the state and its log -/
theorem setState_ok (s : EState) (n : St) (h : (Src.transitions s.state).contains n = true) :
    ∃ s', setState s n = .ok s' ∧ s'.state = n ∧
      ctl s' = { ctl s with state := n, trans := s.trans ++ [(s.state, n)] } ∧ ck s' = ck s ∧
      s'.exceptionSlot = s.exceptionSlot := by
  unfold setState
  rw [dif_pos h]
  exact ⟨_, rfl, rfl, rfl, rfl, rfl⟩

theorem setState_source {s s' : EState} {n : St} (h : setState s n = .ok s') :
    (Src.transitions s.state).contains n = true := by
  unfold setState at h
  split at h
  · assumption
  · cases h

/-- the inner `finally` only touches the response stack and the popped response -/
theorem fin_eq (s : EState) (r : Resp) : ∃ rs, fin s r = { s with respStack := rs, resp := none } := by
  unfold fin
  cases h : s.resp with
  | none => exact ⟨s.respStack, by cases s; simp_all⟩
  | some x => exact ⟨r :: s.respStack, rfl⟩

/-- the top of the loop when nothing is pending: go to the loop-top sleep -/
theorem loopTop_sleep (x : EState) (hst : x.state ≠ .suspending)
    (hno : ((x.state == .pausing || x.state == .suspending) && x.msgCache.isNone) = false)
    (hperm : x.permit = true) (hstash : x.stashed = none) :
    loopTop x = .stop { x with pc := .loopSleep, resp := none } := by
  unfold loopTop
  rw [if_neg (by rw [hno]; exact Bool.false_ne_true)]
  have h1 : (x.state == St.suspending) = false := by
    cases hx : x.state <;> first | rfl | exact absurd hx hst
  simp only [h1, Bool.false_eq_true, if_false, hperm, Bool.not_true, hstash]

/-- the top of the loop with the run permit cleared and a cache: the pause sequence -/
theorem loopTop_pause (x : EState) (hst : x.state = .pausing) (hc : x.msgCache.isSome = true)
    (hperm : x.permit = false) : loopTop x = pauseBlock x := by
  unfold loopTop
  have hno : ((x.state == .pausing || x.state == .suspending) && x.msgCache.isNone) = false := by
    cases h : x.msgCache with
    | none => rw [h] at hc; cases hc
    | some c => simp
  rw [if_neg (by rw [hno]; exact Bool.false_ne_true)]
  have h1 : (x.state == St.suspending) = false := by rw [hst]; rfl
  simp only [h1, Bool.false_eq_true, if_false, hperm, Bool.not_false, if_true]

/-- the pause sequence from `pausing`: hooks, state `paused`, blocking event set, `_run` waits for the permit -/
theorem pauseBlock_pauses (x : EState) (hst : x.state = .pausing) :
    ∃ s', pauseBlock x = .stop s' ∧ s'.pc = .pausedWait ∧ s'.state = .paused ∧ s'.blockingEvent = true ∧
      s'.msgs = x.msgs ∧ s'.rewindable = x.rewindable ∧ s'.planStack = x.planStack ∧ s'.respStack = x.respStack ∧
      (s'.msgCache = x.msgCache ∨ s'.msgCache = resetOpt x.msgCache) ∧ s'.permit = x.permit ∧
      s'.deferredPause = x.deferredPause ∧ s'.interrupted = x.interrupted := by
  unfold pauseBlock
  simp only []
  let y := pauseHooks (stopMovables (forBundlers x suspendMonitors))
  have hctl : ctl y = ctl x := by
    show ctl (pauseHooks _) = ctl x
    rw [ctl_pauseHooks, ctl_stopMovables, ctl_forBundlers _ ctl_suspendMonitors]
  have hck0 : ck (stopMovables (forBundlers x suspendMonitors)) = ck x := by
    rw [ck_stopMovables, ck_forBundlers_suspend]
  have hy : (Src.transitions y.state).contains .paused = true := by
    rw [show y.state = x.state from congrArg Ctl.state hctl, hst]; exact pausing_to_paused
  obtain ⟨s1, hs1, hst1, hctl1, hck1, _⟩ := setState_ok y .paused hy
  show ∃ s', (match setState y .paused with
    | .error e => Flow.stop (leaveLoop y e)
    | .ok s => Flow.stop { s with blockingEvent := true, pc := .pausedWait }) = .stop s' ∧ _
  rw [hs1]
  refine ⟨_, rfl, rfl, hst1, rfl, ?_, ?_, ?_, ?_, ?_, ?_, ?_, ?_⟩
  · show s1.msgs = x.msgs
    rw [ck_msgs hck1]
    rcases ck_pauseHooks (stopMovables (forBundlers x suspendMonitors)) with h | h
    · exact (ck_msgs h).trans (ck_msgs hck0)
    · exact (congrArg Ck.msgs h).trans (ck_msgs hck0)
  · show s1.rewindable = x.rewindable
    rw [ck_rew hck1]
    rcases ck_pauseHooks (stopMovables (forBundlers x suspendMonitors)) with h | h
    · exact (ck_rew h).trans (ck_rew hck0)
    · exact (congrArg Ck.rew h).trans (ck_rew hck0)
  · show s1.planStack = x.planStack
    rw [ck_plans hck1]
    rcases ck_pauseHooks (stopMovables (forBundlers x suspendMonitors)) with h | h
    · exact (ck_plans h).trans (ck_plans hck0)
    · exact (congrArg Ck.plans h).trans (ck_plans hck0)
  · show s1.respStack = x.respStack
    rw [ck_resps hck1]
    rcases ck_pauseHooks (stopMovables (forBundlers x suspendMonitors)) with h | h
    · exact (ck_resps h).trans (ck_resps hck0)
    · exact (congrArg Ck.resps h).trans (ck_resps hck0)
  · show s1.msgCache = x.msgCache ∨ s1.msgCache = resetOpt x.msgCache
    rw [ck_cache hck1]
    rcases ck_pauseHooks (stopMovables (forBundlers x suspendMonitors)) with h | h
    · left; exact (ck_cache h).trans (ck_cache hck0)
    · right
      have := congrArg Ck.cache h
      simp only [ck, Ck.reset] at this
      rw [this, show (stopMovables (forBundlers x suspendMonitors)).msgCache = x.msgCache from ck_cache hck0]
  · show s1.permit = x.permit
    exact (congrArg Ctl.permit hctl1).trans (congrArg Ctl.permit hctl)
  · show s1.deferredPause = x.deferredPause
    exact (congrArg Ctl.deferredPause hctl1).trans (congrArg Ctl.deferredPause hctl)
  · show s1.interrupted = x.interrupted
    exact (congrArg Ctl.interrupted hctl1).trans (congrArg Ctl.interrupted hctl)

/-- `_request_pause_coro(defer=False)` from `running`, spelled out -/
theorem requestPause_now (s : EState) (hst : s.state = .running) :
    ∃ s', requestPause s false = .ok s' ∧ s'.state = .pausing ∧ s'.cancelPending = true ∧ s'.deferredPause = false ∧
      s'.interrupted = true ∧ s'.permit = s.permit ∧ s'.stashed = s.stashed ∧ s'.pc = s.pc ∧
      s'.blockingEvent = s.blockingEvent ∧ ck s' = ck s ∧ s'.exceptionSlot = s.exceptionSlot := by
  have hcan : (Src.transitions s.state).contains .pausing = true := by rw [hst]; exact running_to_pausing
  obtain ⟨s1, hs1, hs1st, hs1ctl, hs1ck, hs1x⟩ := setState_ok { s with deferredPause := false, interrupted := true } .pausing hcan
  have hreq : requestPause s false = .ok { (forBundlers s1 (fun s b => recordInterruption s b "pause")) with cancelPending := true } := by
    unfold requestPause
    simp only [hcan, Bool.not_true, Bool.false_eq_true, if_false]
    rw [hs1]
  have hc2 : ctl (forBundlers s1 (fun s b => recordInterruption s b "pause")) = ctl s1 :=
    ctl_forBundlers _ (fun s b => ctl_recordInterruption s b "pause") s1
  have hk2 : ck (forBundlers s1 (fun s b => recordInterruption s b "pause")) = ck s1 := ck_forBundlers_ri s1 "pause"
  have hx2 : ∀ (s : EState) (todo done : List (String × Bundler)),
      (forBundlers.go (fun s b => recordInterruption s b "pause") s todo done).exceptionSlot = s.exceptionSlot := by
    intro s todo
    induction todo generalizing s with
    | nil => intro done; rfl
    | cons kb rest ih =>
      intro done
      obtain ⟨k, b⟩ := kb
      unfold forBundlers.go
      simp only []
      rw [ih]
      unfold recordInterruption
      split <;> rfl
  refine ⟨_, hreq, ?_, rfl, ?_, ?_, ?_, ?_, ?_, ?_, ?_, ?_⟩
  · exact (congrArg Ctl.state hc2).trans hs1st
  · exact (congrArg Ctl.deferredPause hc2).trans (congrArg Ctl.deferredPause hs1ctl)
  · exact (congrArg Ctl.interrupted hc2).trans (congrArg Ctl.interrupted hs1ctl)
  · exact (congrArg Ctl.permit hc2).trans (congrArg Ctl.permit hs1ctl)
  · exact (congrArg Ctl.stashed hc2).trans (congrArg Ctl.stashed hs1ctl)
  · exact (congrArg Ctl.pc hc2).trans (congrArg Ctl.pc hs1ctl)
  · exact (congrArg Ctl.blockingEvent hc2).trans (congrArg Ctl.blockingEvent hs1ctl)
  · show ck (forBundlers s1 _) = ck s
    rw [hk2, hs1ck]; rfl
  · show (forBundlers s1 _).exceptionSlot = s.exceptionSlot
    exact (hx2 s1 s1.bundlers []).trans hs1x

theorem advanceAt_ckpt (n : Nat) (s : EState) (h : s.pc = .inCkptSleep) :
    advanceAt n false s = (match requestPause s false with
      | .ok s => runLoop n (fin s .none)
      | .error e => runLoop n (fin s (.exc e))) := by
  unfold advanceAt; rw [h]; rfl

theorem advanceAt_loopSleep_cancel (n : Nat) (s : EState) (h : s.pc = .loopSleep) :
    advanceAt n true s = contFlow n (hCancel s .none) := by
  unfold advanceAt; rw [h]; rfl

theorem advanceAt_loopSleep (n : Nat) (s : EState) (h : s.pc = .loopSleep) :
    advanceAt n false s = contFlow n (afterSleep s) := by
  unfold advanceAt; rw [h]; rfl

theorem runLoop_stop (n : Nat) (s s' : EState) (h : loopTop s = .stop s') (hnf : s'.pc ≠ .finished) :
    runLoop (n + 1) s = s' := by
  unfold runLoop
  rw [h]
  have : (s'.pc == PC.finished) = false := by
    cases hp : s'.pc <;> first | rfl | exact absurd hp hnf
  simp only [this, Bool.false_eq_true, if_false]

theorem runLoop_continue (n : Nat) (s s' : EState) (h : loopTop s = .loopTop s') :
    runLoop (n + 1) s = runLoop n s' := by
  rw [runLoop, h]

theorem hCancel_pausing (s : EState) (r : Resp) (h : s.state = .pausing) :
    hCancel s r = .loopTop (fin { s with permit := false } r) := by
  unfold hCancel
  have : (s.state == St.pausing) = true := by rw [h]; rfl
  rw [if_pos this]

/-- the 0.5 s sleep of `_checkpoint` ends (no cancellation): the pause is requested and `_run` goes to the
    loop-top sleep WITHOUT processing a message -/
theorem ckptSleep_step (n : Nat) (s : EState) (c : List Msg)
    (hpc : s.pc = .inCkptSleep) (hst : s.state = .running) (hperm : s.permit = true)
    (hstash : s.stashed = none) (hcache : s.msgCache = some c) :
    (advanceAt (n + 1) false s).pc = .loopSleep ∧ (advanceAt (n + 1) false s).state = .pausing ∧
    (advanceAt (n + 1) false s).cancelPending = true ∧ (advanceAt (n + 1) false s).deferredPause = false ∧
    (advanceAt (n + 1) false s).interrupted = true ∧ (advanceAt (n + 1) false s).permit = true ∧
    (advanceAt (n + 1) false s).msgs = s.msgs ∧ (advanceAt (n + 1) false s).msgCache = some c ∧
    (advanceAt (n + 1) false s).blockingEvent = s.blockingEvent ∧
    (advanceAt (n + 1) false s).planStack = s.planStack ∧ (advanceAt (n + 1) false s).rewindable = s.rewindable := by
  obtain ⟨s1, hreq, h1, h2, h3, h4, h5, h6, h7, h8, h9, _⟩ := requestPause_now s hst
  obtain ⟨rs, hfin⟩ := fin_eq s1 .none
  have hcache1 : s1.msgCache = some c := (ck_cache h9).trans hcache
  have hlt : loopTop (fin s1 .none) = .stop { (fin s1 .none) with pc := .loopSleep, resp := none } := by
    apply loopTop_sleep
    · rw [hfin]; show s1.state ≠ _; rw [h1]; decide
    · rw [hfin]; show ((s1.state == _ || s1.state == _) && s1.msgCache.isNone) = false
      rw [hcache1]; simp
    · rw [hfin]; show s1.permit = true; rw [h5, hperm]
    · rw [hfin]; show s1.stashed = none; rw [h6, hstash]
  have hadv : advanceAt (n + 1) false s = { (fin s1 .none) with pc := .loopSleep, resp := none } := by
    rw [advanceAt_ckpt _ _ hpc, hreq]
    exact runLoop_stop _ _ _ hlt (by show PC.loopSleep ≠ _; decide)
  rw [hadv, hfin]
  have k1 : s1.msgs = s.msgs := ck_msgs h9
  have k2 : s1.planStack = s.planStack := ck_plans h9
  have k3 : s1.rewindable = s.rewindable := ck_rew h9
  exact ⟨rfl, h1, h2, h3, h4, h5.trans hperm, k1, hcache1, h8, k2, k3⟩

/-- the pending cancellation is delivered at the loop-top sleep while `pausing`: the permit is cleared and the
    engine pauses -- again WITHOUT processing a message -/
theorem pause_step (n : Nat) (s : EState) (c : List Msg)
    (hpc : s.pc = .loopSleep) (hst : s.state = .pausing) (hcancel : s.cancelPending = true)
    (hcache : s.msgCache = some c) :
    (advance (n + 1) s).pc = .pausedWait ∧ (advance (n + 1) s).state = .paused ∧
    (advance (n + 1) s).blockingEvent = true ∧ (advance (n + 1) s).msgs = s.msgs ∧
    ((advance (n + 1) s).msgCache = some c ∨ (advance (n + 1) s).msgCache = some []) ∧
    (advance (n + 1) s).planStack = s.planStack ∧ (advance (n + 1) s).rewindable = s.rewindable ∧
    (advance (n + 1) s).deferredPause = s.deferredPause ∧ (advance (n + 1) s).interrupted = s.interrupted := by
  obtain ⟨rs, hfin⟩ := fin_eq { s with cancelPending := false, permit := false } .none
  have hx : loopTop (fin { s with cancelPending := false, permit := false } .none) =
      pauseBlock (fin { s with cancelPending := false, permit := false } .none) := by
    apply loopTop_pause
    · rw [hfin]; exact hst
    · rw [hfin]; show s.msgCache.isSome = true; rw [hcache]; rfl
    · rw [hfin]
  obtain ⟨s', hpb, p1, p2, p3, p4, p5, p6, _, p8, _, p10, p11⟩ :=
    pauseBlock_pauses (fin { s with cancelPending := false, permit := false } .none) (by rw [hfin]; exact hst)
  have hadv : advance (n + 1) s = s' := by
    unfold advance
    rw [hcancel, advanceAt_loopSleep_cancel _ _ (show ({ s with cancelPending := false } : EState).pc = _ from hpc),
      hCancel_pausing _ _ (show ({ s with cancelPending := false } : EState).state = _ from hst)]
    show runLoop (n + 1) _ = s'
    exact runLoop_stop _ _ _ (hx.trans hpb) (by rw [p1]; decide)
  rw [hadv]
  rw [hfin] at p4 p5 p6 p8 p10 p11
  refine ⟨p1, p2, p3, p4, ?_, p6, p5, p10, p11⟩
  rcases p8 with h | h
  · left; exact h.trans hcache
  · right; rw [h]; show resetOpt s.msgCache = _; rw [hcache]; rfl

end BlueskyVerif.Engine
