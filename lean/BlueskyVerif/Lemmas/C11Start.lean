/-
C11 helper lemmas, part 3: what `_start_suspender` does to the device ledger, the documents, the message
cache and the bundlers.
-/
import BlueskyVerif.Lemmas.C11Frame
import BlueskyVerif.Lemmas.C11Helper

namespace BlueskyVerif.Engine

/-! ### generic projections through `forBundlers` and folds -/

theorem proj_forBundlers_go {α} (π : EState → α) (f : EState → Bundler → EState × Bundler)
    (hf : ∀ s b, π (f s b).1 = π s) (hb : ∀ (s : EState) l, π { s with bundlers := l } = π s)
    (todo done : List (String × Bundler)) (s : EState) : π (forBundlers.go f s todo done) = π s := by
  induction todo generalizing s done with
  | nil => exact hb s _
  | cons kb rest ih =>
    obtain ⟨k, b⟩ := kb
    unfold forBundlers.go
    simp only []
    rw [ih]; exact hf s b

theorem proj_forBundlers {α} (π : EState → α) (f : EState → Bundler → EState × Bundler)
    (hf : ∀ s b, π (f s b).1 = π s) (hb : ∀ (s : EState) l, π { s with bundlers := l } = π s) (s : EState) :
    π (forBundlers s f) = π s := proj_forBundlers_go π f hf hb _ _ s

/-- what the device side of `_start_suspender` looks at / must not change -/
def devSide (s : EState) := (s.calls, s.moved, s.objsSeen, s.devSpecs, s.msgCache, s.rewindable)

theorem devSide_forBundlers_ri (s : EState) (c : String) :
    devSide (forBundlers s (fun s b => recordInterruption s b c)) = devSide s := by
  apply proj_forBundlers devSide
  · intro s b; unfold recordInterruption; split <;> rfl
  · intro s l; rfl

theorem calls_docs_forBundlers_pure (s : EState) (g : Bundler → Bundler) :
    (forBundlers s (fun s b => (s, g b))).calls = s.calls ∧ (forBundlers s (fun s b => (s, g b))).docs = s.docs := by
  have := proj_forBundlers (fun s => (s.calls, s.docs)) (fun s b => (s, g b)) (fun _ _ => rfl) (fun _ _ => rfl) s
  exact ⟨congrArg Prod.fst this, congrArg Prod.snd this⟩

/-! ### the interruption documents -/

/-- the `interruptions` event written for bundler `b` -/
def intDoc (c : String) (b : Bundler) : Doc :=
  { kind := "event", run := b.runId, stream := "interruptions", seq := b.counter "interruptions", data := [], note := c }

theorem recordInterruption_docs (s : EState) (b : Bundler) (c : String) :
    (recordInterruption s b c).1.docs = if b.recordInt then s.docs ++ [intDoc c b] else s.docs := by
  unfold recordInterruption
  split
  · rfl
  · rfl

theorem forBundlers_ri_docs_go (c : String) (todo done : List (String × Bundler)) (s : EState) :
    (forBundlers.go (fun s b => recordInterruption s b c) s todo done).docs =
      s.docs ++ (todo.filter (fun kb => kb.2.recordInt)).map (fun kb => intDoc c kb.2) := by
  induction todo generalizing s done with
  | nil => simp [forBundlers.go]
  | cons kb rest ih =>
    obtain ⟨k, b⟩ := kb
    unfold forBundlers.go
    simp only []
    rw [ih, recordInterruption_docs]
    cases hb : b.recordInt <;> simp [hb]

/-- every bundler that records interruptions gets exactly one `interruptions` event, in bundler order -/
theorem forBundlers_ri_docs (s : EState) (c : String) :
    (forBundlers s (fun s b => recordInterruption s b c)).docs =
      s.docs ++ (s.bundlers.filter (fun kb => kb.2.recordInt)).map (fun kb => intDoc c kb.2) :=
  forBundlers_ri_docs_go c _ _ s

/-! ### stopping the moved devices -/

def stopCall (n : String) : Call := { dev := n, op := "stop" }

theorem stop_fold (l : List String) (s : EState) :
    (l.foldl (fun s n =>
        let (mode, s) := nextMode s n "stop"
        let (_, s) := (mode, s)
        s.logCall { dev := n, op := "stop" }) s).calls = s.calls ++ l.map stopCall ∧
    (l.foldl (fun s n =>
        let (mode, s) := nextMode s n "stop"
        let (_, s) := (mode, s)
        s.logCall { dev := n, op := "stop" }) s).docs = s.docs := by
  induction l generalizing s with
  | nil => simp
  | cons n l ih =>
    rw [List.foldl_cons]
    obtain ⟨h1, h2⟩ := ih ((fun s n =>
        let (mode, s) := nextMode s n "stop"
        let (_, s) := (mode, s)
        s.logCall { dev := n, op := "stop" }) s n)
    rw [h1, h2]
    constructor
    · simp [EState.logCall, nextMode, setDev, stopCall]
    · rfl

/-- `_stop_movable_objects`: one `stop` per moved device, in order; no document -/
theorem stopMovables_calls (s : EState) :
    (stopMovables s).calls = s.calls ++ s.moved.map stopCall ∧ (stopMovables s).docs = s.docs := by
  unfold stopMovables
  exact stop_fold s.moved s

/-! ### the pause hooks only add `pause` calls -/

/-- `s'` extends the ledger of `s` by `pause` calls only and has the same documents -/
def PauseExt (s s' : EState) : Prop :=
  ∃ more : List Call, s'.calls = s.calls ++ more ∧ (∀ c ∈ more, c.op = "pause") ∧ s'.docs = s.docs

theorem PauseExt.refl (s : EState) : PauseExt s s := ⟨[], by simp, by simp, rfl⟩

theorem PauseExt.trans {a b c : EState} (h1 : PauseExt a b) (h2 : PauseExt b c) : PauseExt a c := by
  obtain ⟨m1, e1, p1, d1⟩ := h1
  obtain ⟨m2, e2, p2, d2⟩ := h2
  refine ⟨m1 ++ m2, ?_, ?_, d2.trans d1⟩
  · rw [e2, e1, List.append_assoc]
  · intro c hc
    rcases List.mem_append.mp hc with h | h
    · exact p1 c h
    · exact p2 c h

theorem resetCheckpointMeth_calls_docs (s : EState) :
    (resetCheckpointMeth s).calls = s.calls ∧ (resetCheckpointMeth s).docs = s.docs := by
  unfold resetCheckpointMeth
  split
  · exact ⟨rfl, rfl⟩
  · exact calls_docs_forBundlers_pure _ _

theorem pauseExt_foldl {α} (f : EState → α → EState) (h : ∀ s a, PauseExt s (f s a)) (l : List α) (s : EState) :
    PauseExt s (l.foldl f s) := by
  induction l generalizing s with
  | nil => exact PauseExt.refl s
  | cons a l ih => rw [List.foldl_cons]; exact (h s a).trans (ih _)

theorem pauseHooks_ext (s : EState) : PauseExt s (pauseHooks s) := by
  unfold pauseHooks
  apply pauseExt_foldl
  intro s n
  split
  · split
    · simp only []
      have base : PauseExt s ((nextMode s n "pause").2.logCall { dev := n, op := "pause" }) :=
        ⟨[{ dev := n, op := "pause" }], rfl, by simp, rfl⟩
      split
      · obtain ⟨hc, hd⟩ := resetCheckpointMeth_calls_docs ((nextMode s n "pause").2.logCall { dev := n, op := "pause" })
        obtain ⟨m, e, p, d⟩ := base
        exact ⟨m, hc.trans e, p, hd.trans d⟩
      · exact base
    · exact PauseExt.refl s
  · exact PauseExt.refl s

/-! ### the rewind -/

theorem forBundlers_pure_go (g : Bundler → Bundler) (todo done : List (String × Bundler)) (s : EState) :
    forBundlers.go (fun s b => (s, g b)) s todo done =
      { s with bundlers := done.reverse ++ todo.map (fun kb => (kb.1, g kb.2)) } := by
  induction todo generalizing done with
  | nil => simp [forBundlers.go]
  | cons kb rest ih =>
    obtain ⟨k, b⟩ := kb
    unfold forBundlers.go
    simp only []
    rw [ih]
    simp

theorem forBundlers_pure (s : EState) (g : Bundler → Bundler) :
    forBundlers s (fun s b => (s, g b)) = { s with bundlers := s.bundlers.map (fun kb => (kb.1, g kb.2)) } := by
  unfold forBundlers
  rw [forBundlers_pure_go]
  simp

/-- `RunEngine._rewind`: hands out the cached messages, empties the cache and -- when there was something
    to replay -- rewinds every bundler; ledger and documents are untouched -/
theorem rewindPlan_spec (s : EState) :
    (rewindPlan s).1 = s.msgCache.getD [] ∧
    (rewindPlan s).2.msgCache = some [] ∧
    (rewindPlan s).2.bundlers =
      (if (s.msgCache.getD []).isEmpty then s.bundlers else s.bundlers.map (fun kb => (kb.1, kb.2.rewind))) ∧
    (rewindPlan s).2.calls = s.calls ∧ (rewindPlan s).2.docs = s.docs ∧ (rewindPlan s).2.rewindable = s.rewindable := by
  unfold rewindPlan
  simp only []
  split
  · simp
  · rw [forBundlers_pure]
    simp

end BlueskyVerif.Engine
