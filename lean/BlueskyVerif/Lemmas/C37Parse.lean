/-
Helper lemmas for C37: what the three parsers (Python format spec, C conversion, regex) return on
strings of the shapes that occur, for ARBITRARY digit strings.
-/
import BlueskyVerif.Lemmas.C37Digits

namespace BlueskyVerif.C37
open BlueskyVerif.PyStr BlueskyVerif.Printf

/-- the format specs int_replacer can produce: `[<][sign][0]digits d` -/
def specShape (al : Bool) (sg : Option Char) (z : Bool) (w : Str) : Str :=
  (if al then ['<'] else []) ++ (sg.toList ++ ((if z then ['0'] else []) ++ (w ++ ['d'])))

def SignOk (sg : Option Char) : Prop := sg = none ∨ sg = some '+' ∨ sg = some ' '

theorem pyAlign_noalign {s : Str} (h : ∀ c ∈ s, isAlign c = false) : pyAlign s = (none, none, s) := by
  match s with
  | [] => rfl
  | [f] => simp [pyAlign, h f (by simp)]
  | f :: a :: r => simp [pyAlign, h f (by simp), h a (by simp)]

theorem pyAlign_lt {s : Str} (h : ∀ c ∈ s, isAlign c = false) : pyAlign ('<' :: s) = (none, some '<', s) := by
  match s with
  | [] => simp [pyAlign, isAlign]
  | a :: r =>
    have ha := h a (by simp)
    have hl : isAlign '<' = true := by decide
    simp [pyAlign, ha, hl]

theorem tail_noalign {z : Bool} {w : Str} (hw : AllDig w) :
    ∀ c ∈ ((if z then ['0'] else []) ++ (w ++ ['d'])), isAlign c = false := by
  intro c hc
  simp only [List.mem_append, List.mem_singleton] at hc
  rcases hc with hc | hc | hc
  · cases z <;> simp at hc; subst hc; decide
  · exact dig_not_align (hw c hc)
  · subst hc; decide

theorem pyParseSpec_shape (al : Bool) (sg : Option Char) (z : Bool) (w : Str)
    (hsg : SignOk sg) (hw : AllDig w) (hz : z = false → w.head? ≠ some '0') :
    pyParseSpec (specShape al sg z w) =
      some { fill := none, align := if al then some '<' else none, sign := sg, alt := false, zero := z,
             width := if w.isEmpty then none else some (pyInt w) } := by
  -- stage 1: alignment
  have hna : ∀ c ∈ (sg.toList ++ ((if z then ['0'] else []) ++ (w ++ ['d']))), isAlign c = false := by
    intro c hc
    rcases List.mem_append.mp hc with hc | hc
    · rcases hsg with rfl | rfl | rfl <;> simp at hc <;> subst hc <;> decide
    · exact tail_noalign hw c hc
  have h1 : pyAlign (specShape al sg z w) =
      (none, (if al then some '<' else none), sg.toList ++ ((if z then ['0'] else []) ++ (w ++ ['d']))) := by
    cases al
    · simpa [specShape] using pyAlign_noalign hna
    · simpa [specShape] using pyAlign_lt hna
  -- the head of the tail is '0', a digit or 'd'
  have htail : ∀ c r, ((if z then ['0'] else []) ++ (w ++ ['d'])) = c :: r → isSign c = false ∧ c ≠ '#' := by
    intro c r h
    have hc : c ∈ ((if z then ['0'] else []) ++ (w ++ ['d'])) := by rw [h]; simp
    simp only [List.mem_append, List.mem_singleton] at hc
    rcases hc with hc | hc | hc
    · cases z <;> simp at hc; subst hc; exact ⟨by decide, by decide⟩
    · exact ⟨dig_not_sign (hw c hc), (dig_ne (hw c hc)).1⟩
    · subst hc; exact ⟨by decide, by decide⟩
  have hne : ((if z then ['0'] else []) ++ (w ++ ['d'])) ≠ [] := by cases z <;> simp
  -- stage 2: sign
  have h2 : pySign (sg.toList ++ ((if z then ['0'] else []) ++ (w ++ ['d']))) =
      (sg, (if z then ['0'] else []) ++ (w ++ ['d'])) := by
    rcases hsg with rfl | rfl | rfl
    · cases ht : ((if z then ['0'] else []) ++ (w ++ ['d'])) with
      | nil => exact absurd ht hne
      | cons c r => simp [pySign, (htail c r ht).1]
    · simp [pySign, isSign]
    · simp [pySign, isSign]
  -- stage 3: '#'
  have h3 : pyHash ((if z then ['0'] else []) ++ (w ++ ['d'])) = (false, (if z then ['0'] else []) ++ (w ++ ['d'])) := by
    cases ht : ((if z then ['0'] else []) ++ (w ++ ['d'])) with
    | nil => exact absurd ht hne
    | cons c r => simp [pyHash, (htail c r ht).2]
  -- stage 4: zero flag
  have h4 : pyZero false ((if z then ['0'] else []) ++ (w ++ ['d'])) = (z, w ++ ['d']) := by
    cases z
    · cases w with
      | nil => simp [pyZero]
      | cons c r =>
        have : c ≠ '0' := by simpa using hz rfl
        simp [pyZero, this]
    · simp [pyZero]
  -- stage 5: width digits, type
  have h5 := takeWhile_run (p := isDig) hw 'd' [] (by decide)
  unfold pyParseSpec
  simp only [h1, h2, h3, Option.isSome_none, h4, h5.1, h5.2]
  simp [pyTypeOk]

/-! ### the C parser on the template text -/

theorem flagClass_cflag : ∀ c ∈ flagClass, isCFlag c = true := by decide

structure GroupsWF (flags : Str) (w p : Option Str) : Prop where
  flags_ok : ∀ c ∈ flags, c ∈ flagClass
  width_ok : ∀ ws, w = some ws → ws ≠ [] ∧ AllDig ws ∧ ws.head? ≠ some '0'
  prec_ok : ∀ ps, p = some ps → ps ≠ [] ∧ AllDig ps

theorem afterFlags_head {w p : Option Str} {flags : Str} (wf : GroupsWF flags w p) :
    ∃ c r, afterFlags w p = c :: r ∧ isCFlag c = false ∧ c ∉ flagClass := by
  cases w with
  | some ws =>
    obtain ⟨hne, hd, h0⟩ := wf.width_ok ws rfl
    cases ws with
    | nil => exact absurd rfl hne
    | cons c r =>
      refine ⟨c, _, by simp [afterFlags]; rfl, ?_, ?_⟩
      · exact dig_cflag (hd c (by simp)) (by simpa using h0)
      · have hc := hd c (by simp)
        have h0' : c ≠ '0' := by simpa using h0
        rcases isDig_cases hc with rfl | rfl | rfl | rfl | rfl | rfl | rfl | rfl | rfl | rfl <;>
          first | exact absurd rfl h0' | decide
  | none =>
    cases p with
    | some ps => exact ⟨'.', _, by simp [afterFlags]; rfl, by decide, by decide⟩
    | none => exact ⟨'d', [], by simp [afterFlags], by decide, by decide⟩

theorem widthPart (w : Option Str) {flags : Str} {p : Option Str} (wf : GroupsWF flags w p) (c : Char) (r : Str) (hc : isDig c = false) :
    (w.getD [] ++ c :: r).takeWhile isDig = w.getD [] ∧ (w.getD [] ++ c :: r).dropWhile isDig = c :: r := by
  cases w with
  | none => simp [hc]
  | some ws => exact takeWhile_run (wf.width_ok ws rfl).2.1 c r hc

theorem getD_isEmpty {w : Option Str} {flags : Str} {p : Option Str} (wf : GroupsWF flags w p) :
    (w.getD []).isEmpty = !truthy w := by
  cases w with
  | none => rfl
  | some ws => have := (wf.width_ok ws rfl).1; cases ws <;> simp_all [truthy]

theorem flags_run_c {flags : Str} {w p : Option Str} (wf : GroupsWF flags w p) (rest : Str) :
    (flags ++ (afterFlags w p ++ rest)).takeWhile isCFlag = flags ∧
    (flags ++ (afterFlags w p ++ rest)).dropWhile isCFlag = afterFlags w p ++ rest := by
  obtain ⟨c, r, hc, hcf, _⟩ := afterFlags_head wf
  rw [hc]
  exact takeWhile_run (p := isCFlag) (fun c h => flagClass_cflag c (wf.flags_ok c h)) c (r ++ rest) hcf

theorem flags_run_re {flags : Str} {w p : Option Str} (wf : GroupsWF flags w p) (rest : Str) :
    (flags ++ (afterFlags w p ++ rest)).takeWhile (fun c => decide (c ∈ flagClass)) = flags ∧
    (flags ++ (afterFlags w p ++ rest)).dropWhile (fun c => decide (c ∈ flagClass)) = afterFlags w p ++ rest := by
  obtain ⟨c, r, hc, _, hcf⟩ := afterFlags_head wf
  rw [hc]
  exact takeWhile_run (p := fun c => decide (c ∈ flagClass)) (s := flags)
    (fun c h => by simpa using wf.flags_ok c h) c (r ++ rest) (by simpa using hcf)

theorem cParse_tmpl (flags : Str) (w p : Option Str) (wf : GroupsWF flags w p) :
    cParse (tmpl flags w p) =
      some { minus := decide ('-' ∈ flags), plus := decide ('+' ∈ flags), space := decide (' ' ∈ flags),
             hash := decide ('#' ∈ flags), zero := decide ('0' ∈ flags),
             width := w.map pyInt, prec := p.map pyInt } := by
  have hfl := flags_run_c wf []
  simp only [List.append_nil] at hfl
  unfold cParse tmpl
  simp only [hfl.1, hfl.2]
  cases p with
  | none =>
    have hw := widthPart w wf 'd' [] (by decide)
    simp only [afterFlags, List.nil_append, hw.1, hw.2]
    cases w with
    | none => simp
    | some ws => have := (wf.width_ok ws rfl).1; simp [this]
  | some ps =>
    obtain ⟨_, hpd⟩ := wf.prec_ok ps rfl
    have hw := widthPart w wf '.' (ps ++ ['d']) (by decide)
    have hp := takeWhile_run (p := isDig) hpd 'd' [] (by decide)
    simp only [afterFlags, List.cons_append, hw.1, hw.2]
    cases w with
    | none => simp [hp.1, hp.2]
    | some ws => have := (wf.width_ok ws rfl).1; simp [this, hp.1, hp.2]

/-! ### the regex on the template text -/

theorem reMatch_tmpl (flags : Str) (w p : Option Str) (wf : GroupsWF flags w p) (rest : Str) :
    reMatch (tmpl flags w p ++ rest) =
      some ({ flags := flags, width := w, precision := p, typeChar := ['d'] }, rest) := by
  have hfl := flags_run_re wf rest
  have hog : optGroup (w.getD []) = w := by
    cases w with
    | none => rfl
    | some ws => have := (wf.width_ok ws rfl).1; cases ws <;> simp_all [optGroup]
  have hd : 'd' ∈ typeClass := by decide
  unfold reMatch tmpl
  simp only [List.cons_append, List.append_assoc, hfl.1, hfl.2]
  cases p with
  | none =>
    have hw := widthPart w wf 'd' rest (by decide)
    simp only [afterFlags, List.nil_append, List.append_assoc, List.cons_append, hw.1, hw.2, hog]
    simp [hd]
  | some ps =>
    obtain ⟨hpne, hpd⟩ := wf.prec_ok ps rfl
    have hw := widthPart w wf '.' (ps ++ 'd' :: rest) (by decide)
    have hp := takeWhile_run (p := isDig) hpd 'd' rest (by decide)
    simp only [afterFlags, List.nil_append, List.append_assoc, List.cons_append, hw.1, hw.2, hog]
    simp [hp.1, hp.2, hd, hpne]

end BlueskyVerif.C37
