/-
C08 helper lemmas (on top of the C02 chain `Res` / `schedule_res`): what is known when a blocking call
hands control back; who sets `_interrupted`.
-/
import BlueskyVerif.Lemmas.C02Req

namespace BlueskyVerif.Engine

/-- the state in which a blocking call may hand control back -/
def Returned (s : EState) : Prop :=
  (s.pc = .pausedWait ∧ s.state = .paused ∧ s.interrupted = true) ∨
  (s.pc = .finished ∧ (s.state = .idle ∨ s.cleanupExc.isSome) ∧ s.bundlers = [])

theorem Res.returned {s : EState} (h : Res s) (hb : s.blockingEvent = true) : Returned s := by
  rcases h.2.2.2 hb with hp | hf
  · exact Or.inl hp
  · obtain ⟨x, l, hx, _⟩ := h.2.2.1 hf
    refine Or.inr ⟨hf, ?_, ?_⟩
    · rw [hx]
      exact cleanup_state x
    · rw [hx]
      exact finish_bundlers x

/-- `finishTask` never leaves the result pending -/
theorem finishTask_not_pending (s : EState) : (finishTask s).taskResult ≠ .pending := by
  unfold finishTask
  simp only []
  cases s.cleanupExc with
  | some e => simp
  | none =>
    cases s.exitExc with
    | none => simp
    | some e =>
      by_cases hs : (s.stashed == some Exc.cancelled) = true
      · cases e <;> simp [hs]
      · cases e <;> simp [hs]

/-- if the task returned, the loop was left through a handler that swallows the exception -/
theorem finishTask_swallowed (s : EState) (e : Exc) (he : s.exitExc = some e)
    (hr : (finishTask s).taskResult = .returned) : e.sleeper = true := by
  unfold finishTask at hr
  simp only [he] at hr
  cases hc : s.cleanupExc with
  | some c => rw [hc] at hr; simp at hr
  | none =>
    rw [hc] at hr
    by_cases hs : (s.stashed == some Exc.cancelled) = true
    · cases e <;> simp [hs] at hr ⊢
    · cases e <;> simp [hs, Exc.sleeper] at hr ⊢

/-! ### who sets `_interrupted` -/

theorem requestPause_interrupted {s s' : EState} {d : Bool} (h : requestPause s d = .ok s') :
    s'.interrupted = (s.interrupted || !d) := by
  unfold requestPause at h
  split at h
  · cases h
  · split at h
    · rename_i hd; cases h; simp [hd]
    · rename_i hd
      split at h
      · cases h
      · rename_i s1 hs
        cases h
        obtain ⟨_, k2, _⟩ := setState_keep hs
        have hc : ctl (forBundlers s1 (fun s b => recordInterruption s b "pause")) = ctl s1 :=
          ctl_forBundlers _ (fun s b => ctl_recordInterruption s b "pause") _
        have hd' : d = false := by simpa using hd
        have hi : (forBundlers s1 (fun s b => recordInterruption s b "pause")).interrupted = true :=
          (congrArg Ctl.interrupted hc).trans k2
        show (forBundlers s1 _).interrupted = _
        rw [hi, hd']; simp

theorem pushSuspender_interrupted (f : Nat) (pre post : Option Gen) (j : Option String) (s : EState) :
    (pushSuspender f pre post j s).interrupted = s.interrupted := by
  unfold pushSuspender
  simp only []
  split
  · split
    · rename_i s' hs; exact (setState_keep hs).2.1
    · rfl
  · rfl

theorem foldl_interrupted {α} (f : EState → α → EState) (h : ∀ s a, (f s a).interrupted = s.interrupted)
    (l : List α) (s : EState) : (l.foldl f s).interrupted = s.interrupted := by
  induction l generalizing s with
  | nil => rfl
  | cons a l ih => rw [List.foldl_cons, ih, h]

/-- An environment action sets `_interrupted` only if it is a non-deferred pause request, an
    ACCEPTED abort/stop/halt request (a refused one stores nothing), or a suspension request while no checkpoint exists;
    no action resets it. -/
theorem applyAction_interrupted (s : EState) (a : Action) :
    (applyAction s a).interrupted = s.interrupted ∨
    ((applyAction s a).interrupted = true ∧
      (a matches .pause false ∨ a matches .abort ∨ a matches .stop ∨ a matches .halt ∨
       (s.msgCache.isNone = true ∧ ∃ f pre post j, a = .suspend f pre post j))) := by
  cases a with
  | pause d =>
    simp only [applyAction]
    split
    · rename_i s' h
      have := requestPause_interrupted h
      cases d
      · right; exact ⟨by rw [this]; simp, Or.inl rfl⟩
      · left; rw [this]; simp
    · left; rfl
  | suspend f pre post j =>
    simp only [applyAction]
    unfold requestSuspend
    split
    · rename_i hm
      right
      refine ⟨?_, Or.inr (Or.inr (Or.inr (Or.inr ⟨hm, f, pre, post, j, rfl⟩)))⟩
      simp only []
      split
      · rfl
      · rename_i s' hs
        rw [pushSuspender_interrupted]
        split
        · exact (setState_keep hs).2.1
        · exact (setState_keep hs).2.1
    · left; exact pushSuspender_interrupted f pre post j s
  | release f => left; simp only [applyAction]; split <;> rfl
  | abort =>
    simp only [applyAction]
    by_cases hi : s.state = .idle
    · left; unfold requestTerminate; simp [hi]; rfl
    · unfold requestTerminate
      have hidle : (s.state == .idle) = false := by simpa using hi
      simp only [hidle, Bool.false_eq_true, if_false]
      split
      · left; rfl
      · rename_i s' hs
        right
        exact ⟨(termAfter_fields s' _ _).2.1.trans ((setState_keep hs).2.1.trans (termPrep_fields s _ _).2.1), Or.inr (Or.inl trivial)⟩
  | stop =>
    simp only [applyAction]
    by_cases hi : s.state = .idle
    · left; unfold requestTerminate; simp [hi]; rfl
    · unfold requestTerminate
      have hidle : (s.state == .idle) = false := by simpa using hi
      simp only [hidle, Bool.false_eq_true, if_false]
      split
      · left; rfl
      · rename_i s' hs
        right
        exact ⟨(termAfter_fields s' _ _).2.1.trans ((setState_keep hs).2.1.trans (termPrep_fields s _ _).2.1), Or.inr (Or.inr (Or.inl trivial))⟩
  | halt =>
    simp only [applyAction]
    by_cases hi : s.state = .idle
    · left; unfold requestTerminate; simp [hi]; rfl
    · unfold requestTerminate
      have hidle : (s.state == .idle) = false := by simpa using hi
      simp only [hidle, Bool.false_eq_true, if_false]
      split
      · left; rfl
      · rename_i s' hs
        right
        exact ⟨(termAfter_fields s' _ _).2.1.trans ((setState_keep hs).2.1.trans (termPrep_fields s _ _).2.1), Or.inr (Or.inr (Or.inr (Or.inl trivial)))⟩
  | status k ok =>
    left
    simp only [applyAction]; split
    · split
      · rfl
      · unfold completeStatus
        simp only [List.getElem?_set]
        repeat' (first | rfl | split)
    · rfl
  | monitor sig v =>
    left
    simp only [applyAction]
    unfold monitorUpdate
    simp only []
    rw [foldl_interrupted]
    · rfl
    · intro s a; split <;> rfl

end BlueskyVerif.Engine
