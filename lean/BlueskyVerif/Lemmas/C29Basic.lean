/-
C29 helper lemmas: the numeric primitives `rabs/rmin/rmax/rclip` (Pure/C29RatOps.lean) against the
order of ℚ.  Proof file: single Mathlib modules only.
-/
import BlueskyVerif.Pure.C29RatOps
import Mathlib.Tactic.Linarith
import Mathlib.Tactic.Ring
import Mathlib.Tactic.NormNum
import Mathlib.Tactic.SplitIfs
import Mathlib.Tactic.Positivity
import Mathlib.Tactic.FieldSimp

namespace BlueskyVerif.Pure.C29

theorem rabs_eq_abs (x : Rat) : rabs x = |x| := by
  unfold rabs; split_ifs with h
  · exact (abs_of_nonneg h).symm
  · exact (abs_of_neg (not_le.mp h)).symm

theorem rabs_nonneg (x : Rat) : 0 ≤ rabs x := by rw [rabs_eq_abs]; exact abs_nonneg x

theorem rmin_le_left (a b : Rat) : rmin a b ≤ a := by unfold rmin; split_ifs <;> linarith
theorem rmin_le_right (a b : Rat) : rmin a b ≤ b := by unfold rmin; split_ifs <;> linarith
theorem le_rmin {a b c : Rat} (h1 : c ≤ a) (h2 : c ≤ b) : c ≤ rmin a b := by
  unfold rmin; split_ifs <;> assumption
theorem lt_rmin {a b c : Rat} (h1 : c < a) (h2 : c < b) : c < rmin a b := by
  unfold rmin; split_ifs <;> assumption
theorem rmin_eq_min (a b : Rat) : rmin a b = min a b := by
  unfold rmin; split_ifs with h
  · exact (min_eq_left h).symm
  · exact (min_eq_right (le_of_lt (not_le.mp h))).symm
theorem rmax_eq_max (a b : Rat) : rmax a b = max a b := by
  unfold rmax; split_ifs with h
  · exact (max_eq_right h).symm
  · exact (max_eq_left (le_of_lt (not_le.mp h))).symm
theorem le_rmax_left (a b : Rat) : a ≤ rmax a b := by unfold rmax; split_ifs <;> linarith
theorem le_rmax_right (a b : Rat) : b ≤ rmax a b := by unfold rmax; split_ifs <;> linarith
theorem rmin_le_rmax (a b : Rat) : rmin a b ≤ rmax a b := le_trans (rmin_le_left a b) (le_rmax_left a b)

theorem rclip_le (x lo hi : Rat) : rclip x lo hi ≤ hi := rmin_le_right _ _
theorem le_rclip (x : Rat) {lo hi : Rat} (h : lo ≤ hi) : lo ≤ rclip x lo hi :=
  le_rmin (le_rmax_right x lo) h

/-- `np.clip` is 1-Lipschitz -/
theorem rclip_sub_abs_le (a b : Rat) {lo hi : Rat} (h : lo ≤ hi) :
    |rclip a lo hi - rclip b lo hi| ≤ |a - b| := by
  rw [abs_le]
  have hab := neg_abs_le (a - b)
  have hab' := le_abs_self (a - b)
  have habn := abs_nonneg (a - b)
  unfold rclip rmin rmax
  constructor <;> split_ifs <;> linarith

end BlueskyVerif.Pure.C29
