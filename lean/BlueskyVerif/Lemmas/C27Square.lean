/-
C27 part B -- helper lemmas for `spiral_square_pattern` (model: Pure/SpiralSquare.lean, guards
GENERATED in Pure/SpiralSquareGenerated.lean).

Plan of the proof (all sizes x_num, y_num ≥ 2, no enumeration):
 1. the nested loops (rings → 4 guarded sides → inner guarded loop with the running counter) equal a
    flat `walk` over the list `allC` of (flag, point) candidates, flag = side guard && inner guard;
 2. on every candidate the flag is exactly grid membership `InGrid` (this is where the `<=` of side 1
    versus `<` elsewhere is absorbed by parity);
 3. the candidate points are pairwise distinct and are exactly the pairs with ring number
    `max |mx| |my| + 1` in `2 .. max x_num y_num` (4 disjoint sides per ring, rings disjoint);
 4. hence first point :: filtered candidates is duplicate free and has exactly the grid points as
    members, so it maps to a permutation of the grid and has x_num*y_num elements;
 5. therefore the counter guard `num_pnts_fnd < x_num*y_num` never blocks a grid point and the walk
    emits exactly that list.
-/
import BlueskyVerif.Pure.SpiralSquare
import Mathlib.Data.List.Nodup

namespace BlueskyVerif.C27
open BlueskyVerif.Pure.Spiral BlueskyVerif.Pure.SpiralSquare BlueskyVerif.Pure.SpiralSquare.Gen

theorem pyRange_up (a b : Int) : pyRange a b 1 = (List.range (b - a).toNat).map (fun (k : Nat) => a + (k : Int)) := by
  simp [pyRange]

theorem pyRange_down (a b : Int) : pyRange a b (-1) = (List.range (a - b).toNat).map (fun (k : Nat) => a - (k : Int)) := by
  have h : ¬ ((-1 : Int) > 0) := by decide
  simp only [pyRange, h, if_false]
  simp
  intro k _; omega

theorem mem_pyRange_up (a b x : Int) : x ∈ pyRange a b 1 ↔ a ≤ x ∧ x < b := by
  simp only [pyRange_up, List.mem_map, List.mem_range]
  constructor
  · rintro ⟨k, hk, rfl⟩; omega
  · intro h; exact ⟨(x - a).toNat, by omega, by omega⟩

theorem mem_pyRange_down (a b x : Int) : x ∈ pyRange a b (-1) ↔ b < x ∧ x ≤ a := by
  simp only [pyRange_down, List.mem_map, List.mem_range]
  constructor
  · rintro ⟨k, hk, rfl⟩; omega
  · intro h; exact ⟨(a - x).toNat, by omega, by omega⟩

theorem nodup_pyRange_up (a b : Int) : (pyRange a b 1).Nodup := by
  rw [pyRange_up]
  apply List.Nodup.map _ List.nodup_range
  intro x y h; simp at h; omega

theorem nodup_pyRange_down (a b : Int) : (pyRange a b (-1)).Nodup := by
  rw [pyRange_down]
  apply List.Nodup.map _ List.nodup_range
  intro x y h; simp at h; omega

/-- flat walk over (flag, point) candidates with the running counter -/
def walk (total : Int) : List (Bool × Pt) → St → St
  | [], s => s
  | c :: cs, s =>
    if c.1 && decide (s.cnt < total) then walk total cs ⟨s.cnt + 1, c.2 :: s.out⟩ else walk total cs s

theorem walk_append (total : Int) (a b : List (Bool × Pt)) (s : St) :
    walk total (a ++ b) s = walk total b (walk total a s) := by
  induction a generalizing s with
  | nil => rfl
  | cons c cs ih => simp only [List.cons_append, walk]; split <;> exact ih _

theorem walk_full (total : Int) (cs : List (Bool × Pt)) (s : St) (h : total ≤ s.cnt) :
    walk total cs s = s := by
  induction cs with
  | nil => rfl
  | cons c cs ih =>
    have : decide (s.cnt < total) = false := by simp; omega
    simp [walk, this, ih]

theorem walk_false (total : Int) (cs : List (Bool × Pt)) (s : St) (h : ∀ c ∈ cs, c.1 = false) :
    walk total cs s = s := by
  induction cs with
  | nil => rfl
  | cons c cs ih =>
    have h1 : c.1 = false := h c (by simp)
    simp only [walk, h1, Bool.false_and]
    exact ih (fun c hc => h c (by simp [hc]))

theorem walk_fit (total : Int) (cs : List (Bool × Pt)) (s : St)
    (h : s.cnt + ((cs.filter (·.1)).length : Int) ≤ total) :
    walk total cs s = ⟨s.cnt + ((cs.filter (·.1)).length : Int), ((cs.filter (·.1)).map (·.2)).reverse ++ s.out⟩ := by
  induction cs generalizing s with
  | nil => simp [walk]
  | cons c cs ih =>
    cases hc : c.1 with
    | false =>
      simp only [walk, hc, Bool.false_and, List.filter_cons] at h ⊢
      simpa using ih s (by simpa using h)
    | true =>
      simp only [List.filter_cons, hc, if_true, List.length_cons] at h
      have hlt : decide (s.cnt < total) = true := by simp; omega
      simp only [walk, hc, hlt, Bool.and_self, if_true, List.filter_cons]
      rw [ih]
      · simp; omega
      · simp; omega

/-- candidates of one side: flag = side guard && inner guard (geometric parts), point -/
def sideC (k : Side) (r xNum yNum : Int) : List (Bool × Pt) :=
  (pyRange (sideStart k r) (sideStop k r) (sideStep k)).map
    (fun n => (sideGeo k r xNum yNum (xOff2 xNum) (yOff2 yNum) && innerGeo k n xNum yNum (xOff2 xNum) (yOff2 yNum),
               (ptX k r n, ptY k r n)))

theorem innerCnt_eq (k : Side) (c x y : Int) : innerCnt k c x y = decide (c < x * y) := by
  cases k <;> simp [innerCnt, Int.mul_comm]

theorem sideCnt_eq (k : Side) (c x y : Int) : sideCnt k c x y = decide (c < x * y) := by
  cases k <;> simp [sideCnt]

theorem cntInc_eq (k : Side) : cntInc k = 1 := by cases k <;> rfl

theorem inner_eq_walk (k : Side) (r x y : Int) (ns : List Int) (s : St) :
    inner k r x y ns s = walk (x * y)
      (ns.map (fun n => (innerGeo k n x y (xOff2 x) (yOff2 y), (ptX k r n, ptY k r n)))) s := by
  induction ns generalizing s with
  | nil => rfl
  | cons n ns ih =>
    simp only [inner, List.map_cons, walk, innerCnt_eq, cntInc_eq]
    split <;> exact ih _

theorem side_eq_walk (k : Side) (r x y : Int) (s : St) :
    side k r x y s = walk (x * y) (sideC k r x y) s := by
  unfold side sideC
  cases hg : sideGeo k r x y (xOff2 x) (yOff2 y) with
  | false =>
    simp only [Bool.false_and]
    rw [walk_false]; · rfl
    intro c hc; simp at hc; obtain ⟨_, _, rfl⟩ := hc; rfl
  | true =>
    simp only [Bool.true_and, sideCnt_eq]
    by_cases hc : s.cnt < x * y
    · simp only [hc, decide_true, if_true]; exact inner_eq_walk ..
    · simp only [hc, decide_false]
      rw [walk_full]; · rfl
      omega

def ringC (x y r : Int) : List (Bool × Pt) := sides.flatMap (fun k => sideC k r x y)

theorem ring_eq_walk (x y r : Int) (s : St) : ring x y s r = walk (x * y) (ringC x y r) s := by
  simp [ring, ringC, sides, side_eq_walk, walk_append]

theorem rings_eq_walk (x y : Int) (rs : List Int) (s : St) :
    rs.foldl (ring x y) s = walk (x * y) (rs.flatMap (ringC x y)) s := by
  induction rs generalizing s with
  | nil => rfl
  | cons r rs ih => simp [List.foldl_cons, ih, ring_eq_walk, walk_append]


/-! ### geometry of the ring walk -/

theorem iabs_lt (a b : Int) : iabs a < b ↔ -b < a ∧ a < b := by unfold iabs; split <;> omega
theorem iabs_le (a b : Int) : iabs a ≤ b ↔ -b ≤ a ∧ a ≤ b := by unfold iabs; split <;> omega

theorem xOff2_cases (x : Int) : (x % 2 = 0 ∧ xOff2 x = 1) ∨ (x % 2 = 1 ∧ xOff2 x = 0) := by
  unfold xOff2; by_cases h : x % 2 = 0 <;> simp [h]; omega

theorem yOff2_cases (y : Int) : (y % 2 = 0 ∧ yOff2 y = -1) ∨ (y % 2 = 1 ∧ yOff2 y = 0) := by
  unfold yOff2; by_cases h : y % 2 = 0 <;> simp [h]; omega

/-- the spec: the multiplier pair denotes a point of the x_num × y_num grid -/
def InGrid (x y : Int) (p : Pt) : Prop :=
  iabs (2 * p.1 - xOff2 x) < x ∧ iabs (2 * p.2 - yOff2 y) < y

instance (x y : Int) (p : Pt) : Decidable (InGrid x y p) := by unfold InGrid; infer_instance

/-- the points one side proposes, regardless of guards -/
def sidePts (k : Side) (r : Int) : List Pt :=
  (pyRange (sideStart k r) (sideStop k r) (sideStep k)).map (fun n => (ptX k r n, ptY k r n))

theorem sideC_pts (k : Side) (r x y : Int) : (sideC k r x y).map (·.2) = sidePts k r := by
  simp [sideC, sidePts]

def OnSide (k : Side) (r : Int) (p : Pt) : Prop :=
  match k with
  | .s1 => p.1 = r - 1 ∧ -r < p.2 ∧ p.2 ≤ r - 2
  | .s2 => p.2 = -r + 1 ∧ -r < p.1 ∧ p.1 ≤ r - 2
  | .s3 => p.1 = -r + 1 ∧ -r + 2 ≤ p.2 ∧ p.2 < r
  | .s4 => p.2 = r - 1 ∧ -r + 2 ≤ p.1 ∧ p.1 < r

theorem mem_sidePts (k : Side) (r : Int) (p : Pt) : p ∈ sidePts k r ↔ OnSide k r p := by
  obtain ⟨i, j⟩ := p
  cases k <;>
    simp only [sidePts, sideStart, sideStop, sideStep, ptX, ptY, OnSide, List.mem_map, mem_pyRange_down,
      mem_pyRange_up, Prod.mk.injEq] <;>
    constructor <;> (first | (rintro ⟨n, hn, rfl, rfl⟩; omega) | (intro h; first | exact ⟨j, by omega, by omega, rfl⟩ | exact ⟨i, by omega, rfl, by omega⟩))

theorem nodup_sidePts (k : Side) (r : Int) : (sidePts k r).Nodup := by
  cases k <;> simp only [sidePts, sideStart, sideStop, sideStep, ptX, ptY] <;>
    (apply List.Nodup.map _ (by first | exact nodup_pyRange_down _ _ | exact nodup_pyRange_up _ _)
     intro a b h; simp at h; exact h)

/-- on every candidate the flag computed by the code's guards is exactly grid membership -/
theorem sideC_flag (k : Side) (r x y : Int) (c : Bool × Pt) (hc : c ∈ sideC k r x y) :
    c.1 = decide (InGrid x y c.2) := by
  simp only [sideC, List.mem_map] at hc
  obtain ⟨n, -, rfl⟩ := hc
  apply Bool.eq_iff_iff.mpr
  rcases xOff2_cases x with ⟨hx, hxo⟩ | ⟨hx, hxo⟩ <;> rcases yOff2_cases y with ⟨hy, hyo⟩ | ⟨hy, hyo⟩ <;>
    cases k <;>
    simp only [sideGeo, innerGeo, ptX, ptY, InGrid, hxo, hyo, iabs_lt, iabs_le, Bool.and_eq_true,
      decide_eq_true_eq] <;>
    omega


/-! ### rings -/

def ringPts (r : Int) : List Pt := sides.flatMap (fun k => sidePts k r)

theorem ringC_pts (x y r : Int) : (ringC x y r).map (·.2) = ringPts r := by
  simp [ringC, ringPts, sides, sideC_pts]

/-- ring number of a multiplier pair: Chebyshev distance from the centre + 1 -/
def ringOf (p : Pt) : Int := max (iabs p.1) (iabs p.2) + 1

theorem mem_ringPts (r : Int) (p : Pt) :
    p ∈ ringPts r ↔ OnSide .s1 r p ∨ OnSide .s2 r p ∨ OnSide .s3 r p ∨ OnSide .s4 r p := by
  simp [ringPts, sides, mem_sidePts]

theorem mem_ringPts_iff (r : Int) (hr : 2 ≤ r) (p : Pt) : p ∈ ringPts r ↔ ringOf p = r := by
  rw [mem_ringPts]
  obtain ⟨i, j⟩ := p
  simp only [OnSide, ringOf, iabs]
  split <;> split <;> omega

theorem nodup_ringPts (r : Int) (hr : 2 ≤ r) : (ringPts r).Nodup := by
  simp only [ringPts, sides, List.flatMap_cons, List.flatMap_nil, List.append_nil]
  simp only [List.nodup_append, nodup_sidePts, List.mem_append, mem_sidePts, true_and]
  repeat' apply And.intro
  all_goals
    intro a ha b hb hab; subst hab; obtain ⟨i, j⟩ := a; simp only [OnSide] at ha hb; omega

theorem nodup_flatMap_key {α β : Type} (key : β → α) (f : α → List β) (l : List α)
    (hl : l.Nodup) (hf : ∀ a ∈ l, (f a).Nodup) (hk : ∀ a ∈ l, ∀ b ∈ f a, key b = a) :
    (l.flatMap f).Nodup := by
  induction l with
  | nil => simp
  | cons a l ih =>
    rw [List.nodup_cons] at hl
    simp only [List.flatMap_cons, List.nodup_append]
    refine ⟨hf a (by simp), ih hl.2 (fun b hb => hf b (by simp [hb])) (fun b hb => hk b (by simp [hb])), ?_⟩
    intro u hu v hv huv
    subst huv
    simp only [List.mem_flatMap] at hv
    obtain ⟨c, hc, hvc⟩ := hv
    have h1 := hk a (by simp) u hu
    have h2 := hk c (by simp [hc]) u hvc
    exact hl.1 (by rw [← h1, h2]; exact hc)

/-- every candidate of the whole walk, in order -/
def allC (x y : Int) : List (Bool × Pt) :=
  (pyRange ringStart (ringStop (numRing x y)) ringStep).flatMap (ringC x y)

def allPts (x y : Int) : List Pt :=
  (pyRange ringStart (ringStop (numRing x y)) ringStep).flatMap ringPts

theorem allC_pts (x y : Int) : (allC x y).map (·.2) = allPts x y := by
  simp only [allC, allPts, List.map_flatMap, ringC_pts]

theorem mem_rings (x y r : Int) :
    r ∈ pyRange ringStart (ringStop (numRing x y)) ringStep ↔ 2 ≤ r ∧ r ≤ max x y := by
  simp only [ringStart, ringStop, ringStep, numRing, mem_pyRange_up]; omega

theorem nodup_allPts (x y : Int) : (allPts x y).Nodup := by
  apply nodup_flatMap_key ringOf
  · simp only [ringStep]; exact nodup_pyRange_up _ _
  · intro r hr; exact nodup_ringPts r ((mem_rings x y r).1 hr).1
  · intro r hr p hp; exact (mem_ringPts_iff r ((mem_rings x y r).1 hr).1 p).1 hp

theorem mem_allPts (x y : Int) (p : Pt) : p ∈ allPts x y ↔ 2 ≤ ringOf p ∧ ringOf p ≤ max x y := by
  simp only [allPts, List.mem_flatMap]
  constructor
  · rintro ⟨r, hr, hp⟩
    have h := (mem_rings x y r).1 hr
    rw [(mem_ringPts_iff r h.1 p).1 hp]; exact h
  · intro h
    exact ⟨ringOf p, (mem_rings x y _).2 h, (mem_ringPts_iff _ h.1 p).2 rfl⟩

theorem allC_flag (x y : Int) (c : Bool × Pt) (hc : c ∈ allC x y) : c.1 = decide (InGrid x y c.2) := by
  simp only [allC, ringC, List.mem_flatMap] at hc
  obtain ⟨r, -, k, -, h⟩ := hc
  exact sideC_flag k r x y c h

theorem filter_flag_map {α : Type} (f : α → Bool) (l : List (Bool × α)) (h : ∀ c ∈ l, c.1 = f c.2) :
    (l.filter (·.1)).map (·.2) = (l.map (·.2)).filter f := by
  induction l with
  | nil => rfl
  | cons c l ih =>
    have hc := h c (by simp)
    have ih' := ih (fun c hc => h c (by simp [hc]))
    simp only [List.filter_cons, List.map_cons, ← hc]
    split <;> simp [ih']

/-- what the walk emits after the first point, provided the counter never blocks -/
def emitted (x y : Int) : List Pt := (allPts x y).filter (fun p => decide (InGrid x y p))

theorem emitted_eq (x y : Int) : ((allC x y).filter (·.1)).map (·.2) = emitted x y := by
  rw [filter_flag_map (fun p => decide (InGrid x y p)) _ (allC_flag x y), allC_pts]; rfl

/-- the complete expected output -/
def expected (x y : Int) : List Pt := (0, 0) :: emitted x y

theorem ringOf_zero : ringOf (0, 0) = 1 := by simp [ringOf, iabs]

theorem nodup_expected (x y : Int) : (expected x y).Nodup := by
  rw [expected, List.nodup_cons]
  refine ⟨?_, (nodup_allPts x y).filter _⟩
  intro h
  have := (mem_allPts x y (0, 0)).1 (List.mem_filter.1 h).1
  rw [ringOf_zero] at this; omega

theorem mem_expected (x y : Int) (hx : 2 ≤ x) (hy : 2 ≤ y) (p : Pt) : p ∈ expected x y ↔ InGrid x y p := by
  simp only [expected, emitted, List.mem_cons, List.mem_filter, decide_eq_true_eq, mem_allPts]
  obtain ⟨i, j⟩ := p
  rcases xOff2_cases x with ⟨hx2, hxo⟩ | ⟨hx2, hxo⟩ <;> rcases yOff2_cases y with ⟨hy2, hyo⟩ | ⟨hy2, hyo⟩ <;>
    simp only [InGrid, hxo, hyo, ringOf, Prod.mk.injEq, iabs] <;>
    split <;> split <;> omega


/-! ### the grid -/

theorem mem_gridList (x y : Int) (q : Pt) : q ∈ gridList x y ↔ (0 ≤ q.1 ∧ q.1 < x) ∧ (0 ≤ q.2 ∧ q.2 < y) := by
  obtain ⟨k, l⟩ := q
  simp only [gridList, List.mem_flatMap, List.mem_map, mem_pyRange_up, Prod.mk.injEq]
  constructor
  · rintro ⟨a, ha, b, hb, rfl, rfl⟩; exact ⟨ha, hb⟩
  · rintro ⟨ha, hb⟩; exact ⟨k, ha, l, hb, rfl, rfl⟩

theorem nodup_gridList (x y : Int) : (gridList x y).Nodup := by
  apply nodup_flatMap_key (fun q : Pt => q.1)
  · exact nodup_pyRange_up _ _
  · intro k _
    apply List.Nodup.map _ (nodup_pyRange_up _ _)
    intro a b h; simpa using h
  · intro k _ q hq; simp only [List.mem_map] at hq; obtain ⟨l, -, rfl⟩ := hq; rfl

theorem length_flatMap_const {α β : Type} (f : α → List β) (c : Nat) (l : List α) (h : ∀ a, (f a).length = c) :
    (l.flatMap f).length = l.length * c := by
  induction l with
  | nil => simp
  | cons a l ih => simp [List.flatMap_cons, h, ih, Nat.succ_mul, Nat.add_comm]

theorem length_gridList (x y : Int) (hx : 0 ≤ x) (hy : 0 ≤ y) : ((gridList x y).length : Int) = x * y := by
  unfold gridList
  rw [length_flatMap_const _ (y.toNat) _ (by intro a; simp [pyRange_up])]
  simp [pyRange_up, Int.toNat_of_nonneg hx, Int.toNat_of_nonneg hy]

/-- `gridIdx` really is the grid index: twice the index is the doubled centred coordinate shifted -/
theorem gridIdx_spec (x y : Int) (p : Pt) :
    2 * (gridIdx x y p).1 = 2 * p.1 - xOff2 x + x - 1 ∧ 2 * (gridIdx x y p).2 = 2 * p.2 - yOff2 y + y - 1 := by
  rcases xOff2_cases x with ⟨hx2, hxo⟩ | ⟨hx2, hxo⟩ <;> rcases yOff2_cases y with ⟨hy2, hyo⟩ | ⟨hy2, hyo⟩ <;>
    simp only [gridIdx, hxo, hyo] <;> omega

theorem inGrid_iff_gridIdx (x y : Int) (p : Pt) : InGrid x y p ↔ gridIdx x y p ∈ gridList x y := by
  rw [mem_gridList]
  have h := gridIdx_spec x y p
  simp only [InGrid, iabs_lt]; omega

theorem gridIdx_inj (x y : Int) (p q : Pt) (h : gridIdx x y p = gridIdx x y q) : p = q := by
  have hp := gridIdx_spec x y p
  have hq := gridIdx_spec x y q
  rw [h] at hp
  obtain ⟨i, j⟩ := p; obtain ⟨i', j'⟩ := q
  simp only [Prod.mk.injEq] at *; omega

theorem gridIdx_surj (x y : Int) (q : Pt) : ∃ p, gridIdx x y p = q := by
  obtain ⟨k, l⟩ := q
  refine ⟨((2 * k + xOff2 x - x + 1) / 2, (2 * l + yOff2 y - y + 1) / 2), ?_⟩
  rcases xOff2_cases x with ⟨hx2, hxo⟩ | ⟨hx2, hxo⟩ <;> rcases yOff2_cases y with ⟨hy2, hyo⟩ | ⟨hy2, hyo⟩ <;>
    simp only [gridIdx, hxo, hyo, Prod.mk.injEq] <;> omega

theorem expected_perm (x y : Int) (hx : 2 ≤ x) (hy : 2 ≤ y) :
    ((expected x y).map (gridIdx x y)).Perm (gridList x y) := by
  rw [List.perm_ext_iff_of_nodup ((nodup_expected x y).map (fun p q h => gridIdx_inj x y p q h)) (nodup_gridList x y)]
  intro q
  simp only [List.mem_map, mem_expected x y hx hy]
  constructor
  · rintro ⟨p, hp, rfl⟩; exact (inGrid_iff_gridIdx x y p).1 hp
  · intro hq
    obtain ⟨p, rfl⟩ := gridIdx_surj x y q
    exact ⟨p, (inGrid_iff_gridIdx x y p).2 hq, rfl⟩

theorem length_expected (x y : Int) (hx : 2 ≤ x) (hy : 2 ≤ y) : ((expected x y).length : Int) = x * y := by
  rw [← length_gridList x y (by omega) (by omega), ← (expected_perm x y hx hy).length_eq, List.length_map]

/-- the code's walk, with its running counter, emits exactly `expected` -/
theorem spiralIdx_eq_expected (x y : Int) (hx : 2 ≤ x) (hy : 2 ≤ y) : spiralIdx x y = expected x y := by
  have hlen := length_expected x y hx hy
  simp only [expected, List.length_cons] at hlen
  unfold spiralIdx
  rw [rings_eq_walk]
  change (walk (x * y) (allC x y) ⟨cnt0, [(firstX, firstY)]⟩).out.reverse = _
  rw [walk_fit]
  · simp only [emitted_eq, firstX, firstY, expected]; simp
  · simp only [cnt0]
    have : (((allC x y).filter (·.1)).length : Int) = ((emitted x y).length : Int) := by
      rw [← emitted_eq, List.length_map]
    rw [this]; push_cast at hlen; omega

end BlueskyVerif.C27
