/-
C04 helper: what the engine-made generators hand out.  `Gen.list msgs` is `ensure_generator(list(cache))`
(the rewind plan); `Gen.chain` is the suspension helper (`yield from` one part after the other, no try).
`Yields g msgs`: WHATEVER the generator is sent, it hands out exactly `msgs`, in this order, and then returns.
-/
import BlueskyVerif.Engine.Sim

namespace BlueskyVerif.Engine

theorem list_resume_cons (m : Msg) (ms : List Msg) (r : Resp) :
    (Gen.list (m :: ms)).resume (.send r) = (.yld m, .list ms) := rfl

theorem list_resume_nil (r : Resp) : (Gen.list []).resume (.send r) = (.ret, .list []) := rfl

/-- an exception thrown into a rewind plan kills it: nothing more is replayed -/
theorem list_resume_throw (ms : List Msg) (e : Exc) :
    (Gen.list ms).resume (.throw e) = (.raise (if e == .stopIteration then .runtimeError else e), .list []) := rfl

theorem next_nil : Gen.resume.next [] = (.ret, .chain (.list []) []) := rfl

theorem next_cons (g : Gen) (gs : List Gen) : Gen.resume.next (g :: gs) =
    match g.resume (.send .none) with
    | (.yld m, g') => (.yld m, .chain g' gs)
    | (.raise e, _) => (.raise e, .chain (.list []) [])
    | (.ret, _) => Gen.resume.next gs := rfl

theorem chain_resume (cur : Gen) (rest : List Gen) (inp : Inp) : (Gen.chain cur rest).resume inp =
    match cur.resume inp with
    | (.yld m, cur') => (.yld m, .chain cur' rest)
    | (.raise e, _) => (.raise e, .chain (.list []) [])
    | (.ret, _) => Gen.resume.next rest := rfl

/-- whatever it is sent, `g` hands out exactly `msgs` (same messages, same order) and then returns -/
inductive Yields : Gen → List Msg → Prop where
  | done {g : Gen} : (∀ r, (g.resume (.send r)).1 = .ret) → Yields g []
  | step {g : Gen} {m : Msg} {ms : List Msg} (next : Resp → Gen) :
      (∀ r, g.resume (.send r) = (.yld m, next r)) → (∀ r, Yields (next r) ms) → Yields g (m :: ms)

/-- the parts of a `yield from a; yield from b; ...` body, with what each hands out -/
inductive YieldsAll : List Gen → List Msg → Prop where
  | nil : YieldsAll [] []
  | cons {g : Gen} {gs : List Gen} {a b : List Msg} : Yields g a → YieldsAll gs b → YieldsAll (g :: gs) (a ++ b)

theorem yields_list (msgs : List Msg) : Yields (.list msgs) msgs := by
  induction msgs with
  | nil => exact .done (fun r => by rw [list_resume_nil])
  | cons m ms ih => exact .step (fun _ => .list ms) (fun r => list_resume_cons m ms r) (fun _ => ih)

theorem ret_of_fst {p : Out × Gen} (h : p.1 = .ret) : p = (.ret, p.2) := by
  obtain ⟨o, g⟩ := p; simp only at h; subst h; rfl

theorem chain_resume_ret (cur : Gen) (rest : List Gen) (inp : Inp) (h : (cur.resume inp).1 = .ret) :
    (Gen.chain cur rest).resume inp = Gen.resume.next rest := by
  rw [chain_resume, ret_of_fst h]

theorem chain_resume_yld (cur cur' : Gen) (rest : List Gen) (inp : Inp) (m : Msg) (h : cur.resume inp = (.yld m, cur')) :
    (Gen.chain cur rest).resume inp = (.yld m, .chain cur' rest) := by
  rw [chain_resume, h]

theorem yields_chain {rest : List Gen} {b : List Msg} (hr : YieldsAll rest b) :
    ∀ {cur : Gen} {a : List Msg}, Yields cur a → Yields (.chain cur rest) (a ++ b) := by
  induction hr with
  | nil =>
    intro cur a hc
    induction hc with
    | done h =>
      refine .done (fun r => ?_)
      rw [chain_resume_ret _ _ _ (h r)]; rfl
    | step next h _ ih =>
      exact .step (fun r => .chain (next r) []) (fun r => chain_resume_yld _ _ _ _ _ (h r)) ih
  | @cons g gs a' b' hg _ ihouter =>
    intro cur a hc
    induction hc with
    | @done cur h =>
      -- the current part returns: the body goes on with the next `yield from`
      have hnext : ∀ r, (Gen.chain cur (g :: gs)).resume (.send r) = Gen.resume.next (g :: gs) :=
        fun r => chain_resume_ret _ _ _ (h r)
      cases hg with
      | done hg0 =>
        -- that part is empty: skip it
        have hskip : Gen.resume.next (g :: gs) = Gen.resume.next gs := by
          rw [next_cons, ret_of_fst (hg0 .none)]
        have hrec : Yields (.chain (.list []) gs) ([] ++ b') := ihouter (yields_list [])
        have hsame : ∀ r, (Gen.chain (.list []) gs).resume (.send r) = Gen.resume.next gs := fun r => rfl
        simp only [List.nil_append] at hrec ⊢
        cases hrec with
        | done h0 =>
          refine .done (fun r => ?_)
          rw [hnext, hskip, ← hsame r]; exact h0 r
        | step next h1 h2 =>
          refine .step next (fun r => ?_) h2
          rw [hnext, hskip, ← hsame r]; exact h1 r
      | @step _ m ms next hg1 hg2 =>
        simp only [List.nil_append, List.cons_append]
        refine .step (fun _ => .chain (next .none) gs) (fun r => ?_) (fun _ => ihouter (hg2 .none))
        rw [hnext, next_cons, hg1 .none]
    | step next h _ ih =>
      exact .step (fun r => .chain (next r) (g :: gs)) (fun r => chain_resume_yld _ _ _ _ _ (h r)) ih

end BlueskyVerif.Engine
