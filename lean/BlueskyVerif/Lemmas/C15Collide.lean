/-
C15 helper lemmas, part 3: the describe cache holds what the devices' `describe()` return
(invariant over histories), hence the collision test of `read` is a test on the devices' data keys.
-/
import BlueskyVerif.Lemmas.C15Docs
import BlueskyVerif.Lemmas.BundlerKeepsDescribeCache

namespace BlueskyVerif.Bundler
open Generated

/-- every cached describe is the device's describe; every object read in the open bundle is cached -/
def DescribeInv (w : World) (s : BState) : Prop :=
  (∀ o ks, aget s.describeCache o = some ks → ks = (w.spec o).keys) ∧
  (s.bundling = true → ∀ ro ∈ s.objsRead, ahas s.describeCache ro = true)

theorem cacheConfig_ok (w : World) (s : BState) (o : Obj) :
    (cacheConfig w s o).err = none ∧ (cacheConfig w s o).st.describeCache = s.describeCache := by
  unfold cacheConfig
  split
  · unfold cacheDescribeConfig cacheReadConfig Res.andThen
    split <;> split <;> simp_all
  · exact ⟨rfl, rfl⟩

theorem cacheDescribe_cached (w : World) (s : BState) (o : Obj) (h : (w.spec o).isDet = false) :
    (cacheDescribe w s o false).err = none ∧ ahas (cacheDescribe w s o false).st.describeCache o = true := by
  unfold cacheDescribe
  cases hc : ahas s.describeCache o <;> simp [hc, h, ahas]
  simpa [ahas] using hc

theorem cacheDescribe_det_fails (w : World) (s : BState) (o : Obj) (h : (w.spec o).isDet = true)
    (hc : ahas s.describeCache o = false) : (cacheDescribe w s o false).err = some .assertionError := by
  unfold cacheDescribe; simp [hc, h]

theorem ensureCached_cached (w : World) (s : BState) (o : Obj) (h : (w.spec o).isDet = false) :
    (ensureCached w s o false).err = none ∧ ahas (ensureCached w s o false).st.describeCache o = true := by
  unfold ensureCached
  obtain ⟨h1, h2⟩ := cacheDescribe_cached w s o h
  rw [Res.andThen_of_ok _ _ h1]
  exact ⟨(cacheConfig_ok w _ o).1, by simp only; rw [(cacheConfig_ok w _ o).2]; exact h2⟩

theorem describeInv_step (w : World) (s : BState) (op : Op) (h : DescribeInv w s) :
    DescribeInv w (step w s op).st := by
  have hk := KeepsDescribeCache.keeps_step w s op (by cases op <;> rfl)
  refine ⟨fun o ks hks => ?_, ?_⟩
  · rcases hk.2 o ks hks with h1 | h1
    · exact h.1 o ks h1
    · exact h1
  · -- objects read stay cached
    have pers : ∀ ro, ahas s.describeCache ro = true → ahas (step w s op).st.describeCache ro = true := by
      intro ro hr
      obtain ⟨ks, hks⟩ := (ahas_iff _ _).1 hr
      exact (ahas_iff _ _).2 ⟨ks, hk.1 ro ks hks⟩
    by_cases ht : op.touchesBundle = false
    · have kb := keeps_step w s op ht
      intro hb ro hro
      rw [kb.2.2.2] at hb; rw [kb.2.1] at hro
      exact pers ro (h.2 hb ro hro)
    · cases op <;> simp [Op.touchesBundle, KeepsBundle.touches] at ht
      · -- create
        rename_i n
        simp only [step]
        intro hb ro hro
        cases hb0 : s.bundling with
        | true =>
          rw [(create_effect s n).1 hb0] at hro ⊢
          exact h.2 hb0 ro hro
        | false =>
          rw [((create_effect s n).2 hb0).2] at hro; cases hro
      · -- read
        rename_i o rd
        intro hb ro hro
        cases hb0 : s.bundling with
        | false =>
          simp only [step, read_not_bundling w s o rd hb0, Res.ok_st] at hb
          rw [hb0] at hb; cases hb
        | true =>
          simp only [step] at hro ⊢
          obtain ⟨_, hr⟩ := read_effect w s o rd hb0
          rcases hr with ⟨he, hc, ho⟩ | ⟨he, hc, ho⟩
          · rw [ho] at hro
            rcases List.mem_append.1 hro with h1 | h1
            · exact pers ro (h.2 hb0 ro h1)
            · simp at h1; subst h1
              -- `ro` was just cached: read succeeded, so ensureCached succeeded
              unfold read
              simp only [hb0, Bool.not_true, Bool.false_eq_true, if_false]
              unfold read at he
              simp only [hb0, Bool.not_true, Bool.false_eq_true, if_false] at he
              cases hee : (ensureCached w s ro false).err with
              | some e => rw [Res.andThen_of_err _ _ _ hee] at he; rw [hee] at he; cases he
              | none =>
                rw [Res.andThen_of_ok _ _ hee] at he ⊢
                simp only at he ⊢
                by_cases hcol : collides (ensureCached w s ro false).st ro = true
                · simp [hcol] at he
                · simp only [hcol, Bool.false_eq_true, if_false, Res.ok_st]
                  -- cached by ensureCached: either it was, or it has just been set
                  by_cases hcc : ahas s.describeCache ro = true
                  · obtain ⟨ks, hks⟩ := (ahas_iff _ _).1 hcc
                    exact (ahas_iff _ _).2 ⟨ks, (KeepsDescribeCache.keeps_ensureCached w s ro false).1 ro ks hks⟩
                  · have hcc' : ahas s.describeCache ro = false := by simpa using hcc
                    have hspec : (w.spec ro).isDet = false := by
                      cases hd : (w.spec ro).isDet with
                      | false => rfl
                      | true =>
                        exfalso
                        unfold ensureCached at hee
                        rw [Res.andThen_of_err _ _ _ (cacheDescribe_det_fails w s ro hd hcc')] at hee
                        rw [cacheDescribe_det_fails w s ro hd hcc'] at hee
                        cases hee
                    exact (ensureCached_cached w s ro hspec).2
          · rw [ho] at hro
            exact pers ro (h.2 hb0 ro hro)
      · intro hb; simp only [step] at hb; rw [save_not_bundling] at hb; cases hb
      · intro hb; simp only [step] at hb; rw [drop_not_bundling] at hb; cases hb
      · intro hb; simp only [step, Res.ok_st] at hb; rw [rewindOp_not_bundling] at hb; cases hb

end BlueskyVerif.Bundler
