/-
C31 helper lemmas: the invariant of the suspender object over arbitrary histories, and the first two turns of
a gated `RE(plan)` on the engine model.
-/
import BlueskyVerif.Suspender.Gate
import BlueskyVerif.Lemmas.C11Release

namespace BlueskyVerif.Gate
open BlueskyVerif.Suspender

/-- what is true of a suspender object and its surroundings after ANY history -/
structure Inv (x : OW) : Prop where
  evTripped : x.1.ev.isSome = x.1.tripped
  offClean : x.1.installed = false → x.1.tripped = false
  evFresh : ∀ e, x.1.ev = some e → e < x.2.nextEv ∧ e ∉ x.2.released
  relBound : ∀ e ∈ x.2.released, e < x.2.nextEv
  reqBound : ∀ e ∈ x.2.requests, e < x.2.nextEv

theorem inv_fresh (c : Cls) (p : Params) : Inv (fresh c p) :=
  ⟨rfl, fun _ => rfl, fun _ h => (by cases h), fun _ h => (by cases h), fun _ h => (by cases h)⟩

theorem call_off (r : Bool) (x : OW) (v : Int) (h : x.1.installed = false) : call r x v = x := by
  unfold call; simp [h]

theorem call_suspend_new (r : Bool) (x : OW) (v : Int) (hi : x.1.installed = true)
    (hs : shouldSuspend x.1.cls x.1.p v = true) (he : x.1.ev = none) :
    call r x v = (({ x.1 with tripped := true, ev := some x.2.nextEv } : Obj),
                  ({ x.2 with nextEv := x.2.nextEv + 1,
                              requests := if r then x.2.requests ++ [x.2.nextEv] else x.2.requests } : World)) := by
  obtain ⟨⟨c, p, inst, sub, trip, ev⟩, ⟨nx, rel, req⟩⟩ := x
  simp only at hi hs he
  subst hi he
  cases r <;> simp [call, makeEvent, hs]

theorem call_suspend_old (r : Bool) (x : OW) (v : Int) (e : Nat) (hi : x.1.installed = true)
    (hs : shouldSuspend x.1.cls x.1.p v = true) (he : x.1.ev = some e) :
    call r x v = (({ x.1 with tripped := true } : Obj), x.2) := by
  obtain ⟨⟨c, p, inst, sub, trip, ev⟩, ⟨nx, rel, req⟩⟩ := x
  simp only at hi hs he
  subst hi he
  simp [call, hs]

theorem call_resume_some (r : Bool) (x : OW) (v : Int) (e : Nat) (hi : x.1.installed = true)
    (hs : shouldSuspend x.1.cls x.1.p v = false) (hr : shouldResume x.1.cls x.1.p v = true) (he : x.1.ev = some e) :
    call r x v = (({ x.1 with tripped := false, ev := none } : Obj),
                  ({ x.2 with released := x.2.released ++ [e] } : World)) := by
  obtain ⟨⟨c, p, inst, sub, trip, ev⟩, ⟨nx, rel, req⟩⟩ := x
  simp only at hi hs hr he
  subst hi he
  simp [call, setEvent, hs, hr]

theorem call_resume_none (r : Bool) (x : OW) (v : Int) (hi : x.1.installed = true)
    (hs : shouldSuspend x.1.cls x.1.p v = false) (hr : shouldResume x.1.cls x.1.p v = true) (he : x.1.ev = none) :
    call r x v = (({ x.1 with tripped := false } : Obj), x.2) := by
  obtain ⟨⟨c, p, inst, sub, trip, ev⟩, ⟨nx, rel, req⟩⟩ := x
  simp only at hi hs hr he
  subst hi he
  simp [call, setEvent, hs, hr]

theorem call_neither (r : Bool) (x : OW) (v : Int)
    (hs : shouldSuspend x.1.cls x.1.p v = false) (hr : shouldResume x.1.cls x.1.p v = false) : call r x v = x := by
  unfold call
  simp [hs, hr]

/-- the flag after a callback on an installed suspender is the flag machine of C30 -/
theorem call_tripped (r : Bool) (x : OW) (v : Int) (h : x.1.installed = true) :
    (call r x v).1.tripped = Suspender.step x.1.cls x.1.p x.1.tripped v := by
  unfold Suspender.step
  cases hs : shouldSuspend x.1.cls x.1.p v with
  | true =>
    cases he : x.1.ev with
    | none => rw [call_suspend_new r x v h hs he]; simp
    | some e => rw [call_suspend_old r x v e h hs he]; simp
  | false =>
    cases hr : shouldResume x.1.cls x.1.p v with
    | true =>
      cases he : x.1.ev with
      | none => rw [call_resume_none r x v h hs hr he]; simp
      | some e => rw [call_resume_some r x v e h hs hr he]; simp
    | false => rw [call_neither r x v hs hr]; simp

theorem inv_call (r : Bool) (x : OW) (v : Int) (hi : Inv x) : Inv (call r x v) := by
  cases hinst : x.1.installed with
  | false => rw [call_off r x v hinst]; exact hi
  | true =>
    cases hs : shouldSuspend x.1.cls x.1.p v with
    | true =>
      cases he : x.1.ev with
      | none =>
        rw [call_suspend_new r x v hinst hs he]
        refine ⟨rfl, fun h => ?_, fun e' h' => ?_, fun e' h' => Nat.lt_succ_of_lt (hi.relBound e' h'), fun e' h' => ?_⟩
        · simp only [hinst] at h; cases h
        · simp only [Option.some.injEq] at h'; subst h'
          exact ⟨Nat.lt_succ_self _, fun hm => Nat.lt_irrefl _ (hi.relBound _ hm)⟩
        · simp only at h'
          split at h'
          · rcases List.mem_append.mp h' with h1 | h1
            · exact Nat.lt_succ_of_lt (hi.reqBound e' h1)
            · simp only [List.mem_singleton] at h1; subst h1; exact Nat.lt_succ_self _
          · exact Nat.lt_succ_of_lt (hi.reqBound e' h')
      | some e =>
        rw [call_suspend_old r x v e hinst hs he]
        exact ⟨by simp [he], fun h => (by simp only [hinst] at h; cases h), fun e' h' => hi.evFresh e' h', hi.relBound, hi.reqBound⟩
    | false =>
      cases hr : shouldResume x.1.cls x.1.p v with
      | true =>
        cases he : x.1.ev with
        | none =>
          rw [call_resume_none r x v hinst hs hr he]
          exact ⟨by simp [he], fun _ => rfl, fun e' h' => (by simp [he] at h'), hi.relBound, hi.reqBound⟩
        | some e =>
          rw [call_resume_some r x v e hinst hs hr he]
          refine ⟨rfl, fun _ => rfl, fun e' h' => (by cases h'), fun e' h' => ?_, hi.reqBound⟩
          rcases List.mem_append.mp h' with h1 | h1
          · exact hi.relBound e' h1
          · simp only [List.mem_singleton] at h1; subst h1; exact (hi.evFresh _ he).1
      | false => rw [call_neither r x v hs hr]; exact hi

theorem inv_install (r : Bool) (x : OW) (cur : Int) (hi : Inv x) : Inv (install r x cur) := by
  unfold install
  apply inv_call
  exact ⟨hi.evTripped, fun h => (by cases h), hi.evFresh, hi.relBound, hi.reqBound⟩

theorem remove_eq (x : OW) :
    remove x = (match (if x.1.installed then x.1.ev else none) with
      | some e => (({ x.1 with subscribed := 0, installed := false, tripped := false, ev := none } : Obj),
                   { x.2 with released := x.2.released ++ [e] })
      | none => (({ x.1 with subscribed := 0, installed := false, tripped := false } : Obj), x.2)) := by
  unfold remove setEvent
  cases hinst : x.1.installed <;> cases hev : x.1.ev <;> simp [hinst, hev]

theorem inv_remove (x : OW) (hi : Inv x) : Inv (remove x) := by
  rw [remove_eq]
  cases hinst : x.1.installed with
  | false =>
    simp only [Bool.false_eq_true, ↓reduceIte]
    have ht := hi.offClean hinst
    have hev : x.1.ev = none := by
      have := hi.evTripped; rw [ht] at this
      cases h : x.1.ev <;> simp_all
    exact ⟨by simp [hev], fun _ => rfl, fun e h => (by simp [hev] at h), hi.relBound, hi.reqBound⟩
  | true =>
    simp only [↓reduceIte]
    cases hev : x.1.ev with
    | some e =>
      simp only []
      refine ⟨rfl, fun _ => rfl, fun e' h' => (by cases h'), fun e' h' => ?_, hi.reqBound⟩
      rcases List.mem_append.mp h' with h1 | h1
      · exact hi.relBound e' h1
      · simp only [List.mem_singleton] at h1; subst h1; exact (hi.evFresh _ hev).1
    | none =>
      simp only []
      exact ⟨by simp [hev], fun _ => rfl, fun e h => (by simp [hev] at h), hi.relBound, hi.reqBound⟩

theorem getFutures_inv (x : OW) (hi : Inv x) :
    (getFutures x).2 = x ∧ (getFutures x).1 = (if x.1.tripped then x.1.ev.toList else []) := by
  unfold getFutures
  cases ht : x.1.tripped with
  | false => simp
  | true =>
    have hev : x.1.ev.isSome = true := by rw [hi.evTripped, ht]
    have hm : makeEvent x = x := by
      unfold makeEvent
      cases h : x.1.ev <;> simp_all
    simp [hm]

theorem inv_deliver (r : Bool) (x : OW) (v : Int) (hi : Inv x) : Inv (deliver r x v) := by
  unfold deliver
  generalize List.range x.1.subscribed = l
  induction l generalizing x with
  | nil => exact hi
  | cons a l ih => rw [List.foldl_cons]; exact ih _ (inv_call r x v hi)

theorem inv_step (x : OW) (o : Op) (hi : Inv x) : Inv (step x o) := by
  cases o with
  | install cur r => exact inv_install r x cur hi
  | remove => exact inv_remove x hi
  | put v r => exact inv_deliver r x v hi
  | callback v r => exact inv_call r x v hi
  | getFutures => show Inv (getFutures x).2; rw [(getFutures_inv x hi).1]; exact hi

theorem inv_run (h : List Op) (x : OW) (hi : Inv x) : Inv (run h x) := by
  induction h generalizing x with
  | nil => exact hi
  | cons o h ih => exact ih _ (inv_step x o hi)

/-- a removed suspender: not installed, no subscription -/
theorem remove_off (x : OW) : (remove x).1.installed = false ∧ (remove x).1.subscribed = 0 ∧ (remove x).1.tripped = false := by
  rw [remove_eq]
  split <;> exact ⟨rfl, rfl, rfl⟩

theorem deliver_off (r : Bool) (x : OW) (v : Int) (h : x.1.subscribed = 0) : deliver r x v = x := by
  unfold deliver; rw [h]; rfl

end BlueskyVerif.Gate

/-! ## the first turns of a gated `RE(plan)` on the engine model -/
namespace BlueskyVerif.Engine

theorem mWaitForGate_eq (F : Nat) : mWaitForGate F = mWaitFor F := rfl

/-- the `_run` task starts: `running`, then sleep(0) at the loop top -/
theorem start_turn (n : Nat) (s : EState) (hpc : s.pc = .start) (hperm : s.permit = true) (hst : s.state = .idle)
    (hcp : s.cancelPending = false) :
    view (advance (n + 1) s) = { view s with state := .running, stashed := none, pc := .loopSleep, resp := none } := by
  let X : EState := { s with stashed := none, reason := "", exitReason := "", exitExc := none, planDone := false, pc := .start }
  have hal : (Src.transitions X.state).contains .running = true := by
    show (Src.transitions s.state).contains .running = true
    rw [hst]; decide
  obtain ⟨s', hs'⟩ := setState_ok_of hal
  have hv := setState_view hs'
  have h1 : advance (n + 1) s = runLoop (n + 1) s' := by
    unfold advance
    rw [hcp, clearCancel_id s hcp]
    unfold advanceAt
    rw [hpc]
    simp only []
    split
    · rename_i hnp; rw [hperm] at hnp; cases hnp
    · split
      · rename_i s'' hs''
        have : Except.ok s' = Except.ok s'' := hs'.symm.trans hs''
        cases this; rfl
      · rename_i e he
        have : Except.ok s' = Except.error e := hs'.symm.trans he
        cases this
  rw [h1, runLoop_running_view n s' _ hv rfl (by simpa [view, X] using hperm) rfl]
  rfl

/-- a turn in which the top plan yields `wait_for [f]` on an unreleased future: `_run` blocks -/
theorem waitfor_generic (n : Nat) (s : EState) (f : Nat) (r : Resp) (g g' : Gen) (rs : List Resp) (gs : List Gen)
    (hpc : s.pc = .loopSleep) (hcp : s.cancelPending = false)
    (hs : s.stashed = none) (he : s.exceptionSlot = none) (hR : s.respStack = r :: rs) (hP : s.planStack = g :: gs)
    (hr : r.plain = true) (hmid : g.pendingMid = none) (hg : g.resume (.send r) = (.yld (mWaitFor f), g'))
    (hf : s.futs.contains f = false) :
    view (advance (n + 1) s) =
      { view s with respStack := rs, planStack := g' :: gs, resp := some r,
                    msgs := s.msgs ++ [mWaitFor f], pc := .inWaitFor f } := by
  rw [advance_loopSleep _ s hpc hcp, afterSleep_send s r rs g g' gs (mWaitFor f) hR hP he hs hr hmid hg]
  let s1 : EState := { s with respStack := rs, resp := some r, planStack := g' :: gs }
  let s2 : EState := noteMsg s1 (mWaitFor f)
  have hv2 : view s2 = { view s1 with msgs := s.msgs ++ [mWaitFor f], stashed := none } := noteMsg_view s1 _
  have hreg : Src.registry.contains (mWaitFor f).cmd = true := by
    show Src.registry.contains "wait_for" = true
    decide
  have hrun : runCommand s2 (mWaitFor f) = cmdWaitFor s2 (mWaitFor f) := rfl
  have hidx : ((mWaitFor f).iargs.headD 0).toNat = f := by simp [mWaitFor]
  have hf2 : s2.futs.contains ((mWaitFor f).iargs.headD 0).toNat = false := by
    rw [hidx]
    have : s2.futs = s.futs := by have := congrArg View.futs hv2; simpa [view, s1] using this
    rw [this]; exact hf
  have hcmd := cmdWaitFor_suspends s2 (mWaitFor f) hf2
  rw [hidx] at hcmd
  rw [processMsg_suspend s1 _ (mWaitFor f) (.inWaitFor f) hreg (hrun.trans hcmd)]
  have hc : contFlow (n + 1) (.stop { noteFut s2 f with pc := .inWaitFor f, curMsg := some (mWaitFor f) })
      = { noteFut s2 f with pc := .inWaitFor f, curMsg := some (mWaitFor f) } := by
    simp [contFlow]
  rw [hc]
  have hv3 : view { noteFut s2 f with pc := PC.inWaitFor f, curMsg := some (mWaitFor f) }
      = { view (noteFut s2 f) with pc := .inWaitFor f } := rfl
  rw [hv3, (noteFut_same s2 f).2.2.2.2, hv2]
  simp only [view, s1, hs]

/-- GATED START: for every idle engine state, every plan (ANY generator) and every non-empty list of futures of tripped
    suspenders (standing for the engine future `F`, unreleased): after the two turns it takes `_run` to start and to
    execute the first message, the engine is blocked in `wait_for [F]`; that `wait_for` is the ONLY message executed;
    the user's plan sits untouched at the bottom of the stack (it was never resumed); the caller is still blocked. -/
theorem gated_start_blocks (n : Nat) (s0 : EState) (plan : Gen) (futs : List Nat) (F : Nat)
    (hne : futs.isEmpty = false) (hidle : s0.state = .idle) (hF : s0.futs.contains F = false) :
    let s2 := advance (n + 1) (advance (n + 1) (startCallGated s0 plan futs F))
    Blocked F s2 ∧ s2.msgs = s0.msgs ++ [mWaitFor F] ∧ s2.planStack = [Gen.list [], plan] ∧ s2.respStack = [.none] := by
  intro s2
  let g := startCallGated s0 plan futs F
  have hg : g = { startCall s0 plan with planStack := [Gen.fresh [mWaitForGate F], plan], respStack := [.none, .none] } := by
    show startCallGated s0 plan futs F = _
    unfold startCallGated; rw [hne]; rfl
  have v1 := start_turn n g (by rw [hg]; rfl) (by rw [hg]; rfl) (by rw [hg]; exact hidle) (by rw [hg]; rfl)
  have g1 : ∀ {α} (p : View → α), p (view (advance (n + 1) g)) = _ := fun p => congrArg p v1
  have v2 := waitfor_generic n (advance (n + 1) g) F .none (Gen.fresh [mWaitFor F]) (Gen.list []) [.none] [plan]
    (g1 View.pc) ((g1 View.cancelPending).trans (by rw [hg]; rfl)) (g1 View.stashed)
    ((g1 View.exceptionSlot).trans (by rw [hg]; rfl)) ((g1 View.respStack).trans (by rw [hg]; rfl))
    ((g1 View.planStack).trans (by rw [hg]; rfl)) rfl rfl rfl ((g1 (fun V => V.futs.contains F)).trans (by rw [hg]; exact hF))
  rw [v1] at v2
  have g2 : ∀ {α} (p : View → α), p (view s2) = _ := fun p => congrArg p v2
  refine ⟨⟨g2 View.pc, (g2 (fun V => V.futs.contains F)).trans (by rw [hg]; exact hF), g2 View.state,
    (g2 View.permit).trans (by rw [hg]; rfl), (g2 View.cancelPending).trans (by rw [hg]; rfl), g2 View.stashed,
    (g2 View.exceptionSlot).trans (by rw [hg]; rfl), (g2 View.cacheSome).trans (by rw [hg]; rfl), ?_,
    (g2 View.blockingEvent).trans (by rw [hg]; rfl)⟩, ?_, g2 View.planStack, g2 View.respStack⟩
  · have : s2.resp = some .none := g2 View.resp
    rw [this]; rfl
  · have : s2.msgs = (advance (n + 1) g).msgs ++ [mWaitFor F] := g2 View.msgs
    rw [this, show (advance (n + 1) g).msgs = g.msgs from g1 View.msgs, hg]
    rfl

end BlueskyVerif.Engine
