/-
Helper lemmas for C34: the assoc-list file system, the array parser on a bracketed
comma-separated list, and line splitting.
-/
import BlueskyVerif.IO.JsonWriter

-- simp sets name generated constants that happen not to be needed for the current source
set_option linter.unusedSimpArgs false

namespace BlueskyVerif.JsonWriter

theorem FS.get_set (fs : FS) (p q c : String) :
    (fs.set p c).get q = if q = p then some c else fs.get q := by
  induction fs with
  | nil =>
    by_cases h : q = p
    · simp [FS.set, FS.get, List.lookup, h]
    · have : (q == p) = false := by simp [h]
      simp [FS.set, FS.get, List.lookup, h, this]
  | cons e r ih =>
    obtain ⟨k, d⟩ := e
    unfold FS.set
    by_cases hk : k = p
    · subst hk
      by_cases h : q = k
      · simp [FS.get, List.lookup, h]
      · have : (q == k) = false := by simp [h]
        simp [FS.get, List.lookup, h, this]
    · simp only [hk, if_false]
      by_cases hq : q = k
      · subst hq
        simp [FS.get, List.lookup, hk]
      · have : (q == k) = false := by simp [hq]
        have ih' := ih
        simp only [FS.get] at ih' ⊢
        simp [List.lookup, this, ih']

theorem openWrite_get (fs : FS) (p q : String) (m : Mode) (t : String) :
    (openWrite fs p m t).get q =
      if q = p then some ((match m with | .w => "" | .a => (fs.get p).getD "") ++ t) else fs.get q := by
  unfold openWrite
  rw [FS.get_set]
  cases m <;> simp

/-! #### text joins -/

theorem sepJoin_snoc (sep : String) (xs : List String) (e : String) :
    sepJoin sep (xs ++ [e]) = concatAll (xs.map (· ++ sep)) ++ e := by
  induction xs with
  | nil => simp [sepJoin, concatAll]
  | cons a r ih =>
    cases r with
    | nil => simp [sepJoin, concatAll, String.append_assoc]
    | cons b r' =>
      have : (a :: b :: r') ++ [e] = a :: b :: (r' ++ [e]) := rfl
      rw [this, sepJoin]
      have ih' : sepJoin sep (b :: (r' ++ [e])) = concatAll ((b :: r').map (· ++ sep)) ++ e := ih
      rw [ih']
      simp [concatAll, String.append_assoc]

theorem concatAll_append (xs ys : List String) : concatAll (xs ++ ys) = concatAll xs ++ concatAll ys := by
  induction xs with
  | nil => simp [concatAll]
  | cons a r ih => simp [concatAll, ih, String.append_assoc]

theorem concatAll_toList (xs : List String) : (concatAll xs).toList = xs.flatMap String.toList := by
  induction xs with
  | nil => simp [concatAll]
  | cons a r ih => simp [concatAll, ih]

theorem sepJoin_toList (sep : String) (xs : List String) :
    (sepJoin sep xs).toList = sepJoinL sep.toList (xs.map String.toList) := by
  induction xs with
  | nil => simp [sepJoin, sepJoinL]
  | cons a r ih =>
    cases r with
    | nil => simp [sepJoin, sepJoinL]
    | cons b r' =>
      simp only [sepJoin, List.map_cons, sepJoinL, String.toList_append]
      rw [ih]
      simp

/-! #### the array parser -/

theorem skipWs_nl (cs : List Char) : skipWs ('\n' :: cs) = skipWs cs := by
  simp [skipWs, isWs]

/-- `t` is the text of exactly one value `v` for the element parser `pv`: whatever follows, `pv`
    consumes `t` and nothing more; and `t` begins with a character that is neither whitespace nor `]`
    (every JSON value does). -/
def IsValueText {V} (pv : List Char → Option (V × List Char)) (t : List Char) (v : V) : Prop :=
  (∀ rest, pv (t ++ rest) = some (v, rest)) ∧ (∃ c cs, t = c :: cs ∧ isWs c = false ∧ c ≠ ']')

theorem IsValueText.stable {V} {pv : List Char → Option (V × List Char)} {t : List Char} {v : V}
    (h : IsValueText pv t v) (rest : List Char) : skipWs (t ++ rest) = t ++ rest := by
  obtain ⟨_, c, cs, e, hw, _⟩ := h
  subst e
  simp [skipWs, hw]

theorem parseElems_joined {V} (pv : List Char → Option (V × List Char))
    (tvs : List (List Char × V)) (h : ∀ p ∈ tvs, IsValueText pv p.1 p.2) (hne : tvs ≠ [])
    (fuel : Nat) (hf : tvs.length ≤ fuel) (tail : List Char) :
    parseElems pv fuel (sepJoinL [',', '\n'] (tvs.map (·.1)) ++ '\n' :: ']' :: tail)
      = some (tvs.map (·.2), tail) := by
  induction tvs generalizing fuel with
  | nil => exact absurd rfl hne
  | cons p r ih =>
    obtain ⟨t, v⟩ := p
    cases fuel with
    | zero => simp at hf
    | succ fuel =>
      have htv := h (t, v) (List.mem_cons_self ..)
      have hp := htv.1
      have hw := htv.stable
      simp only at hp hw
      cases r with
      | nil =>
        simp only [List.map_cons, List.map_nil, sepJoinL]
        unfold parseElems
        rw [hw, hp]
        simp [skipWs, isWs]
      | cons p2 r2 =>
        have ih' := ih (fun q hq => h q (List.mem_cons_of_mem _ hq)) (by simp) fuel (by simp at hf ⊢; omega)
        simp only [List.map_cons, sepJoinL, List.append_assoc] at ih' ⊢
        unfold parseElems
        rw [hw, hp]
        have e1 : ∀ X : List Char, skipWs ([',', '\n'] ++ X) = ',' :: '\n' :: X := by
          intro X; simp [skipWs, isWs]
        simp only [e1]
        have e2 : ∀ X : List Char, parseElems pv fuel ('\n' :: X) = parseElems pv fuel X := by
          intro X
          cases fuel with
          | zero => rfl
          | succ f => simp only [parseElems, skipWs_nl]
        rw [e2, ih']

theorem length_le_joined {V} (sep : List Char) (hs : 1 ≤ sep.length) (l : List (List Char × V)) :
    l.length ≤ (sepJoinL sep (l.map (·.1))).length + 1 := by
  induction l with
  | nil => simp
  | cons a r ih =>
    cases r with
    | nil => simp
    | cons b r' =>
      simp only [List.map_cons, sepJoinL, List.length_append, List.length_cons] at ih ⊢
      omega

theorem concat_lines_toList (texts : List String) :
    (concatAll (texts.map (· ++ "\n"))).toList = (texts.map String.toList).flatMap (· ++ ['\n']) := by
  rw [concatAll_toList]
  induction texts with
  | nil => rfl
  | cons a r ih =>
    simp only [List.map_cons, List.flatMap_cons, String.toList_append, ih]
    rfl

/-! #### lines -/

theorem linesOf_line (t rest : List Char) (h : '\n' ∉ t) :
    linesOf (t ++ '\n' :: rest) = t :: linesOf rest := by
  induction t with
  | nil => simp [linesOf]
  | cons c t ih =>
    have hc : c ≠ '\n' := by intro e; apply h; simp [e]
    have ht : '\n' ∉ t := by intro e; apply h; simp [e]
    simp [linesOf, hc, ih ht, consLine]

theorem linesOf_lines (ts : List (List Char)) (h : ∀ t ∈ ts, '\n' ∉ t) :
    linesOf (ts.flatMap (· ++ ['\n'])) = ts := by
  induction ts with
  | nil => simp [linesOf]
  | cons t r ih =>
    have := linesOf_line t (r.flatMap (· ++ ['\n'])) (h t (List.mem_cons_self ..))
    simp only [List.flatMap_cons, List.append_assoc, List.singleton_append]
    rw [this, ih (fun x hx => h x (List.mem_cons_of_mem _ hx))]

theorem linesOf_terminated_ne_nil (a : List Char) : linesOf (a ++ ['\n']) ≠ [] := by
  induction a with
  | nil => simp [linesOf]
  | cons c a ih =>
    by_cases hc : c = '\n'
    · simp [linesOf, hc]
    · simp only [List.cons_append, linesOf, hc, if_false]
      cases h : linesOf (a ++ ['\n']) with
      | nil => exact absurd h ih
      | cons l ls => simp [consLine]

/-- text after a terminated text starts on a fresh line -/
theorem linesOf_append_terminated (a b : List Char) :
    linesOf (a ++ '\n' :: b) = linesOf (a ++ ['\n']) ++ linesOf b := by
  induction a with
  | nil => simp [linesOf]
  | cons c a ih =>
    by_cases hc : c = '\n'
    · simp [linesOf, hc, ih]
    · simp only [List.cons_append, linesOf, hc, if_false]
      rw [ih]
      cases h : linesOf (a ++ ['\n']) with
      | nil => exact absurd h (linesOf_terminated_ne_nil a)
      | cons l ls => simp [consLine]

/-- terminating an unterminated, non-empty text does not change its lines -/
theorem linesOf_terminate (a : List Char) (hne : a ≠ []) (h : a.getLast? ≠ some '\n') :
    linesOf (a ++ ['\n']) = linesOf a := by
  induction a with
  | nil => exact absurd rfl hne
  | cons c r ih =>
    cases r with
    | nil =>
      have hc : c ≠ '\n' := by intro e; apply h; simp [e]
      simp [linesOf, hc, consLine]
    | cons d r' =>
      have h' : (d :: r').getLast? ≠ some '\n' := by simpa [List.getLast?_cons_cons] using h
      have ih' := ih (by simp) h'
      by_cases hc : c = '\n'
      · simp only [List.cons_append, linesOf, hc, if_true]
        exact congrArg _ ih'
      · simp only [List.cons_append, linesOf, hc, if_false]
        exact congrArg _ ih'

theorem endsWith_append_nl (x : String) : endsWith '\n' (x ++ "\n") = true := by
  have : ("\n" : String).toList = ['\n'] := rfl
  simp [endsWith, String.toList_append, this]

theorem endsWith_iff (c : Char) (s : String) : endsWith c s = true ↔ ∃ p : String, s = p ++ String.singleton c := by
  unfold endsWith
  constructor
  · intro h
    have h' : s.toList.getLast? = some c := by simpa using h
    obtain ⟨l, hl⟩ := List.getLast?_eq_some_iff.mp h'
    refine ⟨String.ofList l, ?_⟩
    apply String.toList_inj.mp
    simp [String.toList_append, hl]
  · rintro ⟨p, rfl⟩
    simp [String.toList_append]

end BlueskyVerif.JsonWriter
