/-
C02 / C08 helper lemmas, part 1: the generated exit ladder as a function, `Same4` (state, interrupted,
pc, blocking event unchanged) and basic facts about `setState`.
-/
import BlueskyVerif.Lemmas.C02Fields

namespace BlueskyVerif.Engine

/-! ## the generated ladder as a function -/

/-- the status the outer `except` ladder of `_run` assigns, per exception class (GENERATED constants) -/
def ladderStatus : Exc → ExitStatus
  | .stopIteration => Src.exitOnStopIteration
  | .requestStop => Src.exitOnRequestStop
  | .failedPause | .requestAbort | .cancelled | .planHalt => Src.exitOnAbortLike
  | .genExit => Src.exitOnGeneratorExit
  | _ => Src.exitOnException

/-- exception classes whose handler ends with `await asyncio.sleep(0)` (arrival S4) and lets the task return -/
def Exc.sleeper : Exc → Bool
  | .stopIteration | .requestStop | .failedPause | .requestAbort | .cancelled | .planHalt => true
  | _ => false

/-- a status stored by an abort()/halt() request itself (GENERATED constants) -/
def ReqStored (x : ExitStatus) : Prop := Src.abortSetsExit = some x ∨ Src.haltSetsExit = some x

/-! ## frames -/

/-- `a` and `b` agree on state, `_interrupted`, the program counter of `_run` and the blocking event -/
def Same4 (a b : EState) : Prop :=
  a.state = b.state ∧ a.interrupted = b.interrupted ∧ a.pc = b.pc ∧ a.blockingEvent = b.blockingEvent

theorem Same4.of_ctl {a b : EState} (h : ctl a = ctl b) : Same4 a b :=
  ⟨congrArg Ctl.state h, congrArg Ctl.interrupted h, congrArg Ctl.pc h, congrArg Ctl.blockingEvent h⟩

theorem Same4.refl (a : EState) : Same4 a a := ⟨rfl, rfl, rfl, rfl⟩

theorem Same4.trans {a b c : EState} (h1 : Same4 a b) (h2 : Same4 b c) : Same4 a c :=
  ⟨h1.1.trans h2.1, h1.2.1.trans h2.2.1, h1.2.2.1.trans h2.2.2.1, h1.2.2.2.trans h2.2.2.2⟩

theorem setState_keep {s s' : EState} {n : St} (h : setState s n = .ok s') :
    s'.state = n ∧ s'.interrupted = s.interrupted ∧ s'.pc = s.pc ∧ s'.blockingEvent = s.blockingEvent ∧
    s'.exitExc = s.exitExc ∧ s'.exitStatus = s.exitStatus ∧ s'.planDone = s.planDone ∧ s'.permit = s.permit ∧
    s'.stashed = s.stashed ∧ s'.bundlers = s.bundlers ∧ s'.cleanupExc = s.cleanupExc ∧ s'.taskResult = s.taskResult ∧
    s'.trans = s.trans ++ [(s.state, n)] := by
  unfold setState at h; split at h
  · cases h; exact ⟨rfl, rfl, rfl, rfl, rfl, rfl, rfl, rfl, rfl, rfl, rfl, rfl, rfl⟩
  · cases h

theorem setState_from {s s' : EState} {n : St} (h : setState s n = .ok s') :
    (Src.transitions s.state).contains n = true := by
  unfold setState at h; split at h
  · assumption
  · cases h

theorem setState_ok_of {s : EState} {n : St} (h : (Src.transitions s.state).contains n = true) :
    ∃ s', setState s n = .ok s' := by
  unfold setState; rw [dif_pos h]; exact ⟨_, rfl⟩

/-- only `pausing` may move to `paused` (GENERATED table) -/
theorem paused_only_from_pausing (st : St) (h : (Src.transitions st).contains .paused = true) : st = .pausing := by
  cases st <;> first | rfl | (exact absurd h (by decide))

end BlueskyVerif.Engine
