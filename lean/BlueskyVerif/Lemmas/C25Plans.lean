/-
Helper lemmas for C25 (part 3, core Lean only): what each plan function evaluates to on valid input
(message list over an explicit trajectory + metadata), flag derivation of grid_scan.
-/
import BlueskyVerif.Lemmas.C25Grid
namespace BlueskyVerif.Pure.StepScan
open BlueskyVerif.Pure BlueskyVerif.Pure.Snake BlueskyVerif.Pure.Patterns

theorem length_gridFlags (n : Nat) (req : SnakeReq) (fl : List Bool) (h : gridFlags n req = some fl) :
    fl.length = n := by
  cases req with
  | default => simp [gridFlags] at h; subst h; simp
  | inArgs snakes =>
    simp only [gridFlags] at h
    split at h
    · simp at h; subst h; simp; omega
    · simp at h
  | axes sa =>
    cases sa with
    | off => simp [gridFlags] at h; subst h; simp
    | all => simp [gridFlags] at h; subst h; simp
    | these ms =>
      simp only [gridFlags] at h
      split at h
      · simp at h
      · simp at h; subst h; simp

/-- the first (slowest) axis is never snaked -/
theorem head_gridFlags (n : Nat) (req : SnakeReq) (fl : List Bool) (h : gridFlags n req = some fl)
    (hn : 0 < n) : fl[0]? = some false := by
  cases req with
  | default => simp [gridFlags] at h; subst h; simp [hn]
  | inArgs snakes =>
    simp only [gridFlags] at h
    split at h
    · simp at h; subst h; simp
    · simp at h
  | axes sa =>
    cases sa with
    | off => simp [gridFlags] at h; subst h; simp [hn]
    | all => simp [gridFlags] at h; subst h; simp [hn]
    | these ms =>
      simp only [gridFlags] at h
      split at h
      · simp at h
      · simp at h; subst h; simp [hn]

theorem length_outerListFlags (n : Nat) (sa : SnakeAxes) : (outerListFlags n sa).length = n := by
  cases sa with
  | off => simp [outerListFlags]
  | all => simp [outerListFlags]
  | these ms => simp only [outerListFlags]; split <;> simp

theorem gridScan_ok (dets : List Dev) (trig : Dev → Bool) (axes : List (Rat × Rat × Nat)) (req : SnakeReq)
    (flags : List Bool) (hne : axes ≠ []) (hf : gridFlags axes.length req = some flags) :
    gridScan dets trig axes req = .ok
      { msgs := scanNd dets trig (List.range axes.length) (outerTraj (gridCols axes) flags)
        md := { numPoints := prod (axes.map (·.2.2))
                numIntervals := (prod (axes.map (·.2.2)) : Int) - 1
                shape := some (axes.map (·.2.2))
                extents := some (axes.map fun a => (a.1, a.2.1))
                snaking := some flags } } := by
  have hlen := length_gridFlags _ _ _ hf
  simp only [gridScan, hf, outerProduct_eq axes flags hlen hne, ndMeta, Gen.numPointsMinus, Gen.numIntervalsMinus,
    length_outerTraj _ _ (show flags.length = (gridCols axes).length by simp [gridCols, hlen]),
    gridCols_lengths, Nat.sub_zero]
  rfl

theorem listGridScan_ok (dets : List Dev) (trig : Dev → Bool) (lists : List (List Rat)) (sa : SnakeAxes)
    (hne : lists ≠ []) :
    listGridScan dets trig lists sa = .ok
      { msgs := scanNd dets trig (List.range lists.length) (outerTraj lists (outerListFlags lists.length sa))
        md := { numPoints := prod (lists.map List.length)
                numIntervals := (prod (lists.map List.length) : Int) - 1
                shape := some (lists.map List.length)
                extents := some (lists.map fun l => (listMin l, listMax l)) } } := by
  have hlen := length_outerListFlags lists.length sa
  simp only [listGridScan, outerListProduct, ofRes_snakeCyclers lists _ hlen hne, ndMeta, Gen.numPointsMinus, Gen.numIntervalsMinus,
    length_outerTraj _ _ hlen, Nat.sub_zero]
  rfl

theorem scan_ok (dets : List Dev) (trig : Dev → Bool) (args : List (Rat × Rat)) (num : Nat)
    (hnum : 0 < num) (hne : args ≠ []) :
    scan dets trig args num = .ok
      { msgs := scanNd dets trig (List.range args.length)
          ((List.range num).map fun (k : Nat) =>
            args.zipIdx.map fun x => (x.2, x.1.1 + (k : Rat) * ((x.1.2 - x.1.1) / ((num : Rat) - 1))))
        md := { numPoints := num, numIntervals := (num : Int) - 1 } } := by
  simp [scan, Nat.ne_of_gt hnum, innerProduct_eq num args hne, ndMeta, Gen.numPointsMinus, Gen.numIntervalsMinus]


theorem listScan_ok (dets : List Dev) (trig : Dev → Bool) (lists : List (List Rat)) (N : Nat)
    (hne : lists ≠ []) (hlen : ∀ l ∈ lists, l.length = N) :
    listScan dets trig lists = .ok
      { msgs := scanNd dets trig (List.range lists.length)
          ((List.range N).map fun k => lists.zipIdx.flatMap fun x => ((x.1[k]?).map fun v => (x.2, v)).toList)
        md := { numPoints := N, numIntervals := (N : Int) - 1 } } := by
  cases lists with
  | nil => exact absurd rfl hne
  | cons l ls =>
    have hall : ((l :: ls).all fun l' => l'.length == N) = true := by
      simp only [List.all_eq_true, beq_iff_eq]
      intro c' hc'
      exact hlen c' hc'
    simp only [listScan, innerZip_eq (l :: ls) N (by simp) hlen, hlen l (by simp), hall,
      Bool.not_true, Bool.false_eq_true, if_false]

/-- the trajectory of `x2x_scan` -/
def x2xTraj (init0 init1 start stop : Rat) (num : Nat) : List Step :=
  (List.range num).map fun (k : Nat) =>
    [(0, init0 + (start + (k : Rat) * ((stop - start) / ((num : Rat) - 1)))),
     (1, init1 + (start / 2 + (k : Rat) * ((stop / 2 - start / 2) / ((num : Rat) - 1))))]

theorem x2xScan_ok (dets : List Dev) (trig : Dev → Bool) (init0 init1 start stop : Rat) (num : Nat)
    (hnum : 0 < num) :
    x2xScan dets trig init0 init1 start stop num = .ok
      { msgs := scanNd dets trig [0, 1] (x2xTraj init0 init1 start stop num) ++
                  [Msg.set 0 init0 .reset, Msg.set 1 init1 .reset, Msg.wait .reset]
        md := { numPoints := num, numIntervals := (num : Int) - 1 } } := by
  have hz := innerZip_eq [(linspace start stop num).map (init0 + ·),
      (linspace (start / 2) (stop / 2) num).map (init1 + ·)] num (by simp) (by
        intro c hc
        simp only [List.mem_cons, List.not_mem_nil, or_false] at hc
        rcases hc with rfl | rfl <;> simp [length_linspace])
  have ht : ((List.range num).map fun k =>
      [((linspace start stop num).map (init0 + ·)), ((linspace (start / 2) (stop / 2) num).map (init1 + ·))].zipIdx.flatMap
        fun x => ((x.1[k]?).map fun v => (x.2, v)).toList) = x2xTraj init0 init1 start stop num := by
    unfold x2xTraj
    apply List.map_congr_left
    intro k hk
    have hk' : k < num := by simpa using hk
    simp [List.zipIdx_cons, getElem?_linspace _ _ _ _ hk']
  rw [ht] at hz
  simp [x2xScan, Nat.ne_of_gt hnum, hz, ndMeta, Gen.numPointsMinus, Gen.numIntervalsMinus, x2xTraj]


theorem length_snapshots (p : Pos) (l : List Msg) : (snapshots p l).length = l.count Msg.save := by
  induction l generalizing p with
  | nil => simp [snapshots]
  | cons m rest ih => cases m <;> simp [snapshots, ih]

/-- keys of a step `l.zipIdx.map (fun x => (x.2, f x))` are 0, 1, 2, ... -/
theorem nodup_keys_zipIdx_map {α : Type} (l : List α) (f : α × Nat → Rat) :
    ((l.zipIdx.map fun x => (x.2, f x)).map (·.1)).Nodup := by
  have : (l.zipIdx.map fun x => (x.2, f x)).map (·.1) = List.range l.length := by
    rw [List.map_map, List.range_eq_range', ← List.zipIdx_map_snd 0 l]; rfl
  rw [this]; exact List.nodup_range

theorem keys_flatMap_subset {α : Type} (l : List (α × Nat)) (g : α × Nat → Option Rat) :
    ∀ k ∈ (l.flatMap fun x => ((g x).map fun v => (x.2, v)).toList).map (·.1), k ∈ l.map (·.2) := by
  intro k hk
  simp only [List.mem_map, List.mem_flatMap, Option.mem_toList, Option.map_eq_some_iff] at hk
  obtain ⟨y, ⟨x, hx, v, _, rfl⟩, rfl⟩ := hk
  exact List.mem_map_of_mem hx

theorem nodup_keys_flatMap {α : Type} (l : List (α × Nat)) (g : α × Nat → Option Rat)
    (h : (l.map (·.2)).Nodup) :
    ((l.flatMap fun x => ((g x).map fun v => (x.2, v)).toList).map (·.1)).Nodup := by
  induction l with
  | nil => simp
  | cons x xs ih =>
    simp only [List.map_cons, List.nodup_cons] at h
    simp only [List.flatMap_cons, List.map_append]
    rw [List.nodup_append]
    refine ⟨?_, ih h.2, ?_⟩
    · cases g x <;> simp
    · intro a ha b hb
      have hb' := keys_flatMap_subset xs g b hb
      cases hg : g x with
      | none => simp [hg] at ha
      | some v =>
        simp [hg] at ha
        subst ha
        intro hab
        subst hab
        exact h.1 hb'

theorem nodup_snd_zipIdx {α : Type} (l : List α) : (l.zipIdx.map (·.2)).Nodup := by
  have : l.zipIdx.map (·.2) = List.range l.length := by
    rw [List.range_eq_range', ← List.zipIdx_map_snd 0 l]
  rw [this]; exact List.nodup_range

/-- log_scan: every block sets the motor (no cache) -/
theorem snapshots_logBlocks (dets : List Dev) (trig : Dev → Bool) (steps : List Rat) (p : Pos) :
    Matches (snapshots p (steps.map (one1dStep dets trig)).flatten) (steps.map fun x => [(0, x)]) := by
  induction steps generalizing p with
  | nil => simp [snapshots, Matches]
  | cons x rest ih =>
    obtain ⟨pre, hpre, hin⟩ := inert_triggerAndRead_init (dets ++ [Dev.mot 0]) trig
    simp only [List.map_cons, List.flatten_cons, one1dStep, hpre, snapshots_append, finalPos_append]
    simp only [List.cons_append, List.nil_append, snapshots, finalPos, snapshots_inert _ pre hin,
      finalPos_inert _ pre hin, Matches]
    refine ⟨by simp, ih _⟩

theorem isPointBlock_one1dStep (dets : List Dev) (trig : Dev → Bool) (x : Rat) :
    isPointBlock (one1dStep dets trig x) = true := by
  simp only [isPointBlock, one1dStep, triggerAndRead, List.cons_append, List.append_assoc, blockFrom,
    List.nil_append]
  rw [blockFrom_triggers]
  split
  · simp only [List.nil_append, blockFrom]; exact blockFrom_reads _
  · simp only [List.nil_append, List.cons_append, blockFrom]; exact blockFrom_reads _

end BlueskyVerif.Pure.StepScan
