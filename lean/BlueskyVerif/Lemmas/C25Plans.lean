/-
Helper lemmas for C25 (part 3, core Lean only): what each plan function evaluates to on valid input
(message list over an explicit trajectory + metadata), flag derivation of grid_scan.
-/
import BlueskyVerif.Lemmas.C25Grid
namespace BlueskyVerif.Pure.StepScan
open BlueskyVerif.Pure BlueskyVerif.Pure.Snake BlueskyVerif.Pure.Patterns

theorem length_gridFlags (n : Nat) (req : SnakeReq) (fl : List Bool) (h : gridFlags n req = some fl) :
    fl.length = n := by
  cases req with
  | default => simp [gridFlags] at h; subst h; simp
  | inArgs snakes =>
    simp only [gridFlags] at h
    split at h
    · simp at h; subst h; simp; omega
    · simp at h
  | axes sa =>
    cases sa with
    | off => simp [gridFlags] at h; subst h; simp
    | all => simp [gridFlags] at h; subst h; simp
    | these ms =>
      simp only [gridFlags] at h
      split at h
      · simp at h
      · simp at h; subst h; simp

/-- the first (slowest) axis is never snaked -/
theorem head_gridFlags (n : Nat) (req : SnakeReq) (fl : List Bool) (h : gridFlags n req = some fl)
    (hn : 0 < n) : fl[0]? = some false := by
  cases req with
  | default => simp [gridFlags] at h; subst h; simp [hn]
  | inArgs snakes =>
    simp only [gridFlags] at h
    split at h
    · simp at h; subst h; simp
    · simp at h
  | axes sa =>
    cases sa with
    | off => simp [gridFlags] at h; subst h; simp [hn]
    | all => simp [gridFlags] at h; subst h; simp [hn]
    | these ms =>
      simp only [gridFlags] at h
      split at h
      · simp at h
      · simp at h; subst h; simp [hn]

theorem length_outerListFlags (n : Nat) (sa : SnakeAxes) : (outerListFlags n sa).length = n := by
  cases sa with
  | off => simp [outerListFlags]
  | all => simp [outerListFlags]
  | these ms => simp only [outerListFlags]; split <;> simp

theorem gridScan_ok (dets : List Dev) (trig : Dev → Bool) (axes : List (Rat × Rat × Nat)) (req : SnakeReq)
    (flags : List Bool) (hne : axes ≠ []) (hf : gridFlags axes.length req = some flags) :
    gridScan dets trig axes req = .ok
      { msgs := scanNd dets trig (List.range axes.length) (outerTraj (gridCols axes) flags)
        md := { numPoints := prod (axes.map (·.2.2))
                numIntervals := (prod (axes.map (·.2.2)) : Int) - 1
                shape := some (axes.map (·.2.2))
                extents := some (axes.map fun a => (a.1, a.2.1))
                snaking := some flags } } := by
  have hlen := length_gridFlags _ _ _ hf
  simp only [gridScan, hf, outerProduct_eq axes flags hlen hne, ndMeta,
    length_outerTraj _ _ (show flags.length = (gridCols axes).length by simp [gridCols, hlen]),
    gridCols_lengths]

theorem listGridScan_ok (dets : List Dev) (trig : Dev → Bool) (lists : List (List Rat)) (sa : SnakeAxes)
    (hne : lists ≠ []) :
    listGridScan dets trig lists sa = .ok
      { msgs := scanNd dets trig (List.range lists.length) (outerTraj lists (outerListFlags lists.length sa))
        md := { numPoints := prod (lists.map List.length)
                numIntervals := (prod (lists.map List.length) : Int) - 1
                shape := some (lists.map List.length)
                extents := some (lists.map fun l => (listMin l, listMax l)) } } := by
  have hlen := length_outerListFlags lists.length sa
  simp only [listGridScan, outerListProduct, ofRes_snakeCyclers lists _ hlen hne, ndMeta,
    length_outerTraj _ _ hlen]

theorem scan_ok (dets : List Dev) (trig : Dev → Bool) (args : List (Rat × Rat)) (num : Nat)
    (hnum : 0 < num) (hne : args ≠ []) :
    scan dets trig args num = .ok
      { msgs := scanNd dets trig (List.range args.length)
          ((List.range num).map fun (k : Nat) =>
            args.zipIdx.map fun x => (x.2, x.1.1 + (k : Rat) * ((x.1.2 - x.1.1) / ((num : Rat) - 1))))
        md := { numPoints := num, numIntervals := (num : Int) - 1 } } := by
  simp [scan, Nat.ne_of_gt hnum, innerProduct_eq num args hne, ndMeta]


theorem listScan_ok (dets : List Dev) (trig : Dev → Bool) (lists : List (List Rat)) (N : Nat)
    (hne : lists ≠ []) (hlen : ∀ l ∈ lists, l.length = N) :
    listScan dets trig lists = .ok
      { msgs := scanNd dets trig (List.range lists.length)
          ((List.range N).map fun k => lists.zipIdx.flatMap fun x => ((x.1[k]?).map fun v => (x.2, v)).toList)
        md := { numPoints := N, numIntervals := (N : Int) - 1 } } := by
  cases lists with
  | nil => exact absurd rfl hne
  | cons l ls =>
    have hall : ((l :: ls).all fun l' => l'.length == N) = true := by
      simp only [List.all_eq_true, beq_iff_eq]
      intro c' hc'
      exact hlen c' hc'
    simp only [listScan, innerZip_eq (l :: ls) N (by simp) hlen, hlen l (by simp), hall,
      Bool.not_true, Bool.false_eq_true, if_false]

/-- the trajectory of `x2x_scan` -/
def x2xTraj (init0 init1 start stop : Rat) (num : Nat) : List Step :=
  (List.range num).map fun (k : Nat) =>
    [(0, init0 + (start + (k : Rat) * ((stop - start) / ((num : Rat) - 1)))),
     (1, init1 + (start / 2 + (k : Rat) * ((stop / 2 - start / 2) / ((num : Rat) - 1))))]

theorem x2xScan_ok (dets : List Dev) (trig : Dev → Bool) (init0 init1 start stop : Rat) (num : Nat)
    (hnum : 0 < num) :
    x2xScan dets trig init0 init1 start stop num = .ok
      { msgs := scanNd dets trig [0, 1] (x2xTraj init0 init1 start stop num) ++
                  [Msg.set 0 init0 .reset, Msg.set 1 init1 .reset, Msg.wait .reset]
        md := { numPoints := num, numIntervals := (num : Int) - 1 } } := by
  have hz := innerZip_eq [(linspace start stop num).map (init0 + ·),
      (linspace (start / 2) (stop / 2) num).map (init1 + ·)] num (by simp) (by
        intro c hc
        simp only [List.mem_cons, List.not_mem_nil, or_false] at hc
        rcases hc with rfl | rfl <;> simp [length_linspace])
  have ht : ((List.range num).map fun k =>
      [((linspace start stop num).map (init0 + ·)), ((linspace (start / 2) (stop / 2) num).map (init1 + ·))].zipIdx.flatMap
        fun x => ((x.1[k]?).map fun v => (x.2, v)).toList) = x2xTraj init0 init1 start stop num := by
    unfold x2xTraj
    apply List.map_congr_left
    intro k hk
    have hk' : k < num := by simpa using hk
    simp [List.zipIdx_cons, getElem?_linspace _ _ _ _ hk']
  rw [ht] at hz
  simp [x2xScan, Nat.ne_of_gt hnum, hz, ndMeta, x2xTraj]

end BlueskyVerif.Pure.StepScan
