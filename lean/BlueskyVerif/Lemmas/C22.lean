/-
Lemmas/C22.lean -- the invariant of the try/except/else/finally phase machine (Gen/Wrappers.lean):
in every state the instrumentation log is exactly the one Python's try statement produces on the
path recorded in the state, and that path is consistent with the configuration.
-/
import BlueskyVerif.Gen.Wrappers
import BlueskyVerif.Lemmas.Gen

namespace BlueskyVerif.Gen
set_option linter.unusedSectionVars false

section
variable {M R V E : Type} [Inhabited R] [DecidableEq R] [Inhabited V] [PyExc E]

/-- events of `pause()` inside the handler -/
def pzLog : Option (Pending V E) → List (Ev V E)
  | none => []
  | some o => [.pauseStart, .pauseEnd o]

/-- events of `except_plan(e)` -/
def exLog (e : E) : Option (Pending V E) → List (Ev V E)
  | none => []
  | some o => [.exceptStart e, .exceptEnd o]

/-- the log up to (not including) the `finally` block on this path -/
def Path.log : Path V E → List (Ev V E)
  | .ret v => [.bodyEnd (.ret v)]
  | .retElse v o => [.bodyEnd (.ret v), .elseStart, .elseEnd o]
  | .uncaught e => [.bodyEnd (.exc e)]
  | .handled e pz ex => .bodyEnd (.exc e) :: (pzLog pz ++ exLog e ex)

/-- the complete log of a finished wrapper -/
def DoneInfo.log : DoneInfo V E → List (Ev V E)
  | .closed e => [.bodyEnd (.exc e)]
  | .noFinal path => path.log
  | .final path o => path.log ++ [.finalStart, .finalEnd o]

def Pending.isExc : Pending V E → Bool
  | .exc _ => true
  | .ret _ => false

/-- `pause()` ended normally or was not run -/
def pzOk : Option (Pending V E) → Bool
  | some (.exc _) => false
  | _ => true

/-- a path Python's try statement can take under this configuration -/
def Path.ok (cfg : TryCfg M R V E) : Path V E → Prop
  | .ret _ => cfg.elsePlan.isNone
  | .retElse _ _ => cfg.elsePlan.isSome
  | .uncaught e => dispatch cfg.clauses e = .uncaught
  | .handled e pz ex =>
    dispatch cfg.clauses e = .handled ∧ (pz.isSome = cfg.pausePlan.isSome) ∧
    (ex.isSome = (cfg.exceptPlan.isSome && pzOk pz))

def DoneInfo.ok (cfg : TryCfg M R V E) : DoneInfo V E → Prop
  | .closed e => dispatch cfg.clauses e = .closed
  | .noFinal path => path.ok cfg ∧ cfg.finalPlan.isNone
  | .final path _ => path.ok cfg ∧ cfg.finalPlan.isSome

/-- **the invariant** -/
def TryInv (cfg : TryCfg M R V E) (s : TrySt M R V E) : Prop :=
  match s.ph with
  | .init => s.log = []
  | .body _ => s.log = []
  | .pause e _ =>
    s.log = [.bodyEnd (.exc e), .pauseStart] ∧ dispatch cfg.clauses e = .handled ∧
      cfg.pausePlan.isSome
  | .exc e pz _ =>
    s.log = .bodyEnd (.exc e) :: (pzLog pz ++ [.exceptStart e]) ∧
      dispatch cfg.clauses e = .handled ∧ pz.isSome = cfg.pausePlan.isSome ∧ pzOk pz = true ∧
      cfg.exceptPlan.isSome
  | .els v _ => s.log = [.bodyEnd (.ret v), .elseStart] ∧ cfg.elsePlan.isSome
  | .fin path _ => s.log = path.log ++ [.finalStart] ∧ path.ok cfg ∧ cfg.finalPlan.isSome
  | .done d => s.log = d.log ∧ d.ok cfg

/-- what a transition produces: the invariant again, and the right output -/
def ResOk (cfg : TryCfg M R V E) (r : TryRes M R V E) : Prop :=
  TryInv cfg r.2 ∧
  (match r.2.ph with
   | .done d => r.1 = (d.result cfg.autoRaise).toOut
   | _ => r.1.isYld = true)

theorem onFinal_ok (cfg : TryCfg M R V E) (log : List (Ev V E)) (path : Path V E)
    (r : YfRes M R V E) (hl : log = path.log ++ [.finalStart]) (hp : path.ok cfg)
    (hf : cfg.finalPlan.isSome) : ResOk cfg (onFinal cfg log path r) := by
  cases r <;> simp [onFinal, tryFinish, ResOk, TryInv, DoneInfo.log, DoneInfo.ok, hl, hp, hf,
    Out.isYld]

theorem enterFinal_ok (cfg : TryCfg M R V E) (log : List (Ev V E)) (path : Path V E)
    (hl : log = path.log) (hp : path.ok cfg) : ResOk cfg (enterFinal cfg log path) := by
  unfold enterFinal
  cases hf : cfg.finalPlan with
  | none => simp [tryFinish, ResOk, TryInv, DoneInfo.log, DoneInfo.ok, hl, hp, hf]
  | some f => exact onFinal_ok cfg _ path _ (by rw [hl]) hp (by simp [hf])

theorem onExcept_ok (cfg : TryCfg M R V E) (log : List (Ev V E)) (e : E)
    (pz : Option (Pending V E)) (r : YfRes M R V E)
    (hl : log = .bodyEnd (.exc e) :: (pzLog pz ++ [.exceptStart e]))
    (hd : dispatch cfg.clauses e = .handled) (hpz : pz.isSome = cfg.pausePlan.isSome)
    (hok : pzOk pz = true) (hx : cfg.exceptPlan.isSome) :
    ResOk cfg (onExcept cfg log e pz r) := by
  cases r with
  | yld m p => simp [onExcept, ResOk, TryInv, hl, hd, hpz, hok, hx, Out.isYld]
  | done w =>
    exact enterFinal_ok cfg _ _ (by simp [hl, Path.log, exLog]) (by simp [Path.ok, hd, hpz, hok, hx])
  | raised x =>
    exact enterFinal_ok cfg _ _ (by simp [hl, Path.log, exLog]) (by simp [Path.ok, hd, hpz, hok, hx])

theorem enterExcept_ok (cfg : TryCfg M R V E) (log : List (Ev V E)) (e : E)
    (pz : Option (Pending V E)) (hl : log = .bodyEnd (.exc e) :: pzLog pz)
    (hd : dispatch cfg.clauses e = .handled) (hpz : pz.isSome = cfg.pausePlan.isSome)
    (hok : pzOk pz = true) : ResOk cfg (enterExcept cfg log e pz) := by
  unfold enterExcept
  cases hx : cfg.exceptPlan with
  | none =>
    exact enterFinal_ok cfg _ _ (by simp [hl, Path.log, exLog]) (by simp [Path.ok, hd, hpz, hx])
  | some ep => exact onExcept_ok cfg _ e pz _ (by simp [hl]) hd hpz hok (by simp [hx])

theorem onPause_ok (cfg : TryCfg M R V E) (log : List (Ev V E)) (e : E) (r : YfRes M R V E)
    (hl : log = [.bodyEnd (.exc e), .pauseStart]) (hd : dispatch cfg.clauses e = .handled)
    (hp : cfg.pausePlan.isSome) : ResOk cfg (onPause cfg log e r) := by
  cases r with
  | yld m p => simp [onPause, ResOk, TryInv, hl, hd, hp, Out.isYld]
  | done u => exact enterExcept_ok cfg _ e _ (by simp [hl, pzLog]) hd (by simp [hp]) rfl
  | raised x =>
    exact enterFinal_ok cfg _ _ (by simp [hl, Path.log, pzLog, exLog])
      (by simp [Path.ok, hd, hp, pzOk])

theorem enterHandler_ok (cfg : TryCfg M R V E) (log : List (Ev V E)) (e : E)
    (hl : log = [.bodyEnd (.exc e)]) (hd : dispatch cfg.clauses e = .handled) :
    ResOk cfg (enterHandler cfg log e) := by
  unfold enterHandler
  cases hp : cfg.pausePlan with
  | none => exact enterExcept_ok cfg _ e none (by simp [hl, pzLog]) hd (by simp [hp]) rfl
  | some pp => exact onPause_ok cfg _ e _ (by simp [hl]) hd (by simp [hp])

theorem onElse_ok (cfg : TryCfg M R V E) (log : List (Ev V E)) (v : V) (r : YfRes M R V E)
    (hl : log = [.bodyEnd (.ret v), .elseStart]) (he : cfg.elsePlan.isSome) :
    ResOk cfg (onElse cfg log v r) := by
  cases r with
  | yld m p => simp [onElse, ResOk, TryInv, hl, he, Out.isYld]
  | done u => exact enterFinal_ok cfg _ _ (by simp [hl, Path.log]) (by simp [Path.ok, he])
  | raised x => exact enterFinal_ok cfg _ _ (by simp [hl, Path.log]) (by simp [Path.ok, he])

theorem onBody_ok (cfg : TryCfg M R V E) (log : List (Ev V E)) (r : YfRes M R V E)
    (hl : log = []) : ResOk cfg (onBody cfg log r) := by
  cases r with
  | yld m p => simp [onBody, ResOk, TryInv, hl, Out.isYld]
  | done v =>
    simp only [onBody]
    cases he : cfg.elsePlan with
    | none => exact enterFinal_ok cfg _ _ (by simp [hl, Path.log]) (by simp [Path.ok, he])
    | some ep => exact onElse_ok cfg _ v _ (by simp [hl]) (by simp [he])
  | raised e =>
    simp only [onBody]
    cases hd : dispatch cfg.clauses e with
    | closed => simp [tryFinish, ResOk, TryInv, DoneInfo.log, DoneInfo.ok, hl, hd]
    | handled => exact enterHandler_ok cfg _ e (by simp [hl]) hd
    | uncaught => exact enterFinal_ok cfg _ _ (by simp [hl, Path.log]) (by simp [Path.ok, hd])

def TrySt.isDone (s : TrySt M R V E) : Bool :=
  match s.ph with
  | .done _ => true
  | _ => false

/-- every transition from a state that satisfies the invariant and is not finished -/
theorem tryStep_ok (cfg : TryCfg M R V E) (plan : Beh M R V E) (s : TrySt M R V E) (i : Inp R E)
    (h : TryInv cfg s) (hnd : s.isDone = false) : ResOk cfg (tryStep cfg plan s i) := by
  obtain ⟨ph, log⟩ := s
  cases ph with
  | init => exact onBody_ok cfg _ _ h
  | body p => exact onBody_ok cfg _ _ h
  | pause e p => exact onPause_ok cfg _ e _ h.1 h.2.1 h.2.2
  | exc e pz p => exact onExcept_ok cfg _ e pz _ h.1 h.2.1 h.2.2.1 h.2.2.2.1 h.2.2.2.2
  | els v p => exact onElse_ok cfg _ v _ h.1 h.2
  | fin path p => exact onFinal_ok cfg _ path _ h.1 h.2.1 h.2.2
  | done d => simp [TrySt.isDone] at hnd

theorem tryStep_inv (cfg : TryCfg M R V E) (plan : Beh M R V E) (s : TrySt M R V E) (i : Inp R E)
    (h : TryInv cfg s) : TryInv cfg (tryStep cfg plan s i).2 := by
  cases hd : s.isDone
  · exact (tryStep_ok cfg plan s i h hd).1
  · obtain ⟨ph, log⟩ := s
    cases ph <;> simp [TrySt.isDone] at hd
    exact h

/-- the invariant holds after ANY input history -/
theorem tryInv_state (cfg : TryCfg M R V E) (plan : Beh M R V E) (hist : List (Inp R E)) :
    TryInv cfg (Machine.state (tryStep cfg plan) ⟨.init, []⟩ hist) := by
  exact Machine.state_inv _ (TryInv cfg) (fun s i h => tryStep_inv cfg plan s i h) _
    (by simp [TryInv]) hist

def isFinalStart : Ev V E → Bool
  | .finalStart => true
  | _ => false
def isElseStart : Ev V E → Bool
  | .elseStart => true
  | _ => false
def isExceptStart : Ev V E → Bool
  | .exceptStart _ => true
  | _ => false
def isPauseStart : Ev V E → Bool
  | .pauseStart => true
  | _ => false
def isBodyEnd : Ev V E → Bool
  | .bodyEnd _ => true
  | _ => false

/-- how often each piece was started, as a function of the log shape -/
theorem tryInv_counts (cfg : TryCfg M R V E) (s : TrySt M R V E) (h : TryInv cfg s) :
    s.log.countP isFinalStart ≤ 1 ∧ s.log.countP isElseStart ≤ 1 ∧
    s.log.countP isExceptStart ≤ 1 ∧ s.log.countP isPauseStart ≤ 1 ∧
    s.log.countP isBodyEnd ≤ 1 := by
  obtain ⟨ph, log⟩ := s
  cases ph with
  | init => simp [TryInv] at h; simp [h]
  | body p => simp [TryInv] at h; simp [h]
  | pause e p =>
    simp [TryInv] at h
    simp [h.1, isFinalStart, isElseStart, isExceptStart, isPauseStart, isBodyEnd, List.countP_cons]
  | exc e pz p =>
    simp [TryInv] at h
    rcases pz with _ | o <;>
      simp [h.1, pzLog, isFinalStart, isElseStart, isExceptStart, isPauseStart, isBodyEnd, List.countP_cons]
  | els v p =>
    simp [TryInv] at h
    simp [h.1, isFinalStart, isElseStart, isExceptStart, isPauseStart, isBodyEnd, List.countP_cons]
  | fin path p =>
    simp [TryInv] at h
    rcases path with v | ⟨v, o⟩ | e | ⟨e, _ | pz, _ | ex⟩ <;>
      simp [h.1, Path.log, pzLog, exLog, isFinalStart, isElseStart, isExceptStart, isPauseStart,
        isBodyEnd, List.countP_cons]
  | done d =>
    simp [TryInv] at h
    rcases d with e | path | ⟨path, o⟩
    · simp [h.1, DoneInfo.log, isFinalStart, isElseStart, isExceptStart, isPauseStart, isBodyEnd, List.countP_cons]
    · rcases path with v | ⟨v, o⟩ | e | ⟨e, _ | pz, _ | ex⟩ <;>
        simp [h.1, DoneInfo.log, Path.log, pzLog, exLog, isFinalStart, isElseStart, isExceptStart,
          isPauseStart, isBodyEnd, List.countP_cons]
    · rcases path with v | ⟨v, o⟩ | e | ⟨e, _ | pz, _ | ex⟩ <;>
        simp [h.1, DoneInfo.log, Path.log, pzLog, exLog, isFinalStart, isElseStart, isExceptStart,
          isPauseStart, isBodyEnd, List.countP_cons]

end
end BlueskyVerif.Gen
