/-
Helper lemmas for C34 about the writers themselves: one call of each branch, the documents between
start and stop, later calls of the lines writer.
-/
import BlueskyVerif.Lemmas.C34

-- simp sets name generated constants that happen not to be needed for the current source
set_option linter.unusedSimpArgs false

namespace BlueskyVerif.JsonWriter

theorem runCalls_append (call : Writer → FS → Doc → Writer × FS × Outcome) (w : Writer) (fs : FS)
    (xs ys : List Doc) :
    runCalls call w fs (xs ++ ys) =
      let r1 := runCalls call w fs xs
      let r2 := runCalls call r1.1 r1.2.1 ys
      (r2.1, r2.2.1, r1.2.2 ++ r2.2.2) := by
  induction xs generalizing w fs with
  | nil => simp [runCalls]
  | cons d ds ih => simp [runCalls, ih]

theorem arrayCall_start (w : Writer) (fs : FS) (d : Doc) (u : String)
    (hn : d.name = "start") (hu : d.uid = some u) :
    arrayCall w fs d =
      (⟨some (arrayFile w u)⟩, openWrite fs (arrayFile w u) .w ("[\n" ++ d.text ++ ",\n"), .ok) := by
  unfold arrayCall arrayFile
  simp only [hn, arrayStartName, if_true, hu, arrayUidSep, arrayExt, arrayStartMode, arrayStartOps, render]
  cases hw : w.filename with
  | none => simp [truthy, String.append_assoc]
  | some f => by_cases hf : f = "" <;> simp [truthy, hf, String.append_assoc]

theorem arrayCall_mid (w : Writer) (fs : FS) (d : Doc) (fn : String) (hw : w.filename = some fn)
    (h1 : d.name ≠ "start") (h2 : d.name ≠ "stop") :
    arrayCall w fs d = (w, openWrite fs fn .a (d.text ++ ",\n"), .ok) := by
  unfold arrayCall
  simp [arrayStartName, arrayStopName, h1, h2, hw, arrayOtherMode, arrayOtherOps, render]

theorem arrayCall_stop (w : Writer) (fs : FS) (d : Doc) (fn : String) (hw : w.filename = some fn)
    (h : d.name = "stop") :
    arrayCall w fs d = (w, openWrite fs fn .a (d.text ++ "\n]"), .ok) := by
  unfold arrayCall
  simp [arrayStartName, arrayStopName, h, hw, arrayStopMode, arrayStopOps, render]

/-- documents between start and stop: each appends `text ++ ",\n"`, nothing else is touched -/
theorem array_mids (fn : String) (mids : List Doc) (hm : ∀ d ∈ mids, d.name ≠ "start" ∧ d.name ≠ "stop")
    (w : Writer) (hw : w.filename = some fn) (fs : FS) (c : String) (hc : fs.get fn = some c) :
    (runCalls arrayCall w fs mids).1 = w ∧
    (runCalls arrayCall w fs mids).2.1.get fn = some (c ++ concatAll (mids.map (·.text ++ ",\n"))) ∧
    (∀ q, q ≠ fn → (runCalls arrayCall w fs mids).2.1.get q = fs.get q) ∧
    (runCalls arrayCall w fs mids).2.2 = List.replicate mids.length .ok := by
  induction mids generalizing fs c with
  | nil => simp [runCalls, concatAll, hc]
  | cons d ds ih =>
    obtain ⟨h1, h2⟩ := hm d (List.mem_cons_self ..)
    have hstep := arrayCall_mid w fs d fn hw h1 h2
    have hget : (openWrite fs fn .a (d.text ++ ",\n")).get fn = some (c ++ (d.text ++ ",\n")) := by
      rw [openWrite_get]; simp [hc]
    obtain ⟨i1, i2, i3, i4⟩ := ih (fun x hx => hm x (List.mem_cons_of_mem _ hx)) _ _ hget
    simp only [runCalls, hstep]
    refine ⟨i1, ?_, ?_, ?_⟩
    · rw [i2]; simp [concatAll, String.append_assoc]
    · intro q hq
      rw [i3 q hq, openWrite_get]; simp [hq]
    · simp [i4, List.replicate_succ]

theorem append_ne_empty (a b : String) (hb : b ≠ "") : a ++ b ≠ "" := by
  intro h
  have := congrArg String.toList h
  simp at this
  exact hb this.2

/-- one call once the file name is known (`fn`): the new content is the old content, a newline if
    the old content was non-empty and unterminated, and `dumps ++ "\n"`. -/
theorem linesCall_text (today : String) (w : Writer) (fs : FS) (d : Doc) (fn : String)
    (hfn : (if truthy w.filename then w.filename
            else if d.name = linesStartName then d.uid.map fun u => splitHead u linesUidSep ++ linesExt
            else some (today ++ linesExt)) = some fn) :
    (linesCall today w fs d).1 = ⟨some fn⟩ ∧ (linesCall today w fs d).2.2 = .ok ∧
    (linesCall today w fs d).2.1.get fn
      = some ((fs.get fn).getD "" ++ lineFix ((fs.get fn).getD "") ++ (d.text ++ "\n")) ∧
    (∀ q, q ≠ fn → (linesCall today w fs d).2.1.get q = fs.get q) := by
  unfold linesCall
  simp only [hfn]
  cases hg : fs.get fn with
  | none =>
    simp [linesModeIfExists, linesModeIfMissing, linesRepairs, linesRepairGuardMode, linesOps, render,
      openWrite_get, lineFix, hg]
    intro q hq; simp [hq]
  | some c =>
    by_cases hc : c = ""
    · subst hc
      simp [linesModeIfExists, linesModeIfMissing, linesRepairs, linesRepairGuardMode, linesOps, render,
        openWrite_get, lineFix, hg]
      intro q hq; simp [hq]
    · cases he : endsWith '\n' c
      · simp [linesModeIfExists, linesModeIfMissing, linesRepairs, linesRepairGuardMode, linesOps,
          linesRepairOps, linesTerminator, render, openWrite_get, lineFix, hg, hc, he, String.append_assoc]
        intro q hq; simp [hq]
      · simp [linesModeIfExists, linesModeIfMissing, linesRepairs, linesRepairGuardMode, linesOps,
          linesRepairOps, linesTerminator, render, openWrite_get, lineFix, hg, hc, he]
        intro q hq; simp [hq]

theorem lineFix_terminated (x : String) : lineFix (x ++ "\n") = "" := by
  simp [lineFix, endsWith_append_nl]

/-- later calls: the file is newline-terminated, each call appends `dumps ++ "\n"` -/
theorem lines_rest (today : String) (fn : String) (hne : fn ≠ "") (ds : List Doc) (w : Writer)
    (hw : w.filename = some fn) (fs : FS) (c : String) (hc : fs.get fn = some (c ++ "\n")) :
    (runCalls (linesCall today) w fs ds).2.1.get fn
      = some (c ++ "\n" ++ concatAll (ds.map (·.text ++ "\n"))) ∧
    (∀ q, q ≠ fn → (runCalls (linesCall today) w fs ds).2.1.get q = fs.get q) ∧
    (runCalls (linesCall today) w fs ds).2.2 = List.replicate ds.length .ok := by
  induction ds generalizing w fs c with
  | nil => simp [runCalls, concatAll, hc]
  | cons d ds ih =>
    have hfn : (if truthy w.filename then w.filename
            else if d.name = linesStartName then d.uid.map fun u => splitHead u linesUidSep ++ linesExt
            else some (today ++ linesExt)) = some fn := by
      simp [hw, truthy, hne]
    obtain ⟨k1, k2, k3, k4⟩ := linesCall_text today w fs d fn hfn
    rw [hc] at k3
    simp only [Option.getD_some, lineFix_terminated, String.append_empty] at k3
    have k3' : (linesCall today w fs d).2.1.get fn = some ((c ++ "\n" ++ d.text) ++ "\n") := by
      rw [k3]; simp [String.append_assoc]
    obtain ⟨i1, i3, i4⟩ := ih (linesCall today w fs d).1 (by rw [k1]) (linesCall today w fs d).2.1 _ k3'
    simp only [runCalls]
    refine ⟨?_, ?_, ?_⟩
    · rw [i1]; simp [concatAll, String.append_assoc]
    · intro q hq; rw [i3 q hq, k4 q hq]
    · simp [i4, k2, List.replicate_succ]

end BlueskyVerif.JsonWriter
