/-
Helper lemmas for C18/C19: the refinement relation between the transcription of the code
(Dispatcher on top of the registry) and the abstract subscription spec, and its preservation by
subscribe / unsubscribe.
-/
import BlueskyVerif.Lemmas.C18Registry
import BlueskyVerif.Disp.Spec

namespace BlueskyVerif.Disp
open OD

/-! ### generic list facts -/

/-- two lists related element by element -/
inductive Forall2 {α β : Type} (R : α → β → Prop) : List α → List β → Prop
  | nil : Forall2 R [] []
  | cons {a : α} {b : β} {l1 : List α} {l2 : List β} : R a b → Forall2 R l1 l2 → Forall2 R (a :: l1) (b :: l2)

theorem forall2_imp_mem {α β : Type} {R S : α → β → Prop} {l1 : List α} {l2 : List β}
    (h : Forall2 R l1 l2) (hi : ∀ a b, a ∈ l1 → b ∈ l2 → R a b → S a b) : Forall2 S l1 l2 := by
  induction h with
  | nil => exact .nil
  | cons hab _ ih =>
    exact .cons (hi _ _ (by simp) (by simp) hab)
      (ih (fun a b ha hb => hi a b (List.mem_cons_of_mem _ ha) (List.mem_cons_of_mem _ hb)))

theorem forall2_filter {α β : Type} {R : α → β → Prop} {l1 : List α} {l2 : List β} (p : α → Bool) (q : β → Bool)
    (h : Forall2 R l1 l2) (hpq : ∀ a b, R a b → p a = q b) :
    Forall2 R (l1.filter p) (l2.filter q) := by
  induction h with
  | nil => exact .nil
  | @cons a b l1 l2 hab _ ih =>
    simp only [List.filter_cons, ← hpq a b hab]
    split
    · exact .cons hab ih
    · exact ih

theorem forall2_left {α β : Type} {R : α → β → Prop} {l1 : List α} {l2 : List β}
    (h : Forall2 R l1 l2) : ∀ a ∈ l1, ∃ b ∈ l2, R a b := by
  induction h with
  | nil => intro a ha; simp at ha
  | cons hab _ ih =>
    intro x hx
    rcases List.mem_cons.1 hx with rfl | hx
    · exact ⟨_, by simp, hab⟩
    · obtain ⟨b, hb, hr⟩ := ih x hx
      exact ⟨b, List.mem_cons_of_mem _ hb, hr⟩

theorem forall2_right {α β : Type} {R : α → β → Prop} {l1 : List α} {l2 : List β}
    (h : Forall2 R l1 l2) : ∀ b ∈ l2, ∃ a ∈ l1, R a b := by
  induction h with
  | nil => intro a ha; simp at ha
  | cons hab _ ih =>
    intro x hx
    rcases List.mem_cons.1 hx with rfl | hx
    · exact ⟨_, by simp, hab⟩
    · obtain ⟨b, hb, hr⟩ := ih x hx
      exact ⟨b, List.mem_cons_of_mem _ hb, hr⟩

theorem forall2_append_single {α β : Type} {R : α → β → Prop} {l1 : List α} {l2 : List β} {a : α} {b : β}
    (h : Forall2 R l1 l2) (hab : R a b) : Forall2 R (l1 ++ [a]) (l2 ++ [b]) := by
  induction h with
  | nil => exact .cons hab .nil
  | cons h1 _ ih => exact .cons h1 ih

/-! ### `connectMany` -/

theorem Dispatcher.connectMany_spec (r : Registry) (h : r.WF) (f : Callable) (ks : List Sig) :
    (Dispatcher.connectMany r f ks).1.WF ∧
    (Dispatcher.connectMany r f ks).1.ignoreExceptions = r.ignoreExceptions ∧
    Forall2 (fun k c => (c, f) ∈ (Dispatcher.connectMany r f ks).1.cbs k) ks (Dispatcher.connectMany r f ks).2 ∧
    (∀ k p, p ∈ r.cbs k → p ∈ (Dispatcher.connectMany r f ks).1.cbs k) ∧
    (∀ k, ((Dispatcher.connectMany r f ks).1.cbs k).map (·.2) =
      if k ∈ ks ∧ f ∉ (r.cbs k).map (·.2) then (r.cbs k).map (·.2) ++ [f] else (r.cbs k).map (·.2)) := by
  induction ks generalizing r with
  | nil =>
    refine ⟨h, rfl, .nil, fun _ _ hp => hp, ?_⟩
    intro k; simp [Dispatcher.connectMany]
  | cons k0 ks ih =>
    obtain ⟨wf1, ig1, mem1, view1⟩ := Registry.connect_spec r h k0 f
    obtain ⟨wf2, ig2, fa2, mono2, view2⟩ := ih (r.connect k0 f).1 wf1
    have mono1 : ∀ k p, p ∈ r.cbs k → p ∈ (r.connect k0 f).1.cbs k := by
      intro k p hp
      rw [view1 k]
      split
      · exact List.mem_append_left _ hp
      · exact hp
    have e : Dispatcher.connectMany r f (k0 :: ks) =
        ((Dispatcher.connectMany (r.connect k0 f).1 f ks).1, (r.connect k0 f).2 :: (Dispatcher.connectMany (r.connect k0 f).1 f ks).2) := rfl
    rw [e]
    refine ⟨wf2, ig2.trans ig1, .cons (mono2 _ _ mem1) fa2, fun k p hp => mono2 k p (mono1 k p hp), ?_⟩
    intro k
    rw [view2 k, view1 k]
    by_cases hf : f ∈ (r.cbs k).map (·.2)
    · have c1 : ¬ (k = k0 ∧ f ∉ (r.cbs k0).map (·.2)) := by
        rintro ⟨a, b⟩; subst a; exact b hf
      have c2 : ¬ (k ∈ ks ∧ f ∉ (r.cbs k).map (·.2)) := fun a => a.2 hf
      have c3 : ¬ (k ∈ k0 :: ks ∧ f ∉ (r.cbs k).map (·.2)) := fun a => a.2 hf
      simp only [c1, if_false, c2, c3]
    · by_cases hk : k = k0
      · subst hk
        have c1 : (k = k ∧ f ∉ (r.cbs k).map (·.2)) := ⟨rfl, hf⟩
        have c3 : (k ∈ k :: ks ∧ f ∉ (r.cbs k).map (·.2)) := ⟨by simp, hf⟩
        rw [if_pos c1, if_pos c3]
        have c2 : ¬ (k ∈ ks ∧ f ∉ (r.cbs k ++ [((r.connect k f).2, f)]).map (·.2)) := by
          intro a; apply a.2; simp
        rw [if_neg c2]
        simp
      · have c1 : ¬ (k = k0 ∧ f ∉ (r.cbs k0).map (·.2)) := fun a => hk a.1
        simp only [c1, if_false]
        have : k ∈ k0 :: ks ↔ k ∈ ks := by simp [hk]
        simp only [this]

/-! ### the loop of `unsubscribe` -/

theorem Registry.foldl_disconnect (r : Registry) (h : r.WF) (guard : Cid → Bool) (cs : List Cid) :
    (cs.foldl (fun r c => if guard c then r else r.disconnect c) r).WF ∧
    (cs.foldl (fun r c => if guard c then r else r.disconnect c) r).ignoreExceptions = r.ignoreExceptions ∧
    (cs.foldl (fun r c => if guard c then r else r.disconnect c) r).cid = r.cid ∧
    (∀ k, (cs.foldl (fun r c => if guard c then r else r.disconnect c) r).cbs k =
      (r.cbs k).filter (fun p => !(decide (p.1 ∈ cs) && !guard p.1))) := by
  induction cs generalizing r with
  | nil =>
    refine ⟨h, rfl, rfl, ?_⟩
    intro k
    simp only [List.foldl_nil, List.not_mem_nil, decide_false, Bool.false_and, Bool.not_false]
    exact (List.filter_eq_self.2 (fun _ _ => rfl)).symm
  | cons c cs ih =>
    simp only [List.foldl_cons]
    by_cases hg : guard c = true
    · simp only [hg, if_true]
      obtain ⟨a, b, c', d⟩ := ih r h
      refine ⟨a, b, c', ?_⟩
      intro k
      rw [d k]
      apply List.filter_congr
      intro p _
      by_cases hp : p.1 = c
      · simp [hp, hg]
      · simp [hp]
    · have hg' : guard c = false := by simpa using hg
      simp only [hg', Bool.false_eq_true, if_false]
      obtain ⟨wf1, ig1, cid1, view1⟩ := Registry.disconnect_spec r h c
      obtain ⟨a, b, c', d⟩ := ih (r.disconnect c) wf1
      refine ⟨a, b.trans ig1, c'.trans cid1, ?_⟩
      intro k
      rw [d k, view1 k, List.filter_filter]
      apply List.filter_congr
      intro p _
      by_cases hp : p.1 = c
      · simp [hp, hg']
      · simp [hp]

end BlueskyVerif.Disp
