/-
C10 helper: the failed-pause path block by block, and "a step never ends paused without a cache".
-/
import BlueskyVerif.Lemmas.C10Frame

namespace BlueskyVerif.Engine

/-- top of the loop, pause or suspension in progress, NO cache: FailedPause is stashed, the permit is set,
    the state becomes `aborting`, and the loop goes round again -- the pause sequence is not entered -/
theorem loopTop_failedPause (s : EState) (hst : s.state = .pausing ∨ s.state = .suspending)
    (hc : s.msgCache = none) :
    ∃ s', loopTop s = .loopTop s' ∧ s'.stashed = some .failedPause ∧ s'.permit = true ∧ s'.state = .aborting ∧
      s'.msgs = s.msgs ∧ s'.msgCache = none ∧ s'.pc = s.pc ∧ s'.blockingEvent = s.blockingEvent ∧
      s'.planStack = s.planStack ∧ s'.respStack = s.respStack ∧
      s'.trans = s.trans ++ [(s.state, .aborting)] := by
  have hguard : ((s.state == .pausing || s.state == .suspending) && s.msgCache.isNone) = true := by
    rw [hc]; rcases hst with h | h <;> rw [h] <;> rfl
  have hedge : (Src.transitions ({ s with permit := true, stashed := some .failedPause } : EState).state).contains .aborting = true := by
    show (Src.transitions s.state).contains .aborting = true
    rcases hst with h | h <;> rw [h]
    · exact pausing_to_aborting
    · exact suspending_to_aborting
  obtain ⟨s', hs', h1, h2, h3, _⟩ := setState_ok { s with permit := true, stashed := some .failedPause } .aborting hedge
  refine ⟨s', ?_, ?_, ?_, h1, ?_, ?_, ?_, ?_, ?_, ?_, ?_⟩
  · unfold loopTop
    rw [if_pos hguard, hs']
  · exact congrArg Ctl.stashed h2
  · exact congrArg Ctl.permit h2
  · exact congrArg Ck.msgs h3
  · exact (congrArg Ck.cache h3).trans hc
  · exact congrArg Ctl.pc h2
  · exact congrArg Ctl.blockingEvent h2
  · exact congrArg Ck.plans h3
  · exact congrArg Ck.resps h3
  · exact congrArg Ctl.trans h2

/-- what the next resume of the top plan is given: an exception in the slot (pushed in from outside, e.g. the
    FailedPause of `_request_suspend`) has priority, then the stashed one -/
theorem thrownOf_slot (s : EState) (r : Resp) (rs : List Resp) (e : Exc) (h : s.exceptionSlot = some e) :
    thrownOf (takeResp s r rs) r = some e ∧ (takeResp s r rs).exceptionSlot = none := by
  unfold thrownOf takeResp
  simp only [h]
  constructor <;> first | rfl | trivial

theorem thrownOf_stashed (s : EState) (r : Resp) (rs : List Resp) (e : Exc)
    (hx : s.exceptionSlot = none) (h : s.stashed = some e) : thrownOf (takeResp s r rs) r = some e := by
  unfold thrownOf takeResp
  simp only [hx, h]

/-- with an exception to throw, the top plan is resumed by `throw`, not `send` -/
theorem afterSleep_throws (s : EState) (r : Resp) (rs : List Resp) (g : Gen) (gs : List Gen) (e : Exc)
    (hr : s.respStack = r :: rs) (hp : s.planStack = g :: gs) (ht : thrownOf (takeResp s r rs) r = some e) :
    afterSleep s = afterResume (logYield (takeResp s r rs) g (.throw e)) gs (some e) (g.resume (.throw e)) := by
  unfold afterSleep
  rw [hr, hp]
  simp only [ht]

theorem aborting_edge (st : St) (h : st = .running ∨ st = .pausing ∨ st = .suspending ∨ st = .paused) :
    (Src.transitions st).contains .aborting = true := by
  rcases h with h | h | h | h <;> rw [h] <;> decide

theorem no_suspending_from_aborting : (Src.transitions .aborting).contains .suspending = false := by decide

/-- `request_suspend` with NO cache ("No checkpoint; cannot suspend"): FailedPause goes into the exception
    slot, the call is marked interrupted, the state becomes `aborting`, the task is cancelled (unless paused);
    the engine does NOT go to `suspending` -/
theorem requestSuspend_failed (s : EState) (f : Nat) (pre post : Option Gen) (j : Option String)
    (hc : s.msgCache = none) (hst : s.state = .running ∨ s.state = .pausing ∨ s.state = .suspending) :
    (requestSuspend s f pre post j).exceptionSlot = some .failedPause ∧
    (requestSuspend s f pre post j).interrupted = true ∧
    (requestSuspend s f pre post j).state = .aborting ∧
    (requestSuspend s f pre post j).cancelPending = true ∧
    (requestSuspend s f pre post j).msgCache = none ∧
    (requestSuspend s f pre post j).msgs = s.msgs := by
  have hedge : (Src.transitions ({ s with interrupted := true, exceptionSlot := some .failedPause } : EState).state).contains .aborting = true := by
    show (Src.transitions s.state).contains .aborting = true
    apply aborting_edge
    rcases hst with h | h | h
    · exact Or.inl h
    · exact Or.inr (Or.inl h)
    · exact Or.inr (Or.inr (Or.inl h))
  obtain ⟨s1, hs1, h1, h2, h3, h4⟩ := setState_ok { s with interrupted := true, exceptionSlot := some .failedPause } .aborting hedge
  have hnp : (s.state == St.paused) = false := by
    rcases hst with h | h | h <;> rw [h] <;> rfl
  have hreq : requestSuspend s f pre post j = pushSuspender f pre post j { s1 with cancelPending := true } := by
    unfold requestSuspend
    rw [if_pos (by rw [hc]; rfl)]
    simp only []
    rw [hs1]
    simp only [hnp, Bool.not_false, if_true]
  -- pushSuspender from `aborting`: the move to `suspending` is refused
  have hpush : ∀ x : EState, x.state = .aborting →
      (pushSuspender f pre post j x).exceptionSlot = x.exceptionSlot ∧
      (pushSuspender f pre post j x).interrupted = x.interrupted ∧
      (pushSuspender f pre post j x).state = x.state ∧
      (pushSuspender f pre post j x).cancelPending = x.cancelPending ∧
      (pushSuspender f pre post j x).msgCache = x.msgCache ∧
      (pushSuspender f pre post j x).msgs = x.msgs := by
    intro x hx
    unfold pushSuspender
    simp only []
    have hne : (x.state != St.paused) = true := by rw [hx]; rfl
    simp only [hne, if_true]
    split
    · rename_i s' hs'
      exfalso
      have := setState_source hs'
      have hx' : (Src.transitions x.state).contains .suspending = true := this
      rw [hx, no_suspending_from_aborting] at hx'
      cases hx'
    · exact ⟨rfl, rfl, rfl, rfl, rfl, rfl⟩
  rw [hreq]
  obtain ⟨p1, p2, p3, p4, p5, p6⟩ := hpush { s1 with cancelPending := true } h1
  refine ⟨p1.trans h4, p2.trans (congrArg Ctl.interrupted h2), p3.trans h1, p4, ?_, ?_⟩
  · exact p5.trans ((congrArg Ck.cache h3).trans hc)
  · exact p6.trans (congrArg Ck.msgs h3)

/-- A step of `_run` from a state that is not paused never ends `paused` without a message cache: if it does
    end `paused`, a cache exists, `_run` sits at its pause point and the blocking event is set.  For every
    suspension point, pending cancellation or not, every plan stack, every fuel. -/
theorem advanceAt_pwc (n : Nat) (c : Bool) (s0 : EState) (h : NP s0) : PausedWithCache (advanceAt n c s0) := by
  unfold advanceAt
  split
  · exact pwc_of_np h
  · exact pwc_of_np h
  · split
    · exact pwc_of_np h
    · split
      · rename_i s' hs
        exact runLoop_pwc _ _ (setState_np hs (by decide))
      · apply contFlow_pwc; apply Flow.pausedOk_of_nps
        simp only [Flow.NPs, Flow.state, NP, leaveLoop_st]; exact h
  · split
    · exact contFlow_pwc _ _ (Flow.pausedOk_of_nps (hCancel_nps _ _ h))
    · exact contFlow_pwc _ _ (Flow.pausedOk_of_nps (afterSleep_nps _ h))
  · split
    · exact contFlow_pwc _ _ (Flow.pausedOk_of_nps (hCancel_nps _ _ h))
    · apply runLoop_pwc; unfold NP; rw [fin_st]; exact h
  · split
    · exact contFlow_pwc _ _ (Flow.pausedOk_of_nps (hCancel_nps _ _ h))
    · split
      · rename_i s' hs
        apply runLoop_pwc; unfold NP; rw [fin_st]; exact requestPause_np hs h
      · apply runLoop_pwc; unfold NP; rw [fin_st]; exact h
  · split
    · exact contFlow_pwc _ _ (Flow.pausedOk_of_nps (hCancel_nps _ _ h))
    · simp only []
      split
      · apply runLoop_pwc; unfold NP; rw [fin_st]; exact h
      · split
        · apply runLoop_pwc; unfold NP; rw [fin_st]; exact h
        · exact pwc_of_np h
  · split
    · exact contFlow_pwc _ _ (Flow.pausedOk_of_nps (hCancel_nps _ _ h))
    · split
      · apply runLoop_pwc; unfold NP; rw [fin_st]; exact h
      · exact pwc_of_np h
  · split
    · exact pwc_of_np h
    · split
      · apply contFlow_pwc; apply Flow.pausedOk_of_nps
        simp only [Flow.NPs, Flow.state, NP, leaveLoop_st]; exact h
      · simp only []
        have hr : NP (forBundlers s0 restoreMonitors) := by unfold NP; rw [st_forBundlers_restore]; exact h
        split
        · apply contFlow_pwc; apply Flow.pausedOk_of_nps
          simp only [Flow.NPs, Flow.state, NP, leaveLoop_st]; exact hr
        · rename_i s' hs
          have hs' : NP s' := by
            split at hs
            · exact setState_np hs (by decide)
            · cases hs; exact hr
          split
          · exact pwc_of_np hs'
          · exact contFlow_pwc _ _ (Flow.pausedOk_of_nps (afterSleep_nps _ hs'))
  · apply finish_pwc
    split
    · exact h
    · exact h

theorem advance_pwc (n : Nat) (s : EState) (h : NP s) : PausedWithCache (advance n s) :=
  advanceAt_pwc n _ _ h

end BlueskyVerif.Engine
