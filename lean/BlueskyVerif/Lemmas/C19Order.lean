/-
Helper lemmas for C19: the delivery log of whole histories, the callables that raise, and the
"plain subscription order" reading of the spec's order for histories without repeated callables.
-/
import BlueskyVerif.Lemmas.C19Run

namespace BlueskyVerif.Disp

/-- the callables among `fs` whose invocation for `(k, doc)` raises, when all of `fs` are invoked in order -/
def raisers (beh : Beh) (k : Sig) (doc : Doc) : List Callable → Log → List Callable
  | [], _ => []
  | f :: rest, log =>
    if beh log f k doc then f :: raisers beh k doc rest (log ++ [(f, k, doc)])
    else raisers beh k doc rest (log ++ [(f, k, doc)])

theorem runCbs_ignore_collected (beh : Beh) (k : Sig) (doc : Doc) (fs : List Callable) (log : Log) (exc : List Callable) :
    (runCbs beh true k doc fs log exc).2 = .returned (exc ++ raisers beh k doc fs log) := by
  induction fs generalizing log exc with
  | nil => simp [runCbs, raisers]
  | cons f rest ih =>
    unfold runCbs raisers
    simp only [Generated.processCollectsWhenIgnoring, Bool.and_self, if_true]
    split
    · rw [ih]; simp
    · rw [ih]

/-- the invocations the specification prescribes for a history when exceptions are ignored (or
    nobody raises): each emitted document goes to the callables live for its kind, in their order -/
def deliveries : Spec → List Op → Log
  | _, [] => []
  | s, op :: ops =>
    (match op with
     | .emit k doc => callsOf (s.order k) k doc
     | _ => []) ++ deliveries (s.step op) ops

theorem spec_log_ignore (beh : Beh) (s : Spec) (log : Log) (ops : List Op) :
    (Spec.run beh true s log ops).2 = log ++ deliveries s ops := by
  induction ops generalizing s log with
  | nil => simp [Spec.run, deliveries]
  | cons op ops ih =>
    rw [Spec.run_cons, ih]
    cases op <;> simp [Spec.stepLog, deliveries, (runCbs_ignore beh _ _ _ _ []).1, Spec.step]

/-! ### histories in which no callable is ever subscribed twice at the same time -/

/-- per kind, the order is just the live subscriptions covering the kind, oldest first -/
def PlainOrder (s : Spec) : Prop :=
  ∀ k, s.order k = (s.live.filter (fun x => x.name.covers k)).map Sub.f

theorem plain_add {s : Spec} (h : PlainOrder s) (f : Callable) (name : Name) (temp : Bool)
    (hf : f ∉ s.live.map Sub.f) : PlainOrder (s.add f name temp) := by
  intro k
  have hnot : f ∉ s.order k := by
    rw [h k]
    intro hm
    obtain ⟨x, hx, hxf⟩ := List.mem_map.1 hm
    exact hf (List.mem_map.2 ⟨x, (List.mem_filter.1 hx).1, hxf⟩)
  show (if name.covers k && !(s.order k).contains f then s.order k ++ [f] else s.order k) =
    ((s.live ++ [_]).filter _).map Sub.f
  rw [List.filter_append, List.map_append, ← h k]
  cases hc : name.covers k
  · simp [hc]
  · simp [hnot, hc]

theorem plain_restrict {s : Spec} (h : PlainOrder s) (hn : (s.live.map Sub.f).Nodup) (p : Sub → Bool) :
    PlainOrder (s.restrict p) := by
  intro k
  show (s.order k).filter (fun f => liveFor (s.live.filter p) f k) = ((s.live.filter p).filter _).map Sub.f
  rw [h k, List.filter_map, List.filter_filter, List.filter_filter]
  congr 1
  apply List.filter_congr
  intro x hx
  have key : liveFor (s.live.filter p) x.f k = true ↔ (p x = true ∧ x.name.covers k = true) ∨
      (liveFor (s.live.filter p) x.f k = true ∧ x.name.covers k = false) := by
    constructor
    · intro hl
      cases hc : x.name.covers k
      · right; exact ⟨hl, rfl⟩
      · left
        obtain ⟨y, hy, hyf, _⟩ := (liveFor_iff _ _ _).1 hl
        have hy' := List.mem_filter.1 hy
        -- same callable, both live: the same subscription
        have : y = x := by
          generalize s.live = l at hx hy' hn
          induction l with
          | nil => simp at hx
          | cons a r ih =>
            simp only [List.map_cons, List.nodup_cons] at hn
            rcases List.mem_cons.1 hx with e1 | m1 <;> rcases List.mem_cons.1 hy'.1 with e2 | m2
            · rw [e1, e2]
            · exact absurd (List.mem_map.2 ⟨y, m2, by rw [hyf, e1]⟩) hn.1
            · exact absurd (List.mem_map.2 ⟨x, m1, by rw [← hyf, e2]⟩) hn.1
            · exact ih m1 ⟨m2, hy'.2⟩ hn.2
        rw [← this]; exact ⟨hy'.2, rfl⟩
    · rintro (⟨hp, hc⟩ | ⟨hl, _⟩)
      · exact (liveFor_iff _ _ _).2 ⟨x, List.mem_filter.2 ⟨hx, hp⟩, rfl, (Name.covers_iff _ _).1 hc⟩
      · exact hl
  show (liveFor (s.live.filter p) x.f k && x.name.covers k) = (x.name.covers k && p x)
  cases hc : x.name.covers k
  · simp
  · cases hp : p x
    · have : ¬ liveFor (s.live.filter p) x.f k = true := by
        intro hl
        rcases key.1 hl with ⟨a, _⟩ | ⟨_, b⟩
        · rw [hp] at a; exact absurd a (by simp)
        · rw [hc] at b; exact absurd b (by simp)
      simp [this]
    · have : liveFor (s.live.filter p) x.f k = true := key.2 (Or.inl ⟨hp, hc⟩)
      simp [this]

theorem addPerCall_live_prefix (subs : List (Name × Callable)) (s : Spec) :
    s.live <+: (s.addPerCall subs).live := by
  induction subs generalizing s with
  | nil => exact List.prefix_refl _
  | cons q rest ih =>
    obtain ⟨name, f⟩ := q
    unfold Spec.addPerCall
    split
    · exact List.IsPrefix.trans (List.prefix_append _ _) (ih (s.add f name true))
    · exact List.prefix_refl _

theorem plain_addPerCall (subs : List (Name × Callable)) {s : Spec} (h : PlainOrder s)
    (hn : ((s.addPerCall subs).live.map Sub.f).Nodup) : PlainOrder (s.addPerCall subs) := by
  induction subs generalizing s with
  | nil => exact h
  | cons q rest ih =>
    obtain ⟨name, f⟩ := q
    unfold Spec.addPerCall at hn ⊢
    split
    · rename_i hv
      simp only [hv, if_true] at hn
      apply ih _ hn
      apply plain_add h
      obtain ⟨t, ht⟩ := addPerCall_live_prefix rest (s.add f name true)
      rw [← ht] at hn
      have : ((s.live ++ [({ tok := s.next, f := f, name := name, temp := true } : Sub)]).map Sub.f).Nodup := by
        rw [List.map_append] at hn
        exact (List.nodup_append.1 hn).1
      rw [List.map_append] at this
      intro hm
      exact (List.nodup_append.1 this).2.2 f hm f (by simp) rfl
    · exact h

theorem plain_step {s : Spec} (h : PlainOrder s) (op : Op) (hn : (s.live.map Sub.f).Nodup)
    (hn' : ((s.step op).live.map Sub.f).Nodup) : PlainOrder (s.step op) := by
  have newf : ∀ f name temp, ((s.add f name temp).live.map Sub.f).Nodup → f ∉ s.live.map Sub.f := by
    intro f name temp hh hm
    have : ((s.live ++ [({ tok := s.next, f := f, name := name, temp := temp } : Sub)]).map Sub.f).Nodup := hh
    rw [List.map_append] at this
    exact (List.nodup_append.1 this).2.2 f hm f (by simp) rfl
  cases op with
  | subscribe f name =>
    simp only [Spec.step] at hn' ⊢
    split
    · rename_i hv; simp only [hv, if_true] at hn'; exact plain_add h _ _ _ (newf _ _ _ hn')
    · exact h
  | unsubscribe tok => exact plain_restrict h hn _
  | callStart subs => exact plain_addPerCall subs (plain_restrict h hn _) hn'
  | planSubscribe f name =>
    simp only [Spec.step] at hn' ⊢
    split
    · rename_i hv; simp only [hv, if_true] at hn'; exact plain_add h _ _ _ (newf _ _ _ hn')
    · exact h
  | planUnsubscribe tok => exact plain_restrict h hn _
  | emit k doc => exact h

end BlueskyVerif.Disp
