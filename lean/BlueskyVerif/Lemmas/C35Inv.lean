/-
Helper lemmas for C35: the ownership invariant of the aliasing model and its preservation by every
action of a safe table.
-/
import BlueskyVerif.Lemmas.C35Heap

namespace BlueskyVerif.Normalizer

/-- `h0` = the caller's heap (all input documents live there).  `D` = objects the normalizer owns
    *deeply* (allocated by it, and only referencing such objects). -/
structure Inv (T : Table) (h0 : Heap) (σ : NState) (D : Nat → Prop) : Prop where
  frame : ∀ r, r < h0.length → σ.heap[r]? = h0[r]?
  size : h0.length ≤ σ.heap.length
  closed : Closed σ.heap D
  fresh : ∀ r, D r → h0.length ≤ r
  cTop : ∀ c, cacheTop T c = true → ∀ r ∈ σ.cache c, h0.length ≤ r
  cDeep : ∀ c, cacheDeep T c = true → ∀ r ∈ σ.cache c, D r

/-- what is known about the working copy during a call -/
def WInv (T : Table) (h0 : Heap) (hd : Handler) (w : Nat) (D : Nat → Prop) : Prop :=
  (workTop T hd = true → h0.length ≤ w) ∧ (workDeep T hd = true → D w)

theorem Inv.setHeap_append {T h0 σ D} (hi : Inv T h0 σ D) (ext : Heap) :
    Inv T h0 { σ with heap := σ.heap ++ ext } D where
  frame := by
    intro r hr
    have : r < σ.heap.length := Nat.lt_of_lt_of_le hr hi.size
    show (σ.heap ++ ext)[r]? = h0[r]?
    rw [List.getElem?_append_left this]
    exact hi.frame r hr
  size := by show h0.length ≤ (σ.heap ++ ext).length; rw [List.length_append]; have := hi.size; omega
  closed := hi.closed.append ext
  fresh := hi.fresh
  cTop := hi.cTop
  cDeep := hi.cDeep

theorem Inv.mono {T h0 σ} {D D' : Nat → Prop} (hi : Inv T h0 σ D) (hsub : ∀ x, D x → D' x)
    (hcl : Closed σ.heap D') (hfr : ∀ r, D' r → h0.length ≤ r) : Inv T h0 σ D' where
  frame := hi.frame
  size := hi.size
  closed := hcl
  fresh := hfr
  cTop := hi.cTop
  cDeep := fun c hc r hr => hsub r (hi.cDeep c hc r hr)

/-- `copy.copy` / `copy.deepcopy` of any object: the new root is fresh; it is deeply owned when the
    copy is deep or the source was deeply owned -/
theorem copy_spec {T h0 σ D} (hi : Inv T h0 σ D) (k : CopyKind) (r : Nat) :
    ∃ D' : Nat → Prop, (∀ x, D x → D' x) ∧
      Inv T h0 { σ with heap := (copyWith k σ.heap r).1 } D' ∧
      h0.length ≤ (copyWith k σ.heap r).2 ∧
      ((k = .deep ∨ D r) → D' (copyWith k σ.heap r).2) := by
  cases k with
  | shallow =>
    simp only [copyWith, shallowCopy]
    by_cases hD : D r
    · -- the shallow copy of a deeply owned object is deeply owned too
      refine ⟨fun x => D x ∨ x = σ.heap.length, fun x hx => Or.inl hx, ?_, hi.size, fun _ => Or.inr rfl⟩
      apply (hi.setHeap_append [hget σ.heap r]).mono (fun x hx => Or.inl hx)
      · intro x hx
        rcases hx with hx | hx
        · obtain ⟨h1, h2⟩ := (hi.closed.append [hget σ.heap r]) x hx
          exact ⟨h1, fun r' hr' => Or.inl (h2 r' hr')⟩
        · subst hx
          refine ⟨by simp, ?_⟩
          show ∀ r' ∈ refsOf (hget (σ.heap ++ [hget σ.heap r]) σ.heap.length), _
          rw [hget_append_self]
          exact fun r' hr' => Or.inl ((hi.closed r hD).2 r' hr')
      · intro x hx
        rcases hx with hx | hx
        · exact hi.fresh x hx
        · subst hx; exact hi.size
    · exact ⟨D, fun x hx => hx, hi.setHeap_append _, hi.size, fun h => by rcases h with h | h <;> simp_all⟩
  | deep =>
    simp only [copyWith]
    obtain ⟨ext, h1, h2, h3⟩ := deepCopy_spec σ.heap.length σ.heap r
    rw [h1]
    refine ⟨fun x => D x ∨ InR σ.heap.length (σ.heap ++ ext).length x, fun x hx => Or.inl hx, ?_,
      Nat.le_trans hi.size h2.1, fun _ => Or.inr h2⟩
    apply (hi.setHeap_append ext).mono (fun x hx => Or.inl hx)
    · exact hi.closed.extend ext h3
    · intro x hx
      rcases hx with hx | hx
      · exact hi.fresh x hx
      · exact Nat.le_trans hi.size hx.1

/-- an in-place write to an object the caller does not own -/
theorem Inv.write {T h0 σ D} (hi : Inv T h0 σ D) (t : Nat) (ht : h0.length ≤ t) (f : Obj → Obj)
    (hf : ∀ o, ∀ r ∈ refsOf (f o), r ∈ refsOf o) :
    Inv T h0 { σ with heap := writeAt σ.heap t f } D where
  frame := by
    intro r hr
    show (writeAt σ.heap t f)[r]? = h0[r]?
    rw [getElem?_writeAt_ne σ.heap t r f (by omega)]
    exact hi.frame r hr
  size := by show h0.length ≤ (writeAt σ.heap t f).length; rw [length_writeAt]; exact hi.size
  closed := hi.closed.write t f hf
  fresh := hi.fresh
  cTop := hi.cTop
  cDeep := hi.cDeep

theorem Inv.writeAll {T h0 D} (f : Obj → Obj) (hf : ∀ o, ∀ r ∈ refsOf (f o), r ∈ refsOf o) :
    ∀ (ts : List Nat) (σ : NState), Inv T h0 σ D → (∀ t ∈ ts, h0.length ≤ t) →
      Inv T h0 { σ with heap := writeAll σ.heap ts f } D := by
  intro ts
  induction ts with
  | nil => intro σ hi _; exact hi
  | cons t ts ih =>
    intro σ hi hts
    have h1 := hi.write t (hts t (by simp)) f hf
    have h2 := ih _ h1 (fun t' ht' => hts t' (by simp [ht']))
    exact h2

theorem mem_all (hd : Handler) : hd ∈ Handler.all := by cases hd <;> simp [Handler.all]

theorem cacheTop_storer {T : Table} {c : Cache} (hc : cacheTop T c = true) (hd : Handler)
    (hs : storesIn T hd c = true) : workTop T hd = true := by
  have := List.all_eq_true.mp hc hd (mem_all hd)
  simp [hs] at this
  exact this

theorem cacheDeep_storer {T : Table} {c : Cache} (hc : cacheDeep T c = true) (hd : Handler)
    (hs : storesIn T hd c = true) : workDeep T hd = true := by
  have := List.all_eq_true.mp hc hd (mem_all hd)
  simp [hs] at this
  exact this

/-- the object a base root denotes is owned as far as the table says -/
theorem resolveBase_owned {T h0 σ D hd inp w} (hi : Inv T h0 σ D) (hw : WInv T h0 hd w D)
    (pick : Nat) (b : Base) (r : Nat) (hr : resolveBase σ inp w pick b = some r) :
    (baseTop T hd b = true → h0.length ≤ r) ∧ (baseDeep T hd b = true → D r) := by
  cases b with
  | input => simp [baseTop, baseDeep]
  | work =>
    simp only [resolveBase, Option.some.injEq] at hr
    subst hr
    exact hw
  | cached c =>
    simp only [resolveBase] at hr
    have hmem : r ∈ σ.cache c := List.mem_of_getElem? hr
    exact ⟨fun h => hi.cTop c h r hmem, fun h => hi.cDeep c h r hmem⟩

theorem WInv.mono {T h0 hd w} {D D' : Nat → Prop} (hw : WInv T h0 hd w D) (hsub : ∀ x, D x → D' x) :
    WInv T h0 hd w D' := ⟨hw.1, fun h => hsub w (hw.2 h)⟩

/-- one safe mutation preserves the invariant -/
theorem doMut_inv {T h0 σ D hd inp w} (hi : Inv T h0 σ D) (hw : WInv T h0 hd w D) (m : Mut) (st : Step)
    (hs : mutSafe T hd m = true) :
    ∃ D' : Nat → Prop, (∀ x, D x → D' x) ∧ Inv T h0 (doMut σ inp w m st) D' := by
  have hop := refsOf_applyOp_sub m.op (selKey m.key st.key)
  unfold doMut resolveRoot
  cases hroot : m.root with
  | base b =>
    simp only
    cases hres : resolveBase σ inp w st.pick b with
    | none => exact ⟨D, fun x hx => hx, hi⟩
    | some r =>
      simp only
      refine ⟨D, fun x hx => hx, ?_⟩
      apply Inv.writeAll _ hop _ σ hi
      obtain ⟨htop, hdeep⟩ := resolveBase_owned hi hw st.pick b r hres
      simp only [mutSafe, hroot] at hs
      by_cases hp : m.path.isEmpty = true
      · simp only [hp, if_true] at hs
        have : m.path = [] := List.isEmpty_iff.mp hp
        intro t ht
        simp only [this, followAll, List.mem_singleton] at ht
        subst ht
        exact htop hs
      · simp only [hp] at hs
        intro t ht
        exact hi.fresh t (hi.closed.follow m.path [r] (by simpa using hdeep (by simpa using hs)) t ht)
  | copyOf k b =>
    simp only
    cases hres : resolveBase σ inp w st.pick b with
    | none => exact ⟨D, fun x hx => hx, hi⟩
    | some r =>
      simp only
      obtain ⟨htop, hdeep⟩ := resolveBase_owned hi hw st.pick b r hres
      obtain ⟨D', hsub, hi', hfr, hdp⟩ := copy_spec hi k r
      refine ⟨D', hsub, ?_⟩
      apply Inv.writeAll _ hop _ _ hi'
      simp only [mutSafe, hroot] at hs
      by_cases hp : m.path.isEmpty = true
      · have : m.path = [] := List.isEmpty_iff.mp hp
        intro t ht
        simp only [this, followAll, List.mem_singleton] at ht
        subst ht
        exact hfr
      · have hD : D' (copyWith k σ.heap r).2 := by
          apply hdp
          cases k with
          | deep => exact Or.inl rfl
          | shallow =>
            simp only [hp, Bool.false_or] at hs
            exact Or.inr (hdeep hs)
        intro t ht
        exact hi'.fresh t (hi'.closed.follow m.path [_] (by simpa using hD) t ht)

theorem pushCache_inv {T h0 σ D hd w} (hi : Inv T h0 σ D) (hw : WInv T h0 hd w D) (c : Cache)
    (hs : storesIn T hd c = true) : Inv T h0 (σ.pushCache c w) D := by
  have key : ∀ c', ∀ r ∈ (σ.pushCache c w).cache c', r ∈ σ.cache c' ∨ (c' = c ∧ r = w) := by
    intro c' r hr
    cases c <;> cases c' <;> simp [NState.pushCache, NState.cache] at hr ⊢ <;> exact hr
  have hheap : (σ.pushCache c w).heap = σ.heap := by cases c <;> rfl
  refine ⟨?_, ?_, ?_, hi.fresh, ?_, ?_⟩
  · rw [hheap]; exact hi.frame
  · rw [hheap]; exact hi.size
  · rw [hheap]; exact hi.closed
  · intro c' hc r hr
    rcases key c' r hr with h | ⟨h1, h2⟩
    · exact hi.cTop c' hc r h
    · subst h1; subst h2; exact hw.1 (cacheTop_storer hc hd hs)
  · intro c' hc r hr
    rcases key c' r hr with h | ⟨h1, h2⟩
    · exact hi.cDeep c' hc r h
    · subst h1; subst h2; exact hw.2 (cacheDeep_storer hc hd hs)

theorem doStep_inv {T : Table} (hT : T.safe = true) {h0 σ D hd inp w} (hi : Inv T h0 σ D)
    (hw : WInv T h0 hd w D) (st : Step) :
    ∃ D' : Nat → Prop, (∀ x, D x → D' x) ∧ Inv T h0 (doStep T hd inp w σ st) D' := by
  unfold doStep
  cases ha : (T.actions (eff T hd))[st.idx]? with
  | none => exact ⟨D, fun x hx => hx, hi⟩
  | some a =>
    have hmem : a ∈ T.actions (eff T hd) := List.mem_of_getElem? ha
    have hsafe : actionSafe T hd a = true :=
      List.all_eq_true.mp (List.all_eq_true.mp hT hd (mem_all hd)) a hmem
    cases a with
    | mutate m => exact doMut_inv hi hw m st hsafe
    | store c =>
      refine ⟨D, fun x hx => hx, pushCache_inv hi hw c ?_⟩
      simp only [storesIn, List.any_eq_true]
      exact ⟨_, hmem, by simp⟩

theorem steps_inv {T : Table} (hT : T.safe = true) {h0 hd inp w} :
    ∀ (steps : List Step) (σ : NState) (D : Nat → Prop), Inv T h0 σ D → WInv T h0 hd w D →
      ∃ D' : Nat → Prop, Inv T h0 (steps.foldl (doStep T hd inp w) σ) D' := by
  intro steps
  induction steps with
  | nil => intro σ D hi _; exact ⟨D, hi⟩
  | cons st rest ih =>
    intro σ D hi hw
    obtain ⟨D', hsub, hi'⟩ := doStep_inv hT hi hw st
    exact ih _ D' hi' (hw.mono hsub)

theorem pagePart_cases (T : Table) (h : Heap) (hd : Handler) (input : Nat) :
    pagePart T h hd input = (h, input) ∨ pagePart T h hd input = shallowCopy h input := by
  unfold pagePart
  split
  · exact Or.inr rfl
  · exact Or.inl rfl

theorem call_inv {T : Table} (hT : T.safe = true) {h0 σ D} (hi : Inv T h0 σ D) (c : Call) :
    ∃ D' : Nat → Prop, Inv T h0 (call T σ c) D' := by
  unfold call prologue
  -- first the (possible) page unpacking, then the handler's own copy
  have hi1 : Inv T h0 { σ with heap := (pagePart T σ.heap c.handler c.input).1 } D := by
    rcases pagePart_cases T σ.heap c.handler c.input with hp | hp
    · rw [hp]; exact hi
    · rw [hp]; exact hi.setHeap_append _
  generalize pagePart T σ.heap c.handler c.input = p at hi1 ⊢
  unfold copyPart
  cases hk : T.copyKind (eff T c.handler) with
  | none =>
    simp only
    apply steps_inv hT c.steps _ D hi1
    simp [WInv, workTop, workDeep, hk]
  | some k =>
    simp only
    obtain ⟨D', hsub, hi2, hfr, hdp⟩ := copy_spec hi1 k p.2
    apply steps_inv hT c.steps _ D' hi2
    refine ⟨fun _ => hfr, fun hdeep => hdp (Or.inl ?_)⟩
    simpa [workDeep, hk] using hdeep

theorem run_inv {T : Table} (hT : T.safe = true) {h0 : Heap} :
    ∀ (cs : List Call) (σ : NState) (D : Nat → Prop), Inv T h0 σ D → ∃ D', Inv T h0 (run T σ cs) D' := by
  intro cs
  induction cs with
  | nil => intro σ D hi; exact ⟨D, hi⟩
  | cons c rest ih =>
    intro σ D hi
    obtain ⟨D', hi'⟩ := call_inv hT hi c
    exact ih _ D' hi'

theorem inv_init (T : Table) (h0 : Heap) : Inv T h0 { heap := h0 } (fun _ => False) where
  frame := fun _ _ => rfl
  size := Nat.le_refl _
  closed := fun _ h => h.elim
  fresh := fun _ h => h.elim
  cTop := by intro c _ r hr; cases c <;> simp [NState.cache] at hr
  cDeep := by intro c _ r hr; cases c <;> simp [NState.cache] at hr

/-- for every SAFE table: whatever documents are fed, in whatever order, with whatever schedule of the
    handlers' mutating statements, no object of the caller's heap changes -/
theorem frame_of_safe (T : Table) (hT : T.safe = true) (h0 : Heap) (cs : List Call) :
    ∀ r, r < h0.length → (run T { heap := h0 } cs).heap[r]? = h0[r]? := by
  obtain ⟨D, hi⟩ := run_inv hT cs _ _ (inv_init T h0)
  exact hi.frame

/-- objects reachable from a document of a closed heap stay inside that heap -/
theorem reach_lt (h0 : Heap) (hcl : ∀ r, r < h0.length → ∀ r' ∈ refsOf (hget h0 r), r' < h0.length)
    (a : Nat) (ha : a < h0.length) : ∀ b, Reach h0 a b → b < h0.length := by
  intro b hab
  induction hab with
  | refl => exact ha
  | step _ hmem ih => exact hcl _ ih _ hmem

end BlueskyVerif.Normalizer
