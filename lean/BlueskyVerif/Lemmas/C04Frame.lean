/-
C04 / C09 / C10 helper: the "checkpoint" projection of the engine state (message cache, rewindable flag,
log of processed messages, plan / response stacks) and frame lemmas: the data operations (bundler, devices,
documents, statuses) leave it untouched; `resetCheckpointMeth`, `pauseHooks` and `rewindPlan` touch the
cache only, in the documented way.
-/
import BlueskyVerif.Lemmas.EngineFrame

namespace BlueskyVerif.Engine

structure Ck where
  cache : Option (List Msg)
  rew : Bool
  msgs : List Msg
  plans : List Gen
  resps : List Resp

def ck (s : EState) : Ck :=
  { cache := s.msgCache, rew := s.rewindable, msgs := s.msgs, plans := s.planStack, resps := s.respStack }

theorem ck_cache {s s' : EState} (h : ck s' = ck s) : s'.msgCache = s.msgCache := congrArg Ck.cache h
theorem ck_rew {s s' : EState} (h : ck s' = ck s) : s'.rewindable = s.rewindable := congrArg Ck.rew h
theorem ck_msgs {s s' : EState} (h : ck s' = ck s) : s'.msgs = s.msgs := congrArg Ck.msgs h
theorem ck_plans {s s' : EState} (h : ck s' = ck s) : s'.planStack = s.planStack := congrArg Ck.plans h
theorem ck_resps {s s' : EState} (h : ck s' = ck s) : s'.respStack = s.respStack := congrArg Ck.resps h

@[simp] theorem ck_logCall (s : EState) (c : Call) : ck (s.logCall c) = ck s := rfl
@[simp] theorem ck_emit (s : EState) (d : Doc) : ck (s.emit d) = ck s := rfl
@[simp] theorem ck_setDev (s : EState) (n : String) (d : DevState) : ck (setDev s n d) = ck s := rfl
@[simp] theorem ck_nextMode (s : EState) (n op : String) : ck (nextMode s n op).2 = ck s := rfl
@[simp] theorem ck_putBundler (s : EState) (m : Msg) (b : Bundler) : ck (putBundler s m b) = ck s := rfl
@[simp] theorem ck_emitEvent (s : EState) (b : Bundler) (st : String) (d : List (String × Int)) (n : String) :
    ck (emitEvent s b st d n).1 = ck s := rfl
@[simp] theorem ck_prepareStream (s : EState) (b : Bundler) (st : String) (o : List String) :
    ck (prepareStream s b st o).1 = ck s := rfl
@[simp] theorem ck_newStatus (s : EState) (d o m : String) (g : Option String) : ck (newStatus s d o m g).2 = ck s := rfl

theorem ck_foldl {α} (f : EState → α → EState) (h : ∀ s a, ck (f s a) = ck s) (l : List α) (s : EState) :
    ck (l.foldl f s) = ck s := by
  induction l generalizing s with
  | nil => rfl
  | cons a l ih => rw [List.foldl_cons, ih, h]

@[simp] theorem ck_recordInterruption (s : EState) (b : Bundler) (c : String) :
    ck (recordInterruption s b c).1 = ck s := by
  unfold recordInterruption; split <;> rfl

theorem ck_forBundlers_go (f : EState → Bundler → EState × Bundler) (h : ∀ s b, ck (f s b).1 = ck s)
    (todo done : List (String × Bundler)) (s : EState) : ck (forBundlers.go f s todo done) = ck s := by
  induction todo generalizing s done with
  | nil => rfl
  | cons kb rest ih =>
    obtain ⟨k, b⟩ := kb
    unfold forBundlers.go
    simp only []
    rw [ih]; exact h s b

theorem ck_forBundlers (f : EState → Bundler → EState × Bundler) (h : ∀ s b, ck (f s b).1 = ck s) (s : EState) :
    ck (forBundlers s f) = ck s := ck_forBundlers_go f h _ _ s

@[simp] theorem ck_forBundlers_pure (s : EState) (g : Bundler → Bundler) :
    ck (forBundlers s (fun s b => (s, g b))) = ck s := ck_forBundlers _ (fun _ _ => rfl) s

@[simp] theorem ck_forBundlers_ri (s : EState) (c : String) :
    ck (forBundlers s (fun s b => recordInterruption s b c)) = ck s :=
  ck_forBundlers _ (fun s b => ck_recordInterruption s b c) s

@[simp] theorem ck_suspendMonitors (s : EState) (b : Bundler) : ck (suspendMonitors s b).1 = ck s := by
  unfold suspendMonitors; apply ck_foldl; intro s x; rfl

@[simp] theorem ck_restoreMonitors (s : EState) (b : Bundler) : ck (restoreMonitors s b).1 = ck s := by
  unfold restoreMonitors; apply ck_foldl; intro s x; rfl

@[simp] theorem ck_clearMonitors (s : EState) (b : Bundler) : ck (clearMonitors s b).1 = ck s := by
  unfold clearMonitors; simp

@[simp] theorem ck_forBundlers_suspend (s : EState) : ck (forBundlers s suspendMonitors) = ck s :=
  ck_forBundlers _ ck_suspendMonitors s
@[simp] theorem ck_forBundlers_restore (s : EState) : ck (forBundlers s restoreMonitors) = ck s :=
  ck_forBundlers _ ck_restoreMonitors s
@[simp] theorem ck_forBundlers_clear (s : EState) : ck (forBundlers s clearMonitors) = ck s :=
  ck_forBundlers _ ck_clearMonitors s

@[simp] theorem ck_closeRunDoc (s : EState) (b : Bundler) (e r : String) : ck (closeRunDoc s b e r).1 = ck s := by
  unfold closeRunDoc; simp

@[simp] theorem ck_stopMovables (s : EState) : ck (stopMovables s) = ck s := by
  unfold stopMovables; apply ck_foldl; intro s x; rfl

@[simp] theorem ck_resumeHooks (s : EState) : ck (resumeHooks s) = ck s := by
  unfold resumeHooks
  apply ck_foldl
  intro s n
  split
  · split <;> rfl
  · rfl

theorem ck_setState {s s' : EState} {n : St} (h : setState s n = .ok s') : ck s' = ck s := by
  unfold setState at h; split at h
  · cases h; rfl
  · cases h

theorem ck_completeStatus (s : EState) (k : Nat) : ck (completeStatus s k) = ck s := by
  unfold completeStatus
  split
  · rfl
  · split
    · rfl
    · split <;> rfl

theorem ck_flushCompletions (s : EState) : ck (flushCompletions s) = ck s := by
  unfold flushCompletions
  rw [ck_foldl _ ck_completeStatus]; rfl

/-! ### the operations that DO touch the cache -/

/-- "implicit checkpoint": an existing cache is emptied, a missing one stays missing -/
def resetOpt (c : Option (List Msg)) : Option (List Msg) := c.map (fun _ => [])

@[simp] theorem resetOpt_none : resetOpt none = none := rfl
@[simp] theorem resetOpt_some (c : List Msg) : resetOpt (some c) = some [] := rfl
@[simp] theorem resetOpt_idem (c : Option (List Msg)) : resetOpt (resetOpt c) = resetOpt c := by
  cases c <;> rfl

def Ck.reset (c : Ck) : Ck := { c with cache := resetOpt c.cache }
def Ck.fresh (c : Ck) : Ck := { c with cache := some [] }

@[simp] theorem Ck.reset_reset (c : Ck) : c.reset.reset = c.reset := by
  simp [Ck.reset]

/-- `_reset_checkpoint_state_meth`: only the cache changes, by `resetOpt` -/
theorem ck_resetCheckpointMeth (s : EState) : ck (resetCheckpointMeth s) = (ck s).reset := by
  unfold resetCheckpointMeth
  split
  · rename_i h; simp only [ck, Ck.reset, h]; rfl
  · rename_i c h
    rw [ck_forBundlers_pure]
    simp only [ck, Ck.reset, h]; rfl

theorem ck_foldl_reset {α} (f : EState → α → EState)
    (h : ∀ s a, ck (f s a) = ck s ∨ ck (f s a) = (ck s).reset) (l : List α) (s : EState) :
    ck (l.foldl f s) = ck s ∨ ck (l.foldl f s) = (ck s).reset := by
  induction l generalizing s with
  | nil => exact Or.inl rfl
  | cons a l ih =>
    rw [List.foldl_cons]
    rcases h s a with h1 | h1 <;> rcases ih (f s a) with h2 | h2
    · left; rw [h2, h1]
    · right; rw [h2, h1]
    · right; rw [h2, h1]
    · right; rw [h2, h1, Ck.reset_reset]

/-- the `obj.pause()` hooks: only the cache may change, and only by being emptied (NoReplayAllowed) -/
theorem ck_pauseHooks (s : EState) : ck (pauseHooks s) = ck s ∨ ck (pauseHooks s) = (ck s).reset := by
  unfold pauseHooks
  apply ck_foldl_reset
  intro s n
  split
  · split
    · simp only []
      split
      · right; rw [ck_resetCheckpointMeth]; rfl
      · left; rfl
    · left; rfl
  · left; rfl

/-- `_rewind`: returns the cache (nothing when there is none) and leaves an empty one -/
theorem rewindPlan_fst (s : EState) : (rewindPlan s).1 = s.msgCache.getD [] := by
  unfold rewindPlan; rfl

theorem ck_rewindPlan (s : EState) : ck (rewindPlan s).2 = (ck s).fresh := by
  unfold rewindPlan
  simp only []
  split
  · rfl
  · rw [ck_forBundlers_pure]; rfl

end BlueskyVerif.Engine
