/-
C12 helper lemmas: exceptions stored by a failed status (`self._exception`), their priority at the loop top,
leaving the loop with an unhandled exception, and the pardon after the cleanup started.
-/
import BlueskyVerif.Lemmas.C13Resp
import BlueskyVerif.Lemmas.C13Logs

namespace BlueskyVerif.Engine

/-! ### status failures -/

/-- `_status_object_completed` for a status that finished unsuccessfully while the call is still running -/
theorem completeStatus_failed (s : EState) (k : Nat) (r : StatusRec) (hk : s.statuses[k]? = some r)
    (hnd : r.futDone = false) (hok : r.ok = false) (hp : s.pardon = false) :
    (completeStatus s k).exceptionSlot = some (.failedStatus k) ∧
    (completeStatus s k).statuses = s.statuses.set k { r with futDone := true, futExc := true } := by
  unfold completeStatus
  simp [hk, hnd, hok, hp]

/-- ... and after `_pardon_failures` was set (the cleanup has started) it stores nothing -/
theorem completeStatus_pardoned (s : EState) (k : Nat) (hp : s.pardon = true) :
    (completeStatus s k).exceptionSlot = s.exceptionSlot := by
  unfold completeStatus
  split
  · rfl
  · split
    · rfl
    · simp [hp]

/-- successful statuses never store anything -/
theorem completeStatus_ok (s : EState) (k : Nat) (r : StatusRec) (hk : s.statuses[k]? = some r) (hok : r.ok = true) :
    (completeStatus s k).exceptionSlot = s.exceptionSlot := by
  unfold completeStatus
  simp [hk, hok]
  split <;> rfl

/-- (`_pardon_failures`, `self._exception`) -/
def pp (s : EState) : Bool × Option Exc := (s.pardon, s.exceptionSlot)

theorem pp_of_lg {x y : EState} (h : lg x = lg y) : pp x = pp y := by
  have a : x.pardon = y.pardon := congrArg Lg.pardon h
  have b : x.exceptionSlot = y.exceptionSlot := congrArg Lg.slot h
  unfold pp; rw [a, b]

theorem pp_foldl {α} (f : EState → α → EState) (h : ∀ s a, pp (f s a) = pp s) (l : List α) (s : EState) :
    pp (l.foldl f s) = pp s := by
  induction l generalizing s with
  | nil => rfl
  | cons a l ih => rw [List.foldl_cons, ih, h]

/-- the outer `finally` sets `_pardon_failures` first and never stores an exception -/
theorem cleanupBody_pp (s : EState) : pp (cleanupBody s) = (true, s.exceptionSlot) := by
  unfold cleanupBody
  simp only []
  have hclose : ∀ (s : EState) (g : Gen), pp (closeGen s g) = pp s := by
    intro s g; unfold closeGen; split <;> rfl
  rw [pp_foldl _ hclose]
  have e1 : ∀ (x : EState) (l : List (String × Bundler)), pp { x with bundlers := l } = pp x := fun _ _ => rfl
  have e2 : ∀ (x : EState) (l : List String), pp { x with staged := l } = pp x := fun _ _ => rfl
  rw [e1]
  have step4 : ∀ (x : EState) (r : String), pp (if Src.finallyClosesRuns = true then
      forBundlers x (fun s b => if b.runOpen = true then closeRunDoc s b s.exitStatus.name r else (s, b)) else x) = pp x := by
    intro x r; split
    · apply pp_of_lg; apply lg_forBundlers; intro s b; split
      · simp
      · rfl
    · rfl
  rw [step4, e2]
  have step3 : ∀ (x : EState), pp (if Src.finallyUnstages = true then
      x.staged.foldl (fun s n => let (_, s) := nextMode s n "unstage"; s.logCall { dev := n, op := "unstage" }) x else x) = pp x := by
    intro x; split
    · apply pp_foldl; intro s n; rfl
    · rfl
  rw [step3]
  have step2 : ∀ (x : EState), pp (if Src.finallyClearsMonitors = true then forBundlers x clearMonitors else x) = pp x := by
    intro x; split
    · exact pp_of_lg (lg_forBundlers _ lg_clearMonitors _)
    · rfl
  rw [step2]
  have step1 : ∀ (x : EState), pp (if Src.finallyStopsMovables = true then stopMovables x else x) = pp x := by
    intro x; split
    · exact pp_of_lg (lg_stopMovables x)
    · rfl
  rw [step1]
  rfl

theorem cleanup_pp (s : EState) : pp (cleanup s) = (true, s.exceptionSlot) := by
  unfold cleanup
  simp only []
  split
  · rename_i s' hs
    have : pp s' = pp (cleanupBody s) := by
      unfold setState at hs; split at hs
      · cases hs; rfl
      · cases hs
    rw [this, cleanupBody_pp]
  · exact cleanupBody_pp s

/-! ### the exception slot has priority at the loop top -/

/-- `afterSleep` with something stored in `self._exception`: it is moved into `stashed_exception` and THROWN into
    the top plan, whatever the pending response is (`stashed_exception or resp`) -/
theorem afterSleep_slot_priority (s : EState) (e : Exc) (r : Resp) (rs : List Resp) (g : Gen) (gs : List Gen)
    (hr : s.respStack = r :: rs) (hp : s.planStack = g :: gs) (hslot : s.exceptionSlot = some e) :
    afterSleep s =
      afterResume (logYield { s with respStack := rs, resp := some r, stashed := some e, exceptionSlot := none } g (.throw e))
        gs (some e) (g.resume (.throw e)) := by
  have ht : takeResp s r rs = { s with respStack := rs, resp := some r, stashed := some e, exceptionSlot := none } := by
    unfold takeResp; simp only [hslot]
  have hth : thrownOf { s with respStack := rs, resp := some r, stashed := some e, exceptionSlot := none } r = some e := by
    unfold thrownOf; rfl
  unfold afterSleep
  split
  · rename_i r' rs' g' gs' h1 h2
    rw [hr] at h1; rw [hp] at h2
    cases h1; cases h2
    simp only [ht, hth]
  · rename_i hno
    exact absurd hp (hno _ _ _ _ hr)

/-- a stashed exception likewise (no sleep(0), no pick-up needed) -/
theorem afterSleep_stashed_priority (s : EState) (e : Exc) (r : Resp) (rs : List Resp) (g : Gen) (gs : List Gen)
    (hr : s.respStack = r :: rs) (hp : s.planStack = g :: gs) (hslot : s.exceptionSlot = none) (hst : s.stashed = some e) :
    afterSleep s =
      afterResume (logYield { s with respStack := rs, resp := some r } g (.throw e)) gs (some e) (g.resume (.throw e)) := by
  have ht : takeResp s r rs = { s with respStack := rs, resp := some r } := by
    unfold takeResp; simp only [hslot]
  have hth : thrownOf { s with respStack := rs, resp := some r } r = some e := by
    unfold thrownOf; simp only [hst]
  unfold afterSleep
  split
  · rename_i r' rs' g' gs' h1 h2
    rw [hr] at h1; rw [hp] at h2
    cases h1; cases h2
    simp only [ht, hth]
  · rename_i hno
    exact absurd hp (hno _ _ _ _ hr)

/-! ### leaving the loop with an unhandled exception -/

/-- the exceptions that the outer ladder of `_run` treats as a failure of the plan (`except Exception`) -/
def plainFailure : Exc → Bool
  | .stopIteration | .requestStop | .failedPause | .requestAbort | .cancelled | .planHalt | .genExit => false
  | _ => true

theorem leaveLoop_failure (s : EState) (e : Exc) (h : plainFailure e = true) :
    leaveLoop s e = { s with exitExc := some e, exitStatus := Src.exitOnException, exitReason := e.name, pc := .finished } := by
  unfold leaveLoop
  cases e <;> first | rfl | cases h

theorem popPlan_last_raises (s : EState) (g : Gen) (e : Exc) (hp : s.planStack = [g]) :
    popPlan s (some e) = .stop (leaveLoop { s with planStack := [], resp := none } e) := by
  unfold popPlan
  simp [hp]

theorem finishTask_raised (s : EState) (e : Exc) (hc : s.cleanupExc = none) (hx : s.exitExc = some e)
    (hst : s.stashed ≠ some .cancelled) (h : plainFailure e = true) :
    (finishTask s).taskResult = .raised e ∧ (finishTask s).pc = .finished := by
  unfold finishTask
  simp only [hc, hx]
  have hne : (s.stashed == some Exc.cancelled) = false := by
    cases hs : s.stashed with
    | none => rfl
    | some x =>
      have : x ≠ .cancelled := fun hh => hst (by rw [hs, hh])
      simp [this]
  cases e <;> first | (cases h; done) | (simp [hne])

/-! ### the cleanup keeps the exception that left the loop, and ends in `idle` -/

theorem idle_allowed (st : St) (h1 : st ≠ .idle) (h2 : st ≠ .panicked) : (Src.transitions st).contains .idle = true := by
  cases st <;> first | (exact absurd rfl h1) | (exact absurd rfl h2) | decide

theorem cleanup_ctl_fields (s : EState) (h1 : s.state ≠ .idle) (h2 : s.state ≠ .panicked) :
    (cleanup s).state = .idle ∧ (cleanup s).cleanupExc = s.cleanupExc ∧ (cleanup s).exitExc = s.exitExc ∧
    (cleanup s).stashed = s.stashed ∧ (cleanup s).exitStatus = s.exitStatus ∧ (cleanup s).interrupted = s.interrupted := by
  have hc := cleanupBody_ctl s
  have hst : (cleanupBody s).state = s.state := congrArg Ctl.state hc
  have hall : (Src.transitions (cleanupBody s).state).contains .idle = true := by
    rw [hst]; exact idle_allowed s.state h1 h2
  unfold cleanup
  simp only []
  have hset : ∃ s', setState (cleanupBody s) .idle = .ok s' ∧ s'.state = .idle ∧ s'.cleanupExc = (cleanupBody s).cleanupExc ∧
      s'.exitExc = (cleanupBody s).exitExc ∧ s'.stashed = (cleanupBody s).stashed ∧
      s'.exitStatus = (cleanupBody s).exitStatus ∧ s'.interrupted = (cleanupBody s).interrupted := by
    unfold setState
    rw [dif_pos hall]
    exact ⟨_, rfl, rfl, rfl, rfl, rfl, rfl, rfl⟩
  obtain ⟨s', hs', a, b, c, d, e, f⟩ := hset
  rw [hs']
  exact ⟨a, b.trans (congrArg Ctl.cleanupExc hc), c.trans (congrArg Ctl.exitExc hc), d.trans (congrArg Ctl.stashed hc),
    e.trans (congrArg Ctl.exitStatus hc), f.trans (congrArg Ctl.interrupted hc)⟩

/-! ### completing the command `_run` is suspended in neither logs a message nor touches `self._exception` -/

theorem fin_lg (s : EState) (r : Resp) : lg (fin s r) = lg s := by
  unfold fin; split <;> rfl

/-- the state with which the loop continues after an un-cancelled resumption inside a command: no message was
    logged, nothing was sent to a plan, `self._exception` is untouched -/
theorem advanceAt_completion_lg (fuel : Nat) (s : EState) (a : Resp) (ha : pushedAnswer false s = some a) :
    ∃ s1 : EState, advanceAt fuel false s = runLoop fuel s1 ∧ lg s1 = lg s := by
  unfold pushedAnswer at ha
  simp only [Bool.false_eq_true, ↓reduceIte] at ha
  unfold ownAnswer at ha
  unfold advanceAt
  split at ha
  · rename_i hp
    exact ⟨fin s .none, by simp only [hp, Bool.false_eq_true, ↓reduceIte], fin_lg _ _⟩
  · rename_i hp
    split at ha
    · rename_i s' hs
      exact ⟨fin s' .none, by simp only [hp, Bool.false_eq_true, ↓reduceIte, hs], (fin_lg _ _).trans (lg_requestPause hs)⟩
    · rename_i e hs
      exact ⟨fin s (.exc e), by simp only [hp, Bool.false_eq_true, ↓reduceIte, hs], fin_lg _ _⟩
  · rename_i g hp
    split at ha
    · rename_i hall
      exact ⟨fin s (.bool true), by simp only [hp, Bool.false_eq_true, ↓reduceIte, hall], fin_lg _ _⟩
    · rename_i hall
      split at ha
      · rename_i hexc
        exact ⟨fin { s with groups := assocSet g s.waiting s.groups } (.exc .waitForTimeout),
          by simp only [hp, Bool.false_eq_true, ↓reduceIte, hall, hexc], (fin_lg _ _).trans rfl⟩
      · cases ha
  · rename_i f hp
    split at ha
    · rename_i hf
      exact ⟨fin s .seq, by simp only [hp, Bool.false_eq_true, ↓reduceIte, hf], fin_lg _ _⟩
    · cases ha
  · cases ha

end BlueskyVerif.Engine
