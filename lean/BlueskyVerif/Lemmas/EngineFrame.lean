/-
Frame lemmas for the engine model: the "data" operations (bundler, devices, logs) leave the control
part of the state (lifecycle, stacks lengths, program counter, permits ...) untouched.
Every control invariant is stated on `ctl s`, so these lemmas give its preservation for free.
-/
import BlueskyVerif.Engine.Sim

namespace BlueskyVerif.Engine

/-- the control projection of the engine state -/
structure Ctl where
  state : St
  trans : List (St × St)
  pc : PC
  permit : Bool
  blockingEvent : Bool
  cancelPending : Bool
  taskResult : TaskResult
  cleanupExc : Option Exc
  interrupted : Bool
  deferredPause : Bool
  planLen : Nat
  respLen : Nat
  respSome : Bool
  stashed : Option Exc
  exitExc : Option Exc
  exitStatus : ExitStatus

def ctl (s : EState) : Ctl :=
  { state := s.state, trans := s.trans, pc := s.pc, permit := s.permit, blockingEvent := s.blockingEvent,
    cancelPending := s.cancelPending, taskResult := s.taskResult, cleanupExc := s.cleanupExc,
    interrupted := s.interrupted, deferredPause := s.deferredPause, planLen := s.planStack.length,
    respLen := s.respStack.length, respSome := s.resp.isSome, stashed := s.stashed, exitExc := s.exitExc,
    exitStatus := s.exitStatus }

@[simp] theorem ctl_logCall (s : EState) (c : Call) : ctl (s.logCall c) = ctl s := rfl
@[simp] theorem ctl_emit (s : EState) (d : Doc) : ctl (s.emit d) = ctl s := rfl
@[simp] theorem ctl_setDev (s : EState) (n : String) (d : DevState) : ctl (setDev s n d) = ctl s := rfl
@[simp] theorem ctl_nextMode (s : EState) (n op : String) : ctl (nextMode s n op).2 = ctl s := rfl
@[simp] theorem ctl_putBundler (s : EState) (m : Msg) (b : Bundler) : ctl (putBundler s m b) = ctl s := rfl
@[simp] theorem ctl_emitEvent (s : EState) (b : Bundler) (st : String) (d : List (String × Int)) (n : String) :
    ctl (emitEvent s b st d n).1 = ctl s := rfl

theorem ctl_foldl {α} (f : EState → α → EState) (h : ∀ s a, ctl (f s a) = ctl s) (l : List α) (s : EState) :
    ctl (l.foldl f s) = ctl s := by
  induction l generalizing s with
  | nil => rfl
  | cons a l ih => rw [List.foldl_cons, ih, h]

@[simp] theorem ctl_recordInterruption (s : EState) (b : Bundler) (c : String) :
    ctl (recordInterruption s b c).1 = ctl s := by
  unfold recordInterruption; split <;> rfl

theorem ctl_forBundlers_go (f : EState → Bundler → EState × Bundler) (h : ∀ s b, ctl (f s b).1 = ctl s)
    (todo done : List (String × Bundler)) (s : EState) : ctl (forBundlers.go f s todo done) = ctl s := by
  induction todo generalizing s done with
  | nil => rfl
  | cons kb rest ih =>
    obtain ⟨k, b⟩ := kb
    unfold forBundlers.go
    simp only []
    rw [ih]; exact h s b

theorem ctl_forBundlers (f : EState → Bundler → EState × Bundler) (h : ∀ s b, ctl (f s b).1 = ctl s) (s : EState) :
    ctl (forBundlers s f) = ctl s := ctl_forBundlers_go f h _ _ s

@[simp] theorem ctl_prepareStream (s : EState) (b : Bundler) (st : String) (o : List String) :
    ctl (prepareStream s b st o).1 = ctl s := rfl

@[simp] theorem ctl_suspendMonitors (s : EState) (b : Bundler) : ctl (suspendMonitors s b).1 = ctl s := by
  unfold suspendMonitors; apply ctl_foldl; intro s x; rfl

@[simp] theorem ctl_restoreMonitors (s : EState) (b : Bundler) : ctl (restoreMonitors s b).1 = ctl s := by
  unfold restoreMonitors; apply ctl_foldl; intro s x; rfl

@[simp] theorem ctl_clearMonitors (s : EState) (b : Bundler) : ctl (clearMonitors s b).1 = ctl s := by
  unfold clearMonitors; simp

@[simp] theorem ctl_closeRunDoc (s : EState) (b : Bundler) (e r : String) : ctl (closeRunDoc s b e r).1 = ctl s := by
  unfold closeRunDoc; simp

@[simp] theorem ctl_resetCheckpointMeth (s : EState) : ctl (resetCheckpointMeth s) = ctl s := by
  unfold resetCheckpointMeth; split
  · rfl
  · rw [ctl_forBundlers _ (fun _ _ => rfl)]; rfl

@[simp] theorem ctl_stopMovables (s : EState) : ctl (stopMovables s) = ctl s := by
  unfold stopMovables; apply ctl_foldl; intro s x; rfl

@[simp] theorem ctl_pauseHooks (s : EState) : ctl (pauseHooks s) = ctl s := by
  unfold pauseHooks
  apply ctl_foldl
  intro s n
  split
  · split
    · simp only []; split <;> simp
    · rfl
  · rfl

@[simp] theorem ctl_resumeHooks (s : EState) : ctl (resumeHooks s) = ctl s := by
  unfold resumeHooks
  apply ctl_foldl
  intro s n
  split
  · split <;> rfl
  · rfl

@[simp] theorem ctl_rewindPlan (s : EState) : ctl (rewindPlan s).2 = ctl s := by
  unfold rewindPlan
  simp only []
  split
  · rfl
  · rw [ctl_forBundlers _ (fun _ _ => rfl)]; rfl

@[simp] theorem ctl_newStatus (s : EState) (d o m : String) (g : Option String) : ctl (newStatus s d o m g).2 = ctl s := rfl

end BlueskyVerif.Engine
