/-
C16 helper lemmas: histories in which the devices' configuration changes only through `configure`
(`SyncOp`), the configuration cache agrees with the devices at every unit boundary, and what the loop
of `configure` (`reprepareAll`) does to `_descriptors`.
-/
import BlueskyVerif.Lemmas.C15Docs
import BlueskyVerif.Lemmas.BundlerKeepsCfgDocs
import BlueskyVerif.Lemmas.BundlerKeepsRefs
import BlueskyVerif.Lemmas.BundlerKeepsNodupDesc
import BlueskyVerif.Lemmas.BundlerKeepsDescWF

namespace BlueskyVerif.Bundler
open Generated
open KeepsCfgDocs (reported CacheCur DocCfgOK)

/-- a unit of a history in which configuration changes only through `configure` messages: a single
    operation other than `setCfg`, or "the device is configured and the bundler told" (what
    `RunEngine._configure` does: `obj.configure(...)` then `RunBundler.configure`) -/
inductive SyncOp where
  | plain (op : Op)
  | reconfigure (o : Obj) (c : Config)
deriving Repr

def SyncOp.ops : SyncOp → List Op
  | .plain op => [op]
  | .reconfigure o c => [.setCfg o c, .configure o]

/-- `setCfg` alone (a device poked behind the engine's back) is not allowed -/
def SyncOp.ok : SyncOp → Bool
  | .plain (.setCfg _ _) => false
  | _ => true

def runUnit (w : World) (s : BState) (u : SyncOp) : BState := runState w s u.ops

def runUnits (w : World) (s : BState) : List SyncOp → BState
  | [] => s
  | u :: us => runUnits w (runUnit w s u) us

theorem reported_aset_ne (w : World) (env : List (Obj × Config)) (o o' : Obj) (c : Config) (h : o ≠ o') :
    reported w (aset env o c) o' = reported w env o' := by
  unfold reported; rw [aget_aset_ne _ _ _ _ h]

theorem cacheReadConfig_st (w : World) (s : BState) (o : Obj) :
    (cacheReadConfig w s o).st.envCfg = s.envCfg ∧
    (cacheReadConfig w s o).st.configValuesCache = aset s.configValuesCache o (reported w s.envCfg o) ∧
    (cacheReadConfig w s o).st.out = s.out := by
  unfold cacheReadConfig reported
  split <;> simp_all

/-- after one unit the cache still agrees with the devices, and every `_prepare_stream` descriptor
    emitted during the unit records the configuration the devices report at the end of the unit
    (= during the whole unit, once the device has been configured) -/
theorem unit_cfg (w : World) (s : BState) (u : SyncOp) (hu : u.ok = true) (hc : CacheCur w s) :
    CacheCur w (runUnit w s u) ∧
    ∃ new, (runUnit w s u).out = s.out ++ new ∧ ∀ doc ∈ new, DocCfgOK w (runUnit w s u).envCfg doc := by
  cases u with
  | plain op =>
    have ht : KeepsCfgDocs.touches op = false := by
      cases op <;> simp [SyncOp.ok, KeepsCfgDocs.touches] at hu ⊢
    obtain ⟨he, hk⟩ := KeepsCfgDocs.keeps_step w s op ht
    obtain ⟨h1, new, h2, h3⟩ := hk hc
    simp only [runUnit, SyncOp.ops, runState]
    exact ⟨h1, new, h2, by rw [he]; exact h3⟩
  | reconfigure o c =>
    simp only [runUnit, SyncOp.ops, runState, step, Res.ok_st]
    -- the device now reports `c`; `configure` first refreshes the cache entry of `o`
    generalize hs1 : ({ s with envCfg := aset s.envCfg o c } : BState) = s1
    have hs1c : s1.configValuesCache = s.configValuesCache := by subst hs1; rfl
    have hs1e : s1.envCfg = aset s.envCfg o c := by subst hs1; rfl
    have hs1o : s1.out = s.out := by subst hs1; rfl
    unfold configure
    have hrc : (cacheReadConfig w s1 o).err = none := by unfold cacheReadConfig; split <;> rfl
    rw [Res.andThen_of_ok _ _ hrc]
    simp only
    have hst := cacheReadConfig_st w s1 o
    have h2c : CacheCur w (cacheReadConfig w s1 o).st := by
      intro o' c' hoc
      rw [hst.2.1] at hoc; rw [hst.1]
      by_cases e : o = o'
      · subst e; rw [aget_aset_same] at hoc; cases hoc; rfl
      · rw [aget_aset_ne _ _ _ _ e, hs1c] at hoc
        rw [hs1e, reported_aset_ne w _ _ _ _ e]; exact hc o' c' hoc
    have h2o : (cacheReadConfig w s1 o).st.out = s.out := by rw [hst.2.2, hs1o]
    obtain ⟨he, hk⟩ := KeepsCfgDocs.keeps_reprepareAll w (cacheReadConfig w s1 o).st o
    obtain ⟨h1, new, h2, h3⟩ := hk h2c
    exact ⟨h1, new, by rw [h2, h2o], by rw [he]; exact h3⟩

/-- boundary states of a synchronised history keep the cache in agreement with the devices -/
theorem units_cacheCur (w : World) (s : BState) (us : List SyncOp) (hu : ∀ u ∈ us, u.ok = true)
    (hc : CacheCur w s) : CacheCur w (runUnits w s us) := by
  induction us generalizing s with
  | nil => exact hc
  | cons u us ih =>
    simp only [runUnits]
    exact ih _ (fun v hv => hu v (List.mem_cons_of_mem _ hv)) (unit_cfg w s u (hu u List.mem_cons_self) hc).1

theorem openRun_cacheCur (w : World) (cfg : BCfg) (u : Nat) (env : List (Obj × Config)) :
    CacheCur w (openRun cfg u env) := by
  intro o c h
  have : (openRun cfg u env).configValuesCache = [] := by
    unfold openRun; simp only [openRunResets, if_true, resetCp]; split <;> rfl
  rw [this] at h; cases h

/-! ### the loop of `configure` -/

/-- the loop body, lifted to results -/
def repStep (w : World) (o : Obj) (r : Res) (n : Name) : Res := r.andThen fun s => reprepareOne w s o n

theorem repFold_err (w : World) (o : Obj) (L : List Name) (r : Res) (e : Err) (h : r.err = some e) :
    (L.foldl (repStep w o) r).err = some e := by
  induction L generalizing r with
  | nil => exact h
  | cons n t ih =>
    simp only [List.foldl_cons]
    apply ih
    unfold repStep; rw [Res.andThen_of_err _ _ _ h]; exact h

theorem prepareFinish_desc (w : World) (t : BState) (n : Name) (od : List (Obj × List Key)) (uid : Nat) :
    (prepareFinish w t n od uid).descriptors = aset t.descriptors n (mkDesc w t od uid) ∧
    (prepareFinish w t n od uid).nextUid = t.nextUid := by
  unfold prepareFinish prepareStore; split <;> exact ⟨rfl, rfl⟩

/-- a successful `_prepare_stream` stores a fresh descriptor for the stream -/
theorem prepareStream_ok (w : World) (t : BState) (n : Name) (od : List (Obj × List Key))
    (h : (prepareStream w t n od).err = none) :
    ∃ d', (prepareStream w t n od).st.descriptors = aset t.descriptors n d' ∧ d'.uid = t.nextUid ∧
      d'.objs = od ∧ d'.keys = dedupKeys (od.flatMap Prod.snd) ∧
      (prepareStream w t n od).st.nextUid = t.nextUid + 1 := by
  unfold prepareStream at h ⊢
  split
  · rename_i hany; simp [hany] at h
  · rename_i hany
    simp only [hany] at h
    split
    · rename_i ks hks
      simp only [hks] at h
      split
      · rename_i hss; simp [hss] at h
      · exact ⟨_, (prepareFinish_desc w _ n od _).1, rfl, rfl, rfl, (prepareFinish_desc w _ n od _).2⟩
    · exact ⟨_, (prepareFinish_desc w _ n od _).1, rfl, rfl, rfl, (prepareFinish_desc w _ n od _).2⟩

/-- one iteration: the stream `n` is re-described iff its descriptor contains `o`; other streams
    are untouched -/
theorem reprepareOne_ok (w : World) (t : BState) (o : Obj) (n : Name)
    (h : (reprepareOne w t o n).err = none) :
    t.nextUid ≤ (reprepareOne w t o n).st.nextUid ∧
    (∀ k, k ≠ n → aget (reprepareOne w t o n).st.descriptors k = aget t.descriptors k) ∧
    (∀ d0, aget t.descriptors n = some d0 →
      if ahas d0.objs o then
        ∃ d', aget (reprepareOne w t o n).st.descriptors n = some d' ∧ t.nextUid ≤ d'.uid ∧
          d'.keys = dedupKeys (d0.objs.flatMap Prod.snd) ∧ d'.objs = d0.objs
      else aget (reprepareOne w t o n).st.descriptors n = some d0) := by
  unfold reprepareOne at h ⊢
  cases hd : aget t.descriptors n with
  | none => simp [hd] at h
  | some d =>
    simp only [hd] at h ⊢
    by_cases ho : ahas d.objs o = true
    · simp only [ho, if_true] at h ⊢
      obtain ⟨d', h1, h2, h3, h4, h5⟩ := prepareStream_ok w { t with descriptors := aerase t.descriptors n } n d.objs h
      refine ⟨by rw [h5]; exact Nat.le_succ _, fun k hk => ?_, fun d0 hd0 => ?_⟩
      · rw [h1, aget_aset_ne _ _ _ _ (Ne.symm hk)]
        exact aget_aerase_ne _ _ _ (Ne.symm hk)
      · cases hd0
        simp only [ho, if_true]
        exact ⟨d', by rw [h1, aget_aset_same], by rw [h2]; exact Nat.le_refl _, h4, h3⟩
    · have ho' : ahas d.objs o = false := by simpa using ho
      simp only [ho', Bool.false_eq_true, if_false, Res.ok_st]
      exact ⟨Nat.le_refl _, fun _ _ => trivial, fun d0 hd0 => by cases hd0; simp [ho', hd]⟩

/-- the whole loop over the distinct names `L`, started in `r0` (no error so far) -/
theorem repFold_ok (w : World) (o : Obj) (L : List Name) (hL : L.Nodup) (r0 : Res) (h0 : r0.err = none)
    (h : (L.foldl (repStep w o) r0).err = none) :
    r0.st.nextUid ≤ (L.foldl (repStep w o) r0).st.nextUid ∧
    (∀ k, k ∉ L → aget (L.foldl (repStep w o) r0).st.descriptors k = aget r0.st.descriptors k) ∧
    (∀ n ∈ L, ∀ d0, aget r0.st.descriptors n = some d0 →
      if ahas d0.objs o then
        ∃ d', aget (L.foldl (repStep w o) r0).st.descriptors n = some d' ∧ r0.st.nextUid ≤ d'.uid ∧
          d'.keys = dedupKeys (d0.objs.flatMap Prod.snd) ∧ d'.objs = d0.objs
      else aget (L.foldl (repStep w o) r0).st.descriptors n = some d0) := by
  induction L generalizing r0 with
  | nil => exact ⟨Nat.le_refl _, fun _ _ => rfl, fun n hn => by cases hn⟩
  | cons n t ih =>
    simp only [List.foldl_cons] at h ⊢
    have hnt : n ∉ t := (List.nodup_cons.1 hL).1
    have htn : t.Nodup := (List.nodup_cons.1 hL).2
    -- the first iteration did not fail
    have h1e : (repStep w o r0 n).err = none := by
      cases he : (repStep w o r0 n).err with
      | none => rfl
      | some e => rw [repFold_err w o t _ e he] at h; cases h
    have hst : (repStep w o r0 n).st = (reprepareOne w r0.st o n).st := by
      unfold repStep; rw [Res.andThen_st_ok _ _ h0]
    have her : (reprepareOne w r0.st o n).err = none := by
      unfold repStep at h1e; rw [Res.andThen_err_ok _ _ h0] at h1e; exact h1e
    obtain ⟨a1, a2, a3⟩ := reprepareOne_ok w r0.st o n her
    obtain ⟨b1, b2, b3⟩ := ih htn (repStep w o r0 n) h1e h
    rw [hst] at b1 b2 b3
    refine ⟨Nat.le_trans a1 b1, fun k hk => ?_, fun m hm d0 hd0 => ?_⟩
    · have hkn : k ≠ n := fun e => hk (e ▸ List.mem_cons_self)
      have hkt : k ∉ t := fun e => hk (List.mem_cons_of_mem _ e)
      rw [b2 k hkt, a2 k hkn]
    · rcases List.mem_cons.1 hm with hm | hm
      · subst hm
        have := a3 d0 hd0
        split
        · rename_i ho
          simp only [ho, if_true] at this
          obtain ⟨d', c1, c2, c3, c4⟩ := this
          exact ⟨d', by rw [b2 m hnt]; exact c1, c2, c3, c4⟩
        · rename_i ho
          simp only [ho, if_false] at this
          rw [b2 m hnt]; exact this
      · have hmn : m ≠ n := fun e => hnt (e ▸ hm)
        have hd1 : aget (reprepareOne w r0.st o n).st.descriptors m = some d0 := by rw [a2 m hmn]; exact hd0
        have := b3 m hm d0 hd1
        split
        · rename_i ho
          simp only [ho, if_true] at this
          obtain ⟨d', c1, c2, c3, c4⟩ := this
          exact ⟨d', c1, Nat.le_trans a1 c2, c3, c4⟩
        · rename_i ho
          simp only [ho, if_false] at this
          exact this

open KeepsRefs (UidInv RefOK)

/-- the state after `open_run` and the synchronised history `us` -/
def afterU (w : World) (cfg : BCfg) (env : List (Obj × Config)) (us : List SyncOp) : BState :=
  runUnits w (openRun cfg 0 env) us

/-- the invariants that hold at every unit boundary -/
structure Inv (w : World) (s : BState) : Prop where
  cache : CacheCur w s
  uid : UidInv s
  nodup : (akeys s.descriptors).Nodup
  wf : ∀ nd ∈ s.descriptors, KeepsDescWF.WF nd.2

theorem refs_run (w : World) (s : BState) (ops : List Op) : KeepsRefs.Keeps w s (runState w s ops) := by
  induction ops generalizing s with
  | nil => exact KeepsRefs.Keeps.refl w s
  | cons op ops ih =>
    exact KeepsRefs.Keeps.trans w _ _ _ (KeepsRefs.keeps_step w s op (by cases op <;> rfl)) (ih _)

theorem nodup_run (w : World) (s : BState) (ops : List Op) : KeepsNodupDesc.Keeps w s (runState w s ops) := by
  induction ops generalizing s with
  | nil => exact KeepsNodupDesc.Keeps.refl w s
  | cons op ops ih =>
    exact KeepsNodupDesc.Keeps.trans w _ _ _ (KeepsNodupDesc.keeps_step w s op (by cases op <;> rfl)) (ih _)

theorem wf_run (w : World) (s : BState) (ops : List Op) : KeepsDescWF.Keeps w s (runState w s ops) := by
  induction ops generalizing s with
  | nil => exact KeepsDescWF.Keeps.refl w s
  | cons op ops ih =>
    exact KeepsDescWF.Keeps.trans w _ _ _ (KeepsDescWF.keeps_step w s op (by cases op <;> rfl)) (ih _)

theorem docs_run (w : World) (s : BState) (ops : List Op) : KeepsDocs.Keeps w s (runState w s ops) := by
  induction ops generalizing s with
  | nil => exact KeepsDocs.Keeps.refl w s
  | cons op ops ih =>
    exact KeepsDocs.Keeps.trans w _ _ _ (KeepsDocs.keeps_step w s op (by cases op <;> rfl)) (ih _)

theorem inv_unit (w : World) (s : BState) (u : SyncOp) (hu : u.ok = true) (h : Inv w s) : Inv w (runUnit w s u) :=
  ⟨(unit_cfg w s u hu h.cache).1, ((refs_run w s u.ops).2 h.uid).1, nodup_run w s u.ops h.nodup,
   wf_run w s u.ops h.wf⟩

theorem inv_after (w : World) (cfg : BCfg) (env : List (Obj × Config)) (us : List SyncOp)
    (hu : ∀ u ∈ us, u.ok = true) : Inv w (afterU w cfg env us) := by
  have h0 : Inv w (openRun cfg 0 env) := by
    have hd := openRun_descriptors cfg 0 env
    refine ⟨openRun_cacheCur w cfg 0 env, ?_, ?_, ?_⟩
    · intro nd hm; rw [hd] at hm; cases hm
    · rw [hd]; exact List.nodup_nil
    · intro nd hm; rw [hd] at hm; cases hm
  unfold afterU
  generalize openRun cfg 0 env = s at h0
  induction us generalizing s with
  | nil => exact h0
  | cons u us ih =>
    exact ih (fun v hv => hu v (List.mem_cons_of_mem _ hv)) _ (inv_unit w s u (hu u List.mem_cons_self) h0)


end BlueskyVerif.Bundler
