/-
Helper lemma for C37: everything the (modelled) regex matches is a conversion of the grammar.
-/
import BlueskyVerif.Lemmas.C37Agree

namespace BlueskyVerif.C37
open BlueskyVerif.PyStr BlueskyVerif.Printf

theorem mem_takeWhile' {p : Char → Bool} {l : Str} {a : Char} (h : a ∈ l.takeWhile p) : p a = true := by
  induction l with
  | nil => simp at h
  | cons x l ih =>
    by_cases hx : p x = true
    · simp [List.takeWhile, hx] at h
      rcases h with rfl | h
      · exact hx
      · exact ih h
    · simp [List.takeWhile, hx] at h

theorem head_dropWhile' {p : Char → Bool} {l : Str} {a : Char} {r : Str} (h : l.dropWhile p = a :: r) : p a = false := by
  induction l with
  | nil => simp at h
  | cons x l ih =>
    by_cases hx : p x = true
    · simp [List.dropWhile, hx] at h; exact ih h
    · simp [List.dropWhile, hx] at h
      obtain ⟨rfl, _⟩ := h
      simpa using hx

theorem optGroup_getD (s : Str) : (optGroup s).getD [] = s := by
  cases s <;> simp [optGroup]

theorem reMatch_sound (t : Str) (g : Groups) (rest : Str) (h : reMatch t = some (g, rest)) :
    GroupsWF g.flags g.width g.precision ∧ g.typeChar = ['d'] ∧ t = tmpl g.flags g.width g.precision ++ rest := by
  cases t with
  | nil => simp [reMatch] at h
  | cons c0 r =>
    unfold reMatch at h
    by_cases hc0 : c0 = '%'
    case neg => simp [hc0] at h
    subst hc0
    simp only [ne_eq, not_true_eq_false, if_false] at h
    -- name the pieces
    generalize hF : r.takeWhile (fun c => decide (c ∈ flagClass)) = F at h
    generalize hr1 : r.dropWhile (fun c => decide (c ∈ flagClass)) = r1 at h
    generalize hW : r1.takeWhile isDig = W at h
    generalize hr2 : r1.dropWhile isDig = r2 at h
    have er : r = F ++ r1 := by rw [← hF, ← hr1]; exact (List.takeWhile_append_dropWhile).symm
    have er1 : r1 = W ++ r2 := by rw [← hW, ← hr2]; exact (List.takeWhile_append_dropWhile).symm
    have hFok : ∀ c ∈ F, c ∈ flagClass := by
      intro c hc; rw [← hF] at hc; simpa using mem_takeWhile' hc
    have hWd : AllDig W := by intro c hc; rw [← hW] at hc; exact mem_takeWhile' hc
    have hW0 : W ≠ [] → W.head? ≠ some '0' := by
      intro hne
      cases hWc : W with
      | nil => exact absurd hWc hne
      | cons a W' =>
        have : r.dropWhile (fun c => decide (c ∈ flagClass)) = a :: (W' ++ r2) := by rw [hr1, er1, hWc]; rfl
        have ha := head_dropWhile' this
        have h0 : '0' ∈ flagClass := by decide
        intro heq
        simp at heq
        subst heq
        simp [h0] at ha
    have wok : ∀ ws, optGroup W = some ws → ws ≠ [] ∧ AllDig ws ∧ ws.head? ≠ some '0' := by
      intro ws hws
      have hne : W ≠ [] := by intro hn; simp [optGroup, hn] at hws
      have : ws = W := by
        cases W with
        | nil => exact absurd rfl hne
        | cons a b => simp [optGroup] at hws; exact hws.symm
      subst this
      exact ⟨hne, hWd, hW0 hne⟩
    have hd : ∀ c, c ∈ typeClass → c = 'd' := by intro c hc; simpa [typeClass] using hc
    cases r2 with
    | nil => simp at h
    | cons c r2' =>
      by_cases hdot : c = '.' ∧ ¬ (r2'.takeWhile isDig).isEmpty = true
      · dsimp only at h
        rw [if_pos hdot] at h
        dsimp only at h
        obtain ⟨hcdot, hPne⟩ := hdot
        subst hcdot
        generalize hP : r2'.takeWhile isDig = P at h hPne
        generalize hr3 : r2'.dropWhile isDig = r3 at h
        have er2 : r2' = P ++ r3 := by rw [← hP, ← hr3]; exact (List.takeWhile_append_dropWhile).symm
        have hPd : AllDig P := by intro c hc; rw [← hP] at hc; exact mem_takeWhile' hc
        cases r3 with
        | nil => simp at h
        | cons c' r4 =>
          by_cases hty : c' ∈ typeClass
          · simp only [hty, if_true, Option.some.injEq, Prod.mk.injEq] at h
            obtain ⟨hg, hrest⟩ := h
            subst hg hrest
            have := hd c' hty
            subst this
            refine ⟨⟨hFok, wok, ?_⟩, rfl, ?_⟩
            · intro ps hps
              simp at hps
              subst hps
              exact ⟨by intro hn; simp [hn] at hPne, hPd⟩
            · simp [tmpl, afterFlags, optGroup_getD, er, er1, er2]
          · simp [hty] at h
      · dsimp only at h
        rw [if_neg hdot] at h
        dsimp only at h
        by_cases hty : c ∈ typeClass
        · simp only [hty, if_true, Option.some.injEq, Prod.mk.injEq] at h
          obtain ⟨hg, hrest⟩ := h
          subst hg hrest
          have := hd c hty
          subst this
          refine ⟨⟨hFok, wok, by intro ps hps; simp at hps⟩, rfl, ?_⟩
          simp [tmpl, afterFlags, optGroup_getD, er, er1]
        · simp [hty] at h

end BlueskyVerif.C37
