/-
C05: monotonicity of the abstract counter machine and the log-level theorems
(freshness of never-replayed numbers, repeats only after a rewind, no gaps, num_events).
-/
import BlueskyVerif.Lemmas.C05Ctr

namespace BlueskyVerif.Bundler

def CEv.isRewind : CEv → Bool
  | .rewind _ => true
  | _ => false

/-- the numbers a micro-event hands out: (stream, first, one-past-last, replayable) -/
def CEv.item : CEv → Option (Name × Nat × Nat × Bool)
  | .emit n k r => some (n, k, k + 1, r)
  | .bump n k d => some (n, k, k + d, false)
  | _ => none

theorem aget_getD_aset (m : List (Name × Nat)) (n n' : Name) (v d : Nat) :
    (aget (aset m n v) n').getD d = if n = n' then v else (aget m n').getD d := by
  rw [aget_aset]; split <;> rfl

/-! ### single steps -/

/-- every valid micro-event has one of eight explicit shapes -/
theorem stepP_shape (σ σ' : Ctr × Option Name) (ev : CEv) (h : stepP σ ev = some σ') :
    (∃ n v, ev = .commit n ∧ (σ.2 = none ∨ σ.2 = some n) ∧ aget σ.1.seq n = some v ∧
        σ' = ({ σ.1 with copy := aset σ.1.copy n v }, none)) ∨
    (∃ n, ev = .commit n ∧ σ.2 = none ∧ aget σ.1.seq n = none ∧ σ' = (σ.1, none)) ∨
    (∃ n, ev = .newStream n ∧ σ.2 = none ∧ aget σ.1.seq n = none ∧
        σ' = ({ σ.1 with seq := aset σ.1.seq n 1 }, none)) ∨
    (∃ n, ev = .ensure n ∧ σ.2 = none ∧ aget σ.1.seq n = none ∧
        σ' = ({ σ.1 with seq := aset σ.1.seq n 1, copy := aset σ.1.copy n 1 }, none)) ∨
    (∃ n k r, ev = .emit n k r ∧ σ.2 = none ∧ aget σ.1.seq n = some k ∧
        σ' = ({ σ.1 with seq := aset σ.1.seq n (k + 1) }, if r then none else some n)) ∨
    (∃ n k d, ev = .bump n k d ∧ σ.2 = none ∧ aget σ.1.seq n = some k ∧
        σ' = ({ σ.1 with seq := aset σ.1.seq n (k + d) }, if d = 0 then none else some n)) ∨
    (ev = .reset ∧ σ.2 = none ∧ σ' = ({ σ.1 with copy := aupdate σ.1.copy σ.1.seq, cleared := false }, none)) ∨
    (∃ d, ev = .rewind d ∧ σ.2 = none ∧ σ.1.cleared = false ∧
        (∀ n, ahas σ.1.seq n = true → ahas σ.1.copy n = true ∨ n ∈ d) ∧
        σ' = ({ σ.1 with seq := d.foldl readdL σ.1.copy, copy := d.foldl readdL σ.1.copy }, none)) ∨
    (ev = .clear ∧ σ.2 = none ∧ σ' = ({ σ.1 with copy := [], cleared := true }, none)) := by
  obtain ⟨c, p⟩ := σ
  cases ev with
  | commit n =>
    cases p with
    | some m =>
      simp only [stepP] at h
      split at h
      · rename_i e; subst e
        split at h
        · rename_i v hv; cases h; exact Or.inl ⟨n, v, rfl, Or.inr rfl, hv, rfl⟩
        · cases h
      · cases h
    | none =>
      simp only [stepP] at h
      split at h
      · rename_i v hv; cases h; exact Or.inl ⟨n, v, rfl, Or.inl rfl, hv, rfl⟩
      · rename_i hv; cases h; exact Or.inr (Or.inl ⟨n, rfl, rfl, hv, rfl⟩)
  | newStream n =>
    cases p with
    | some m => simp [stepP] at h
    | none =>
      simp only [stepP] at h
      split at h
      · cases h
      · rename_i hn; cases h
        exact Or.inr (Or.inr (Or.inl ⟨n, rfl, rfl, (ahas_false_iff _ _).1 (by simpa using hn), rfl⟩))
  | ensure n =>
    cases p with
    | some m => simp [stepP] at h
    | none =>
      simp only [stepP] at h
      split at h
      · cases h
      · rename_i hn; cases h
        exact Or.inr (Or.inr (Or.inr (Or.inl ⟨n, rfl, rfl, (ahas_false_iff _ _).1 (by simpa using hn), rfl⟩)))
  | emit n k r =>
    cases p with
    | some m => simp [stepP] at h
    | none =>
      simp only [stepP] at h
      split at h
      · rename_i hk; cases h
        exact Or.inr (Or.inr (Or.inr (Or.inr (Or.inl ⟨n, k, r, rfl, rfl, hk, rfl⟩))))
      · cases h
  | bump n k d =>
    cases p with
    | some m => simp [stepP] at h
    | none =>
      simp only [stepP] at h
      split at h
      · rename_i hk; cases h
        exact Or.inr (Or.inr (Or.inr (Or.inr (Or.inr (Or.inl ⟨n, k, d, rfl, rfl, hk, rfl⟩)))))
      · cases h
  | reset =>
    cases p with
    | some m => simp [stepP] at h
    | none =>
      simp only [stepP] at h; cases h
      exact Or.inr (Or.inr (Or.inr (Or.inr (Or.inr (Or.inr (Or.inl ⟨rfl, rfl, rfl⟩))))))
  | rewind d =>
    cases p with
    | some m => simp [stepP] at h
    | none =>
      simp only [stepP] at h
      split at h
      · cases h
      · rename_i hc; cases h
        simp only [Bool.or_eq_true, Bool.not_eq_true', not_or, Bool.not_eq_true, Bool.not_eq_false] at hc
        refine Or.inr (Or.inr (Or.inr (Or.inr (Or.inr (Or.inr (Or.inr (Or.inl ⟨d, rfl, rfl, hc.1, ?_, rfl⟩)))))))
        intro n hn
        obtain ⟨v, hv⟩ := (ahas_iff _ _).1 hn
        have := List.all_eq_true.1 hc.2 (n, v) (aget_mem _ _ _ hv)
        simpa using this
  | clear =>
    cases p with
    | some m => simp [stepP] at h
    | none =>
      simp only [stepP] at h; cases h
      exact Or.inr (Or.inr (Or.inr (Or.inr (Or.inr (Or.inr (Or.inr (Or.inr ⟨rfl, rfl, rfl⟩)))))))

theorem cur_seq_aset (c : Ctr) (m : Name) (v : Nat) (n : Name) (cp : List (Name × Nat)) (cl : Bool) :
    ({ seq := aset c.seq m v, copy := cp, cleared := cl } : Ctr).cur n = if m = n then v else c.cur n := by
  unfold Ctr.cur; simp only [aget_getD_aset]

theorem cur_pos (c : Ctr) (hw : c.WF) (n : Name) : 1 ≤ c.cur n := by
  unfold Ctr.cur
  cases hs : aget c.seq n with
  | none => simp
  | some v => have := hw.pos n v hs; simpa using this

theorem floor_pos (c : Ctr) (hw : c.WF) (n : Name) : 1 ≤ c.floor n := by
  unfold Ctr.floor
  split
  · exact cur_pos c hw n
  · cases hs : aget c.copy n with
    | none => simp
    | some v => have := hw.posc n v hs; simpa using this

theorem copy_none_of_seq_none (c : Ctr) (hw : c.WF) (n : Name) (h : aget c.seq n = none) : aget c.copy n = none := by
  cases hh : aget c.copy n with
  | none => rfl
  | some v =>
    have := hw.sub n (by simp [ahas, hh])
    simp [ahas, h] at this

/-- how the current counter of `n` moves in one valid micro-event -/
theorem stepP_cur (σ σ' : Ctr × Option Name) (ev : CEv) (h : stepP σ ev = some σ') (hw : σ.1.WF) (n : Name) :
    (ev.isRewind = false → σ.1.cur n ≤ σ'.1.cur n) ∧
    (ev.isRewind = true → σ'.1.cur n = σ.1.floor n ∧ σ'.1.floor n = σ.1.floor n) ∧
    (ev.item = none → ev.isRewind = false → σ'.1.cur n = σ.1.cur n) ∧
    (∀ n' lo hi r, ev.item = some (n', lo, hi, r) → n' ≠ n → σ'.1.cur n = σ.1.cur n) := by
  obtain ⟨c, p⟩ := σ
  rcases stepP_shape _ _ _ h with ⟨m, v, rfl, _, hv, rfl⟩ | ⟨m, rfl, _, hv, rfl⟩ | ⟨m, rfl, _, hv, rfl⟩ |
    ⟨m, rfl, _, hv, rfl⟩ | ⟨m, k, r, rfl, _, hv, rfl⟩ | ⟨m, k, d, rfl, _, hv, rfl⟩ | ⟨rfl, _, rfl⟩ |
    ⟨d, rfl, _, hc, _, rfl⟩ | ⟨rfl, _, rfl⟩
  · refine ⟨fun _ => Nat.le_refl _, ?_, fun _ _ => rfl, ?_⟩
    · intro h; simp [CEv.isRewind] at h
    · intro _ _ _ _ h; simp [CEv.item] at h
  · refine ⟨fun _ => Nat.le_refl _, ?_, fun _ _ => rfl, ?_⟩
    · intro h; simp [CEv.isRewind] at h
    · intro _ _ _ _ h; simp [CEv.item] at h
  · have key : ({ c with seq := aset c.seq m 1 } : Ctr).cur n = c.cur n := by
      rw [cur_seq_aset]; split
      · rename_i e; subst e; simp [Ctr.cur, hv]
      · rfl
    refine ⟨fun _ => ?_, ?_, fun _ _ => key, ?_⟩
    · show c.cur n ≤ ({ c with seq := aset c.seq m 1 } : Ctr).cur n
      rw [key]; exact Nat.le_refl _
    · intro h; simp [CEv.isRewind] at h
    · intro _ _ _ _ h; simp [CEv.item] at h
  · have key : ({ c with seq := aset c.seq m 1, copy := aset c.copy m 1 } : Ctr).cur n = c.cur n := by
      rw [cur_seq_aset]; split
      · rename_i e; subst e; simp [Ctr.cur, hv]
      · rfl
    refine ⟨fun _ => ?_, ?_, fun _ _ => key, ?_⟩
    · show c.cur n ≤ ({ c with seq := aset c.seq m 1, copy := aset c.copy m 1 } : Ctr).cur n
      rw [key]; exact Nat.le_refl _
    · intro h; simp [CEv.isRewind] at h
    · intro _ _ _ _ h; simp [CEv.item] at h
  · refine ⟨fun _ => ?_, ?_, ?_, fun n' lo hi r' hit hne => ?_⟩
    · show c.cur n ≤ ({ c with seq := aset c.seq m (k + 1) } : Ctr).cur n
      rw [cur_seq_aset]; split
      · rename_i e; subst e; simp [Ctr.cur, hv]
      · exact Nat.le_refl _
    · intro h; simp [CEv.isRewind] at h
    · intro h; simp [CEv.item] at h
    · simp only [CEv.item, Option.some.injEq, Prod.mk.injEq] at hit
      show ({ c with seq := aset c.seq m (k + 1) } : Ctr).cur n = c.cur n
      rw [cur_seq_aset]; rw [hit.1]; simp [hne]
  · refine ⟨fun _ => ?_, ?_, ?_, fun n' lo hi r' hit hne => ?_⟩
    · show c.cur n ≤ ({ c with seq := aset c.seq m (k + d) } : Ctr).cur n
      rw [cur_seq_aset]; split
      · rename_i e; subst e; simp [Ctr.cur, hv]
      · exact Nat.le_refl _
    · intro h; simp [CEv.isRewind] at h
    · intro h; simp [CEv.item] at h
    · simp only [CEv.item, Option.some.injEq, Prod.mk.injEq] at hit
      show ({ c with seq := aset c.seq m (k + d) } : Ctr).cur n = c.cur n
      rw [cur_seq_aset]; rw [hit.1]; simp [hne]
  · refine ⟨fun _ => Nat.le_refl _, ?_, fun _ _ => rfl, ?_⟩
    · intro h; simp [CEv.isRewind] at h
    · intro _ _ _ _ h; simp [CEv.item] at h
  · refine ⟨?_, fun _ => ?_, ?_, ?_⟩
    · intro h; simp [CEv.isRewind] at h
    · simp only at hc
      unfold Ctr.cur Ctr.floor
      simp only [hc, Bool.false_eq_true, if_false]
      rw [readdL_fold_get]
      cases hh : aget c.copy n with
      | some v => simp [ahas, hh]
      | none => simp only [ahas, hh, Option.isSome_none, Bool.false_eq_true, if_false]; split <;> simp
    · intro _ h; simp [CEv.isRewind] at h
    · intro _ _ _ _ h; simp [CEv.item] at h
  · refine ⟨fun _ => Nat.le_refl _, ?_, fun _ _ => rfl, ?_⟩
    · intro h; simp [CEv.isRewind] at h
    · intro _ _ _ _ h; simp [CEv.item] at h

theorem stepP_cur_mono (σ σ' : Ctr × Option Name) (ev : CEv) (h : stepP σ ev = some σ') (hw : σ.1.WF)
    (hr : ev.isRewind = false) (n : Name) : σ.1.cur n ≤ σ'.1.cur n := (stepP_cur σ σ' ev h hw n).1 hr

theorem stepP_rewind_cur (σ σ' : Ctr × Option Name) (d : List Name) (h : stepP σ (.rewind d) = some σ')
    (hw : σ.1.WF) (n : Name) : σ'.1.cur n = σ.1.floor n ∧ σ'.1.floor n = σ.1.floor n :=
  (stepP_cur σ σ' _ h hw n).2.1 rfl

theorem stepP_floor_mono (σ σ' : Ctr × Option Name) (ev : CEv) (h : stepP σ ev = some σ') (hw : σ.1.WF)
    (n : Name) : σ.1.floor n ≤ σ'.1.floor n := by
  have hfl := hw.fl n
  have hcm := (stepP_cur σ σ' ev h hw n).1
  obtain ⟨c, p⟩ := σ
  rcases stepP_shape _ _ _ h with ⟨m, v, rfl, _, hv, rfl⟩ | ⟨m, rfl, _, hv, rfl⟩ | ⟨m, rfl, _, hv, rfl⟩ |
    ⟨m, rfl, _, hv, rfl⟩ | ⟨m, k, r, rfl, _, hv, rfl⟩ | ⟨m, k, d, rfl, _, hv, rfl⟩ | ⟨rfl, _, rfl⟩ |
    ⟨d, rfl, _, hc, _, rfl⟩ | ⟨rfl, _, rfl⟩
  · -- commit with a counter
    unfold Ctr.floor Ctr.cur at *
    simp only at *
    split
    · exact Nat.le_refl _
    · rename_i hcl
      simp only [hcl, Bool.false_eq_true, if_false] at hfl
      rw [aget_getD_aset]; split
      · rename_i e; subst e; simpa [hv] using hfl
      · exact Nat.le_refl _
  · exact Nat.le_refl _
  · -- newStream
    have := hcm rfl
    unfold Ctr.floor at *
    simp only at *
    split
    · exact this
    · exact Nat.le_refl _
  · -- ensure
    have := hcm rfl
    have hcn := copy_none_of_seq_none c hw m hv
    unfold Ctr.floor at *
    simp only at *
    split
    · exact this
    · rw [aget_getD_aset]; split
      · rename_i e; subst e; simp [hcn]
      · exact Nat.le_refl _
  · have := hcm rfl
    unfold Ctr.floor at *
    simp only at *
    split
    · exact this
    · exact Nat.le_refl _
  · have := hcm rfl
    unfold Ctr.floor at *
    simp only at *
    split
    · exact this
    · exact Nat.le_refl _
  · -- reset
    unfold Ctr.floor Ctr.cur at *
    simp only [Bool.false_eq_true, if_false] at *
    rw [aget_aupdate _ _ _ hw.nds]
    cases hs : aget c.seq n with
    | some v => simp only [hs, Option.getD_some] at hfl ⊢; exact hfl
    | none =>
      have hcn := copy_none_of_seq_none c hw n hs
      simp only [hs, hcn, Option.getD_none] at hfl ⊢
      split <;> exact Nat.le_refl _
  · rw [((stepP_cur (c, p) _ _ h hw n).2.1 rfl).2]; exact Nat.le_refl _
  · -- clear
    unfold Ctr.floor at *
    simp only [if_true] at *
    exact hfl

/-- an item-producing micro-event starts at the current counter and leaves it at the item's end -/
theorem stepP_item (σ σ' : Ctr × Option Name) (ev : CEv) (h : stepP σ ev = some σ')
    (n : Name) (lo hi : Nat) (r : Bool) (hi' : ev.item = some (n, lo, hi, r)) :
    σ.1.cur n = lo ∧ σ'.1.cur n = hi ∧ σ.2 = none ∧ (σ'.2 = if r || lo == hi then none else some n) := by
  obtain ⟨c, p⟩ := σ
  rcases stepP_shape _ _ _ h with ⟨m, v, rfl, _, hv, rfl⟩ | ⟨m, rfl, _, hv, rfl⟩ | ⟨m, rfl, _, hv, rfl⟩ |
    ⟨m, rfl, _, hv, rfl⟩ | ⟨m, k, r0, rfl, hp, hv, rfl⟩ | ⟨m, k, d, rfl, hp, hv, rfl⟩ | ⟨rfl, _, rfl⟩ |
    ⟨d, rfl, _, hc, _, rfl⟩ | ⟨rfl, _, rfl⟩
  all_goals simp only [CEv.item] at hi'
  all_goals try cases hi'
  · refine ⟨by simp [Ctr.cur, hv], by simp [Ctr.cur], hp, ?_⟩
    cases r <;> simp
  · refine ⟨by simp [Ctr.cur, hv], by simp [Ctr.cur], hp, ?_⟩
    by_cases hd : d = 0 <;> simp [hd]

/-- while a never-replayed item is pending the only possible micro-event is its commit, after which
    the floor of the stream is the current counter -/
theorem stepP_pending (σ σ' : Ctr × Option Name) (ev : CEv) (h : stepP σ ev = some σ') (n : Name)
    (hp : σ.2 = some n) : ev = .commit n ∧ σ'.2 = none ∧ σ'.1.floor n = σ.1.cur n ∧ σ'.1.cur n = σ.1.cur n := by
  obtain ⟨c, p⟩ := σ
  simp only at hp; subst hp
  rcases stepP_shape _ _ _ h with ⟨m, v, rfl, hpp, hv, rfl⟩ | ⟨m, rfl, hpp, hv, rfl⟩ | ⟨m, rfl, hpp, hv, rfl⟩ |
    ⟨m, rfl, hpp, hv, rfl⟩ | ⟨m, k, r0, rfl, hpp, hv, rfl⟩ | ⟨m, k, d, rfl, hpp, hv, rfl⟩ | ⟨rfl, hpp, rfl⟩ |
    ⟨d, rfl, hpp, hc, _, rfl⟩ | ⟨rfl, hpp, rfl⟩
  all_goals try (simp at hpp; done)
  rcases hpp with hpp | hpp
  · simp at hpp
  · simp only [Option.some.injEq] at hpp; subst hpp
    refine ⟨rfl, rfl, ?_, rfl⟩
    unfold Ctr.floor Ctr.cur
    simp only [hv, Option.getD_some]
    split
    · rfl
    · simp

/-! ### runs -/

theorem runP_cur_mono (σ σ' : Ctr × Option Name) (l : List CEv) (h : runP σ l = some σ') (hw : σ.1.WF)
    (hr : ∀ ev ∈ l, ev.isRewind = false) (n : Name) : σ.1.cur n ≤ σ'.1.cur n := by
  induction l generalizing σ with
  | nil => simp only [runP] at h; cases h; exact Nat.le_refl _
  | cons ev t ih =>
    simp only [runP] at h
    cases hs : stepP σ ev with
    | none => rw [hs] at h; cases h
    | some σ1 =>
      rw [hs] at h
      exact Nat.le_trans (stepP_cur_mono σ σ1 ev hs hw (hr ev List.mem_cons_self) n)
        (ih σ1 h (stepP_wf σ σ1 ev hs hw) (fun e he => hr e (List.mem_cons_of_mem _ he)))

theorem runP_floor_mono (σ σ' : Ctr × Option Name) (l : List CEv) (h : runP σ l = some σ') (hw : σ.1.WF)
    (n : Name) : σ.1.floor n ≤ σ'.1.floor n := by
  induction l generalizing σ with
  | nil => simp only [runP] at h; cases h; exact Nat.le_refl _
  | cons ev t ih =>
    simp only [runP] at h
    cases hs : stepP σ ev with
    | none => rw [hs] at h; cases h
    | some σ1 =>
      rw [hs] at h
      exact Nat.le_trans (stepP_floor_mono σ σ1 ev hs hw n) (ih σ1 h (stepP_wf σ σ1 ev hs hw))

/-- decompose a run at a split point -/
theorem runP_split (σ σ' : Ctr × Option Name) (l1 l2 : List CEv) (h : runP σ (l1 ++ l2) = some σ') :
    ∃ σm, runP σ l1 = some σm ∧ runP σm l2 = some σ' := by
  rw [runP_append] at h
  cases hm : runP σ l1 with
  | none => rw [hm] at h; cases h
  | some σm => rw [hm] at h; exact ⟨σm, rfl, h⟩

theorem runP_cons (σ σ' : Ctr × Option Name) (ev : CEv) (l : List CEv) (h : runP σ (ev :: l) = some σ') :
    ∃ σm, stepP σ ev = some σm ∧ runP σm l = some σ' := by
  simp only [runP] at h
  cases hs : stepP σ ev with
  | none => rw [hs] at h; cases h
  | some σm => rw [hs] at h; exact ⟨σm, rfl, h⟩

/-! ### the log-level theorems -/

/-- **never reused**: the numbers of a never-replayed, non-empty item are below everything handed
    out later in its stream, whatever happens in between (rewinds included) -/
theorem log_fresh (σ0 σ : Ctr × Option Name) (L1 L2 : List CEv) (ex ey : CEv) (hw : σ0.1.WF)
    (h : runP σ0 (L1 ++ ex :: (L2 ++ [ey])) = some σ) (n : Name) (lo hi lo' hi' : Nat) (r' : Bool)
    (hx : ex.item = some (n, lo, hi, false)) (hne : lo < hi) (hy : ey.item = some (n, lo', hi', r')) :
    hi ≤ lo' := by
  obtain ⟨σ1, h1, h⟩ := runP_split _ _ _ _ h
  obtain ⟨σ2, h2, h⟩ := runP_cons _ _ _ _ h
  obtain ⟨σ3, h3, h⟩ := runP_split _ _ _ _ h
  obtain ⟨σ4, h4, _⟩ := runP_cons _ _ _ _ h
  have w1 := runP_wf _ _ _ h1 hw
  have w2 := stepP_wf _ _ _ h2 w1
  obtain ⟨_, hc2, _, hp2⟩ := stepP_item _ _ _ h2 n lo hi false hx
  have hp2' : σ2.2 = some n := by
    rw [hp2]; have : (lo == hi) = false := by simp; omega
    simp [this]
  obtain ⟨hcy, _, hpy, _⟩ := stepP_item _ _ _ h4 n lo' hi' r' hy
  -- L2 starts with the commit
  cases L2 with
  | nil =>
    simp only [runP] at h3; cases h3
    rw [hp2'] at hpy; cases hpy
  | cons c L2' =>
    obtain ⟨σ2', hc, h3'⟩ := runP_cons _ _ _ _ h3
    obtain ⟨_, _, hfl, _⟩ := stepP_pending _ _ _ hc n hp2'
    have w2' := stepP_wf _ _ _ hc w2
    have w3 := runP_wf _ _ _ h3' w2'
    have := runP_floor_mono _ _ _ h3' w2' n
    have hfc := w3.fl n
    omega

/-- **a repeat needs a rewind**: if a later item of the stream overlaps an earlier one, a rewind
    happened in between -/
theorem log_repeat (σ0 σ : Ctr × Option Name) (L1 L2 : List CEv) (ex ey : CEv) (hw : σ0.1.WF)
    (h : runP σ0 (L1 ++ ex :: (L2 ++ [ey])) = some σ) (n : Name) (lo hi lo' hi' : Nat) (r r' : Bool)
    (hx : ex.item = some (n, lo, hi, r)) (hy : ey.item = some (n, lo', hi', r')) (hov : lo' < hi) :
    ∃ ev ∈ L2, ev.isRewind = true := by
  obtain ⟨σ1, h1, h⟩ := runP_split _ _ _ _ h
  obtain ⟨σ2, h2, h⟩ := runP_cons _ _ _ _ h
  obtain ⟨σ3, h3, h⟩ := runP_split _ _ _ _ h
  obtain ⟨σ4, h4, _⟩ := runP_cons _ _ _ _ h
  have w1 := runP_wf _ _ _ h1 hw
  have w2 := stepP_wf _ _ _ h2 w1
  obtain ⟨_, hc2, _, _⟩ := stepP_item _ _ _ h2 n lo hi r hx
  obtain ⟨hcy, _, _, _⟩ := stepP_item _ _ _ h4 n lo' hi' r' hy
  apply Classical.byContradiction
  intro hno
  have hall : ∀ ev ∈ L2, ev.isRewind = false := by
    intro ev hev
    cases hr : ev.isRewind with
    | false => rfl
    | true => exact absurd ⟨ev, hev, hr⟩ hno
  have := runP_cur_mono _ _ _ h3 w2 hall n
  omega

/-- highest end of the items of stream `n` selected by `q lo hi replayable` (1 when there is none) -/
def topBy (q : Nat → Nat → Bool → Bool) : List CEv → Name → Nat
  | [], _ => 1
  | ev :: l, n =>
    match ev.item with
    | some (n', lo, hi, r) => if n' = n ∧ q lo hi r = true then max hi (topBy q l n) else topBy q l n
    | none => topBy q l n

theorem topBy_pos (q : Nat → Nat → Bool → Bool) (l : List CEv) (n : Name) : 1 ≤ topBy q l n := by
  induction l with
  | nil => exact Nat.le_refl _
  | cons ev t ih =>
    simp only [topBy]
    split
    · split
      · exact Nat.le_trans ih (Nat.le_max_right _ _)
      · exact ih
    · exact ih

theorem topBy_append (q : Nat → Nat → Bool → Bool) (l1 l2 : List CEv) (n : Name) :
    topBy q (l1 ++ l2) n = max (topBy q l1 n) (topBy q l2 n) := by
  induction l1 with
  | nil => simp only [List.nil_append, topBy]; have := topBy_pos q l2 n; omega
  | cons ev t ih =>
    simp only [List.cons_append, topBy]
    split
    · split
      · rw [ih]; omega
      · exact ih
    · exact ih

/-- never-replayed items that really hand out numbers -/
def qUnrep : Nat → Nat → Bool → Bool := fun lo hi r => !r && decide (lo < hi)
/-- every item that really hands out numbers -/
def qAll : Nat → Nat → Bool → Bool := fun lo hi _ => decide (lo < hi)
/-- bundle events (re-taken after a rewind) -/
def qRep : Nat → Nat → Bool → Bool := fun lo hi r => r && decide (lo < hi)

theorem item_le (ev : CEv) (n : Name) (lo hi : Nat) (r : Bool) (h : ev.item = some (n, lo, hi, r)) : lo ≤ hi := by
  cases ev with
  | emit n' k r' =>
    simp only [CEv.item, Option.some.injEq, Prod.mk.injEq] at h
    obtain ⟨_, h1, h2, _⟩ := h; omega
  | bump n' k d =>
    simp only [CEv.item, Option.some.injEq, Prod.mk.injEq] at h
    obtain ⟨_, h1, h2, _⟩ := h; omega
  | _ => simp [CEv.item] at h

theorem topBy_all_split (l : List CEv) (n : Name) :
    topBy qAll l n = max (topBy qRep l n) (topBy qUnrep l n) := by
  induction l with
  | nil => simp [topBy]
  | cons ev t ih =>
    simp only [topBy]
    cases hit : ev.item with
    | none => simpa using ih
    | some it =>
      obtain ⟨n', lo, hi, r⟩ := it
      simp only
      by_cases e : n' = n
      · by_cases hlt : lo < hi
        · cases r <;> simp [qAll, qRep, qUnrep, e, hlt, ih] <;> omega
        · cases r <;> simp [qAll, qRep, qUnrep, e, hlt, ih]
      · simp [e, ih]

theorem topBy_cons_le (q : Nat → Nat → Bool → Bool) (ev : CEv) (t : List CEv) (n : Name) :
    topBy q t n ≤ topBy q (ev :: t) n := by
  simp only [topBy]; split
  · split
    · exact Nat.le_max_right _ _
    · exact Nat.le_refl _
  · exact Nat.le_refl _

/-- the counter never exceeds what has been handed out (plus where it started) -/
theorem runP_cur_le_top (σ σ' : Ctr × Option Name) (l : List CEv) (h : runP σ l = some σ') (hw : σ.1.WF)
    (n : Name) : σ'.1.cur n ≤ max (σ.1.cur n) (topBy qAll l n) := by
  induction l generalizing σ with
  | nil => simp only [runP] at h; cases h; exact Nat.le_max_left _ _
  | cons ev t ih =>
    obtain ⟨σ1, hs, ht⟩ := runP_cons _ _ _ _ h
    have w1 := stepP_wf _ _ _ hs hw
    have hrec := ih σ1 ht w1
    obtain ⟨c1, c2, c3, c4⟩ := stepP_cur σ σ1 ev hs hw n
    have htop := topBy_cons_le qAll ev t n
    have hstep : σ1.1.cur n ≤ max (σ.1.cur n) (topBy qAll (ev :: t) n) := by
      cases hit : ev.item with
      | some it =>
        obtain ⟨n', lo, hi, r⟩ := it
        by_cases e : n' = n
        · subst e
          obtain ⟨hlo, hc, _, _⟩ := stepP_item _ _ _ hs n' lo hi r hit
          rw [hc]
          by_cases hlt : lo < hi
          · refine Nat.le_trans ?_ (Nat.le_max_right _ _)
            simp only [topBy, hit, qAll, hlt, decide_true, and_self, if_true]
            exact Nat.le_max_left _ _
          · have := item_le ev n' lo hi r hit
            have : hi = lo := by omega
            rw [this, ← hlo]; exact Nat.le_max_left _ _
        · rw [c4 n' lo hi r hit e]; exact Nat.le_max_left _ _
      | none =>
        cases hr : ev.isRewind with
        | true =>
          rw [(c2 hr).1]
          exact Nat.le_trans (hw.fl n) (Nat.le_max_left _ _)
        | false => rw [c3 hit hr]; exact Nat.le_max_left _ _
    refine Nat.le_trans hrec (Nat.max_le.2 ⟨hstep, ?_⟩)
    exact Nat.le_trans htop (Nat.le_max_right _ _)

/-- without a rewind, everything handed out is below the final counter -/
theorem runP_top_le_cur (σ σ' : Ctr × Option Name) (l : List CEv) (h : runP σ l = some σ') (hw : σ.1.WF)
    (hr : ∀ ev ∈ l, ev.isRewind = false) (n : Name) : max (σ.1.cur n) (topBy qAll l n) ≤ σ'.1.cur n := by
  induction l generalizing σ with
  | nil =>
    simp only [runP] at h; cases h
    simp only [topBy]
    exact Nat.max_le.2 ⟨Nat.le_refl _, cur_pos _ hw n⟩
  | cons ev t ih =>
    obtain ⟨σ1, hs, ht⟩ := runP_cons _ _ _ _ h
    have w1 := stepP_wf _ _ _ hs hw
    have hrec := Nat.max_le.1 (ih σ1 ht w1 (fun e he => hr e (List.mem_cons_of_mem _ he)))
    have hm := stepP_cur_mono σ σ1 ev hs hw (hr ev List.mem_cons_self) n
    refine Nat.max_le.2 ⟨Nat.le_trans hm hrec.1, ?_⟩
    simp only [topBy]
    split
    · rename_i n' lo hi r hit
      split
      · rename_i hc
        obtain ⟨_, hcc, _, _⟩ := stepP_item _ _ _ hs n' lo hi r hit
        rw [hc.1] at hcc
        exact Nat.max_le.2 ⟨by rw [← hcc]; exact hrec.1, hrec.2⟩
      · exact hrec.2
    · exact hrec.2

/-- never-replayed, non-empty items stay below the floor (below the counter while their commit is pending) -/
theorem runP_unrep_le_floor (σ σ' : Ctr × Option Name) (l : List CEv) (h : runP σ l = some σ') (hw : σ.1.WF)
    (n : Name) (m : Nat) (hm1 : σ.2 ≠ some n → m ≤ σ.1.floor n) (hm2 : m ≤ σ.1.cur n) :
    (σ'.2 ≠ some n → max m (topBy qUnrep l n) ≤ σ'.1.floor n) ∧ max m (topBy qUnrep l n) ≤ σ'.1.cur n := by
  induction l generalizing σ m with
  | nil =>
    simp only [runP] at h; cases h
    simp only [topBy]
    exact ⟨fun hp => Nat.max_le.2 ⟨hm1 hp, floor_pos _ hw n⟩, Nat.max_le.2 ⟨hm2, cur_pos _ hw n⟩⟩
  | cons ev t ih =>
    obtain ⟨σ1, hs, ht⟩ := runP_cons _ _ _ _ h
    have w1 := stepP_wf _ _ _ hs hw
    obtain ⟨c1, c2, c3, c4⟩ := stepP_cur σ σ1 ev hs hw n
    have hfm := stepP_floor_mono _ _ _ hs hw n
    -- the bound carried over the first event
    have key : ∃ m1, (σ1.2 ≠ some n → m1 ≤ σ1.1.floor n) ∧ m1 ≤ σ1.1.cur n ∧
        max m (topBy qUnrep (ev :: t) n) ≤ max m1 (topBy qUnrep t n) := by
      cases hp : σ.2 with
      | some p =>
        obtain ⟨hev, hp1, hfl, hcu⟩ := stepP_pending _ _ _ hs p hp
        subst hev
        have hcn : σ1.1.cur n = σ.1.cur n := c3 rfl rfl
        refine ⟨m, fun _ => ?_, by rw [hcn]; exact hm2, by simp only [topBy, CEv.item]; exact Nat.le_refl _⟩
        by_cases e : p = n
        · subst e; rw [hfl]; exact hm2
        · exact Nat.le_trans (hm1 (by rw [hp]; intro h; cases h; exact e rfl)) hfm
      | none =>
        have hfl0 := hm1 (by rw [hp]; simp)
        cases hit : ev.item with
        | some it =>
          obtain ⟨n', lo, hi, r⟩ := it
          obtain ⟨hlo, hc, _, hp1⟩ := stepP_item _ _ _ hs n' lo hi r hit
          have hnr : ev.isRewind = false := by cases ev <;> simp [CEv.item] at hit <;> rfl
          have hcm := c1 hnr
          simp only [topBy, hit]
          by_cases e : n' = n ∧ qUnrep lo hi r = true
          · obtain ⟨e1, e2⟩ := e
            subst e1
            simp only [qUnrep, Bool.and_eq_true, Bool.not_eq_true', decide_eq_true_eq] at e2
            refine ⟨max m hi, fun hpp => ?_, Nat.max_le.2 ⟨Nat.le_trans hm2 hcm, by rw [hc]; exact Nat.le_refl _⟩, ?_⟩
            · exfalso; apply hpp; rw [hp1]
              have : (lo == hi) = false := by simp; omega
              simp [e2.1, this]
            · simp only [qUnrep, e2.1, Bool.not_false, Bool.true_and, decide_eq_true_eq, e2.2, and_self, if_true]
              rw [Nat.max_assoc]; exact Nat.le_refl _
          · simp only [e, if_false]
            exact ⟨m, fun hpp => Nat.le_trans hfl0 hfm, Nat.le_trans hm2 hcm, Nat.le_refl _⟩
        | none =>
          simp only [topBy, hit]
          refine ⟨m, fun _ => Nat.le_trans hfl0 hfm, ?_, Nat.le_refl _⟩
          cases hr : ev.isRewind with
          | false => exact Nat.le_trans hm2 (c1 hr)
          | true => rw [(c2 hr).1]; exact hfl0
    obtain ⟨m1, k1, k2, k3⟩ := key
    obtain ⟨r1, r2⟩ := ih σ1 ht w1 m1 k1 k2
    exact ⟨fun hp => Nat.le_trans k3 (r1 hp), Nat.le_trans k3 r2⟩

/-! ### streams that only ever receive never-replayed items (monitor, interruptions, collect-only) -/

/-- no bundle event of stream `n` in the log -/
def noRep (l : List CEv) (n : Name) : Prop := ∀ ev ∈ l, ∀ lo hi, ev.item ≠ some (n, lo, hi, true)

/-- total width of the items of stream `n` -/
def widthSum : List CEv → Name → Nat
  | [], _ => 0
  | ev :: l, n =>
    match ev.item with
    | some (n', lo, hi, _) => if n' = n then (hi - lo) + widthSum l n else widthSum l n
    | none => widthSum l n

/-- in a stream without bundle events the counter is always `1 +` the total width handed out, and
    (unless a commit is pending) the rewind floor equals it: a rewind changes nothing there -/
theorem runP_unrep_stream (σ σ' : Ctr × Option Name) (l : List CEv) (h : runP σ l = some σ') (hw : σ.1.WF)
    (n : Name) (hno : noRep l n) (hfl : σ.2 ≠ some n → σ.1.floor n = σ.1.cur n) :
    σ'.1.cur n = σ.1.cur n + widthSum l n ∧ (σ'.2 ≠ some n → σ'.1.floor n = σ'.1.cur n) := by
  induction l generalizing σ with
  | nil => simp only [runP] at h; cases h; exact ⟨by simp [widthSum], hfl⟩
  | cons ev t ih =>
    obtain ⟨σ1, hs, ht⟩ := runP_cons _ _ _ _ h
    have w1 := stepP_wf _ _ _ hs hw
    obtain ⟨c1, c2, c3, c4⟩ := stepP_cur σ σ1 ev hs hw n
    have hfm := stepP_floor_mono _ _ _ hs hw n
    have hfl1 := w1.fl n
    have hno' : noRep t n := fun e he => hno e (List.mem_cons_of_mem _ he)
    -- one step
    have key : σ1.1.cur n = σ.1.cur n + (widthSum (ev :: t) n - widthSum t n) ∧
        widthSum t n ≤ widthSum (ev :: t) n ∧ (σ1.2 ≠ some n → σ1.1.floor n = σ1.1.cur n) := by
      cases hp : σ.2 with
      | some p =>
        obtain ⟨hev, hp1, hflo, hcu⟩ := stepP_pending _ _ _ hs p hp
        subst hev
        have hcn : σ1.1.cur n = σ.1.cur n := c3 rfl rfl
        refine ⟨by simp [widthSum, CEv.item, hcn], by simp [widthSum, CEv.item], fun _ => ?_⟩
        by_cases e : p = n
        · subst e; rw [hflo, hcu]
        · have := hfl (by rw [hp]; intro h; cases h; exact e rfl)
          omega
      | none =>
        have hfl0 := hfl (by rw [hp]; simp)
        cases hit : ev.item with
        | some it =>
          obtain ⟨n', lo, hi, r⟩ := it
          obtain ⟨hlo, hc, _, hp1⟩ := stepP_item _ _ _ hs n' lo hi r hit
          have hle := item_le ev n' lo hi r hit
          by_cases e : n' = n
          · subst e
            have hr : r = false := by
              cases r with
              | false => rfl
              | true => exact absurd hit (hno ev List.mem_cons_self lo hi)
            subst hr
            refine ⟨by simp only [widthSum, hit, if_true]; omega, by simp [widthSum, hit], fun hpp => ?_⟩
            -- not pending means the item was empty: nothing moved
            rw [hp1] at hpp
            by_cases hlh : lo = hi
            · subst hlh; have := c1 (by cases ev <;> simp [CEv.item] at hit <;> rfl); omega
            · exfalso; apply hpp; simp [hlh]
          · have hcn := c4 n' lo hi r hit e
            refine ⟨by simp [widthSum, hit, e, hcn], by simp [widthSum, hit, e], fun _ => by omega⟩
        | none =>
          cases hr : ev.isRewind with
          | false =>
            have hcn := c3 hit hr
            exact ⟨by simp [widthSum, hit, hcn], by simp [widthSum, hit], fun _ => by omega⟩
          | true =>
            obtain ⟨r1, r2⟩ := c2 hr
            exact ⟨by simp [widthSum, hit]; omega, by simp [widthSum, hit], fun _ => by omega⟩
    obtain ⟨k1, k2, k3⟩ := key
    obtain ⟨i1, i2⟩ := ih σ1 ht w1 hno' k3
    exact ⟨by omega, i2⟩

/-- ... hence every item of such a stream starts exactly where the previous ones ended: the items
    tile `[1, 1 + total width)` contiguously, in order, whatever rewinds happen in between -/
theorem log_unrep_consecutive (σ : Ctr × Option Name) (L1 L3 : List CEv) (ey : CEv)
    (h : runP ({}, none) (L1 ++ ey :: L3) = some σ) (n : Name) (hno : noRep L1 n) (lo hi : Nat) (r : Bool)
    (hy : ey.item = some (n, lo, hi, r)) : lo = 1 + widthSum L1 n := by
  obtain ⟨σ1, h1, hrest⟩ := runP_split _ _ _ _ h
  obtain ⟨σ2, h2, _⟩ := runP_cons _ _ _ _ hrest
  obtain ⟨hlo, _, _, _⟩ := stepP_item _ _ _ h2 n lo hi r hy
  have := (runP_unrep_stream ({}, none) σ1 L1 h1 Ctr.wf_empty n hno (fun _ => by simp [Ctr.floor, Ctr.cur])).1
  have h0 : ((({} : Ctr), (none : Option Name)).1).cur n = 1 := rfl
  rw [h0] at this
  omega

end BlueskyVerif.Bundler
