/-
Frame facts about the bundle fields (`bundling`, `_bundle_name`, `_objs_read`, `_read_cache`):
which operations can touch them.  Used by C15.
-/
import BlueskyVerif.Lemmas.BundlerBasic

namespace BlueskyVerif.Bundler
open Generated

/-- the bundle fields are untouched, except that `bundling` may go from true to false -/
def KeepsBundle (s s' : BState) : Prop :=
  s'.readCache = s.readCache ∧ s'.objsRead = s.objsRead ∧ s'.bundleName = s.bundleName ∧ s'.bundling = s.bundling

theorem KeepsBundle.refl (s : BState) : KeepsBundle s s := ⟨rfl, rfl, rfl, rfl⟩

theorem KeepsBundle.trans (a b c : BState) (h1 : KeepsBundle a b) (h2 : KeepsBundle b c) : KeepsBundle a c :=
  ⟨h2.1.trans h1.1, h2.2.1.trans h1.2.1, h2.2.2.1.trans h1.2.2.1, h2.2.2.2.trans h1.2.2.2⟩

theorem keeps_andThen (s : BState) (r : Res) (f : BState → Res)
    (h1 : KeepsBundle s r.st) (h2 : ∀ s', KeepsBundle s' (f s').st) : KeepsBundle s (r.andThen f).st :=
  Res.andThen_rel KeepsBundle KeepsBundle.refl KeepsBundle.trans s r f h1 h2

theorem keeps_foldl {α : Type} (l : List α) (g : Res → α → Res) (r : Res) (s : BState)
    (h0 : KeepsBundle s r.st) (hg : ∀ (r : Res) (a : α), KeepsBundle s r.st → KeepsBundle s (g r a).st) :
    KeepsBundle s (l.foldl g r).st := by
  induction l generalizing r with
  | nil => exact h0
  | cons a t ih => exact ih (g r a) (hg r a h0)

theorem keeps_foldl_state {α : Type} (l : List α) (g : BState → α → BState) (s0 s : BState)
    (h0 : KeepsBundle s s0) (hg : ∀ (a : BState) (x : α), KeepsBundle a (g a x)) :
    KeepsBundle s (l.foldl g s0) := by
  induction l generalizing s0 with
  | nil => exact h0
  | cons a t ih => exact ih (g s0 a) (KeepsBundle.trans _ _ _ h0 (hg s0 a))

theorem keeps_commit (s : BState) (n : Name) : KeepsBundle s (commit s n) := by
  unfold commit; split <;> exact ⟨rfl, rfl, rfl, rfl⟩

theorem keeps_resetCp (s : BState) : KeepsBundle s (resetCp s) := ⟨rfl, rfl, rfl, rfl⟩
theorem keeps_clearCp (s : BState) : KeepsBundle s (clearCp s) := ⟨rfl, rfl, rfl, rfl⟩

theorem keeps_resetR (s : BState) : KeepsBundle s (resetR s).st := keeps_resetCp s

theorem keeps_composeEvent (s : BState) (n : Name) (u : Nat) (dk ext : List Key) (data : List (Key × Val))
    (src : Src) (note : Option String) : KeepsBundle s (composeEvent s n u dk ext data src note).st := by
  unfold composeEvent
  split
  · exact KeepsBundle.refl s
  · split
    · exact ⟨rfl, rfl, rfl, rfl⟩
    · split <;> exact ⟨rfl, rfl, rfl, rfl⟩

theorem keeps_cacheReadConfig (w : World) (s : BState) (o : Obj) : KeepsBundle s (cacheReadConfig w s o).st := by
  unfold cacheReadConfig; split <;> exact ⟨rfl, rfl, rfl, rfl⟩

theorem keeps_cacheDescribeConfig (w : World) (s : BState) (o : Obj) :
    KeepsBundle s (cacheDescribeConfig w s o).st := by
  unfold cacheDescribeConfig; split <;> exact ⟨rfl, rfl, rfl, rfl⟩

theorem keeps_cacheDescribe (w : World) (s : BState) (o : Obj) (c : Bool) :
    KeepsBundle s (cacheDescribe w s o c).st := by
  unfold cacheDescribe
  split
  · exact KeepsBundle.refl s
  · split
    · exact KeepsBundle.refl s
    · split
      · exact ⟨rfl, rfl, rfl, rfl⟩
      · split
        · exact ⟨rfl, rfl, rfl, rfl⟩
        · exact KeepsBundle.refl s

theorem keeps_cacheConfig (w : World) (s : BState) (o : Obj) : KeepsBundle s (cacheConfig w s o).st := by
  unfold cacheConfig
  split
  · apply keeps_andThen
    · exact keeps_cacheDescribeConfig w s o
    · intro s''; exact keeps_cacheReadConfig w s'' o
  · exact KeepsBundle.refl s

theorem keeps_ensureCached (w : World) (s : BState) (o : Obj) (c : Bool) :
    KeepsBundle s (ensureCached w s o c).st := by
  unfold ensureCached
  apply keeps_andThen
  · exact keeps_cacheDescribe w s o c
  · intro s'; exact keeps_cacheConfig w s' o

theorem keeps_ensureAll (w : World) (s : BState) (objs : List Obj) (c : Bool) :
    KeepsBundle s (ensureAll w s objs c).st := by
  unfold ensureAll
  apply keeps_foldl
  · exact KeepsBundle.refl s
  · intro r a h
    exact keeps_andThen s r _ h (fun s' => keeps_ensureCached w s' a c)

theorem keeps_prepareStream_finish (w : World) (n : Name) (objsDks : List (Obj × List Key)) (s : BState)
    (uid : Nat) (dk : List Key) (cfg : List (Obj × CfgBlock)) (pre : List CEv) :
    KeepsBundle s (prepareStream.finish w n objsDks s uid dk cfg pre).st := by
  unfold prepareStream.finish
  simp only
  split <;> exact ⟨rfl, rfl, rfl, rfl⟩

theorem keeps_prepareStream (w : World) (s : BState) (n : Name) (objsDks : List (Obj × List Key)) :
    KeepsBundle s (prepareStream w s n objsDks).st := by
  unfold prepareStream
  simp only
  split
  · exact KeepsBundle.refl s
  · split
    · split
      · exact ⟨rfl, rfl, rfl, rfl⟩
      · refine KeepsBundle.trans _ _ _ ?_ (keeps_prepareStream_finish w n objsDks _ _ _ _ _)
        exact ⟨rfl, rfl, rfl, rfl⟩
    · refine KeepsBundle.trans _ _ _ ?_ (keeps_prepareStream_finish w n objsDks _ _ _ _ _)
      exact ⟨rfl, rfl, rfl, rfl⟩

theorem keeps_dropMonitors (s : BState) : KeepsBundle s (dropMonitors s).st := ⟨rfl, rfl, rfl, rfl⟩

theorem keeps_closeRun (s : BState) (e r : Option String) : KeepsBundle s (closeRun s e r).st := by
  unfold closeRun
  split
  · exact KeepsBundle.refl s
  · apply keeps_andThen
    · exact keeps_dropMonitors s
    · intro s'
      simp only
      split
      · exact KeepsBundle.refl s'
      · apply keeps_andThen
        · exact ⟨rfl, rfl, rfl, rfl⟩
        · intro s''
          apply keeps_andThen
          · split
            · exact keeps_resetR s''
            · exact KeepsBundle.refl s''
          · intro s3; exact ⟨rfl, rfl, rfl, rfl⟩

theorem keeps_monitor (w : World) (s : BState) (o : Obj) (n : Name) : KeepsBundle s (monitor w s o n).st := by
  unfold monitor
  split
  · exact KeepsBundle.refl s
  · apply keeps_andThen
    · exact keeps_ensureCached w s o false
    · intro s'
      apply keeps_andThen
      · exact keeps_prepareStream w s' n _
      · intro s''
        split
        · exact KeepsBundle.refl s''
        · exact ⟨rfl, rfl, rfl, rfl⟩

theorem keeps_monitorCompose (s : BState) (m : MonRec) (rd : Reading) :
    KeepsBundle s (monitorCompose s m rd).st := by
  unfold monitorCompose
  split
  · split
    · exact KeepsBundle.refl s
    · exact keeps_composeEvent ..
  · exact keeps_composeEvent ..

theorem keeps_monitorUpdate (s : BState) (o : Obj) (rd : Reading) : KeepsBundle s (monitorUpdate s o rd).st := by
  unfold monitorUpdate
  split
  · exact KeepsBundle.refl s
  · split
    · exact keeps_monitorCompose ..
    · split
      · exact KeepsBundle.trans _ _ _ (keeps_monitorCompose s _ rd) (keeps_commit ..)
      · exact keeps_monitorCompose ..

theorem keeps_unmonitor (s : BState) (o : Obj) : KeepsBundle s (unmonitor s o).st := by
  unfold unmonitor
  split
  · exact KeepsBundle.refl s
  · apply keeps_andThen
    · exact ⟨rfl, rfl, rfl, rfl⟩
    · intro s'
      split
      · exact keeps_resetR s'
      · exact KeepsBundle.refl s'

theorem keeps_recordInterruption (s : BState) (c : String) : KeepsBundle s (recordInterruption s c).st := by
  unfold recordInterruption
  split
  · exact KeepsBundle.refl s
  · simp only
    split
    · exact keeps_composeEvent ..
    · split
      · exact KeepsBundle.trans _ _ _ (keeps_composeEvent ..) (keeps_commit ..)
      · exact keeps_composeEvent ..

theorem keeps_reprepareAll (w : World) (s : BState) (o : Obj) : KeepsBundle s (reprepareAll w s o).st := by
  unfold reprepareAll
  apply keeps_foldl
  · exact KeepsBundle.refl s
  · intro r nd h
    refine keeps_andThen s r _ h ?_
    intro s''
    split
    · exact KeepsBundle.refl s''
    · split
      · refine KeepsBundle.trans _ _ _ ?_ (keeps_prepareStream w _ nd.1 _)
        exact ⟨rfl, rfl, rfl, rfl⟩
      · exact KeepsBundle.refl s''

theorem keeps_configure (w : World) (s : BState) (o : Obj) : KeepsBundle s (configure w s o).st := by
  unfold configure
  apply keeps_andThen
  · exact keeps_cacheReadConfig w s o
  · intro s'; exact keeps_reprepareAll w s' o

theorem keeps_declareStream (w : World) (s : BState) (n : Name) (objs : List Obj) (c : Bool) :
    KeepsBundle s (declareStream w s n objs c).st := by
  unfold declareStream
  simp only
  apply keeps_andThen
  · exact keeps_ensureAll w s _ c
  · intro s'
    split
    · exact KeepsBundle.refl s'
    · refine KeepsBundle.trans _ _ _ ?_ (keeps_prepareStream w _ n _)
      exact ⟨rfl, rfl, rfl, rfl⟩

theorem keeps_packOne (n : Name) (d : Desc) (p : PackSt) (a : Asset) (s : BState)
    (h : KeepsBundle s p.res.st) : KeepsBundle s (packOne n d p a).res.st := by
  unfold packOne
  split
  · exact h
  · cases a with
    | resource uid key =>
      simp only
      split
      · exact h
      · split
        · exact KeepsBundle.trans _ _ _ h ⟨rfl, rfl, rfl, rfl⟩
        · exact KeepsBundle.trans _ _ _ h ⟨rfl, rfl, rfl, rfl⟩
    | datum uid resource descFilled start stop seqFilled =>
      simp only
      split
      · exact h
      · split
        · exact h
        · split
          · exact h
          · split
            · exact h
            · split
              · exact h
              · exact h

theorem keeps_packExternalAssets (s : BState) (n : Name) (assets : List Asset) :
    KeepsBundle s (packExternalAssets s n assets).res.st := by
  unfold packExternalAssets
  split
  · exact KeepsBundle.refl s
  · rename_i d hd
    have : ∀ (l : List Asset) (p : PackSt), KeepsBundle s p.res.st → KeepsBundle s (l.foldl (packOne n d) p).res.st := by
      intro l
      induction l with
      | nil => intro p h; exact h
      | cons a t ih => intro p h; exact ih _ (keeps_packOne n d p a s h)
    have h0 := this assets { res := Res.ok s } (KeepsBundle.refl s)
    simp only
    split
    · exact h0
    · split
      · exact h0
      · exact h0

theorem keeps_collectInner (w : World) (s : BState) (objs : List Obj) (nm : Option Name) (mis : List Mis) :
    KeepsBundle s (collectInner w s objs nm mis).st := by
  unfold collectInner
  split
  · exact KeepsBundle.refl s
  · simp only
    split
    · exact ⟨rfl, rfl, rfl, rfl⟩
    · split
      · refine keeps_andThen _ _ _ ?_ ?_
        · exact KeepsBundle.trans _ _ _ ⟨rfl, rfl, rfl, rfl⟩ (keeps_ensureCached w _ _ true)
        · intro s'; exact KeepsBundle.refl s'
      · exact ⟨rfl, rfl, rfl, rfl⟩
    · refine keeps_andThen _ _ _ ⟨rfl, rfl, rfl, rfl⟩ ?_
      intro s'
      refine keeps_andThen _ _ _ (keeps_packExternalAssets s' _ _) ?_
      intro s''
      split
      · exact KeepsBundle.refl s''
      · split
        · exact ⟨rfl, rfl, rfl, rfl⟩
        · exact KeepsBundle.refl s''

theorem keeps_collect (w : World) (s : BState) (objs : List Obj) (nm : Option Name) (mis : List Mis) :
    KeepsBundle s (collect w s objs nm mis).st := by
  unfold collect
  simp only
  split
  · exact keeps_foldl_state _ _ _ _ (keeps_collectInner w s objs nm mis) (fun a x => keeps_commit a x)
  · exact keeps_collectInner w s objs nm mis

theorem keeps_backstopCollect (w : World) (s : BState) : KeepsBundle s (backstopCollect w s).st := by
  unfold backstopCollect
  apply keeps_foldl
  · exact KeepsBundle.refl s
  · intro r a h
    exact KeepsBundle.trans _ _ _ h (keeps_collect w r.st [a] none [])

/-- the operations that can touch the bundle fields -/
def Op.touchesBundle : Op → Bool
  | .create _ | .read _ _ | .save | .drop | .rewind => true
  | _ => false

theorem keeps_step (w : World) (s : BState) (op : Op) (h : op.touchesBundle = false) :
    KeepsBundle s (step w s op).st := by
  cases op <;> simp [Op.touchesBundle] at h <;> simp only [step]
  · exact keeps_closeRun ..
  · exact keeps_monitor ..
  · exact keeps_unmonitor ..
  · exact keeps_monitorUpdate ..
  · exact ⟨rfl, rfl, rfl, rfl⟩
  · exact ⟨rfl, rfl, rfl, rfl⟩
  · exact keeps_dropMonitors ..
  · exact keeps_recordInterruption ..
  · exact keeps_resetR ..
  · exact ⟨rfl, rfl, rfl, rfl⟩
  · exact keeps_configure ..
  · exact keeps_declareStream ..
  · exact ⟨rfl, rfl, rfl, rfl⟩
  · exact keeps_collect ..
  · exact keeps_backstopCollect ..
  · exact ⟨rfl, rfl, rfl, rfl⟩
  · exact ⟨rfl, rfl, rfl, rfl⟩

end BlueskyVerif.Bundler
