/-
C13 helper lemmas, part 2: the control blocks of `_run` (`fin`, `takeResp`, `popPlan`, `afterResume`,
`processMsg` / `afterCommand`, `afterSleep`, `hCancel`, `pauseBlock`, `loopTop`, `leaveLoop`, cleanup) keep the
plan stack and the response stack in step, and `runLoop` / `advanceAt` hand back a state that satisfies `PcInv`.
-/
import BlueskyVerif.Lemmas.C13Stack

namespace BlueskyVerif.Engine

/-- what a block hands on: at the loop top nothing is in flight; at a suspension point `PcInv` holds -/
def Flow.Bal : Flow → Prop
  | .loopTop s => Engine.Bal false s
  | .stop s => PcInv s

theorem afterCommand_bal (m : Msg) (p : EState × CmdOut) (h : Bal true p.1)
    (hpc : ∀ pc, p.2 = .suspend pc → inCmd pc = true) : (afterCommand m p).Bal := by
  obtain ⟨s, o⟩ := p
  cases o with
  | value r => exact fin_bal r h
  | raised e => exact fin_bal _ h
  | suspend pc =>
    simp only [afterCommand, Flow.Bal]
    have hb : Bal true { s with pc := pc, curMsg := some m } := h
    exact ⟨hb.stackInv, fun _ => hpc pc rfl⟩

theorem processMsg_bal (s : EState) (m : Msg) (h : Bal true s) : (processMsg s m).Bal := by
  unfold processMsg
  simp only []
  have hn : Bal true (noteMsg s m) := (grow_of_stk (stk_noteMsg s m)).bal h
  split
  · exact fin_bal _ hn
  · apply afterCommand_bal
    · exact (runCommand_grow _ m).bal hn
    · intro pc hpc
      exact runCommand_suspend_pc (noteMsg s m) m pc (runCommand (noteMsg s m) m).1 (Prod.ext rfl hpc)

/-- popping a dead plan: its (in-flight) response slot disappears with it -/
theorem popPlan_bal (s : EState) (how : Option Exc) (h : Bal true s) : (popPlan s how).Bal := by
  have hb : Bal false { s with planStack := s.planStack.tail, resp := none } := by
    refine ⟨rfl, ?_⟩
    have := h.2
    simp only [List.length_tail] at *
    simp at this ⊢
    omega
  unfold popPlan
  simp only []
  split
  · exact leaveLoop_pcinv _ hb
  · split
    · exact hb
    · exact hb

theorem takeResp_bal (s : EState) (r : Resp) (rs : List Resp) (hs : s.respStack = r :: rs) (h : Bal false s) :
    Bal true (takeResp s r rs) := by
  have hb : Bal true { s with respStack := rs, resp := some r } := by
    refine ⟨rfl, ?_⟩
    have := h.2
    rw [hs] at this
    simpa using this
  unfold takeResp
  simp only []
  split
  · exact hb
  · exact hb

theorem logYield_stk (s : EState) (g : Gen) (i : Inp) : stk (logYield s g i) = stk s := by
  unfold logYield; split <;> rfl

theorem logYield_planStack (s : EState) (g : Gen) (i : Inp) : (logYield s g i).planStack = s.planStack :=
  congrArg Stk.plans (logYield_stk s g i)

theorem takeResp_planStack (s : EState) (r : Resp) (rs : List Resp) : (takeResp s r rs).planStack = s.planStack := by
  unfold takeResp; simp only []; split <;> rfl

theorem afterResume_bal (s : EState) (g : Gen) (gs : List Gen) (t : Option Exc) (r : Out × Gen)
    (hp : s.planStack = g :: gs) (h : Bal true s) : (afterResume s gs t r).Bal := by
  obtain ⟨o, g'⟩ := r
  have hb : Bal true { s with planStack := g' :: gs } := by
    refine ⟨h.1, ?_⟩
    have := h.2
    rw [hp] at this
    simpa using this
  cases o with
  | yld m => exact processMsg_bal _ m hb
  | ret => simp only [afterResume]; split <;> exact popPlan_bal _ _ hb
  | raise e =>
    simp only [afterResume]
    split
    · exact popPlan_bal _ _ hb
    · exact leaveLoop_pcinv _ (fin_bal _ hb)

theorem afterSleep_bal (s : EState) (h : Bal false s) : (afterSleep s).Bal := by
  unfold afterSleep
  split
  · rename_i r rs g gs hr hg
    simp only []
    apply afterResume_bal _ g
    · rw [logYield_planStack, takeResp_planStack]; exact hg
    · exact (grow_of_stk (logYield_stk _ _ _)).bal (takeResp_bal s r rs hr h)
  · exact leaveLoop_pcinv _ h

theorem hCancel_bal {b : Bool} (s : EState) (r : Resp) (h : Bal b s) : (hCancel s r).Bal := by
  have e1 : Bal b { s with permit := false } := h
  have e2 : ∀ e : Exc, Bal b { s with stashed := some e } := fun _ => h
  unfold hCancel
  split
  · exact fin_bal r e1
  · split
    · split
      · exact fin_bal r (e2 _)
      · exact fin_bal r h
    · split
      · exact fin_bal r h
      · split
        · exact leaveLoop_pcinv _ (fin_bal r h)
        · split
          · exact fin_bal r (e2 _)
          · exact fin_bal r h

theorem pauseBlock_bal (s : EState) (h : Bal false s) : (pauseBlock s).Bal := by
  unfold pauseBlock
  simp only []
  have h1 : Bal false (pauseHooks (stopMovables (forBundlers s suspendMonitors))) := by
    apply (grow_of_stk _).bal h
    rw [stk_pauseHooks, stk_stopMovables, stk_forBundlers_suspend]
  split
  · exact leaveLoop_pcinv _ h1
  · rename_i s' hs
    have h2 : Bal false s' := setState_bal hs h1
    have h3 : Bal false { s' with blockingEvent := true, pc := .pausedWait } := h2
    exact bal_false_pcinv h3

theorem loopTop_bal (s : EState) (h : Bal false s) : (loopTop s).Bal := by
  unfold loopTop
  split
  · split
    · rename_i s' hs
      have h0 : Bal false { s with permit := true, stashed := some .failedPause } := h
      exact setState_bal hs h0
    · exact leaveLoop_pcinv _ h
  · simp only []
    split
    · exact leaveLoop_pcinv _ h
    · rename_i s' hs
      have hs' : Bal false s' := by
        split at hs
        · exact setState_bal hs h
        · cases hs; exact h
      split
      · exact pauseBlock_bal s' hs'
      · split
        · have h3 : Bal false { s' with pc := .loopSleep, resp := none } := ⟨rfl, hs'.2⟩
          exact bal_false_pcinv h3
        · have h3 : Bal false { s' with resp := none } := ⟨rfl, hs'.2⟩
          exact afterSleep_bal _ h3

/-- the outer `finally` and the end of the task do not touch the stacks (`_plan_stack` is only closed, not
    emptied) -/
theorem cleanup_bal (s : EState) (h : Bal false s) : Bal false (cleanup s) := by
  have h1 : Bal false (cleanupBody s) := bal_of_ctl (cleanupBody_ctl s) h
  unfold cleanup
  simp only []
  split
  · rename_i s' hs; exact setState_bal hs h1
  · exact h1

theorem finishTask_bal (s : EState) (h : Bal false s) : Bal false (finishTask s) := by
  unfold finishTask; exact h

theorem pcinv_resp_none {s : EState} (h : PcInv s) (hpc : inCmd s.pc = false) : Bal false s := by
  have hr : s.resp.isSome = false := by
    cases hs : s.resp.isSome with
    | false => rfl
    | true => have := h.2 hs; rw [hpc] at this; cases this
  have := h.1
  unfold StackInv at this
  rw [hr] at this
  exact ⟨hr, this⟩

theorem stopped_pcinv (s : EState) (h : PcInv s) :
    PcInv (if s.pc == .finished then finishTask (cleanup s) else s) := by
  split
  · rename_i hf
    have hpc : s.pc = .finished := by simpa using hf
    have hb := pcinv_resp_none h (by rw [hpc]; rfl)
    exact bal_false_pcinv (finishTask_bal _ (cleanup_bal _ hb))
  · exact h

theorem runLoop_pcinv (n : Nat) (s : EState) (h : Bal false s) : PcInv (runLoop n s) := by
  induction n generalizing s with
  | zero =>
    have h1 : Bal false { s with refused := s.refused ++ ["fuel"] } := h
    exact bal_false_pcinv h1
  | succ n ih =>
    unfold runLoop
    have := loopTop_bal s h
    split
    · rename_i s' heq
      rw [heq] at this
      exact stopped_pcinv s' this
    · rename_i s' heq
      rw [heq] at this
      exact ih s' this

theorem contFlow_pcinv (n : Nat) (f : Flow) (h : f.Bal) : PcInv (contFlow n f) := by
  cases f with
  | loopTop s => exact runLoop_pcinv n s h
  | stop s => exact stopped_pcinv s h

/-- ONE resumption of `_run` (from any suspension point, with or without a pending cancellation) re-establishes
    the invariant at the next suspension point. -/
theorem advanceAt_pcinv (n : Nat) (c : Bool) (s : EState) (h : PcInv s) : PcInv (advanceAt n c s) := by
  have hsb := h.1.bal
  unfold advanceAt
  split
  · exact h
  · exact h
  · -- start
    rename_i hpc
    have hb : Bal false s := pcinv_resp_none h (by rw [hpc]; rfl)
    split
    · exact h
    · have h0 : Bal false { s with stashed := none, reason := "", exitReason := "", exitExc := none, planDone := false } := hb
      split
      · rename_i s' hs; exact runLoop_pcinv _ _ (setState_bal hs h0)
      · exact contFlow_pcinv _ _ (leaveLoop_pcinv _ hb)
  · -- loopSleep
    rename_i hpc
    have hb : Bal false s := pcinv_resp_none h (by rw [hpc]; rfl)
    split
    · exact contFlow_pcinv _ _ (hCancel_bal _ _ hb)
    · exact contFlow_pcinv _ _ (afterSleep_bal _ hb)
  · -- inSleep
    split
    · exact contFlow_pcinv _ _ (hCancel_bal _ _ hsb)
    · exact runLoop_pcinv _ _ (fin_bal _ hsb)
  · -- inCkptSleep
    split
    · exact contFlow_pcinv _ _ (hCancel_bal _ _ hsb)
    · split
      · rename_i s' hs
        exact runLoop_pcinv _ _ (fin_bal _ ((grow_of_stk (stk_requestPause hs)).bal hsb))
      · exact runLoop_pcinv _ _ (fin_bal _ hsb)
  · -- inWait
    split
    · exact contFlow_pcinv _ _ (hCancel_bal _ _ hsb)
    · simp only []
      split
      · exact runLoop_pcinv _ _ (fin_bal _ hsb)
      · split
        · have h0 : ∀ gg, Bal s.resp.isSome { s with groups := gg } := fun _ => hsb
          exact runLoop_pcinv _ _ (fin_bal _ (h0 _))
        · exact h
  · -- inWaitFor
    split
    · exact contFlow_pcinv _ _ (hCancel_bal _ _ hsb)
    · split
      · exact runLoop_pcinv _ _ (fin_bal _ hsb)
      · exact h
  · -- pausedWait
    rename_i hpc
    have hb : Bal false s := pcinv_resp_none h (by rw [hpc]; rfl)
    split
    · exact h
    · split
      · exact contFlow_pcinv _ _ (leaveLoop_pcinv _ hb)
      · simp only []
        have hr : Bal false (forBundlers s restoreMonitors) :=
          (grow_of_stk (stk_forBundlers_restore s)).bal hb
        split
        · exact contFlow_pcinv _ _ (leaveLoop_pcinv _ hr)
        · rename_i s' hs
          have hs' : Bal false s' := by
            split at hs
            · exact setState_bal hs hr
            · cases hs; exact hr
          split
          · have h3 : Bal false { s' with pc := .loopSleep, resp := none } := ⟨rfl, hs'.2⟩
            exact bal_false_pcinv h3
          · have h3 : Bal false { s' with resp := none } := ⟨rfl, hs'.2⟩
            exact contFlow_pcinv _ _ (afterSleep_bal _ h3)
  · -- exitSleep
    rename_i hpc
    have hb : Bal false s := pcinv_resp_none h (by rw [hpc]; rfl)
    have h0 : Bal false (if c then { s with stashed := some .cancelled, exitExc := some .cancelled } else s) := by
      split
      · exact hb
      · exact hb
    exact bal_false_pcinv (finishTask_bal _ (cleanup_bal _ h0))

theorem advance_pcinv (n : Nat) (s : EState) (h : PcInv s) : PcInv (advance n s) := by
  unfold advance
  apply advanceAt_pcinv
  exact h

end BlueskyVerif.Engine
