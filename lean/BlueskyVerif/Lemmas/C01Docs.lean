/-
C01: well-formed document streams.  Pure part: predicates on document lists, the abstract invariant
`DocInv` (documents / run counter / device subscriptions / bundler views) and the "moves" that preserve it.
Nothing here mentions the engine state; Lemmas/C01View.lean connects it to `EState`.
-/
import BlueskyVerif.Engine.Types

namespace BlueskyVerif.Engine

/-! ## association lists -/

theorem assocGet_assocSet {β} (k k' : String) (v : β) (l : List (String × β)) :
    assocGet k' (assocSet k v l) = if k' = k then some v else assocGet k' l := by
  induction l with
  | nil =>
    simp only [assocSet, assocGet]
    by_cases h : k = k'
    · subst h; simp
    · have h' : ¬ k' = k := fun e => h e.symm
      simp [h, h']
  | cons p l ih =>
    obtain ⟨a, b⟩ := p
    simp only [assocSet]
    by_cases h : a = k
    · subst h
      simp only [if_true, assocGet]
      by_cases h2 : a = k'
      · subst h2; simp
      · have h2' : ¬ k' = a := fun e => h2 e.symm
        simp [h2, h2']
    · simp only [h, if_false, assocGet]
      by_cases h2 : a = k'
      · subst h2
        simp [h]
      · simp only [h2, if_false]; exact ih

theorem assocGet_assocSet_ne {β} {k k' : String} (h : k' ≠ k) (v : β) (l : List (String × β)) :
    assocGet k' (assocSet k v l) = assocGet k' l := by
  rw [assocGet_assocSet, if_neg h]

theorem assocGet_assocErase_ne {β} {k k' : String} (h : k' ≠ k) (l : List (String × β)) :
    assocGet k' (assocErase k l) = assocGet k' l := by
  induction l with
  | nil => rfl
  | cons p l ih =>
    obtain ⟨a, b⟩ := p
    simp only [assocErase]
    by_cases h1 : a = k
    · subst h1
      have : ¬ a = k' := fun e => h e.symm
      simp [assocGet, this]
    · simp only [h1, if_false, assocGet]
      by_cases h2 : a = k'
      · simp [h2]
      · simp only [h2, if_false]; exact ih

/-- the first entry with key `k`: everything the assoc operations do happens there -/
theorem assocGet_split {β} {k : String} {l : List (String × β)} {v : β} (h : assocGet k l = some v) :
    ∃ pre post, l = pre ++ (k, v) :: post ∧ (∀ v', assocSet k v' l = pre ++ (k, v') :: post) ∧
      assocErase k l = pre ++ post := by
  induction l with
  | nil => simp [assocGet] at h
  | cons p l ih =>
    obtain ⟨a, b⟩ := p
    simp only [assocGet] at h
    by_cases h1 : a = k
    · subst h1
      simp only [if_true, Option.some.injEq] at h
      subst h
      exact ⟨[], l, rfl, fun v' => by simp [assocSet], by simp [assocErase]⟩
    · simp only [h1, if_false] at h
      obtain ⟨pre, post, e1, e2, e3⟩ := ih h
      refine ⟨(a, b) :: pre, post, by rw [e1]; rfl, fun v' => ?_, ?_⟩
      · simp only [assocSet, h1, if_false, e2 v']; rfl
      · simp only [assocErase, h1, if_false, e3]; rfl

theorem assocGet_mem {β} {k : String} {l : List (String × β)} {v : β} (h : assocGet k l = some v) : (k, v) ∈ l := by
  obtain ⟨pre, post, e, _, _⟩ := assocGet_split h
  rw [e]; simp

theorem assocGet_none_of_not_mem {β} {k : String} {l : List (String × β)} (h : ∀ p ∈ l, p.1 ≠ k) : assocGet k l = none := by
  induction l with
  | nil => rfl
  | cons p l ih =>
    obtain ⟨a, b⟩ := p
    have h1 : a ≠ k := h (a, b) (by simp)
    simp only [assocGet, h1, if_false]
    exact ih (fun p hp => h p (by simp [hp]))

theorem assocGet_isSome_of_mem {β} {k : String} {l : List (String × β)} {v : β} (h : (k, v) ∈ l) : (assocGet k l).isSome = true := by
  induction l with
  | nil => cases h
  | cons p l ih =>
    obtain ⟨a, b⟩ := p
    simp only [assocGet]
    by_cases h1 : a = k
    · simp [h1]
    · simp only [h1, if_false]
      rcases List.mem_cons.mp h with e | e
      · cases e; exact absurd rfl h1
      · exact ih e

theorem mem_assocErase {β} {k : String} {l : List (String × β)} {p : String × β} (h : p ∈ assocErase k l) : p ∈ l := by
  induction l with
  | nil => cases h
  | cons q l ih =>
    obtain ⟨a, b⟩ := q
    simp only [assocErase] at h
    by_cases h1 : a = k
    · simp only [h1, if_true] at h; exact List.mem_cons_of_mem _ h
    · simp only [h1, if_false] at h
      rcases List.mem_cons.mp h with e | e
      · rw [e]; exact List.mem_cons_self
      · exact List.mem_cons_of_mem _ (ih e)

/-! ## predicates on document lists -/

def started (ds : List Doc) (r : Nat) : Prop := ∃ d ∈ ds, d.kind = "start" ∧ d.run = r
def stopped (ds : List Doc) (r : Nat) : Prop := ∃ d ∈ ds, d.kind = "stop" ∧ d.run = r
def described (ds : List Doc) (r : Nat) (st : String) : Prop :=
  ∃ d ∈ ds, d.kind = "descriptor" ∧ d.run = r ∧ d.stream = st

theorem started_snoc (ds : List Doc) (d : Doc) (r : Nat) :
    started (ds ++ [d]) r ↔ started ds r ∨ (d.kind = "start" ∧ d.run = r) := by
  unfold started
  constructor
  · rintro ⟨x, hx, h⟩
    rcases List.mem_append.mp hx with hx | hx
    · exact Or.inl ⟨x, hx, h⟩
    · simp only [List.mem_singleton] at hx; subst hx; exact Or.inr h
  · rintro (⟨x, hx, h⟩ | h)
    · exact ⟨x, List.mem_append_left _ hx, h⟩
    · exact ⟨d, by simp, h⟩

theorem stopped_snoc (ds : List Doc) (d : Doc) (r : Nat) :
    stopped (ds ++ [d]) r ↔ stopped ds r ∨ (d.kind = "stop" ∧ d.run = r) := by
  unfold stopped
  constructor
  · rintro ⟨x, hx, h⟩
    rcases List.mem_append.mp hx with hx | hx
    · exact Or.inl ⟨x, hx, h⟩
    · simp only [List.mem_singleton] at hx; subst hx; exact Or.inr h
  · rintro (⟨x, hx, h⟩ | h)
    · exact ⟨x, List.mem_append_left _ hx, h⟩
    · exact ⟨d, by simp, h⟩

theorem described_mono {ds : List Doc} {r : Nat} {st : String} (d : Doc) (h : described ds r st) :
    described (ds ++ [d]) r st := by
  obtain ⟨x, hx, h⟩ := h
  exact ⟨x, List.mem_append_left _ hx, h⟩

theorem described_last (ds : List Doc) (d : Doc) (h : d.kind = "descriptor") : described (ds ++ [d]) d.run d.stream :=
  ⟨d, by simp, h, rfl, rfl⟩

theorem started_mono {ds : List Doc} {r : Nat} (d : Doc) (h : started ds r) : started (ds ++ [d]) r :=
  (started_snoc ds d r).mpr (Or.inl h)

/-- what the next document may be, given the documents emitted so far -/
def okNext (ds : List Doc) (d : Doc) : Prop :=
  (d.kind = "start" ∧ ∀ d' ∈ ds, d'.run ≠ d.run) ∨
  (d.kind = "descriptor" ∧ started ds d.run ∧ ¬ stopped ds d.run) ∨
  (d.kind = "event" ∧ started ds d.run ∧ ¬ stopped ds d.run ∧ described ds d.run d.stream) ∨
  (d.kind = "stop" ∧ started ds d.run ∧ ¬ stopped ds d.run)

/-- well-formed document stream: built by appending admissible documents -/
inductive WF : List Doc → Prop where
  | nil : WF []
  | snoc {ds : List Doc} {d : Doc} : WF ds → okNext ds d → WF (ds ++ [d])

/-! ## the bundler as far as documents are concerned -/

structure BV where
  runId : Nat
  runOpen : Bool
  descs : List (String × List String)
  recordInt : Bool
  monitors : List (String × String)

/-- the bundler believes that a descriptor of stream `st` has been emitted -/
def knows (v : BV) (st : String) : Prop :=
  (assocGet st v.descs).isSome = true ∨ (v.recordInt = true ∧ st = "interruptions") ∨ ∃ sig, (sig, st) ∈ v.monitors

/-- The invariant: `docs` emitted so far, `nr` the next fresh run index, `subs` the engine callbacks
    registered on each device, `bs` the registered bundlers. -/
structure DocInv (docs : List Doc) (nr : Nat) (subs : String → List (Nat × String)) (bs : List BV) : Prop where
  wf : WF docs
  lt : ∀ d ∈ docs, d.run < nr
  bsLt : ∀ v ∈ bs, v.runId < nr
  openOk : ∀ v ∈ bs, v.runOpen = true → started docs v.runId ∧ ¬ stopped docs v.runId
  covered : ∀ r, started docs r → ¬ stopped docs r → ∃ v ∈ bs, v.runOpen = true ∧ v.runId = r
  distinct : (bs.map (·.runId)).Pairwise (· ≠ ·)
  desc : ∀ v ∈ bs, ∀ st, knows v st → described docs v.runId st
  subsOk : ∀ n, ∀ p ∈ subs n, described docs p.1 p.2

theorem DocInv.init (subs : String → List (Nat × String)) (h : ∀ n, subs n = []) : DocInv [] 0 subs [] where
  wf := WF.nil
  lt := by intro d hd; cases hd
  bsLt := by intro v hv; cases hv
  openOk := by intro v hv; cases hv
  covered := by rintro r ⟨d, hd, _⟩; cases hd
  distinct := List.Pairwise.nil
  desc := by intro v hv; cases hv
  subsOk := by intro n p hp; rw [h n] at hp; cases hp

/-- a descriptor or an event (of a described stream) for a registered open bundler -/
theorem DocInv.emit_open {docs nr subs bs} (h : DocInv docs nr subs bs) {v : BV} (hv : v ∈ bs) (ho : v.runOpen = true)
    (d : Doc) (hr : d.run = v.runId)
    (hk : d.kind = "descriptor" ∨ (d.kind = "event" ∧ described docs d.run d.stream)) :
    DocInv (docs ++ [d]) nr subs bs := by
  obtain ⟨hst, hnst⟩ := h.openOk v hv ho
  have hns : ¬ d.kind = "stop" := by rcases hk with hk | ⟨hk, _⟩ <;> rw [hk] <;> decide
  have hnst' : ¬ d.kind = "start" := by rcases hk with hk | ⟨hk, _⟩ <;> rw [hk] <;> decide
  have hstop : ∀ r, stopped (docs ++ [d]) r ↔ stopped docs r := by
    intro r; rw [stopped_snoc]; constructor
    · rintro (h | ⟨h, _⟩)
      · exact h
      · exact absurd h hns
    · exact Or.inl
  have hstart : ∀ r, started (docs ++ [d]) r ↔ started docs r := by
    intro r; rw [started_snoc]; constructor
    · rintro (h | ⟨h, _⟩)
      · exact h
      · exact absurd h hnst'
    · exact Or.inl
  refine ⟨?_, ?_, h.bsLt, ?_, ?_, h.distinct, ?_, ?_⟩
  · apply WF.snoc h.wf
    rcases hk with hk | ⟨hk, hd⟩
    · exact Or.inr (Or.inl ⟨hk, hr ▸ hst, hr ▸ hnst⟩)
    · exact Or.inr (Or.inr (Or.inl ⟨hk, hr ▸ hst, hr ▸ hnst, hd⟩))
  · intro x hx
    rcases List.mem_append.mp hx with hx | hx
    · exact h.lt x hx
    · simp only [List.mem_singleton] at hx; subst hx; rw [hr]; exact h.bsLt v hv
  · intro w hw hwo
    rw [hstart, hstop]; exact h.openOk w hw hwo
  · intro r h1 h2
    rw [hstart] at h1; rw [hstop] at h2; exact h.covered r h1 h2
  · intro w hw st hk; exact described_mono d (h.desc w hw st hk)
  · intro n p hp; exact described_mono d (h.subsOk n p hp)

/-- replace one bundler by one with the same run, the same openness and no unjustified belief -/
theorem DocInv.replace {docs nr subs} {pre post : List BV} {v : BV} (h : DocInv docs nr subs (pre ++ v :: post))
    (v' : BV) (hid : v'.runId = v.runId) (hop : v'.runOpen = v.runOpen)
    (hk : ∀ st, knows v' st → knows v st ∨ described docs v.runId st) :
    DocInv docs nr subs (pre ++ v' :: post) := by
  have hmem : ∀ w ∈ pre ++ v' :: post, w = v' ∨ w ∈ pre ++ v :: post := by
    intro w hw
    rcases List.mem_append.mp hw with hw | hw
    · exact Or.inr (List.mem_append_left _ hw)
    · rcases List.mem_cons.mp hw with hw | hw
      · exact Or.inl hw
      · exact Or.inr (List.mem_append_right _ (List.mem_cons_of_mem _ hw))
  have hvm : v ∈ pre ++ v :: post := by simp
  refine ⟨h.wf, h.lt, ?_, ?_, ?_, ?_, ?_, h.subsOk⟩
  · intro w hw
    rcases hmem w hw with e | hw
    · rw [e, hid]; exact h.bsLt v hvm
    · exact h.bsLt w hw
  · intro w hw hwo
    rcases hmem w hw with e | hw
    · subst e; rw [hid]; exact h.openOk v hvm (hop ▸ hwo)
    · exact h.openOk w hw hwo
  · intro r h1 h2
    obtain ⟨w, hw, hwo, hwr⟩ := h.covered r h1 h2
    rcases List.mem_append.mp hw with hw | hw
    · exact ⟨w, List.mem_append_left _ hw, hwo, hwr⟩
    · rcases List.mem_cons.mp hw with hw | hw
      · subst hw
        exact ⟨v', by simp, hop.trans hwo, hid.trans hwr⟩
      · exact ⟨w, List.mem_append_right _ (List.mem_cons_of_mem _ hw), hwo, hwr⟩
  · have := h.distinct
    simp only [List.map_append, List.map_cons] at this ⊢
    rw [hid]; exact this
  · intro w hw st hkn
    rcases hmem w hw with e | hw
    · subst e
      rw [hid]
      rcases hk st hkn with h1 | h1
      · exact h.desc v hvm st h1
      · exact h1
    · exact h.desc w hw st hkn

/-- the callbacks registered on the devices change: new ones are justified by a descriptor -/
theorem DocInv.setSubs {docs nr subs bs} (h : DocInv docs nr subs bs) (subs' : String → List (Nat × String))
    (hs : ∀ n, ∀ p ∈ subs' n, p ∈ subs n ∨ described docs p.1 p.2) : DocInv docs nr subs' bs := by
  refine ⟨h.wf, h.lt, h.bsLt, h.openOk, h.covered, h.distinct, h.desc, ?_⟩
  intro n p hp
  rcases hs n p hp with h1 | h1
  · exact h.subsOk n p h1
  · exact h1

/-- `open_run`: the RunStart with the fresh index, and a new bundler that believes nothing yet -/
theorem DocInv.openRun {docs nr subs bs} (h : DocInv docs nr subs bs) (d : Doc) (hk : d.kind = "start") (hr : d.run = nr)
    (v : BV) (hid : v.runId = nr) (ho : v.runOpen = true) (hnk : ∀ st, ¬ knows v st) :
    DocInv (docs ++ [d]) (nr + 1) subs (bs ++ [v]) := by
  have hfresh : ∀ x ∈ docs, x.run ≠ nr := fun x hx e => by have := h.lt x hx; omega
  have hnstop : ¬ d.kind = "stop" := by rw [hk]; decide
  have hstop : ∀ r, stopped (docs ++ [d]) r ↔ stopped docs r := by
    intro r; rw [stopped_snoc]; constructor
    · rintro (h | ⟨h, _⟩)
      · exact h
      · exact absurd h hnstop
    · exact Or.inl
  have hnot_started : ¬ started docs nr := by
    rintro ⟨x, hx, _, e⟩; exact hfresh x hx e
  have hnot_stopped : ¬ stopped docs nr := by
    rintro ⟨x, hx, _, e⟩; exact hfresh x hx e
  refine ⟨?_, ?_, ?_, ?_, ?_, ?_, ?_, ?_⟩
  · exact WF.snoc h.wf (Or.inl ⟨hk, by rw [hr]; exact hfresh⟩)
  · intro x hx
    rcases List.mem_append.mp hx with hx | hx
    · have := h.lt x hx; omega
    · simp only [List.mem_singleton] at hx; subst hx; omega
  · intro w hw
    rcases List.mem_append.mp hw with hw | hw
    · have := h.bsLt w hw; omega
    · simp only [List.mem_singleton] at hw; subst hw; omega
  · intro w hw hwo
    rcases List.mem_append.mp hw with hw | hw
    · obtain ⟨h1, h2⟩ := h.openOk w hw hwo
      exact ⟨started_mono d h1, by rw [hstop]; exact h2⟩
    · simp only [List.mem_singleton] at hw; subst hw
      rw [hid]
      exact ⟨(started_snoc _ _ _).mpr (Or.inr ⟨hk, hr⟩), by rw [hstop]; exact hnot_stopped⟩
  · intro r h1 h2
    rw [hstop] at h2
    rcases (started_snoc _ _ _).mp h1 with h1 | ⟨_, e⟩
    · obtain ⟨w, hw, hwo, hwr⟩ := h.covered r h1 h2
      exact ⟨w, List.mem_append_left _ hw, hwo, hwr⟩
    · exact ⟨v, by simp, ho, by rw [hid, ← hr, e]⟩
  · simp only [List.map_append, List.map_cons, List.map_nil]
    rw [List.pairwise_append]
    refine ⟨h.distinct, List.pairwise_singleton _ _, ?_⟩
    intro a ha b hb
    simp only [List.mem_singleton] at hb; subst hb
    obtain ⟨w, hw, rfl⟩ := List.mem_map.mp ha
    have := h.bsLt w hw
    rw [hid]; omega
  · intro w hw st hkn
    rcases List.mem_append.mp hw with hw | hw
    · exact described_mono d (h.desc w hw st hkn)
    · simp only [List.mem_singleton] at hw; subst hw
      exact absurd hkn (hnk st)
  · intro n p hp; exact described_mono d (h.subsOk n p hp)

/-- `close_run`: the RunStop of a registered open bundler, which becomes closed -/
theorem DocInv.closeRun {docs nr subs} {pre post : List BV} {v : BV} (h : DocInv docs nr subs (pre ++ v :: post))
    (ho : v.runOpen = true) (d : Doc) (hk : d.kind = "stop") (hr : d.run = v.runId)
    (v' : BV) (hid : v'.runId = v.runId) (hcl : v'.runOpen = false) (hkn : ∀ st, knows v' st → knows v st) :
    DocInv (docs ++ [d]) nr subs (pre ++ v' :: post) := by
  have hvm : v ∈ pre ++ v :: post := by simp
  obtain ⟨hst, hnst⟩ := h.openOk v hvm ho
  have hns : ¬ d.kind = "start" := by rw [hk]; decide
  have hstart : ∀ r, started (docs ++ [d]) r ↔ started docs r := by
    intro r; rw [started_snoc]; constructor
    · rintro (h | ⟨h, _⟩)
      · exact h
      · exact absurd h hns
    · exact Or.inl
  have hstop : ∀ r, stopped (docs ++ [d]) r ↔ stopped docs r ∨ r = v.runId := by
    intro r; rw [stopped_snoc]; constructor
    · rintro (h | ⟨_, e⟩)
      · exact Or.inl h
      · exact Or.inr (by rw [← e, hr])
    · rintro (h | e)
      · exact Or.inl h
      · exact Or.inr ⟨hk, by rw [e, hr]⟩
  have hdist := h.distinct
  simp only [List.map_append, List.map_cons] at hdist
  rw [List.pairwise_append] at hdist
  obtain ⟨_, hd2, hd3⟩ := hdist
  rw [List.pairwise_cons] at hd2
  -- the other bundlers have a different run
  have hother : ∀ w, w ∈ pre ∨ w ∈ post → w.runId ≠ v.runId := by
    intro w hw
    rcases hw with hw | hw
    · exact hd3 _ (List.mem_map_of_mem hw) _ (by simp)
    · exact fun e => hd2.1 _ (List.mem_map_of_mem hw) e.symm
  have hmem : ∀ w ∈ pre ++ v' :: post, w = v' ∨ ((w ∈ pre ∨ w ∈ post) ∧ w ∈ pre ++ v :: post) := by
    intro w hw
    rcases List.mem_append.mp hw with hw | hw
    · exact Or.inr ⟨Or.inl hw, List.mem_append_left _ hw⟩
    · rcases List.mem_cons.mp hw with hw | hw
      · exact Or.inl hw
      · exact Or.inr ⟨Or.inr hw, List.mem_append_right _ (List.mem_cons_of_mem _ hw)⟩
  refine ⟨?_, ?_, ?_, ?_, ?_, ?_, ?_, ?_⟩
  · exact WF.snoc h.wf (Or.inr (Or.inr (Or.inr ⟨hk, hr ▸ hst, hr ▸ hnst⟩)))
  · intro x hx
    rcases List.mem_append.mp hx with hx | hx
    · exact h.lt x hx
    · simp only [List.mem_singleton] at hx; subst hx; rw [hr]; exact h.bsLt v hvm
  · intro w hw
    rcases hmem w hw with e | ⟨_, hw⟩
    · rw [e, hid]; exact h.bsLt v hvm
    · exact h.bsLt w hw
  · intro w hw hwo
    rcases hmem w hw with e | ⟨hw1, hw⟩
    · subst e; rw [hcl] at hwo; cases hwo
    · obtain ⟨h1, h2⟩ := h.openOk w hw hwo
      refine ⟨(hstart _).mpr h1, ?_⟩
      rw [hstop]
      rintro (h3 | h3)
      · exact h2 h3
      · exact hother w hw1 h3
  · intro r h1 h2
    rw [hstart] at h1
    rw [hstop] at h2
    have h2a : ¬ stopped docs r := fun x => h2 (Or.inl x)
    have h2b : r ≠ v.runId := fun x => h2 (Or.inr x)
    obtain ⟨w, hw, hwo, hwr⟩ := h.covered r h1 h2a
    rcases List.mem_append.mp hw with hw | hw
    · exact ⟨w, List.mem_append_left _ hw, hwo, hwr⟩
    · rcases List.mem_cons.mp hw with hw | hw
      · subst hw; exact absurd hwr.symm h2b
      · exact ⟨w, List.mem_append_right _ (List.mem_cons_of_mem _ hw), hwo, hwr⟩
  · have := h.distinct
    simp only [List.map_append, List.map_cons] at this ⊢
    rw [hid]; exact this
  · intro w hw st hkw
    rcases hmem w hw with e | ⟨_, hw⟩
    · subst e; rw [hid]; exact described_mono d (h.desc v hvm st (hkn st hkw))
    · exact described_mono d (h.desc w hw st hkw)
  · intro n p hp; exact described_mono d (h.subsOk n p hp)

/-- a closed bundler can be forgotten -/
theorem DocInv.dropClosed {docs nr subs} {pre post : List BV} {v : BV} (h : DocInv docs nr subs (pre ++ v :: post))
    (hc : v.runOpen = false) : DocInv docs nr subs (pre ++ post) := by
  have hsub : ∀ w ∈ pre ++ post, w ∈ pre ++ v :: post := by
    intro w hw
    rcases List.mem_append.mp hw with hw | hw
    · exact List.mem_append_left _ hw
    · exact List.mem_append_right _ (List.mem_cons_of_mem _ hw)
  refine ⟨h.wf, h.lt, fun w hw => h.bsLt w (hsub w hw), fun w hw => h.openOk w (hsub w hw), ?_, ?_,
    fun w hw => h.desc w (hsub w hw), h.subsOk⟩
  · intro r h1 h2
    obtain ⟨w, hw, hwo, hwr⟩ := h.covered r h1 h2
    rcases List.mem_append.mp hw with hw | hw
    · exact ⟨w, List.mem_append_left _ hw, hwo, hwr⟩
    · rcases List.mem_cons.mp hw with hw | hw
      · subst hw; rw [hc] at hwo; cases hwo
      · exact ⟨w, List.mem_append_right _ hw, hwo, hwr⟩
  · have := h.distinct
    simp only [List.map_append, List.map_cons] at this ⊢
    rw [List.pairwise_append] at this ⊢
    obtain ⟨h1, h2, h3⟩ := this
    rw [List.pairwise_cons] at h2
    exact ⟨h1, h2.2, fun a ha b hb => h3 a ha b (List.mem_cons_of_mem _ hb)⟩

/-- when every registered bundler is closed, all of them can be forgotten (`_run_bundlers.clear()`) -/
theorem DocInv.clear {docs nr subs bs} (h : DocInv docs nr subs bs) (hc : ∀ v ∈ bs, v.runOpen = false) :
    DocInv docs nr subs [] := by
  refine ⟨h.wf, h.lt, ?_, ?_, ?_, List.Pairwise.nil, ?_, h.subsOk⟩
  · intro v hv; cases hv
  · intro v hv; cases hv
  · intro r h1 h2
    obtain ⟨w, hw, hwo, _⟩ := h.covered r h1 h2
    rw [hc w hw] at hwo; cases hwo
  · intro v hv; cases hv

/-- with no bundler registered every started run has been stopped -/
theorem DocInv.all_stopped {docs nr subs} (h : DocInv docs nr subs []) : ∀ r, started docs r → stopped docs r := by
  intro r h1
  apply Classical.byContradiction
  intro h2
  obtain ⟨w, hw, _⟩ := h.covered r h1 h2
  cases hw

end BlueskyVerif.Engine
