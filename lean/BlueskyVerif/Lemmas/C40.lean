/-
C40 helper lemmas: what the data operations of the engine model do to the document log, and
the numbering invariant of the 'interruptions' stream of one bundler.
-/
import BlueskyVerif.Lemmas.C40Assoc
import BlueskyVerif.Lemmas.EngineFrame

namespace BlueskyVerif.Engine

/-! ## the document log is untouched by device / checkpoint bookkeeping -/

@[simp] theorem docs_logCall (s : EState) (c : Call) : (s.logCall c).docs = s.docs := rfl
@[simp] theorem docs_setDev (s : EState) (n : String) (d : DevState) : (setDev s n d).docs = s.docs := rfl
@[simp] theorem docs_nextMode (s : EState) (n op : String) : (nextMode s n op).2.docs = s.docs := rfl
@[simp] theorem docs_emit (s : EState) (d : Doc) : (s.emit d).docs = s.docs ++ [d] := rfl

theorem docs_foldl {α} (f : EState → α → EState) (h : ∀ s a, (f s a).docs = s.docs) (l : List α) (s : EState) :
    (l.foldl f s).docs = s.docs := by
  induction l generalizing s with
  | nil => rfl
  | cons a l ih => rw [List.foldl_cons, ih, h]

/-- `forBundlers` with a function whose documents and new bundler depend on the bundler only -/
theorem forBundlers_go_spec (f : EState → Bundler → EState × Bundler) (g : Bundler → List Doc) (h : Bundler → Bundler)
    (hd : ∀ s b, (f s b).1.docs = s.docs ++ g b) (hb : ∀ s b, (f s b).2 = h b)
    (todo done : List (String × Bundler)) (s : EState) :
    (forBundlers.go f s todo done).docs = s.docs ++ todo.flatMap (fun kb => g kb.2) ∧
    (forBundlers.go f s todo done).bundlers = done.reverse ++ todo.map (fun kb => (kb.1, h kb.2)) := by
  induction todo generalizing s done with
  | nil => simp [forBundlers.go]
  | cons kb rest ih =>
    obtain ⟨k, b⟩ := kb
    unfold forBundlers.go
    simp only []
    have := ih ((k, (f s b).2) :: done) (f s b).1
    rw [this.1, this.2, hd, hb]
    simp

theorem forBundlers_docs (f : EState → Bundler → EState × Bundler) (g : Bundler → List Doc) (h : Bundler → Bundler)
    (hd : ∀ s b, (f s b).1.docs = s.docs ++ g b) (hb : ∀ s b, (f s b).2 = h b) (s : EState) :
    (forBundlers s f).docs = s.docs ++ s.bundlers.flatMap (fun kb => g kb.2) :=
  (forBundlers_go_spec f g h hd hb s.bundlers [] s).1

theorem forBundlers_bundlers (f : EState → Bundler → EState × Bundler) (g : Bundler → List Doc) (h : Bundler → Bundler)
    (hd : ∀ s b, (f s b).1.docs = s.docs ++ g b) (hb : ∀ s b, (f s b).2 = h b) (s : EState) :
    (forBundlers s f).bundlers = s.bundlers.map (fun kb => (kb.1, h kb.2)) := by
  have := (forBundlers_go_spec f g h hd hb s.bundlers [] s).2
  simpa [forBundlers] using this

theorem forBundlers_pure_docs (s : EState) (h : Bundler → Bundler) :
    (forBundlers s (fun s b => (s, h b))).docs = s.docs := by
  have := forBundlers_docs (fun s b => (s, h b)) (fun _ => []) h (fun s b => by simp) (fun _ _ => rfl) s
  have e : s.bundlers.flatMap (fun _ => ([] : List Doc)) = [] := by
    rw [List.flatMap_eq_nil_iff]; intro _ _; rfl
  rw [this, e, List.append_nil]

theorem forBundlers_pure_bundlers (s : EState) (h : Bundler → Bundler) :
    (forBundlers s (fun s b => (s, h b))).bundlers = s.bundlers.map (fun kb => (kb.1, h kb.2)) :=
  forBundlers_bundlers (fun s b => (s, h b)) (fun _ => []) h (fun s b => by simp) (fun _ _ => rfl) s

@[simp] theorem docs_resetCheckpointMeth (s : EState) : (resetCheckpointMeth s).docs = s.docs := by
  unfold resetCheckpointMeth; split
  · rfl
  · rw [forBundlers_pure_docs]

@[simp] theorem docs_stopMovables (s : EState) : (stopMovables s).docs = s.docs := by
  unfold stopMovables; apply docs_foldl; intro s x; rfl

@[simp] theorem docs_pauseHooks (s : EState) : (pauseHooks s).docs = s.docs := by
  unfold pauseHooks
  apply docs_foldl
  intro s n
  split
  · split
    · simp only []; split <;> simp
    · rfl
  · rfl

@[simp] theorem docs_resumeHooks (s : EState) : (resumeHooks s).docs = s.docs := by
  unfold resumeHooks
  apply docs_foldl
  intro s n
  split
  · split <;> rfl
  · rfl

@[simp] theorem docs_rewindPlan (s : EState) : (rewindPlan s).2.docs = s.docs := by
  unfold rewindPlan
  simp only []
  split
  · rfl
  · rw [forBundlers_pure_docs]

theorem setState_docs {s s' : EState} {n : St} (h : setState s n = .ok s') : s'.docs = s.docs := by
  unfold setState at h; split at h
  · cases h; rfl
  · cases h

theorem setState_bundlers {s s' : EState} {n : St} (h : setState s n = .ok s') : s'.bundlers = s.bundlers := by
  unfold setState at h; split at h
  · cases h; rfl
  · cases h

/-! ## record_interruption -/

/-- the event `record_interruption(content)` emits for bundler `b` -/
def intEvent (b : Bundler) (content : String) : Doc :=
  { kind := "event", run := b.runId, stream := "interruptions", seq := b.counter "interruptions", data := [], note := content }

/-- the documents `record_interruption(content)` emits for bundler `b` -/
def intDocs (content : String) (b : Bundler) : List Doc := if b.recordInt then [intEvent b content] else []

/-- the bundler after `record_interruption` -/
def intBundler (b : Bundler) : Bundler :=
  if b.recordInt then
    ({ b with seq := assocSet "interruptions" (b.counter "interruptions" + 1) b.seq } : Bundler).commit "interruptions"
  else b

/-- GENERATED fact (bundlers.py, fix "rewind no longer rolls back seq_nums ..."): `record_interruption`
    commits the counter it used -/
theorem record_interruption_commits : Src.bundlerCommits.contains "record_interruption" = true := by decide

theorem bundlerCommits_nonempty : Src.bundlerCommits.isEmpty = false := by decide

theorem recordInterruption_docs (s : EState) (b : Bundler) (c : String) :
    (recordInterruption s b c).1.docs = s.docs ++ intDocs c b := by
  unfold recordInterruption intDocs
  split
  · rfl
  · simp

theorem recordInterruption_bundler (s : EState) (b : Bundler) (c : String) :
    (recordInterruption s b c).2 = intBundler b := by
  unfold recordInterruption intBundler
  split
  · simp only [emitEvent, record_interruption_commits, if_true]
  · rfl

theorem forBundlers_record_docs (s : EState) (c : String) :
    (forBundlers s (fun s b => recordInterruption s b c)).docs = s.docs ++ s.bundlers.flatMap (fun kb => intDocs c kb.2) :=
  forBundlers_docs _ (intDocs c) intBundler (fun s b => recordInterruption_docs s b c)
    (fun s b => recordInterruption_bundler s b c) s

theorem forBundlers_record_bundlers (s : EState) (c : String) :
    (forBundlers s (fun s b => recordInterruption s b c)).bundlers = s.bundlers.map (fun kb => (kb.1, intBundler kb.2)) :=
  forBundlers_bundlers _ (intDocs c) intBundler (fun s b => recordInterruption_docs s b c)
    (fun s b => recordInterruption_bundler s b c) s

/-! ## numbering invariant of the interruptions stream of one bundler -/

/-- `n` interruption events were emitted so far; `ok`: the checkpoint copy of the counter is current -/
structure IInv (ok : Bool) (b : Bundler) (n : Nat) : Prop where
  on : b.recordInt = true
  seq : assocGet "interruptions" b.seq = some (n + 1)
  nd : (keys b.seq).Nodup
  ndc : (keys b.seqCopy).Nodup
  copy : ok = true → assocGet "interruptions" b.seqCopy = some (n + 1)

theorem IInv.counter {ok b n} (h : IInv ok b n) : b.counter "interruptions" = n + 1 := by
  unfold Bundler.counter; rw [h.seq]; rfl

theorem IInv.weaken {ok b n} (h : IInv ok b n) : IInv false b n :=
  { h with copy := fun e => by cases e }

theorem resetCheckpoint_seqCopy (b : Bundler) : b.resetCheckpoint.seqCopy = overlay b.seq b.seqCopy := rfl

theorem IInv.record {ok b n} (h : IInv ok b n) : IInv true (intBundler b) (n + 1) := by
  unfold intBundler
  rw [if_pos h.on]
  unfold Bundler.commit
  rw [bundlerCommits_nonempty]
  simp only [Bool.false_eq_true, if_false, h.counter, assocGet_assocSet_same]
  exact { on := h.on, seq := assocGet_assocSet_same _ _ _, nd := nodup_keys_assocSet _ _ _ h.nd,
          ndc := nodup_keys_assocSet _ _ _ h.ndc, copy := fun _ => assocGet_assocSet_same _ _ _ }

theorem IInv.resetCheckpoint {ok b n} (h : IInv ok b n) : IInv true b.resetCheckpoint n :=
  { on := h.on, seq := h.seq, nd := h.nd,
    ndc := by rw [resetCheckpoint_seqCopy]; exact nodup_keys_overlay _ _ h.ndc,
    copy := fun _ => by rw [resetCheckpoint_seqCopy]; exact overlay_get_mem _ _ _ _ h.nd h.seq }

theorem IInv.clearCheckpoint {ok b n} (h : IInv ok b n) : IInv false { b with seqCopy := [] } n :=
  { on := h.on, seq := h.seq, nd := h.nd, ndc := by simp [keys], copy := fun e => by cases e }

/-- the loop of `rewind` that re-creates counters of streams rolled back to their very beginning -/
theorem rewind_fix (ds : List (String × List String)) (a c : List (String × Nat)) (v : Nat)
    (ha : assocGet "interruptions" a = some v) (hc : assocGet "interruptions" c = some v)
    (na : (keys a).Nodup) (nc : (keys c).Nodup) :
    let r := ds.foldl (fun (acc : List (String × Nat) × List (String × Nat)) (kd : String × List String) =>
      if (assocGet kd.1 acc.1).isNone then (assocSet kd.1 1 acc.1, assocSet kd.1 1 acc.2) else acc) (a, c)
    assocGet "interruptions" r.1 = some v ∧ assocGet "interruptions" r.2 = some v ∧ (keys r.1).Nodup ∧ (keys r.2).Nodup := by
  induction ds generalizing a c with
  | nil => exact ⟨ha, hc, na, nc⟩
  | cons kd ds ih =>
    simp only [List.foldl_cons]
    split
    · rename_i hnone
      have hne : kd.1 ≠ "interruptions" := by
        intro e; rw [e, ha] at hnone; cases hnone
      exact ih _ _ (by rw [assocGet_assocSet_ne _ _ _ _ hne]; exact ha) (by rw [assocGet_assocSet_ne _ _ _ _ hne]; exact hc)
        (nodup_keys_assocSet _ _ _ na) (nodup_keys_assocSet _ _ _ nc)
    · exact ih _ _ ha hc na nc

theorem IInv.rewind {b n} (h : IInv true b n) : IInv true b.rewind n := by
  have := rewind_fix b.descriptors b.seqCopy b.seqCopy (n + 1) (h.copy rfl) (h.copy rfl) h.ndc h.ndc
  exact { on := h.on, seq := this.1, nd := this.2.2.1, ndc := this.2.2.2, copy := fun _ => this.2.1 }

theorem IInv.emitOther {ok b n} (h : IInv ok b n) (s : EState) (st : String) (d : List (String × Int)) (hst : st ≠ "interruptions") :
    IInv ok (emitEvent s b st d).2 n :=
  { on := h.on, seq := by simp only [emitEvent]; rw [assocGet_assocSet_ne _ _ _ _ hst]; exact h.seq,
    nd := nodup_keys_assocSet _ _ _ h.nd, ndc := h.ndc, copy := h.copy }

theorem IInv.commitOther {ok b n} (h : IInv ok b n) (st : String) (hst : st ≠ "interruptions") : IInv ok (b.commit st) n := by
  unfold Bundler.commit
  split
  · exact h
  · split
    · exact { on := h.on, seq := h.seq, nd := h.nd, ndc := nodup_keys_assocSet _ _ _ h.ndc,
              copy := fun e => by simp only []; rw [assocGet_assocSet_ne _ _ _ _ hst]; exact h.copy e }
    · exact h

theorem IInv.prepareOther {ok b n} (h : IInv ok b n) (s : EState) (st : String) (o : List String) (hst : st ≠ "interruptions") :
    IInv ok (prepareStream s b st o).2 n := by
  unfold prepareStream
  simp only []
  split
  · exact { on := h.on, seq := by simp only []; rw [assocGet_assocSet_ne _ _ _ _ hst]; exact h.seq,
            nd := nodup_keys_assocSet _ _ _ h.nd, ndc := nodup_keys_assocSet _ _ _ h.ndc,
            copy := fun e => by simp only []; rw [assocGet_assocSet_ne _ _ _ _ hst]; exact h.copy e }
  · exact { on := h.on, seq := h.seq, nd := h.nd, ndc := h.ndc, copy := h.copy }

end BlueskyVerif.Engine
