/-
C40 helper lemmas: what the data operations of the engine model do to the document log, and
the numbering invariant of the 'interruptions' stream of one bundler.
-/
import BlueskyVerif.Lemmas.C40Assoc
import BlueskyVerif.Lemmas.EngineFrame

namespace BlueskyVerif.Engine

/-! ## the document log is untouched by device / checkpoint bookkeeping -/

@[simp] theorem docs_logCall (s : EState) (c : Call) : (s.logCall c).docs = s.docs := rfl
@[simp] theorem docs_setDev (s : EState) (n : String) (d : DevState) : (setDev s n d).docs = s.docs := rfl
@[simp] theorem docs_nextMode (s : EState) (n op : String) : (nextMode s n op).2.docs = s.docs := rfl
@[simp] theorem docs_emit (s : EState) (d : Doc) : (s.emit d).docs = s.docs ++ [d] := rfl

theorem docs_foldl {α} (f : EState → α → EState) (h : ∀ s a, (f s a).docs = s.docs) (l : List α) (s : EState) :
    (l.foldl f s).docs = s.docs := by
  induction l generalizing s with
  | nil => rfl
  | cons a l ih => rw [List.foldl_cons, ih, h]

/-- `forBundlers` with a function whose documents and new bundler depend on the bundler only -/
theorem forBundlers_go_spec (f : EState → Bundler → EState × Bundler) (g : Bundler → List Doc) (h : Bundler → Bundler)
    (hd : ∀ s b, (f s b).1.docs = s.docs ++ g b) (hb : ∀ s b, (f s b).2 = h b)
    (todo done : List (String × Bundler)) (s : EState) :
    (forBundlers.go f s todo done).docs = s.docs ++ todo.flatMap (fun kb => g kb.2) ∧
    (forBundlers.go f s todo done).bundlers = done.reverse ++ todo.map (fun kb => (kb.1, h kb.2)) := by
  induction todo generalizing s done with
  | nil => simp [forBundlers.go]
  | cons kb rest ih =>
    obtain ⟨k, b⟩ := kb
    unfold forBundlers.go
    simp only []
    have := ih ((k, (f s b).2) :: done) (f s b).1
    rw [this.1, this.2, hd, hb]
    simp

theorem forBundlers_docs (f : EState → Bundler → EState × Bundler) (g : Bundler → List Doc) (h : Bundler → Bundler)
    (hd : ∀ s b, (f s b).1.docs = s.docs ++ g b) (hb : ∀ s b, (f s b).2 = h b) (s : EState) :
    (forBundlers s f).docs = s.docs ++ s.bundlers.flatMap (fun kb => g kb.2) :=
  (forBundlers_go_spec f g h hd hb s.bundlers [] s).1

theorem forBundlers_bundlers (f : EState → Bundler → EState × Bundler) (g : Bundler → List Doc) (h : Bundler → Bundler)
    (hd : ∀ s b, (f s b).1.docs = s.docs ++ g b) (hb : ∀ s b, (f s b).2 = h b) (s : EState) :
    (forBundlers s f).bundlers = s.bundlers.map (fun kb => (kb.1, h kb.2)) := by
  have := (forBundlers_go_spec f g h hd hb s.bundlers [] s).2
  simpa [forBundlers] using this

theorem forBundlers_pure_docs (s : EState) (h : Bundler → Bundler) :
    (forBundlers s (fun s b => (s, h b))).docs = s.docs := by
  have := forBundlers_docs (fun s b => (s, h b)) (fun _ => []) h (fun s b => by simp) (fun _ _ => rfl) s
  have e : s.bundlers.flatMap (fun _ => ([] : List Doc)) = [] := by
    rw [List.flatMap_eq_nil_iff]; intro _ _; rfl
  rw [this, e, List.append_nil]

theorem forBundlers_pure_bundlers (s : EState) (h : Bundler → Bundler) :
    (forBundlers s (fun s b => (s, h b))).bundlers = s.bundlers.map (fun kb => (kb.1, h kb.2)) :=
  forBundlers_bundlers (fun s b => (s, h b)) (fun _ => []) h (fun s b => by simp) (fun _ _ => rfl) s

@[simp] theorem docs_resetCheckpointMeth (s : EState) : (resetCheckpointMeth s).docs = s.docs := by
  unfold resetCheckpointMeth; split
  · rfl
  · rw [forBundlers_pure_docs]

@[simp] theorem docs_stopMovables (s : EState) : (stopMovables s).docs = s.docs := by
  unfold stopMovables; apply docs_foldl; intro s x; rfl

@[simp] theorem docs_pauseHooks (s : EState) : (pauseHooks s).docs = s.docs := by
  unfold pauseHooks
  apply docs_foldl
  intro s n
  split
  · split
    · simp only []; split <;> simp
    · rfl
  · rfl

@[simp] theorem docs_resumeHooks (s : EState) : (resumeHooks s).docs = s.docs := by
  unfold resumeHooks
  apply docs_foldl
  intro s n
  split
  · split <;> rfl
  · rfl

@[simp] theorem docs_rewindPlan (s : EState) : (rewindPlan s).2.docs = s.docs := by
  unfold rewindPlan
  simp only []
  split
  · rfl
  · rw [forBundlers_pure_docs]

theorem setState_docs {s s' : EState} {n : St} (h : setState s n = .ok s') : s'.docs = s.docs := by
  unfold setState at h; split at h
  · cases h; rfl
  · cases h

theorem setState_bundlers {s s' : EState} {n : St} (h : setState s n = .ok s') : s'.bundlers = s.bundlers := by
  unfold setState at h; split at h
  · cases h; rfl
  · cases h

/-! ## record_interruption -/

/-- the event `record_interruption(content)` emits for bundler `b` -/
def intEvent (b : Bundler) (content : String) : Doc :=
  { kind := "event", run := b.runId, stream := "interruptions", seq := b.counter "interruptions", data := [], note := content }

/-- the documents `record_interruption(content)` emits for bundler `b` -/
def intDocs (content : String) (b : Bundler) : List Doc := if b.recordInt then [intEvent b content] else []

/-- the bundler after `record_interruption` -/
def intBundler (b : Bundler) : Bundler :=
  if b.recordInt then
    ({ b with seq := assocSet "interruptions" (b.counter "interruptions" + 1) b.seq } : Bundler).commit "interruptions"
  else b

/-- GENERATED fact (bundlers.py, fix "rewind no longer rolls back seq_nums ..."): `record_interruption`
    commits the counter it used -/
theorem record_interruption_commits : Src.bundlerCommits.contains "record_interruption" = true := by decide

theorem bundlerCommits_nonempty : Src.bundlerCommits.isEmpty = false := by decide

theorem recordInterruption_docs (s : EState) (b : Bundler) (c : String) :
    (recordInterruption s b c).1.docs = s.docs ++ intDocs c b := by
  unfold recordInterruption intDocs
  split
  · rfl
  · simp

theorem recordInterruption_bundler (s : EState) (b : Bundler) (c : String) :
    (recordInterruption s b c).2 = intBundler b := by
  unfold recordInterruption intBundler
  split
  · simp only [emitEvent, record_interruption_commits, if_true]
  · rfl

theorem forBundlers_record_docs (s : EState) (c : String) :
    (forBundlers s (fun s b => recordInterruption s b c)).docs = s.docs ++ s.bundlers.flatMap (fun kb => intDocs c kb.2) :=
  forBundlers_docs _ (intDocs c) intBundler (fun s b => recordInterruption_docs s b c)
    (fun s b => recordInterruption_bundler s b c) s

theorem forBundlers_record_bundlers (s : EState) (c : String) :
    (forBundlers s (fun s b => recordInterruption s b c)).bundlers = s.bundlers.map (fun kb => (kb.1, intBundler kb.2)) :=
  forBundlers_bundlers _ (intDocs c) intBundler (fun s b => recordInterruption_docs s b c)
    (fun s b => recordInterruption_bundler s b c) s

/-! ## numbering invariant of the interruptions stream of one bundler -/

/-- `n` interruption events were emitted so far; `ok`: the checkpoint copy of the counter is current -/
structure IInv (ok : Bool) (b : Bundler) (n : Nat) : Prop where
  on : b.recordInt = true
  seq : assocGet "interruptions" b.seq = some (n + 1)
  nd : (keys b.seq).Nodup
  ndc : (keys b.seqCopy).Nodup
  copy : ok = true → assocGet "interruptions" b.seqCopy = some (n + 1)

theorem IInv.counter {ok b n} (h : IInv ok b n) : b.counter "interruptions" = n + 1 := by
  unfold Bundler.counter; rw [h.seq]; rfl

theorem IInv.weaken {ok b n} (h : IInv ok b n) : IInv false b n :=
  { h with copy := fun e => by cases e }

theorem resetCheckpoint_seqCopy (b : Bundler) : b.resetCheckpoint.seqCopy = overlay b.seq b.seqCopy := rfl

theorem IInv.record {ok b n} (h : IInv ok b n) : IInv true (intBundler b) (n + 1) := by
  unfold intBundler
  rw [if_pos h.on]
  unfold Bundler.commit
  rw [bundlerCommits_nonempty]
  simp only [Bool.false_eq_true, if_false, h.counter, assocGet_assocSet_same]
  exact { on := h.on, seq := assocGet_assocSet_same _ _ _, nd := nodup_keys_assocSet _ _ _ h.nd,
          ndc := nodup_keys_assocSet _ _ _ h.ndc, copy := fun _ => assocGet_assocSet_same _ _ _ }

theorem IInv.resetCheckpoint {ok b n} (h : IInv ok b n) : IInv true b.resetCheckpoint n :=
  { on := h.on, seq := h.seq, nd := h.nd,
    ndc := by rw [resetCheckpoint_seqCopy]; exact nodup_keys_overlay _ _ h.ndc,
    copy := fun _ => by rw [resetCheckpoint_seqCopy]; exact overlay_get_mem _ _ _ _ h.nd h.seq }

theorem IInv.clearCheckpoint {ok b n} (h : IInv ok b n) : IInv false { b with seqCopy := [] } n :=
  { on := h.on, seq := h.seq, nd := h.nd, ndc := by simp [keys], copy := fun e => by cases e }

/-- the loop of `rewind` that re-creates counters of streams rolled back to their very beginning -/
theorem rewind_fix (ds : List (String × List String)) (a c : List (String × Nat)) (v : Nat)
    (ha : assocGet "interruptions" a = some v) (hc : assocGet "interruptions" c = some v)
    (na : (keys a).Nodup) (nc : (keys c).Nodup) :
    let r := ds.foldl (fun (acc : List (String × Nat) × List (String × Nat)) (kd : String × List String) =>
      if (assocGet kd.1 acc.1).isNone then (assocSet kd.1 1 acc.1, assocSet kd.1 1 acc.2) else acc) (a, c)
    assocGet "interruptions" r.1 = some v ∧ assocGet "interruptions" r.2 = some v ∧ (keys r.1).Nodup ∧ (keys r.2).Nodup := by
  induction ds generalizing a c with
  | nil => exact ⟨ha, hc, na, nc⟩
  | cons kd ds ih =>
    simp only [List.foldl_cons]
    split
    · rename_i hnone
      have hne : kd.1 ≠ "interruptions" := by
        intro e; rw [e, ha] at hnone; cases hnone
      exact ih _ _ (by rw [assocGet_assocSet_ne _ _ _ _ hne]; exact ha) (by rw [assocGet_assocSet_ne _ _ _ _ hne]; exact hc)
        (nodup_keys_assocSet _ _ _ na) (nodup_keys_assocSet _ _ _ nc)
    · exact ih _ _ ha hc na nc

theorem IInv.rewind {b n} (h : IInv true b n) : IInv true b.rewind n := by
  have := rewind_fix b.descriptors b.seqCopy b.seqCopy (n + 1) (h.copy rfl) (h.copy rfl) h.ndc h.ndc
  exact { on := h.on, seq := this.1, nd := this.2.2.1, ndc := this.2.2.2, copy := fun _ => this.2.1 }

theorem IInv.emitOther {ok b n} (h : IInv ok b n) (s : EState) (st : String) (d : List (String × Int)) (hst : st ≠ "interruptions") :
    IInv ok (emitEvent s b st d).2 n :=
  { on := h.on, seq := by simp only [emitEvent]; rw [assocGet_assocSet_ne _ _ _ _ hst]; exact h.seq,
    nd := nodup_keys_assocSet _ _ _ h.nd, ndc := h.ndc, copy := h.copy }

theorem IInv.commitOther {ok b n} (h : IInv ok b n) (st : String) (hst : st ≠ "interruptions") : IInv ok (b.commit st) n := by
  unfold Bundler.commit
  split
  · exact h
  · split
    · exact { on := h.on, seq := h.seq, nd := h.nd, ndc := nodup_keys_assocSet _ _ _ h.ndc,
              copy := fun e => by simp only []; rw [assocGet_assocSet_ne _ _ _ _ hst]; exact h.copy e }
    · exact h

theorem IInv.prepareOther {ok b n} (h : IInv ok b n) (s : EState) (st : String) (o : List String) (hst : st ≠ "interruptions") :
    IInv ok (prepareStream s b st o).2 n := by
  unfold prepareStream
  simp only []
  split
  · exact { on := h.on, seq := by simp only []; rw [assocGet_assocSet_ne _ _ _ _ hst]; exact h.seq,
            nd := nodup_keys_assocSet _ _ _ h.nd, ndc := nodup_keys_assocSet _ _ _ h.ndc,
            copy := fun e => by simp only []; rw [assocGet_assocSet_ne _ _ _ _ hst]; exact h.copy e }
  · exact { on := h.on, seq := h.seq, nd := h.nd, ndc := h.ndc, copy := h.copy }

/-! ## any sequence of bundler operations -/

/-- what can happen to one bundler between `open_run` and `close_run`, as far as sequence counters go -/
inductive BOp where
  | record (content : String)          -- record_interruption
  | rewind                             -- RunBundler.rewind (resume / _start_suspender)
  | resetCheckpoint                    -- reset_checkpoint_state
  | clearCheckpoint                    -- clear_checkpoint
  | emitOther (stream : String) (data : List (String × Int)) (commit : Bool)   -- save / monitor event
  | prepareOther (stream : String) (objs : List String)                        -- a new descriptor

def BOp.apply (p : EState × Bundler) : BOp → EState × Bundler
  | .record c => recordInterruption p.1 p.2 c
  | .rewind => (p.1, p.2.rewind)
  | .resetCheckpoint => (p.1, p.2.resetCheckpoint)
  | .clearCheckpoint => (p.1, { p.2 with seqCopy := [] })
  | .emitOther st d cm => ((emitEvent p.1 p.2 st d).1, if cm then (emitEvent p.1 p.2 st d).2.commit st else (emitEvent p.1 p.2 st d).2)
  | .prepareOther st o => prepareStream p.1 p.2 st o

def runOps (p : EState × Bundler) (ops : List BOp) : EState × Bundler := ops.foldl BOp.apply p

/-- `legal ok ops`: no other stream is called "interruptions", and a rewind never meets a checkpoint
    copy that was cleared (or never written) and not re-written since (`ok` = the copy is current).
    The engine only rewinds right after `record_interruption` (RE.resume, _start_suspender). -/
def legal : Bool → List BOp → Prop
  | _, [] => True
  | ok, .rewind :: r => ok = true ∧ legal true r
  | _, .clearCheckpoint :: r => legal false r
  | _, .record _ :: r => legal true r
  | _, .resetCheckpoint :: r => legal true r
  | ok, .emitOther st _ _ :: r => st ≠ "interruptions" ∧ legal ok r
  | ok, .prepareOther st _ :: r => st ≠ "interruptions" ∧ legal ok r

def nRecords : List BOp → Nat
  | [] => 0
  | .record _ :: r => nRecords r + 1
  | _ :: r => nRecords r

/-- seq_nums of the interruption events of run `rid`, in document order -/
def intSeqs (rid : Nat) (docs : List Doc) : List Nat :=
  (docs.filter (fun d => d.kind == "event" && d.stream == "interruptions" && d.run == rid)).map (·.seq)

theorem intSeqs_append (rid : Nat) (a b : List Doc) : intSeqs rid (a ++ b) = intSeqs rid a ++ intSeqs rid b := by
  simp [intSeqs]

theorem intSeqs_intEvent (b : Bundler) (c : String) : intSeqs b.runId [intEvent b c] = [b.counter "interruptions"] := by
  simp [intSeqs, intEvent]

theorem runId_recordInterruption (s : EState) (b : Bundler) (c : String) : (recordInterruption s b c).2.runId = b.runId := by
  rw [recordInterruption_bundler]; unfold intBundler Bundler.commit
  split
  · split
    · rfl
    · split <;> rfl
  · rfl

theorem runId_apply (p : EState × Bundler) (op : BOp) : (op.apply p).2.runId = p.2.runId := by
  cases op with
  | record c => exact runId_recordInterruption _ _ _
  | rewind => rfl
  | resetCheckpoint => rfl
  | clearCheckpoint => rfl
  | emitOther st d cm =>
    simp only [BOp.apply]
    split
    · unfold Bundler.commit; split
      · rfl
      · split <;> rfl
    · rfl
  | prepareOther st o =>
    simp only [BOp.apply, prepareStream]; split <;> rfl

/-- one operation: the invariant is kept, a `record` hands out the next number, nothing else emits
    into the stream -/
theorem apply_step (p : EState × Bundler) (op : BOp) (ok : Bool) (n : Nat) (r : List BOp)
    (h : IInv ok p.2 n) (hl : legal ok (op :: r)) :
    ∃ ok', IInv ok' (op.apply p).2 (n + nRecords [op]) ∧ legal ok' r ∧
      intSeqs p.2.runId (op.apply p).1.docs = intSeqs p.2.runId p.1.docs ++ List.range' (n + 1) (nRecords [op]) := by
  cases op with
  | record c =>
    refine ⟨true, ?_, hl, ?_⟩
    · simp only [BOp.apply, recordInterruption_bundler, nRecords]; exact h.record
    · simp only [BOp.apply, recordInterruption_docs, intDocs, h.on, if_true, intSeqs_append, intSeqs_intEvent, h.counter,
        nRecords]
      rfl
  | rewind =>
    obtain ⟨hok, hl⟩ := hl
    subst hok
    exact ⟨true, by simpa [BOp.apply, nRecords] using h.rewind, hl, by simp [BOp.apply, nRecords]⟩
  | resetCheckpoint =>
    exact ⟨true, by simpa [BOp.apply, nRecords] using h.resetCheckpoint, hl, by simp [BOp.apply, nRecords]⟩
  | clearCheckpoint =>
    exact ⟨false, by simpa [BOp.apply, nRecords] using h.clearCheckpoint, hl, by simp [BOp.apply, nRecords]⟩
  | emitOther st d cm =>
    obtain ⟨hst, hl⟩ := hl
    refine ⟨ok, ?_, hl, ?_⟩
    · simp only [BOp.apply, nRecords, Nat.add_zero]
      split
      · exact (h.emitOther p.1 st d hst).commitOther st hst
      · exact h.emitOther p.1 st d hst
    · have hne : (st == "interruptions") = false := by simpa using hst
      simp [BOp.apply, nRecords, emitEvent, intSeqs, hne]
  | prepareOther st o =>
    obtain ⟨hst, hl⟩ := hl
    refine ⟨ok, by simpa [BOp.apply, nRecords] using h.prepareOther p.1 st o hst, hl, ?_⟩
    simp only [BOp.apply, prepareStream, nRecords, List.range'_zero, List.append_nil]
    simp [intSeqs]

theorem nRecords_cons (op : BOp) (r : List BOp) : nRecords (op :: r) = nRecords [op] + nRecords r := by
  cases op <;> simp [nRecords] <;> omega

theorem runOps_spec (ops : List BOp) (p : EState × Bundler) (ok : Bool) (n : Nat)
    (h : IInv ok p.2 n) (hl : legal ok ops) :
    (runOps p ops).2.runId = p.2.runId ∧
    (∃ ok', IInv ok' (runOps p ops).2 (n + nRecords ops)) ∧
    intSeqs p.2.runId (runOps p ops).1.docs = intSeqs p.2.runId p.1.docs ++ List.range' (n + 1) (nRecords ops) := by
  induction ops generalizing p ok n with
  | nil => exact ⟨rfl, ⟨ok, by simpa [nRecords, runOps] using h⟩, by simp [runOps, nRecords]⟩
  | cons op r ih =>
    obtain ⟨ok', hinv, hl', hseq⟩ := apply_step p op ok n r h hl
    have := ih (op.apply p) ok' (n + nRecords [op]) hinv hl'
    have hid := runId_apply p op
    simp only [runOps, List.foldl_cons] at this ⊢
    rw [hid] at this
    refine ⟨this.1, ?_, ?_⟩
    · obtain ⟨ok'', h''⟩ := this.2.1
      exact ⟨ok'', by rw [nRecords_cons op r, ← Nat.add_assoc]; exact h''⟩
    · rw [this.2.2, hseq, nRecords_cons op r, List.append_assoc]
      congr 1
      rw [Nat.add_right_comm n _ 1]
      exact List.range'_append_1 (s := n + 1) (m := nRecords [op]) (n := nRecords r)

/-! ## recording disabled: the stream never comes into being -/

structure NoStream (b : Bundler) : Prop where
  off : b.recordInt = false
  seq : "interruptions" ∉ keys b.seq
  copy : "interruptions" ∉ keys b.seqCopy
  desc : "interruptions" ∉ keys b.descriptors

def BOp.nameOk : BOp → Prop
  | .emitOther st _ _ => st ≠ "interruptions"
  | .prepareOther st _ => st ≠ "interruptions"
  | _ => True

theorem rewind_fix_keys (k : String) (ds : List (String × List String)) (a c : List (String × Nat))
    (ha : k ∉ keys a) (hc : k ∉ keys c) (hd : k ∉ keys ds) :
    let r := ds.foldl (fun (acc : List (String × Nat) × List (String × Nat)) (kd : String × List String) =>
      if (assocGet kd.1 acc.1).isNone then (assocSet kd.1 1 acc.1, assocSet kd.1 1 acc.2) else acc) (a, c)
    k ∉ keys r.1 ∧ k ∉ keys r.2 := by
  induction ds generalizing a c with
  | nil => exact ⟨ha, hc⟩
  | cons kd ds ih =>
    simp only [keys, List.map_cons, List.mem_cons, not_or] at hd
    simp only [List.foldl_cons]
    split
    · apply ih
      · intro h; rcases (mem_keys_assocSet _ _ _ _).mp h with h | h
        · exact hd.1 h
        · exact ha h
      · intro h; rcases (mem_keys_assocSet _ _ _ _).mp h with h | h
        · exact hd.1 h
        · exact hc h
      · exact hd.2
    · exact ih _ _ ha hc hd.2

theorem NoStream.apply {p : EState × Bundler} (h : NoStream p.2) (op : BOp) (hn : op.nameOk) :
    NoStream (op.apply p).2 ∧ ∀ rid, intSeqs rid (op.apply p).1.docs = intSeqs rid p.1.docs := by
  cases op with
  | record c =>
    simp only [BOp.apply, recordInterruption, h.off]
    exact ⟨h, fun _ => rfl⟩
  | rewind =>
    have := rewind_fix_keys "interruptions" p.2.descriptors p.2.seqCopy p.2.seqCopy h.copy h.copy h.desc
    exact ⟨{ off := h.off, seq := this.1, copy := this.2, desc := h.desc }, fun _ => rfl⟩
  | resetCheckpoint =>
    refine ⟨{ off := h.off, seq := h.seq, copy := ?_, desc := h.desc }, fun _ => rfl⟩
    simp only [BOp.apply, resetCheckpoint_seqCopy]
    intro hm; rcases mem_keys_overlay _ _ _ hm with hm | hm
    · exact h.seq hm
    · exact h.copy hm
  | clearCheckpoint =>
    exact ⟨{ off := h.off, seq := h.seq, copy := by simp [BOp.apply, keys], desc := h.desc }, fun _ => rfl⟩
  | emitOther st d cm =>
    have hst : st ≠ "interruptions" := hn
    have hne : (st == "interruptions") = false := by simpa using hst
    have hseq : "interruptions" ∉ keys (emitEvent p.1 p.2 st d).2.seq := by
      simp only [emitEvent]; intro hm
      rcases (mem_keys_assocSet _ _ _ _).mp hm with hm | hm
      · exact hst hm.symm
      · exact h.seq hm
    refine ⟨?_, fun rid => by simp [BOp.apply, emitEvent, intSeqs, hne]⟩
    simp only [BOp.apply]
    split
    · unfold Bundler.commit
      split
      · exact { off := h.off, seq := hseq, copy := h.copy, desc := h.desc }
      · split
        · refine { off := h.off, seq := hseq, copy := ?_, desc := h.desc }
          simp only []; intro hm
          rcases (mem_keys_assocSet _ _ _ _).mp hm with hm | hm
          · exact hst hm.symm
          · exact h.copy hm
        · exact { off := h.off, seq := hseq, copy := h.copy, desc := h.desc }
    · exact { off := h.off, seq := hseq, copy := h.copy, desc := h.desc }
  | prepareOther st o =>
    have hst : st ≠ "interruptions" := hn
    have hdesc : "interruptions" ∉ keys (assocSet st o p.2.descriptors) := by
      intro hm; rcases (mem_keys_assocSet _ _ _ _).mp hm with hm | hm
      · exact hst hm.symm
      · exact h.desc hm
    refine ⟨?_, fun rid => by simp [BOp.apply, prepareStream, intSeqs]⟩
    simp only [BOp.apply, prepareStream]
    split
    · refine { off := h.off, seq := ?_, copy := ?_, desc := hdesc }
      · simp only []; intro hm; rcases (mem_keys_assocSet _ _ _ _).mp hm with hm | hm
        · exact hst hm.symm
        · exact h.seq hm
      · simp only []; intro hm; rcases (mem_keys_assocSet _ _ _ _).mp hm with hm | hm
        · exact hst hm.symm
        · exact h.copy hm
    · exact { off := h.off, seq := h.seq, copy := h.copy, desc := hdesc }

theorem NoStream.runOps (ops : List BOp) (p : EState × Bundler) (h : NoStream p.2) (hn : ∀ op ∈ ops, op.nameOk) :
    NoStream (runOps p ops).2 ∧ ∀ rid, intSeqs rid (runOps p ops).1.docs = intSeqs rid p.1.docs := by
  induction ops generalizing p with
  | nil => exact ⟨h, fun _ => rfl⟩
  | cons op r ih =>
    have h1 := h.apply op (hn op (by simp))
    have h2 := ih (op.apply p) h1.1 (fun o ho => hn o (by simp [ho]))
    simp only [Engine.runOps, List.foldl_cons] at h2 ⊢
    exact ⟨h2.1, fun rid => by rw [h2.2 rid, h1.2 rid]⟩

/-! ## close_run -/

@[simp] theorem docs_suspendMonitors (s : EState) (b : Bundler) : (suspendMonitors s b).1.docs = s.docs := by
  unfold suspendMonitors; apply docs_foldl; intro s x; rfl

/-- the RunStop document written for bundler `b` -/
def stopDoc (b : Bundler) (exit reason : String) : Doc :=
  { kind := "stop", run := b.runId, exit := exit, reason := reason, numEvents := b.seq.map (fun kv => (kv.1, kv.2 - 1)) }

theorem closeRunDoc_docs (s : EState) (b : Bundler) (e r : String) :
    (closeRunDoc s b e r).1.docs = s.docs ++ [stopDoc b e r] := by
  simp [closeRunDoc, clearMonitors, stopDoc]
  exact ⟨rfl, rfl⟩

end BlueskyVerif.Engine
