/-
Lemmas/C23Mutator.lean -- trace semantics of `envMutatorA` (Gen/Paired.lean): plan_mutator -- the
shared stack machine `pmStep` -- with a processor that reads, and head generators that write, a
closure variable.  The drive of the mutator is the recursive function `emGo` over the inputs:

* a message the wrapped plan yields goes out unchanged unless its object is new and the processor
  decides otherwise; then either the variable is written and the message goes out (`silent`), or
  a query goes out first (`ask q`), its response is written into the variable and swallowed, and
  then the message goes out;
* every other input goes to the wrapped plan: responses as they are, thrown `Exception`s (also
  those thrown at a query) as exceptions at the message the plan is suspended at; any other
  thrown BaseException leaves the mutator at once;
* `close()` closes the wrapped plan.

Built on the C20 / C21 plan_mutator lemmas (extracted clause tables, `close_some_not_genExit`).
-/
import BlueskyVerif.Lemmas.C23Drive
import BlueskyVerif.Gen.Paired

namespace BlueskyVerif.Gen
set_option linter.unusedSectionVars false

section
variable {σ M ι R V E : Type} [Inhabited R] [DecidableEq R] [Inhabited V] [PyExc E] [DecidableEq ι]

/-! ### the head generators as generator objects -/

/-- `new_gen()` suspended at `ret = yield q` -/
def hQ (q m : M) : Pos M R V E := ⟨(askHead q m).beh, [.send default], .live⟩
/-- ... suspended at `yield msg`, having been answered `r` -/
def hA (q m : M) (r : R) : Pos M R V E := ⟨(askHead q m).beh, [.send default, .send r], .live⟩
/-- the silent head suspended at `yield msg` -/
def hS (m : M) : Pos M R V E := ⟨(silentHead m).beh, [.send default], .live⟩

theorem new_askHead (q m : M) :
    (Pos.new (askHead q m : Prog M R V E).beh).resume (.send default) = (.yld q, hQ q m) := by
  simp [Pos.resume, Pos.new, Pos.advance, Prog.beh, askHead, Prog.after, hQ, Out.isYld]

theorem new_silentHead (m : M) :
    (Pos.new (silentHead m : Prog M R V E).beh).resume (.send default) = (.yld m, hS m) := by
  simp [Pos.resume, Pos.new, Pos.advance, Prog.beh, silentHead, Prog.after, hS, Out.isYld]

theorem hQ_send (q m : M) (r : R) : (hQ q m : Pos M R V E).resume (.send r) = (.yld m, hA q m r) := by
  simp [hQ, hA, Pos.resume, Pos.advance, Prog.beh, askHead, Prog.after, Out.isYld]

theorem hQ_throw (q m : M) (e : E) :
    ((hQ q m : Pos M R V E).resume (.throw e)).1 = .raise e := by
  simp [hQ, Pos.resume, Pos.advance, Prog.beh, askHead, Prog.after]

theorem hA_send (q m : M) (r r' : R) :
    ((hA q m r : Pos M R V E).resume (.send r')).1 = .ret default := by
  simp [hA, Pos.resume, Pos.advance, Prog.beh, askHead, Prog.after]

theorem hA_throw (q m : M) (r : R) (e : E) :
    ((hA q m r : Pos M R V E).resume (.throw e)).1 = .raise e := by
  simp [hA, Pos.resume, Pos.advance, Prog.beh, askHead, Prog.after]

theorem hS_send (m : M) (r : R) : ((hS m : Pos M R V E).resume (.send r)).1 = .ret default := by
  simp [hS, Pos.resume, Pos.advance, Prog.beh, silentHead, Prog.after]

theorem hS_throw (m : M) (e : E) : ((hS m : Pos M R V E).resume (.throw e)).1 = .raise e := by
  simp [hS, Pos.resume, Pos.advance, Prog.beh, silentHead, Prog.after]

theorem hQ_close (q m : M) : (hQ q m : Pos M R V E).close.1 = none := by
  rw [close_live _ rfl]
  simp [hQ, Pos.advance, Prog.beh, askHead, Prog.after, closeObs, PyExc.genExit_isGenExit]

theorem hA_close (q m : M) (r : R) : (hA q m r : Pos M R V E).close.1 = none := by
  rw [close_live _ rfl]
  simp [hA, Pos.advance, Prog.beh, askHead, Prog.after, closeObs, PyExc.genExit_isGenExit]

theorem hS_close (m : M) : (hS m : Pos M R V E).close.1 = none := by
  rw [close_live _ rfl]
  simp [hS, Pos.advance, Prog.beh, silentHead, Prog.after, closeObs, PyExc.genExit_isGenExit]

/-- a head suspended at the wrapped plan's own message `m` -/
inductive HeadAtMsg (isQuery : M → Bool) (m : M) : Pos M R V E → Prop where
  | afterAsk (q : M) (r : R) : HeadAtMsg isQuery m (hA q m r)
  | silent (h : isQuery m = false) : HeadAtMsg isQuery m (hS m)

theorem HeadAtMsg.send {isQuery : M → Bool} {m : M} {h : Pos M R V E} (hh : HeadAtMsg isQuery m h)
    (r : R) : (h.resume (.send r)).1 = .ret default := by
  cases hh with
  | afterAsk q r0 => exact hA_send q m r0 r
  | silent _ => exact hS_send m r

theorem HeadAtMsg.throw {isQuery : M → Bool} {m : M} {h : Pos M R V E} (hh : HeadAtMsg isQuery m h)
    (e : E) : (h.resume (.throw e)).1 = .raise e := by
  cases hh with
  | afterAsk q r0 => exact hA_throw q m r0 e
  | silent _ => exact hS_throw m e

theorem HeadAtMsg.close {isQuery : M → Bool} {m : M} {h : Pos M R V E} (hh : HeadAtMsg isQuery m h) :
    h.close.1 = none := by
  cases hh with
  | afterAsk q r0 => exact hA_close q m r0
  | silent _ => exact hS_close m

/-! ### the specification: a recursive function over the inputs -/

/-- what the model needs to know about a processor description -/
structure EnvSpec.OK (spec : EnvSpec σ M R) : Prop where
  /-- the messages heads ask with are recognised as queries -/
  ask_isQuery : ∀ env m q, spec.decide env m = .ask q → spec.isQuery q = true
  /-- the processor leaves queries alone -/
  query_pass : ∀ env q, spec.isQuery q = true → spec.decide env q = .pass
  /-- a head that asks nothing is only inserted for a message that is not itself a query -/
  silent_notQuery : ∀ env m, spec.decide env m = .silent → spec.isQuery m = false

/-- what the mutator is waiting for: the response to a plan message (`plain`) or to a query
    inserted before the plan message `m` (`query m`) -/
inductive EmMode (M : Type) where
  | plain
  | query (m : M)

/-- the wrapped plan yielded `m'`: new `msgs_seen`, new variable, mode and the message emitted -/
def emDecide (spec : EnvSpec σ M R) (key : M → ι) (seen : List ι) (env : σ) (m' : M) :
    List ι × σ × EmMode M × M :=
  if seen.contains (key m') then (seen, env, .plain, m')
  else
    match spec.decide env m' with
    | .pass => (key m' :: seen, env, .plain, m')
    | .silent => (key m' :: seen, spec.updSilent m' env, .plain, m')
    | .ask q =>
      (if (key m' :: seen).contains (key q) then key m' :: seen else key q :: key m' :: seen,
       env, .query m', q)

/-- what happens to an input -/
inductive EmIn (M R E : Type) where
  | answer (r : R) (m : M)   -- response to a query: written into the variable, then `m` goes out
  | leave (e : E)            -- a thrown non-`Exception`: leaves plan_mutator at once
  | feed                     -- goes to the wrapped plan

def emInput : EmMode M → Inp R E → EmIn M R E
  | .query m, .send r => .answer r m
  | _, .send _ => .feed
  | _, .throw e => if isException e then .feed else .leave e

/-- the mutator has just emitted `em` (annotated with the variable); the wrapped plan is `p` -/
def emGo (c : Bool) (spec : EnvSpec σ M R) (key : M → ι) :
    List ι → σ → Pos M R V E → EmMode M → M → List (Inp R E) → Drv (M × σ) R V E
  | _, env, p, _, em, [] => ⟨[(em, env)], if c then .closed p.close.1 else .alive⟩
  | seen, env, p, mode, em, i :: rest =>
    match emInput mode i with
    | .answer r m => (emGo c spec key seen (spec.updAsk em r env) p .plain m rest).cons (em, env)
    | .leave e => ⟨[(em, env)], .ended (.exc e) rest⟩
    | .feed =>
      match p.resume i with
      | (.yld m', p') =>
        (emGo c spec key (emDecide spec key seen env m').1 (emDecide spec key seen env m').2.1 p'
          (emDecide spec key seen env m').2.2.1 (emDecide spec key seen env m').2.2.2 rest).cons (em, env)
      | (.ret v, _) => ⟨[(em, env)], .ended (.ret v) rest⟩
      | (.raise x, _) => ⟨[(em, env)], .ended (.exc x) rest⟩

/-- the wrapped plan answered `r`: what the mutator does -/
def emOut (c : Bool) (spec : EnvSpec σ M R) (key : M → ι) (seen : List ι) (env : σ) :
    Out M V E × Pos M R V E → List (Inp R E) → Drv (M × σ) R V E
  | (.yld m', p'), ins =>
    emGo c spec key (emDecide spec key seen env m').1 (emDecide spec key seen env m').2.1 p'
      (emDecide spec key seen env m').2.2.1 (emDecide spec key seen env m').2.2.2 ins
  | (.ret v, _), ins => Drv.done (.ret v) ins
  | (.raise x, _), ins => Drv.done (.exc x) ins

theorem emGo_feed (c : Bool) (spec : EnvSpec σ M R) (key : M → ι) (seen : List ι) (env : σ)
    (p : Pos M R V E) (mode : EmMode M) (em : M) (i : Inp R E) (rest : List (Inp R E))
    (h : emInput mode i = .feed) :
    emGo c spec key seen env p mode em (i :: rest)
      = (emOut c spec key seen env (p.resume i) rest).cons (em, env) := by
  rw [emGo]
  simp only [h]
  rcases p.resume i with ⟨o, p'⟩
  cases o <;> rfl

/-! ### the stack machine in its stable states -/

/-- only the wrapped plan is on the stack -/
def InvA (pm : PM M ι R V E) (seen : List ι) (p : Pos M R V E) : Prop :=
  pm.msgsSeen = seen ∧ pm.planStack = [(0, p)] ∧ pm.resultStack = [] ∧ pm.tailCache = [] ∧
    pm.tailResultCache = [] ∧ pm.exception = none ∧ 1 ≤ pm.nextId

/-- a head (generator `h`, id `g`) is on top of the wrapped plan -/
def InvH (pm : PM M ι R V E) (seen : List ι) (g : Nat) (h p : Pos M R V E) : Prop :=
  pm.msgsSeen = seen ∧ pm.planStack = [(g, h), (0, p)] ∧ g ≠ 0 ∧ pm.resultStack = [] ∧
    pm.tailCache = [(g, none)] ∧ pm.tailResultCache = [] ∧ pm.exception = none ∧ 1 ≤ pm.nextId

/-- the invariant linking plan_mutator's state to the specification's parameters -/
def EmInv (spec : EnvSpec σ M R) (key : M → ι) (pm : PM M ι R V E) (seen : List ι)
    (p : Pos M R V E) : EmMode M → M → Prop
  | .plain, em => InvA pm seen p ∨ ∃ g h, InvH pm seen g h p ∧ HeadAtMsg spec.isQuery em h
  | .query m, q =>
    ∃ g, InvH pm seen g (hQ q m) p ∧ spec.isQuery q = true ∧ seen.contains (key m) = true

/-- `pmLoop` unfolded once -/
def pmCont (key : M → ι) (proc : Proc M R V E) (n : Nat) : PMRes M ι R V E → Out M V E × PMSt M ι R V E
  | .cont s' => pmLoop key proc n s'
  | .yield m s' => (.yld m, .atYield s')
  | .ret v => (.ret v, .fin)
  | .raise e => (.raise e, .fin)

theorem pmLoop_succ (key : M → ι) (proc : Proc M R V E) (n : Nat) (s : PM M ι R V E) :
    pmLoop key proc (n + 1) s = pmCont key proc n (pmIter key proc s) := by
  rw [pmLoop]
  cases pmIter key proc s <;> rfl

/-- **processing a message of the wrapped plan** (the `if id(msg) not in msgs_seen` block and, if a
    head is inserted, the iteration that starts it) -/
theorem pmCont_process (spec : EnvSpec σ M R) (hok : spec.OK) (key : M → ι) (env : σ) (f : Nat)
    (s : PM M ι R V E) (p' : Pos M R V E) (m' : M)
    (hps : s.planStack = [(0, p')]) (hrs : s.resultStack = []) (htc : s.tailCache = [])
    (htrc : s.tailResultCache = []) (hex : s.exception = none) (hn : 1 ≤ s.nextId) :
    ∃ pm', pmCont key (spec.proc env) (f + 1) (pmProcess key (spec.proc env) s m')
        = (.yld (emDecide spec key s.msgsSeen env m').2.2.2, .atYield pm') ∧
      EmInv spec key pm' (emDecide spec key s.msgsSeen env m').1 p'
        (emDecide spec key s.msgsSeen env m').2.2.1 (emDecide spec key s.msgsSeen env m').2.2.2 := by
  unfold pmProcess emDecide
  by_cases hseen : s.msgsSeen.contains (key m') = true
  · simp only [hseen, ↓reduceIte, pmCont]
    exact ⟨s, rfl, .inl ⟨rfl, hps, hrs, htc, htrc, hex, hn⟩⟩
  · simp only [hseen, Bool.false_eq_true, ↓reduceIte, EnvSpec.proc]
    cases hd : spec.decide env m' with
    | pass =>
      simp only [pmCont]
      exact ⟨_, rfl, .inl ⟨rfl, hps, hrs, htc, htrc, hex, hn⟩⟩
    | silent =>
      simp only [pmCont]
      rw [pmLoop_succ]
      unfold pmIter
      simp only [hex, hrs, hps, pmOnSend, new_silentHead, pmProcess, List.contains_cons, beq_self_eq_true,
        Bool.true_or, ↓reduceIte, pmCont]
      refine ⟨_, rfl, .inr ⟨s.nextId, hS m', ⟨rfl, rfl, by omega, rfl, ?_, htrc, rfl, by simp⟩,
        .silent (hok.silent_notQuery env m' hd)⟩⟩
      simp [htc, dictSet, dictDel]
    | ask q =>
      simp only [pmCont]
      rw [pmLoop_succ]
      unfold pmIter
      simp only [hex, hrs, hps, pmOnSend, new_askHead]
      have hq : spec.isQuery q = true := hok.ask_isQuery env m' q hd
      have hqp : ∀ env', spec.decide env' q = .pass := fun env' => hok.query_pass env' q hq
      unfold pmProcess
      by_cases hqs : (key m' :: s.msgsSeen).contains (key q) = true
      · simp only [hqs, ↓reduceIte, pmCont]
        refine ⟨_, rfl, s.nextId, ⟨rfl, rfl, by omega, rfl, ?_, htrc, rfl, by simp⟩, hq, by simp⟩
        simp [htc, dictSet, dictDel]
      · simp only [hqs, Bool.false_eq_true, ↓reduceIte, EnvSpec.proc, hqp, pmCont]
        refine ⟨_, rfl, s.nextId, ⟨rfl, rfl, by omega, rfl, ?_, htrc, rfl, by simp⟩, hq, by simp⟩
        simp [htc, dictSet, dictDel]

end
end BlueskyVerif.Gen
